import ParryModel.C13.DriverA
import ParryModel.C13.Model4
import ParryModel.C13.Model5
/-!
C13 protocol handlers, growth round fu4 (the earlier handlers are in `DriverA.lean`):
`with_inertia_matrix` after `symmetric_eigen`, inverse tensors, `set_mass`, assign operators / folds,
`Shape::mass_properties` through `dyn Shape` for every shape kind, 3-D `Compound`.
-/
namespace C13
open Model Model.Mass Proto

def pm3 : P (M3 Float) := do let a ← pv3; let b ← pv3; let c ← pv3; pure ⟨a, b, c⟩
def sort3Q (a b c : Rat) : List Rat := ([a, b, c].toArray.qsort (· < ·)).toList
def rotOfQ (f : Quat Float) : RM3 := rotOfQuat (q f.i) (q f.j) (q f.k) (q f.w)
def zero3Str : String := fmp3 (MP3.zero : MP3 Float)
def zero2Str : String := fmp2 (MP2.zero : MP2 Float)

/-- both verdicts must hold; a `fail` wins, then a `skip` -/
def both (a b : String) : String :=
  if a.startsWith "fail" then a else if b.startsWith "fail" then b
  else if a.startsWith "skip" then (if b.startsWith "skip" then a else b) else a

/-- `with_inertia_matrix(com, mass, M)` judged against `M` and the eigen-decomposition `(vals, vecs)` it was handed -/
def judgeWim (com : V3 Float) (mass : Float) (M : M3 Float) (vals : V3 Float) (vecs : M3 Float) (out : MP3 Float) : String :=
  if !finiteMP3 out then "fail nonfinite-output" else
  let Mq := rofM3 M; let V := rofM3 vecs; let D := q3 vals
  let scale := rnorm Mq + 1 / 1000000000000
  -- quality of the handed decomposition (exact): orthonormality defect and residual `M V − V D`
  let VtV := rmul (rtr V) V
  let defect := (List.range 9).foldl (fun m n => rmax m (rabs (VtV.getD n 0 - (rdiag 1 1 1).getD n 0))) 0
  let res := rsub (rmul Mq V) (rmul V (rdiag D.x D.y D.z))
  let resid := (List.range 9).foldl (fun m n => rmax m (rabs (res.getD n 0))) 0
  if defect > 1 / 10000000000 ∨ resid > scale / 10000000000 then
    "skip handed-eigen-decomposition-inaccurate (nalgebra symmetric_eigen; the recomposition is judged by mp3_sum_tensor)" else
  let n2 := q out.frame.i * q out.frame.i + q out.frame.j * q out.frame.j + q out.frame.k * q out.frame.k + q out.frame.w * q out.frame.w
  if !close n2 1 1 then "fail frame-not-unit" else
  if !(q out.com.x = q com.x ∧ q out.com.y = q com.y ∧ q out.com.z = q com.z) then "fail com-changed" else
  if q mass ≥ 0 ∧ !close (rinv (q out.invMass)) (q mass) (rabs (q mass)) then "fail mass" else
  let P : V3 Rat := ⟨rinv (q out.invI.x * q out.invI.x), rinv (q out.invI.y * q out.invI.y), rinv (q out.invI.z * q out.invI.z)⟩
  if P.x < 0 ∨ P.y < 0 ∨ P.z < 0 then "fail negative-principal-inertia" else
  let want := sort3Q (rmax D.x 0) (rmax D.y 0) (rmax D.z 0)
  let got := sort3Q P.x P.y P.z
  if !((got.zip want).all fun (g, w) => close g w scale) then s!"fail principal-inertia got={got} want={want}" else
  -- the frame is a proper rotation by construction of `rotOfQuat`; its tensor must be the (clamped) input tensor
  let T := tensorOf out
  let clamped := rmul (rmul V (rdiag (rmax D.x 0) (rmax D.y 0) (rmax D.z 0))) (rtr V)
  if !closeM T clamped scale then s!"fail recomposition got={T.toList} want={clamped.toList}"
  else if D.x ≥ 0 ∧ D.y ≥ 0 ∧ D.z ≥ 0 ∧ !closeM T Mq scale then s!"fail recomposition-vs-input got={T.toList} want={Mq.toList}"
  else "pass"

/-- exact unit-density `(mass, com, tensor about com)` of a placed 3-D part: `0 r` ball, `1 he` cuboid, `2 hh r` cylinder,
`3 hh r` cone (slicing integrals, `π` = the binary64 constant) -/
inductive Part3 where
  | ball (r : Float) | cuboid (he : V3 Float) | cyl (hh r : Float) | cone (hh r : Float)
def ppart3 : P (Iso3 Float × Part3) := do
  let m ← piso3
  let k ← pnat
  match k with
  | 0 => do let r ← pf; pure (m, .ball r)
  | 1 => do let he ← pv3; pure (m, .cuboid he)
  | 2 => do let hh ← pf; let r ← pf; pure (m, .cyl hh r)
  | _ => do let hh ← pf; let r ← pf; pure (m, .cone hh r)
def part3MP (d : Float) : Part3 → MP3 Float
  | .ball r => fromBall3 piF d r
  | .cuboid he => fromCuboid3 d he
  | .cyl hh r => fromCylinder piF d hh r
  | .cone hh r => fromCone piF d hh r
/-- local `(mass, y of centroid, (Ix, Iy, Iz) about the centroid)`, unit density -/
def part3Local : Part3 → Rat × Rat × V3 Rat
  | .ball r => let R := q r
      let (m, yc, iax, itr) := revolveMoments 1 [(-R, R, [R * R, 0, -1])]; (m, yc, ⟨itr, iax, itr⟩)
  | .cuboid he => let H := q3 he
      let m := 8 * H.x * H.y * H.z
      (m, 0, ⟨m * (H.y * H.y + H.z * H.z) / 3, m * (H.x * H.x + H.z * H.z) / 3, m * (H.x * H.x + H.y * H.y) / 3⟩)
  | .cyl hh r => let R := q r; let H := q hh
      let (m, yc, iax, itr) := revolveMoments 1 [(-H, H, [R * R])]; (m, yc, ⟨itr, iax, itr⟩)
  | .cone hh r => let R := q r; let H := q hh
      if H = 0 then (0, 0, ⟨0, 0, 0⟩) else
      let lin : List Rat := [R / 2, -R / (2 * H)]
      let (m, yc, iax, itr) := revolveMoments 1 [(-H, H, pmulp lin lin)]; (m, yc, ⟨itr, iax, itr⟩)
def part3Size : Part3 → Rat
  | .ball r => q r | .cuboid he => q he.x + q he.y + q he.z | .cyl hh r => q hh + q r | .cone hh r => q hh + q r
/-- moments about the origin of the placed part, density `ρ` -/
def part3Mom (ρ : Rat) (m : Iso3 Rat) (s : Part3) : Rat × V3 Rat × RM3 :=
  let (m0, yc, I) := part3Local s
  let mass := ρ * m0
  let Rm := rotOfQuat m.qi m.qj m.qk m.qw
  let c : V3 Rat := ⟨rget Rm 0 1 * yc + m.t.x, rget Rm 1 1 * yc + m.t.y, rget Rm 2 1 * yc + m.t.z⟩
  let T := rmul (rmul Rm (rdiag (ρ * I.x) (ρ * I.y) (ρ * I.z))) (rtr Rm)
  (mass, ⟨c.x * mass, c.y * mass, c.z * mass⟩, radd T (steiner mass c))

def handler4 (fn : String) : Option Handler :=
  match fn with
  | "mp3_wim" => some {
      model := fun a => run (do let c ← pv3; let m ← pf; let _M ← pm3; let vals ← pv3; let vecs ← pm3
                                pure (fmp3 (MP3.withInertiaEigen c m vals vecs))) a
      oracle := fun a o => match run (do let c ← pv3; let m ← pf; let M ← pm3; let vals ← pv3; let vecs ← pm3; pure (c, m, M, vals, vecs)) a with
        | some (c, m, M, vals, vecs) =>
          if o = ["stale-eigen"] then "fail stale-eigen (the case line does not carry symmetric_eigen of its matrix)" else
          withOut pomp3 o fun out => judgeWim c m M vals vecs out
        | none => "skip bad-args" }
  | "quat_from_rotmat" => some {
      model := fun a => run (do let m ← pm3
                                let q0 := Quat.fromRotMat m
                                let n := Float.sqrt ((q0.i * q0.i + q0.k * q0.k) + (q0.j * q0.j + q0.w * q0.w))
                                pure s!"{fq q0.renormalize} {ff n}") a
      oracle := fun a o => match run pm3 a with
        | some m => withOut (do let q ← pquat; let n ← pfo; pure (q, n)) o fun (f, n) =>
            let V := rofM3 m
            let VtV := rmul (rtr V) V
            let defect := (List.range 9).foldl (fun m n => rmax m (rabs (VtV.getD n 0 - (rdiag 1 1 1).getD n 0))) 0
            if defect > 1 / 1000000000000 ∨ rdet V < 0 then "skip not-a-rotation-matrix" else
            if !(FloatIO.isFinite f.i && FloatIO.isFinite f.j && FloatIO.isFinite f.k && FloatIO.isFinite f.w && FloatIO.isFinite n) then "fail nonfinite-output" else
            let n2 := q f.i * q f.i + q f.j * q f.j + q f.k * q f.k + q f.w * q f.w
            if !close n2 1 1 then "fail not-unit" else
            if !close (q n) 1 1 then "fail norm-before-renormalize-not-1" else
            if closeM (rotOfQ f) V 1 then "pass" else s!"fail rotation-of-quaternion-differs got={(rotOfQ f).toList} want={V.toList}"
        | none => "skip bad-args" }
  | "mp3_reconstruct_inv" => some {
      model := fun a => run (do let p ← pmp3; pure (fm3 p.reconstructInv)) a
      oracle := fun a o => match run pmp3 a with
        | some p => withOut pom3 o fun out =>
            let R := rotOfQ p.frame
            let T := rmul (rmul R (rdiag (q p.invI.x * q p.invI.x) (q p.invI.y * q p.invI.y) (q p.invI.z * q p.invI.z))) (rtr R)
            if !(finite3 out.r0 && finite3 out.r1 && finite3 out.r2) then "fail nonfinite-output"
            else if !closeM (rofM3 out) T (rnorm T + 1 / 1000000000000) then "fail reconstruct-inverse"
            else
              -- inverse of the tensor on the support: `T⁻¹ · T = R diag(1 or 0) Rᵀ`
              let e (x : Float) : Rat := if q x = 0 then 0 else 1
              let Pj := rmul (rmul R (rdiag (e p.invI.x) (e p.invI.y) (e p.invI.z))) (rtr R)
              let prod := rmul (rofM3 out) (tensorOf p)
              if closeM prod Pj (1 + rnorm T * rnorm (tensorOf p)) then "pass" else "fail inverse-times-tensor"
        | none => "skip bad-args" }
  | "mp3_world_inv_sqrt" => some {
      model := fun a => run (do let p ← pmp3; let r ← pquat
                                let (a, b, c, d, e, f) := p.worldInvInertiaSqrt r
                                pure s!"{ff a} {ff b} {ff c} {ff d} {ff e} {ff f}") a
      oracle := fun a o => match run (do let p ← pmp3; let r ← pquat; pure (p, r)) a with
        | some (p, r) => withOut (do let a ← pfo; let b ← pfo; let c ← pfo; let d ← pfo; let e ← pfo; let f ← pfo; pure (a, b, c, d, e, f)) o
          fun (a, b, c, d, e, f) =>
            if !(FloatIO.isFinite a && FloatIO.isFinite b && FloatIO.isFinite c && FloatIO.isFinite d && FloatIO.isFinite e && FloatIO.isFinite f) then "fail nonfinite-output" else
            let S : RM3 := #[q a, q b, q c, q b, q d, q e, q c, q e, q f]
            let Rw := rmul (rotOfQ r) (rotOfQ p.frame)
            let W := rmul (rmul Rw (rdiag (q p.invI.x) (q p.invI.y) (q p.invI.z))) (rtr Rw)
            let sc := rnorm W + 1 / 1000000000000
            if !closeM S W sc then s!"fail world-inv-inertia-sqrt got={S.toList} want={W.toList}" else
            -- its square is the world-space inverse tensor `R_w (R_f diag(invI²) R_fᵀ) R_wᵀ` (covariance under rotations)
            let Wr := rotOfQ r; let Rf := rotOfQ p.frame
            let inv := rmul (rmul Rf (rdiag (q p.invI.x * q p.invI.x) (q p.invI.y * q p.invI.y) (q p.invI.z * q p.invI.z))) (rtr Rf)
            let want := rmul (rmul Wr inv) (rtr Wr)
            if closeM (rmul S S) want (sc * sc) then "pass" else "fail square-is-not-the-world-inverse-tensor"
        | none => "skip bad-args" }
  | "mp3_set_mass" => some {
      model := fun a => run (do let p ← pmp3; let m ← pf; let adj ← pbool
                                let r := p.setMass m adj
                                pure s!"{fmp3 r} {ff r.mass} {fv3 r.principalInertia}") a
      oracle := fun a o => match run (do let p ← pmp3; let m ← pf; let adj ← pbool; pure (p, m, adj)) a with
        | some (p, m, adj) => withOut (do let r ← pomp3; let m' ← pfo; let i' ← pov3; pure (r, m', i')) o fun (r, m', i') =>
            if q m < 0 ∨ q p.invMass < 0 then "skip negative-mass" else
            if !(finiteMP3 r && FloatIO.isFinite m' && finite3 i') then "fail nonfinite-output" else
            if !(q r.com.x = q p.com.x ∧ q r.com.y = q p.com.y ∧ q r.com.z = q p.com.z ∧ q r.frame.i = q p.frame.i ∧ q r.frame.j = q p.frame.j
                 ∧ q r.frame.k = q p.frame.k ∧ q r.frame.w = q p.frame.w) then "fail com-or-frame-changed" else
            if !close (q m') (q m) (q m) then "fail mass" else
            if q m = 0 ∧ q r.invMass ≠ 0 then "fail zero-mass-must-have-zero-inverse" else
            let old : V3 Rat := ⟨rinv (q p.invI.x * q p.invI.x), rinv (q p.invI.y * q p.invI.y), rinv (q p.invI.z * q p.invI.z)⟩
            let I := q3 i'
            if !adj then
              (if q r.invI.x = q p.invI.x ∧ q r.invI.y = q p.invI.y ∧ q r.invI.z = q p.invI.z then "pass" else "fail inertia-changed-without-adjust")
            else
              let prev := rinv (q p.invMass)
              if prev = 0 ∨ q m = 0 then
                -- no ratio exists: the code's convention is inv_principal_inertia_sqrt = 0 (principal_inertia() = 0)
                (if q r.invI.x = 0 ∧ q r.invI.y = 0 ∧ q r.invI.z = 0 then "pass" else "fail zero-mass-convention")
              else
                let k := q m / prev
                if close I.x (old.x * k) (old.x * k) && close I.y (old.y * k) (old.y * k) && close I.z (old.z * k) (old.z * k) then "pass"
                else s!"fail inertia-not-scaled-by-mass-ratio got=({I.x},{I.y},{I.z}) want=({old.x * k},{old.y * k},{old.z * k})"
        | none => "skip bad-args" }
  | "mp2_set_mass" => some {
      model := fun a => run (do let p ← pmp2; let m ← pf; let adj ← pbool
                                let r := p.setMass m adj
                                pure s!"{fmp2 r} {ff r.mass} {ff r.principalInertia}") a
      oracle := fun a o => match run (do let p ← pmp2; let m ← pf; let adj ← pbool; pure (p, m, adj)) a with
        | some (p, m, adj) => withOut (do let r ← pomp2; let m' ← pfo; let i' ← pfo; pure (r, m', i')) o fun (r, m', i') =>
            if q m < 0 ∨ q p.invMass < 0 then "skip negative-mass" else
            if !(finiteMP r && FloatIO.isFinite m' && FloatIO.isFinite i') then "fail nonfinite-output" else
            if !(q r.com.x = q p.com.x ∧ q r.com.y = q p.com.y) then "fail com-changed" else
            if !close (q m') (q m) (q m) then "fail mass" else
            if q m = 0 ∧ q r.invMass ≠ 0 then "fail zero-mass-must-have-zero-inverse" else
            let old := rinv (q p.invI * q p.invI)
            if !adj then (if q r.invI = q p.invI then "pass" else "fail inertia-changed-without-adjust")
            else
              let prev := rinv (q p.invMass)
              if prev = 0 ∨ q m = 0 then (if q r.invI = 0 then "pass" else "fail zero-mass-convention")
              else
                let k := q m / prev
                if close (q i') (old * k) (old * k) then "pass" else s!"fail inertia-not-scaled-by-mass-ratio got={q i'} want={old * k}"
        | none => "skip bad-args" }
  | "mp2_assign" => some {
      model := fun a => run (do let x ← pmp2; let y ← pmp2
                                pure s!"{fmp2 (MP2.add x y)} {fmp2 (MP2.sub x y)} {zero2Str} {fb (MP2.zero : MP2 Float).isZero}") a
      oracle := fun a o =>
        match handlerA "mp2_add", handlerA "mp2_sub" with
        | some ha, some hs =>
          if o.length != 13 then "fail unparsable-output" else
          let z := (o.drop 8).take 4
          if z != ["0000000000000000", "0000000000000000", "0000000000000000", "0000000000000000"] ∨ o.getLast? != some "1" then "fail zero-is-not-zero" else
          both (ha.oracle a (o.take 4)) (hs.oracle a ((o.drop 4).take 4))
        | _, _ => "skip no-base-handler" }
  | "mp3_assign" => some {
      model := fun a => run (do let x ← pmp3; let y ← pmp3
                                pure s!"{fmc3 (MP3.addObs x y)} {fmc3 (MP3.subObs x y)} {zero3Str}") a
      oracle := fun a o =>
        match handlerA "mp3_add", handlerA "mp3_sub" with
        | some ha, some hs =>
          if o.length != 19 then "fail unparsable-output" else
          if (o.drop 8) != zero3Str.splitOn " " then "fail zero-is-not-zero" else
          both (ha.oracle a (o.take 4)) (hs.oracle a ((o.drop 4).take 4))
        | _, _ => "skip no-base-handler" }
  | "mp2_fold" => some {
      model := fun a => run (do let ps ← plist pmp2; pure (fmp2 (ps.foldl MP2.add MP2.zero))) a
      oracle := fun a o => match run (plist pmp2) a with
        | some ps => withOut pomp2 o fun out =>
            if ps.any (fun p => q p.invMass < 0) then "skip negative-mass" else
            -- `zero()` members are skipped by `+`; a massless first operand followed by a massive one: see mp2_add
            let tot := sumMom (ps.map mom)
            if tot.1 = 0 then
              (if close (obs out).2.2 (ps.foldl (fun s p => s + (obs p).2.2) 0) (momScale ps).2.2 ∧ q out.invMass = 0 then "pass" else "fail massless-fold")
            else judgeMoments tot (momScale ps) out
        | none => "skip bad-args" }
  | "compound3_shape" => some {
      model := fun a => run (do let d ← pf; let ps ← plist ppart3
                                if ps.isEmpty then pure "none" else
                                let moved := ps.map fun (m, s) => (part3MP d s).transformBy m
                                let r := MP3.sumRaw moved
                                pure s!"{ff (inv (inv r.1))} {fv3 r.2.1}") a
      oracle := fun a o => match run (do let d ← pf; let ps ← plist ppart3; pure (d, ps)) a with
        | some (d, ps) =>
          if o = ["none"] then (if ps.isEmpty then "skip empty-compound" else "fail compound-rejected") else
          withOut (do let m ← pfo; let c ← pov3; pure (m, c)) o fun (m, c) =>
            let ρ := q d
            let ms := ps.map fun (iso, s) => part3Mom ρ (qiso3 iso) s
            let tot := sumMom3 ms
            let sc : Rat × Rat × Rat := ms.foldl (fun s e => (s.1 + rabs e.1, s.2.1 + rabs e.2.1.x + rabs e.2.1.y + rabs e.2.1.z, s.2.2 + rnorm e.2.2)) (0, 0, 0)
            if tot.1 = 0 then "skip massless-compound" else
            judgeMC3 tot sc (m, c)
        | none => "skip bad-args" }
  | "compound3_pin" => some {
      model := fun _ => some "oracle-only"
      oracle := fun a o => match run (do let d ← pf; let ps ← plist ppart3; pure (d, ps)) a with
        | some (d, ps) =>
          if o = ["none"] then (if ps.isEmpty then "skip empty-compound" else "fail compound-rejected") else
          withOut (do let m ← pfo; let c ← pov3; let p ← pov3; pure (m, c, p)) o fun (_, _, p) =>
            let ρ := q d
            let ms := ps.map fun (iso, s) => part3Mom ρ (qiso3 iso) s
            let tot := sumMom3 ms
            if tot.1 = 0 then "skip massless-compound" else
            if !finite3 p then "fail nonfinite-output" else
            let c : V3 Rat := ⟨tot.2.1.x / tot.1, tot.2.1.y / tot.1, tot.2.1.z / tot.1⟩
            let Ic := rsub tot.2.2 (steiner tot.1 c)
            let scale := ms.foldl (fun s e => s + rnorm e.2.2) 0 + 1 / 1000000000000
            let P := q3 p
            if P.x < 0 ∨ P.y < 0 ∨ P.z < 0 then "fail negative-principal-inertia" else
            let D := rdiag P.x P.y P.z
            -- the principal inertias are the eigenvalues of the exact tensor of the union: the three invariants agree
            if close (rtrace D) (rtrace Ic) scale && close (rtrace (rmul D D)) (rtrace (rmul Ic Ic)) (scale * scale)
               && close (rdet D) (rdet Ic) (scale * scale * scale) then "pass"
            else s!"fail principal-inertia got=({P.x},{P.y},{P.z}) want-tensor={Ic.toList}"
        | none => "skip bad-args" }
  | _ => none

/-! ## `Shape::mass_properties` through `dyn Shape` -/

/-- volume (3-D) of `inner ⊕ ball(br)` by Steiner's formula, for the round shapes whose inner shape is convex -/
def roundVolume3 (kind : Nat) (args : List Float) : Option Rat :=
  match kind, args with
  | 10, [hx, hy, hz, br] =>
      let A := 2 * q hx; let B := 2 * q hy; let C := 2 * q hz; let r := q br
      some (A * B * C + 2 * (A * B + B * C + C * A) * r + piQ * (A + B + C) * r * r + 4 * piQ / 3 * r * r * r)
  | 11, [hh, rad, br] =>
      let h := q hh; let R := q rad; let r := q br
      some (piQ * (2 * h * (R + r) * (R + r) + 2 * R * R * r + piQ * R * r * r + 4 * r * r * r / 3))
  | 13, [ax, ay, az, bx, by', bz, cx, cy, cz, br] =>
      let a : V3 Rat := ⟨q ax, q ay, q az⟩; let b : V3 Rat := ⟨q bx, q by', q bz⟩; let c : V3 Rat := ⟨q cx, q cy, q cz⟩
      let r := q br
      let n := (b.sub a).cross (c.sub a)
      let area := sqrtQ n.normSq / 2
      let per := sqrtQ (b.sub a).normSq + sqrtQ (c.sub b).normSq + sqrtQ (a.sub c).normSq
      some (2 * area * r + piQ / 2 * per * r * r + 4 * piQ / 3 * r * r * r)
  | _, _ => none

def isZeroOut (o : List String) : Bool := o.all fun t => t = "0000000000000000" ∨ t = "3ff0000000000000"

def handlerShape (fn : String) : Option Handler :=
  match fn with
  | "shape3" => some {
      model := fun a => match a with
        | d :: k :: rest =>
          match k.toNat? with
          | some 0 => (handler3 "from_ball3").bind fun h => h.model (d :: rest)
          | some 1 => (handler3 "from_cuboid3").bind fun h => h.model (d :: rest)
          | some 2 => (handler3 "from_cylinder").bind fun h => h.model (d :: rest)
          | some 3 => (handler3 "from_cone").bind fun h => h.model (d :: rest)
          | some 10 => (handler3 "from_cuboid3").bind fun h => h.model (d :: rest.take 3)
          | some 11 => (handler3 "from_cylinder").bind fun h => h.model (d :: rest.take 2)
          | some 12 => (handler3 "from_cone").bind fun h => h.model (d :: rest.take 2)
          | some _ => some zero3Str
          | none => none
        | _ => none
      oracle := fun a o => match a with
        | d :: k :: rest =>
          let inner (f : String) (n : Nat) : String := match handler3 f with
            | some h => h.oracle (d :: rest.take n) o
            | none => "skip no-base-handler"
          let border : String :=
            match run (plist' pf) rest, k.toNat? with
            | some xs, some kk =>
              let br := q (xs.getLast?.getD 0)
              if br = 0 then "pass" else
              match roundVolume3 kk xs, run pomp3 o with
              | some V, some out =>
                let m := rinv (q out.invMass); let want := q ((run pf [d]).getD 0) * V
                if close m want want then "pass" else s!"fail round-border-ignored mass got={m} want={want} (volume of inner ⊕ ball({br}))"
              | none, _ => "skip round-cone-volume-not-derived"
              | _, none => "fail unparsable-output"
            | _, _ => "skip bad-args"
          match k.toNat? with
          | some 0 => inner "from_ball3" 1
          | some 1 => inner "from_cuboid3" 3
          | some 2 => inner "from_cylinder" 2
          | some 3 => inner "from_cone" 2
          | some 10 => both border (inner "from_cuboid3" 3)
          | some 11 => both border (inner "from_cylinder" 2)
          | some 12 => both border (inner "from_cone" 2)
          | some 13 => both border (if o = zero3Str.splitOn " " then "pass" else "fail flat-shape-not-zero")
          -- surfaces / curves (zero volume) and unbounded shapes (half-space, height field): `zero()` by convention
          | some _ => if o = zero3Str.splitOn " " then "pass" else "fail volumeless-or-unbounded-shape-not-zero"
          | none => "skip bad-args"
        | _ => "skip bad-args" }
  | "shape3_capsule" => handler3 "from_capsule3"
  | "shape2" => some {
      model := fun a => match a with
        | d :: k :: rest =>
          match k.toNat? with
          | some 0 => (handlerA "from_ball2").bind fun h => h.model (d :: rest)
          | some 1 => (handlerA "from_cuboid2").bind fun h => h.model (d :: rest)
          | some 4 => (handlerA "from_triangle").bind fun h => h.model (d :: rest)
          | some 10 => (handlerA "from_cuboid2").bind fun h => h.model (d :: rest.take 2)
          | some 13 => (handlerA "from_triangle").bind fun h => h.model (d :: rest.take 6)
          | some _ => some zero2Str
          | none => none
        | _ => none
      oracle := fun a o => match a with
        | d :: k :: rest =>
          let inner (f : String) (n : Nat) : String := match handlerA f with
            | some h => h.oracle (d :: rest.take n) o
            | none => "skip no-base-handler"
          let border : String :=
            match run (plist' pf) rest, k.toNat?, run pomp2 o with
            | some xs, some kk, some out =>
              let br := q (xs.getLast?.getD 0)
              if br = 0 then "pass" else
              let ρ := q ((run pf [d]).getD 0)
              let area : Rat := match kk, xs with
                | 10, [hx, hy, _] => 4 * q hx * q hy + 4 * (q hx + q hy) * br + piQ * br * br
                | _, [ax, ay, bx, by', cx, cy, _] =>
                    let a : V2 Rat := ⟨q ax, q ay⟩; let b : V2 Rat := ⟨q bx, q by'⟩; let c : V2 Rat := ⟨q cx, q cy⟩
                    rabs (cross2 (vsub b a) (vsub c a)) / 2 + (sqrtQ (nsq (vsub b a)) + sqrtQ (nsq (vsub c b)) + sqrtQ (nsq (vsub a c))) * br + piQ * br * br
                | _, _ => 0
              let m := rinv (q out.invMass)
              if close m (ρ * area) (ρ * area) then "pass" else s!"fail round-border-ignored mass got={m} want={ρ * area} (area of inner ⊕ disc({br}))"
            | _, _, _ => "skip bad-args"
          match k.toNat? with
          | some 0 => inner "from_ball2" 1
          | some 1 => inner "from_cuboid2" 2
          | some 4 => inner "from_triangle" 6
          | some 10 => both border (inner "from_cuboid2" 2)
          | some 13 => both border (inner "from_triangle" 6)
          | some _ => if o = zero2Str.splitOn " " then "pass" else "fail volumeless-or-unbounded-shape-not-zero"
          | none => "skip bad-args"
        | _ => "skip bad-args" }
  | _ => none
where
  /-- all remaining tokens as floats -/
  plist' (p : P Float) : P (List Float) := fun s =>
    let rec go (s : List String) (acc : List Float) (fuel : Nat) : Option (List Float × List String) :=
      match fuel, s with
      | _, [] => some (acc.reverse, [])
      | 0, _ => none
      | fuel + 1, _ => match p s with
        | some (x, rest) => go rest (x :: acc) fuel
        | none => none
    go s [] s.length

/-! ## growth round fu5: 2-D Compound with five part kinds and > 4 parts; `transform_by` vs `+` in 3-D -/

/-- parts of a 2-D compound: `0 r` ball, `1 he` cuboid, `2 n pts…` convex polygon (CCW), `3 a b c` triangle,
`4 a b` Segment (no area: `zero()`, a zero-mass member once placed) -/
inductive Part2b where
  | base (p : Part2)
  | tri (t : Triangle2 Float)
  | seg (a b : V2 Float)
def ppart2b : P (Iso2 Float × Part2b) := do
  let m ← piso2
  let k ← pnat
  match k with
  | 0 => do let r ← pf; pure (m, .base (.ball r))
  | 1 => do let he ← pv2; pure (m, .base (.cuboid he))
  | 2 => do let vs ← plist pv2; pure (m, .base (.poly vs))
  | 3 => do let t ← ptri2; pure (m, .tri t)
  | _ => do let a ← pv2; let b ← pv2; pure (m, .seg a b)
/-- `Shape::mass_properties(density)` of a part (model side); `none` = rejected / panicking part -/
def partMPb (d : Float) : Part2b → Option (MP2 Float)
  | .base p => partMP d p
  | .tri t => some (fromTriangle d t)
  | .seg _ _ => some MP2.zero
def movePt (m : Iso2 Rat) (p : V2 Rat) : V2 Rat := ⟨m.re * p.x - m.im * p.y + m.t.x, m.im * p.x + m.re * p.y + m.t.y⟩
/-- exact unit-density moments about the origin of a placed part, and the rounding allowance of its degenerate triangles -/
def partMomb (m : Iso2 Rat) : Part2b → Option ((Rat × V2 Rat × Rat) × Rat)
  | .base p => some (partMom m p, 0)
  | .tri t =>
      let a := movePt m (q2 t.a); let b := movePt m (q2 t.b); let c := movePt m (q2 t.c)
      some (triMom a b c, triSlack a b c)
  | .seg _ _ => some ((0, ⟨0, 0⟩, 0), 0)
def partExtentb (m : Iso2 Rat) : Part2b → Rat
  | .base p => partExtent m p
  | .tri t => extent (ptsOfTri t)
  | .seg a b => extent [q2 a, q2 b]

/-- exact image of origin moments `(μ, F, O)` under the rigid motion `x ↦ R x + t` -/
def movedMom3 (R : RM3) (t : V3 Rat) (M : Rat × V3 Rat × RM3) : Rat × V3 Rat × RM3 :=
  let (μ, F, O) := M
  let u : V3 Rat := ⟨rget R 0 0 * F.x + rget R 0 1 * F.y + rget R 0 2 * F.z, rget R 1 0 * F.x + rget R 1 1 * F.y + rget R 1 2 * F.z,
                     rget R 2 0 * F.x + rget R 2 1 * F.y + rget R 2 2 * F.z⟩
  let d := u.x * t.x + u.y * t.y + u.z * t.z
  let X : RM3 := rm fun i j => (if i = j then 2 * d else 0) - u.get i * t.get j - t.get i * u.get j
  (μ, ⟨u.x + μ * t.x, u.y + μ * t.y, u.z + μ * t.z⟩, radd (radd (rmul (rmul R O) (rtr R)) X) (steiner μ t))

def movedScale3 (t : V3 Rat) (sc : Rat × Rat × Rat) : Rat × Rat × Rat :=
  let n := rabs t.x + rabs t.y + rabs t.z
  (sc.1, 3 * sc.2.1 + sc.1 * n, 9 * sc.2.2 + 6 * n * sc.2.1 + 3 * n * n * sc.1)

def handler5 (fn : String) : Option Handler :=
  match fn with
  | "compound2_shape" => some {
      model := fun a => run (do let d ← pf; let ps ← plist ppart2b
                                let mps := ps.map fun (m, s) => (partMPb d s).map fun mp => (m, mp)
                                if mps.any Option.isNone then pure "none"
                                else pure (fmp2 (fromCompound2 (mps.filterMap id)))) a
      oracle := fun a o => match run (do let d ← pf; let ps ← plist ppart2b; pure (d, ps)) a with
        | some (d, ps) =>
          if o = ["none"] then "skip part-rejected" else
          withOut pomp2 o fun out =>
            let ms := ps.map fun (m, s) => partMomb (qiso2 m) s
            if ms.any Option.isNone then "fail no-panic-on-bad-index" else
            let ms := ms.filterMap id
            let tot := sumMom (ms.map Prod.fst)
            let slack := ms.foldl (fun s e => s + e.2) 0
            let ext := ps.foldl (fun e (m, s) => rmax e (partExtentb (qiso2 m) s)) 0
            let spread := extent (ps.map fun (m, _) => q2 m.t)
            judgeLamina (q d) tot (ext + spread) out slack
        | none => "skip bad-args" }
  | "mp3_tadd" => some {
      model := fun a => run (do let x ← pmp3; let y ← pmp3; let m ← piso3
                                let s := MP3.addObs x y
                                let r := MP3.addObs (x.transformBy m) (y.transformBy m)
                                pure s!"{ff s.1} {fv3 (m.act s.2.1)} {fmc3 r}") a
      oracle := fun a o => match run (do let x ← pmp3; let y ← pmp3; let m ← piso3; pure (x, y, m)) a with
        | some (x, y, m) => withOut (do let l ← pomc3; let r ← pomc3; pure (l, r)) o fun (l, r) =>
            if q x.invMass < 0 ∨ q y.invMass < 0 then "skip negative-mass" else
            let M := qiso3 m
            let want := movedMom3 (rotOfQuat M.qi M.qj M.qk M.qw) M.t (sumMom3 [mom3 x, mom3 y])
            let sc := movedScale3 M.t (momScale3 [x, y])
            both (judgeMC3 want sc l) (judgeMC3 want sc r)
        | none => "skip bad-args" }
  | "mp3_tadd_tensor" => some {
      model := fun _ => "oracle-only"
      oracle := fun a o => match run (do let x ← pmp3; let y ← pmp3; let m ← piso3; pure (x, y, m)) a with
        | some (x, y, m) => withOut (do let l ← pom3; let r ← pom3; pure (l, r)) o fun (l, r) =>
            if q x.invMass < 0 ∨ q y.invMass < 0 then "skip negative-mass" else
            let M := qiso3 m
            let want := movedMom3 (rotOfQuat M.qi M.qj M.qk M.qw) M.t (sumMom3 [mom3 x, mom3 y])
            let sc := movedScale3 M.t (momScale3 [x, y])
            -- the Float-model comparison of `judgeTensor3` is not used here (third argument = the output itself)
            let known (v : String) : String :=
              if v.startsWith "fail principal-frame" then
                "skip eigenvectors-inaccurate (nalgebra symmetric_eigen finding, reported through mp3_add_tensor)" else v
            both (known (judgeTensor3 want sc l l)) (known (judgeTensor3 want sc r r))
        | none => "skip bad-args" }
  | "mp2_world" => some {
      model := fun a => run (do let p ← pmp2; let m ← piso2; pure s!"{fv2 (p.worldCom m)} {ff (p.worldInvInertiaSqrt m)}") a
      oracle := fun a o => match run (do let p ← pmp2; let m ← piso2; pure (p, m)) a with
        | some (p, m) => withOut (do let x ← pfo; let y ← pfo; let i ← pfo; pure (x, y, i)) o fun (x, y, i) =>
            let M := qiso2 m
            let c := q2 p.com
            let want : V2 Rat := ⟨M.re * c.x - M.im * c.y + M.t.x, M.im * c.x + M.re * c.y + M.t.y⟩
            let s := rabs c.x + rabs c.y + rabs M.t.x + rabs M.t.y + 1 / 1000000
            if !(FloatIO.isFinite x && FloatIO.isFinite y) then "fail nonfinite-output"
            else if q i ≠ q p.invI then "fail inertia-changed-by-rotation"
            else if close (q x) want.x s && close (q y) want.y s then "pass"
            else s!"fail world-com got=({q x},{q y}) want=({want.x},{want.y})"
        | none => "skip bad-args" }
  | "mp3_world_com" => some {
      model := fun a => run (do let p ← pmp3; let m ← piso3; pure (fv3 (p.worldCom m))) a
      oracle := fun a o => match run (do let p ← pmp3; let m ← piso3; pure (p, m)) a with
        | some (p, m) => withOut pov3 o fun out =>
            if !finite3 out then "fail nonfinite-output" else
            let M := qiso3 m
            let Rm := rotOfQuat M.qi M.qj M.qk M.qw
            let c := q3 p.com
            let rc : V3 Rat := ⟨rget Rm 0 0 * c.x + rget Rm 0 1 * c.y + rget Rm 0 2 * c.z + M.t.x,
                                rget Rm 1 0 * c.x + rget Rm 1 1 * c.y + rget Rm 1 2 * c.z + M.t.y,
                                rget Rm 2 0 * c.x + rget Rm 2 1 * c.y + rget Rm 2 2 * c.z + M.t.z⟩
            let s := rabs c.x + rabs c.y + rabs c.z + rabs M.t.x + rabs M.t.y + rabs M.t.z + 1 / 1000000
            if close (q out.x) rc.x s && close (q out.y) rc.y s && close (q out.z) rc.z s then "pass" else "fail world-com"
        | none => "skip bad-args" }
  | _ => none

def handler (fn : String) : Option Handler :=
  match handlerA fn with
  | some h => some h
  | none => match handler4 fn with
    | some h => some h
    | none => match handlerShape fn with
      | some h => some h
      | none => handler5 fn

end C13
