import ParryModel.Field
import ParryModel.C13.Model
/-!
# C13 property theorems: mass properties.
-/
namespace C13
open Model Model.Mass

variable {K : Type} [Field K] [LinearOrder K] [IsStrictOrderedRing K] (sq : K → K)

/-- `Triangle::unit_angular_inertia` is the polar moment per unit area **about vertex `a`**:
`(|e1|² + e1·e2 + |e2|²)/6` with `e1 = b - a`, `e2 = c - a`. -/
theorem triangle_unit_inertia_about_a (t : Triangle2 K) :
    letI := fieldNum K sq
    triUnitInertia t =
      ((t.b.sub t.a).normSq + (t.b.sub t.a).dot (t.c.sub t.a) + (t.c.sub t.a).normSq) / 6 := by
  simp only [triUnitInertia, V2.sub, V2.normSq, V2.dot, fieldNum_lit]
  have h6 : ((mkRat 6 1 : ℚ) : K) = 6 := by norm_num
  rw [h6]; ring

end C13
