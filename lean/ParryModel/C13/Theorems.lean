import ParryModel.C13.Theorems4
import ParryModel.C13.Model5
import ParryModel.C13.Theorems3
import ParryModel.C13.Theorems2
import ParryModel.C13.Lemmas
import Mathlib.Analysis.SpecialFunctions.Integrals.Basic
import Mathlib.Analysis.SpecialFunctions.Sqrt
/-!
# C13 property theorems: mass properties

All statements are about the model functions of `C13/Model.lean` instantiated at the lawful instance `fieldNum K sq`
(any linearly ordered field `K`; `LawfulSqrt sq` is a hypothesis wherever the stored `1/√I` is read back), and — in the last
section — at `ℝ` with `Real.sqrt`, `Real.pi` and Mathlib's `intervalIntegral`.

Specification vocabulary (defined in `C13/Lemmas.lean`, short, to be trusted):
* `massOf a = a.invMass⁻¹`, `inertiaOf a = (a.invI²)⁻¹`, `momentAbout a p = inertiaOf a + massOf a · |p − a.com|²` (parallel axis);
* `SameMoments a b`: equal mass, first moment `mass·com` and `momentAbout · p` for every `p`;
* `totMass/totFx/totFy/totMoment ps p`: the sums of those over a list of parts;
* `cross t`, `sumSqSides t`, `shoelace/shoelaceFx/shoelaceFy/shoelaceJ`, `SeesCCW`: triangle / polygon closed forms;
* `massOf3`, `inertiaOf3`, `steiner3`, `madd`, `mtr`: the 3-D analogues.

Sections: triangle · `+`/`Sum`/`-`/`transform_by` algebra (2-D) · 2-D trimesh = Σ triangles · convex polygon = Σ fans and its
closed form · closed forms of the primitives (2-D, 3-D) · 3-D additivity before the eigen-decomposition and 3-D covariance ·
integrals over ℝ (triangle, rectangle, ball, cylinder, cone, end-cap centroids) · non-vacuity examples.
-/
namespace C13
open Model Model.Mass

variable {K : Type} [Field K] [LinearOrder K] [IsStrictOrderedRing K] (sq : K → K)

/-- `Triangle::unit_angular_inertia` is the polar moment per unit area **about vertex `a`**:
`(|e1|² + e1·e2 + |e2|²)/6` with `e1 = b - a`, `e2 = c - a`. -/
theorem triangle_unit_inertia_about_a (t : Triangle2 K) :
    letI := fieldNum K sq
    triUnitInertia t =
      ((t.b.sub t.a).normSq + (t.b.sub t.a).dot (t.c.sub t.a) + (t.c.sub t.a).normSq) / 6 := by
  simp only [triUnitInertia, V2.sub, V2.normSq, V2.dot, fieldNum_lit]
  have h6 : ((mkRat 6 1 : ℚ) : K) = 6 := by norm_num
  rw [h6]; ring

/-- **Kahan's formula is the shoelace area**: with a lawful square root, `Triangle::area` (Kahan's product on the three sorted
side lengths, clamped at 0, square root, `/4`) equals `|(b−a)×(c−a)| / 2`, for every triangle (degenerate ones included). -/
theorem triangle_area_eq (hs : LawfulSqrt sq) (t : Triangle2 K) :
    letI := fieldNum K sq
    triArea t = |(t.b.sub t.a).perp (t.c.sub t.a)| / 2 := by
  have hl : ((mkRat 1 4 : ℚ) : K) = 1 / 4 := by norm_num
  simp only [triArea, V2.norm, fieldNum_sqrt, fieldNum_nmax, fieldNum_lit, hl]
  rw [heron_sorted]
  have hA := hs.sq_mul (@V2.normSq K (fieldNum K sq) (@V2.sub K (fieldNum K sq) t.b t.a)) (normSq_nonneg sq _)
  have hB := hs.sq_mul (@V2.normSq K (fieldNum K sq) (@V2.sub K (fieldNum K sq) t.c t.b)) (normSq_nonneg sq _)
  have hC := hs.sq_mul (@V2.normSq K (fieldNum K sq) (@V2.sub K (fieldNum K sq) t.a t.c)) (normSq_nonneg sq _)
  rw [hA, hB, hC]
  set p := @V2.perp K (fieldNum K sq) (@V2.sub K (fieldNum K sq) t.b t.a) (@V2.sub K (fieldNum K sq) t.c t.a) with hp
  have key : 2 * (@V2.normSq K (fieldNum K sq) (@V2.sub K (fieldNum K sq) t.b t.a)) * (@V2.normSq K (fieldNum K sq) (@V2.sub K (fieldNum K sq) t.c t.b))
      + 2 * (@V2.normSq K (fieldNum K sq) (@V2.sub K (fieldNum K sq) t.c t.b)) * (@V2.normSq K (fieldNum K sq) (@V2.sub K (fieldNum K sq) t.a t.c))
      + 2 * (@V2.normSq K (fieldNum K sq) (@V2.sub K (fieldNum K sq) t.a t.c)) * (@V2.normSq K (fieldNum K sq) (@V2.sub K (fieldNum K sq) t.b t.a))
      - (@V2.normSq K (fieldNum K sq) (@V2.sub K (fieldNum K sq) t.b t.a)) * (@V2.normSq K (fieldNum K sq) (@V2.sub K (fieldNum K sq) t.b t.a))
      - (@V2.normSq K (fieldNum K sq) (@V2.sub K (fieldNum K sq) t.c t.b)) * (@V2.normSq K (fieldNum K sq) (@V2.sub K (fieldNum K sq) t.c t.b))
      - (@V2.normSq K (fieldNum K sq) (@V2.sub K (fieldNum K sq) t.a t.c)) * (@V2.normSq K (fieldNum K sq) (@V2.sub K (fieldNum K sq) t.a t.c))
      = (2 * |p|) * (2 * |p|) := by
    have : (2 * |p|) * (2 * |p|) = 4 * (p * p) := by rw [show (2 * |p|) * (2 * |p|) = 4 * (|p| * |p|) by ring, abs_mul_abs_self]
    rw [this, hp]
    simp only [V2.normSq, V2.dot, V2.sub, V2.perp]
    ring
  rw [key]
  have hnn : (0:K) ≤ 2 * |p| * (2 * |p|) := by positivity
  rw [max_eq_left hnn]
  have h1 := hs.sq_mul _ hnn
  have h2 := hs.nonneg _ hnn
  have h3 : sq (2 * |p| * (2 * |p|)) = 2 * |p| := by
    have h4 : (0:K) ≤ 2 * |p| := by positivity
    nlinarith [mul_self_eq_mul_self_iff.1 h1]
  rw [h3]; ring

/-- **`+` is additive in the moments (2-D)**, for all operands with non-negative masses — `zero()`, massless bodies that still
carry inertia and two massless operands included: the mass, the first moment `mass·com` and the second moment about *every*
point `p` (`I + m|p − com|²`, parallel-axis) of `a + b` are the sums of those of `a` and `b`. -/
theorem add_moments (hs : LawfulSqrt sq) (a b : MP2 K) (ha : 0 ≤ a.invMass) (hb : 0 ≤ b.invMass) :
    letI := fieldNum K sq
    massOf (a.add b) = massOf a + massOf b ∧
    (a.add b).com.x * massOf (a.add b) = a.com.x * massOf a + b.com.x * massOf b ∧
    (a.add b).com.y * massOf (a.add b) = a.com.y * massOf a + b.com.y * massOf b ∧
    ∀ p : V2 K, momentAbout (a.add b) p = momentAbout a p + momentAbout b p := by
  unfold MP2.add
  split_ifs with hza hzb
  · rw [isZero_iff] at hza
    obtain ⟨h1, h2, h3, h4⟩ := hza
    simp [massOf, momentAbout, inertiaOf, h1, h2, h3, h4]
  · rw [isZero_iff] at hzb
    obtain ⟨h1, h2, h3, h4⟩ := hzb
    simp [massOf, momentAbout, inertiaOf, h1, h2, h3, h4]
  have hm1 : 0 ≤ a.invMass⁻¹ := inv_nonneg.2 ha
  have hm2 : 0 ≤ b.invMass⁻¹ := inv_nonneg.2 hb
  simp only [shifted_spec, inv_spec, V2.sub, V2.add, V2.smul, massOf, momentAbout, inertiaOf, fieldNum_sqrt]
  set m1 := a.invMass⁻¹ with hm1d
  set m2 := b.invMass⁻¹ with hm2d
  set I1 := (a.invI * a.invI)⁻¹ with hI1
  set I2 := (b.invI * b.invI)⁻¹ with hI2
  have hI1n : 0 ≤ I1 := inv_nonneg.2 (mul_self_nonneg _)
  have hI2n : 0 ≤ I2 := inv_nonneg.2 (mul_self_nonneg _)
  set cx := (a.com.x * m1 + b.com.x * m2) * (m1 + m2)⁻¹ with hcx
  set cy := (a.com.y * m1 + b.com.y * m2) * (m1 + m2)⁻¹ with hcy
  have hIn : 0 ≤ I1 + m1 * ((cx - a.com.x) ^ 2 + (cy - a.com.y) ^ 2) + (I2 + m2 * ((cx - b.com.x) ^ 2 + (cy - b.com.y) ^ 2)) := by
    positivity
  rw [sqrt_roundtrip sq hs _ hIn, inv_inv]
  rcases eq_or_ne (m1 + m2) 0 with h0 | h0
  · have e1 : m1 = 0 := by linarith
    have e2 : m2 = 0 := by linarith
    simp [e1, e2]
  · refine ⟨rfl, ?_, ?_, ?_⟩
    · simp only [hcx]; field_simp
    · simp only [hcy]; field_simp
    · intro p
      have := add_core m1 m2 a.com.x a.com.y b.com.x b.com.y p.x p.y h0
      simp only at this
      linear_combination this

/-- `Triangle::center` (`a/3 + b/3 + c/3`) is the centroid `(a + b + c)/3`. -/
theorem triangle_center_eq (t : Triangle2 K) :
    letI := fieldNum K sq
    triCenter t = ⟨(t.a.x + t.b.x + t.c.x) / 3, (t.a.y + t.b.y + t.c.y) / 3⟩ := by
  have h3 : ((mkRat 3 1 : ℚ) : K) = 3 := by norm_num
  simp only [triCenter, V2.add, V2.smul, fieldNum_lit, h3]
  congr 1 <;> ring

/-- **Parallel-axis shift to the centroid**: the unit polar moment about vertex `a` minus `|g − a|²` is the unit polar moment
about the centroid `g`, the vertex-symmetric closed form `(|ab|² + |bc|² + |ca|²)/36`. -/
theorem triangle_centroid_inertia (t : Triangle2 K) :
    letI := fieldNum K sq
    triUnitInertia t - ((triCenter t).sub t.a).normSq = sumSqSides t / 36 := by
  have h3 : ((mkRat 3 1 : ℚ) : K) = 3 := by norm_num
  have h6 : ((mkRat 6 1 : ℚ) : K) = 6 := by norm_num
  simp only [triUnitInertia, triCenter, V2.add, V2.smul, V2.sub, V2.normSq, V2.dot, fieldNum_lit, h3, h6, sumSqSides]
  ring

/-- **`from_triangle` (corrected)** on a non-degenerate triangle, density `ρ > 0`: mass `ρ·area`, centre of mass at the centroid,
inertia about the centre of mass `mass·(|ab|² + |bc|² + |ca|²)/36` (invariant under relabelling the vertices). -/
theorem from_triangle_spec (hs : LawfulSqrt sq) (ρ : K) (hρ : 0 < ρ) (t : Triangle2 K) (hnd : cross t ≠ 0) :
    letI := fieldNum K sq
    massOf (fromTriangle ρ t) = ρ * (|cross t| / 2) ∧
    (fromTriangle ρ t).com = ⟨(t.a.x + t.b.x + t.c.x) / 3, (t.a.y + t.b.y + t.c.y) / 3⟩ ∧
    inertiaOf (fromTriangle ρ t) = ρ * (|cross t| / 2) * (sumSqSides t / 36) := by
  have harea := triangle_area_eq sq hs t
  have hcr : @V2.perp K (fieldNum K sq) (@V2.sub K (fieldNum K sq) t.b t.a) (@V2.sub K (fieldNum K sq) t.c t.a) = cross t := by
    simp only [V2.perp, V2.sub, cross]
  rw [hcr] at harea
  have hpos : 0 < |cross t| / 2 := by positivity
  unfold fromTriangle
  simp only [fieldNum_neq', harea]
  rw [if_neg (by simpa using hpos.ne')]
  simp only [MP2.new, massOf, inertiaOf, inv_spec, inv_inv, fieldNum_sqrt]
  refine ⟨by ring, triangle_center_eq sq t, ?_⟩
  rw [triangle_centroid_inertia]
  have hI : 0 ≤ sumSqSides t / 36 * (|cross t| / 2) * ρ := by
    have := sumSqSides_pos t hnd
    positivity
  rw [sqrt_roundtrip sq hs _ hI]; ring

/-- `Triangle::area` is never negative. -/
theorem triangle_area_nonneg (hs : LawfulSqrt sq) (t : Triangle2 K) : 0 ≤ @triArea K (fieldNum K sq) t := by
  rw [triangle_area_eq sq hs]; positivity

/-- observables of the corrected `from_triangle`, degenerate triangles included (their mass and inertia are `0`) -/
theorem from_triangle_obs (hs : LawfulSqrt sq) (ρ : K) (hρ : 0 ≤ ρ) (t : Triangle2 K) :
    letI := fieldNum K sq
    massOf (fromTriangle ρ t) = triArea t * ρ ∧
    (fromTriangle ρ t).com = triCenter t ∧
    inertiaOf (fromTriangle ρ t) = sumSqSides t / 36 * triArea t * ρ := by
  have hA := triangle_area_nonneg sq hs t
  unfold fromTriangle
  simp only [fieldNum_neq']
  by_cases h0 : @triArea K (fieldNum K sq) t = 0
  · simp [h0, MP2.new, massOf, inertiaOf, inv_spec, fieldNum_sqrt, sqrt_zero sq hs]
  · rw [if_neg (by simpa using h0)]
    simp only [MP2.new, massOf, inertiaOf, inv_spec, inv_inv, fieldNum_sqrt, triangle_centroid_inertia]
    refine ⟨trivial, trivial, ?_⟩
    have hI : 0 ≤ sumSqSides t / 36 * @triArea K (fieldNum K sq) t * ρ := by
      have := sumSqSides_nonneg t
      positivity
    rw [sqrt_roundtrip sq hs _ hI]

/-- **Refutation of the pinned `from_triangle`**: it reports the inertia about vertex `a`, i.e. the correct inertia about the
centre of mass **plus** `mass·|g − a|²` — strictly too large for every non-degenerate triangle (unit right triangle: `1/6`
instead of `1/18`, see the example at the end of this file). -/
theorem from_triangle_pinned_overestimates (hs : LawfulSqrt sq) (ρ : K) (hρ : 0 ≤ ρ) (t : Triangle2 K) :
    letI := fieldNum K sq
    inertiaOf (fromTrianglePinned ρ t) =
      inertiaOf (fromTriangle ρ t) + massOf (fromTriangle ρ t) * ((triCenter t).sub t.a).normSq := by
  obtain ⟨h1, _, h3⟩ := from_triangle_obs sq hs ρ hρ t
  rw [h1, h3]
  have hA := triangle_area_nonneg sq hs t
  unfold fromTrianglePinned
  simp only [fieldNum_neq']
  by_cases h0 : @triArea K (fieldNum K sq) t = 0
  · simp [h0, MP2.new, inertiaOf, inv_spec, fieldNum_sqrt, sqrt_zero sq hs]
  · rw [if_neg (by simpa using h0)]
    simp only [MP2.new, inertiaOf, inv_spec, fieldNum_sqrt]
    have e := triangle_centroid_inertia sq t
    have hn := normSq_nonneg sq (@V2.sub K (fieldNum K sq) (@triCenter K (fieldNum K sq) t) t.a)
    have hu : 0 ≤ @triUnitInertia K (fieldNum K sq) t := by
      have := sumSqSides_nonneg t; linarith [e]
    have hI : 0 ≤ @triUnitInertia K (fieldNum K sq) t * @triArea K (fieldNum K sq) t * ρ := by positivity
    rw [sqrt_roundtrip sq hs _ hI]
    linear_combination (@triArea K (fieldNum K sq) t * ρ) * e

/-- **`Sum`** : the moments of `MassProperties::sum` are the sums of the members' moments (zero-mass members included). -/
theorem sum_moments (hs : LawfulSqrt sq) (ps : List (MP2 K)) (h : ∀ a ∈ ps, 0 ≤ a.invMass) :
    letI := fieldNum K sq
    massOf (MP2.sum ps) = totMass ps ∧
    (MP2.sum ps).com.x * massOf (MP2.sum ps) = totFx ps ∧
    (MP2.sum ps).com.y * massOf (MP2.sum ps) = totFy ps ∧
    ∀ p : V2 K, momentAbout (MP2.sum ps) p = totMoment ps p := by
  obtain ⟨f1, f2, f3⟩ := foldl_sumAcc sq ps (0, ⟨0, 0⟩)
  have hM := totMass_nonneg ps h
  simp only [zero_add] at f1 f2 f3
  unfold MP2.sum
  simp only [foldl_shifted, zero_add, V2.zero, f1, massOf, momentAbout, inertiaOf, inv_spec, inv_inv, fieldNum_sqrt]
  rcases hM.eq_or_lt with h0 | hpos
  · -- massless family
    obtain ⟨g1, g2⟩ := massless_family ps h h0.symm
    rw [if_neg (by rw [← h0]; exact lt_irrefl _)]
    rw [sqrt_roundtrip sq hs _ (totMoment_nonneg ps h _)]
    refine ⟨trivial, by rw [← h0, g1]; ring, by rw [← h0, g2]; ring, ?_⟩
    intro p
    rw [list_parallel_axis ps p _, g1, g2, ← h0]; ring
  · rw [if_pos hpos]
    rw [sqrt_roundtrip sq hs _ (totMoment_nonneg ps h _)]
    simp only [V2.sdiv, f2, f3]
    refine ⟨trivial, by field_simp, by field_simp, ?_⟩
    intro p
    rw [list_parallel_axis_com ps p ⟨totFx ps / totMass ps, totFy ps / totMass ps⟩ (by field_simp) (by field_simp)]

/-- moments of the family of (corrected) `from_triangle` parts of a triangle list -/
private theorem parts_tot (hs : LawfulSqrt sq) (ρ : K) (hρ : 0 ≤ ρ) (ts : List (Triangle2 K)) (c : V2 K) :
    letI := fieldNum K sq
    totMass (ts.map (fromTriangle ρ)) = (ts.map triArea).sum * ρ ∧
    totFx (ts.map (fromTriangle ρ)) = (ts.map fun t => (triCenter t).x * triArea t).sum * ρ ∧
    totFy (ts.map (fromTriangle ρ)) = (ts.map fun t => (triCenter t).y * triArea t).sum * ρ ∧
    totMoment (ts.map (fromTriangle ρ)) c = (ts.map (meshTerm c)).sum * ρ := by
  induction ts with
  | nil => simp [totMass, totFx, totFy, totMoment]
  | cons a l ih =>
    obtain ⟨i1, i2, i3, i4⟩ := ih
    obtain ⟨o1, o2, o3⟩ := from_triangle_obs sq hs ρ hρ a
    simp only [totMass, totFx, totFy, totMoment, List.map_cons, List.sum_cons] at i1 i2 i3 i4 ⊢
    rw [i1, i2, i3, i4]
    simp only [momentAbout, o1, o2, o3, meshTerm]
    have e := triangle_centroid_inertia sq a
    simp only [V2.sub, V2.normSq, V2.dot] at e ⊢
    refine ⟨by ring, by ring, by ring, ?_⟩
    linear_combination (-(@triArea K (fieldNum K sq) a) * ρ) * e

private theorem parts_invMass_nonneg (hs : LawfulSqrt sq) (ρ : K) (hρ : 0 ≤ ρ) (ts : List (Triangle2 K)) :
    ∀ a ∈ ts.map (@fromTriangle K (fieldNum K sq) ρ), 0 ≤ a.invMass := by
  intro a ha
  simp only [List.mem_map] at ha
  obtain ⟨t, _, rfl⟩ := ha
  have := (from_triangle_obs sq hs ρ hρ t).1
  have hA := triangle_area_nonneg sq hs t
  have h2 : 0 ≤ massOf (@fromTriangle K (fieldNum K sq) ρ t) := by rw [this]; positivity
  exact inv_nonneg.1 h2

/-- **2-D TriMesh = Σ of its triangles**: the (corrected) `from_trimesh` has exactly the moments of the family of
`from_triangle` parts, about every point `p` (degenerate triangles and zero total area included). -/
theorem trimesh_moments (hs : LawfulSqrt sq) (ρ : K) (hρ : 0 ≤ ρ) (ts : List (Triangle2 K)) :
    letI := fieldNum K sq
    massOf (fromTrimeshTris ρ ts) = totMass (ts.map (fromTriangle ρ)) ∧
    (fromTrimeshTris ρ ts).com.x * massOf (fromTrimeshTris ρ ts) = totFx (ts.map (fromTriangle ρ)) ∧
    (fromTrimeshTris ρ ts).com.y * massOf (fromTrimeshTris ρ ts) = totFy (ts.map (fromTriangle ρ)) ∧
    ∀ p : V2 K, momentAbout (fromTrimeshTris ρ ts) p = totMoment (ts.map (fromTriangle ρ)) p := by
  obtain ⟨f1, f2, f3⟩ := foldl_meshAcc sq ts (⟨0, 0⟩, 0)
  simp only [zero_add] at f1 f2 f3
  have hAn : 0 ≤ (ts.map (@triArea K (fieldNum K sq))).sum := by
    apply List.sum_nonneg; intro x hx; simp only [List.mem_map] at hx
    obtain ⟨b, _, rfl⟩ := hx; exact triangle_area_nonneg sq hs b
  have hpn := parts_invMass_nonneg sq hs ρ hρ ts
  unfold fromTrimeshTris meshAreaCom
  simp only [V2.zero, f1, fieldNum_neq']
  by_cases h0 : (ts.map (@triArea K (fieldNum K sq))).sum = 0
  · simp only [h0, decide_true, if_true]
    obtain ⟨p1, p2, p3, _⟩ := parts_tot sq hs ρ hρ ts ⟨0, 0⟩
    have hm0 : totMass (ts.map (@fromTriangle K (fieldNum K sq) ρ)) = 0 := by rw [p1, h0]; ring
    obtain ⟨g1, g2⟩ := massless_family _ hpn hm0
    simp only [MP2.new, massOf, momentAbout, inertiaOf, inv_spec, fieldNum_sqrt, sqrt_zero sq hs, inv_zero, mul_zero, zero_mul, add_zero]
    have hJ : ∀ p : V2 K, (ts.map (@meshTerm K (fieldNum K sq) p)).sum = 0 := fun p =>
      sum_weighted_zero ts (@triArea K (fieldNum K sq)) _ (fun t _ => triangle_area_nonneg sq hs t) h0
    refine ⟨hm0.symm, g1.symm, g2.symm, ?_⟩
    intro p
    rw [(parts_tot sq hs ρ hρ ts p).2.2.2, hJ p]; ring
  · have hApos : 0 < (ts.map (@triArea K (fieldNum K sq))).sum := lt_of_le_of_ne hAn (Ne.symm h0)
    simp only [h0, decide_false, if_false, Bool.false_eq_true]
    simp only [foldl_add_map, zero_add, V2.sdiv, f1, f2, f3]
    set A := (ts.map (@triArea K (fieldNum K sq))).sum with hA
    set Gx := (ts.map fun t => (@triCenter K (fieldNum K sq) t).x * @triArea K (fieldNum K sq) t).sum with hGx
    set Gy := (ts.map fun t => (@triCenter K (fieldNum K sq) t).y * @triArea K (fieldNum K sq) t).sum with hGy
    obtain ⟨p1, p2, p3, p4⟩ := parts_tot sq hs ρ hρ ts ⟨Gx / A, Gy / A⟩
    rw [← hA] at p1; rw [← hGx] at p2; rw [← hGy] at p3
    have hJn : 0 ≤ (ts.map (@meshTerm K (fieldNum K sq) ⟨Gx / A, Gy / A⟩)).sum * ρ := by
      rw [← p4]; exact totMoment_nonneg _ hpn _
    simp only [MP2.new, massOf, momentAbout, inertiaOf, inv_spec, inv_inv, fieldNum_sqrt]
    rw [sqrt_roundtrip sq hs _ hJn]
    refine ⟨p1.symm, ?_, ?_, ?_⟩
    · rw [p2]; field_simp
    · rw [p3]; field_simp
    · intro p
      have hx : (⟨Gx / A, Gy / A⟩ : V2 K).x * totMass (ts.map (@fromTriangle K (fieldNum K sq) ρ)) = totFx (ts.map (@fromTriangle K (fieldNum K sq) ρ)) := by
        rw [p1, p2]; field_simp
      have hy : (⟨Gx / A, Gy / A⟩ : V2 K).y * totMass (ts.map (@fromTriangle K (fieldNum K sq) ρ)) = totFy (ts.map (@fromTriangle K (fieldNum K sq) ρ)) := by
        rw [p1, p3]; field_simp
      rw [list_parallel_axis_com _ p ⟨Gx / A, Gy / A⟩ hx hy, p4, p1]

/-- **`(a + b) - b = a`** (2-D), exactly in mass, centre of mass and inertia, whenever the remaining mass and inertia are not
below the code's clamping threshold `f32::EPSILON` (`b` may be massless or `zero()`). -/
theorem sub_add_cancel (hs : LawfulSqrt sq) (a b : MP2 K) (hb : 0 ≤ b.invMass)
    (hm : 1 / 8388608 ≤ massOf a) (hi : 1 / 8388608 ≤ inertiaOf a ∨ inertiaOf a = 0) :
    letI := fieldNum K sq
    massOf ((a.add b).sub b) = massOf a ∧ ((a.add b).sub b).com = a.com ∧
      inertiaOf ((a.add b).sub b) = inertiaOf a := by
  have hma : 0 < massOf a := lt_of_lt_of_le (by norm_num) hm
  have hia : 0 < a.invMass := inv_pos.1 hma
  have hza : ¬ IsZeroMP a := fun h => hia.ne' h.2.2.1
  by_cases hzb : IsZeroMP b
  · -- `a + 0 = a`, `a - 0 = a`
    have e1 : @MP2.add K (fieldNum K sq) a b = a := by
      unfold MP2.add
      rw [if_neg (by rw [isZero_iff]; exact hza), if_pos (by rw [isZero_iff]; exact hzb)]
    rw [e1]
    have e2 : @MP2.sub K (fieldNum K sq) a b = a := by
      unfold MP2.sub
      rw [if_pos (by simp only [Bool.or_eq_true, isZero_iff]; exact Or.inr hzb)]
    rw [e2]; exact ⟨rfl, rfl, rfl⟩
  · have hmb : 0 ≤ massOf b := inv_nonneg.2 hb
    rw [add_general sq a b hza hzb]
    simp only
    have hM : 0 < a.invMass⁻¹ + b.invMass⁻¹ := by
      have : 0 < a.invMass⁻¹ := hma
      have : 0 ≤ b.invMass⁻¹ := hmb
      linarith
    rw [sub_general sq _ b (fun h => by simp only [IsZeroMP] at h; exact (inv_pos.2 hM).ne' h.2.2.1) hzb]
    simp only [massOf, inertiaOf, inv_inv] at *
    set m1 := a.invMass⁻¹ with hm1
    set m2 := b.invMass⁻¹ with hm2
    set I1 := (a.invI * a.invI)⁻¹ with hI1
    set I2 := (b.invI * b.invI)⁻¹ with hI2
    set cx := (a.com.x * m1 + b.com.x * m2) * (m1 + m2)⁻¹ with hcx
    set cy := (a.com.y * m1 + b.com.y * m2) * (m1 + m2)⁻¹ with hcy
    set Is := I1 + m1 * ((cx - a.com.x) ^ 2 + (cy - a.com.y) ^ 2) + (I2 + m2 * ((cx - b.com.x) ^ 2 + (cy - b.com.y) ^ 2)) with hIs
    have hI1n : 0 ≤ I1 := inv_nonneg.2 (mul_self_nonneg _)
    have hI2n : 0 ≤ I2 := inv_nonneg.2 (mul_self_nonneg _)
    have hIsn : 0 ≤ Is := by positivity
    have hnm : (if m1 + m2 - m2 < 1 / 8388608 then 0 else m1 + m2 - m2) = m1 := by
      rw [add_sub_cancel_right, if_neg (not_lt.2 hm)]
    have hM0 : m1 + m2 ≠ 0 := hM.ne'
    have hm10 : m1 ≠ 0 := hma.ne'
    have hcx' : (cx * (m1 + m2) - b.com.x * m2) * m1⁻¹ = a.com.x := by rw [hcx]; field_simp; ring
    have hcy' : (cy * (m1 + m2) - b.com.y * m2) * m1⁻¹ = a.com.y := by rw [hcy]; field_simp; ring
    simp only [hnm, hcx', hcy', sqrt_roundtrip sq hs Is hIsn]
    have hi0 : Is + (m1 + m2) * ((a.com.x - cx) ^ 2 + (a.com.y - cy) ^ 2)
        - (I2 + m2 * ((a.com.x - b.com.x) ^ 2 + (a.com.y - b.com.y) ^ 2)) = I1 := by
      rw [hIs, hcx, hcy]; field_simp; ring
    rw [hi0]
    have hclamp : (if I1 < 1 / 8388608 then 0 else I1) = I1 := by
      rcases hi with h | h
      · rw [if_neg (not_lt.2 h)]
      · rw [h]; simp
    rw [hclamp, sqrt_roundtrip sq hs I1 hI1n]
    exact ⟨trivial, trivial, rfl⟩

/-- `a + zero() = a` and `zero() + b = b`, exactly (structurally), as coded. -/
theorem add_zero_neutral (a : MP2 K) :
    letI := fieldNum K sq
    a.add MP2.zero = a ∧ MP2.zero.add a = a := by
  have hz : @MP2.isZero K (fieldNum K sq) (@MP2.zero K (fieldNum K sq)) = true := by
    rw [isZero_iff]; exact ⟨rfl, rfl, rfl, rfl⟩
  constructor
  · unfold MP2.add
    split_ifs with h1
    · rw [isZero_iff] at h1
      obtain ⟨e1, e2, e3, e4⟩ := h1
      rcases a with ⟨⟨x, y⟩, m, i⟩
      simp only at e1 e2 e3 e4
      subst e1 e2 e3 e4
      rfl
    · rfl
  · unfold MP2.add
    rw [if_pos hz]

/-- the stored inverse mass of `a + b` is non-negative when those of `a` and `b` are (so `+` can be iterated) -/
theorem add_invMass_nonneg (a b : MP2 K) (ha : 0 ≤ a.invMass) (hb : 0 ≤ b.invMass) :
    0 ≤ (@MP2.add K (fieldNum K sq) a b).invMass := by
  unfold MP2.add
  split_ifs
  · exact hb
  · exact ha
  · simp only [inv_spec]
    have := inv_nonneg.2 ha; have := inv_nonneg.2 hb
    positivity

private theorem sameMoments_of (a b : MP2 K) (h1 : massOf a = massOf b) (h2 : a.com.x * massOf a = b.com.x * massOf b)
    (h3 : a.com.y * massOf a = b.com.y * massOf b) (h4 : ∀ p, momentAbout a p = momentAbout b p) : SameMoments a b :=
  ⟨h1, h2, h3, h4⟩

/-- `+` is commutative up to moments. -/
theorem add_comm_moments (hs : LawfulSqrt sq) (a b : MP2 K) (ha : 0 ≤ a.invMass) (hb : 0 ≤ b.invMass) :
    letI := fieldNum K sq
    SameMoments (a.add b) (b.add a) := by
  obtain ⟨h1, h2, h3, h4⟩ := add_moments sq hs a b ha hb
  obtain ⟨g1, g2, g3, g4⟩ := add_moments sq hs b a hb ha
  exact ⟨by rw [h1, g1]; ring, by rw [h2, g2]; ring, by rw [h3, g3]; ring, fun p => by rw [h4, g4]; ring⟩

/-- `+` is associative up to moments. -/
theorem add_assoc_moments (hs : LawfulSqrt sq) (a b c : MP2 K) (ha : 0 ≤ a.invMass) (hb : 0 ≤ b.invMass) (hc : 0 ≤ c.invMass) :
    letI := fieldNum K sq
    SameMoments ((a.add b).add c) (a.add (b.add c)) := by
  have hab := add_invMass_nonneg sq a b ha hb
  have hbc := add_invMass_nonneg sq b c hb hc
  obtain ⟨h1, h2, h3, h4⟩ := add_moments sq hs a b ha hb
  obtain ⟨g1, g2, g3, g4⟩ := add_moments sq hs b c hb hc
  obtain ⟨k1, k2, k3, k4⟩ := add_moments sq hs _ c hab hc
  obtain ⟨l1, l2, l3, l4⟩ := add_moments sq hs a _ ha hbc
  exact ⟨by rw [k1, l1, h1, g1]; ring, by rw [k2, l2, h2, g2]; ring, by rw [k3, l3, h3, g3]; ring,
    fun p => by rw [k4, l4, h4, g4]; ring⟩

/-- equal moments with a non-zero mass mean equal observables (mass, centre of mass, inertia about it) -/
theorem sameMoments_obs (a b : MP2 K) (h : SameMoments a b) (hm : massOf a ≠ 0) :
    massOf a = massOf b ∧ a.com = b.com ∧ inertiaOf a = inertiaOf b := by
  obtain ⟨h1, h2, h3, h4⟩ := h
  have ex : a.com.x = b.com.x := by
    rw [← h1] at h2; exact mul_right_cancel₀ hm h2
  have ey : a.com.y = b.com.y := by
    rw [← h1] at h3; exact mul_right_cancel₀ hm h3
  refine ⟨h1, ?_, ?_⟩
  · rcases a with ⟨⟨x, y⟩, m, i⟩; rcases b with ⟨⟨x', y'⟩, m', i'⟩
    simp only at ex ey; subst ex ey; rfl
  · have := h4 a.com
    simp only [momentAbout, ex, ey, sub_self] at this
    simpa using this

/-- **covariance of `transform_by`** (2-D): mass and inertia are unchanged, the centre of mass is moved by `m`, and
the second moment about a transported point equals the original second moment (isometry invariance). -/
theorem transformBy_covariant (a : MP2 K) (m : Iso2 K) (hu : m.re * m.re + m.im * m.im = 1) :
    letI := fieldNum K sq
    massOf (a.transformBy m) = massOf a ∧ inertiaOf (a.transformBy m) = inertiaOf a ∧
    (a.transformBy m).com = m.act a.com ∧
    ∀ p : V2 K, momentAbout (a.transformBy m) (m.act p) = momentAbout a p := by
  refine ⟨rfl, rfl, rfl, ?_⟩
  intro p
  simp only [momentAbout, MP2.transformBy, Iso2.act, Iso2.rot, V2.add, massOf, inertiaOf]
  have : (m.re * p.x - m.im * p.y + m.t.x - (m.re * a.com.x - m.im * a.com.y + m.t.x)) ^ 2
       + (m.im * p.x + m.re * p.y + m.t.y - (m.im * a.com.x + m.re * a.com.y + m.t.y)) ^ 2
       = (p.x - a.com.x) ^ 2 + (p.y - a.com.y) ^ 2 := by
    linear_combination ((p.x - a.com.x) ^ 2 + (p.y - a.com.y) ^ 2) * hu
  rw [this]

/-- `transform_by` commutes with `+` up to moments: the transform of a sum is the sum of the transforms. -/
theorem transformBy_add (hs : LawfulSqrt sq) (a b : MP2 K) (ha : 0 ≤ a.invMass) (hb : 0 ≤ b.invMass)
    (m : Iso2 K) (hu : m.re * m.re + m.im * m.im = 1) :
    letI := fieldNum K sq
    SameMoments ((a.add b).transformBy m) ((a.transformBy m).add (b.transformBy m)) := by
  obtain ⟨h1, h2, h3, h4⟩ := add_moments sq hs a b ha hb
  obtain ⟨g1, g2, g3, g4⟩ := add_moments sq hs (@MP2.transformBy K (fieldNum K sq) a m) (@MP2.transformBy K (fieldNum K sq) b m) ha hb
  obtain ⟨s1, _, s3, s4⟩ := transformBy_covariant sq (@MP2.add K (fieldNum K sq) a b) m hu
  obtain ⟨a1, _, a3, a4⟩ := transformBy_covariant sq a m hu
  obtain ⟨b1, _, b3, b4⟩ := transformBy_covariant sq b m hu
  refine ⟨by rw [s1, g1, h1, a1, b1], ?_, ?_, ?_⟩
  · rw [g2, s1, s3, a1, b1, a3, b3]
    simp only [Iso2.act, Iso2.rot, V2.add]
    linear_combination m.re * h2 - m.im * h3 + m.t.x * h1
  · rw [g3, s1, s3, a1, b1, a3, b3]
    simp only [Iso2.act, Iso2.rot, V2.add]
    linear_combination m.im * h2 + m.re * h3 + m.t.y * h1
  · intro q
    rw [← act_invAct sq m hu q, s4, g4, a4, b4, h4]

/-- folding `+` over a list adds up the moments: `moments (foldl (+) acc ps) = moments acc + Σ moments ps` (non-negative masses) -/
theorem foldl_add_moments (hs : LawfulSqrt sq) (ps : List (MP2 K)) (h : ∀ a ∈ ps, 0 ≤ a.invMass)
    (acc : MP2 K) (hacc : 0 ≤ acc.invMass) :
    letI := fieldNum K sq
    0 ≤ (ps.foldl MP2.add acc).invMass ∧
    massOf (ps.foldl MP2.add acc) = massOf acc + totMass ps ∧
    (ps.foldl MP2.add acc).com.x * massOf (ps.foldl MP2.add acc) = acc.com.x * massOf acc + totFx ps ∧
    (ps.foldl MP2.add acc).com.y * massOf (ps.foldl MP2.add acc) = acc.com.y * massOf acc + totFy ps ∧
    ∀ p : V2 K, momentAbout (ps.foldl MP2.add acc) p = momentAbout acc p + totMoment ps p := by
  induction ps generalizing acc with
  | nil => simp [totMass, totFx, totFy, totMoment, hacc]
  | cons a l ih =>
    have ha : 0 ≤ a.invMass := h a (by simp)
    obtain ⟨i0, i1, i2, i3, i4⟩ := ih (fun b hb => h b (by simp [hb])) (@MP2.add K (fieldNum K sq) acc a)
      (add_invMass_nonneg sq acc a hacc ha)
    obtain ⟨h1, h2, h3, h4⟩ := add_moments sq hs acc a hacc ha
    simp only [List.foldl_cons, totMass, totFx, totFy, totMoment, List.map_cons, List.sum_cons] at *
    refine ⟨i0, by rw [i1, h1]; ring, by rw [i2, h2]; ring, by rw [i3, h3]; ring, fun p => by rw [i4, h4]; ring⟩

/-- **`Sum` = fold of `+`** up to moments, for every finite list of parts with non-negative masses
(zero-mass members and `zero()` included). -/
theorem sum_eq_fold_add (hs : LawfulSqrt sq) (ps : List (MP2 K)) (h : ∀ a ∈ ps, 0 ≤ a.invMass) :
    letI := fieldNum K sq
    SameMoments (MP2.sum ps) (ps.foldl MP2.add MP2.zero) := by
  obtain ⟨s1, s2, s3, s4⟩ := sum_moments sq hs ps h
  obtain ⟨_, f1, f2, f3, f4⟩ := foldl_add_moments sq hs ps h (@MP2.zero K (fieldNum K sq)) (le_refl _)
  have z1 : massOf (@MP2.zero K (fieldNum K sq)) = 0 := by simp [massOf, MP2.zero]
  have z2 : ∀ p, momentAbout (@MP2.zero K (fieldNum K sq)) p = 0 := by
    intro p; simp [momentAbout, massOf, inertiaOf, MP2.zero]
  refine ⟨by rw [s1, f1, z1]; ring, by rw [s2, f2, z1]; ring, by rw [s3, f3, z1]; ring, fun p => by rw [s4, f4, z2]; ring⟩

private theorem foldl_polyAcc (gc : V2 K) (es : List (V2 K × V2 K)) (acc : V2 K × K) :
    letI := fieldNum K sq
    (es.foldl (polyAcc gc) acc).2 = acc.2 + (es.map fun e => triArea ⟨e.1, e.2, gc⟩).sum ∧
    (es.foldl (polyAcc gc) acc).1.x = acc.1.x + (es.map fun e => (triCenter ⟨e.1, e.2, gc⟩).x * triArea ⟨e.1, e.2, gc⟩).sum ∧
    (es.foldl (polyAcc gc) acc).1.y = acc.1.y + (es.map fun e => (triCenter ⟨e.1, e.2, gc⟩).y * triArea ⟨e.1, e.2, gc⟩).sum := by
  have h3 : ((mkRat 3 1 : ℚ) : K) = 3 := by norm_num
  induction es generalizing acc with
  | nil => simp
  | cons a l ih =>
    simp only [List.foldl_cons, List.map_cons, List.sum_cons]
    obtain ⟨h1, h2, h3'⟩ := ih (@polyAcc K (fieldNum K sq) gc acc a)
    rw [h1, h2, h3']
    simp only [polyAcc, triangle_center_eq, V2.add, V2.smul, V2.sdiv, fieldNum_lit, h3]
    refine ⟨by ring, by ring, by ring⟩

private theorem foldl_polyAcc0 (gc : V2 K) (es : List (V2 K × V2 K)) :
    letI := fieldNum K sq
    (es.foldl (polyAcc gc) (V2.zero, 0)).2 = (es.map fun e => triArea ⟨e.1, e.2, gc⟩).sum ∧
    (es.foldl (polyAcc gc) (V2.zero, 0)).1.x = (es.map fun e => (triCenter ⟨e.1, e.2, gc⟩).x * triArea ⟨e.1, e.2, gc⟩).sum ∧
    (es.foldl (polyAcc gc) (V2.zero, 0)).1.y = (es.map fun e => (triCenter ⟨e.1, e.2, gc⟩).y * triArea ⟨e.1, e.2, gc⟩).sum := by
  have := foldl_polyAcc sq gc es (@V2.zero K (fieldNum K sq), 0)
  simpa [V2.zero] using this

/-- moments of a fan of (corrected) `from_triangle` parts with common first vertex `c`, about `c` -/
private theorem fan_tot (hs : LawfulSqrt sq) (ρ : K) (hρ : 0 ≤ ρ) (c : V2 K) (es : List (V2 K × V2 K)) :
    letI := fieldNum K sq
    totMoment (es.map fun e => fromTriangle ρ ⟨c, e.1, e.2⟩) c =
      (es.map fun e => triUnitInertia ⟨c, e.1, e.2⟩ * triArea ⟨c, e.1, e.2⟩).sum * ρ := by
  induction es with
  | nil => simp [totMoment]
  | cons a l ih =>
    obtain ⟨o1, o2, o3⟩ := from_triangle_obs sq hs ρ hρ ⟨c, a.1, a.2⟩
    simp only [totMoment, List.map_cons, List.sum_cons] at ih ⊢
    rw [ih]
    simp only [momentAbout, o1, o2, o3]
    have e := triangle_centroid_inertia sq ⟨c, a.1, a.2⟩
    simp only [V2.sub, V2.normSq, V2.dot] at e
    linear_combination (-(@triArea K (fieldNum K sq) ⟨c, a.1, a.2⟩) * ρ) * e

/-- moments of the family of `from_triangle` parts of a fan `(v_i, v_{i+1}, g)` -/
private theorem fanG_tot (hs : LawfulSqrt sq) (ρ : K) (hρ : 0 ≤ ρ) (g : V2 K) (es : List (V2 K × V2 K)) :
    letI := fieldNum K sq
    totMass (es.map fun e => fromTriangle ρ ⟨e.1, e.2, g⟩) = (es.map fun e => triArea ⟨e.1, e.2, g⟩).sum * ρ ∧
    totFx (es.map fun e => fromTriangle ρ ⟨e.1, e.2, g⟩) = (es.map fun e => (triCenter ⟨e.1, e.2, g⟩).x * triArea ⟨e.1, e.2, g⟩).sum * ρ ∧
    totFy (es.map fun e => fromTriangle ρ ⟨e.1, e.2, g⟩) = (es.map fun e => (triCenter ⟨e.1, e.2, g⟩).y * triArea ⟨e.1, e.2, g⟩).sum * ρ := by
  induction es with
  | nil => simp [totMass, totFx, totFy]
  | cons a l ih =>
    obtain ⟨i1, i2, i3⟩ := ih
    obtain ⟨o1, o2, o3⟩ := from_triangle_obs sq hs ρ hρ ⟨a.1, a.2, g⟩
    simp only [totMass, totFx, totFy, List.map_cons, List.sum_cons] at i1 i2 i3 ⊢
    rw [i1, i2, i3, o1, o2]
    refine ⟨by ring, by ring, by ring⟩

/-- **convex polygon = Σ fan triangles.**  `g` is the vertex average and `es` the closed chain of edges
`(v_i, v_{i+1})`.  Whenever the computed area is non-zero, the result of `from_convex_polygon` has the mass and first
moment of the fan `(v_i, v_{i+1}, g)` (the triangles `convex_polygon_area_and_center_of_mass` sums), and its inertia is
the total second moment, about the centre of mass, of the fan `(com, v_i, v_{i+1})` of corrected `from_triangle` parts. -/
theorem convex_polygon_eq_fans (hs : LawfulSqrt sq) (ρ : K) (hρ : 0 ≤ ρ) (g : V2 K) (es : List (V2 K × V2 K)) :
    letI := fieldNum K sq
    let ac := polyAreaComCore g es
    let r := fromConvexPolygonCore ρ ac es
    ac.1 ≠ 0 →
      r.com = ac.2 ∧
      massOf r = totMass (es.map fun e => fromTriangle ρ ⟨e.1, e.2, g⟩) ∧
      r.com.x * massOf r = totFx (es.map fun e => fromTriangle ρ ⟨e.1, e.2, g⟩) ∧
      r.com.y * massOf r = totFy (es.map fun e => fromTriangle ρ ⟨e.1, e.2, g⟩) ∧
      inertiaOf r = totMoment (es.map fun e => fromTriangle ρ ⟨ac.2, e.1, e.2⟩) ac.2 := by
  intro ac r hne
  obtain ⟨f1, f2, f3⟩ := foldl_polyAcc0 sq g es
  obtain ⟨p1, p2, p3⟩ := fanG_tot sq hs ρ hρ g es
  have hac : ac = ((es.map fun e => @triArea K (fieldNum K sq) ⟨e.1, e.2, g⟩).sum,
      (⟨(es.map fun e => (@triCenter K (fieldNum K sq) ⟨e.1, e.2, g⟩).x * @triArea K (fieldNum K sq) ⟨e.1, e.2, g⟩).sum
          / (es.map fun e => @triArea K (fieldNum K sq) ⟨e.1, e.2, g⟩).sum,
        (es.map fun e => (@triCenter K (fieldNum K sq) ⟨e.1, e.2, g⟩).y * @triArea K (fieldNum K sq) ⟨e.1, e.2, g⟩).sum
          / (es.map fun e => @triArea K (fieldNum K sq) ⟨e.1, e.2, g⟩).sum⟩ : V2 K)) := by
    have h1 : ac.1 = (es.map fun e => @triArea K (fieldNum K sq) ⟨e.1, e.2, g⟩).sum := by
      simp only [ac, polyAreaComCore]
      rw [apply_ite Prod.fst]; simp only [ite_self]; exact f1
    have hne' : (es.map fun e => @triArea K (fieldNum K sq) ⟨e.1, e.2, g⟩).sum ≠ 0 := h1 ▸ hne
    simp only [ac, polyAreaComCore, fieldNum_neq', f1]
    rw [if_neg (by simpa using hne')]
    simp only [V2.sdiv, f1, f2, f3]
  set A := (es.map fun e => @triArea K (fieldNum K sq) ⟨e.1, e.2, g⟩).sum with hA
  set Gx := (es.map fun e => (@triCenter K (fieldNum K sq) ⟨e.1, e.2, g⟩).x * @triArea K (fieldNum K sq) ⟨e.1, e.2, g⟩).sum with hGx
  set Gy := (es.map fun e => (@triCenter K (fieldNum K sq) ⟨e.1, e.2, g⟩).y * @triArea K (fieldNum K sq) ⟨e.1, e.2, g⟩).sum with hGy
  have hA0 : A ≠ 0 := by have := hne; rw [hac] at this; exact this
  have p4 := fan_tot sq hs ρ hρ ac.2 es
  have hpn : ∀ a ∈ es.map (fun e => @fromTriangle K (fieldNum K sq) ρ ⟨ac.2, e.1, e.2⟩), 0 ≤ a.invMass := by
    intro a ha
    simp only [List.mem_map] at ha
    obtain ⟨e, _, rfl⟩ := ha
    have := (from_triangle_obs sq hs ρ hρ ⟨ac.2, e.1, e.2⟩).1
    have hAr := triangle_area_nonneg sq hs ⟨ac.2, e.1, e.2⟩
    have h2 : 0 ≤ massOf (@fromTriangle K (fieldNum K sq) ρ ⟨ac.2, e.1, e.2⟩) := by rw [this]; positivity
    exact inv_nonneg.1 h2
  have hJn := totMoment_nonneg _ hpn ac.2
  rw [p4] at hJn
  have hr : r = @MP2.new K (fieldNum K sq) ac.2 (ac.1 * ρ) (@polyItot K (fieldNum K sq) ac.2 es * ρ) := by
    simp only [r, fromConvexPolygonCore, fieldNum_neq']
    rw [if_neg (by simpa using hne)]
  have hit : @polyItot K (fieldNum K sq) ac.2 es =
      (es.map fun e => @triUnitInertia K (fieldNum K sq) ⟨ac.2, e.1, e.2⟩ * @triArea K (fieldNum K sq) ⟨ac.2, e.1, e.2⟩).sum := by
    simp only [polyItot, foldl_add_map, zero_add]
  rw [hr, hit, p1, p2, p3, p4]
  simp only [MP2.new, massOf, inertiaOf, inv_spec, inv_inv, fieldNum_sqrt]
  rw [sqrt_roundtrip sq hs _ hJn]
  rw [hac]
  refine ⟨trivial, rfl, ?_, ?_, rfl⟩
  · simp only; field_simp
  · simp only; field_simp

/-- **closed form of `from_convex_polygon`** for a counter-clockwise polygon `first :: rest` whose vertex average `g` and
computed centre of mass see every edge counter-clockwise (true for every convex CCW polygon): the area is the shoelace
area, the centre of mass is `Σ (v_i+v_{i+1})(v_i×v_{i+1}) / (3 Σ v_i×v_{i+1})`, and the inertia is `ρ` times the
signed-triangle polar moment about the centre of mass. -/
theorem convex_polygon_closed_form (hs : LawfulSqrt sq) (ρ : K) (hρ : 0 ≤ ρ) (first : V2 K) (rest : List (V2 K))
    (g : V2 K) :
    letI := fieldNum K sq
    let es := cyclicPairs first (first :: rest)
    let ac := polyAreaComCore g es
    SeesCCW g es → shoelace es ≠ 0 →
      ac.1 = shoelace es / 2 ∧
      ac.2 = ⟨shoelaceFx es / (3 * shoelace es), shoelaceFy es / (3 * shoelace es)⟩ ∧
      massOf (fromConvexPolygonCore ρ ac es) = ρ * (shoelace es / 2) ∧
      (fromConvexPolygonCore ρ ac es).com = ac.2 ∧
      (SeesCCW ac.2 es → inertiaOf (fromConvexPolygonCore ρ ac es) = ρ * shoelaceJ ac.2 es) := by
  intro es ac hg hsh
  obtain ⟨f1, f2, f3⟩ := foldl_polyAcc0 sq g es
  obtain ⟨t1, t2, t3⟩ := path_telescope g first rest first
  -- areas of the fan about `g`
  have harea : ∀ e ∈ es, @triArea K (fieldNum K sq) ⟨e.1, e.2, g⟩ = cr ⟨e.1.x - g.x, e.1.y - g.y⟩ ⟨e.2.x - g.x, e.2.y - g.y⟩ / 2 := by
    intro e he
    rw [triangle_area_eq sq hs]
    have : @V2.perp K (fieldNum K sq) (@V2.sub K (fieldNum K sq) e.2 e.1) (@V2.sub K (fieldNum K sq) g e.1)
        = cr ⟨e.1.x - g.x, e.1.y - g.y⟩ ⟨e.2.x - g.x, e.2.y - g.y⟩ := by
      simp only [V2.perp, V2.sub, cr]; ring
    rw [this, abs_of_nonneg (hg e he)]
  have hA : (es.map fun e => @triArea K (fieldNum K sq) ⟨e.1, e.2, g⟩).sum = shoelace es / 2 := by
    rw [List.map_congr_left harea]
    have : (es.map fun e => cr ⟨e.1.x - g.x, e.1.y - g.y⟩ ⟨e.2.x - g.x, e.2.y - g.y⟩ / 2).sum
        = (es.map fun e => cr ⟨e.1.x - g.x, e.1.y - g.y⟩ ⟨e.2.x - g.x, e.2.y - g.y⟩).sum / 2 := by
      exact sum_map_div es _ 2
    rw [this, t1]; ring
  have hGx : (es.map fun e => (@triCenter K (fieldNum K sq) ⟨e.1, e.2, g⟩).x * @triArea K (fieldNum K sq) ⟨e.1, e.2, g⟩).sum
      = shoelaceFx es / 6 := by
    have hterm : ∀ e ∈ es, (@triCenter K (fieldNum K sq) ⟨e.1, e.2, g⟩).x * @triArea K (fieldNum K sq) ⟨e.1, e.2, g⟩
        = (e.1.x + e.2.x + g.x) * cr ⟨e.1.x - g.x, e.1.y - g.y⟩ ⟨e.2.x - g.x, e.2.y - g.y⟩ / 6 := by
      intro e he
      rw [harea e he, triangle_center_eq]; ring
    rw [List.map_congr_left hterm, sum_map_div, t2]; ring
  have hGy : (es.map fun e => (@triCenter K (fieldNum K sq) ⟨e.1, e.2, g⟩).y * @triArea K (fieldNum K sq) ⟨e.1, e.2, g⟩).sum
      = shoelaceFy es / 6 := by
    have hterm : ∀ e ∈ es, (@triCenter K (fieldNum K sq) ⟨e.1, e.2, g⟩).y * @triArea K (fieldNum K sq) ⟨e.1, e.2, g⟩
        = (e.1.y + e.2.y + g.y) * cr ⟨e.1.x - g.x, e.1.y - g.y⟩ ⟨e.2.x - g.x, e.2.y - g.y⟩ / 6 := by
      intro e he
      rw [harea e he, triangle_center_eq]; ring
    rw [List.map_congr_left hterm, sum_map_div, t3]; ring
  rw [hA] at f1; rw [hGx] at f2; rw [hGy] at f3
  have hne2 : shoelace es / 2 ≠ 0 := by
    intro h; apply hsh; linarith
  have hac1 : ac.1 = shoelace es / 2 := by
    simp only [ac, polyAreaComCore]
    rw [apply_ite Prod.fst]; simp only [ite_self]; exact f1
  have hac2 : ac.2 = ⟨shoelaceFx es / (3 * shoelace es), shoelaceFy es / (3 * shoelace es)⟩ := by
    simp only [ac, polyAreaComCore, fieldNum_neq', f1]
    rw [if_neg (by simpa using hne2)]
    simp only [V2.sdiv, f2, f3]
    congr 1 <;> field_simp <;> ring
  have hcore := convex_polygon_eq_fans sq hs ρ hρ g es
  simp only at hcore
  obtain ⟨c1, c2, _, _, c5⟩ := hcore (by rw [show (@polyAreaComCore K (fieldNum K sq) g es).1 = ac.1 from rfl, hac1]; exact hne2)
  refine ⟨hac1, hac2, ?_, c1, ?_⟩
  · rw [c2, (fanG_tot sq hs ρ hρ g es).1, hA]; ring
  · intro hc
    rw [c5, fan_tot sq hs ρ hρ]
    have hterm : ∀ e ∈ es, @triUnitInertia K (fieldNum K sq) ⟨ac.2, e.1, e.2⟩ * @triArea K (fieldNum K sq) ⟨ac.2, e.1, e.2⟩
        = cr ⟨e.1.x - ac.2.x, e.1.y - ac.2.y⟩ ⟨e.2.x - ac.2.x, e.2.y - ac.2.y⟩ *
          (((e.1.x - ac.2.x) ^ 2 + (e.1.y - ac.2.y) ^ 2) + ((e.1.x - ac.2.x) * (e.2.x - ac.2.x) + (e.1.y - ac.2.y) * (e.2.y - ac.2.y))
            + ((e.2.x - ac.2.x) ^ 2 + (e.2.y - ac.2.y) ^ 2)) / 12 := by
      intro e he
      rw [triangle_area_eq sq hs, triangle_unit_inertia_about_a]
      have : @V2.perp K (fieldNum K sq) (@V2.sub K (fieldNum K sq) e.1 ac.2) (@V2.sub K (fieldNum K sq) e.2 ac.2)
          = cr ⟨e.1.x - ac.2.x, e.1.y - ac.2.y⟩ ⟨e.2.x - ac.2.x, e.2.y - ac.2.y⟩ := by
        simp only [V2.perp, V2.sub, cr]
      rw [this, abs_of_nonneg (hc e he)]
      simp only [V2.normSq, V2.dot, V2.sub]
      ring
    rw [List.map_congr_left hterm]
    simp only [shoelaceJ]; ring

/-- `from_convex_polygon` on a non-empty vertex list is the core computation with `g` = the vertex average; the empty slice
is the `unwrap` panic. -/
theorem from_convex_polygon_unfold (ρ : K) (first : V2 K) (rest : List (V2 K)) :
    letI := fieldNum K sq
    fromConvexPolygon ρ (first :: rest) =
      some (fromConvexPolygonCore ρ (polyAreaComCore (polyGc (first :: rest)) (cyclicPairs first (first :: rest)))
        (cyclicPairs first (first :: rest))) ∧
    fromConvexPolygon ρ ([] : List (V2 K)) = none := ⟨rfl, rfl⟩

/-- `MassProperties::new` / `mass()` / `principal_inertia()` round-trip (2-D), for a non-negative inertia. -/
theorem new_roundtrip (hs : LawfulSqrt sq) (c : V2 K) (m i : K) (hi : 0 ≤ i) :
    letI := fieldNum K sq
    (MP2.new c m i).mass = m ∧ (MP2.new c m i).principalInertia = i ∧ (MP2.new c m i).com = c ∧
    massOf (MP2.new c m i) = m ∧ inertiaOf (MP2.new c m i) = i := by
  simp only [MP2.new, MP2.mass, MP2.principalInertia, massOf, inertiaOf, inv_spec, inv_inv, fieldNum_sqrt,
    sqrt_roundtrip sq hs i hi, and_self]

/-- **cuboid (2-D)**: `from_cuboid` has mass `ρ·(2hx)(2hy)`, centre of mass at the origin and inertia `mass·(hx²+hy²)/3`. -/
theorem cuboid2_spec (hs : LawfulSqrt sq) (ρ : K) (he : V2 K) (hρ : 0 ≤ ρ) (hx : 0 ≤ he.x) (hy : 0 ≤ he.y) :
    letI := fieldNum K sq
    massOf (fromCuboid2 ρ he) = ρ * (2 * he.x) * (2 * he.y) ∧
    (fromCuboid2 ρ he).com = ⟨0, 0⟩ ∧
    inertiaOf (fromCuboid2 ρ he) = ρ * (2 * he.x) * (2 * he.y) * ((he.x ^ 2 + he.y ^ 2) / 3) := by
  have h3 : ((mkRat 3 1 : ℚ) : K) = 3 := by norm_num
  have h4 : ((mkRat 4 1 : ℚ) : K) = 4 := by norm_num
  have hI : 0 ≤ (he.x * he.x / 3 + he.y * he.y / 3) * (he.x * he.y * 4 * ρ) := by positivity
  simp only [fromCuboid2, cuboidVolInertia2, fieldNum_lit, h3, h4]
  obtain ⟨_, _, r3, r4, r5⟩ := new_roundtrip sq hs (@V2.zero K (fieldNum K sq)) (he.x * he.y * 4 * ρ) _ hI
  rw [r4, r5]
  refine ⟨by ring, rfl, by ring⟩

/-- **disc (2-D ball)**: mass `ρ·π r²`, inertia `mass·r²/2` (for any value of the constant `π ≥ 0`). -/
theorem ball2_spec (hs : LawfulSqrt sq) (pi ρ r : K) (hpi : 0 ≤ pi) (hρ : 0 ≤ ρ) :
    letI := fieldNum K sq
    massOf (fromBall2 pi ρ r) = ρ * (pi * r ^ 2) ∧ (fromBall2 pi ρ r).com = ⟨0, 0⟩ ∧
    inertiaOf (fromBall2 pi ρ r) = ρ * (pi * r ^ 2) * (r ^ 2 / 2) := by
  have hI : 0 ≤ r * r / 2 * (pi * r * r * ρ) := by
    have : 0 ≤ r * r := mul_self_nonneg r
    have : pi * r * r = pi * (r * r) := by ring
    rw [this]; positivity
  simp only [fromBall2, ballVolInertia2, fieldNum_two]
  obtain ⟨_, _, r3, r4, r5⟩ := new_roundtrip sq hs (@V2.zero K (fieldNum K sq)) (pi * r * r * ρ) _ hI
  rw [r4, r5]
  refine ⟨by ring, rfl, by ring⟩

/-- **tessellation agreement, rectangle (the 2×6 box regression, for every size)**: the corrected 2-D `from_trimesh` of
the rectangle `[0,w]×[0,h]` cut into the two triangles `(v0,v1,v2)`, `(v0,v2,v3)` from its corner has mass `ρwh`, centre of
mass `(w/2, h/2)` and inertia `ρ w h (w²+h²)/12` — the values of `from_cuboid(ρ, (w/2, h/2))`. -/
theorem trimesh_rectangle (hs : LawfulSqrt sq) (ρ w h : K) (hρ : 0 < ρ) (hw : 0 < w) (hh : 0 < h) :
    letI := fieldNum K sq
    let ts : List (Triangle2 K) := [⟨⟨0, 0⟩, ⟨w, 0⟩, ⟨w, h⟩⟩, ⟨⟨0, 0⟩, ⟨w, h⟩, ⟨0, h⟩⟩]
    massOf (fromTrimeshTris ρ ts) = ρ * (w * h) ∧
    (fromTrimeshTris ρ ts).com = ⟨w / 2, h / 2⟩ ∧
    inertiaOf (fromTrimeshTris ρ ts) = ρ * (w * h) * ((w ^ 2 + h ^ 2) / 12) ∧
    massOf (fromTrimeshTris ρ ts) = massOf (fromCuboid2 ρ ⟨w / 2, h / 2⟩) ∧
    inertiaOf (fromTrimeshTris ρ ts) = inertiaOf (fromCuboid2 ρ ⟨w / 2, h / 2⟩) := by
  intro ts
  have hwh : 0 < w * h := mul_pos hw hh
  obtain ⟨m1, m2, m3, m4⟩ := trimesh_moments sq hs ρ hρ.le ts
  have c1 : cross (⟨⟨0, 0⟩, ⟨w, 0⟩, ⟨w, h⟩⟩ : Triangle2 K) = w * h := by simp [cross]
  have c2 : cross (⟨⟨0, 0⟩, ⟨w, h⟩, ⟨0, h⟩⟩ : Triangle2 K) = w * h := by simp [cross]
  obtain ⟨a1, a2, a3⟩ := from_triangle_spec sq hs ρ hρ (⟨⟨0, 0⟩, ⟨w, 0⟩, ⟨w, h⟩⟩ : Triangle2 K) (by rw [c1]; exact hwh.ne')
  obtain ⟨b1, b2, b3⟩ := from_triangle_spec sq hs ρ hρ (⟨⟨0, 0⟩, ⟨w, h⟩, ⟨0, h⟩⟩ : Triangle2 K) (by rw [c2]; exact hwh.ne')
  rw [c1, abs_of_pos hwh] at a1 a3
  rw [c2, abs_of_pos hwh] at b1 b3
  simp only [sumSqSides] at a3 b3
  simp only [ts, totMass, totFx, totFy, totMoment, List.map_cons, List.map_nil, List.sum_cons, List.sum_nil, momentAbout,
    a1, a2, a3, b1, b2, b3, add_zero] at m1 m2 m3 m4
  have hM : massOf (@fromTrimeshTris K (fieldNum K sq) ρ ts) = ρ * (w * h) := by rw [m1]; ring
  have hM0 : ρ * (w * h) ≠ 0 := (mul_pos hρ hwh).ne'
  have hcx : (@fromTrimeshTris K (fieldNum K sq) ρ ts).com.x = w / 2 := by
    rw [hM] at m2
    have : (@fromTrimeshTris K (fieldNum K sq) ρ ts).com.x * (ρ * (w * h)) = w / 2 * (ρ * (w * h)) := by rw [m2]; ring
    exact mul_right_cancel₀ hM0 this
  have hcy : (@fromTrimeshTris K (fieldNum K sq) ρ ts).com.y = h / 2 := by
    rw [hM] at m3
    have : (@fromTrimeshTris K (fieldNum K sq) ρ ts).com.y * (ρ * (w * h)) = h / 2 * (ρ * (w * h)) := by rw [m3]; ring
    exact mul_right_cancel₀ hM0 this
  have hI : inertiaOf (@fromTrimeshTris K (fieldNum K sq) ρ ts) = ρ * (w * h) * ((w ^ 2 + h ^ 2) / 12) := by
    have := m4 (@fromTrimeshTris K (fieldNum K sq) ρ ts).com
    simp only [momentAbout, sub_self] at this
    rw [hcx, hcy] at this
    linear_combination this
  obtain ⟨q1, _, q3⟩ := cuboid2_spec sq hs ρ ⟨w / 2, h / 2⟩ hρ.le (by positivity) (by positivity)
  refine ⟨hM, ?_, hI, ?_, ?_⟩
  · rcases hc : (@fromTrimeshTris K (fieldNum K sq) ρ ts).com with ⟨x, y⟩
    rw [hc] at hcx hcy; simp only at hcx hcy; rw [hcx, hcy]
  · rw [hM, q1]; ring
  · rw [hI, q3]; ring

/-- **2-D capsule (stadium)**, corrected: with `H = |b - a|`, mass `ρ(2rH + πr²)`, centre of mass at the midpoint, inertia
`ρ(2rH(4r²+H²)/12 + πr⁴/2 + πr²H²/4 + 4Hr³/3)` = rectangle `2r×H` + two half-discs whose centroids sit `4r/(3π)` beyond
the rectangle (for any constant `π > 0`). -/
theorem capsule2_spec (hs : LawfulSqrt sq) (pi ρ r : K) (a b : V2 K) (hpi : 0 < pi) (hρ : 0 ≤ ρ) (hr : 0 ≤ r) :
    letI := fieldNum K sq
    let H := sq ((b.x - a.x) * (b.x - a.x) + (b.y - a.y) * (b.y - a.y))
    massOf (fromCapsule2 pi ρ a b r) = ρ * (2 * r * H + pi * r ^ 2) ∧
    (fromCapsule2 pi ρ a b r).com = ⟨(a.x + b.x) / 2, (a.y + b.y) / 2⟩ ∧
    inertiaOf (fromCapsule2 pi ρ a b r) =
      ρ * (2 * r * H * (4 * r ^ 2 + H ^ 2) / 12 + pi * r ^ 4 / 2 + pi * r ^ 2 * H ^ 2 / 4 + 4 * H * r ^ 3 / 3) := by
  intro H
  have hH : 0 ≤ H := hs.nonneg _ (add_nonneg (mul_self_nonneg _) (mul_self_nonneg _))
  have h3 : ((mkRat 3 1 : ℚ) : K) = 3 := by norm_num
  have h4 : ((mkRat 4 1 : ℚ) : K) = 4 := by norm_num
  have h14 : ((mkRat 1 4 : ℚ) : K) = 1 / 4 := by norm_num
  have h12 : ((mkRat 1 2 : ℚ) : K) = 1 / 2 := by norm_num
  simp only [fromCapsule2, cuboidVolInertia2, ballVolInertia2, fieldNum_lit, fieldNum_two, h3, h4, h14, h12, V2.norm, V2.normSq,
    V2.dot, V2.sub, V2.center, V2.add, V2.smul, fieldNum_sqrt]
  rw [show sq ((b.x - a.x) * (b.x - a.x) + (b.y - a.y) * (b.y - a.y)) = H from rfl]
  have hI : 0 ≤ ((r * r / 3 + H / 2 * (H / 2) / 3) * (r * (H / 2) * 4) + r * r / 2 * (pi * r * r)) * ρ
      + (H / 2 * 2 * (H / 2 * 2) * (1 / 4) + H / 2 * 2 * r * 4 / (3 * pi)) * (pi * r * r) * ρ := by
    have : pi * r * r = pi * (r * r) := by ring
    rw [this]; positivity
  obtain ⟨_, _, r3, r4, r5⟩ := new_roundtrip sq hs (⟨(a.x + b.x) * (1 / 2), (a.y + b.y) * (1 / 2)⟩ : V2 K)
    ((r * (H / 2) * 4 + pi * r * r) * ρ) _ hI
  rw [r4, r5]
  refine ⟨by ring, ?_, ?_⟩
  · rw [r3]; congr 1 <;> ring
  · field_simp; ring

/-- the pinned 2-D `from_capsule` (hemisphere offset `3r/8`) differs from the stadium by `ρ H r³ (4/3 − 3π/8)`:
an under-estimate for the real `π < 32/9`. -/
theorem capsule2_pinned_deficit (hs : LawfulSqrt sq) (pi ρ r : K) (a b : V2 K) (hpi : 0 < pi) (hρ : 0 ≤ ρ) (hr : 0 ≤ r) :
    letI := fieldNum K sq
    let H := sq ((b.x - a.x) * (b.x - a.x) + (b.y - a.y) * (b.y - a.y))
    inertiaOf (fromCapsule2 pi ρ a b r) - inertiaOf (fromCapsule2Pinned pi ρ a b r) = ρ * H * r ^ 3 * (4 / 3 - 3 * pi / 8) := by
  intro H
  obtain ⟨_, _, c3⟩ := capsule2_spec sq hs pi ρ r a b hpi hρ hr
  rw [c3]
  have hH : 0 ≤ H := hs.nonneg _ (add_nonneg (mul_self_nonneg _) (mul_self_nonneg _))
  have h3 : ((mkRat 3 1 : ℚ) : K) = 3 := by norm_num
  have h4 : ((mkRat 4 1 : ℚ) : K) = 4 := by norm_num
  have h8 : ((mkRat 8 1 : ℚ) : K) = 8 := by norm_num
  have h14 : ((mkRat 1 4 : ℚ) : K) = 1 / 4 := by norm_num
  have h12 : ((mkRat 1 2 : ℚ) : K) = 1 / 2 := by norm_num
  simp only [fromCapsule2Pinned, cuboidVolInertia2, ballVolInertia2, fieldNum_lit, fieldNum_two, h3, h4, h8, h14, h12, V2.norm, V2.normSq,
    V2.dot, V2.sub, V2.center, V2.add, V2.smul, fieldNum_sqrt]
  rw [show sq ((b.x - a.x) * (b.x - a.x) + (b.y - a.y) * (b.y - a.y)) = H from rfl]
  have hI : 0 ≤ ((r * r / 3 + H / 2 * (H / 2) / 3) * (r * (H / 2) * 4) + r * r / 2 * (pi * r * r)) * ρ
      + (H / 2 * 2 * (H / 2 * 2) * (1 / 4) + H / 2 * 2 * r * 3 / 8) * (pi * r * r) * ρ := by
    have : pi * r * r = pi * (r * r) := by ring
    rw [this]; positivity
  obtain ⟨_, _, _, _, r5⟩ := new_roundtrip sq hs (⟨(a.x + b.x) * (1 / 2), (a.y + b.y) * (1 / 2)⟩ : V2 K)
    ((r * (H / 2) * 4 + pi * r * r) * ρ) _ hI
  rw [r5]; ring

/-- **ball (3-D)**: mass `ρ·4/3 π r³`, the three principal inertias `mass·2r²/5`, centre at the origin, identity frame. -/
theorem ball3_spec (hs : LawfulSqrt sq) (pi ρ r : K) (hpi : 0 ≤ pi) (hρ : 0 ≤ ρ) (hr : 0 ≤ r) :
    letI := fieldNum K sq
    massOf3 (fromBall3 pi ρ r) = ρ * (4 / 3 * pi * r ^ 3) ∧
    inertiaOf3 (fromBall3 pi ρ r) = ⟨ρ * (4 / 3 * pi * r ^ 3) * (2 / 5 * r ^ 2), ρ * (4 / 3 * pi * r ^ 3) * (2 / 5 * r ^ 2),
      ρ * (4 / 3 * pi * r ^ 3) * (2 / 5 * r ^ 2)⟩ ∧
    (fromBall3 pi ρ r).com = ⟨0, 0, 0⟩ ∧ (fromBall3 pi ρ r).frame = ⟨0, 0, 0, 1⟩ := by
  have h3 : ((mkRat 3 1 : ℚ) : K) = 3 := by norm_num
  have h4 : ((mkRat 4 1 : ℚ) : K) = 4 := by norm_num
  have h5 : ((mkRat 5 1 : ℚ) : K) = 5 := by norm_num
  simp only [fromBall3, ballVolInertia3, MP3.new, V3.smul, fieldNum_lit, fieldNum_two, h3, h4, h5]
  have hI : 0 ≤ r * r * 2 / 5 * (pi * r * r * r * 4 / 3 * ρ) := by positivity
  obtain ⟨w1, w2, w3, w4⟩ := withFrame_obs sq hs (@V3.zero K (fieldNum K sq)) (pi * r * r * r * 4 / 3 * ρ)
    ⟨r * r * 2 / 5 * (pi * r * r * r * 4 / 3 * ρ), r * r * 2 / 5 * (pi * r * r * r * 4 / 3 * ρ), r * r * 2 / 5 * (pi * r * r * r * 4 / 3 * ρ)⟩
    (@Quat.identity K (fieldNum K sq)) hI hI hI
  rw [w1, w2, w3, w4]
  refine ⟨by ring, ?_, rfl, rfl⟩
  congr 1 <;> ring

/-- **cuboid (3-D)**: mass `ρ·8 hx hy hz`, principal inertias `mass·(hy²+hz²)/3, mass·(hx²+hz²)/3, mass·(hx²+hy²)/3`. -/
theorem cuboid3_spec (hs : LawfulSqrt sq) (ρ : K) (he : V3 K) (hρ : 0 ≤ ρ) (hx : 0 ≤ he.x) (hy : 0 ≤ he.y) (hz : 0 ≤ he.z) :
    letI := fieldNum K sq
    let m := ρ * (8 * he.x * he.y * he.z)
    massOf3 (fromCuboid3 ρ he) = m ∧
    inertiaOf3 (fromCuboid3 ρ he) = ⟨m * ((he.y ^ 2 + he.z ^ 2) / 3), m * ((he.x ^ 2 + he.z ^ 2) / 3), m * ((he.x ^ 2 + he.y ^ 2) / 3)⟩ ∧
    (fromCuboid3 ρ he).com = ⟨0, 0, 0⟩ ∧ (fromCuboid3 ρ he).frame = ⟨0, 0, 0, 1⟩ := by
  intro m
  have h3 : ((mkRat 3 1 : ℚ) : K) = 3 := by norm_num
  have h8 : ((mkRat 8 1 : ℚ) : K) = 8 := by norm_num
  simp only [fromCuboid3, cuboidVolInertia3, MP3.new, V3.smul, fieldNum_lit, h3, h8]
  obtain ⟨w1, w2, w3, w4⟩ := withFrame_obs sq hs (@V3.zero K (fieldNum K sq)) (he.x * he.y * he.z * 8 * ρ)
    ⟨(he.y * he.y / 3 + he.z * he.z / 3) * (he.x * he.y * he.z * 8 * ρ), (he.x * he.x / 3 + he.z * he.z / 3) * (he.x * he.y * he.z * 8 * ρ),
     (he.x * he.x / 3 + he.y * he.y / 3) * (he.x * he.y * he.z * 8 * ρ)⟩
    (@Quat.identity K (fieldNum K sq)) (by positivity) (by positivity) (by positivity)
  rw [w1, w2, w3, w4]
  refine ⟨by simp only [m]; ring, ?_, rfl, rfl⟩
  simp only [m]
  congr 1 <;> ring

/-- **cylinder**: mass `ρ·π r²·2hh`, axial inertia `mass·r²/2`, transverse `mass·(3r² + (2hh)²)/12`. -/
theorem cylinder_spec (hs : LawfulSqrt sq) (pi ρ hh r : K) (hpi : 0 ≤ pi) (hρ : 0 ≤ ρ) (hh0 : 0 ≤ hh) (hr : 0 ≤ r) :
    letI := fieldNum K sq
    let m := ρ * (pi * r ^ 2 * (2 * hh))
    massOf3 (fromCylinder pi ρ hh r) = m ∧
    inertiaOf3 (fromCylinder pi ρ hh r) = ⟨m * ((3 * r ^ 2 + (2 * hh) ^ 2) / 12), m * (r ^ 2 / 2), m * ((3 * r ^ 2 + (2 * hh) ^ 2) / 12)⟩ ∧
    (fromCylinder pi ρ hh r).com = ⟨0, 0, 0⟩ ∧ (fromCylinder pi ρ hh r).frame = ⟨0, 0, 0, 1⟩ := by
  intro m
  have h3 : ((mkRat 3 1 : ℚ) : K) = 3 := by norm_num
  have h4 : ((mkRat 4 1 : ℚ) : K) = 4 := by norm_num
  have h12 : ((mkRat 12 1 : ℚ) : K) = 12 := by norm_num
  simp only [fromCylinder, cylinderVolInertia, V3.smul, fieldNum_lit, fieldNum_two, h3, h4, h12]
  obtain ⟨w1, w2, w3, w4⟩ := withFrame_obs sq hs (@V3.zero K (fieldNum K sq)) (hh * r * r * pi * 2 * ρ)
    ⟨(r * r * 3 + hh * hh * 4) / 12 * (hh * r * r * pi * 2 * ρ), r * r / 2 * (hh * r * r * pi * 2 * ρ),
     (r * r * 3 + hh * hh * 4) / 12 * (hh * r * r * pi * 2 * ρ)⟩
    (@Quat.identity K (fieldNum K sq)) (by positivity) (by positivity) (by positivity)
  rw [w1, w2, w3, w4]
  refine ⟨by simp only [m]; ring, ?_, rfl, rfl⟩
  simp only [m]
  congr 1 <;> ring

/-- **cone** (apex at `+hh`, base at `-hh`): mass `ρ·π r²·(2hh)/3`, centre of mass at `y = -hh/2`, axial inertia
`mass·3r²/10`, transverse inertia about the centre of mass `mass·(3r²/20 + 3(2hh)²/80)`. -/
theorem cone_spec (hs : LawfulSqrt sq) (pi ρ hh r : K) (hpi : 0 ≤ pi) (hρ : 0 ≤ ρ) (hh0 : 0 ≤ hh) (hr : 0 ≤ r) :
    letI := fieldNum K sq
    let m := ρ * (pi * r ^ 2 * (2 * hh) / 3)
    massOf3 (fromCone pi ρ hh r) = m ∧
    inertiaOf3 (fromCone pi ρ hh r) = ⟨m * (3 * r ^ 2 / 20 + 3 * (2 * hh) ^ 2 / 80), m * (3 * r ^ 2 / 10), m * (3 * r ^ 2 / 20 + 3 * (2 * hh) ^ 2 / 80)⟩ ∧
    (fromCone pi ρ hh r).com = ⟨0, -hh / 2, 0⟩ ∧ (fromCone pi ρ hh r).frame = ⟨0, 0, 0, 1⟩ := by
  intro m
  have h3 : ((mkRat 3 1 : ℚ) : K) = 3 := by norm_num
  have h4 : ((mkRat 4 1 : ℚ) : K) = 4 := by norm_num
  have h10 : ((mkRat 10 1 : ℚ) : K) = 10 := by norm_num
  have h20 : ((mkRat 20 1 : ℚ) : K) = 20 := by norm_num
  have h80 : ((mkRat 80 1 : ℚ) : K) = 80 := by norm_num
  simp only [fromCone, coneVolInertia, V3.smul, fieldNum_lit, fieldNum_two, h3, h4, h10, h20, h80]
  obtain ⟨w1, w2, w3, w4⟩ := withFrame_obs sq hs (⟨0, -hh / 2, 0⟩ : V3 K) (r * r * pi * hh * 2 / 3 * ρ)
    ⟨(r * r * 3 / 20 + hh * hh * 4 * 3 / 80) * (r * r * pi * hh * 2 / 3 * ρ), r * r * 3 / 10 * (r * r * pi * hh * 2 / 3 * ρ),
     (r * r * 3 / 20 + hh * hh * 4 * 3 / 80) * (r * r * pi * hh * 2 / 3 * ρ)⟩
    (@Quat.identity K (fieldNum K sq)) (by positivity) (by positivity) (by positivity)
  rw [w1, w2, w3, w4]
  refine ⟨by simp only [m]; ring, ?_, rfl, rfl⟩
  simp only [m]
  congr 1 <;> ring

/-- **3-D `+` is additive in the moments** (before the eigen-decomposition): the triple `(mass, com, inertia matrix)` that `Add`
hands to `with_inertia_matrix` satisfies `m = m₁+m₂`, `m·c = m₁c₁ + m₂c₂` and, for the tensors about the origin,
`I + m(|c|²1 − ccᵀ) = Σ_k (R_k diag(I_k) R_kᵀ + m_k(|c_k|²1 − c_k c_kᵀ))`. -/
theorem add3_raw_moments (a b : MP3 K) (ha : 0 ≤ a.invMass) (hb : 0 ≤ b.invMass)
    (m : K) (c : V3 K) (I : M3 K) :
    letI := fieldNum K sq
    MP3.addRaw a b = some (m, c, I) →
      m = massOf3 a + massOf3 b ∧
      c.x * m = a.com.x * massOf3 a + b.com.x * massOf3 b ∧
      c.y * m = a.com.y * massOf3 a + b.com.y * massOf3 b ∧
      c.z * m = a.com.z * massOf3 a + b.com.z * massOf3 b ∧
      madd I (steiner3 m c) =
        madd (madd a.reconstruct (steiner3 (massOf3 a) a.com)) (madd b.reconstruct (steiner3 (massOf3 b) b.com)) := by
  intro h
  unfold MP3.addRaw at h
  split_ifs at h
  simp only [Option.some.injEq, Prod.mk.injEq, shifted3_spec, inv_spec] at h
  obtain ⟨rfl, rfl, rfl⟩ := h
  have hm1 : 0 ≤ a.invMass⁻¹ := inv_nonneg.2 ha
  have hm2 : 0 ≤ b.invMass⁻¹ := inv_nonneg.2 hb
  simp only [massOf3, V3.add, V3.smul, V3.sub, M3.add, madd, steiner3]
  set m1 := a.invMass⁻¹
  set m2 := b.invMass⁻¹
  rcases eq_or_ne (m1 + m2) 0 with h0 | h0
  · have e1 : m1 = 0 := by linarith
    have e2 : m2 = 0 := by linarith
    simp [e1, e2]
  · refine ⟨trivial, by field_simp, by field_simp, by field_simp, ?_⟩
    congr 1 <;> congr 1 <;> (field_simp; ring)

/-- **covariance of `transform_by` (3-D)**: mass and principal inertias are unchanged, the centre of mass is moved by the
isometry, and the reconstructed inertia tensor is conjugated by the matrix `M` of the isometry's quaternion,
`I' = M I Mᵀ` (an identity for every quaternion; for a unit one `M` is the rotation matrix). -/
theorem transformBy3_covariant (p : MP3 K) (m : Iso3 K) :
    letI := fieldNum K sq
    let M := (⟨m.qi, m.qj, m.qk, m.qw⟩ : Quat K).toMat
    massOf3 (p.transformBy m) = massOf3 p ∧ inertiaOf3 (p.transformBy m) = inertiaOf3 p ∧
    (p.transformBy m).com = m.act p.com ∧
    (p.transformBy m).reconstruct = (M.mul p.reconstruct).mul (mtr M) := by
  refine ⟨rfl, rfl, rfl, ?_⟩
  simp only [MP3.transformBy, MP3.reconstruct]
  rw [inverse_mul, toMat_mul, toMat_mul, toMat_inverse sq ⟨m.qi, m.qj, m.qk, m.qw⟩]
  simp only [m3_mul_assoc]
  rfl

/-- **Compound = Σ transformed parts** (2-D): the moments of `from_compound` are the sums of the moments of the parts moved
by their isometries; with `transformBy_covariant`, each summand is the part's own moment about the pulled-back point. -/
theorem compound_moments (hs : LawfulSqrt sq) (parts : List (Iso2 K × MP2 K)) (h : ∀ s ∈ parts, 0 ≤ s.2.invMass) :
    letI := fieldNum K sq
    let moved := parts.map fun s => s.2.transformBy s.1
    massOf (fromCompound2 parts) = totMass moved ∧
    (fromCompound2 parts).com.x * massOf (fromCompound2 parts) = totFx moved ∧
    (fromCompound2 parts).com.y * massOf (fromCompound2 parts) = totFy moved ∧
    ∀ p : V2 K, momentAbout (fromCompound2 parts) p = totMoment moved p := by
  intro moved
  apply sum_moments sq hs
  intro a ha
  simp only [List.mem_map] at ha
  obtain ⟨s, hs', rfl⟩ := ha
  exact h s hs'

/-- principal inertias are never negative (2-D and 3-D accessors), whatever the stored fields -/
theorem principal_inertia_nonneg (p : MP2 K) (p3 : MP3 K) :
    letI := fieldNum K sq
    0 ≤ p.principalInertia ∧ 0 ≤ p3.principalInertia.x ∧ 0 ≤ p3.principalInertia.y ∧ 0 ≤ p3.principalInertia.z := by
  simp only [MP2.principalInertia, MP3.principalInertia, inv_spec]
  exact ⟨inv_nonneg.2 (mul_self_nonneg _), inv_nonneg.2 (mul_self_nonneg _), inv_nonneg.2 (mul_self_nonneg _), inv_nonneg.2 (mul_self_nonneg _)⟩

/-- the principal frame stays a unit quaternion under `transform_by` with a unit rotation (`|q₁q₂|² = |q₁|²|q₂|²`) -/
theorem transformBy3_frame_unit (p : MP3 K) (m : Iso3 K)
    (hm : m.qi * m.qi + m.qj * m.qj + m.qk * m.qk + m.qw * m.qw = 1)
    (hp : p.frame.i * p.frame.i + p.frame.j * p.frame.j + p.frame.k * p.frame.k + p.frame.w * p.frame.w = 1) :
    letI := fieldNum K sq
    let f := (p.transformBy m).frame
    f.i * f.i + f.j * f.j + f.k * f.k + f.w * f.w = 1 := by
  simp only [MP3.transformBy, Quat.mul, Iso3.qmul]
  linear_combination (p.frame.i * p.frame.i + p.frame.j * p.frame.j + p.frame.k * p.frame.k + p.frame.w * p.frame.w) * hm + hp

/-! ## Integrals over ℝ: the closed forms are the moments of the uniformly filled shapes -/
section Integrals
open intervalIntegral

/-- `Real.sqrt` is a lawful square root: the theorems of this file apply to `ℝ`. -/
theorem real_lawfulSqrt : LawfulSqrt Real.sqrt :=
  ⟨fun x _ => Real.sqrt_nonneg x, fun _ hx => Real.mul_self_sqrt hx⟩

/-- exact integral of a polynomial of degree ≤ 4 -/
private theorem integral_poly4 (a b c0 c1 c2 c3 c4 : ℝ) :
    ∫ y in a..b, (c0 + c1 * y + c2 * y ^ 2 + c3 * y ^ 3 + c4 * y ^ 4)
      = c0 * (b - a) + c1 * (b ^ 2 - a ^ 2) / 2 + c2 * (b ^ 3 - a ^ 3) / 3 + c3 * (b ^ 4 - a ^ 4) / 4 + c4 * (b ^ 5 - a ^ 5) / 5 := by
  have h1 : ∀ y : ℝ, c0 + c1 * y + c2 * y ^ 2 + c3 * y ^ 3 + c4 * y ^ 4 = c0 + c1 * y ^ 1 + c2 * y ^ 2 + c3 * y ^ 3 + c4 * y ^ 4 := by
    intro y; ring
  simp only [h1]
  rw [integral_add, integral_add, integral_add, integral_add] <;> try (apply Continuous.intervalIntegrable; fun_prop)
  simp only [integral_const_mul, integral_const, integral_pow, smul_eq_mul]
  ring

/-- integrate a function that *is* a polynomial of degree ≤ 4 -/
private theorem integral_eq_poly4 (f : ℝ → ℝ) (a b c0 c1 c2 c3 c4 : ℝ)
    (hf : ∀ y, f y = c0 + c1 * y + c2 * y ^ 2 + c3 * y ^ 3 + c4 * y ^ 4) :
    ∫ y in a..b, f y = c0 * (b - a) + c1 * (b ^ 2 - a ^ 2) / 2 + c2 * (b ^ 3 - a ^ 3) / 3 + c3 * (b ^ 4 - a ^ 4) / 4 + c4 * (b ^ 5 - a ^ 5) / 5 := by
  rw [← integral_poly4]; congr 1; funext y; exact hf y

/-- **Triangle, as an integral.**  With the parametrisation `x = a + u·e1 + v·e2`, `0 ≤ u ≤ 1`, `0 ≤ v ≤ 1-u` (Jacobian
`|e1×e2|` = twice the area, so the uniform density of unit total mass is `2 du dv`), the second moment about the vertex
`a` is `2 ∫₀¹ ∫₀^{1-u} |u e1 + v e2|² dv du`; it equals `Triangle::unit_angular_inertia`. -/
theorem triangle_unit_inertia_is_integral (t : Triangle2 ℝ) :
    letI := fieldNum ℝ Real.sqrt
    triUnitInertia t =
      2 * ∫ u in (0:ℝ)..1, ∫ v in (0:ℝ)..(1 - u),
        ((u * (t.b.x - t.a.x) + v * (t.c.x - t.a.x)) ^ 2 + (u * (t.b.y - t.a.y) + v * (t.c.y - t.a.y)) ^ 2) := by
  rw [triangle_unit_inertia_about_a]
  set e1x := t.b.x - t.a.x; set e1y := t.b.y - t.a.y; set e2x := t.c.x - t.a.x; set e2y := t.c.y - t.a.y
  have inner : ∀ u : ℝ, (∫ v in (0:ℝ)..(1 - u), ((u * e1x + v * e2x) ^ 2 + (u * e1y + v * e2y) ^ 2))
      = (e1x ^ 2 + e1y ^ 2) * u ^ 2 * (1 - u) + (e1x * e2x + e1y * e2y) * u * (1 - u) ^ 2 + (e2x ^ 2 + e2y ^ 2) * (1 - u) ^ 3 / 3 := by
    intro u
    rw [integral_eq_poly4 _ 0 (1 - u) ((e1x ^ 2 + e1y ^ 2) * u ^ 2) (2 * (e1x * e2x + e1y * e2y) * u) (e2x ^ 2 + e2y ^ 2) 0 0 (by intro v; ring)]
    ring
  simp only [inner]
  rw [integral_eq_poly4 _ 0 1 ((e2x ^ 2 + e2y ^ 2) / 3) ((e1x * e2x + e1y * e2y) - (e2x ^ 2 + e2y ^ 2))
    ((e1x ^ 2 + e1y ^ 2) - 2 * (e1x * e2x + e1y * e2y) + (e2x ^ 2 + e2y ^ 2))
    (-(e1x ^ 2 + e1y ^ 2) + (e1x * e2x + e1y * e2y) - (e2x ^ 2 + e2y ^ 2) / 3) 0 (by intro u; ring)]
  simp only [V2.normSq, V2.dot, V2.sub, e1x, e1y, e2x, e2y]
  ring

/-- **Rectangle, as an integral**: `∫_{-hx}^{hx} ∫_{-hy}^{hy} (x² + y²) dy dx` is the inertia of `from_cuboid` per unit density. -/
theorem cuboid2_inertia_is_integral (ρ : ℝ) (he : V2 ℝ) (hρ : 0 ≤ ρ) (hx : 0 ≤ he.x) (hy : 0 ≤ he.y) :
    letI := fieldNum ℝ Real.sqrt
    inertiaOf (fromCuboid2 ρ he) = ρ * ∫ x in (-he.x)..he.x, ∫ y in (-he.y)..he.y, (x ^ 2 + y ^ 2) ∧
    massOf (fromCuboid2 ρ he) = ρ * ∫ _x in (-he.x)..he.x, ∫ _y in (-he.y)..he.y, (1 : ℝ) := by
  obtain ⟨c1, _, c3⟩ := cuboid2_spec Real.sqrt real_lawfulSqrt ρ he hρ hx hy
  have inner : ∀ x : ℝ, (∫ y in (-he.y)..he.y, (x ^ 2 + y ^ 2)) = 2 * he.y * x ^ 2 + 2 * he.y ^ 3 / 3 := by
    intro x
    rw [integral_eq_poly4 _ (-he.y) he.y (x ^ 2) 0 1 0 0 (by intro y; ring)]; ring
  simp only [inner]
  have e1 : (∫ x in (-he.x)..he.x, (2 * he.y * x ^ 2 + 2 * he.y ^ 3 / 3)) = _ :=
    integral_eq_poly4 _ (-he.x) he.x (2 * he.y ^ 3 / 3) 0 (2 * he.y) 0 0 (by intro x; ring)
  rw [e1]
  simp only [integral_const, smul_eq_mul]
  rw [c1, c3]
  constructor <;> ring

/-- **Ball, as a solid of revolution** (disc slices of radius `√(r²−y²)`): `from_ball` has the mass `ρ ∫ π ρ(y)² dy`, the
axial inertia `ρ ∫ (π/2) ρ(y)⁴ dy` and the transverse inertia `ρ ∫ (π/4 ρ(y)⁴ + π ρ(y)² y²) dy`. -/
theorem ball3_is_solid_of_revolution (ρ r : ℝ) (hρ : 0 ≤ ρ) (hr : 0 ≤ r) :
    letI := fieldNum ℝ Real.sqrt
    massOf3 (fromBall3 Real.pi ρ r) = ρ * ∫ y in (-r)..r, Real.pi * (r ^ 2 - y ^ 2) ∧
    (inertiaOf3 (fromBall3 Real.pi ρ r)).y = ρ * ∫ y in (-r)..r, Real.pi / 2 * (r ^ 2 - y ^ 2) ^ 2 ∧
    (inertiaOf3 (fromBall3 Real.pi ρ r)).x = ρ * ∫ y in (-r)..r, (Real.pi / 4 * (r ^ 2 - y ^ 2) ^ 2 + Real.pi * (r ^ 2 - y ^ 2) * y ^ 2) ∧
    (inertiaOf3 (fromBall3 Real.pi ρ r)).z = (inertiaOf3 (fromBall3 Real.pi ρ r)).x := by
  obtain ⟨b1, b2, _, _⟩ := ball3_spec Real.sqrt real_lawfulSqrt Real.pi ρ r Real.pi_pos.le hρ hr
  rw [b1, b2]
  have e1 : (∫ y in (-r)..r, Real.pi * (r ^ 2 - y ^ 2)) = _ :=
    integral_eq_poly4 _ (-r) r (Real.pi * r ^ 2) 0 (-Real.pi) 0 0 (by intro y; ring)
  have e2 : (∫ y in (-r)..r, Real.pi / 2 * (r ^ 2 - y ^ 2) ^ 2) = _ :=
    integral_eq_poly4 _ (-r) r (Real.pi / 2 * r ^ 4) 0 (-Real.pi * r ^ 2) 0 (Real.pi / 2) (by intro y; ring)
  have e3 : (∫ y in (-r)..r, (Real.pi / 4 * (r ^ 2 - y ^ 2) ^ 2 + Real.pi * (r ^ 2 - y ^ 2) * y ^ 2)) = _ :=
    integral_eq_poly4 _ (-r) r (Real.pi / 4 * r ^ 4) 0 (Real.pi * r ^ 2 / 2) 0 (-3 * Real.pi / 4) (by intro y; ring)
  rw [e1, e2, e3]
  refine ⟨by ring, by ring, by ring, by first | rfl | trivial⟩

/-- **Cylinder, as a solid of revolution** (disc slices of radius `r`, `y ∈ [-hh, hh]`). -/
theorem cylinder_is_solid_of_revolution (ρ hh r : ℝ) (hρ : 0 ≤ ρ) (hh0 : 0 ≤ hh) (hr : 0 ≤ r) :
    letI := fieldNum ℝ Real.sqrt
    massOf3 (fromCylinder Real.pi ρ hh r) = ρ * ∫ _y in (-hh)..hh, Real.pi * r ^ 2 ∧
    (inertiaOf3 (fromCylinder Real.pi ρ hh r)).y = ρ * ∫ _y in (-hh)..hh, Real.pi / 2 * r ^ 4 ∧
    (inertiaOf3 (fromCylinder Real.pi ρ hh r)).x = ρ * ∫ y in (-hh)..hh, (Real.pi / 4 * r ^ 4 + Real.pi * r ^ 2 * y ^ 2) ∧
    (inertiaOf3 (fromCylinder Real.pi ρ hh r)).z = (inertiaOf3 (fromCylinder Real.pi ρ hh r)).x := by
  obtain ⟨b1, b2, _, _⟩ := cylinder_spec Real.sqrt real_lawfulSqrt Real.pi ρ hh r Real.pi_pos.le hρ hh0 hr
  rw [b1, b2]
  have e3 : (∫ y in (-hh)..hh, (Real.pi / 4 * r ^ 4 + Real.pi * r ^ 2 * y ^ 2)) = _ :=
    integral_eq_poly4 _ (-hh) hh (Real.pi / 4 * r ^ 4) 0 (Real.pi * r ^ 2) 0 0 (by intro y; ring)
  rw [e3]
  simp only [integral_const, smul_eq_mul]
  refine ⟨by ring, by ring, by ring, by first | rfl | trivial⟩

/-- **Cone, as a solid of revolution**: apex at `y = +hh`, base of radius `r` at `y = -hh`, slice radius
`ρ(y) = r (hh − y)/(2hh)`.  Mass, the `y` of the centre of mass (first moment / volume `= -hh/2`), the axial inertia and the
transverse inertia **about the centre of mass** are the slicing integrals. -/
theorem cone_is_solid_of_revolution (ρ hh r : ℝ) (hρ : 0 ≤ ρ) (hh0 : 0 < hh) (hr : 0 ≤ r) :
    letI := fieldNum ℝ Real.sqrt
    let rad : ℝ → ℝ := fun y => r * (hh - y) / (2 * hh)
    massOf3 (fromCone Real.pi ρ hh r) = ρ * ∫ y in (-hh)..hh, Real.pi * rad y ^ 2 ∧
    (fromCone Real.pi ρ hh r).com.y * (∫ y in (-hh)..hh, Real.pi * rad y ^ 2) = ∫ y in (-hh)..hh, y * (Real.pi * rad y ^ 2) ∧
    (inertiaOf3 (fromCone Real.pi ρ hh r)).y = ρ * ∫ y in (-hh)..hh, Real.pi / 2 * rad y ^ 4 ∧
    (inertiaOf3 (fromCone Real.pi ρ hh r)).x =
      ρ * ∫ y in (-hh)..hh, (Real.pi / 4 * rad y ^ 4 + Real.pi * rad y ^ 2 * (y - (fromCone Real.pi ρ hh r).com.y) ^ 2) ∧
    (inertiaOf3 (fromCone Real.pi ρ hh r)).z = (inertiaOf3 (fromCone Real.pi ρ hh r)).x := by
  intro rad
  obtain ⟨b1, b2, b3, _⟩ := cone_spec Real.sqrt real_lawfulSqrt Real.pi ρ hh r Real.pi_pos.le hρ hh0.le hr
  rw [b1, b2, b3]
  have hne : hh ≠ 0 := hh0.ne'
  set k := r / (2 * hh) with hk
  have hrad : ∀ y, rad y = k * hh - k * y := by intro y; simp only [rad, hk]; field_simp
  simp only [hrad]
  have e1 : (∫ y in (-hh)..hh, Real.pi * (k * hh - k * y) ^ 2) = _ :=
    integral_eq_poly4 _ (-hh) hh (Real.pi * k ^ 2 * hh ^ 2) (-2 * Real.pi * k ^ 2 * hh) (Real.pi * k ^ 2) 0 0 (by intro y; ring)
  have e2 : (∫ y in (-hh)..hh, y * (Real.pi * (k * hh - k * y) ^ 2)) = _ :=
    integral_eq_poly4 _ (-hh) hh 0 (Real.pi * k ^ 2 * hh ^ 2) (-2 * Real.pi * k ^ 2 * hh) (Real.pi * k ^ 2) 0 (by intro y; ring)
  have e3 : (∫ y in (-hh)..hh, Real.pi / 2 * (k * hh - k * y) ^ 4) = _ :=
    integral_eq_poly4 _ (-hh) hh (Real.pi / 2 * k ^ 4 * hh ^ 4) (-2 * Real.pi * k ^ 4 * hh ^ 3) (3 * Real.pi * k ^ 4 * hh ^ 2)
      (-2 * Real.pi * k ^ 4 * hh) (Real.pi / 2 * k ^ 4) (by intro y; ring)
  have e4 : (∫ y in (-hh)..hh, (Real.pi / 4 * (k * hh - k * y) ^ 4 + Real.pi * (k * hh - k * y) ^ 2 * (y - (⟨0, -hh / 2, 0⟩ : V3 ℝ).y) ^ 2)) = _ :=
    integral_eq_poly4 _ (-hh) hh (Real.pi / 4 * k ^ 4 * hh ^ 4 + Real.pi * k ^ 2 * hh ^ 4 / 4)
      (-Real.pi * k ^ 4 * hh ^ 3 + Real.pi * k ^ 2 * hh ^ 3 / 2) (3 * Real.pi / 2 * k ^ 4 * hh ^ 2 - 3 * Real.pi * k ^ 2 * hh ^ 2 / 4)
      (-Real.pi * k ^ 4 * hh - Real.pi * k ^ 2 * hh) (Real.pi / 4 * k ^ 4 + Real.pi * k ^ 2) (by intro y; ring)
  rw [e1, e2, e3, e4]
  have hr' : r = 2 * hh * k := by simp only [hk]; field_simp
  rw [hr']
  refine ⟨by ring, by ring, by ring, by ring, by first | rfl | trivial⟩

/-- **Why `3r/8` is the 3-D value and `4r/(3π)` the 2-D one** (the capsule end-cap offsets): the centroid of a hemisphere of
radius `r` is at `∫₀^r y·π(r²−y²) dy / (2πr³/3) = 3r/8` above its base, and the centroid of a half-disc at
`∫_{-r}^{r} (r²−x²)/2 dx / (πr²/2) = 4r/(3π)` (chord slices: `∫₀^{√(r²−x²)} y dy = (r²−x²)/2`). -/
theorem cap_centroid_offsets (r : ℝ) (hr : 0 < r) :
    (∫ y in (0:ℝ)..r, y * (Real.pi * (r ^ 2 - y ^ 2))) / (2 * Real.pi * r ^ 3 / 3) = 3 * r / 8 ∧
    (∫ x in (-r)..r, (r ^ 2 - x ^ 2) / 2) / (Real.pi * r ^ 2 / 2) = 4 * r / (3 * Real.pi) := by
  have hp := Real.pi_pos
  have e1 : (∫ y in (0:ℝ)..r, y * (Real.pi * (r ^ 2 - y ^ 2))) = _ :=
    integral_eq_poly4 _ 0 r 0 (Real.pi * r ^ 2) 0 (-Real.pi) 0 (by intro y; ring)
  have e2 : (∫ x in (-r)..r, (r ^ 2 - x ^ 2) / 2) = _ :=
    integral_eq_poly4 _ (-r) r (r ^ 2 / 2) 0 (-1 / 2) 0 0 (by intro y; ring)
  rw [e1, e2]
  constructor <;> field_simp <;> ring

/-- **Capsule (3-D), as a solid of revolution** about its axis (axis coordinate `y`, centre at `0`, `c = h/2`,
`h = |b − a|`): disc slices of squared radius `r²` on the cylinder `|y| ≤ c` and `r² − (y ∓ c)²` on the two hemispherical
caps.  `from_capsule` has the mass `ρ ∫ π ρ(y)²`, the axial inertia `ρ ∫ (π/2) ρ(y)⁴` and the transverse inertia
`ρ ∫ (π/4 ρ(y)⁴ + π ρ(y)² y²)` of that solid — in particular the cap offset `3r/8` and the `h²/4 + 3hr/8` shift in the
code are the exact parallel-axis terms. -/
theorem capsule3_is_solid_of_revolution (ρ r : ℝ) (a b : V3 ℝ) (hρ : 0 ≤ ρ) (hr : 0 ≤ r) :
    letI := fieldNum ℝ Real.sqrt
    let h := (b.sub a).norm
    let c := h / 2
    let x := fromCapsule3 Real.pi ρ a b r
    x.2.1⁻¹ = ρ * ((∫ y in (-c - r)..(-c), Real.pi * (r ^ 2 - (y + c) ^ 2)) + (∫ _y in (-c)..c, Real.pi * r ^ 2)
                    + ∫ y in c..(c + r), Real.pi * (r ^ 2 - (y - c) ^ 2)) ∧
    (x.2.2.y * x.2.2.y)⁻¹ = ρ * ((∫ y in (-c - r)..(-c), Real.pi / 2 * (r ^ 2 - (y + c) ^ 2) ^ 2) + (∫ _y in (-c)..c, Real.pi / 2 * r ^ 4)
                    + ∫ y in c..(c + r), Real.pi / 2 * (r ^ 2 - (y - c) ^ 2) ^ 2) ∧
    (x.2.2.x * x.2.2.x)⁻¹ = ρ * ((∫ y in (-c - r)..(-c), (Real.pi / 4 * (r ^ 2 - (y + c) ^ 2) ^ 2 + Real.pi * (r ^ 2 - (y + c) ^ 2) * y ^ 2))
                    + (∫ y in (-c)..c, (Real.pi / 4 * r ^ 4 + Real.pi * r ^ 2 * y ^ 2))
                    + ∫ y in c..(c + r), (Real.pi / 4 * (r ^ 2 - (y - c) ^ 2) ^ 2 + Real.pi * (r ^ 2 - (y - c) ^ 2) * y ^ 2)) := by
  intro h c x
  obtain ⟨_, b1, b2, b3, _⟩ := capsule3_spec Real.sqrt real_lawfulSqrt Real.pi ρ a b r Real.pi_pos.le hρ hr
  rw [b1, b2, b3]
  rw [show @V3.norm ℝ (fieldNum ℝ Real.sqrt) (@V3.sub ℝ (fieldNum ℝ Real.sqrt) b a) = 2 * c from by simp only [c, h]; ring]
  clear_value c
  have m1 : (∫ y in (-c - r)..(-c), Real.pi * (r ^ 2 - (y + c) ^ 2)) = _ :=
    integral_eq_poly4 _ (-c - r) (-c) (Real.pi * (r ^ 2 - c ^ 2)) (-2 * Real.pi * c) (-Real.pi) 0 0 (by intro y; ring)
  have m3 : (∫ y in c..(c + r), Real.pi * (r ^ 2 - (y - c) ^ 2)) = _ :=
    integral_eq_poly4 _ c (c + r) (Real.pi * (r ^ 2 - c ^ 2)) (2 * Real.pi * c) (-Real.pi) 0 0 (by intro y; ring)
  have a1 : (∫ y in (-c - r)..(-c), Real.pi / 2 * (r ^ 2 - (y + c) ^ 2) ^ 2) = _ :=
    integral_eq_poly4 _ (-c - r) (-c) (Real.pi / 2 * (r ^ 2 - c ^ 2) ^ 2) (Real.pi / 2 * (2 * (r ^ 2 - c ^ 2) * (-2 * c)))
      (Real.pi / 2 * (4 * c ^ 2 - 2 * (r ^ 2 - c ^ 2))) (Real.pi / 2 * (4 * c)) (Real.pi / 2) (by intro y; ring)
  have a3 : (∫ y in c..(c + r), Real.pi / 2 * (r ^ 2 - (y - c) ^ 2) ^ 2) = _ :=
    integral_eq_poly4 _ c (c + r) (Real.pi / 2 * (r ^ 2 - c ^ 2) ^ 2) (Real.pi / 2 * (2 * (r ^ 2 - c ^ 2) * (2 * c)))
      (Real.pi / 2 * (4 * c ^ 2 - 2 * (r ^ 2 - c ^ 2))) (Real.pi / 2 * (-4 * c)) (Real.pi / 2) (by intro y; ring)
  have t1 : (∫ y in (-c - r)..(-c), (Real.pi / 4 * (r ^ 2 - (y + c) ^ 2) ^ 2 + Real.pi * (r ^ 2 - (y + c) ^ 2) * y ^ 2)) = _ :=
    integral_eq_poly4 _ (-c - r) (-c) (Real.pi / 4 * (r ^ 2 - c ^ 2) ^ 2) (Real.pi / 4 * (2 * (r ^ 2 - c ^ 2) * (-2 * c)))
      (Real.pi / 4 * (4 * c ^ 2 - 2 * (r ^ 2 - c ^ 2)) + Real.pi * (r ^ 2 - c ^ 2)) (Real.pi / 4 * (4 * c) + Real.pi * (-2 * c))
      (Real.pi / 4 - Real.pi) (by intro y; ring)
  have t2 : (∫ y in (-c)..c, (Real.pi / 4 * r ^ 4 + Real.pi * r ^ 2 * y ^ 2)) = _ :=
    integral_eq_poly4 _ (-c) c (Real.pi / 4 * r ^ 4) 0 (Real.pi * r ^ 2) 0 0 (by intro y; ring)
  have t3 : (∫ y in c..(c + r), (Real.pi / 4 * (r ^ 2 - (y - c) ^ 2) ^ 2 + Real.pi * (r ^ 2 - (y - c) ^ 2) * y ^ 2)) = _ :=
    integral_eq_poly4 _ c (c + r) (Real.pi / 4 * (r ^ 2 - c ^ 2) ^ 2) (Real.pi / 4 * (2 * (r ^ 2 - c ^ 2) * (2 * c)))
      (Real.pi / 4 * (4 * c ^ 2 - 2 * (r ^ 2 - c ^ 2)) + Real.pi * (r ^ 2 - c ^ 2)) (Real.pi / 4 * (-4 * c) + Real.pi * (2 * c))
      (Real.pi / 4 - Real.pi) (by intro y; ring)
  rw [m1, m3, a1, a3, t1, t2, t3]
  simp only [integral_const, smul_eq_mul]
  refine ⟨by ring, by ring, by ring⟩

/-- **Box (3-D), as a triple integral**: mass `ρ ∭ 1` and the three diagonal entries of the inertia tensor
`ρ ∭ (y² + z²)`, `ρ ∭ (x² + z²)`, `ρ ∭ (x² + y²)` over `[-hx,hx]×[-hy,hy]×[-hz,hz]` are what `from_cuboid` (dim3) returns. -/
theorem cuboid3_is_integral (ρ : ℝ) (he : V3 ℝ) (hρ : 0 ≤ ρ) (hx : 0 ≤ he.x) (hy : 0 ≤ he.y) (hz : 0 ≤ he.z) :
    letI := fieldNum ℝ Real.sqrt
    massOf3 (fromCuboid3 ρ he) = ρ * ∫ _x in (-he.x)..he.x, ∫ _y in (-he.y)..he.y, ∫ _z in (-he.z)..he.z, (1 : ℝ) ∧
    (inertiaOf3 (fromCuboid3 ρ he)).x = ρ * ∫ _x in (-he.x)..he.x, ∫ y in (-he.y)..he.y, ∫ z in (-he.z)..he.z, (y ^ 2 + z ^ 2) ∧
    (inertiaOf3 (fromCuboid3 ρ he)).y = ρ * ∫ x in (-he.x)..he.x, ∫ _y in (-he.y)..he.y, ∫ z in (-he.z)..he.z, (x ^ 2 + z ^ 2) ∧
    (inertiaOf3 (fromCuboid3 ρ he)).z = ρ * ∫ x in (-he.x)..he.x, ∫ y in (-he.y)..he.y, ∫ _z in (-he.z)..he.z, (x ^ 2 + y ^ 2) := by
  obtain ⟨c1, c2, _, _⟩ := cuboid3_spec Real.sqrt real_lawfulSqrt ρ he hρ hx hy hz
  rw [c1, c2]
  -- innermost integrals (in z)
  have iz : ∀ u : ℝ, (∫ z in (-he.z)..he.z, (u + z ^ 2)) = 2 * he.z * u + 2 * he.z ^ 3 / 3 := by
    intro u
    rw [integral_eq_poly4 _ (-he.z) he.z u 0 1 0 0 (by intro z; ring)]; ring
  have iy : ∀ a b : ℝ, (∫ y in (-he.y)..he.y, (a * y ^ 2 + b)) = 2 * he.y ^ 3 / 3 * a + 2 * he.y * b := by
    intro a b
    rw [integral_eq_poly4 _ (-he.y) he.y b 0 a 0 0 (by intro y; ring)]; ring
  have ix : ∀ a b : ℝ, (∫ x in (-he.x)..he.x, (a * x ^ 2 + b)) = 2 * he.x ^ 3 / 3 * a + 2 * he.x * b := by
    intro a b
    rw [integral_eq_poly4 _ (-he.x) he.x b 0 a 0 0 (by intro x; ring)]; ring
  have e1 : ∀ y : ℝ, (∫ z in (-he.z)..he.z, (y ^ 2 + z ^ 2)) = (2 * he.z) * y ^ 2 + 2 * he.z ^ 3 / 3 := by
    intro y; rw [iz]
  have e2 : ∀ x : ℝ, (∫ z in (-he.z)..he.z, (x ^ 2 + z ^ 2)) = 2 * he.z * x ^ 2 + 2 * he.z ^ 3 / 3 := by
    intro x; rw [iz]
  have e3 : ∀ x : ℝ, (∫ y in (-he.y)..he.y, (x ^ 2 + y ^ 2 : ℝ) * (2 * he.z)) = (2 * he.y * (2 * he.z)) * x ^ 2 + 2 * he.y ^ 3 / 3 * (2 * he.z) := by
    intro x
    rw [integral_eq_poly4 _ (-he.y) he.y (x ^ 2 * (2 * he.z)) 0 (2 * he.z) 0 0 (by intro y; ring)]; ring
  simp only [integral_const, smul_eq_mul, e1, e2, iy, sub_neg_eq_add]
  refine ⟨by ring, by ring, ?_, ?_⟩
  · have : ∀ x : ℝ, (he.y + he.y) * (2 * he.z * x ^ 2 + 2 * he.z ^ 3 / 3) = ((he.y + he.y) * (2 * he.z)) * x ^ 2 + (he.y + he.y) * (2 * he.z ^ 3 / 3) := by
      intro x; ring
    simp only [this, ix]; ring
  · have h2 : ∀ x y : ℝ, (he.z + he.z) * (x ^ 2 + y ^ 2) = (x ^ 2 + y ^ 2) * (2 * he.z) := by intro x y; ring
    simp only [h2, e3, ix]; ring

end Integrals

/-! ## Non-vacuity: the hypotheses of the theorems above are satisfiable on concrete non-trivial inputs (over ℝ, where
`Real.sqrt` is lawful), and the two documented counter-examples evaluated through the theorems -/

/-- the unit right triangle is non-degenerate -/
example : cross (⟨⟨0, 0⟩, ⟨1, 0⟩, ⟨0, 1⟩⟩ : Triangle2 ℝ) ≠ 0 := by norm_num [cross]

/-- unit right triangle, density 1: the corrected `from_triangle` reports `1/18`, the pinned one `1/6` -/
example :
    letI := fieldNum ℝ Real.sqrt
    inertiaOf (fromTriangle 1 (⟨⟨0, 0⟩, ⟨1, 0⟩, ⟨0, 1⟩⟩ : Triangle2 ℝ)) = 1 / 18 ∧
    inertiaOf (fromTrianglePinned 1 (⟨⟨0, 0⟩, ⟨1, 0⟩, ⟨0, 1⟩⟩ : Triangle2 ℝ)) = 1 / 6 := by
  have hnd : cross (⟨⟨0, 0⟩, ⟨1, 0⟩, ⟨0, 1⟩⟩ : Triangle2 ℝ) ≠ 0 := by norm_num [cross]
  obtain ⟨h1, _, h3⟩ := from_triangle_spec Real.sqrt real_lawfulSqrt 1 one_pos _ hnd
  have hp := from_triangle_pinned_overestimates Real.sqrt real_lawfulSqrt 1 zero_le_one (⟨⟨0, 0⟩, ⟨1, 0⟩, ⟨0, 1⟩⟩ : Triangle2 ℝ)
  have hc := triangle_center_eq Real.sqrt (⟨⟨0, 0⟩, ⟨1, 0⟩, ⟨0, 1⟩⟩ : Triangle2 ℝ)
  have e3 : inertiaOf (@fromTriangle ℝ (fieldNum ℝ Real.sqrt) 1 ⟨⟨0, 0⟩, ⟨1, 0⟩, ⟨0, 1⟩⟩) = 1 / 18 := by
    rw [h3]; norm_num [cross, sumSqSides]
  refine ⟨e3, ?_⟩
  rw [hp, e3, h1, hc]
  norm_num [cross, V2.sub, V2.normSq, V2.dot]

/-- the 2×6 box as two triangles, density 1: inertia 40 (the pinned tree reports 160) -/
example :
    letI := fieldNum ℝ Real.sqrt
    inertiaOf (fromTrimeshTris 1 ([⟨⟨0, 0⟩, ⟨2, 0⟩, ⟨2, 6⟩⟩, ⟨⟨0, 0⟩, ⟨2, 6⟩, ⟨0, 6⟩⟩] : List (Triangle2 ℝ))) = 40 := by
  have := (trimesh_rectangle Real.sqrt real_lawfulSqrt (1:ℝ) 2 6 one_pos two_pos (by norm_num)).2.2.1
  rw [this]; norm_num

/-- hypotheses of `sub_add_cancel` / `add_moments` are satisfiable -/
example : (0:ℝ) ≤ (⟨⟨1, 2⟩, 1 / 2, 1 / 3⟩ : MP2 ℝ).invMass ∧ (1:ℝ) / 8388608 ≤ massOf (⟨⟨1, 2⟩, 1 / 2, 1 / 3⟩ : MP2 ℝ) ∧
    (1:ℝ) / 8388608 ≤ inertiaOf (⟨⟨1, 2⟩, 1 / 2, 1 / 3⟩ : MP2 ℝ) := by
  norm_num [massOf, inertiaOf]

/-- a non-identity unit rotation for `transformBy_covariant` -/
example : ((3:ℝ) / 5) * (3 / 5) + (4 / 5) * (4 / 5) = 1 := by norm_num

/-- the unit square seen from its centre: hypotheses of `convex_polygon_closed_form` -/
example : SeesCCW (⟨1 / 2, 1 / 2⟩ : V2 ℝ) (cyclicPairs (⟨0, 0⟩ : V2 ℝ) [⟨0, 0⟩, ⟨1, 0⟩, ⟨1, 1⟩, ⟨0, 1⟩]) ∧
    shoelace (cyclicPairs (⟨0, 0⟩ : V2 ℝ) [⟨0, 0⟩, ⟨1, 0⟩, ⟨1, 1⟩, ⟨0, 1⟩]) ≠ 0 := by
  constructor
  · intro e he
    simp only [cyclicPairs, List.mem_cons, List.not_mem_nil, or_false] at he
    rcases he with rfl | rfl | rfl | rfl <;> norm_num [cr]
  · norm_num [shoelace, cyclicPairs, cr]

/-- **3-D `+` is additive, through the eigen-decomposition**: for every eigen-solver that returns an orthonormal
eigen-decomposition with non-negative eigenvalues of the matrix `+` hands over, the RESULT of `a + b` (principal inertias +
frame) has mass `m₁+m₂`, first moment `m₁c₁+m₂c₂` and — after `reconstruct_inertia_matrix` — the second-moment tensor about
the origin equal to the sum of the operands' tensors about the origin.  The `zero()` early returns are included
(a `zero()` operand contributes nothing). -/
theorem add3_full_moments (hs : LawfulSqrt sq) (eig : M3 K → V3 K × M3 K) (a b : MP3 K) (ha : 0 ≤ a.invMass) (hb : 0 ≤ b.invMass)
    (hE : ∀ (m : K) (c : V3 K) (I : M3 K), @MP3.addRaw K (fieldNum K sq) a b = some (m, c, I) →
      EigenDecomp sq I (eig I).1 (eig I).2 ∧ 0 ≤ (eig I).1.x ∧ 0 ≤ (eig I).1.y ∧ 0 ≤ (eig I).1.z) :
    letI := fieldNum K sq
    let r := MP3.add eig a b
    massOf3 r = massOf3 a + massOf3 b ∧
    r.com.x * massOf3 r = a.com.x * massOf3 a + b.com.x * massOf3 b ∧
    r.com.y * massOf3 r = a.com.y * massOf3 a + b.com.y * massOf3 b ∧
    r.com.z * massOf3 r = a.com.z * massOf3 a + b.com.z * massOf3 b ∧
    madd r.reconstruct (steiner3 (massOf3 r) r.com) =
      madd (madd a.reconstruct (steiner3 (massOf3 a) a.com)) (madd b.reconstruct (steiner3 (massOf3 b) b.com)) := by
  intro r
  rcases h : @MP3.addRaw K (fieldNum K sq) a b with _ | ⟨m, c, I⟩
  · -- an operand is `zero()`
    have hr : r = if @MP3.isZero K (fieldNum K sq) a = true then b else a := by simp only [r, MP3.add, h]
    by_cases hz : @MP3.isZero K (fieldNum K sq) a = true
    · obtain ⟨z1, z2, z3⟩ := isZero3_spec sq a hz
      rw [hr, if_pos hz, z1, z2, z3, madd_zero_left 0]
      simp
    · have hzb : @MP3.isZero K (fieldNum K sq) b = true := by
        unfold MP3.addRaw at h
        rw [if_neg hz] at h
        by_contra hb'
        rw [if_neg hb'] at h
        simp at h
      obtain ⟨z1, z2, z3⟩ := isZero3_spec sq b hzb
      rw [hr, if_neg hz, z1, z2, z3, madd_zero_right]
      simp
  · obtain ⟨hD, e1, e2, e3⟩ := hE m c I h
    have hr : r = @MP3.withInertiaEigen K (fieldNum K sq) c m (eig I).1 (eig I).2 := by
      simp only [r, MP3.add, h, MP3.withInertiaMatrix]
    obtain ⟨r1, r2, r3, -, -⟩ := with_inertia_matrix_recompose sq hs c m I (eig I).1 (eig I).2 hD e1 e2 e3
    obtain ⟨a1, a2, a3, a4, a5⟩ := add3_raw_moments sq a b ha hb m c I h
    rw [hr, r1, r2, r3]
    exact ⟨a1, a2, a3, a4, a5⟩


/-- **`(a + b) − b = a` in 3-D, through both eigen-decompositions**: whenever `a` has at least the threshold mass, the
solver returns orthonormal eigen-decompositions (non-negative eigenvalues) of the two matrices handed over, the result of
`(a + b) − b` has the mass, first moment and second-moment tensor about the origin of `a`. -/
theorem sub3_add_cancel (hs : LawfulSqrt sq) (eig : M3 K → V3 K × M3 K) (a b : MP3 K) (ha : 0 ≤ a.invMass) (hb : 0 ≤ b.invMass)
    (hth : (1 / 8388608 : K) ≤ massOf3 a)
    (hE1 : ∀ (m : K) (c : V3 K) (I : M3 K), @MP3.addRaw K (fieldNum K sq) a b = some (m, c, I) →
      EigenDecomp sq I (eig I).1 (eig I).2 ∧ 0 ≤ (eig I).1.x ∧ 0 ≤ (eig I).1.y ∧ 0 ≤ (eig I).1.z)
    (m : K) (c : V3 K) (I : M3 K)
    (hraw : @MP3.subRaw K (fieldNum K sq) (@MP3.add K (fieldNum K sq) eig a b) b = some (m, c, I))
    (hE2 : EigenDecomp sq I (eig I).1 (eig I).2 ∧ 0 ≤ (eig I).1.x ∧ 0 ≤ (eig I).1.y ∧ 0 ≤ (eig I).1.z) :
    letI := fieldNum K sq
    let r := MP3.sub eig (MP3.add eig a b) b
    massOf3 r = massOf3 a ∧
    r.com.x * massOf3 r = a.com.x * massOf3 a ∧ r.com.y * massOf3 r = a.com.y * massOf3 a ∧ r.com.z * massOf3 r = a.com.z * massOf3 a ∧
    madd r.reconstruct (steiner3 (massOf3 r) r.com) = originTensor sq a := by
  intro r
  obtain ⟨s1, s2, s3, s4, s5⟩ := add3_full_moments sq hs eig a b ha hb hE1
  have hth' : (1 / 8388608 : K) ≤ massOf3 (@MP3.add K (fieldNum K sq) eig a b) - massOf3 b := by rw [s1]; linarith
  obtain ⟨t1, t2, t3, t4, t5⟩ := sub3_raw_moments sq _ b m c I hth' hraw
  obtain ⟨hD, e1, e2, e3⟩ := hE2
  obtain ⟨r1, r2, r3, -, -⟩ := with_inertia_matrix_recompose sq hs c m I (eig I).1 (eig I).2 hD e1 e2 e3
  have hr : r = @MP3.withInertiaEigen K (fieldNum K sq) c m (eig I).1 (eig I).2 := by
    simp only [r, MP3.sub, hraw, MP3.withInertiaMatrix]
  rw [hr, r1, r2, r3]
  refine ⟨by rw [t1, s1]; ring, by rw [t2, s2]; ring, by rw [t3, s3]; ring, by rw [t4, s4]; ring, ?_⟩
  -- tensors: I + steiner + O(b) = O(a + b) = O(a) + O(b)
  have e : madd (madd I (steiner3 m c)) (originTensor sq b) = madd (originTensor sq a) (originTensor sq b) := by
    rw [t5]; exact s5
  generalize madd I (steiner3 m c) = X at e ⊢
  generalize originTensor sq a = A at e ⊢
  generalize originTensor sq b = B at e
  rcases X with ⟨⟨x00, x01, x02⟩, ⟨x10, x11, x12⟩, ⟨x20, x21, x22⟩⟩
  rcases A with ⟨⟨a00, a01, a02⟩, ⟨a10, a11, a12⟩, ⟨a20, a21, a22⟩⟩
  rcases B with ⟨⟨b00, b01, b02⟩, ⟨b10, b11, b12⟩, ⟨b20, b21, b22⟩⟩
  simp only [madd, M3.mk.injEq, V3.mk.injEq] at e
  obtain ⟨⟨h00, h01, h02⟩, ⟨h10, h11, h12⟩, ⟨h20, h21, h22⟩⟩ := e
  congr 1 <;> congr 1 <;> linarith

/-! ### 3-D `transform_by` commutes with `+` (rotation AND translation part) -/

/-- matrix × vector (spec side) -/
def mulVec3 (M : M3 K) (v : V3 K) : V3 K :=
  ⟨M.r0.x * v.x + M.r0.y * v.y + M.r0.z * v.z, M.r1.x * v.x + M.r1.y * v.y + M.r1.z * v.z, M.r2.x * v.x + M.r2.y * v.y + M.r2.z * v.z⟩

/-- second-moment tensor about the ORIGIN of a body with mass `μ`, first moment `F = μ·com` and origin tensor `O`, after the
rigid motion `x ↦ M x + t`: `M O Mᵀ + (2 (MF·t)·1 − MF tᵀ − t (MF)ᵀ) + μ(|t|²·1 − t tᵀ)` — LINEAR in `(μ, F, O)` -/
def movedTensor (M : M3 K) (t : V3 K) (μ : K) (F : V3 K) (O : M3 K) : M3 K :=
  let u := mulVec3 M F
  let d := u.x * t.x + u.y * t.y + u.z * t.z
  madd (madd (@M3.mul K (fieldNum K sq) (@M3.mul K (fieldNum K sq) M O) (mtr M))
    ⟨⟨2 * d - 2 * u.x * t.x, -(u.x * t.y + t.x * u.y), -(u.x * t.z + t.x * u.z)⟩,
     ⟨-(u.y * t.x + t.y * u.x), 2 * d - 2 * u.y * t.y, -(u.y * t.z + t.y * u.z)⟩,
     ⟨-(u.z * t.x + t.z * u.x), -(u.z * t.y + t.z * u.y), 2 * d - 2 * u.z * t.z⟩⟩) (steiner3 μ t)

/-- for a unit quaternion the sandwich product nalgebra evaluates is the rotation matrix times the vector -/
theorem rot_eq_mulVec (m : Iso3 K) (hq : UnitQ (⟨m.qi, m.qj, m.qk, m.qw⟩ : Quat K)) (v : V3 K) :
    @Iso3.rot K (fieldNum K sq) m v = mulVec3 (@Quat.toMat K (fieldNum K sq) ⟨m.qi, m.qj, m.qk, m.qw⟩) v := by
  simp only [Iso3.rot, Iso3.rotQ, Iso3.qv, V3.cross, V3.smul, V3.add, Quat.toMat, mulVec3, fieldNum_two, UnitQ] at hq ⊢
  congr 1
  · linear_combination (-v.x) * hq
  · linear_combination (-v.y) * hq
  · linear_combination (-v.z) * hq

/-- the origin tensor of a transformed body -/
theorem originTensor_transformBy (p : MP3 K) (m : Iso3 K) (hq : UnitQ (⟨m.qi, m.qj, m.qk, m.qw⟩ : Quat K)) :
    originTensor sq (@MP3.transformBy K (fieldNum K sq) p m)
      = movedTensor sq (@Quat.toMat K (fieldNum K sq) ⟨m.qi, m.qj, m.qk, m.qw⟩) m.t (massOf3 p)
          ⟨p.com.x * massOf3 p, p.com.y * massOf3 p, p.com.z * massOf3 p⟩ (originTensor sq p) := by
  obtain ⟨h1, -, h3, h4⟩ := transformBy3_covariant sq p m
  unfold originTensor
  rw [h4, h1, h3]
  simp only [Iso3.act, rot_eq_mulVec sq m hq]
  generalize massOf3 p = μ
  generalize @MP3.reconstruct K (fieldNum K sq) p = I
  rcases I with ⟨⟨a00, a01, a02⟩, ⟨a10, a11, a12⟩, ⟨a20, a21, a22⟩⟩
  rcases m with ⟨i, j, k, w, ⟨tx, ty, tz⟩⟩
  generalize p.com = c
  rcases c with ⟨cx, cy, cz⟩
  simp only [movedTensor, madd, steiner3, M3.mul, mtr, mulVec3, V3.add, Quat.toMat, fieldNum_two]
  congr 1 <;> congr 1 <;> ring

theorem movedTensor_add (M : M3 K) (t : V3 K) (μ1 μ2 : K) (F1 F2 : V3 K) (O1 O2 : M3 K) :
    movedTensor sq M t (μ1 + μ2) ⟨F1.x + F2.x, F1.y + F2.y, F1.z + F2.z⟩ (madd O1 O2)
      = madd (movedTensor sq M t μ1 F1 O1) (movedTensor sq M t μ2 F2 O2) := by
  rcases M with ⟨⟨m00, m01, m02⟩, ⟨m10, m11, m12⟩, ⟨m20, m21, m22⟩⟩
  rcases O1 with ⟨⟨a00, a01, a02⟩, ⟨a10, a11, a12⟩, ⟨a20, a21, a22⟩⟩
  rcases O2 with ⟨⟨b00, b01, b02⟩, ⟨b10, b11, b12⟩, ⟨b20, b21, b22⟩⟩
  simp only [movedTensor, madd, steiner3, M3.mul, mtr, mulVec3]
  congr 1 <;> congr 1 <;> ring

/-- **`transform_by` commutes with `+` in 3-D** (rotation and translation; through all three eigen-decompositions): for a
unit rotation quaternion, `(a + b).transform_by(m)` and `a.transform_by(m) + b.transform_by(m)` have the same mass, the
same first moment and the same second-moment tensor about the origin (after `reconstruct_inertia_matrix` + Steiner term),
whenever the solver returns orthonormal eigen-decompositions with non-negative eigenvalues of the two matrices handed over. -/
theorem transformBy3_add (hs : LawfulSqrt sq) (eig : M3 K → V3 K × M3 K) (a b : MP3 K) (ha : 0 ≤ a.invMass) (hb : 0 ≤ b.invMass)
    (m : Iso3 K) (hq : UnitQ (⟨m.qi, m.qj, m.qk, m.qw⟩ : Quat K))
    (hE : ∀ (μ : K) (c : V3 K) (I : M3 K), @MP3.addRaw K (fieldNum K sq) a b = some (μ, c, I) →
      EigenDecomp sq I (eig I).1 (eig I).2 ∧ 0 ≤ (eig I).1.x ∧ 0 ≤ (eig I).1.y ∧ 0 ≤ (eig I).1.z)
    (hE' : ∀ (μ : K) (c : V3 K) (I : M3 K),
      @MP3.addRaw K (fieldNum K sq) (@MP3.transformBy K (fieldNum K sq) a m) (@MP3.transformBy K (fieldNum K sq) b m) = some (μ, c, I) →
      EigenDecomp sq I (eig I).1 (eig I).2 ∧ 0 ≤ (eig I).1.x ∧ 0 ≤ (eig I).1.y ∧ 0 ≤ (eig I).1.z) :
    letI := fieldNum K sq
    let l := (MP3.add eig a b).transformBy m
    let r := MP3.add eig (a.transformBy m) (b.transformBy m)
    massOf3 l = massOf3 r ∧
    l.com.x * massOf3 l = r.com.x * massOf3 r ∧ l.com.y * massOf3 l = r.com.y * massOf3 r ∧
    l.com.z * massOf3 l = r.com.z * massOf3 r ∧ originTensor sq l = originTensor sq r := by
  intro l r
  obtain ⟨s1, s2, s3, s4, s5⟩ := add3_full_moments sq hs eig a b ha hb hE
  obtain ⟨g1, g2, g3, g4, g5⟩ := add3_full_moments sq hs eig (@MP3.transformBy K (fieldNum K sq) a m)
    (@MP3.transformBy K (fieldNum K sq) b m) ha hb hE'
  have hl := originTensor_transformBy sq (@MP3.add K (fieldNum K sq) eig a b) m hq
  have hat := originTensor_transformBy sq a m hq
  have hbt := originTensor_transformBy sq b m hq
  have ml : massOf3 l = massOf3 (@MP3.add K (fieldNum K sq) eig a b) := rfl
  have ma : massOf3 (@MP3.transformBy K (fieldNum K sq) a m) = massOf3 a := rfl
  have mb : massOf3 (@MP3.transformBy K (fieldNum K sq) b m) = massOf3 b := rfl
  have cl : l.com = @Iso3.act K (fieldNum K sq) m (@MP3.add K (fieldNum K sq) eig a b).com := rfl
  have ca : (@MP3.transformBy K (fieldNum K sq) a m).com = @Iso3.act K (fieldNum K sq) m a.com := rfl
  have cb : (@MP3.transformBy K (fieldNum K sq) b m).com = @Iso3.act K (fieldNum K sq) m b.com := rfl
  refine ⟨by rw [ml, s1, g1, ma, mb], ?_, ?_, ?_, ?_⟩
  · rw [g2, ml, cl, ca, cb, ma, mb]
    simp only [Iso3.act, rot_eq_mulVec sq m hq, mulVec3, V3.add]
    linear_combination (@Quat.toMat K (fieldNum K sq) ⟨m.qi, m.qj, m.qk, m.qw⟩).r0.x * s2
      + (@Quat.toMat K (fieldNum K sq) ⟨m.qi, m.qj, m.qk, m.qw⟩).r0.y * s3
      + (@Quat.toMat K (fieldNum K sq) ⟨m.qi, m.qj, m.qk, m.qw⟩).r0.z * s4 + m.t.x * s1
  · rw [g3, ml, cl, ca, cb, ma, mb]
    simp only [Iso3.act, rot_eq_mulVec sq m hq, mulVec3, V3.add]
    linear_combination (@Quat.toMat K (fieldNum K sq) ⟨m.qi, m.qj, m.qk, m.qw⟩).r1.x * s2
      + (@Quat.toMat K (fieldNum K sq) ⟨m.qi, m.qj, m.qk, m.qw⟩).r1.y * s3
      + (@Quat.toMat K (fieldNum K sq) ⟨m.qi, m.qj, m.qk, m.qw⟩).r1.z * s4 + m.t.y * s1
  · rw [g4, ml, cl, ca, cb, ma, mb]
    simp only [Iso3.act, rot_eq_mulVec sq m hq, mulVec3, V3.add]
    linear_combination (@Quat.toMat K (fieldNum K sq) ⟨m.qi, m.qj, m.qk, m.qw⟩).r2.x * s2
      + (@Quat.toMat K (fieldNum K sq) ⟨m.qi, m.qj, m.qk, m.qw⟩).r2.y * s3
      + (@Quat.toMat K (fieldNum K sq) ⟨m.qi, m.qj, m.qk, m.qw⟩).r2.z * s4 + m.t.z * s1
  · have e : originTensor sq r = madd (originTensor sq (@MP3.transformBy K (fieldNum K sq) a m))
        (originTensor sq (@MP3.transformBy K (fieldNum K sq) b m)) := g5
    have e0 : originTensor sq (@MP3.add K (fieldNum K sq) eig a b) = madd (originTensor sq a) (originTensor sq b) := s5
    rw [e, hl, hat, hbt, e0, s2, s3, s4, s1, ← movedTensor_add]

/-- a non-identity unit rotation (120° about the diagonal would be `(1/2,1/2,1/2,1/2)`; here an oblique half-turn) for
`transformBy3_add` / `rot_eq_mulVec` -/
example : UnitQ (⟨2 / 3, 1 / 3, 2 / 3, 0⟩ : Quat ℚ) ∧ UnitQ (⟨1 / 2, 1 / 2, 1 / 2, 1 / 2⟩ : Quat ℚ) := by
  constructor <;> norm_num [UnitQ]

/-! ### 2-D `from_trimesh` and refinement of the triangulation -/

/-- midpoint subdivision of a 2-D triangle (1 → 4) -/
def midpoint4₂ (t : Triangle2 K) : List (Triangle2 K) :=
  let ab : V2 K := ⟨(t.a.x + t.b.x) / 2, (t.a.y + t.b.y) / 2⟩
  let bc : V2 K := ⟨(t.b.x + t.c.x) / 2, (t.b.y + t.c.y) / 2⟩
  let ca : V2 K := ⟨(t.c.x + t.a.x) / 2, (t.c.y + t.a.y) / 2⟩
  [⟨t.a, ab, ca⟩, ⟨ab, t.b, bc⟩, ⟨ca, bc, t.c⟩, ⟨ab, bc, ca⟩]

/-- insertion of the point `α a + β b + (1−α−β) c` (1 → 3) -/
def insertPoint₂ (α β : K) (t : Triangle2 K) : List (Triangle2 K) :=
  let p : V2 K := ⟨α * t.a.x + β * t.b.x + (1 - α - β) * t.c.x, α * t.a.y + β * t.b.y + (1 - α - β) * t.c.y⟩
  [⟨t.a, t.b, p⟩, ⟨t.b, t.c, p⟩, ⟨t.c, t.a, p⟩]

/-- a local refinement rule keeps mass, first moment and polar moment (about every point) of every triangle part -/
def PartEq (ρ : K) (f : Triangle2 K → List (Triangle2 K)) : Prop :=
  ∀ t : Triangle2 K,
    totMass ((f t).map (@fromTriangle K (fieldNum K sq) ρ)) = totMass [@fromTriangle K (fieldNum K sq) ρ t] ∧
    totFx ((f t).map (@fromTriangle K (fieldNum K sq) ρ)) = totFx [@fromTriangle K (fieldNum K sq) ρ t] ∧
    totFy ((f t).map (@fromTriangle K (fieldNum K sq) ρ)) = totFy [@fromTriangle K (fieldNum K sq) ρ t] ∧
    ∀ p : V2 K, totMoment ((f t).map (@fromTriangle K (fieldNum K sq) ρ)) p = totMoment [@fromTriangle K (fieldNum K sq) ρ t] p

private theorem triArea_cross (hs : LawfulSqrt sq) (t : Triangle2 K) : @triArea K (fieldNum K sq) t = |cross t| / 2 := by
  have harea := triangle_area_eq sq hs t
  have hcr : @V2.perp K (fieldNum K sq) (@V2.sub K (fieldNum K sq) t.b t.a) (@V2.sub K (fieldNum K sq) t.c t.a) = cross t := by
    simp only [V2.perp, V2.sub, cross]
  rw [hcr] at harea
  exact harea

/-- the four part-moments of one `from_triangle`, in closed form: `A = |cross|/2`, centroid `g`, `A·(Σ|side|²/36 + |p−g|²)` -/
private theorem part_closed (hs : LawfulSqrt sq) (ρ : K) (hρ : 0 ≤ ρ) (t : Triangle2 K) (p : V2 K) :
    massOf (@fromTriangle K (fieldNum K sq) ρ t) = |cross t| / 2 * ρ ∧
    (@fromTriangle K (fieldNum K sq) ρ t).com.x = (t.a.x + t.b.x + t.c.x) / 3 ∧
    (@fromTriangle K (fieldNum K sq) ρ t).com.y = (t.a.y + t.b.y + t.c.y) / 3 ∧
    momentAbout (@fromTriangle K (fieldNum K sq) ρ t) p = |cross t| / 2 * ρ *
      (sumSqSides t / 36 + ((p.x - (t.a.x + t.b.x + t.c.x) / 3) ^ 2 + (p.y - (t.a.y + t.b.y + t.c.y) / 3) ^ 2)) := by
  obtain ⟨o1, o2, o3⟩ := from_triangle_obs sq hs ρ hρ t
  have hc := triangle_center_eq sq t
  rw [triArea_cross sq hs] at o1 o3
  have cx : (@fromTriangle K (fieldNum K sq) ρ t).com.x = (t.a.x + t.b.x + t.c.x) / 3 := by rw [o2, hc]
  have cy : (@fromTriangle K (fieldNum K sq) ρ t).com.y = (t.a.y + t.b.y + t.c.y) / 3 := by rw [o2, hc]
  refine ⟨o1, cx, cy, ?_⟩
  simp only [momentAbout, o1, o3, cx, cy]
  ring

/-- **midpoint subdivision keeps the part moments** (each of the four sub-triangles has a quarter of the signed area) -/
theorem midpoint4₂_partEq (hs : LawfulSqrt sq) (ρ : K) (hρ : 0 ≤ ρ) : PartEq sq ρ (midpoint4₂ (K := K)) := by
  intro t
  rcases t with ⟨⟨ax, ay⟩, ⟨bx, by'⟩, ⟨cx, cy⟩⟩
  have h4 : (0:K) < 4 := by norm_num
  have c1 : ∀ s ∈ midpoint4₂ (⟨⟨ax, ay⟩, ⟨bx, by'⟩, ⟨cx, cy⟩⟩ : Triangle2 K),
      |cross s| = |cross (⟨⟨ax, ay⟩, ⟨bx, by'⟩, ⟨cx, cy⟩⟩ : Triangle2 K)| / 4 := by
    intro s hs'
    simp only [midpoint4₂, List.mem_cons, List.not_mem_nil, or_false] at hs'
    rw [← abs_of_pos h4, ← abs_div]
    rcases hs' with rfl | rfl | rfl | rfl <;> (congr 1; simp only [cross]; ring)
  simp only [midpoint4₂, List.mem_cons, List.not_mem_nil, or_false, forall_eq_or_imp, forall_eq] at c1
  obtain ⟨e1, e2, e3, e4⟩ := c1
  refine ⟨?_, ?_, ?_, ?_⟩
  · simp only [totMass, midpoint4₂, List.map_cons, List.map_nil, List.sum_cons, List.sum_nil,
      (part_closed sq hs ρ hρ _ ⟨0, 0⟩).1, e1, e2, e3, e4]
    ring
  · simp only [totFx, midpoint4₂, List.map_cons, List.map_nil, List.sum_cons, List.sum_nil,
      (part_closed sq hs ρ hρ _ ⟨0, 0⟩).1, (part_closed sq hs ρ hρ _ ⟨0, 0⟩).2.1, e1, e2, e3, e4]
    ring
  · simp only [totFy, midpoint4₂, List.map_cons, List.map_nil, List.sum_cons, List.sum_nil,
      (part_closed sq hs ρ hρ _ ⟨0, 0⟩).1, (part_closed sq hs ρ hρ _ ⟨0, 0⟩).2.2.1, e1, e2, e3, e4]
    ring
  · intro p
    simp only [totMoment, midpoint4₂, List.map_cons, List.map_nil, List.sum_cons, List.sum_nil,
      (part_closed sq hs ρ hρ _ p).2.2.2, e1, e2, e3, e4, sumSqSides]
    ring

/-- **inserting a point of the triangle keeps the part moments**: for barycentric weights `α, β, 1−α−β ≥ 0` the three
sub-triangles have the signed areas `(1−α−β)·A`, `α·A`, `β·A` of the same sign -/
theorem insertPoint₂_partEq (hs : LawfulSqrt sq) (ρ : K) (hρ : 0 ≤ ρ) (α β : K) (hα : 0 ≤ α) (hβ : 0 ≤ β) (hγ : α + β ≤ 1) :
    PartEq sq ρ (insertPoint₂ α β) := by
  intro t
  rcases t with ⟨⟨ax, ay⟩, ⟨bx, by'⟩, ⟨cx, cy⟩⟩
  have hγ' : 0 ≤ 1 - α - β := by linarith
  have m1 := abs_mul (1 - α - β) (cross (⟨⟨ax, ay⟩, ⟨bx, by'⟩, ⟨cx, cy⟩⟩ : Triangle2 K))
  have m2 := abs_mul α (cross (⟨⟨ax, ay⟩, ⟨bx, by'⟩, ⟨cx, cy⟩⟩ : Triangle2 K))
  have m3 := abs_mul β (cross (⟨⟨ax, ay⟩, ⟨bx, by'⟩, ⟨cx, cy⟩⟩ : Triangle2 K))
  rw [abs_of_nonneg hγ'] at m1
  rw [abs_of_nonneg hα] at m2
  rw [abs_of_nonneg hβ] at m3
  have e1 : |cross (⟨⟨ax, ay⟩, ⟨bx, by'⟩, ⟨α * ax + β * bx + (1 - α - β) * cx, α * ay + β * by' + (1 - α - β) * cy⟩⟩ : Triangle2 K)|
      = (1 - α - β) * |cross (⟨⟨ax, ay⟩, ⟨bx, by'⟩, ⟨cx, cy⟩⟩ : Triangle2 K)| := by
    rw [← m1]; congr 1; simp only [cross]; ring
  have e2 : |cross (⟨⟨bx, by'⟩, ⟨cx, cy⟩, ⟨α * ax + β * bx + (1 - α - β) * cx, α * ay + β * by' + (1 - α - β) * cy⟩⟩ : Triangle2 K)|
      = α * |cross (⟨⟨ax, ay⟩, ⟨bx, by'⟩, ⟨cx, cy⟩⟩ : Triangle2 K)| := by
    rw [← m2]; congr 1; simp only [cross]; ring
  have e3 : |cross (⟨⟨cx, cy⟩, ⟨ax, ay⟩, ⟨α * ax + β * bx + (1 - α - β) * cx, α * ay + β * by' + (1 - α - β) * cy⟩⟩ : Triangle2 K)|
      = β * |cross (⟨⟨ax, ay⟩, ⟨bx, by'⟩, ⟨cx, cy⟩⟩ : Triangle2 K)| := by
    rw [← m3]; congr 1; simp only [cross]; ring
  refine ⟨?_, ?_, ?_, ?_⟩
  · simp only [totMass, insertPoint₂, List.map_cons, List.map_nil, List.sum_cons, List.sum_nil,
      (part_closed sq hs ρ hρ _ ⟨0, 0⟩).1, e1, e2, e3]
    ring
  · simp only [totFx, insertPoint₂, List.map_cons, List.map_nil, List.sum_cons, List.sum_nil,
      (part_closed sq hs ρ hρ _ ⟨0, 0⟩).1, (part_closed sq hs ρ hρ _ ⟨0, 0⟩).2.1, e1, e2, e3]
    ring
  · simp only [totFy, insertPoint₂, List.map_cons, List.map_nil, List.sum_cons, List.sum_nil,
      (part_closed sq hs ρ hρ _ ⟨0, 0⟩).1, (part_closed sq hs ρ hρ _ ⟨0, 0⟩).2.2.1, e1, e2, e3]
    ring
  · intro p
    simp only [totMoment, insertPoint₂, List.map_cons, List.map_nil, List.sum_cons, List.sum_nil,
      (part_closed sq hs ρ hρ _ p).2.2.2, e1, e2, e3, sumSqSides]
    ring

/-- **2-D `from_trimesh` does not change under refinement of the triangulation**: replacing every triangle by the pieces
a moment-preserving rule gives (midpoint subdivision, insertion of any point of the triangle — or any composition) leaves
mass, first moment and the polar moment about every point unchanged. -/
theorem from_trimesh2_refine (hs : LawfulSqrt sq) (ρ : K) (hρ : 0 ≤ ρ) (f : Triangle2 K → List (Triangle2 K))
    (hf : PartEq sq ρ f) (ts : List (Triangle2 K)) :
    letI := fieldNum K sq
    SameMoments (fromTrimeshTris ρ (ts.flatMap f)) (fromTrimeshTris ρ ts) := by
  have key : totMass ((ts.flatMap f).map (@fromTriangle K (fieldNum K sq) ρ)) = totMass (ts.map (@fromTriangle K (fieldNum K sq) ρ)) ∧
      totFx ((ts.flatMap f).map (@fromTriangle K (fieldNum K sq) ρ)) = totFx (ts.map (@fromTriangle K (fieldNum K sq) ρ)) ∧
      totFy ((ts.flatMap f).map (@fromTriangle K (fieldNum K sq) ρ)) = totFy (ts.map (@fromTriangle K (fieldNum K sq) ρ)) ∧
      ∀ p : V2 K, totMoment ((ts.flatMap f).map (@fromTriangle K (fieldNum K sq) ρ)) p
        = totMoment (ts.map (@fromTriangle K (fieldNum K sq) ρ)) p := by
    induction ts with
    | nil => exact ⟨rfl, rfl, rfl, fun _ => rfl⟩
    | cons t l ih =>
      obtain ⟨i1, i2, i3, i4⟩ := ih
      obtain ⟨f1, f2, f3, f4⟩ := hf t
      simp only [totMass, totFx, totFy, totMoment, List.flatMap_cons, List.map_append, List.sum_append, List.map_cons,
        List.sum_cons, List.map_nil, List.sum_nil, add_zero] at i1 i2 i3 i4 f1 f2 f3 f4 ⊢
      exact ⟨by rw [i1, f1], by rw [i2, f2], by rw [i3, f3], fun p => by rw [i4 p, f4 p]⟩
  obtain ⟨k1, k2, k3, k4⟩ := key
  obtain ⟨a1, a2, a3, a4⟩ := trimesh_moments sq hs ρ hρ (ts.flatMap f)
  obtain ⟨b1, b2, b3, b4⟩ := trimesh_moments sq hs ρ hρ ts
  exact ⟨by rw [a1, b1, k1], by rw [a2, b2, k2], by rw [a3, b3, k3], fun p => by rw [a4 p, b4 p, k4 p]⟩

/-- non-vacuity of `insertPoint₂_partEq`: the centroid weights, and a point on an edge (`β = 0`, `α = 1/2`: the degenerate
third triangle has area 0 and is harmless) -/
example : (0:ℚ) ≤ 1 / 3 ∧ (1 / 3 + 1 / 3 : ℚ) ≤ 1 ∧ (0:ℚ) ≤ 1 / 2 ∧ (0:ℚ) ≤ 0 ∧ (1 / 2 + 0 : ℚ) ≤ 1 := by norm_num

/-- the unit right triangle split at its centroid: three pieces of signed area `1/6` each -/
example : (insertPoint₂ (1 / 3 : ℚ) (1 / 3) ⟨⟨0, 0⟩, ⟨1, 0⟩, ⟨0, 1⟩⟩).map cross = [1 / 3, 1 / 3, 1 / 3] := by
  norm_num [insertPoint₂, cross]

/-! ### 3-D `transform_by` commutes with `Sum` / moving a Compound rigidly -/

theorem movedTensor_zero (M : M3 K) (t : V3 K) : movedTensor sq M t 0 ⟨0, 0, 0⟩ mzero = mzero := by
  rcases M with ⟨⟨m00, m01, m02⟩, ⟨m10, m11, m12⟩, ⟨m20, m21, m22⟩⟩
  simp only [movedTensor, madd, steiner3, M3.mul, mtr, mulVec3, mzero]
  congr 1 <;> congr 1 <;> ring

/-- the totals of a family whose members are all moved by the same unit isometry -/
theorem tot_transformBy (ps : List (MP3 K)) (m : Iso3 K) (hq : UnitQ (⟨m.qi, m.qj, m.qk, m.qw⟩ : Quat K)) :
    let M := @Quat.toMat K (fieldNum K sq) ⟨m.qi, m.qj, m.qk, m.qw⟩
    let ps' := ps.map fun p => @MP3.transformBy K (fieldNum K sq) p m
    totMass3 ps' = totMass3 ps ∧
    totF3 ps' = ⟨(mulVec3 M (totF3 ps)).x + totMass3 ps * m.t.x, (mulVec3 M (totF3 ps)).y + totMass3 ps * m.t.y,
      (mulVec3 M (totF3 ps)).z + totMass3 ps * m.t.z⟩ ∧
    totTensor3 sq ps' = movedTensor sq M m.t (totMass3 ps) (totF3 ps) (totTensor3 sq ps) := by
  intro M ps'
  induction ps with
  | nil =>
    refine ⟨rfl, ?_, ?_⟩
    · simp [ps', totF3, totMass3, mulVec3]
    · simp only [ps', totTensor3, totMass3, totF3, List.map_nil, List.sum_nil, msum, List.foldr_nil]
      exact (movedTensor_zero sq M m.t).symm
  | cons a l ih =>
    obtain ⟨i1, i2, i3⟩ := ih
    have ha := originTensor_transformBy sq a m hq
    have ma : massOf3 (@MP3.transformBy K (fieldNum K sq) a m) = massOf3 a := rfl
    have ca : (@MP3.transformBy K (fieldNum K sq) a m).com = @Iso3.act K (fieldNum K sq) m a.com := rfl
    have hrot : @Iso3.rot K (fieldNum K sq) m a.com = mulVec3 M a.com := rot_eq_mulVec sq m hq a.com
    have i2x : (totF3 (l.map fun p => @MP3.transformBy K (fieldNum K sq) p m)).x
        = (mulVec3 M (totF3 l)).x + totMass3 l * m.t.x := by rw [i2]
    have i2y : (totF3 (l.map fun p => @MP3.transformBy K (fieldNum K sq) p m)).y
        = (mulVec3 M (totF3 l)).y + totMass3 l * m.t.y := by rw [i2]
    have i2z : (totF3 (l.map fun p => @MP3.transformBy K (fieldNum K sq) p m)).z
        = (mulVec3 M (totF3 l)).z + totMass3 l * m.t.z := by rw [i2]
    refine ⟨?_, ?_, ?_⟩
    · simp only [ps', totMass3, List.map_cons, List.sum_cons, ma] at i1 ⊢
      rw [i1]
    · simp only [totF3, mulVec3, totMass3] at i2x i2y i2z
      simp only [ps', totF3, totMass3, List.map_cons, List.sum_cons, ma, ca, Iso3.act, hrot, V3.add, mulVec3]
      congr 1
      · linear_combination i2x
      · linear_combination i2y
      · linear_combination i2z
    · simp only [ps', totTensor3, List.map_cons, msum, List.foldr_cons] at i3 ⊢
      rw [i3, ha]
      simp only [totMass3, totF3, List.map_cons, List.sum_cons]
      exact (movedTensor_add sq M m.t (massOf3 a) _ ⟨a.com.x * massOf3 a, a.com.y * massOf3 a, a.com.z * massOf3 a⟩ _
        (originTensor sq a) _).symm

/-- **`transform_by` commutes with `Sum` in 3-D — a rigidly moved Compound**: for a unit rotation quaternion,
`ps.sum().transform_by(m)` and `ps.map(|p| p.transform_by(m)).sum()` have the same mass, first moment and second-moment
tensor about the origin (through both eigen-decompositions); with `compound3_moments`: moving every part of a Compound by
`m` moves its mass properties by `m`. -/
theorem transformBy3_sum (hs : LawfulSqrt sq) (eig : M3 K → V3 K × M3 K) (ps : List (MP3 K)) (h : ∀ a ∈ ps, 0 ≤ a.invMass)
    (m : Iso3 K) (hq : UnitQ (⟨m.qi, m.qj, m.qk, m.qw⟩ : Quat K))
    (hE : let I := (@MP3.sumRaw K (fieldNum K sq) ps).2.2
      EigenDecomp sq I (eig I).1 (eig I).2 ∧ 0 ≤ (eig I).1.x ∧ 0 ≤ (eig I).1.y ∧ 0 ≤ (eig I).1.z)
    (hE' : let I := (@MP3.sumRaw K (fieldNum K sq) (ps.map fun p => @MP3.transformBy K (fieldNum K sq) p m)).2.2
      EigenDecomp sq I (eig I).1 (eig I).2 ∧ 0 ≤ (eig I).1.x ∧ 0 ≤ (eig I).1.y ∧ 0 ≤ (eig I).1.z) :
    letI := fieldNum K sq
    let l := (MP3.sum eig ps).transformBy m
    let r := MP3.sum eig (ps.map fun p => p.transformBy m)
    massOf3 l = massOf3 r ∧
    l.com.x * massOf3 l = r.com.x * massOf3 r ∧ l.com.y * massOf3 l = r.com.y * massOf3 r ∧
    l.com.z * massOf3 l = r.com.z * massOf3 r ∧ originTensor sq l = originTensor sq r := by
  intro l r
  obtain ⟨s1, s2, s3, s4, s5⟩ := sum3_full_moments sq hs eig ps h hE
  have h' : ∀ a ∈ ps.map (fun p => @MP3.transformBy K (fieldNum K sq) p m), 0 ≤ a.invMass := by
    intro a ha
    simp only [List.mem_map] at ha
    obtain ⟨p, hp, rfl⟩ := ha
    exact h p hp
  obtain ⟨g1, g2, g3, g4, g5⟩ := sum3_full_moments sq hs eig _ h' hE'
  obtain ⟨t1, t2, t3⟩ := tot_transformBy sq ps m hq
  have t2x := congrArg V3.x t2
  have t2y := congrArg V3.y t2
  have t2z := congrArg V3.z t2
  simp only at t2x t2y t2z
  have hl := originTensor_transformBy sq (@MP3.sum K (fieldNum K sq) eig ps) m hq
  have ml : massOf3 l = massOf3 (@MP3.sum K (fieldNum K sq) eig ps) := rfl
  have cl : l.com = @Iso3.act K (fieldNum K sq) m (@MP3.sum K (fieldNum K sq) eig ps).com := rfl
  have hrot := rot_eq_mulVec sq m hq (@MP3.sum K (fieldNum K sq) eig ps).com
  refine ⟨by rw [ml, s1, g1, t1], ?_, ?_, ?_, ?_⟩
  · rw [g2, t2x, ml, cl]
    simp only [Iso3.act, hrot, mulVec3, V3.add]
    linear_combination (@Quat.toMat K (fieldNum K sq) ⟨m.qi, m.qj, m.qk, m.qw⟩).r0.x * s2
      + (@Quat.toMat K (fieldNum K sq) ⟨m.qi, m.qj, m.qk, m.qw⟩).r0.y * s3
      + (@Quat.toMat K (fieldNum K sq) ⟨m.qi, m.qj, m.qk, m.qw⟩).r0.z * s4 + m.t.x * s1
  · rw [g3, t2y, ml, cl]
    simp only [Iso3.act, hrot, mulVec3, V3.add]
    linear_combination (@Quat.toMat K (fieldNum K sq) ⟨m.qi, m.qj, m.qk, m.qw⟩).r1.x * s2
      + (@Quat.toMat K (fieldNum K sq) ⟨m.qi, m.qj, m.qk, m.qw⟩).r1.y * s3
      + (@Quat.toMat K (fieldNum K sq) ⟨m.qi, m.qj, m.qk, m.qw⟩).r1.z * s4 + m.t.y * s1
  · rw [g4, t2z, ml, cl]
    simp only [Iso3.act, hrot, mulVec3, V3.add]
    linear_combination (@Quat.toMat K (fieldNum K sq) ⟨m.qi, m.qj, m.qk, m.qw⟩).r2.x * s2
      + (@Quat.toMat K (fieldNum K sq) ⟨m.qi, m.qj, m.qk, m.qw⟩).r2.y * s3
      + (@Quat.toMat K (fieldNum K sq) ⟨m.qi, m.qj, m.qk, m.qw⟩).r2.z * s4 + m.t.z * s1
  · have e : originTensor sq r = totTensor3 sq (ps.map fun p => @MP3.transformBy K (fieldNum K sq) p m) := g5
    have e0 : originTensor sq (@MP3.sum K (fieldNum K sq) eig ps) = totTensor3 sq ps := s5
    rw [e, t3, hl, e0, s2, s3, s4, s1]
    try rfl

/-! ### world-space accessors -/

/-- **`world_com` / `world_inv_inertia_sqrt`**: `world_com(pos)` is the centre of mass of `transform_by(pos)` (2-D and 3-D;
so `transformBy_covariant` / `transformBy3_covariant` apply), and the 2-D `world_inv_inertia_sqrt(rot)` is the stored
rotation-invariant scalar, the one `transform_by` keeps. -/
theorem world_accessors_spec (p : MP2 K) (m : Iso2 K) (p3 : MP3 K) (m3 : Iso3 K) :
    letI := fieldNum K sq
    p.worldCom m = (p.transformBy m).com ∧ p.worldInvInertiaSqrt m = (p.transformBy m).invI ∧
    p3.worldCom m3 = (p3.transformBy m3).com := by
  exact ⟨rfl, rfl, rfl⟩

/-! ### composing refinement rules; the refined rectangle is the cuboid -/

/-- list form of `PartEq`: refining every triangle of a list by a moment-preserving rule keeps the four totals -/
theorem partEq_flatMap (ρ : K) (f : Triangle2 K → List (Triangle2 K)) (hf : PartEq sq ρ f) (ts : List (Triangle2 K)) :
    totMass ((ts.flatMap f).map (@fromTriangle K (fieldNum K sq) ρ)) = totMass (ts.map (@fromTriangle K (fieldNum K sq) ρ)) ∧
    totFx ((ts.flatMap f).map (@fromTriangle K (fieldNum K sq) ρ)) = totFx (ts.map (@fromTriangle K (fieldNum K sq) ρ)) ∧
    totFy ((ts.flatMap f).map (@fromTriangle K (fieldNum K sq) ρ)) = totFy (ts.map (@fromTriangle K (fieldNum K sq) ρ)) ∧
    ∀ p : V2 K, totMoment ((ts.flatMap f).map (@fromTriangle K (fieldNum K sq) ρ)) p
      = totMoment (ts.map (@fromTriangle K (fieldNum K sq) ρ)) p := by
  induction ts with
  | nil => exact ⟨rfl, rfl, rfl, fun _ => rfl⟩
  | cons t l ih =>
    obtain ⟨i1, i2, i3, i4⟩ := ih
    obtain ⟨f1, f2, f3, f4⟩ := hf t
    simp only [totMass, totFx, totFy, totMoment, List.flatMap_cons, List.map_append, List.sum_append, List.map_cons,
      List.sum_cons, List.map_nil, List.sum_nil, add_zero] at i1 i2 i3 i4 f1 f2 f3 f4 ⊢
    exact ⟨by rw [i1, f1], by rw [i2, f2], by rw [i3, f3], fun p => by rw [i4 p, f4 p]⟩

/-- moment-preserving rules compose: refine by `f`, then every piece by `g` (so any number of levels, any mixture of
midpoint subdivision and point insertion, is again moment preserving) -/
theorem partEq_comp (ρ : K) (f g : Triangle2 K → List (Triangle2 K)) (hf : PartEq sq ρ f) (hg : PartEq sq ρ g) :
    PartEq sq ρ (fun t => (f t).flatMap g) := by
  intro t
  obtain ⟨k1, k2, k3, k4⟩ := partEq_flatMap sq ρ g hg (f t)
  obtain ⟨f1, f2, f3, f4⟩ := hf t
  exact ⟨k1.trans f1, k2.trans f2, k3.trans f3, fun p => (k4 p).trans (f4 p)⟩

/-- **rectangle vs. every refinement of its triangulation**: the two-triangle rectangle `[0,w]×[0,h]` refined by any
moment-preserving rule (e.g. `n` levels of midpoint subdivision, then a point inserted in every piece) has mass `ρwh`,
centre `(w/2, h/2)` and inertia `ρwh(w²+h²)/12` — exactly `from_cuboid(ρ, (w/2, h/2))`. -/
theorem trimesh_rectangle_refined (hs : LawfulSqrt sq) (ρ w h : K) (hρ : 0 < ρ) (hw : 0 < w) (hh : 0 < h)
    (f : Triangle2 K → List (Triangle2 K)) (hf : PartEq sq ρ f) :
    letI := fieldNum K sq
    let ts : List (Triangle2 K) := [⟨⟨0, 0⟩, ⟨w, 0⟩, ⟨w, h⟩⟩, ⟨⟨0, 0⟩, ⟨w, h⟩, ⟨0, h⟩⟩]
    massOf (fromTrimeshTris ρ (ts.flatMap f)) = ρ * (w * h) ∧
    (fromTrimeshTris ρ (ts.flatMap f)).com = ⟨w / 2, h / 2⟩ ∧
    inertiaOf (fromTrimeshTris ρ (ts.flatMap f)) = ρ * (w * h) * ((w ^ 2 + h ^ 2) / 12) ∧
    inertiaOf (fromTrimeshTris ρ (ts.flatMap f)) = inertiaOf (fromCuboid2 ρ ⟨w / 2, h / 2⟩) := by
  intro ts
  obtain ⟨r1, r2, r3, -, r5⟩ := trimesh_rectangle sq hs ρ w h hρ hw hh
  have hS := from_trimesh2_refine sq hs ρ hρ.le f hf ts
  have hm : massOf (@fromTrimeshTris K (fieldNum K sq) ρ (ts.flatMap f)) ≠ 0 := by
    rw [hS.1]
    have : massOf (@fromTrimeshTris K (fieldNum K sq) ρ ts) = ρ * (w * h) := r1
    rw [this]; positivity
  obtain ⟨o1, o2, o3⟩ := sameMoments_obs _ _ hS hm
  exact ⟨o1.trans r1, o2.trans r2, o3.trans r3, o3.trans r5⟩

/-- non-vacuity: two levels of midpoint subdivision followed by centroid insertion is a moment-preserving rule -/
example (hs : LawfulSqrt (fun x : ℝ => Real.sqrt x)) (ρ : ℝ) (hρ : 0 ≤ ρ) :
    PartEq (fun x : ℝ => Real.sqrt x) ρ
      (fun t => ((midpoint4₂ t).flatMap midpoint4₂).flatMap (insertPoint₂ (1 / 3) (1 / 3))) :=
  partEq_comp _ ρ _ _ (partEq_comp _ ρ _ _ (midpoint4₂_partEq _ hs ρ hρ) (midpoint4₂_partEq _ hs ρ hρ))
    (insertPoint₂_partEq _ hs ρ hρ _ _ (by norm_num) (by norm_num) (by norm_num))

/-- **tetrahedron vs. every level of refinement of its boundary**: the `4·4ⁿ`-triangle boundary of a non-degenerate
tetrahedron (and then one more point in the plane of every triangle), wound either way, returns the centroid, the mass
`ρ|vol|` and the tensor `ρ|vol|·J(centroid)` of the solid tetrahedron, for every vertex average. -/
theorem from_trimesh3_tetra_refined (ρ : K) (gc p0 p1 p2 p3 : V3 K) (hV : vol4 p0 p1 p2 p3 ≠ 0) (n : Nat)
    (pt : Triangle3 K → V3 K) (hpt : ∀ t, vol4 (pt t) t.a t.b t.c = 0) :
    letI := fieldNum K sq
    let g : V3 K := ⟨(p0.x + p1.x + p2.x + p3.x) / 4, (p0.y + p1.y + p2.y + p3.y) / 4, (p0.z + p1.z + p2.z + p3.z) / 4⟩
    let want := some (g, ρ * |vol4 p0 p1 p2 p3|, mscale (unitInertia4 g p0 p1 p2 p3) (ρ * |vol4 p0 p1 p2 p3|))
    fromTrimesh3Raw ρ gc ((refineN n (tetraTris p0 p1 p2 p3)).flatMap fun t => insertPoint t (pt t)) = want ∧
    fromTrimesh3Raw ρ gc ((refineN n (flipTris (tetraTris p0 p1 p2 p3))).flatMap fun t => insertPoint t (pt t)) = want := by
  intro g want
  obtain ⟨b1, b2⟩ := from_trimesh3_tetra sq ρ gc p0 p1 p2 p3 hV
  have hct := (tetra_box_closed p0 p1 p2 p3 p0).1
  exact ⟨(from_trimesh3_subdivided sq ρ gc gc _ hct n pt hpt).trans b1,
    (from_trimesh3_subdivided sq ρ gc gc _ (closed3_flip_append _ _ hct hct).1 n pt hpt).trans b2⟩

/-! ### 2-D `from_trimesh` is covariant under isometries -/

/-- a triangle moved by an isometry -/
def moveTri (m : Iso2 K) (t : Triangle2 K) : Triangle2 K :=
  ⟨@Iso2.act K (fieldNum K sq) m t.a, @Iso2.act K (fieldNum K sq) m t.b, @Iso2.act K (fieldNum K sq) m t.c⟩

/-- the triangle parts of a rigidly moved triangle list: same total mass, first moment moved, second moment about the
transported point unchanged -/
theorem parts_moved (hs : LawfulSqrt sq) (ρ : K) (hρ : 0 ≤ ρ) (m : Iso2 K) (hu : m.re * m.re + m.im * m.im = 1)
    (ts : List (Triangle2 K)) :
    let F := @fromTriangle K (fieldNum K sq) ρ
    totMass ((ts.map (moveTri sq m)).map F) = totMass (ts.map F) ∧
    totFx ((ts.map (moveTri sq m)).map F) = m.re * totFx (ts.map F) - m.im * totFy (ts.map F) + m.t.x * totMass (ts.map F) ∧
    totFy ((ts.map (moveTri sq m)).map F) = m.im * totFx (ts.map F) + m.re * totFy (ts.map F) + m.t.y * totMass (ts.map F) ∧
    ∀ p : V2 K, totMoment ((ts.map (moveTri sq m)).map F) (@Iso2.act K (fieldNum K sq) m p) = totMoment (ts.map F) p := by
  intro F
  induction ts with
  | nil => exact ⟨rfl, by simp [totFx, totFy, totMass], by simp [totFx, totFy, totMass], fun _ => rfl⟩
  | cons t l ih =>
    obtain ⟨i1, i2, i3, i4⟩ := ih
    rcases t with ⟨⟨ax, ay⟩, ⟨bx, by'⟩, ⟨cx, cy⟩⟩
    have hc : cross (moveTri sq m (⟨⟨ax, ay⟩, ⟨bx, by'⟩, ⟨cx, cy⟩⟩ : Triangle2 K)) = cross (⟨⟨ax, ay⟩, ⟨bx, by'⟩, ⟨cx, cy⟩⟩ : Triangle2 K) := by
      simp only [moveTri, cross, Iso2.act, Iso2.rot, V2.add]
      linear_combination ((bx - ax) * (cy - ay) - (by' - ay) * (cx - ax)) * hu
    have hS : sumSqSides (moveTri sq m (⟨⟨ax, ay⟩, ⟨bx, by'⟩, ⟨cx, cy⟩⟩ : Triangle2 K)) = sumSqSides (⟨⟨ax, ay⟩, ⟨bx, by'⟩, ⟨cx, cy⟩⟩ : Triangle2 K) := by
      simp only [moveTri, sumSqSides, Iso2.act, Iso2.rot, V2.add]
      linear_combination (((bx - ax) ^ 2 + (by' - ay) ^ 2) + ((cx - bx) ^ 2 + (cy - by') ^ 2) + ((ax - cx) ^ 2 + (ay - cy) ^ 2)) * hu
    refine ⟨?_, ?_, ?_, ?_⟩
    · simp only [totMass, List.map_cons, List.sum_cons, F] at i1 ⊢
      rw [i1, (part_closed sq hs ρ hρ _ ⟨0, 0⟩).1, (part_closed sq hs ρ hρ _ ⟨0, 0⟩).1, hc]
    · simp only [totFx, totFy, totMass, List.map_cons, List.sum_cons, F] at i2 ⊢
      rw [i2, (part_closed sq hs ρ hρ _ ⟨0, 0⟩).1, (part_closed sq hs ρ hρ _ ⟨0, 0⟩).1, (part_closed sq hs ρ hρ _ ⟨0, 0⟩).2.1,
        (part_closed sq hs ρ hρ _ ⟨0, 0⟩).2.1, (part_closed sq hs ρ hρ _ ⟨0, 0⟩).2.2.1, hc]
      simp only [moveTri, Iso2.act, Iso2.rot, V2.add]
      ring
    · simp only [totFx, totFy, totMass, List.map_cons, List.sum_cons, F] at i3 ⊢
      rw [i3, (part_closed sq hs ρ hρ _ ⟨0, 0⟩).1, (part_closed sq hs ρ hρ _ ⟨0, 0⟩).1, (part_closed sq hs ρ hρ _ ⟨0, 0⟩).2.1,
        (part_closed sq hs ρ hρ _ ⟨0, 0⟩).2.2.1, (part_closed sq hs ρ hρ _ ⟨0, 0⟩).2.2.1, hc]
      simp only [moveTri, Iso2.act, Iso2.rot, V2.add]
      ring
    · intro p
      have i4p := i4 p
      simp only [totMoment, List.map_cons, List.sum_cons, F] at i4p ⊢
      rw [i4p, (part_closed sq hs ρ hρ _ _).2.2.2, (part_closed sq hs ρ hρ _ _).2.2.2, hc, hS]
      simp only [moveTri, Iso2.act, Iso2.rot, V2.add]
      rcases p with ⟨px, py⟩
      simp only
      linear_combination (|cross (⟨⟨ax, ay⟩, ⟨bx, by'⟩, ⟨cx, cy⟩⟩ : Triangle2 K)| / 2 * ρ *
        ((px - (ax + bx + cx) / 3) ^ 2 + (py - (ay + by' + cy) / 3) ^ 2)) * hu

/-- **2-D `from_trimesh` is covariant under isometries**: the mass properties of the rigidly moved triangle list are
those of the original list transformed by `transform_by` (same mass, first moment and polar moment about every point). -/
theorem from_trimesh2_moved (hs : LawfulSqrt sq) (ρ : K) (hρ : 0 ≤ ρ) (m : Iso2 K) (hu : m.re * m.re + m.im * m.im = 1)
    (ts : List (Triangle2 K)) :
    letI := fieldNum K sq
    SameMoments (fromTrimeshTris ρ (ts.map (moveTri sq m))) ((fromTrimeshTris ρ ts).transformBy m) := by
  obtain ⟨a1, a2, a3, a4⟩ := trimesh_moments sq hs ρ hρ (ts.map (moveTri sq m))
  obtain ⟨b1, b2, b3, b4⟩ := trimesh_moments sq hs ρ hρ ts
  obtain ⟨k1, k2, k3, k4⟩ := parts_moved sq hs ρ hρ m hu ts
  obtain ⟨c1, -, c3, c4⟩ := transformBy_covariant sq (@fromTrimeshTris K (fieldNum K sq) ρ ts) m hu
  refine ⟨by rw [a1, c1, b1, k1], ?_, ?_, ?_⟩
  · rw [a2, c1, c3, k2, ← b2, ← b3, ← b1]
    simp only [Iso2.act, Iso2.rot, V2.add]
    ring
  · rw [a3, c1, c3, k3, ← b2, ← b3, ← b1]
    simp only [Iso2.act, Iso2.rot, V2.add]
    ring
  · intro q
    rw [← act_invAct sq m hu q, a4, c4, k4, b4]
/-- a non-identity unit rotation with a translation for `from_trimesh2_moved` (3-4-5) -/
example : ((3:ℚ) / 5) * (3 / 5) + (4 / 5) * (4 / 5) = 1 := by norm_num

/-! ### 3-D `from_trimesh` under rigid motions (closed surfaces) -/

/-- the rigid motion `x ↦ M x + t` with `M` the rotation matrix of the quaternion `q` (spec side) -/
def aff3 (q : Quat K) (t v : V3 K) : V3 K :=
  ⟨(mulVec3 (@Quat.toMat K (fieldNum K sq) q) v).x + t.x, (mulVec3 (@Quat.toMat K (fieldNum K sq) q) v).y + t.y,
   (mulVec3 (@Quat.toMat K (fieldNum K sq) q) v).z + t.z⟩
/-- a triangle moved by the rigid motion -/
def moveTri3 (q : Quat K) (t : V3 K) (s : Triangle3 K) : Triangle3 K := ⟨aff3 sq q t s.a, aff3 sq q t s.b, aff3 sq q t s.c⟩

/-- signed volumes are invariant under rigid motions (`det M = |q|⁶ = 1`) -/
theorem vol4_aff3 (q : Quat K) (hq : UnitQ q) (t o a b c : V3 K) :
    vol4 (aff3 sq q t o) (aff3 sq q t a) (aff3 sq q t b) (aff3 sq q t c) = vol4 o a b c := by
  rcases q with ⟨i, j, k, w⟩
  simp only [UnitQ] at hq
  simp only [vol4, aff3, mulVec3, Quat.toMat, fieldNum_two]
  linear_combination (((i * i + j * j + k * k + w * w) * (i * i + j * j + k * k + w * w) + (i * i + j * j + k * k + w * w) + 1)
    * (((a.x - o.x) * ((b.y - o.y) * (c.z - o.z) - (b.z - o.z) * (c.y - o.y))
   - (b.x - o.x) * ((a.y - o.y) * (c.z - o.z) - (a.z - o.z) * (c.y - o.y))
   + (c.x - o.x) * ((a.y - o.y) * (b.z - o.z) - (a.z - o.z) * (b.y - o.y))) / 6)) * hq

/-- cone volume and first moment of a rigidly moved triangle list, apex moved along: `V' = V`, `F' = M F + V t` -/
theorem cone_moved (q : Quat K) (hq : UnitQ q) (t o : V3 K) (ts : List (Triangle3 K)) :
    coneVol (aff3 sq q t o) (ts.map (moveTri3 sq q t)) = coneVol o ts ∧
    coneFirst (aff3 sq q t o) (ts.map (moveTri3 sq q t))
      = ⟨(mulVec3 (@Quat.toMat K (fieldNum K sq) q) (coneFirst o ts)).x + coneVol o ts * t.x,
         (mulVec3 (@Quat.toMat K (fieldNum K sq) q) (coneFirst o ts)).y + coneVol o ts * t.y,
         (mulVec3 (@Quat.toMat K (fieldNum K sq) q) (coneFirst o ts)).z + coneVol o ts * t.z⟩ := by
  induction ts with
  | nil => exact ⟨rfl, by simp [coneFirst, coneVol, vsum3, mulVec3]⟩
  | cons s l ih =>
    obtain ⟨i1, i2⟩ := ih
    have hv := vol4_aff3 sq q hq t o s.a s.b s.c
    refine ⟨?_, ?_⟩
    · simp only [List.map_cons, coneVol_cons, moveTri3, i1, hv]
    · simp only [List.map_cons, coneFirst_cons, coneVol_cons, moveTri3, i2, hv]
      generalize vol4 o s.a s.b s.c = v
      generalize coneFirst o l = F
      generalize coneVol o l = V
      simp only [vadd3, aff3, mulVec3]
      congr 1 <;> ring

/-- closedness is preserved by moving every vertex with the same map -/
theorem closed3_moved (q : Quat K) (t : V3 K) (ts : List (Triangle3 K)) (hc : Closed3 ts) :
    Closed3 (ts.map (moveTri3 sq q t)) := by
  intro E hE
  let E' : V3 K → V3 K → K := fun p r => E (aff3 sq q t p) (aff3 sq q t r)
  have h : (ts.map fun s => E' s.a s.b + E' s.b s.c + E' s.c s.a).sum = 0 :=
    (sum_edges3 E' ts).symm.trans (hc E' (fun p r => hE _ _))
  rw [sum_edges3, List.map_map]
  exact h

/-- a unit quaternion with a non-trivial rotation for `from_trimesh3_moved` -/
example : UnitQ (⟨2 / 3, 1 / 3, 2 / 3, 0⟩ : Quat ℚ) := by norm_num [UnitQ]

/-! ### 3-D `from_trimesh` under rigid motions: the tensor -/

/-- conjugation `M A Mᵀ` by the rotation matrix of `q` -/
def conj3 (q : Quat K) (A : M3 K) : M3 K :=
  @M3.mul K (fieldNum K sq) (@M3.mul K (fieldNum K sq) (@Quat.toMat K (fieldNum K sq) q) A) (mtr (@Quat.toMat K (fieldNum K sq) q))

/-- the unit inertia tensor of a rigidly moved tetrahedron about the moved point is the conjugate `M U Mᵀ` -/
theorem unitInertia4_aff3 (q : Quat K) (hq : UnitQ q) (t r p1 p2 p3 p4 : V3 K) :
    unitInertia4 (aff3 sq q t r) (aff3 sq q t p1) (aff3 sq q t p2) (aff3 sq q t p3) (aff3 sq q t p4)
      = conj3 sq q (unitInertia4 r p1 p2 p3 p4) := by
  have h1 := toMat_mul_transpose sq q hq
  have h2 := toMat_transpose_mul sq q hq
  simp only [unitInertia4, cov4, aff3, conj3, mulVec3]
  generalize @Quat.toMat K (fieldNum K sq) q = M at h1 h2 ⊢
  rcases M with ⟨⟨m00, m01, m02⟩, ⟨m10, m11, m12⟩, ⟨m20, m21, m22⟩⟩
  simp only [M3.mul, mtr, mone, M3.mk.injEq, V3.mk.injEq] at h1 h2
  obtain ⟨⟨h00, h01, h02⟩, ⟨h10, h11, h12⟩, ⟨h20, h21, h22⟩⟩ := h1
  obtain ⟨⟨g00, g01, g02⟩, ⟨g10, g11, g12⟩, ⟨g20, g21, g22⟩⟩ := h2
  simp only [M3.mul, mtr]
  congr 1 <;> congr 1
  · linear_combination (((p1.x - r.x)*(p1.x - r.x) + (p2.x - r.x)*(p2.x - r.x) + (p3.x - r.x)*(p3.x - r.x) + (p4.x - r.x)*(p4.x - r.x) + ((p1.x - r.x)+(p2.x - r.x)+(p3.x - r.x)+(p4.x - r.x))*((p1.x - r.x)+(p2.x - r.x)+(p3.x - r.x)+(p4.x - r.x)))/20) * g00 + (((p1.y - r.y)*(p1.y - r.y) + (p2.y - r.y)*(p2.y - r.y) + (p3.y - r.y)*(p3.y - r.y) + (p4.y - r.y)*(p4.y - r.y) + ((p1.y - r.y)+(p2.y - r.y)+(p3.y - r.y)+(p4.y - r.y))*((p1.y - r.y)+(p2.y - r.y)+(p3.y - r.y)+(p4.y - r.y)))/20) * g11 + (((p1.z - r.z)*(p1.z - r.z) + (p2.z - r.z)*(p2.z - r.z) + (p3.z - r.z)*(p3.z - r.z) + (p4.z - r.z)*(p4.z - r.z) + ((p1.z - r.z)+(p2.z - r.z)+(p3.z - r.z)+(p4.z - r.z))*((p1.z - r.z)+(p2.z - r.z)+(p3.z - r.z)+(p4.z - r.z)))/20) * g22 + 2 * (((p1.x - r.x)*(p1.y - r.y) + (p2.x - r.x)*(p2.y - r.y) + (p3.x - r.x)*(p3.y - r.y) + (p4.x - r.x)*(p4.y - r.y) + ((p1.x - r.x)+(p2.x - r.x)+(p3.x - r.x)+(p4.x - r.x))*((p1.y - r.y)+(p2.y - r.y)+(p3.y - r.y)+(p4.y - r.y)))/20) * g01 + 2 * (((p1.x - r.x)*(p1.z - r.z) + (p2.x - r.x)*(p2.z - r.z) + (p3.x - r.x)*(p3.z - r.z) + (p4.x - r.x)*(p4.z - r.z) + ((p1.x - r.x)+(p2.x - r.x)+(p3.x - r.x)+(p4.x - r.x))*((p1.z - r.z)+(p2.z - r.z)+(p3.z - r.z)+(p4.z - r.z)))/20) * g02 + 2 * (((p1.y - r.y)*(p1.z - r.z) + (p2.y - r.y)*(p2.z - r.z) + (p3.y - r.y)*(p3.z - r.z) + (p4.y - r.y)*(p4.z - r.z) + ((p1.y - r.y)+(p2.y - r.y)+(p3.y - r.y)+(p4.y - r.y))*((p1.z - r.z)+(p2.z - r.z)+(p3.z - r.z)+(p4.z - r.z)))/20) * g12 - ((((p1.x - r.x)*(p1.x - r.x) + (p2.x - r.x)*(p2.x - r.x) + (p3.x - r.x)*(p3.x - r.x) + (p4.x - r.x)*(p4.x - r.x) + ((p1.x - r.x)+(p2.x - r.x)+(p3.x - r.x)+(p4.x - r.x))*((p1.x - r.x)+(p2.x - r.x)+(p3.x - r.x)+(p4.x - r.x)))/20) + (((p1.y - r.y)*(p1.y - r.y) + (p2.y - r.y)*(p2.y - r.y) + (p3.y - r.y)*(p3.y - r.y) + (p4.y - r.y)*(p4.y - r.y) + ((p1.y - r.y)+(p2.y - r.y)+(p3.y - r.y)+(p4.y - r.y))*((p1.y - r.y)+(p2.y - r.y)+(p3.y - r.y)+(p4.y - r.y)))/20) + (((p1.z - r.z)*(p1.z - r.z) + (p2.z - r.z)*(p2.z - r.z) + (p3.z - r.z)*(p3.z - r.z) + (p4.z - r.z)*(p4.z - r.z) + ((p1.z - r.z)+(p2.z - r.z)+(p3.z - r.z)+(p4.z - r.z))*((p1.z - r.z)+(p2.z - r.z)+(p3.z - r.z)+(p4.z - r.z)))/20)) * h00
  · linear_combination (-((((p1.x - r.x)*(p1.x - r.x) + (p2.x - r.x)*(p2.x - r.x) + (p3.x - r.x)*(p3.x - r.x) + (p4.x - r.x)*(p4.x - r.x) + ((p1.x - r.x)+(p2.x - r.x)+(p3.x - r.x)+(p4.x - r.x))*((p1.x - r.x)+(p2.x - r.x)+(p3.x - r.x)+(p4.x - r.x)))/20) + (((p1.y - r.y)*(p1.y - r.y) + (p2.y - r.y)*(p2.y - r.y) + (p3.y - r.y)*(p3.y - r.y) + (p4.y - r.y)*(p4.y - r.y) + ((p1.y - r.y)+(p2.y - r.y)+(p3.y - r.y)+(p4.y - r.y))*((p1.y - r.y)+(p2.y - r.y)+(p3.y - r.y)+(p4.y - r.y)))/20) + (((p1.z - r.z)*(p1.z - r.z) + (p2.z - r.z)*(p2.z - r.z) + (p3.z - r.z)*(p3.z - r.z) + (p4.z - r.z)*(p4.z - r.z) + ((p1.z - r.z)+(p2.z - r.z)+(p3.z - r.z)+(p4.z - r.z))*((p1.z - r.z)+(p2.z - r.z)+(p3.z - r.z)+(p4.z - r.z)))/20))) * h01
  · linear_combination (-((((p1.x - r.x)*(p1.x - r.x) + (p2.x - r.x)*(p2.x - r.x) + (p3.x - r.x)*(p3.x - r.x) + (p4.x - r.x)*(p4.x - r.x) + ((p1.x - r.x)+(p2.x - r.x)+(p3.x - r.x)+(p4.x - r.x))*((p1.x - r.x)+(p2.x - r.x)+(p3.x - r.x)+(p4.x - r.x)))/20) + (((p1.y - r.y)*(p1.y - r.y) + (p2.y - r.y)*(p2.y - r.y) + (p3.y - r.y)*(p3.y - r.y) + (p4.y - r.y)*(p4.y - r.y) + ((p1.y - r.y)+(p2.y - r.y)+(p3.y - r.y)+(p4.y - r.y))*((p1.y - r.y)+(p2.y - r.y)+(p3.y - r.y)+(p4.y - r.y)))/20) + (((p1.z - r.z)*(p1.z - r.z) + (p2.z - r.z)*(p2.z - r.z) + (p3.z - r.z)*(p3.z - r.z) + (p4.z - r.z)*(p4.z - r.z) + ((p1.z - r.z)+(p2.z - r.z)+(p3.z - r.z)+(p4.z - r.z))*((p1.z - r.z)+(p2.z - r.z)+(p3.z - r.z)+(p4.z - r.z)))/20))) * h02
  · linear_combination (-((((p1.x - r.x)*(p1.x - r.x) + (p2.x - r.x)*(p2.x - r.x) + (p3.x - r.x)*(p3.x - r.x) + (p4.x - r.x)*(p4.x - r.x) + ((p1.x - r.x)+(p2.x - r.x)+(p3.x - r.x)+(p4.x - r.x))*((p1.x - r.x)+(p2.x - r.x)+(p3.x - r.x)+(p4.x - r.x)))/20) + (((p1.y - r.y)*(p1.y - r.y) + (p2.y - r.y)*(p2.y - r.y) + (p3.y - r.y)*(p3.y - r.y) + (p4.y - r.y)*(p4.y - r.y) + ((p1.y - r.y)+(p2.y - r.y)+(p3.y - r.y)+(p4.y - r.y))*((p1.y - r.y)+(p2.y - r.y)+(p3.y - r.y)+(p4.y - r.y)))/20) + (((p1.z - r.z)*(p1.z - r.z) + (p2.z - r.z)*(p2.z - r.z) + (p3.z - r.z)*(p3.z - r.z) + (p4.z - r.z)*(p4.z - r.z) + ((p1.z - r.z)+(p2.z - r.z)+(p3.z - r.z)+(p4.z - r.z))*((p1.z - r.z)+(p2.z - r.z)+(p3.z - r.z)+(p4.z - r.z)))/20))) * h10
  · linear_combination (((p1.x - r.x)*(p1.x - r.x) + (p2.x - r.x)*(p2.x - r.x) + (p3.x - r.x)*(p3.x - r.x) + (p4.x - r.x)*(p4.x - r.x) + ((p1.x - r.x)+(p2.x - r.x)+(p3.x - r.x)+(p4.x - r.x))*((p1.x - r.x)+(p2.x - r.x)+(p3.x - r.x)+(p4.x - r.x)))/20) * g00 + (((p1.y - r.y)*(p1.y - r.y) + (p2.y - r.y)*(p2.y - r.y) + (p3.y - r.y)*(p3.y - r.y) + (p4.y - r.y)*(p4.y - r.y) + ((p1.y - r.y)+(p2.y - r.y)+(p3.y - r.y)+(p4.y - r.y))*((p1.y - r.y)+(p2.y - r.y)+(p3.y - r.y)+(p4.y - r.y)))/20) * g11 + (((p1.z - r.z)*(p1.z - r.z) + (p2.z - r.z)*(p2.z - r.z) + (p3.z - r.z)*(p3.z - r.z) + (p4.z - r.z)*(p4.z - r.z) + ((p1.z - r.z)+(p2.z - r.z)+(p3.z - r.z)+(p4.z - r.z))*((p1.z - r.z)+(p2.z - r.z)+(p3.z - r.z)+(p4.z - r.z)))/20) * g22 + 2 * (((p1.x - r.x)*(p1.y - r.y) + (p2.x - r.x)*(p2.y - r.y) + (p3.x - r.x)*(p3.y - r.y) + (p4.x - r.x)*(p4.y - r.y) + ((p1.x - r.x)+(p2.x - r.x)+(p3.x - r.x)+(p4.x - r.x))*((p1.y - r.y)+(p2.y - r.y)+(p3.y - r.y)+(p4.y - r.y)))/20) * g01 + 2 * (((p1.x - r.x)*(p1.z - r.z) + (p2.x - r.x)*(p2.z - r.z) + (p3.x - r.x)*(p3.z - r.z) + (p4.x - r.x)*(p4.z - r.z) + ((p1.x - r.x)+(p2.x - r.x)+(p3.x - r.x)+(p4.x - r.x))*((p1.z - r.z)+(p2.z - r.z)+(p3.z - r.z)+(p4.z - r.z)))/20) * g02 + 2 * (((p1.y - r.y)*(p1.z - r.z) + (p2.y - r.y)*(p2.z - r.z) + (p3.y - r.y)*(p3.z - r.z) + (p4.y - r.y)*(p4.z - r.z) + ((p1.y - r.y)+(p2.y - r.y)+(p3.y - r.y)+(p4.y - r.y))*((p1.z - r.z)+(p2.z - r.z)+(p3.z - r.z)+(p4.z - r.z)))/20) * g12 - ((((p1.x - r.x)*(p1.x - r.x) + (p2.x - r.x)*(p2.x - r.x) + (p3.x - r.x)*(p3.x - r.x) + (p4.x - r.x)*(p4.x - r.x) + ((p1.x - r.x)+(p2.x - r.x)+(p3.x - r.x)+(p4.x - r.x))*((p1.x - r.x)+(p2.x - r.x)+(p3.x - r.x)+(p4.x - r.x)))/20) + (((p1.y - r.y)*(p1.y - r.y) + (p2.y - r.y)*(p2.y - r.y) + (p3.y - r.y)*(p3.y - r.y) + (p4.y - r.y)*(p4.y - r.y) + ((p1.y - r.y)+(p2.y - r.y)+(p3.y - r.y)+(p4.y - r.y))*((p1.y - r.y)+(p2.y - r.y)+(p3.y - r.y)+(p4.y - r.y)))/20) + (((p1.z - r.z)*(p1.z - r.z) + (p2.z - r.z)*(p2.z - r.z) + (p3.z - r.z)*(p3.z - r.z) + (p4.z - r.z)*(p4.z - r.z) + ((p1.z - r.z)+(p2.z - r.z)+(p3.z - r.z)+(p4.z - r.z))*((p1.z - r.z)+(p2.z - r.z)+(p3.z - r.z)+(p4.z - r.z)))/20)) * h11
  · linear_combination (-((((p1.x - r.x)*(p1.x - r.x) + (p2.x - r.x)*(p2.x - r.x) + (p3.x - r.x)*(p3.x - r.x) + (p4.x - r.x)*(p4.x - r.x) + ((p1.x - r.x)+(p2.x - r.x)+(p3.x - r.x)+(p4.x - r.x))*((p1.x - r.x)+(p2.x - r.x)+(p3.x - r.x)+(p4.x - r.x)))/20) + (((p1.y - r.y)*(p1.y - r.y) + (p2.y - r.y)*(p2.y - r.y) + (p3.y - r.y)*(p3.y - r.y) + (p4.y - r.y)*(p4.y - r.y) + ((p1.y - r.y)+(p2.y - r.y)+(p3.y - r.y)+(p4.y - r.y))*((p1.y - r.y)+(p2.y - r.y)+(p3.y - r.y)+(p4.y - r.y)))/20) + (((p1.z - r.z)*(p1.z - r.z) + (p2.z - r.z)*(p2.z - r.z) + (p3.z - r.z)*(p3.z - r.z) + (p4.z - r.z)*(p4.z - r.z) + ((p1.z - r.z)+(p2.z - r.z)+(p3.z - r.z)+(p4.z - r.z))*((p1.z - r.z)+(p2.z - r.z)+(p3.z - r.z)+(p4.z - r.z)))/20))) * h12
  · linear_combination (-((((p1.x - r.x)*(p1.x - r.x) + (p2.x - r.x)*(p2.x - r.x) + (p3.x - r.x)*(p3.x - r.x) + (p4.x - r.x)*(p4.x - r.x) + ((p1.x - r.x)+(p2.x - r.x)+(p3.x - r.x)+(p4.x - r.x))*((p1.x - r.x)+(p2.x - r.x)+(p3.x - r.x)+(p4.x - r.x)))/20) + (((p1.y - r.y)*(p1.y - r.y) + (p2.y - r.y)*(p2.y - r.y) + (p3.y - r.y)*(p3.y - r.y) + (p4.y - r.y)*(p4.y - r.y) + ((p1.y - r.y)+(p2.y - r.y)+(p3.y - r.y)+(p4.y - r.y))*((p1.y - r.y)+(p2.y - r.y)+(p3.y - r.y)+(p4.y - r.y)))/20) + (((p1.z - r.z)*(p1.z - r.z) + (p2.z - r.z)*(p2.z - r.z) + (p3.z - r.z)*(p3.z - r.z) + (p4.z - r.z)*(p4.z - r.z) + ((p1.z - r.z)+(p2.z - r.z)+(p3.z - r.z)+(p4.z - r.z))*((p1.z - r.z)+(p2.z - r.z)+(p3.z - r.z)+(p4.z - r.z)))/20))) * h20
  · linear_combination (-((((p1.x - r.x)*(p1.x - r.x) + (p2.x - r.x)*(p2.x - r.x) + (p3.x - r.x)*(p3.x - r.x) + (p4.x - r.x)*(p4.x - r.x) + ((p1.x - r.x)+(p2.x - r.x)+(p3.x - r.x)+(p4.x - r.x))*((p1.x - r.x)+(p2.x - r.x)+(p3.x - r.x)+(p4.x - r.x)))/20) + (((p1.y - r.y)*(p1.y - r.y) + (p2.y - r.y)*(p2.y - r.y) + (p3.y - r.y)*(p3.y - r.y) + (p4.y - r.y)*(p4.y - r.y) + ((p1.y - r.y)+(p2.y - r.y)+(p3.y - r.y)+(p4.y - r.y))*((p1.y - r.y)+(p2.y - r.y)+(p3.y - r.y)+(p4.y - r.y)))/20) + (((p1.z - r.z)*(p1.z - r.z) + (p2.z - r.z)*(p2.z - r.z) + (p3.z - r.z)*(p3.z - r.z) + (p4.z - r.z)*(p4.z - r.z) + ((p1.z - r.z)+(p2.z - r.z)+(p3.z - r.z)+(p4.z - r.z))*((p1.z - r.z)+(p2.z - r.z)+(p3.z - r.z)+(p4.z - r.z)))/20))) * h21
  · linear_combination (((p1.x - r.x)*(p1.x - r.x) + (p2.x - r.x)*(p2.x - r.x) + (p3.x - r.x)*(p3.x - r.x) + (p4.x - r.x)*(p4.x - r.x) + ((p1.x - r.x)+(p2.x - r.x)+(p3.x - r.x)+(p4.x - r.x))*((p1.x - r.x)+(p2.x - r.x)+(p3.x - r.x)+(p4.x - r.x)))/20) * g00 + (((p1.y - r.y)*(p1.y - r.y) + (p2.y - r.y)*(p2.y - r.y) + (p3.y - r.y)*(p3.y - r.y) + (p4.y - r.y)*(p4.y - r.y) + ((p1.y - r.y)+(p2.y - r.y)+(p3.y - r.y)+(p4.y - r.y))*((p1.y - r.y)+(p2.y - r.y)+(p3.y - r.y)+(p4.y - r.y)))/20) * g11 + (((p1.z - r.z)*(p1.z - r.z) + (p2.z - r.z)*(p2.z - r.z) + (p3.z - r.z)*(p3.z - r.z) + (p4.z - r.z)*(p4.z - r.z) + ((p1.z - r.z)+(p2.z - r.z)+(p3.z - r.z)+(p4.z - r.z))*((p1.z - r.z)+(p2.z - r.z)+(p3.z - r.z)+(p4.z - r.z)))/20) * g22 + 2 * (((p1.x - r.x)*(p1.y - r.y) + (p2.x - r.x)*(p2.y - r.y) + (p3.x - r.x)*(p3.y - r.y) + (p4.x - r.x)*(p4.y - r.y) + ((p1.x - r.x)+(p2.x - r.x)+(p3.x - r.x)+(p4.x - r.x))*((p1.y - r.y)+(p2.y - r.y)+(p3.y - r.y)+(p4.y - r.y)))/20) * g01 + 2 * (((p1.x - r.x)*(p1.z - r.z) + (p2.x - r.x)*(p2.z - r.z) + (p3.x - r.x)*(p3.z - r.z) + (p4.x - r.x)*(p4.z - r.z) + ((p1.x - r.x)+(p2.x - r.x)+(p3.x - r.x)+(p4.x - r.x))*((p1.z - r.z)+(p2.z - r.z)+(p3.z - r.z)+(p4.z - r.z)))/20) * g02 + 2 * (((p1.y - r.y)*(p1.z - r.z) + (p2.y - r.y)*(p2.z - r.z) + (p3.y - r.y)*(p3.z - r.z) + (p4.y - r.y)*(p4.z - r.z) + ((p1.y - r.y)+(p2.y - r.y)+(p3.y - r.y)+(p4.y - r.y))*((p1.z - r.z)+(p2.z - r.z)+(p3.z - r.z)+(p4.z - r.z)))/20) * g12 - ((((p1.x - r.x)*(p1.x - r.x) + (p2.x - r.x)*(p2.x - r.x) + (p3.x - r.x)*(p3.x - r.x) + (p4.x - r.x)*(p4.x - r.x) + ((p1.x - r.x)+(p2.x - r.x)+(p3.x - r.x)+(p4.x - r.x))*((p1.x - r.x)+(p2.x - r.x)+(p3.x - r.x)+(p4.x - r.x)))/20) + (((p1.y - r.y)*(p1.y - r.y) + (p2.y - r.y)*(p2.y - r.y) + (p3.y - r.y)*(p3.y - r.y) + (p4.y - r.y)*(p4.y - r.y) + ((p1.y - r.y)+(p2.y - r.y)+(p3.y - r.y)+(p4.y - r.y))*((p1.y - r.y)+(p2.y - r.y)+(p3.y - r.y)+(p4.y - r.y)))/20) + (((p1.z - r.z)*(p1.z - r.z) + (p2.z - r.z)*(p2.z - r.z) + (p3.z - r.z)*(p3.z - r.z) + (p4.z - r.z)*(p4.z - r.z) + ((p1.z - r.z)+(p2.z - r.z)+(p3.z - r.z)+(p4.z - r.z))*((p1.z - r.z)+(p2.z - r.z)+(p3.z - r.z)+(p4.z - r.z)))/20)) * h22

theorem conj3_madd (q : Quat K) (A B : M3 K) : conj3 sq q (madd A B) = madd (conj3 sq q A) (conj3 sq q B) := by
  simp only [conj3]
  generalize @Quat.toMat K (fieldNum K sq) q = M
  rcases M with ⟨⟨m00, m01, m02⟩, ⟨m10, m11, m12⟩, ⟨m20, m21, m22⟩⟩
  simp only [M3.mul, mtr, madd]
  congr 1 <;> congr 1 <;> ring

theorem conj3_mscale (q : Quat K) (A : M3 K) (v : K) : conj3 sq q (mscale A v) = mscale (conj3 sq q A) v := by
  simp only [conj3]
  generalize @Quat.toMat K (fieldNum K sq) q = M
  rcases M with ⟨⟨m00, m01, m02⟩, ⟨m10, m11, m12⟩, ⟨m20, m21, m22⟩⟩
  simp only [M3.mul, mtr, mscale]
  congr 1 <;> congr 1 <;> ring

theorem conj3_mzero (q : Quat K) : conj3 sq q mzero = mzero := by
  simp only [conj3]
  generalize @Quat.toMat K (fieldNum K sq) q = M
  rcases M with ⟨⟨m00, m01, m02⟩, ⟨m10, m11, m12⟩, ⟨m20, m21, m22⟩⟩
  simp only [M3.mul, mtr, mzero]
  congr 1 <;> congr 1 <;> ring

/-- the signed inertia tensor of the cones over a rigidly moved triangle list (apex and reference point moved along) is
the conjugate `M J Mᵀ` -/
theorem coneInertia_moved (q : Quat K) (hq : UnitQ q) (t r o : V3 K) (ts : List (Triangle3 K)) :
    coneInertia (aff3 sq q t r) (aff3 sq q t o) (ts.map (moveTri3 sq q t)) = conj3 sq q (coneInertia r o ts) := by
  induction ts with
  | nil =>
    simp only [List.map_nil, coneInertia, msum, List.foldr_nil]
    exact (conj3_mzero sq q).symm
  | cons s l ih =>
    simp only [List.map_cons, coneInertia_cons, moveTri3] at ih ⊢
    rw [ih, unitInertia4_aff3 sq q hq, vol4_aff3 sq q hq, conj3_madd, conj3_mscale]

/-- **3-D TriMesh under a rigid motion (covariance of `from_trimesh`, closed surfaces)**: for a unit quaternion,
`from_trimesh` of the moved mesh returns `zero()` iff the original does, the same mass, the moved centre `M·com + t` and the
conjugated tensor `M I Mᵀ` — whatever the two vertex averages: exactly what `transform_by` does to the result
(`transformBy3_covariant`). -/
theorem from_trimesh3_moved (ρ : K) (gc gc' : V3 K) (q : Quat K) (hq : UnitQ q) (t : V3 K)
    (ts : List (Triangle3 K)) (hc : Closed3 ts) :
    letI := fieldNum K sq
    fromTrimesh3Raw ρ gc' (ts.map (moveTri3 sq q t))
      = (fromTrimesh3Raw ρ gc ts).map (fun r => (aff3 sq q t r.1, r.2.1, conj3 sq q r.2.2)) := by
  have a := from_trimesh3_closed sq ρ gc ⟨0, 0, 0⟩ ts hc
  have b := from_trimesh3_closed sq ρ gc' (aff3 sq q t ⟨0, 0, 0⟩) _ (closed3_moved sq q t ts hc)
  obtain ⟨e1, e2⟩ := cone_moved sq q hq t ⟨0, 0, 0⟩ ts
  simp only at a b
  rw [a, b, e1, e2]
  by_cases hV : coneVol (⟨0, 0, 0⟩ : V3 K) ts = 0
  · simp only [hV, if_true, Option.map_none]
  · simp only [hV, if_false, Option.map_some, Option.some.injEq, Prod.mk.injEq, true_and]
    have hcom : (⟨((mulVec3 (@Quat.toMat K (fieldNum K sq) q) (coneFirst ⟨0, 0, 0⟩ ts)).x + coneVol ⟨0, 0, 0⟩ ts * t.x) / coneVol ⟨0, 0, 0⟩ ts,
        ((mulVec3 (@Quat.toMat K (fieldNum K sq) q) (coneFirst ⟨0, 0, 0⟩ ts)).y + coneVol ⟨0, 0, 0⟩ ts * t.y) / coneVol ⟨0, 0, 0⟩ ts,
        ((mulVec3 (@Quat.toMat K (fieldNum K sq) q) (coneFirst ⟨0, 0, 0⟩ ts)).z + coneVol ⟨0, 0, 0⟩ ts * t.z) / coneVol ⟨0, 0, 0⟩ ts⟩ : V3 K)
        = aff3 sq q t ⟨(coneFirst ⟨0, 0, 0⟩ ts).x / coneVol ⟨0, 0, 0⟩ ts, (coneFirst ⟨0, 0, 0⟩ ts).y / coneVol ⟨0, 0, 0⟩ ts,
            (coneFirst ⟨0, 0, 0⟩ ts).z / coneVol ⟨0, 0, 0⟩ ts⟩ := by
      generalize coneFirst (⟨0, 0, 0⟩ : V3 K) ts = F at *
      generalize coneVol (⟨0, 0, 0⟩ : V3 K) ts = V at *
      simp only [aff3, mulVec3]
      congr 1 <;> field_simp
    rw [hcom, coneInertia_moved sq q hq, conj3_mscale, conj3_mscale]
    repeat' constructor

/-- **`from_trimesh` commutes with `transform_by` (3-D, closed surfaces, through the eigen-decomposition)**: if
`from_trimesh` hands `(c, μ, I)` to `with_inertia_matrix` and the solver returns an orthonormal eigen-decomposition with
non-negative eigenvalues, then the mesh moved by the isometry `m` (unit quaternion) gets exactly the centre, mass and
reconstructed tensor of `from_trimesh(mesh).transform_by(m)`. -/
theorem from_trimesh3_moved_transformBy (hs : LawfulSqrt sq) (eig : M3 K → V3 K × M3 K) (ρ : K) (gc gc' : V3 K) (m : Iso3 K)
    (hq : UnitQ (⟨m.qi, m.qj, m.qk, m.qw⟩ : Quat K)) (ts : List (Triangle3 K)) (hc : Closed3 ts)
    (c : V3 K) (μ : K) (I : M3 K) (hraw : @fromTrimesh3Raw K (fieldNum K sq) ρ gc ts = some (c, μ, I))
    (hD : EigenDecomp sq I (eig I).1 (eig I).2) (e1 : 0 ≤ (eig I).1.x) (e2 : 0 ≤ (eig I).1.y) (e3 : 0 ≤ (eig I).1.z) :
    letI := fieldNum K sq
    let p := (MP3.withInertiaMatrix eig c μ I).transformBy m
    fromTrimesh3Raw ρ gc' (ts.map (moveTri3 sq ⟨m.qi, m.qj, m.qk, m.qw⟩ m.t)) = some (p.com, massOf3 p, p.reconstruct) := by
  intro p
  obtain ⟨r1, r2, r3, -, -⟩ := with_inertia_matrix_recompose sq hs c μ I (eig I).1 (eig I).2 hD e1 e2 e3
  obtain ⟨t1, -, t3, t4⟩ := transformBy3_covariant sq (@MP3.withInertiaMatrix K (fieldNum K sq) eig c μ I) m
  have hp : (@MP3.withInertiaMatrix K (fieldNum K sq) eig c μ I) = @MP3.withInertiaEigen K (fieldNum K sq) c μ (eig I).1 (eig I).2 := rfl
  rw [from_trimesh3_moved sq ρ gc gc' _ hq m.t ts hc, hraw]
  simp only [Option.map_some, Option.some.injEq, Prod.mk.injEq]
  refine ⟨?_, ?_, ?_⟩
  · show _ = p.com
    rw [show p.com = @Iso3.act K (fieldNum K sq) m (@MP3.withInertiaMatrix K (fieldNum K sq) eig c μ I).com from t3, hp, r3]
    simp only [Iso3.act, rot_eq_mulVec sq m hq, V3.add, aff3]
  · show μ = massOf3 p
    rw [show massOf3 p = massOf3 (@MP3.withInertiaMatrix K (fieldNum K sq) eig c μ I) from t1, hp, r2]
  · show _ = @MP3.reconstruct K (fieldNum K sq) p
    rw [show @MP3.reconstruct K (fieldNum K sq) p = _ from t4, hp, r1]
    rfl

end C13
