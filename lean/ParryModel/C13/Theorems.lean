import ParryModel.C13.Lemmas
/-!
# C13 property theorems: mass properties.
-/
namespace C13
open Model Model.Mass

variable {K : Type} [Field K] [LinearOrder K] [IsStrictOrderedRing K] (sq : K → K)

/-- `Triangle::unit_angular_inertia` is the polar moment per unit area **about vertex `a`**:
`(|e1|² + e1·e2 + |e2|²)/6` with `e1 = b - a`, `e2 = c - a`. -/
theorem triangle_unit_inertia_about_a (t : Triangle2 K) :
    letI := fieldNum K sq
    triUnitInertia t =
      ((t.b.sub t.a).normSq + (t.b.sub t.a).dot (t.c.sub t.a) + (t.c.sub t.a).normSq) / 6 := by
  simp only [triUnitInertia, V2.sub, V2.normSq, V2.dot, fieldNum_lit]
  have h6 : ((mkRat 6 1 : ℚ) : K) = 6 := by norm_num
  rw [h6]; ring

theorem triangle_area_eq (hs : LawfulSqrt sq) (t : Triangle2 K) :
    letI := fieldNum K sq
    triArea t = |(t.b.sub t.a).perp (t.c.sub t.a)| / 2 := by
  have hl : ((mkRat 1 4 : ℚ) : K) = 1 / 4 := by norm_num
  simp only [triArea, V2.norm, fieldNum_sqrt, fieldNum_nmax, fieldNum_lit, hl]
  rw [heron_sorted]
  have hA := hs.sq_mul (@V2.normSq K (fieldNum K sq) (@V2.sub K (fieldNum K sq) t.b t.a)) (normSq_nonneg sq _)
  have hB := hs.sq_mul (@V2.normSq K (fieldNum K sq) (@V2.sub K (fieldNum K sq) t.c t.b)) (normSq_nonneg sq _)
  have hC := hs.sq_mul (@V2.normSq K (fieldNum K sq) (@V2.sub K (fieldNum K sq) t.a t.c)) (normSq_nonneg sq _)
  rw [hA, hB, hC]
  set p := @V2.perp K (fieldNum K sq) (@V2.sub K (fieldNum K sq) t.b t.a) (@V2.sub K (fieldNum K sq) t.c t.a) with hp
  have key : 2 * (@V2.normSq K (fieldNum K sq) (@V2.sub K (fieldNum K sq) t.b t.a)) * (@V2.normSq K (fieldNum K sq) (@V2.sub K (fieldNum K sq) t.c t.b))
      + 2 * (@V2.normSq K (fieldNum K sq) (@V2.sub K (fieldNum K sq) t.c t.b)) * (@V2.normSq K (fieldNum K sq) (@V2.sub K (fieldNum K sq) t.a t.c))
      + 2 * (@V2.normSq K (fieldNum K sq) (@V2.sub K (fieldNum K sq) t.a t.c)) * (@V2.normSq K (fieldNum K sq) (@V2.sub K (fieldNum K sq) t.b t.a))
      - (@V2.normSq K (fieldNum K sq) (@V2.sub K (fieldNum K sq) t.b t.a)) * (@V2.normSq K (fieldNum K sq) (@V2.sub K (fieldNum K sq) t.b t.a))
      - (@V2.normSq K (fieldNum K sq) (@V2.sub K (fieldNum K sq) t.c t.b)) * (@V2.normSq K (fieldNum K sq) (@V2.sub K (fieldNum K sq) t.c t.b))
      - (@V2.normSq K (fieldNum K sq) (@V2.sub K (fieldNum K sq) t.a t.c)) * (@V2.normSq K (fieldNum K sq) (@V2.sub K (fieldNum K sq) t.a t.c))
      = (2 * |p|) * (2 * |p|) := by
    have : (2 * |p|) * (2 * |p|) = 4 * (p * p) := by rw [show (2 * |p|) * (2 * |p|) = 4 * (|p| * |p|) by ring, abs_mul_abs_self]
    rw [this, hp]
    simp only [V2.normSq, V2.dot, V2.sub, V2.perp]
    ring
  rw [key]
  have hnn : (0:K) ≤ 2 * |p| * (2 * |p|) := by positivity
  rw [max_eq_left hnn]
  have h1 := hs.sq_mul _ hnn
  have h2 := hs.nonneg _ hnn
  have h3 : sq (2 * |p| * (2 * |p|)) = 2 * |p| := by
    have h4 : (0:K) ≤ 2 * |p| := by positivity
    nlinarith [mul_self_eq_mul_self_iff.1 h1]
  rw [h3]; ring

theorem add_moments (hs : LawfulSqrt sq) (a b : MP2 K) (ha : 0 ≤ a.invMass) (hb : 0 ≤ b.invMass) :
    letI := fieldNum K sq
    massOf (a.add b) = massOf a + massOf b ∧
    (a.add b).com.x * massOf (a.add b) = a.com.x * massOf a + b.com.x * massOf b ∧
    (a.add b).com.y * massOf (a.add b) = a.com.y * massOf a + b.com.y * massOf b ∧
    ∀ p : V2 K, momentAbout (a.add b) p = momentAbout a p + momentAbout b p := by
  unfold MP2.add
  split_ifs with hza hzb
  · rw [isZero_iff] at hza
    obtain ⟨h1, h2, h3, h4⟩ := hza
    simp [massOf, momentAbout, inertiaOf, h1, h2, h3, h4]
  · rw [isZero_iff] at hzb
    obtain ⟨h1, h2, h3, h4⟩ := hzb
    simp [massOf, momentAbout, inertiaOf, h1, h2, h3, h4]
  have hm1 : 0 ≤ a.invMass⁻¹ := inv_nonneg.2 ha
  have hm2 : 0 ≤ b.invMass⁻¹ := inv_nonneg.2 hb
  simp only [shifted_spec, inv_spec, V2.sub, V2.add, V2.smul, massOf, momentAbout, inertiaOf, fieldNum_sqrt]
  set m1 := a.invMass⁻¹ with hm1d
  set m2 := b.invMass⁻¹ with hm2d
  set I1 := (a.invI * a.invI)⁻¹ with hI1
  set I2 := (b.invI * b.invI)⁻¹ with hI2
  have hI1n : 0 ≤ I1 := inv_nonneg.2 (mul_self_nonneg _)
  have hI2n : 0 ≤ I2 := inv_nonneg.2 (mul_self_nonneg _)
  set cx := (a.com.x * m1 + b.com.x * m2) * (m1 + m2)⁻¹ with hcx
  set cy := (a.com.y * m1 + b.com.y * m2) * (m1 + m2)⁻¹ with hcy
  have hIn : 0 ≤ I1 + m1 * ((cx - a.com.x) ^ 2 + (cy - a.com.y) ^ 2) + (I2 + m2 * ((cx - b.com.x) ^ 2 + (cy - b.com.y) ^ 2)) := by
    positivity
  rw [sqrt_roundtrip sq hs _ hIn, inv_inv]
  rcases eq_or_ne (m1 + m2) 0 with h0 | h0
  · have e1 : m1 = 0 := by linarith
    have e2 : m2 = 0 := by linarith
    simp [e1, e2]
  · refine ⟨rfl, ?_, ?_, ?_⟩
    · simp only [hcx]; field_simp
    · simp only [hcy]; field_simp
    · intro p
      have := add_core m1 m2 a.com.x a.com.y b.com.x b.com.y p.x p.y h0
      simp only at this
      linear_combination this

theorem triangle_center_eq (t : Triangle2 K) :
    letI := fieldNum K sq
    triCenter t = ⟨(t.a.x + t.b.x + t.c.x) / 3, (t.a.y + t.b.y + t.c.y) / 3⟩ := by
  have h3 : ((mkRat 3 1 : ℚ) : K) = 3 := by norm_num
  simp only [triCenter, V2.add, V2.smul, fieldNum_lit, h3]
  congr 1 <;> ring

theorem triangle_centroid_inertia (t : Triangle2 K) :
    letI := fieldNum K sq
    triUnitInertia t - ((triCenter t).sub t.a).normSq = sumSqSides t / 36 := by
  have h3 : ((mkRat 3 1 : ℚ) : K) = 3 := by norm_num
  have h6 : ((mkRat 6 1 : ℚ) : K) = 6 := by norm_num
  simp only [triUnitInertia, triCenter, V2.add, V2.smul, V2.sub, V2.normSq, V2.dot, fieldNum_lit, h3, h6, sumSqSides]
  ring

theorem from_triangle_spec (hs : LawfulSqrt sq) (ρ : K) (hρ : 0 < ρ) (t : Triangle2 K) (hnd : cross t ≠ 0) :
    letI := fieldNum K sq
    massOf (fromTriangle ρ t) = ρ * (|cross t| / 2) ∧
    (fromTriangle ρ t).com = ⟨(t.a.x + t.b.x + t.c.x) / 3, (t.a.y + t.b.y + t.c.y) / 3⟩ ∧
    inertiaOf (fromTriangle ρ t) = ρ * (|cross t| / 2) * (sumSqSides t / 36) := by
  have harea := triangle_area_eq sq hs t
  have hcr : @V2.perp K (fieldNum K sq) (@V2.sub K (fieldNum K sq) t.b t.a) (@V2.sub K (fieldNum K sq) t.c t.a) = cross t := by
    simp only [V2.perp, V2.sub, cross]
  rw [hcr] at harea
  have hpos : 0 < |cross t| / 2 := by positivity
  unfold fromTriangle
  simp only [fieldNum_neq', harea]
  rw [if_neg (by simpa using hpos.ne')]
  simp only [MP2.new, massOf, inertiaOf, inv_spec, inv_inv, fieldNum_sqrt]
  refine ⟨by ring, triangle_center_eq sq t, ?_⟩
  rw [triangle_centroid_inertia]
  have hI : 0 ≤ sumSqSides t / 36 * (|cross t| / 2) * ρ := by
    have := sumSqSides_pos t hnd
    positivity
  rw [sqrt_roundtrip sq hs _ hI]; ring

theorem triangle_area_nonneg (hs : LawfulSqrt sq) (t : Triangle2 K) : 0 ≤ @triArea K (fieldNum K sq) t := by
  rw [triangle_area_eq sq hs]; positivity

/-- observables of the corrected `from_triangle`, degenerate triangles included (their mass and inertia are `0`) -/
theorem from_triangle_obs (hs : LawfulSqrt sq) (ρ : K) (hρ : 0 ≤ ρ) (t : Triangle2 K) :
    letI := fieldNum K sq
    massOf (fromTriangle ρ t) = triArea t * ρ ∧
    (fromTriangle ρ t).com = triCenter t ∧
    inertiaOf (fromTriangle ρ t) = sumSqSides t / 36 * triArea t * ρ := by
  have hA := triangle_area_nonneg sq hs t
  unfold fromTriangle
  simp only [fieldNum_neq']
  by_cases h0 : @triArea K (fieldNum K sq) t = 0
  · simp [h0, MP2.new, massOf, inertiaOf, inv_spec, fieldNum_sqrt, sqrt_zero sq hs]
  · rw [if_neg (by simpa using h0)]
    simp only [MP2.new, massOf, inertiaOf, inv_spec, inv_inv, fieldNum_sqrt, triangle_centroid_inertia]
    refine ⟨trivial, trivial, ?_⟩
    have hI : 0 ≤ sumSqSides t / 36 * @triArea K (fieldNum K sq) t * ρ := by
      have := sumSqSides_nonneg t
      positivity
    rw [sqrt_roundtrip sq hs _ hI]

theorem from_triangle_pinned_overestimates (hs : LawfulSqrt sq) (ρ : K) (hρ : 0 ≤ ρ) (t : Triangle2 K) :
    letI := fieldNum K sq
    inertiaOf (fromTrianglePinned ρ t) =
      inertiaOf (fromTriangle ρ t) + massOf (fromTriangle ρ t) * ((triCenter t).sub t.a).normSq := by
  obtain ⟨h1, _, h3⟩ := from_triangle_obs sq hs ρ hρ t
  rw [h1, h3]
  have hA := triangle_area_nonneg sq hs t
  unfold fromTrianglePinned
  simp only [fieldNum_neq']
  by_cases h0 : @triArea K (fieldNum K sq) t = 0
  · simp [h0, MP2.new, inertiaOf, inv_spec, fieldNum_sqrt, sqrt_zero sq hs]
  · rw [if_neg (by simpa using h0)]
    simp only [MP2.new, inertiaOf, inv_spec, fieldNum_sqrt]
    have e := triangle_centroid_inertia sq t
    have hn := normSq_nonneg sq (@V2.sub K (fieldNum K sq) (@triCenter K (fieldNum K sq) t) t.a)
    have hu : 0 ≤ @triUnitInertia K (fieldNum K sq) t := by
      have := sumSqSides_nonneg t; linarith [e]
    have hI : 0 ≤ @triUnitInertia K (fieldNum K sq) t * @triArea K (fieldNum K sq) t * ρ := by positivity
    rw [sqrt_roundtrip sq hs _ hI]
    linear_combination (@triArea K (fieldNum K sq) t * ρ) * e

/-- **`Sum`** : the moments of `MassProperties::sum` are the sums of the members' moments (zero-mass members included). -/
theorem sum_moments (hs : LawfulSqrt sq) (ps : List (MP2 K)) (h : ∀ a ∈ ps, 0 ≤ a.invMass) :
    letI := fieldNum K sq
    massOf (MP2.sum ps) = totMass ps ∧
    (MP2.sum ps).com.x * massOf (MP2.sum ps) = totFx ps ∧
    (MP2.sum ps).com.y * massOf (MP2.sum ps) = totFy ps ∧
    ∀ p : V2 K, momentAbout (MP2.sum ps) p = totMoment ps p := by
  obtain ⟨f1, f2, f3⟩ := foldl_sumAcc sq ps (0, ⟨0, 0⟩)
  have hM := totMass_nonneg ps h
  simp only [zero_add] at f1 f2 f3
  unfold MP2.sum
  simp only [foldl_shifted, zero_add, V2.zero, f1, massOf, momentAbout, inertiaOf, inv_spec, inv_inv, fieldNum_sqrt]
  rcases hM.eq_or_lt with h0 | hpos
  · -- massless family
    obtain ⟨g1, g2⟩ := massless_family ps h h0.symm
    rw [if_neg (by rw [← h0]; exact lt_irrefl _)]
    rw [sqrt_roundtrip sq hs _ (totMoment_nonneg ps h _)]
    refine ⟨trivial, by rw [← h0, g1]; ring, by rw [← h0, g2]; ring, ?_⟩
    intro p
    rw [list_parallel_axis ps p _, g1, g2, ← h0]; ring
  · rw [if_pos hpos]
    rw [sqrt_roundtrip sq hs _ (totMoment_nonneg ps h _)]
    simp only [V2.sdiv, f2, f3]
    refine ⟨trivial, by field_simp, by field_simp, ?_⟩
    intro p
    rw [list_parallel_axis_com ps p ⟨totFx ps / totMass ps, totFy ps / totMass ps⟩ (by field_simp) (by field_simp)]

/-- moments of the family of (corrected) `from_triangle` parts of a triangle list -/
theorem parts_tot (hs : LawfulSqrt sq) (ρ : K) (hρ : 0 ≤ ρ) (ts : List (Triangle2 K)) (c : V2 K) :
    letI := fieldNum K sq
    totMass (ts.map (fromTriangle ρ)) = (ts.map triArea).sum * ρ ∧
    totFx (ts.map (fromTriangle ρ)) = (ts.map fun t => (triCenter t).x * triArea t).sum * ρ ∧
    totFy (ts.map (fromTriangle ρ)) = (ts.map fun t => (triCenter t).y * triArea t).sum * ρ ∧
    totMoment (ts.map (fromTriangle ρ)) c = (ts.map (meshTerm c)).sum * ρ := by
  induction ts with
  | nil => simp [totMass, totFx, totFy, totMoment]
  | cons a l ih =>
    obtain ⟨i1, i2, i3, i4⟩ := ih
    obtain ⟨o1, o2, o3⟩ := from_triangle_obs sq hs ρ hρ a
    simp only [totMass, totFx, totFy, totMoment, List.map_cons, List.sum_cons] at i1 i2 i3 i4 ⊢
    rw [i1, i2, i3, i4]
    simp only [momentAbout, o1, o2, o3, meshTerm]
    have e := triangle_centroid_inertia sq a
    simp only [V2.sub, V2.normSq, V2.dot] at e ⊢
    refine ⟨by ring, by ring, by ring, ?_⟩
    linear_combination (-(@triArea K (fieldNum K sq) a) * ρ) * e

theorem parts_invMass_nonneg (hs : LawfulSqrt sq) (ρ : K) (hρ : 0 ≤ ρ) (ts : List (Triangle2 K)) :
    ∀ a ∈ ts.map (@fromTriangle K (fieldNum K sq) ρ), 0 ≤ a.invMass := by
  intro a ha
  simp only [List.mem_map] at ha
  obtain ⟨t, _, rfl⟩ := ha
  have := (from_triangle_obs sq hs ρ hρ t).1
  have hA := triangle_area_nonneg sq hs t
  have h2 : 0 ≤ massOf (@fromTriangle K (fieldNum K sq) ρ t) := by rw [this]; positivity
  exact inv_nonneg.1 h2

/-- **2-D TriMesh = Σ of its triangles**: the (corrected) `from_trimesh` has exactly the moments of the family of
`from_triangle` parts, about every point `p` (degenerate triangles and zero total area included). -/
theorem trimesh_moments (hs : LawfulSqrt sq) (ρ : K) (hρ : 0 ≤ ρ) (ts : List (Triangle2 K)) :
    letI := fieldNum K sq
    massOf (fromTrimeshTris ρ ts) = totMass (ts.map (fromTriangle ρ)) ∧
    (fromTrimeshTris ρ ts).com.x * massOf (fromTrimeshTris ρ ts) = totFx (ts.map (fromTriangle ρ)) ∧
    (fromTrimeshTris ρ ts).com.y * massOf (fromTrimeshTris ρ ts) = totFy (ts.map (fromTriangle ρ)) ∧
    ∀ p : V2 K, momentAbout (fromTrimeshTris ρ ts) p = totMoment (ts.map (fromTriangle ρ)) p := by
  obtain ⟨f1, f2, f3⟩ := foldl_meshAcc sq ts (⟨0, 0⟩, 0)
  simp only [zero_add] at f1 f2 f3
  have hAn : 0 ≤ (ts.map (@triArea K (fieldNum K sq))).sum := by
    apply List.sum_nonneg; intro x hx; simp only [List.mem_map] at hx
    obtain ⟨b, _, rfl⟩ := hx; exact triangle_area_nonneg sq hs b
  have hpn := parts_invMass_nonneg sq hs ρ hρ ts
  unfold fromTrimeshTris meshAreaCom
  simp only [V2.zero, f1, fieldNum_neq']
  by_cases h0 : (ts.map (@triArea K (fieldNum K sq))).sum = 0
  · simp only [h0, decide_true, if_true]
    obtain ⟨p1, p2, p3, _⟩ := parts_tot sq hs ρ hρ ts ⟨0, 0⟩
    have hm0 : totMass (ts.map (@fromTriangle K (fieldNum K sq) ρ)) = 0 := by rw [p1, h0]; ring
    obtain ⟨g1, g2⟩ := massless_family _ hpn hm0
    simp only [MP2.new, massOf, momentAbout, inertiaOf, inv_spec, fieldNum_sqrt, sqrt_zero sq hs, inv_zero, mul_zero, zero_mul, add_zero]
    have hJ : ∀ p : V2 K, (ts.map (@meshTerm K (fieldNum K sq) p)).sum = 0 := fun p =>
      sum_weighted_zero ts (@triArea K (fieldNum K sq)) _ (fun t _ => triangle_area_nonneg sq hs t) h0
    refine ⟨hm0.symm, g1.symm, g2.symm, ?_⟩
    intro p
    rw [(parts_tot sq hs ρ hρ ts p).2.2.2, hJ p]; ring
  · have hApos : 0 < (ts.map (@triArea K (fieldNum K sq))).sum := lt_of_le_of_ne hAn (Ne.symm h0)
    simp only [h0, decide_false, if_false, Bool.false_eq_true]
    simp only [foldl_add_map, zero_add, V2.sdiv, f1, f2, f3]
    set A := (ts.map (@triArea K (fieldNum K sq))).sum with hA
    set Gx := (ts.map fun t => (@triCenter K (fieldNum K sq) t).x * @triArea K (fieldNum K sq) t).sum with hGx
    set Gy := (ts.map fun t => (@triCenter K (fieldNum K sq) t).y * @triArea K (fieldNum K sq) t).sum with hGy
    obtain ⟨p1, p2, p3, p4⟩ := parts_tot sq hs ρ hρ ts ⟨Gx / A, Gy / A⟩
    rw [← hA] at p1; rw [← hGx] at p2; rw [← hGy] at p3
    have hJn : 0 ≤ (ts.map (@meshTerm K (fieldNum K sq) ⟨Gx / A, Gy / A⟩)).sum * ρ := by
      rw [← p4]; exact totMoment_nonneg _ hpn _
    simp only [MP2.new, massOf, momentAbout, inertiaOf, inv_spec, inv_inv, fieldNum_sqrt]
    rw [sqrt_roundtrip sq hs _ hJn]
    refine ⟨p1.symm, ?_, ?_, ?_⟩
    · rw [p2]; field_simp
    · rw [p3]; field_simp
    · intro p
      have hx : (⟨Gx / A, Gy / A⟩ : V2 K).x * totMass (ts.map (@fromTriangle K (fieldNum K sq) ρ)) = totFx (ts.map (@fromTriangle K (fieldNum K sq) ρ)) := by
        rw [p1, p2]; field_simp
      have hy : (⟨Gx / A, Gy / A⟩ : V2 K).y * totMass (ts.map (@fromTriangle K (fieldNum K sq) ρ)) = totFy (ts.map (@fromTriangle K (fieldNum K sq) ρ)) := by
        rw [p1, p3]; field_simp
      rw [list_parallel_axis_com _ p ⟨Gx / A, Gy / A⟩ hx hy, p4, p1]

end C13
