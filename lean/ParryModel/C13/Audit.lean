import ParryModel.C13.Theorems
#print axioms C13.triangle_unit_inertia_about_a
