import ParryModel.C13.Lemmas
import ParryModel.C13.Model3
/-!
# C13, 3-D triangle meshes: specification vocabulary and helper lemmas (not property obligations)

`def`s: the specification side (plain field expressions / list sums, no model code) of the `Theorems2.lean` statements.
`theorem`s: how the model's folds read as list sums, the polynomial identities behind the orientation flip and behind the
independence from the apex (the five-term identity of the degenerate 4-simplex).
-/
namespace C13
open Model Model.Mass

variable {K : Type} [Field K] [LinearOrder K] [IsStrictOrderedRing K] (sq : K → K)

/-! ## spec side -/

/-- `det [a−o, b−o, c−o] / 6`: signed volume of the tetrahedron `(o, a, b, c)` (plain field expression) -/
def vol4 (o a b c : V3 K) : K :=
  ((a.x - o.x) * ((b.y - o.y) * (c.z - o.z) - (b.z - o.z) * (c.y - o.y))
   - (b.x - o.x) * ((a.y - o.y) * (c.z - o.z) - (a.z - o.z) * (c.y - o.y))
   + (c.x - o.x) * ((a.y - o.y) * (b.z - o.z) - (a.z - o.z) * (b.y - o.y))) / 6

/-- second-moment matrix per unit volume of the tetrahedron `(p₁,p₂,p₃,p₄)` about the point `r`:
`(Σ_k w_k w_kᵀ + s sᵀ)/20`, `w_k = p_k − r`, `s = Σ w_k` — entry `(i, j)` given the `i`-th and `j`-th coordinates -/
def cov4 (u1 u2 u3 u4 v1 v2 v3 v4 : K) : K :=
  (u1 * v1 + u2 * v2 + u3 * v3 + u4 * v4 + (u1 + u2 + u3 + u4) * (v1 + v2 + v3 + v4)) / 20

/-- inertia tensor per unit volume of the tetrahedron `(p₁,p₂,p₃,p₄)` about `r`: `tr(C)·1 − C` with `C = cov4` -/
def unitInertia4 (r p1 p2 p3 p4 : V3 K) : M3 K :=
  let x1 := p1.x - r.x; let x2 := p2.x - r.x; let x3 := p3.x - r.x; let x4 := p4.x - r.x
  let y1 := p1.y - r.y; let y2 := p2.y - r.y; let y3 := p3.y - r.y; let y4 := p4.y - r.y
  let z1 := p1.z - r.z; let z2 := p2.z - r.z; let z3 := p3.z - r.z; let z4 := p4.z - r.z
  let cxx := cov4 x1 x2 x3 x4 x1 x2 x3 x4; let cyy := cov4 y1 y2 y3 y4 y1 y2 y3 y4; let czz := cov4 z1 z2 z3 z4 z1 z2 z3 z4
  let cxy := cov4 x1 x2 x3 x4 y1 y2 y3 y4; let cxz := cov4 x1 x2 x3 x4 z1 z2 z3 z4; let cyz := cov4 y1 y2 y3 y4 z1 z2 z3 z4
  ⟨⟨cyy + czz, -cxy, -cxz⟩, ⟨-cxy, cxx + czz, -cyz⟩, ⟨-cxz, -cyz, cxx + cyy⟩⟩

/-- entrywise scaling (spec side) -/
def mscale (a : M3 K) (s : K) : M3 K :=
  ⟨⟨a.r0.x * s, a.r0.y * s, a.r0.z * s⟩, ⟨a.r1.x * s, a.r1.y * s, a.r1.z * s⟩, ⟨a.r2.x * s, a.r2.y * s, a.r2.z * s⟩⟩
def mzero : M3 K := ⟨⟨0, 0, 0⟩, ⟨0, 0, 0⟩, ⟨0, 0, 0⟩⟩
/-- sum of a list of matrices (spec side) -/
def msum (l : List (M3 K)) : M3 K := l.foldr madd mzero
def vadd3 (a b : V3 K) : V3 K := ⟨a.x + b.x, a.y + b.y, a.z + b.z⟩
def vsum3 (l : List (V3 K)) : V3 K := l.foldr vadd3 ⟨0, 0, 0⟩

/-- total signed volume of the cones from the apex `o` over the triangles -/
def coneVol (o : V3 K) (ts : List (Triangle3 K)) : K := (ts.map fun t => vol4 o t.a t.b t.c).sum
/-- total signed first moment `Σ V_t · (o + a + b + c)/4` of the cones from `o` -/
def coneFirst (o : V3 K) (ts : List (Triangle3 K)) : V3 K :=
  vsum3 (ts.map fun t => let v := vol4 o t.a t.b t.c
    ⟨(o.x + t.a.x + t.b.x + t.c.x) / 4 * v, (o.y + t.a.y + t.b.y + t.c.y) / 4 * v, (o.z + t.a.z + t.b.z + t.c.z) / 4 * v⟩)
/-- total signed inertia tensor about `r` of the cones from `o` -/
def coneInertia (r o : V3 K) (ts : List (Triangle3 K)) : M3 K :=
  msum (ts.map fun t => mscale (unitInertia4 r o t.a t.b t.c) (vol4 o t.a t.b t.c))

/-- directed edges of a triangle list -/
def edges3 (ts : List (Triangle3 K)) : List (V3 K × V3 K) := ts.flatMap fun t => [(t.a, t.b), (t.b, t.c), (t.c, t.a)]

/-- **closed oriented surface**: the boundary 1-chain `Σ_t ([a,b] + [b,c] + [c,a])` vanishes, i.e. every antisymmetric
edge functional sums to zero over the directed edges.  Implied by the combinatorial condition the oracle tests (every
directed edge is matched by its reverse: `closed3_of_perm`). -/
def Closed3 (ts : List (Triangle3 K)) : Prop :=
  ∀ E : V3 K → V3 K → K, (∀ p q, E q p = -E p q) → ((edges3 ts).map fun e => E e.1 e.2).sum = 0

/-! ## model reading -/

theorem tetSignedVolume_spec (o a b c : V3 K) : @tetSignedVolume K (fieldNum K sq) o a b c = vol4 o a b c := by
  simp only [tetSignedVolume, det3, V3.sub, vol4, fieldNum_lit]
  have h6 : ((mkRat 6 1 : Rat) : K) = 6 := by norm_num
  rw [h6]

theorem tetCenter_spec (o a b c : V3 K) :
    @tetCenter K (fieldNum K sq) o a b c = ⟨(o.x + a.x + b.x + c.x) / 4, (o.y + a.y + b.y + c.y) / 4, (o.z + a.z + b.z + c.z) / 4⟩ := by
  simp only [tetCenter, V3.add, V3.smul, fieldNum_lit]
  have h4 : ((mkRat 4 1 : Rat) : K) = 4 := by norm_num
  rw [h4]; congr 1 <;> ring

theorem tetUnitInertia_spec (r p1 p2 p3 p4 : V3 K) :
    @tetUnitInertia K (fieldNum K sq) r p1 p2 p3 p4 = unitInertia4 r p1 p2 p3 p4 := by
  simp only [tetUnitInertia, unitInertia4, cov4, V3.sub, fieldNum_lit, fieldNum_two]
  have h10 : ((mkRat 1 10 : Rat) : K) = 1 / 10 := by norm_num
  have h20 : ((mkRat 1 20 : Rat) : K) = 1 / 20 := by norm_num
  rw [h10, h20]
  congr 1 <;> congr 1 <;> ring

theorem signum_spec (v : K) (hv : v ≠ 0) :
    @signum K (fieldNum K sq) v = if v < 0 then -1 else 1 := by
  unfold signum
  split_ifs with h1 h2 h3 <;> first | rfl | (exfalso; rcases lt_trichotomy v 0 with h | h | h <;> simp_all)

/-! ## folds as sums -/

omit [LinearOrder K] [IsStrictOrderedRing K] in
theorem vadd3_zero (a : V3 K) : vadd3 a ⟨0, 0, 0⟩ = a := by
  rcases a with ⟨x, y, z⟩; simp [vadd3]

omit [LinearOrder K] [IsStrictOrderedRing K] in
theorem madd_zero (a : M3 K) : madd a mzero = a := by
  rcases a with ⟨⟨a00, a01, a02⟩, ⟨a10, a11, a12⟩, ⟨a20, a21, a22⟩⟩; simp [madd, mzero]

omit [LinearOrder K] [IsStrictOrderedRing K] in
theorem madd_assoc (a b c : M3 K) : madd (madd a b) c = madd a (madd b c) := by
  simp only [madd]; congr 1 <;> congr 1 <;> ring

omit [LinearOrder K] [IsStrictOrderedRing K] in
theorem vadd3_assoc (a b c : V3 K) : vadd3 (vadd3 a b) c = vadd3 a (vadd3 b c) := by
  simp only [vadd3]; congr 1 <;> ring

/-- the accumulation loop of `trimesh_signed_volume_and_center_of_mass` is `(Σ V_t g_t, Σ V_t)` -/
theorem foldl_meshAcc3 (gc : V3 K) (ts : List (Triangle3 K)) (acc : V3 K × K) :
    ts.foldl (@meshAcc3 K (fieldNum K sq) gc) acc = (vadd3 acc.1 (coneFirst gc ts), acc.2 + coneVol gc ts) := by
  induction ts generalizing acc with
  | nil => simp [coneFirst, coneVol, vsum3, vadd3_zero]
  | cons t ts ih =>
    rw [List.foldl_cons, ih]
    simp only [meshAcc3, tetSignedVolume_spec, tetCenter_spec, coneFirst, coneVol, List.map_cons, List.sum_cons, vsum3,
      List.foldr_cons, V3.add, V3.smul, vadd3, Prod.mk.injEq, V3.mk.injEq]
    refine ⟨⟨?_, ?_, ?_⟩, ?_⟩ <;> ring

/-- the `itot` loop of the 3-D `from_trimesh` is the tensor about `com` of the cones from `com` -/
theorem foldl_itot3 (r o : V3 K) (ts : List (Triangle3 K)) (acc : M3 K) :
    ts.foldl (fun itot t => @M3.add K (fieldNum K sq) itot
        (@M3.smul K (fieldNum K sq) (@tetUnitInertia K (fieldNum K sq) r o t.a t.b t.c) (@tetSignedVolume K (fieldNum K sq) o t.a t.b t.c))) acc
      = madd acc (coneInertia r o ts) := by
  induction ts generalizing acc with
  | nil => simp [coneInertia, msum, madd_zero]
  | cons t ts ih =>
    rw [List.foldl_cons, ih]
    simp only [coneInertia, List.map_cons, msum, List.foldr_cons, tetSignedVolume_spec, tetUnitInertia_spec]
    rw [← madd_assoc]
    congr 1

omit [LinearOrder K] [IsStrictOrderedRing K] in
theorem zero_madd (a : M3 K) : madd mzero a = a := by
  rcases a with ⟨⟨a00, a01, a02⟩, ⟨a10, a11, a12⟩, ⟨a20, a21, a22⟩⟩; simp [madd, mzero]

theorem meshItot3_spec (com : V3 K) (ts : List (Triangle3 K)) :
    @meshItot3 K (fieldNum K sq) com ts = coneInertia com com ts := by
  unfold meshItot3
  rw [foldl_itot3]
  exact zero_madd _

/-! ## orientation flip -/

omit [LinearOrder K] [IsStrictOrderedRing K] in
theorem vol4_swap (o a b c : V3 K) : vol4 o a c b = -vol4 o a b c := by
  simp only [vol4]; ring

omit [LinearOrder K] [IsStrictOrderedRing K] in
theorem unitInertia4_swap (r o a b c : V3 K) : unitInertia4 r o a c b = unitInertia4 r o a b c := by
  simp only [unitInertia4, cov4]; congr 1 <;> congr 1 <;> ring

omit [LinearOrder K] [IsStrictOrderedRing K] in
theorem flipTris_cons (t : Triangle3 K) (ts : List (Triangle3 K)) :
    @flipTris K (t :: ts) = ⟨t.a, t.c, t.b⟩ :: @flipTris K ts := rfl
omit [LinearOrder K] [IsStrictOrderedRing K] in
theorem coneVol_cons (o : V3 K) (t : Triangle3 K) (ts : List (Triangle3 K)) :
    coneVol o (t :: ts) = vol4 o t.a t.b t.c + coneVol o ts := rfl
omit [LinearOrder K] [IsStrictOrderedRing K] in
theorem coneFirst_cons (o : V3 K) (t : Triangle3 K) (ts : List (Triangle3 K)) :
    coneFirst o (t :: ts) = vadd3 ⟨(o.x + t.a.x + t.b.x + t.c.x) / 4 * vol4 o t.a t.b t.c, (o.y + t.a.y + t.b.y + t.c.y) / 4 * vol4 o t.a t.b t.c,
      (o.z + t.a.z + t.b.z + t.c.z) / 4 * vol4 o t.a t.b t.c⟩ (coneFirst o ts) := rfl
omit [LinearOrder K] [IsStrictOrderedRing K] in
theorem coneInertia_cons (r o : V3 K) (t : Triangle3 K) (ts : List (Triangle3 K)) :
    coneInertia r o (t :: ts) = madd (mscale (unitInertia4 r o t.a t.b t.c) (vol4 o t.a t.b t.c)) (coneInertia r o ts) := rfl

omit [LinearOrder K] [IsStrictOrderedRing K] in
theorem coneVol_flip (o : V3 K) (ts : List (Triangle3 K)) :
    coneVol o (@flipTris K ts) = -coneVol o ts := by
  induction ts with
  | nil => simp [coneVol, flipTris]
  | cons t ts ih =>
    rw [flipTris_cons, coneVol_cons, coneVol_cons, ih, vol4_swap o t.a t.b t.c]; ring

omit [LinearOrder K] [IsStrictOrderedRing K] in
theorem coneFirst_flip (o : V3 K) (ts : List (Triangle3 K)) :
    coneFirst o (@flipTris K ts) = ⟨-(coneFirst o ts).x, -(coneFirst o ts).y, -(coneFirst o ts).z⟩ := by
  induction ts with
  | nil => simp [coneFirst, flipTris, vsum3]
  | cons t ts ih =>
    rw [flipTris_cons, coneFirst_cons, coneFirst_cons, ih, vol4_swap o t.a t.b t.c]
    simp only [vadd3, V3.mk.injEq]
    refine ⟨?_, ?_, ?_⟩ <;> ring

omit [LinearOrder K] [IsStrictOrderedRing K] in
theorem coneInertia_flip (r o : V3 K) (ts : List (Triangle3 K)) :
    coneInertia r o (@flipTris K ts) = mscale (coneInertia r o ts) (-1) := by
  induction ts with
  | nil => simp [coneInertia, flipTris, msum, mscale, mzero]
  | cons t ts ih =>
    rw [flipTris_cons, coneInertia_cons, coneInertia_cons, ih, vol4_swap o t.a t.b t.c, unitInertia4_swap r o t.a t.b t.c]
    simp only [madd, mscale]
    congr 1 <;> congr 1 <;> ring

/-! ## closed surfaces: independence from the apex -/

omit [LinearOrder K] [IsStrictOrderedRing K] in
/-- sum over the directed edges = sum over the triangles of their three edges -/
theorem sum_edges3 (E : V3 K → V3 K → K) (ts : List (Triangle3 K)) :
    ((edges3 ts).map fun e => E e.1 e.2).sum = (ts.map fun t => E t.a t.b + E t.b t.c + E t.c t.a).sum := by
  induction ts with
  | nil => simp [edges3]
  | cons t ts ih =>
    simp only [edges3, List.flatMap_cons, List.map_append, List.sum_append, List.map_cons, List.map_nil, List.sum_cons,
      List.sum_nil] at ih ⊢
    rw [ih]; ring

/-- the combinatorial condition (every directed edge is matched by its reverse, as multisets) implies `Closed3` -/
theorem closed3_of_perm (ts : List (Triangle3 K)) (h : (edges3 ts).Perm ((edges3 ts).map Prod.swap)) : Closed3 ts := by
  intro E hE
  have h1 : ((edges3 ts).map fun e => E e.1 e.2).sum = (((edges3 ts).map Prod.swap).map fun e => E e.1 e.2).sum :=
    (h.map _).sum_eq
  rw [List.map_map] at h1
  have h2 : ((edges3 ts).map ((fun e => E e.1 e.2) ∘ Prod.swap)).sum = -((edges3 ts).map fun e => E e.1 e.2).sum := by
    induction edges3 ts with
    | nil => simp
    | cons e l ih =>
      simp only [List.map_cons, List.sum_cons, Function.comp, Prod.swap] at ih ⊢
      rw [ih, hE e.1 e.2]; ring
  rw [h2] at h1
  linarith

omit [LinearOrder K] [IsStrictOrderedRing K] in
/-- **apex independence, abstractly**: a tetrahedron functional `M` that satisfies the five-term identity of the
(degenerate) 4-simplex `(o', o, a, b, c)` and is antisymmetric in the last two vertices has the same total over the cones
from `o` and from `o'` of a closed surface -/
theorem apex_indep (M : V3 K → V3 K → V3 K → V3 K → K) (o o' : V3 K)
    (h5 : ∀ a b c, M o a b c - M o' a b c + M o' o b c + M o' o c a + M o' o a b = 0)
    (hanti : ∀ p q, M o' o q p = -M o' o p q)
    (ts : List (Triangle3 K)) (hc : Closed3 ts) :
    (ts.map fun t => M o t.a t.b t.c).sum = (ts.map fun t => M o' t.a t.b t.c).sum := by
  have h := hc (fun p q => M o' o p q) hanti
  rw [sum_edges3] at h
  have key : ∀ l : List (Triangle3 K),
      (l.map fun t => M o t.a t.b t.c).sum = (l.map fun t => M o' t.a t.b t.c).sum
        - (l.map fun t => M o' o t.a t.b + M o' o t.b t.c + M o' o t.c t.a).sum := by
    intro l
    induction l with
    | nil => simp
    | cons t l ih =>
      simp only [List.map_cons, List.sum_cons] at ih ⊢
      rw [ih]
      linear_combination h5 t.a t.b t.c
  rw [key ts, h, sub_zero]

/-- linear functional on matrices / vectors (to read matrix identities entry by entry with a single polynomial identity) -/
def mdot (w a : M3 K) : K :=
  w.r0.x * a.r0.x + w.r0.y * a.r0.y + w.r0.z * a.r0.z + w.r1.x * a.r1.x + w.r1.y * a.r1.y + w.r1.z * a.r1.z
  + w.r2.x * a.r2.x + w.r2.y * a.r2.y + w.r2.z * a.r2.z
def vdot3 (w a : V3 K) : K := w.x * a.x + w.y * a.y + w.z * a.z

omit [LinearOrder K] [IsStrictOrderedRing K] in
theorem mdot_msum (w : M3 K) (l : List (M3 K)) : mdot w (msum l) = (l.map (mdot w)).sum := by
  induction l with
  | nil => simp [msum, mdot, mzero]
  | cons a l ih =>
    simp only [msum, List.foldr_cons, List.map_cons, List.sum_cons] at ih ⊢
    rw [← ih]; simp only [mdot, madd]; ring

omit [LinearOrder K] [IsStrictOrderedRing K] in
theorem vdot3_vsum3 (w : V3 K) (l : List (V3 K)) : vdot3 w (vsum3 l) = (l.map (vdot3 w)).sum := by
  induction l with
  | nil => simp [vsum3, vdot3]
  | cons a l ih =>
    simp only [vsum3, List.foldr_cons, List.map_cons, List.sum_cons] at ih ⊢
    rw [← ih]; simp only [vdot3, vadd3]; ring

omit [LinearOrder K] [IsStrictOrderedRing K] in
theorem m3_eq_of_mdot (a b : M3 K) (h : ∀ w, mdot w a = mdot w b) : a = b := by
  rcases a with ⟨⟨a00, a01, a02⟩, ⟨a10, a11, a12⟩, ⟨a20, a21, a22⟩⟩
  rcases b with ⟨⟨b00, b01, b02⟩, ⟨b10, b11, b12⟩, ⟨b20, b21, b22⟩⟩
  have e00 := h ⟨⟨1, 0, 0⟩, ⟨0, 0, 0⟩, ⟨0, 0, 0⟩⟩
  have e01 := h ⟨⟨0, 1, 0⟩, ⟨0, 0, 0⟩, ⟨0, 0, 0⟩⟩
  have e02 := h ⟨⟨0, 0, 1⟩, ⟨0, 0, 0⟩, ⟨0, 0, 0⟩⟩
  have e10 := h ⟨⟨0, 0, 0⟩, ⟨1, 0, 0⟩, ⟨0, 0, 0⟩⟩
  have e11 := h ⟨⟨0, 0, 0⟩, ⟨0, 1, 0⟩, ⟨0, 0, 0⟩⟩
  have e12 := h ⟨⟨0, 0, 0⟩, ⟨0, 0, 1⟩, ⟨0, 0, 0⟩⟩
  have e20 := h ⟨⟨0, 0, 0⟩, ⟨0, 0, 0⟩, ⟨1, 0, 0⟩⟩
  have e21 := h ⟨⟨0, 0, 0⟩, ⟨0, 0, 0⟩, ⟨0, 1, 0⟩⟩
  have e22 := h ⟨⟨0, 0, 0⟩, ⟨0, 0, 0⟩, ⟨0, 0, 1⟩⟩
  simp only [mdot, one_mul, zero_mul, add_zero, zero_add] at e00 e01 e02 e10 e11 e12 e20 e21 e22
  subst e00 e01 e02 e10 e11 e12 e20 e21 e22
  rfl

omit [LinearOrder K] [IsStrictOrderedRing K] in
theorem v3_eq_of_vdot (a b : V3 K) (h : ∀ w, vdot3 w a = vdot3 w b) : a = b := by
  rcases a with ⟨a0, a1, a2⟩
  rcases b with ⟨b0, b1, b2⟩
  have e0 := h ⟨1, 0, 0⟩
  have e1 := h ⟨0, 1, 0⟩
  have e2 := h ⟨0, 0, 1⟩
  simp only [vdot3, one_mul, zero_mul, add_zero, zero_add] at e0 e1 e2
  subst e0 e1 e2
  rfl

/-! ## five-term identities of the degenerate 4-simplex `(o', o, a, b, c)` for the second moments -/

omit [LinearOrder K] [IsStrictOrderedRing K] in
theorem five_cov_xx (r o o' a b c : V3 K) :
    vol4 o a b c * cov4 (o.x - r.x) (a.x - r.x) (b.x - r.x) (c.x - r.x) (o.x - r.x) (a.x - r.x) (b.x - r.x) (c.x - r.x)
    - vol4 o' a b c * cov4 (o'.x - r.x) (a.x - r.x) (b.x - r.x) (c.x - r.x) (o'.x - r.x) (a.x - r.x) (b.x - r.x) (c.x - r.x)
    + vol4 o' o b c * cov4 (o'.x - r.x) (o.x - r.x) (b.x - r.x) (c.x - r.x) (o'.x - r.x) (o.x - r.x) (b.x - r.x) (c.x - r.x)
    + vol4 o' o c a * cov4 (o'.x - r.x) (o.x - r.x) (c.x - r.x) (a.x - r.x) (o'.x - r.x) (o.x - r.x) (c.x - r.x) (a.x - r.x)
    + vol4 o' o a b * cov4 (o'.x - r.x) (o.x - r.x) (a.x - r.x) (b.x - r.x) (o'.x - r.x) (o.x - r.x) (a.x - r.x) (b.x - r.x) = 0 := by
  simp only [vol4, cov4]; ring

omit [LinearOrder K] [IsStrictOrderedRing K] in
theorem five_cov_yy (r o o' a b c : V3 K) :
    vol4 o a b c * cov4 (o.y - r.y) (a.y - r.y) (b.y - r.y) (c.y - r.y) (o.y - r.y) (a.y - r.y) (b.y - r.y) (c.y - r.y)
    - vol4 o' a b c * cov4 (o'.y - r.y) (a.y - r.y) (b.y - r.y) (c.y - r.y) (o'.y - r.y) (a.y - r.y) (b.y - r.y) (c.y - r.y)
    + vol4 o' o b c * cov4 (o'.y - r.y) (o.y - r.y) (b.y - r.y) (c.y - r.y) (o'.y - r.y) (o.y - r.y) (b.y - r.y) (c.y - r.y)
    + vol4 o' o c a * cov4 (o'.y - r.y) (o.y - r.y) (c.y - r.y) (a.y - r.y) (o'.y - r.y) (o.y - r.y) (c.y - r.y) (a.y - r.y)
    + vol4 o' o a b * cov4 (o'.y - r.y) (o.y - r.y) (a.y - r.y) (b.y - r.y) (o'.y - r.y) (o.y - r.y) (a.y - r.y) (b.y - r.y) = 0 := by
  simp only [vol4, cov4]; ring

omit [LinearOrder K] [IsStrictOrderedRing K] in
theorem five_cov_zz (r o o' a b c : V3 K) :
    vol4 o a b c * cov4 (o.z - r.z) (a.z - r.z) (b.z - r.z) (c.z - r.z) (o.z - r.z) (a.z - r.z) (b.z - r.z) (c.z - r.z)
    - vol4 o' a b c * cov4 (o'.z - r.z) (a.z - r.z) (b.z - r.z) (c.z - r.z) (o'.z - r.z) (a.z - r.z) (b.z - r.z) (c.z - r.z)
    + vol4 o' o b c * cov4 (o'.z - r.z) (o.z - r.z) (b.z - r.z) (c.z - r.z) (o'.z - r.z) (o.z - r.z) (b.z - r.z) (c.z - r.z)
    + vol4 o' o c a * cov4 (o'.z - r.z) (o.z - r.z) (c.z - r.z) (a.z - r.z) (o'.z - r.z) (o.z - r.z) (c.z - r.z) (a.z - r.z)
    + vol4 o' o a b * cov4 (o'.z - r.z) (o.z - r.z) (a.z - r.z) (b.z - r.z) (o'.z - r.z) (o.z - r.z) (a.z - r.z) (b.z - r.z) = 0 := by
  simp only [vol4, cov4]; ring

omit [LinearOrder K] [IsStrictOrderedRing K] in
theorem five_cov_xy (r o o' a b c : V3 K) :
    vol4 o a b c * cov4 (o.x - r.x) (a.x - r.x) (b.x - r.x) (c.x - r.x) (o.y - r.y) (a.y - r.y) (b.y - r.y) (c.y - r.y)
    - vol4 o' a b c * cov4 (o'.x - r.x) (a.x - r.x) (b.x - r.x) (c.x - r.x) (o'.y - r.y) (a.y - r.y) (b.y - r.y) (c.y - r.y)
    + vol4 o' o b c * cov4 (o'.x - r.x) (o.x - r.x) (b.x - r.x) (c.x - r.x) (o'.y - r.y) (o.y - r.y) (b.y - r.y) (c.y - r.y)
    + vol4 o' o c a * cov4 (o'.x - r.x) (o.x - r.x) (c.x - r.x) (a.x - r.x) (o'.y - r.y) (o.y - r.y) (c.y - r.y) (a.y - r.y)
    + vol4 o' o a b * cov4 (o'.x - r.x) (o.x - r.x) (a.x - r.x) (b.x - r.x) (o'.y - r.y) (o.y - r.y) (a.y - r.y) (b.y - r.y) = 0 := by
  simp only [vol4, cov4]; ring

omit [LinearOrder K] [IsStrictOrderedRing K] in
theorem five_cov_xz (r o o' a b c : V3 K) :
    vol4 o a b c * cov4 (o.x - r.x) (a.x - r.x) (b.x - r.x) (c.x - r.x) (o.z - r.z) (a.z - r.z) (b.z - r.z) (c.z - r.z)
    - vol4 o' a b c * cov4 (o'.x - r.x) (a.x - r.x) (b.x - r.x) (c.x - r.x) (o'.z - r.z) (a.z - r.z) (b.z - r.z) (c.z - r.z)
    + vol4 o' o b c * cov4 (o'.x - r.x) (o.x - r.x) (b.x - r.x) (c.x - r.x) (o'.z - r.z) (o.z - r.z) (b.z - r.z) (c.z - r.z)
    + vol4 o' o c a * cov4 (o'.x - r.x) (o.x - r.x) (c.x - r.x) (a.x - r.x) (o'.z - r.z) (o.z - r.z) (c.z - r.z) (a.z - r.z)
    + vol4 o' o a b * cov4 (o'.x - r.x) (o.x - r.x) (a.x - r.x) (b.x - r.x) (o'.z - r.z) (o.z - r.z) (a.z - r.z) (b.z - r.z) = 0 := by
  simp only [vol4, cov4]; ring

omit [LinearOrder K] [IsStrictOrderedRing K] in
theorem five_cov_yz (r o o' a b c : V3 K) :
    vol4 o a b c * cov4 (o.y - r.y) (a.y - r.y) (b.y - r.y) (c.y - r.y) (o.z - r.z) (a.z - r.z) (b.z - r.z) (c.z - r.z)
    - vol4 o' a b c * cov4 (o'.y - r.y) (a.y - r.y) (b.y - r.y) (c.y - r.y) (o'.z - r.z) (a.z - r.z) (b.z - r.z) (c.z - r.z)
    + vol4 o' o b c * cov4 (o'.y - r.y) (o.y - r.y) (b.y - r.y) (c.y - r.y) (o'.z - r.z) (o.z - r.z) (b.z - r.z) (c.z - r.z)
    + vol4 o' o c a * cov4 (o'.y - r.y) (o.y - r.y) (c.y - r.y) (a.y - r.y) (o'.z - r.z) (o.z - r.z) (c.z - r.z) (a.z - r.z)
    + vol4 o' o a b * cov4 (o'.y - r.y) (o.y - r.y) (a.y - r.y) (b.y - r.y) (o'.z - r.z) (o.z - r.z) (a.z - r.z) (b.z - r.z) = 0 := by
  simp only [vol4, cov4]; ring

omit [LinearOrder K] [IsStrictOrderedRing K] in
/-- five-term identity for every linear functional `w` of the signed inertia tensor about `r` -/
theorem five_inertia (w : M3 K) (r o o' a b c : V3 K) :
    mdot w (mscale (unitInertia4 r o a b c) (vol4 o a b c)) - mdot w (mscale (unitInertia4 r o' a b c) (vol4 o' a b c))
    + mdot w (mscale (unitInertia4 r o' o b c) (vol4 o' o b c)) + mdot w (mscale (unitInertia4 r o' o c a) (vol4 o' o c a))
    + mdot w (mscale (unitInertia4 r o' o a b) (vol4 o' o a b)) = 0 := by
  simp only [mdot, mscale, unitInertia4]
  linear_combination (w.r1.y + w.r2.z) * five_cov_xx r o o' a b c + (w.r0.x + w.r2.z) * five_cov_yy r o o' a b c
    + (w.r0.x + w.r1.y) * five_cov_zz r o o' a b c - (w.r0.y + w.r1.x) * five_cov_xy r o o' a b c
    - (w.r0.z + w.r2.x) * five_cov_xz r o o' a b c - (w.r1.z + w.r2.y) * five_cov_yz r o o' a b c

omit [LinearOrder K] [IsStrictOrderedRing K] in
theorem anti_inertia (w : M3 K) (r o o' p q : V3 K) :
    mdot w (mscale (unitInertia4 r o' o q p) (vol4 o' o q p)) = -mdot w (mscale (unitInertia4 r o' o p q) (vol4 o' o p q)) := by
  rw [unitInertia4_swap r o' o p q, vol4_swap o' o p q]
  simp only [mdot, mscale]; ring

end C13
