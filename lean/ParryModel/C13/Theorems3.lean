import ParryModel.C13.Lemmas4
/-!
# C13 theorems, part 3: `with_inertia_matrix` for EVERY orthonormal eigen-decomposition; full 3-D `+`; inverse tensors; `set_mass`

`MassProperties::with_inertia_matrix` diagonalises the tensor with nalgebra's `symmetric_eigen` (not modelled).  The model
(`Model4.lean`) takes the eigen-solver as a parameter and transliterates everything that follows it; the theorems here hold
for every solver whose answer `(d, V)` is an orthonormal eigen-decomposition of the input (`EigenDecomp`):
`M V = V diag(d)` with `V` the rotation matrix of a unit quaternion or its mirror image (columns 1, 2 swapped — the two
classes of orthogonal matrices; that every orthogonal matrix over a field with square roots has this form is classical and
NOT proved here).  Consequence: the oracle's recomposition check `R diag(I) Rᵀ = M` IS the clause for `with_inertia_matrix`.
-/
namespace C13
open Model Model.Mass

variable {K : Type} [Field K] [LinearOrder K] [IsStrictOrderedRing K] (sq : K → K)

/-- orthogonal eigenvector matrices: the rotation matrix of a unit quaternion (`det = 1`) or its mirror image (`det = −1`) -/
def OrthoFrame (V : M3 K) : Prop :=
  ∃ q : Quat K, UnitQ q ∧ (V = @Quat.toMat K (fieldNum K sq) q ∨ V = M3.swapCols12 (@Quat.toMat K (fieldNum K sq) q))

/-- `(d, V)` is an orthonormal eigen-decomposition of `M`: `M V = V diag(d)` -/
def EigenDecomp (M : M3 K) (d : V3 K) (V : M3 K) : Prop :=
  OrthoFrame sq V ∧ @M3.mul K (fieldNum K sq) M V = @M3.mul K (fieldNum K sq) V (@M3.diag K (fieldNum K sq) d)

private theorem m3_mul_one (A : M3 K) : @M3.mul K (fieldNum K sq) A mone = A := by
  rcases A with ⟨⟨a00, a01, a02⟩, ⟨a10, a11, a12⟩, ⟨a20, a21, a22⟩⟩
  simp only [M3.mul, mone]
  congr 1 <;> congr 1 <;> ring

private theorem mul_swap (A B : M3 K) :
    @M3.mul K (fieldNum K sq) A (M3.swapCols12 B) = M3.swapCols12 (@M3.mul K (fieldNum K sq) A B) := by
  rcases A with ⟨⟨a00, a01, a02⟩, ⟨a10, a11, a12⟩, ⟨a20, a21, a22⟩⟩
  rcases B with ⟨⟨b00, b01, b02⟩, ⟨b10, b11, b12⟩, ⟨b20, b21, b22⟩⟩
  simp only [M3.mul, M3.swapCols12]

private theorem swap_mul_diag (B : M3 K) (d : V3 K) :
    @M3.mul K (fieldNum K sq) (M3.swapCols12 B) (@M3.diag K (fieldNum K sq) d)
      = M3.swapCols12 (@M3.mul K (fieldNum K sq) B (@M3.diag K (fieldNum K sq) ⟨d.x, d.z, d.y⟩)) := by
  rcases B with ⟨⟨b00, b01, b02⟩, ⟨b10, b11, b12⟩, ⟨b20, b21, b22⟩⟩
  simp only [M3.mul, M3.swapCols12, M3.diag]
  congr 1 <;> congr 1 <;> ring

private theorem swap_swap (B : M3 K) : M3.swapCols12 (M3.swapCols12 B) = B := by
  rcases B with ⟨⟨b00, b01, b02⟩, ⟨b10, b11, b12⟩, ⟨b20, b21, b22⟩⟩
  rfl

private theorem det3_toMat (q : Quat K) (hq : UnitQ q) :
    @det3 K (fieldNum K sq) (@Quat.toMat K (fieldNum K sq) q) = 1 ∧
    @det3 K (fieldNum K sq) (M3.swapCols12 (@Quat.toMat K (fieldNum K sq) q)) = -1 := by
  rcases q with ⟨i, j, k, w⟩
  simp only [UnitQ] at hq
  simp only [det3, Quat.toMat, M3.swapCols12, fieldNum_two]
  constructor
  · linear_combination ((i * i + j * j + k * k + w * w) * (i * i + j * j + k * k + w * w) + (i * i + j * j + k * k + w * w) + 1) * hq
  · linear_combination (-((i * i + j * j + k * k + w * w) * (i * i + j * j + k * k + w * w) + (i * i + j * j + k * k + w * w) + 1)) * hq

/-- the tensor rebuilt from a rotation `T`, eigenvalues `d` with `M T = T diag(d)` is `M` -/
private theorem recompose_core (q : Quat K) (hq : UnitQ q) (M : M3 K) (d : V3 K)
    (h : @M3.mul K (fieldNum K sq) M (@Quat.toMat K (fieldNum K sq) q)
        = @M3.mul K (fieldNum K sq) (@Quat.toMat K (fieldNum K sq) q) (@M3.diag K (fieldNum K sq) d)) :
    @M3.mul K (fieldNum K sq) (@M3.mul K (fieldNum K sq) (@Quat.toMat K (fieldNum K sq) q) (@M3.diag K (fieldNum K sq) d))
      (@Quat.toMat K (fieldNum K sq) (@Quat.inverse K (fieldNum K sq) q)) = M := by
  rw [← h, toMat_inverse, m3_mul_assoc, toMat_mul_transpose sq q hq, m3_mul_one]

private theorem reconstruct_withFrame (hs : LawfulSqrt sq) (c : V3 K) (m : K) (pi : V3 K) (f : Quat K)
    (hx : 0 ≤ pi.x) (hy : 0 ≤ pi.y) (hz : 0 ≤ pi.z) :
    @MP3.reconstruct K (fieldNum K sq) (@MP3.withFrame K (fieldNum K sq) c m pi f)
      = @M3.mul K (fieldNum K sq) (@M3.mul K (fieldNum K sq) (@Quat.toMat K (fieldNum K sq) f) (@M3.diag K (fieldNum K sq) pi))
          (@Quat.toMat K (fieldNum K sq) (@Quat.inverse K (fieldNum K sq) f)) := by
  have h := (withFrame_obs sq hs c m pi f hx hy hz).2.1
  have hf := (withFrame_obs sq hs c m pi f hx hy hz).2.2.2
  simp only [inertiaOf3] at h
  simp only [MP3.reconstruct, MP3.principalInertia, inv_spec, h, hf]

/-- the frame computed by `with_inertia_matrix` from the rotation matrix of a unit quaternion `q` is `±q` -/
private theorem frame_of_toMat (hs : LawfulSqrt sq) (q : Quat K) (hq : UnitQ q) :
    let f := @Quat.renormalize K (fieldNum K sq) (@Quat.fromRotMat K (fieldNum K sq) (@Quat.toMat K (fieldNum K sq) q))
    UnitQ f ∧ @Quat.toMat K (fieldNum K sq) f = @Quat.toMat K (fieldNum K sq) q ∧
    @Quat.toMat K (fieldNum K sq) (@Quat.inverse K (fieldNum K sq) f) = @Quat.toMat K (fieldNum K sq) (@Quat.inverse K (fieldNum K sq) q) := by
  intro f
  rcases fromRotMat_toMat sq hs q hq with h | h
  · have e : f = q := by simp only [f, h]; exact renormalize_unit sq hs q hq
    rw [e]; exact ⟨hq, rfl, rfl⟩
  · have e : f = qneg q := by simp only [f, h]; exact renormalize_unit sq hs _ (unitQ_qneg q hq)
    rw [e]
    refine ⟨unitQ_qneg q hq, toMat_qneg sq q, ?_⟩
    rw [toMat_inverse, toMat_inverse, toMat_qneg]

/-- **`with_inertia_matrix` recomposes the input tensor, for ANY orthonormal eigen-decomposition.**  Whatever orthonormal
eigen-decomposition `(d, V)` of `M` (`M V = V diag(d)`, `d ≥ 0`) the solver returns — any order of the eigenvalues, either
handedness of `V`, any choice inside a degenerate eigenspace — the result has mass `mass`, centre `com`, a UNIT frame
quaternion, principal inertias `d` (columns 1,2 exchanged when `V` was a mirror image) and
`reconstruct_inertia_matrix() = M` exactly.  Covers the determinant repair, all four branches of
`from_rotation_matrix`, `renormalize`, the clamp and `with_principal_inertia_frame`. -/
theorem with_inertia_matrix_recompose (hs : LawfulSqrt sq) (com : V3 K) (mass : K) (M : M3 K) (d : V3 K) (V : M3 K)
    (hE : EigenDecomp sq M d V) (hx : 0 ≤ d.x) (hy : 0 ≤ d.y) (hz : 0 ≤ d.z) :
    letI := fieldNum K sq
    let p := MP3.withInertiaEigen com mass d V
    p.reconstruct = M ∧ massOf3 p = mass ∧ p.com = com ∧ UnitQ p.frame ∧
    (inertiaOf3 p = d ∨ inertiaOf3 p = ⟨d.x, d.z, d.y⟩) := by
  obtain ⟨⟨q, hq, hV⟩, hM⟩ := hE
  obtain ⟨hd1, hd2⟩ := det3_toMat sq q hq
  obtain ⟨hu, ht, hti⟩ := frame_of_toMat sq hs q hq
  have mx : ∀ a : K, 0 ≤ a → @nmax K (fieldNum K sq) a 0 = a := fun a ha => by
    rw [fieldNum_nmax]; exact max_eq_left ha
  rcases hV with rfl | rfl
  · -- proper rotation: no repair
    have hsw : ¬ (@det3 K (fieldNum K sq) (@Quat.toMat K (fieldNum K sq) q) < 0) := by rw [hd1]; norm_num
    simp only [MP3.withInertiaEigen, hsw, decide_false, Bool.false_eq_true, if_false, mx _ hx, mx _ hy, mx _ hz]
    obtain ⟨w1, w2, w3, w4⟩ := withFrame_obs sq hs com mass d
      (@Quat.renormalize K (fieldNum K sq) (@Quat.fromRotMat K (fieldNum K sq) (@Quat.toMat K (fieldNum K sq) q))) hx hy hz
    refine ⟨?_, w1, w3, by rw [w4]; exact hu, Or.inl w2⟩
    rw [reconstruct_withFrame sq hs com mass d _ hx hy hz, ht, hti]
    exact recompose_core sq q hq M d hM
  · -- mirror image: columns and eigenvalues 1,2 are exchanged first
    have hsw : @det3 K (fieldNum K sq) (M3.swapCols12 (@Quat.toMat K (fieldNum K sq) q)) < 0 := by rw [hd2]; norm_num
    simp only [MP3.withInertiaEigen, hsw, decide_true, if_true, swap_swap, mx _ hx, mx _ hy, mx _ hz]
    obtain ⟨w1, w2, w3, w4⟩ := withFrame_obs sq hs com mass (⟨d.x, d.z, d.y⟩ : V3 K)
      (@Quat.renormalize K (fieldNum K sq) (@Quat.fromRotMat K (fieldNum K sq) (@Quat.toMat K (fieldNum K sq) q))) hx hz hy
    refine ⟨?_, w1, w3, by rw [w4]; exact hu, Or.inr w2⟩
    rw [reconstruct_withFrame sq hs com mass (⟨d.x, d.z, d.y⟩ : V3 K) _ hx hz hy, ht, hti]
    apply recompose_core sq q hq M ⟨d.x, d.z, d.y⟩
    rw [mul_swap, swap_mul_diag] at hM
    have := congrArg M3.swapCols12 hM
    rwa [swap_swap, swap_swap] at this

/-- hypotheses of `with_inertia_matrix_recompose` are satisfiable by a non-trivial decomposition: the tensor
`diag(2, 3, 5)` conjugated by the quarter turn about `z` … given here with the MIRROR-IMAGE eigenvector matrix of the
identity (`V = swap(1)`, eigenvalues listed as `(2, 5, 3)`), which exercises the determinant repair. -/
example : EigenDecomp (fun x : ℚ => x) (⟨⟨2, 0, 0⟩, ⟨0, 3, 0⟩, ⟨0, 0, 5⟩⟩ : M3 ℚ) ⟨2, 5, 3⟩ ⟨⟨1, 0, 0⟩, ⟨0, 0, 1⟩, ⟨0, 1, 0⟩⟩ := by
  refine ⟨⟨⟨0, 0, 0, 1⟩, by norm_num [UnitQ], Or.inr ?_⟩, ?_⟩
  · simp only [Quat.toMat, M3.swapCols12, fieldNum_two]; norm_num
  · simp only [M3.mul, M3.diag]; norm_num

/-- **negative eigenvalues are dropped**: `with_inertia_matrix` gives the same result as for the eigenvalues clamped at `0`
(so `with_inertia_matrix_recompose` applies to `(max d 0, V)`: the tensor rebuilt is `V max(d,0) Vᵀ`, the positive part). -/
theorem with_inertia_matrix_clamp (com : V3 K) (mass : K) (d : V3 K) (V : M3 K) :
    letI := fieldNum K sq
    MP3.withInertiaEigen com mass d V = MP3.withInertiaEigen com mass ⟨max d.x 0, max d.y 0, max d.z 0⟩ V := by
  simp only [MP3.withInertiaEigen, fieldNum_nmax]
  by_cases h : @det3 K (fieldNum K sq) V < 0
  · simp only [h, decide_true, if_true, max_assoc, max_self]
  · simp only [h, decide_false, Bool.false_eq_true, if_false, max_assoc, max_self]

/-- **`set_mass`** (dim3): the new mass is `new_mass` (`0 ⇒ inv_mass = 0`), centre and frame are kept; without
`adjust_angular_inertia` the inertia is untouched; with it, for positive old and new masses, every principal inertia is
multiplied by `new_mass / old_mass`; if the old or the new mass is `0` no ratio exists and the code's convention is
`inv_principal_inertia_sqrt = 0` (`principal_inertia() = 0`). -/
theorem set_mass_spec (hs : LawfulSqrt sq) (p : MP3 K) (m : K) (hm : 0 ≤ m) (hp : 0 ≤ p.invMass) :
    letI := fieldNum K sq
    (∀ adj, massOf3 (p.setMass m adj) = m ∧ (p.setMass m adj).com = p.com ∧ (p.setMass m adj).frame = p.frame ∧
            (m = 0 → (p.setMass m adj).invMass = 0)) ∧
    (p.setMass m false).invI = p.invI ∧
    inertiaOf3 (p.setMass m true) =
      ⟨(inertiaOf3 p).x * (m * p.invMass), (inertiaOf3 p).y * (m * p.invMass), (inertiaOf3 p).z * (m * p.invMass)⟩ ∧
    ((m = 0 ∨ p.invMass = 0) → (p.setMass m true).invI = ⟨0, 0, 0⟩) := by
  have hss : sq m⁻¹ * sq p.invMass⁻¹ * (sq m⁻¹ * sq p.invMass⁻¹) = m⁻¹ * p.invMass⁻¹ := by
    have h1 := hs.sq_mul m⁻¹ (inv_nonneg.2 hm)
    have h2 := hs.sq_mul p.invMass⁻¹ (inv_nonneg.2 hp)
    linear_combination (sq p.invMass⁻¹ * sq p.invMass⁻¹) * h1 + m⁻¹ * h2
  have key : ∀ x : K, (x * (sq m⁻¹ * sq p.invMass⁻¹) * (x * (sq m⁻¹ * sq p.invMass⁻¹)))⁻¹ = (x * x)⁻¹ * (m * p.invMass) := by
    intro x
    rw [show x * (sq m⁻¹ * sq p.invMass⁻¹) * (x * (sq m⁻¹ * sq p.invMass⁻¹))
          = (x * x) * (sq m⁻¹ * sq p.invMass⁻¹ * (sq m⁻¹ * sq p.invMass⁻¹)) by ring, hss, mul_inv (x * x), mul_inv m⁻¹, inv_inv, inv_inv]
  refine ⟨fun adj => ⟨?_, rfl, rfl, ?_⟩, rfl, ?_, ?_⟩
  · simp only [MP3.setMass, massOf3, inv_spec, inv_inv]
  · intro h0; simp only [MP3.setMass, inv_spec, h0, inv_zero]
  · simp only [MP3.setMass, inertiaOf3, inv_spec, fieldNum_sqrt, if_true, V3.smul, key]
  · intro h0
    have z : sq m⁻¹ * sq p.invMass⁻¹ = 0 := by
      rcases h0 with h0 | h0
      · rw [h0, inv_zero, sqrt_zero sq hs, zero_mul]
      · rw [h0, inv_zero, sqrt_zero sq hs, mul_zero]
    simp only [MP3.setMass, inv_spec, fieldNum_sqrt, if_true, V3.smul, z, mul_zero]

/-- `set_mass` (dim2): same statement for the scalar inertia -/
theorem set_mass2_spec (hs : LawfulSqrt sq) (p : MP2 K) (m : K) (hm : 0 ≤ m) (hp : 0 ≤ p.invMass) :
    letI := fieldNum K sq
    (∀ adj, massOf (p.setMass m adj) = m ∧ (p.setMass m adj).com = p.com ∧ (m = 0 → (p.setMass m adj).invMass = 0)) ∧
    (p.setMass m false).invI = p.invI ∧
    inertiaOf (p.setMass m true) = inertiaOf p * (m * p.invMass) ∧
    ((m = 0 ∨ p.invMass = 0) → (p.setMass m true).invI = 0) := by
  have hss : sq m⁻¹ * sq p.invMass⁻¹ * (sq m⁻¹ * sq p.invMass⁻¹) = m⁻¹ * p.invMass⁻¹ := by
    have h1 := hs.sq_mul m⁻¹ (inv_nonneg.2 hm)
    have h2 := hs.sq_mul p.invMass⁻¹ (inv_nonneg.2 hp)
    linear_combination (sq p.invMass⁻¹ * sq p.invMass⁻¹) * h1 + m⁻¹ * h2
  refine ⟨fun adj => ⟨?_, rfl, ?_⟩, rfl, ?_, ?_⟩
  · simp only [MP2.setMass, massOf, inv_spec, inv_inv]
  · intro h0; simp only [MP2.setMass, inv_spec, h0, inv_zero]
  · simp only [MP2.setMass, inertiaOf, inv_spec, fieldNum_sqrt, if_true]
    rw [show p.invI * (sq m⁻¹ * sq p.invMass⁻¹) * (p.invI * (sq m⁻¹ * sq p.invMass⁻¹))
          = (p.invI * p.invI) * (sq m⁻¹ * sq p.invMass⁻¹ * (sq m⁻¹ * sq p.invMass⁻¹)) by ring, hss, mul_inv (p.invI * p.invI), mul_inv m⁻¹, inv_inv, inv_inv]
  · intro h0
    have z : sq m⁻¹ * sq p.invMass⁻¹ = 0 := by
      rcases h0 with h0 | h0
      · rw [h0, inv_zero, sqrt_zero sq hs, zero_mul]
      · rw [h0, inv_zero, sqrt_zero sq hs, mul_zero]
    simp only [MP2.setMass, inv_spec, fieldNum_sqrt, if_true, z, mul_zero]

/-- non-vacuity / concrete instance of `set_mass2_spec` over `ℚ`-like data is immediate (`m = 2`, old mass `1/2`): the
hypotheses are sign conditions only. -/
example : (0 : ℚ) ≤ 2 ∧ (0 : ℚ) ≤ (2 : ℚ) := ⟨by norm_num, by norm_num⟩

end C13
