import ParryModel.C13.Lemmas4
import ParryModel.C13.Lemmas5
/-!
# C13 theorems, part 3: `with_inertia_matrix` for EVERY orthonormal eigen-decomposition; full 3-D `+`; inverse tensors; `set_mass`

`MassProperties::with_inertia_matrix` diagonalises the tensor with nalgebra's `symmetric_eigen` (not modelled).  The model
(`Model4.lean`) takes the eigen-solver as a parameter and transliterates everything that follows it; the theorems here hold
for every solver whose answer `(d, V)` is an orthonormal eigen-decomposition of the input (`EigenDecomp`):
`M V = V diag(d)` with `V` the rotation matrix of a unit quaternion or its mirror image (columns 1, 2 swapped — the two
classes of orthogonal matrices: `orthogonal_is_orthoFrame` + `orthonormal_columns_isOrthogonal` prove that every matrix with
orthonormal columns has this form, so `with_inertia_matrix_recompose_orthogonal` has the natural hypothesis `Vᵀ V = 1`).  Consequence: the oracle's recomposition check `R diag(I) Rᵀ = M` IS the clause for `with_inertia_matrix`.
-/
namespace C13
open Model Model.Mass

variable {K : Type} [Field K] [LinearOrder K] [IsStrictOrderedRing K] (sq : K → K)

/-- orthogonal eigenvector matrices: the rotation matrix of a unit quaternion (`det = 1`) or its mirror image (`det = −1`) -/
def OrthoFrame (V : M3 K) : Prop :=
  ∃ q : Quat K, UnitQ q ∧ (V = @Quat.toMat K (fieldNum K sq) q ∨ V = M3.swapCols12 (@Quat.toMat K (fieldNum K sq) q))

/-- `(d, V)` is an orthonormal eigen-decomposition of `M`: `M V = V diag(d)` -/
def EigenDecomp (M : M3 K) (d : V3 K) (V : M3 K) : Prop :=
  OrthoFrame sq V ∧ @M3.mul K (fieldNum K sq) M V = @M3.mul K (fieldNum K sq) V (@M3.diag K (fieldNum K sq) d)

private theorem m3_mul_one (A : M3 K) : @M3.mul K (fieldNum K sq) A mone = A := by
  rcases A with ⟨⟨a00, a01, a02⟩, ⟨a10, a11, a12⟩, ⟨a20, a21, a22⟩⟩
  simp only [M3.mul, mone]
  congr 1 <;> congr 1 <;> ring

private theorem mul_swap (A B : M3 K) :
    @M3.mul K (fieldNum K sq) A (M3.swapCols12 B) = M3.swapCols12 (@M3.mul K (fieldNum K sq) A B) := by
  rcases A with ⟨⟨a00, a01, a02⟩, ⟨a10, a11, a12⟩, ⟨a20, a21, a22⟩⟩
  rcases B with ⟨⟨b00, b01, b02⟩, ⟨b10, b11, b12⟩, ⟨b20, b21, b22⟩⟩
  simp only [M3.mul, M3.swapCols12]

private theorem swap_mul_diag (B : M3 K) (d : V3 K) :
    @M3.mul K (fieldNum K sq) (M3.swapCols12 B) (@M3.diag K (fieldNum K sq) d)
      = M3.swapCols12 (@M3.mul K (fieldNum K sq) B (@M3.diag K (fieldNum K sq) ⟨d.x, d.z, d.y⟩)) := by
  rcases B with ⟨⟨b00, b01, b02⟩, ⟨b10, b11, b12⟩, ⟨b20, b21, b22⟩⟩
  simp only [M3.mul, M3.swapCols12, M3.diag]
  congr 1 <;> congr 1 <;> ring

private theorem swap_swap (B : M3 K) : M3.swapCols12 (M3.swapCols12 B) = B := by
  rcases B with ⟨⟨b00, b01, b02⟩, ⟨b10, b11, b12⟩, ⟨b20, b21, b22⟩⟩
  rfl

private theorem det3_toMat (q : Quat K) (hq : UnitQ q) :
    @det3 K (fieldNum K sq) (@Quat.toMat K (fieldNum K sq) q) = 1 ∧
    @det3 K (fieldNum K sq) (M3.swapCols12 (@Quat.toMat K (fieldNum K sq) q)) = -1 := by
  rcases q with ⟨i, j, k, w⟩
  simp only [UnitQ] at hq
  simp only [det3, Quat.toMat, M3.swapCols12, fieldNum_two]
  constructor
  · linear_combination ((i * i + j * j + k * k + w * w) * (i * i + j * j + k * k + w * w) + (i * i + j * j + k * k + w * w) + 1) * hq
  · linear_combination (-((i * i + j * j + k * k + w * w) * (i * i + j * j + k * k + w * w) + (i * i + j * j + k * k + w * w) + 1)) * hq

/-- the tensor rebuilt from a rotation `T`, eigenvalues `d` with `M T = T diag(d)` is `M` -/
private theorem recompose_core (q : Quat K) (hq : UnitQ q) (M : M3 K) (d : V3 K)
    (h : @M3.mul K (fieldNum K sq) M (@Quat.toMat K (fieldNum K sq) q)
        = @M3.mul K (fieldNum K sq) (@Quat.toMat K (fieldNum K sq) q) (@M3.diag K (fieldNum K sq) d)) :
    @M3.mul K (fieldNum K sq) (@M3.mul K (fieldNum K sq) (@Quat.toMat K (fieldNum K sq) q) (@M3.diag K (fieldNum K sq) d))
      (@Quat.toMat K (fieldNum K sq) (@Quat.inverse K (fieldNum K sq) q)) = M := by
  rw [← h, toMat_inverse, m3_mul_assoc, toMat_mul_transpose sq q hq, m3_mul_one]

private theorem reconstruct_withFrame (hs : LawfulSqrt sq) (c : V3 K) (m : K) (pi : V3 K) (f : Quat K)
    (hx : 0 ≤ pi.x) (hy : 0 ≤ pi.y) (hz : 0 ≤ pi.z) :
    @MP3.reconstruct K (fieldNum K sq) (@MP3.withFrame K (fieldNum K sq) c m pi f)
      = @M3.mul K (fieldNum K sq) (@M3.mul K (fieldNum K sq) (@Quat.toMat K (fieldNum K sq) f) (@M3.diag K (fieldNum K sq) pi))
          (@Quat.toMat K (fieldNum K sq) (@Quat.inverse K (fieldNum K sq) f)) := by
  have h := (withFrame_obs sq hs c m pi f hx hy hz).2.1
  have hf := (withFrame_obs sq hs c m pi f hx hy hz).2.2.2
  simp only [inertiaOf3] at h
  simp only [MP3.reconstruct, MP3.principalInertia, inv_spec, h, hf]

/-- the frame computed by `with_inertia_matrix` from the rotation matrix of a unit quaternion `q` is `±q` -/
private theorem frame_of_toMat (hs : LawfulSqrt sq) (q : Quat K) (hq : UnitQ q) :
    let f := @Quat.renormalize K (fieldNum K sq) (@Quat.fromRotMat K (fieldNum K sq) (@Quat.toMat K (fieldNum K sq) q))
    UnitQ f ∧ @Quat.toMat K (fieldNum K sq) f = @Quat.toMat K (fieldNum K sq) q ∧
    @Quat.toMat K (fieldNum K sq) (@Quat.inverse K (fieldNum K sq) f) = @Quat.toMat K (fieldNum K sq) (@Quat.inverse K (fieldNum K sq) q) := by
  intro f
  rcases fromRotMat_toMat sq hs q hq with h | h
  · have e : f = q := by simp only [f, h]; exact renormalize_unit sq hs q hq
    rw [e]; exact ⟨hq, rfl, rfl⟩
  · have e : f = qneg q := by simp only [f, h]; exact renormalize_unit sq hs _ (unitQ_qneg q hq)
    rw [e]
    refine ⟨unitQ_qneg q hq, toMat_qneg sq q, ?_⟩
    rw [toMat_inverse, toMat_inverse, toMat_qneg]

/-- **`with_inertia_matrix` recomposes the input tensor, for ANY orthonormal eigen-decomposition.**  Whatever orthonormal
eigen-decomposition `(d, V)` of `M` (`M V = V diag(d)`, `d ≥ 0`) the solver returns — any order of the eigenvalues, either
handedness of `V`, any choice inside a degenerate eigenspace — the result has mass `mass`, centre `com`, a UNIT frame
quaternion, principal inertias `d` (columns 1,2 exchanged when `V` was a mirror image) and
`reconstruct_inertia_matrix() = M` exactly.  Covers the determinant repair, all four branches of
`from_rotation_matrix`, `renormalize`, the clamp and `with_principal_inertia_frame`. -/
theorem with_inertia_matrix_recompose (hs : LawfulSqrt sq) (com : V3 K) (mass : K) (M : M3 K) (d : V3 K) (V : M3 K)
    (hE : EigenDecomp sq M d V) (hx : 0 ≤ d.x) (hy : 0 ≤ d.y) (hz : 0 ≤ d.z) :
    letI := fieldNum K sq
    let p := MP3.withInertiaEigen com mass d V
    p.reconstruct = M ∧ massOf3 p = mass ∧ p.com = com ∧ UnitQ p.frame ∧
    (inertiaOf3 p = d ∨ inertiaOf3 p = ⟨d.x, d.z, d.y⟩) := by
  obtain ⟨⟨q, hq, hV⟩, hM⟩ := hE
  obtain ⟨hd1, hd2⟩ := det3_toMat sq q hq
  obtain ⟨hu, ht, hti⟩ := frame_of_toMat sq hs q hq
  have mx : ∀ a : K, 0 ≤ a → @nmax K (fieldNum K sq) a 0 = a := fun a ha => by
    rw [fieldNum_nmax]; exact max_eq_left ha
  rcases hV with rfl | rfl
  · -- proper rotation: no repair
    have hsw : ¬ (@det3 K (fieldNum K sq) (@Quat.toMat K (fieldNum K sq) q) < 0) := by rw [hd1]; norm_num
    simp only [MP3.withInertiaEigen, hsw, decide_false, Bool.false_eq_true, if_false, mx _ hx, mx _ hy, mx _ hz]
    obtain ⟨w1, w2, w3, w4⟩ := withFrame_obs sq hs com mass d
      (@Quat.renormalize K (fieldNum K sq) (@Quat.fromRotMat K (fieldNum K sq) (@Quat.toMat K (fieldNum K sq) q))) hx hy hz
    refine ⟨?_, w1, w3, by rw [w4]; exact hu, Or.inl w2⟩
    rw [reconstruct_withFrame sq hs com mass d _ hx hy hz, ht, hti]
    exact recompose_core sq q hq M d hM
  · -- mirror image: columns and eigenvalues 1,2 are exchanged first
    have hsw : @det3 K (fieldNum K sq) (M3.swapCols12 (@Quat.toMat K (fieldNum K sq) q)) < 0 := by rw [hd2]; norm_num
    simp only [MP3.withInertiaEigen, hsw, decide_true, if_true, swap_swap, mx _ hx, mx _ hy, mx _ hz]
    obtain ⟨w1, w2, w3, w4⟩ := withFrame_obs sq hs com mass (⟨d.x, d.z, d.y⟩ : V3 K)
      (@Quat.renormalize K (fieldNum K sq) (@Quat.fromRotMat K (fieldNum K sq) (@Quat.toMat K (fieldNum K sq) q))) hx hz hy
    refine ⟨?_, w1, w3, by rw [w4]; exact hu, Or.inr w2⟩
    rw [reconstruct_withFrame sq hs com mass (⟨d.x, d.z, d.y⟩ : V3 K) _ hx hz hy, ht, hti]
    apply recompose_core sq q hq M ⟨d.x, d.z, d.y⟩
    rw [mul_swap, swap_mul_diag] at hM
    have := congrArg M3.swapCols12 hM
    rwa [swap_swap, swap_swap] at this

/-- hypotheses of `with_inertia_matrix_recompose` are satisfiable by a non-trivial decomposition: the tensor
`diag(2, 3, 5)` conjugated by the quarter turn about `z` … given here with the MIRROR-IMAGE eigenvector matrix of the
identity (`V = swap(1)`, eigenvalues listed as `(2, 5, 3)`), which exercises the determinant repair. -/
example : EigenDecomp (fun x : ℚ => x) (⟨⟨2, 0, 0⟩, ⟨0, 3, 0⟩, ⟨0, 0, 5⟩⟩ : M3 ℚ) ⟨2, 5, 3⟩ ⟨⟨1, 0, 0⟩, ⟨0, 0, 1⟩, ⟨0, 1, 0⟩⟩ := by
  refine ⟨⟨⟨0, 0, 0, 1⟩, by norm_num [UnitQ], Or.inr ?_⟩, ?_⟩
  · simp only [Quat.toMat, M3.swapCols12, fieldNum_two]; norm_num
  · simp only [M3.mul, M3.diag]; norm_num

/-- **negative eigenvalues are dropped**: `with_inertia_matrix` gives the same result as for the eigenvalues clamped at `0`
(so `with_inertia_matrix_recompose` applies to `(max d 0, V)`: the tensor rebuilt is `V max(d,0) Vᵀ`, the positive part). -/
theorem with_inertia_matrix_clamp (com : V3 K) (mass : K) (d : V3 K) (V : M3 K) :
    letI := fieldNum K sq
    MP3.withInertiaEigen com mass d V = MP3.withInertiaEigen com mass ⟨max d.x 0, max d.y 0, max d.z 0⟩ V := by
  simp only [MP3.withInertiaEigen, fieldNum_nmax]
  by_cases h : @det3 K (fieldNum K sq) V < 0
  · simp only [h, decide_true, if_true, max_assoc, max_self]
  · simp only [h, decide_false, Bool.false_eq_true, if_false, max_assoc, max_self]

/-- **`set_mass`** (dim3): the new mass is `new_mass` (`0 ⇒ inv_mass = 0`), centre and frame are kept; without
`adjust_angular_inertia` the inertia is untouched; with it, for positive old and new masses, every principal inertia is
multiplied by `new_mass / old_mass`; if the old or the new mass is `0` no ratio exists and the code's convention is
`inv_principal_inertia_sqrt = 0` (`principal_inertia() = 0`). -/
theorem set_mass_spec (hs : LawfulSqrt sq) (p : MP3 K) (m : K) (hm : 0 ≤ m) (hp : 0 ≤ p.invMass) :
    letI := fieldNum K sq
    (∀ adj, massOf3 (p.setMass m adj) = m ∧ (p.setMass m adj).com = p.com ∧ (p.setMass m adj).frame = p.frame ∧
            (m = 0 → (p.setMass m adj).invMass = 0)) ∧
    (p.setMass m false).invI = p.invI ∧
    inertiaOf3 (p.setMass m true) =
      ⟨(inertiaOf3 p).x * (m * p.invMass), (inertiaOf3 p).y * (m * p.invMass), (inertiaOf3 p).z * (m * p.invMass)⟩ ∧
    ((m = 0 ∨ p.invMass = 0) → (p.setMass m true).invI = ⟨0, 0, 0⟩) := by
  have hss : sq m⁻¹ * sq p.invMass⁻¹ * (sq m⁻¹ * sq p.invMass⁻¹) = m⁻¹ * p.invMass⁻¹ := by
    have h1 := hs.sq_mul m⁻¹ (inv_nonneg.2 hm)
    have h2 := hs.sq_mul p.invMass⁻¹ (inv_nonneg.2 hp)
    linear_combination (sq p.invMass⁻¹ * sq p.invMass⁻¹) * h1 + m⁻¹ * h2
  have key : ∀ x : K, (x * (sq m⁻¹ * sq p.invMass⁻¹) * (x * (sq m⁻¹ * sq p.invMass⁻¹)))⁻¹ = (x * x)⁻¹ * (m * p.invMass) := by
    intro x
    rw [show x * (sq m⁻¹ * sq p.invMass⁻¹) * (x * (sq m⁻¹ * sq p.invMass⁻¹))
          = (x * x) * (sq m⁻¹ * sq p.invMass⁻¹ * (sq m⁻¹ * sq p.invMass⁻¹)) by ring, hss, mul_inv (x * x), mul_inv m⁻¹, inv_inv, inv_inv]
  refine ⟨fun adj => ⟨?_, rfl, rfl, ?_⟩, rfl, ?_, ?_⟩
  · simp only [MP3.setMass, massOf3, inv_spec, inv_inv]
  · intro h0; simp only [MP3.setMass, inv_spec, h0, inv_zero]
  · simp only [MP3.setMass, inertiaOf3, inv_spec, fieldNum_sqrt, if_true, V3.smul, key]
  · intro h0
    have z : sq m⁻¹ * sq p.invMass⁻¹ = 0 := by
      rcases h0 with h0 | h0
      · rw [h0, inv_zero, sqrt_zero sq hs, zero_mul]
      · rw [h0, inv_zero, sqrt_zero sq hs, mul_zero]
    simp only [MP3.setMass, inv_spec, fieldNum_sqrt, if_true, V3.smul, z, mul_zero]

/-- `set_mass` (dim2): same statement for the scalar inertia -/
theorem set_mass2_spec (hs : LawfulSqrt sq) (p : MP2 K) (m : K) (hm : 0 ≤ m) (hp : 0 ≤ p.invMass) :
    letI := fieldNum K sq
    (∀ adj, massOf (p.setMass m adj) = m ∧ (p.setMass m adj).com = p.com ∧ (m = 0 → (p.setMass m adj).invMass = 0)) ∧
    (p.setMass m false).invI = p.invI ∧
    inertiaOf (p.setMass m true) = inertiaOf p * (m * p.invMass) ∧
    ((m = 0 ∨ p.invMass = 0) → (p.setMass m true).invI = 0) := by
  have hss : sq m⁻¹ * sq p.invMass⁻¹ * (sq m⁻¹ * sq p.invMass⁻¹) = m⁻¹ * p.invMass⁻¹ := by
    have h1 := hs.sq_mul m⁻¹ (inv_nonneg.2 hm)
    have h2 := hs.sq_mul p.invMass⁻¹ (inv_nonneg.2 hp)
    linear_combination (sq p.invMass⁻¹ * sq p.invMass⁻¹) * h1 + m⁻¹ * h2
  refine ⟨fun adj => ⟨?_, rfl, ?_⟩, rfl, ?_, ?_⟩
  · simp only [MP2.setMass, massOf, inv_spec, inv_inv]
  · intro h0; simp only [MP2.setMass, inv_spec, h0, inv_zero]
  · simp only [MP2.setMass, inertiaOf, inv_spec, fieldNum_sqrt, if_true]
    rw [show p.invI * (sq m⁻¹ * sq p.invMass⁻¹) * (p.invI * (sq m⁻¹ * sq p.invMass⁻¹))
          = (p.invI * p.invI) * (sq m⁻¹ * sq p.invMass⁻¹ * (sq m⁻¹ * sq p.invMass⁻¹)) by ring, hss, mul_inv (p.invI * p.invI), mul_inv m⁻¹, inv_inv, inv_inv]
  · intro h0
    have z : sq m⁻¹ * sq p.invMass⁻¹ = 0 := by
      rcases h0 with h0 | h0
      · rw [h0, inv_zero, sqrt_zero sq hs, zero_mul]
      · rw [h0, inv_zero, sqrt_zero sq hs, mul_zero]
    simp only [MP2.setMass, inv_spec, fieldNum_sqrt, if_true, z, mul_zero]

/-- **`reconstruct_inverse_inertia_matrix` is the inverse of `reconstruct_inertia_matrix`** (unit frame, all principal
inertias finite and non-zero): both products are the identity. -/
theorem reconstruct_inverse_spec (p : MP3 K) (hu : UnitQ p.frame) (hx : p.invI.x ≠ 0) (hy : p.invI.y ≠ 0) (hz : p.invI.z ≠ 0) :
    letI := fieldNum K sq
    p.reconstructInv.mul p.reconstruct = mone ∧ p.reconstruct.mul p.reconstructInv = mone := by
  simp only [MP3.reconstructInv, MP3.reconstruct, MP3.principalInertia, inv_spec, toMat_inverse]
  have h1 := conj_diag_mul sq p.frame hu ⟨p.invI.x * p.invI.x, p.invI.y * p.invI.y, p.invI.z * p.invI.z⟩
    ⟨(p.invI.x * p.invI.x)⁻¹, (p.invI.y * p.invI.y)⁻¹, (p.invI.z * p.invI.z)⁻¹⟩
  have h2 := conj_diag_mul sq p.frame hu ⟨(p.invI.x * p.invI.x)⁻¹, (p.invI.y * p.invI.y)⁻¹, (p.invI.z * p.invI.z)⁻¹⟩
    ⟨p.invI.x * p.invI.x, p.invI.y * p.invI.y, p.invI.z * p.invI.z⟩
  dsimp only at h1 h2
  have e1 : ∀ x : K, x ≠ 0 → x * x * (x * x)⁻¹ = 1 := fun x hx => mul_inv_cancel₀ (mul_ne_zero hx hx)
  have e2 : ∀ x : K, x ≠ 0 → (x * x)⁻¹ * (x * x) = 1 := fun x hx => inv_mul_cancel₀ (mul_ne_zero hx hx)
  rw [h1, h2, e1 _ hx, e1 _ hy, e1 _ hz, e2 _ hx, e2 _ hy, e2 _ hz]
  have hd : @M3.diag K (fieldNum K sq) ⟨1, 1, 1⟩ = mone := rfl
  rw [hd, m3_mul_one, toMat_mul_transpose sq p.frame hu]
  exact ⟨rfl, rfl⟩

/-- **`world_inv_inertia_sqrt(rot)`** returns the six independent entries of the symmetric matrix
`W = T diag(invI) Tᵀ`, `T` the rotation matrix of `rot * frame` (or zeros when all three `invI` vanish), and
`W · W = R (reconstruct_inverse_inertia_matrix) Rᵀ`: the square root of the world-space inverse tensor — covariance of the
inverse tensor under rotations. -/
theorem world_inv_inertia_sqrt_spec (p : MP3 K) (rot : Quat K) (hr : UnitQ rot) (hf : UnitQ p.frame) :
    letI := fieldNum K sq
    let R := rot.toMat
    let T := (Quat.mul rot p.frame).toMat
    let W := (T.mul (M3.diag p.invI)).mul (mtr T)
    (¬ (p.invI.x = 0 ∧ p.invI.y = 0 ∧ p.invI.z = 0) →
        p.worldInvInertiaSqrt rot = (W.r0.x, W.r0.y, W.r0.z, W.r1.y, W.r1.z, W.r2.z)) ∧
    ((p.invI.x = 0 ∧ p.invI.y = 0 ∧ p.invI.z = 0) → p.worldInvInertiaSqrt rot = (0, 0, 0, 0, 0, 0)) ∧
    mtr W = W ∧
    W.mul W = (R.mul p.reconstructInv).mul (mtr R) := by
  intro R T W
  refine ⟨?_, ?_, ?_, ?_⟩
  · intro hnz
    have hb : (decide (p.invI.x = 0) && decide (p.invI.y = 0) && decide (p.invI.z = 0)) = false := by
      rw [Bool.eq_false_iff]
      intro hb
      simp only [Bool.and_eq_true, decide_eq_true_eq] at hb
      exact hnz ⟨hb.1.1, hb.1.2, hb.2⟩
    simp only [MP3.worldInvInertiaSqrt, fieldNum_neq', hb, Bool.not_false, if_true, scaleCols_eq, transpose_eq, W, T]
  · rintro ⟨h1, h2, h3⟩
    simp only [MP3.worldInvInertiaSqrt, fieldNum_neq', h1, h2, h3, decide_true, Bool.and_self, Bool.not_true, Bool.false_eq_true, if_false]
  · simp only [W, mtr_mul, mtr_mtr, mtr_diag, m3_mul_assoc]
  · have hu : UnitQ (@Quat.mul K (fieldNum K sq) rot p.frame) := unitQ_mul sq rot p.frame hr hf
    have h := conj_diag_mul sq _ hu p.invI p.invI
    dsimp only at h
    simp only [W, T, R]
    rw [h, toMat_mul, mtr_mul]
    simp only [MP3.reconstructInv, toMat_inverse, m3_mul_assoc]

/-- **capsule (3-D), closed form**: with `h = |b − a|`, cylinder volume `V_c = π r² h` and ball volume `V_b = 4/3 π r³`:
centre = midpoint, mass `ρ(V_c + V_b)`, axial inertia `ρ(V_c r²/2 + V_b 2r²/5)`, transverse inertia
`ρ(V_c (3r² + h²)/12 + V_b (2r²/5 + h²/4 + 3hr/8))` — the two hemispheres are moved by the parallel-axis theorem with the
hemisphere centroid offset `3r/8` (`capsule3_is_solid_of_revolution`: these are the slicing integrals). -/
theorem capsule3_spec (hs : LawfulSqrt sq) (pi ρ : K) (a b : V3 K) (r : K) (hpi : 0 ≤ pi) (hρ : 0 ≤ ρ) (hr : 0 ≤ r) :
    letI := fieldNum K sq
    let h := (b.sub a).norm
    let Vc := pi * r ^ 2 * h
    let Vb := 4 / 3 * pi * r ^ 3
    let x := fromCapsule3 pi ρ a b r
    x.1 = V3.center a b ∧ x.2.1⁻¹ = ρ * (Vc + Vb) ∧
    (x.2.2.y * x.2.2.y)⁻¹ = ρ * (Vc * (r ^ 2 / 2) + Vb * (2 * r ^ 2 / 5)) ∧
    (x.2.2.x * x.2.2.x)⁻¹ = ρ * (Vc * ((3 * r ^ 2 + h ^ 2) / 12) + Vb * (2 * r ^ 2 / 5 + h ^ 2 / 4 + 3 * h * r / 8)) ∧
    x.2.2.z = x.2.2.x := by
  intro h Vc Vb x
  have hh : 0 ≤ h := hs.nonneg _ (by simp only [V3.normSq, V3.dot]; exact add_nonneg (add_nonneg (mul_self_nonneg _) (mul_self_nonneg _)) (mul_self_nonneg _))
  have h3 : ((mkRat 3 1 : ℚ) : K) = 3 := by norm_num
  have h4 : ((mkRat 4 1 : ℚ) : K) = 4 := by norm_num
  have h5 : ((mkRat 5 1 : ℚ) : K) = 5 := by norm_num
  have h8 : ((mkRat 8 1 : ℚ) : K) = 8 := by norm_num
  have h12 : ((mkRat 12 1 : ℚ) : K) = 12 := by norm_num
  have h14 : ((mkRat 1 4 : ℚ) : K) = 1 / 4 := by norm_num
  simp only [x, Vc, Vb, fromCapsule3, cylinderVolInertia, ballVolInertia3, MP3.withFrame, V3.smul, V3.add, inv_spec,
    fieldNum_sqrt, inv_inv, fieldNum_lit, fieldNum_two, h3, h4, h5, h8, h12, h14]
  rw [show @V3.norm K (fieldNum K sq) (@V3.sub K (fieldNum K sq) b a) = h from rfl]
  clear_value h
  refine ⟨trivial, by ring, ?_, ?_, trivial⟩
  · rw [sqrt_roundtrip sq hs _ (by positivity)]; ring
  · rw [sqrt_roundtrip sq hs _ (by positivity)]; ring

/-- **3-D `Sum`, before the eigen-decomposition**: the triple `(total_mass, total_com, total_inertia)` that `Sum::sum` hands
to `with_inertia_matrix` has `M = Σ m_k`, `M c = Σ m_k c_k` and, about the origin,
`I + M(|c|²1 − ccᵀ) = Σ_k (R_k diag(I_k) R_kᵀ + m_k(|c_k|²1 − c_k c_kᵀ))` — for every finite family of members with
non-negative masses, including massless and `zero()` members and the all-massless family (`total_mass > 0` test). -/
theorem sum3_raw_moments (ps : List (MP3 K)) (h : ∀ a ∈ ps, 0 ≤ a.invMass) :
    letI := fieldNum K sq
    let r := MP3.sumRaw ps
    r.1 = totMass3 ps ∧
    r.2.1.x * r.1 = (totF3 ps).x ∧ r.2.1.y * r.1 = (totF3 ps).y ∧ r.2.1.z * r.1 = (totF3 ps).z ∧
    madd r.2.2 (steiner3 r.1 r.2.1) = totTensor3 sq ps := by
  intro r
  obtain ⟨f1, f2, f3, f4⟩ := foldl_sumAcc3 sq ps (0, @V3.zero K (fieldNum K sq))
  have z1 : (@V3.zero K (fieldNum K sq)).x = 0 := rfl
  have z2 : (@V3.zero K (fieldNum K sq)).y = 0 := rfl
  have z3 : (@V3.zero K (fieldNum K sq)).z = 0 := rfl
  simp only [z1, z2, z3, zero_add] at f1 f2 f3 f4
  have hM : 0 ≤ totMass3 ps := by
    apply List.sum_nonneg; intro x hx; simp only [List.mem_map] at hx
    obtain ⟨b, hb, rfl⟩ := hx; exact inv_nonneg.2 (h b hb)
  have hw : ∀ x ∈ ps, 0 ≤ massOf3 x := fun x hx => inv_nonneg.2 (h x hx)
  have r1 : r.1 = totMass3 ps := by simp only [r, MP3.sumRaw, f1]
  -- the centre of mass: `F / M` when `M > 0`, otherwise `F` itself, which then vanishes
  have hc : r.2.1.x * totMass3 ps = (totF3 ps).x ∧ r.2.1.y * totMass3 ps = (totF3 ps).y ∧ r.2.1.z * totMass3 ps = (totF3 ps).z := by
    simp only [r, MP3.sumRaw, f1]
    by_cases hp : 0 < totMass3 ps
    · simp only [hp, if_true, V3.sdiv, f2, f3, f4]
      refine ⟨div_mul_cancel₀ _ hp.ne', div_mul_cancel₀ _ hp.ne', div_mul_cancel₀ _ hp.ne'⟩
    · have h0 : totMass3 ps = 0 := le_antisymm (not_lt.1 hp) hM
      simp only [hp, if_false, f2, f3, f4, h0, mul_zero]
      simp only [totF3]
      exact ⟨(sum_weighted_zero ps massOf3 (fun a => a.com.x) hw h0).symm, (sum_weighted_zero ps massOf3 (fun a => a.com.y) hw h0).symm,
        (sum_weighted_zero ps massOf3 (fun a => a.com.z) hw h0).symm⟩
  refine ⟨r1, by rw [r1]; exact hc.1, by rw [r1]; exact hc.2.1, by rw [r1]; exact hc.2.2, ?_⟩
  have hI : r.2.2 = madd mzero (madd (totTensor3 sq ps) (gShift (totMass3 ps) (totF3 ps) r.2.1)) := by
    simp only [r, MP3.sumRaw]
    rw [foldl_shifted3, msum_shift]
    rfl
  rw [hI, r1]
  exact gShift_com _ _ _ hc.1.symm hc.2.1.symm hc.2.2.symm _

/-- **3-D `Sum` is additive, through the eigen-decomposition** (and so is `from_compound`, which is
`parts.map(transform_by).sum()`): for every eigen-solver returning an orthonormal eigen-decomposition with non-negative
eigenvalues of the summed tensor, the result of `Sum::sum` has the summed mass, first moment and second-moment tensor
about the origin. -/
theorem sum3_full_moments (hs : LawfulSqrt sq) (eig : M3 K → V3 K × M3 K) (ps : List (MP3 K)) (h : ∀ a ∈ ps, 0 ≤ a.invMass)
    (hE : let I := (@MP3.sumRaw K (fieldNum K sq) ps).2.2
      EigenDecomp sq I (eig I).1 (eig I).2 ∧ 0 ≤ (eig I).1.x ∧ 0 ≤ (eig I).1.y ∧ 0 ≤ (eig I).1.z) :
    letI := fieldNum K sq
    let r := MP3.sum eig ps
    massOf3 r = totMass3 ps ∧
    r.com.x * massOf3 r = (totF3 ps).x ∧ r.com.y * massOf3 r = (totF3 ps).y ∧ r.com.z * massOf3 r = (totF3 ps).z ∧
    madd r.reconstruct (steiner3 (massOf3 r) r.com) = totTensor3 sq ps := by
  intro r
  obtain ⟨hD, e1, e2, e3⟩ := hE
  obtain ⟨r1, r2, r3, -, -⟩ := with_inertia_matrix_recompose sq hs (@MP3.sumRaw K (fieldNum K sq) ps).2.1
    (@MP3.sumRaw K (fieldNum K sq) ps).1 _ _ _ hD e1 e2 e3
  obtain ⟨s1, s2, s3, s4, s5⟩ := sum3_raw_moments sq ps h
  have hr : r = @MP3.withInertiaEigen K (fieldNum K sq) (@MP3.sumRaw K (fieldNum K sq) ps).2.1 (@MP3.sumRaw K (fieldNum K sq) ps).1
      (eig (@MP3.sumRaw K (fieldNum K sq) ps).2.2).1 (eig (@MP3.sumRaw K (fieldNum K sq) ps).2.2).2 := rfl
  rw [hr, r1, r2, r3]
  exact ⟨s1, s2, s3, s4, s5⟩

/-- **3-D Compound = Σ transformed parts**: `from_compound` has the summed moments of the parts moved by their isometries
(`transformBy3_covariant` gives each moved part's tensor as the conjugate `M I Mᵀ`). -/
theorem compound3_moments (hs : LawfulSqrt sq) (eig : M3 K → V3 K × M3 K) (parts : List (Iso3 K × MP3 K))
    (h : ∀ s ∈ parts, 0 ≤ s.2.invMass)
    (hE : let I := (@MP3.sumRaw K (fieldNum K sq) (parts.map fun s => @MP3.transformBy K (fieldNum K sq) s.2 s.1)).2.2
      EigenDecomp sq I (eig I).1 (eig I).2 ∧ 0 ≤ (eig I).1.x ∧ 0 ≤ (eig I).1.y ∧ 0 ≤ (eig I).1.z) :
    letI := fieldNum K sq
    let moved := parts.map fun s => s.2.transformBy s.1
    let r := fromCompound3 eig parts
    massOf3 r = totMass3 moved ∧
    r.com.x * massOf3 r = (totF3 moved).x ∧ r.com.y * massOf3 r = (totF3 moved).y ∧ r.com.z * massOf3 r = (totF3 moved).z ∧
    madd r.reconstruct (steiner3 (massOf3 r) r.com) = totTensor3 sq moved := by
  intro moved r
  apply sum3_full_moments sq hs eig moved _ hE
  intro a ha
  simp only [moved, List.mem_map] at ha
  obtain ⟨s, hs', rfl⟩ := ha
  exact h s hs'

/-- **3-D `−` is subtractive in the moments** (before the eigen-decomposition), above the code's clamp threshold
`new_mass ≥ f32::EPSILON`: the triple handed to `with_inertia_matrix` has `m = m₁ − m₂`, `m c = m₁c₁ − m₂c₂` and its
tensor about the origin plus the subtrahend's tensor about the origin is the minuend's. -/
theorem sub3_raw_moments (a b : MP3 K) (m : K) (c : V3 K) (I : M3 K)
    (hth : (1 / 8388608 : K) ≤ massOf3 a - massOf3 b) :
    letI := fieldNum K sq
    MP3.subRaw a b = some (m, c, I) →
      m = massOf3 a - massOf3 b ∧
      c.x * m = a.com.x * massOf3 a - b.com.x * massOf3 b ∧
      c.y * m = a.com.y * massOf3 a - b.com.y * massOf3 b ∧
      c.z * m = a.com.z * massOf3 a - b.com.z * massOf3 b ∧
      madd (madd I (steiner3 m c)) (originTensor sq b) = originTensor sq a := by
  intro h
  have he : ((mkRat 1 8388608 : ℚ) : K) = 1 / 8388608 := by norm_num
  have hth' : ¬ (a.invMass⁻¹ - b.invMass⁻¹ < (1 / 8388608 : K)) := not_lt.2 hth
  have hpos : a.invMass⁻¹ - b.invMass⁻¹ ≠ 0 := by
    have : (0 : K) < 1 / 8388608 := by norm_num
    exact (lt_of_lt_of_le this hth).ne'
  unfold MP3.subRaw at h
  split_ifs at h
  simp only [Option.some.injEq, Prod.mk.injEq, shifted3_spec, inv_spec, eps32, fieldNum_lit, he, if_neg hth'] at h
  obtain ⟨rfl, rfl, rfl⟩ := h
  simp only [massOf3, originTensor, V3.add, V3.smul, V3.sub, M3.sub, madd, steiner3]
  set m1 := a.invMass⁻¹
  set m2 := b.invMass⁻¹
  refine ⟨trivial, by field_simp, by field_simp, by field_simp, ?_⟩
  congr 1 <;> congr 1 <;> (field_simp; ring)


/-- orthogonal 3×3 matrix: orthonormal columns (`Vᵀ V = 1`) and determinant `±1` (the latter follows from the former by
multiplicativity of the determinant; it is kept as part of the definition) -/
def IsOrthogonal (V : M3 K) : Prop :=
  @M3.mul K (fieldNum K sq) (mtr V) V = mone ∧ (@det3 K (fieldNum K sq) V = 1 ∨ @det3 K (fieldNum K sq) V = -1)

/-- **every orthogonal matrix is an admissible eigenvector matrix** (`OrthoFrame`): over a field with square roots a
matrix with orthonormal columns and determinant `1` is the rotation matrix of a unit quaternion (Shepperd's four
candidates, `Lemmas5.lean`), and one with determinant `−1` is such a matrix with columns 1, 2 exchanged.  This closes the
gap between `OrthoFrame` and "orthonormal eigenvectors". -/
theorem orthogonal_is_orthoFrame (hs : LawfulSqrt sq) (V : M3 K) (h : IsOrthogonal sq V) : OrthoFrame sq V := by
  obtain ⟨hc, hd | hd⟩ := h
  · obtain ⟨q, hq, e⟩ := rot_exists_quat sq hs V hc hd
    exact ⟨q, hq, Or.inl e.symm⟩
  · have hc' : @M3.mul K (fieldNum K sq) (mtr (M3.swapCols12 V)) (M3.swapCols12 V) = mone := by
      rcases V with ⟨⟨v00, v01, v02⟩, ⟨v10, v11, v12⟩, ⟨v20, v21, v22⟩⟩
      simp only [M3.mul, mtr, mone, M3.swapCols12, M3.mk.injEq, V3.mk.injEq] at hc ⊢
      obtain ⟨⟨h00, h01, h02⟩, ⟨h10, h11, h12⟩, ⟨h20, h21, h22⟩⟩ := hc
      exact ⟨⟨h00, h02, h01⟩, ⟨h20, h22, h21⟩, ⟨h10, h12, h11⟩⟩
    have hd' : @det3 K (fieldNum K sq) (M3.swapCols12 V) = 1 := by
      rcases V with ⟨⟨v00, v01, v02⟩, ⟨v10, v11, v12⟩, ⟨v20, v21, v22⟩⟩
      simp only [det3, M3.swapCols12] at hd ⊢
      linear_combination (-1) * hd
    obtain ⟨q, hq, e⟩ := rot_exists_quat sq hs _ hc' hd'
    refine ⟨q, hq, Or.inr ?_⟩
    rw [e, swap_swap]

/-- **`with_inertia_matrix` recomposes the input tensor for every ORTHOGONAL eigenvector matrix** — the statement of
`with_inertia_matrix_recompose` with the hypothesis in its natural form: `Vᵀ V = 1`, `det V = ±1`, `M V = V diag(d)`,
`d ≥ 0`. -/
theorem with_inertia_matrix_recompose_orthogonal (hs : LawfulSqrt sq) (com : V3 K) (mass : K) (M : M3 K) (d : V3 K) (V : M3 K)
    (hO : IsOrthogonal sq V)
    (hM : @M3.mul K (fieldNum K sq) M V = @M3.mul K (fieldNum K sq) V (@M3.diag K (fieldNum K sq) d))
    (hx : 0 ≤ d.x) (hy : 0 ≤ d.y) (hz : 0 ≤ d.z) :
    letI := fieldNum K sq
    let p := MP3.withInertiaEigen com mass d V
    p.reconstruct = M ∧ massOf3 p = mass ∧ p.com = com ∧ UnitQ p.frame ∧
    (inertiaOf3 p = d ∨ inertiaOf3 p = ⟨d.x, d.z, d.y⟩) :=
  with_inertia_matrix_recompose sq hs com mass M d V ⟨orthogonal_is_orthoFrame sq hs V hO, hM⟩ hx hy hz

/-- non-vacuity: a genuinely oblique orthogonal matrix over `ℚ` (rotation by the `3-4-5` angle about `z`, mirrored) -/
example : IsOrthogonal (fun x : ℚ => x) (⟨⟨3 / 5, 0, -4 / 5⟩, ⟨4 / 5, 0, 3 / 5⟩, ⟨0, 1, 0⟩⟩ : M3 ℚ) := by
  refine ⟨?_, Or.inr ?_⟩
  · simp only [M3.mul, mtr, mone]; norm_num
  · simp only [det3]; norm_num

/-- orthonormal columns alone make a matrix orthogonal: `det(Vᵀ V) = (det V)²`, hence `det V = ±1` -/
theorem orthonormal_columns_isOrthogonal (V : M3 K) (hc : @M3.mul K (fieldNum K sq) (mtr V) V = mone) : IsOrthogonal sq V := by
  refine ⟨hc, ?_⟩
  have h : @det3 K (fieldNum K sq) (@M3.mul K (fieldNum K sq) (mtr V) V)
      = @det3 K (fieldNum K sq) V * @det3 K (fieldNum K sq) V := by
    rcases V with ⟨⟨v00, v01, v02⟩, ⟨v10, v11, v12⟩, ⟨v20, v21, v22⟩⟩
    simp only [det3, M3.mul, mtr]
    ring
  rw [hc] at h
  have h1 : @det3 K (fieldNum K sq) (mone : M3 K) = 1 := by simp [det3, mone]
  rw [h1] at h
  exact mul_self_eq_one_iff.1 h.symm

/-- **3-D `from_trimesh`, complete**: when the body of `from_trimesh` hands `(com, mass, inertia)` to `with_inertia_matrix`
(outcome `.raw`, characterised by `from_trimesh3_unfold` / `from_trimesh3_closed`) and the solver returns an orthonormal
eigen-decomposition with non-negative eigenvalues, the returned `MassProperties` has exactly that mass and centre, a unit
frame and `reconstruct_inertia_matrix() = inertia`; the zero-volume outcome is `zero()`, the panics stay panics.
(`from_convex_polyhedron` and `TriMesh::mass_properties` are this function.) -/
theorem from_trimesh3_full (hs : LawfulSqrt sq) (eig : M3 K → V3 K × M3 K) (density : K) (vs : List (V3 K)) (idx : List (Nat × Nat × Nat)) :
    letI := fieldNum K sq
    (fromTrimesh3 density vs idx = .panic → fromTrimesh3Full eig density vs idx = none) ∧
    (fromTrimesh3 density vs idx = .zero → fromTrimesh3Full eig density vs idx = some MP3.zero) ∧
    (∀ c m I, fromTrimesh3 density vs idx = .raw c m I →
      EigenDecomp sq I (eig I).1 (eig I).2 → 0 ≤ (eig I).1.x → 0 ≤ (eig I).1.y → 0 ≤ (eig I).1.z →
      ∃ p, fromTrimesh3Full eig density vs idx = some p ∧ p.reconstruct = I ∧ massOf3 p = m ∧ p.com = c ∧ UnitQ p.frame) := by
  refine ⟨fun h => by simp only [fromTrimesh3Full, h], fun h => by simp only [fromTrimesh3Full, h], ?_⟩
  intro c m I h hD e1 e2 e3
  obtain ⟨r1, r2, r3, r4, -⟩ := with_inertia_matrix_recompose sq hs c m I (eig I).1 (eig I).2 hD e1 e2 e3
  exact ⟨_, by simp only [fromTrimesh3Full, h, MP3.withInertiaMatrix], r1, r2, r3, r4⟩

/-! ### non-vacuity of the hypotheses (concrete data over `ℚ`) -/

/-- a unit frame with an oblique axis and finite non-zero principal inertias (`reconstruct_inverse_spec`,
`world_inv_inertia_sqrt_spec`): frame `(3/5, 0, 4/5, 0)`, rotation `(1/2, 1/2, 1/2, 1/2)` -/
example : UnitQ (⟨3 / 5, 0, 4 / 5, 0⟩ : Quat ℚ) ∧ UnitQ (⟨1 / 2, 1 / 2, 1 / 2, 1 / 2⟩ : Quat ℚ) ∧
    (⟨1 / 2, 1, 3⟩ : V3 ℚ).x ≠ 0 ∧ ¬ ((⟨0, 1, 0⟩ : V3 ℚ).x = 0 ∧ (⟨0, 1, 0⟩ : V3 ℚ).y = 0 ∧ (⟨0, 1, 0⟩ : V3 ℚ).z = 0) := by
  refine ⟨by norm_num [UnitQ], by norm_num [UnitQ], by norm_num, by norm_num⟩

/-- the threshold hypothesis of `sub3_raw_moments` / `sub3_add_cancel` on concrete operands (masses `2` and `1`), neither
of which is `zero()` -/
example :
    let a : MP3 ℚ := ⟨⟨1, 2, 3⟩, 1 / 2, ⟨1, 1 / 2, 1 / 3⟩, ⟨0, 0, 0, 1⟩⟩
    let b : MP3 ℚ := ⟨⟨0, 1, 0⟩, 1, ⟨1, 1, 1⟩, ⟨3 / 5, 0, 4 / 5, 0⟩⟩
    (1 / 8388608 : ℚ) ≤ massOf3 a - massOf3 b ∧ 0 ≤ a.invMass ∧ 0 ≤ b.invMass ∧
    (@MP3.subRaw ℚ (fieldNum ℚ fun x => x) a b).isSome = true := by
  refine ⟨by norm_num [massOf3], by norm_num, by norm_num, ?_⟩
  simp [MP3.subRaw, MP3.isZero, fieldNum_neq']

/-- `set_mass_spec`: sign hypotheses only (`new_mass = 3`, old inverse mass `1/2`) -/
example : (0 : ℚ) ≤ 3 ∧ (0 : ℚ) ≤ 1 / 2 := by norm_num

end C13
