import ParryModel.C13.Model3
/-!
# C13 model, part 3: `with_inertia_matrix` after `symmetric_eigen`, full 3-D `+ - Sum`, inverse tensors, `set_mass`

`MassProperties::with_inertia_matrix` (dim3) calls nalgebra's `Matrix3::symmetric_eigen` (Householder tridiagonalisation +
implicit QL, not modelled) and then — literally transliterated here — repairs the handedness of the eigenvector matrix
(`determinant() < 0` ⇒ swap columns 1,2 and eigenvalue rows 1,2), converts it to a unit quaternion
(`UnitQuaternion::from_rotation_matrix`, four branches), `renormalize`s it, clamps the eigenvalues at `0` and calls
`with_principal_inertia_frame`.  The eigen-solver is a PARAMETER of the model (`eig : M3 K → V3 K × M3 K`): the `Float`
driver is handed nalgebra's own output for the same matrix, the theorems quantify over EVERY solver that returns an
orthonormal eigen-decomposition (`Theorems3.lean`).

Also: `reconstruct_inverse_inertia_matrix`, `world_inv_inertia_sqrt` (dim3), `set_mass` (dim2 / dim3).
-/
namespace Model
namespace Mass
variable {K : Type} [Num K]

namespace M3
/-- `swap_columns(1, 2)` -/
def swapCols12 (a : M3 K) : M3 K := ⟨⟨a.r0.x, a.r0.z, a.r0.y⟩, ⟨a.r1.x, a.r1.z, a.r1.y⟩, ⟨a.r2.x, a.r2.z, a.r2.y⟩⟩
/-- `transpose()` -/
def transpose (a : M3 K) : M3 K := ⟨⟨a.r0.x, a.r1.x, a.r2.x⟩, ⟨a.r0.y, a.r1.y, a.r2.y⟩, ⟨a.r0.z, a.r1.z, a.r2.z⟩⟩
/-- `column_mut(k).mul_assign(s_k)` for `k = 0, 1, 2` -/
def scaleCols (a : M3 K) (s : V3 K) : M3 K :=
  ⟨⟨a.r0.x * s.x, a.r0.y * s.y, a.r0.z * s.z⟩, ⟨a.r1.x * s.x, a.r1.y * s.y, a.r1.z * s.z⟩, ⟨a.r2.x * s.x, a.r2.y * s.y, a.r2.z * s.z⟩⟩
end M3

namespace Quat
/-- nalgebra `UnitQuaternion::from_rotation_matrix` (`Quaternion::new(w, i, j, k)` argument order resolved) -/
def fromRotMat (m : M3 K) : Quat K :=
  let tr := m.r0.x + m.r1.y + m.r2.z
  let quarter : K := lit 1 4
  if 0 < tr then
    let denom := Num.sqrt (tr + 1) * two
    ⟨(m.r2.y - m.r1.z) / denom, (m.r0.z - m.r2.x) / denom, (m.r1.x - m.r0.y) / denom, quarter * denom⟩
  else if decide (m.r1.y < m.r0.x) && decide (m.r2.z < m.r0.x) then
    let denom := Num.sqrt (1 + m.r0.x - m.r1.y - m.r2.z) * two
    ⟨quarter * denom, (m.r0.y + m.r1.x) / denom, (m.r0.z + m.r2.x) / denom, (m.r2.y - m.r1.z) / denom⟩
  else if m.r2.z < m.r1.y then
    let denom := Num.sqrt (1 + m.r1.y - m.r0.x - m.r2.z) * two
    ⟨(m.r0.y + m.r1.x) / denom, quarter * denom, (m.r1.z + m.r2.y) / denom, (m.r0.z - m.r2.x) / denom⟩
  else
    let denom := Num.sqrt (1 + m.r2.z - m.r0.x - m.r1.y) * two
    ⟨(m.r0.z + m.r2.x) / denom, (m.r1.z + m.r2.y) / denom, quarter * denom, (m.r1.x - m.r0.y) / denom⟩

/-- `Unit::renormalize`: `n = coords.norm()` (4-vector dot `(i² + k²) + (j² + w²)`), then every coordinate `/= n` -/
def renormalize (q : Quat K) : Quat K :=
  let n := Num.sqrt ((q.i * q.i + q.k * q.k) + (q.j * q.j + q.w * q.w))
  ⟨q.i / n, q.j / n, q.k / n, q.w / n⟩
end Quat

namespace MP3
/-- `with_inertia_matrix` AFTER `inertia.symmetric_eigen()` returned `(eigenvalues, eigenvectors)` -/
def withInertiaEigen (com : V3 K) (mass : K) (vals : V3 K) (vecs : M3 K) : MP3 K :=
  let sw : Bool := decide (det3 vecs < 0)
  let vecs' := if sw then vecs.swapCols12 else vecs
  let vals' : V3 K := if sw then ⟨vals.x, vals.z, vals.y⟩ else vals
  let frame := (Quat.fromRotMat vecs').renormalize
  withFrame com mass ⟨nmax vals'.x 0, nmax vals'.y 0, nmax vals'.z 0⟩ frame

/-- `with_inertia_matrix` for a given symmetric eigen-solver -/
def withInertiaMatrix (eig : M3 K → V3 K × M3 K) (com : V3 K) (mass : K) (inertia : M3 K) : MP3 K :=
  let e := eig inertia
  withInertiaEigen com mass e.1 e.2

/-- `impl Add` (dim3), complete -/
def add (eig : M3 K → V3 K × M3 K) (a b : MP3 K) : MP3 K :=
  match addRaw a b with
  | some (m, c, i) => withInertiaMatrix eig c m i
  | none => if a.isZero then b else a

/-- the `(com, new_mass, inertia)` that `Sub` hands to `with_inertia_matrix`; `none` = the early `return self` -/
def subRaw (a b : MP3 K) : Option (K × V3 K × M3 K) :=
  if a.isZero || b.isZero then none
  else
    let m1 := inv a.invMass
    let m2 := inv b.invMass
    let newMass0 := m1 - m2
    let newMass := if newMass0 < eps32 then 0 else newMass0
    let invMass := inv newMass
    let com := ((a.com.smul m1).sub (b.com.smul m2)).smul invMass
    let i1 := a.shifted (com.sub a.com)
    let i2 := b.shifted (com.sub b.com)
    some (newMass, com, i1.sub i2)

/-- `impl Sub` (dim3), complete -/
def sub (eig : M3 K → V3 K × M3 K) (a b : MP3 K) : MP3 K :=
  match subRaw a b with
  | some (m, c, i) => withInertiaMatrix eig c m i
  | none => a

/-- `(total_mass, total_com, total_inertia)` of `Sum::sum` (dim3) -/
def sumRaw (ps : List (MP3 K)) : K × V3 K × M3 K :=
  let acc := ps.foldl sumAcc (0, V3.zero)
  let totalMass := acc.1
  let totalCom := if 0 < totalMass then acc.2.sdiv totalMass else acc.2
  let totalInertia := ps.foldl (fun ti p => ti.add (p.shifted (totalCom.sub p.com))) M3.zero
  (totalMass, totalCom, totalInertia)

/-- `impl Sum` (dim3), complete -/
def sum (eig : M3 K → V3 K × M3 K) (ps : List (MP3 K)) : MP3 K :=
  let r := sumRaw ps
  withInertiaMatrix eig r.2.1 r.1 r.2.2

/-- `reconstruct_inverse_inertia_matrix`: `R · diag(invI²) · R⁻¹` -/
def reconstructInv (p : MP3 K) : M3 K :=
  let d : V3 K := ⟨p.invI.x * p.invI.x, p.invI.y * p.invI.y, p.invI.z * p.invI.z⟩
  ((p.frame.toMat).mul (M3.diag d)).mul p.frame.inverse.toMat

/-- `world_inv_inertia_sqrt(rot)` (dim3) as `SdpMatrix3 (m11, m12, m13, m22, m23, m33)` -/
def worldInvInertiaSqrt (p : MP3 K) (rot : Quat K) : K × K × K × K × K × K :=
  if !(neq p.invI.x 0 && neq p.invI.y 0 && neq p.invI.z 0) then
    let lhs0 := (Quat.mul rot p.frame).toMat
    let rhs := lhs0.transpose
    let lhs := lhs0.scaleCols p.invI
    let m := lhs.mul rhs
    (m.r0.x, m.r0.y, m.r0.z, m.r1.y, m.r1.z, m.r2.z)
  else (0, 0, 0, 0, 0, 0)

/-- `set_mass(new_mass, adjust_angular_inertia)` (dim3) -/
def setMass (p : MP3 K) (newMass : K) (adjust : Bool) : MP3 K :=
  let newInvMass := inv newMass
  let invI := if adjust then
      let currMass := inv p.invMass
      p.invI.smul (Num.sqrt newInvMass * Num.sqrt currMass)
    else p.invI
  ⟨p.com, newInvMass, invI, p.frame⟩
end MP3

/-- `set_mass` (dim2) -/
def MP2.setMass (p : MP2 K) (newMass : K) (adjust : Bool) : MP2 K :=
  let newInvMass := inv newMass
  let invI := if adjust then
      let currMass := inv p.invMass
      p.invI * (Num.sqrt newInvMass * Num.sqrt currMass)
    else p.invI
  ⟨p.com, newInvMass, invI⟩

/-- `from_trimesh` (dim3), complete, for a given eigen-solver: `none` = panic -/
def fromTrimesh3Full (eig : M3 K → V3 K × M3 K) (density : K) (vs : List (V3 K)) (idx : List (Nat × Nat × Nat)) : Option (MP3 K) :=
  match fromTrimesh3 density vs idx with
  | .panic => none
  | .zero => some MP3.zero
  | .raw c m i => some (MP3.withInertiaMatrix eig c m i)

/-- `MassProperties::from_compound` (dim3) given the parts' own mass properties -/
def fromCompound3 (eig : M3 K → V3 K × M3 K) (parts : List (Iso3 K × MP3 K)) : MP3 K :=
  MP3.sum eig (parts.map fun s => s.2.transformBy s.1)

end Mass
end Model
