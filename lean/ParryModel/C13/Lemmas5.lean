import ParryModel.C13.Lemmas4
/-!
# C13: every rotation matrix is the matrix of a unit quaternion (over a field with square roots)

GENERATED in part (`linear_combination` certificates found by exact linear algebra over ℚ: every identity used is a
constant-coefficient combination of the orthonormality relations of the columns / rows and of `cofactor = entry`).
For `V` with orthonormal columns and determinant `1`, the four Shepperd candidates `Q_b` (the numerators of the four
branches of `from_rotation_matrix`) satisfy `toMat Q_b = 4 s_b · V`, `|Q_b|² = 4 s_b`, and `s_0 + s_1 + s_2 + s_3 = 4`, so one
`s_b ≥ 1`; then `q = Q_b / √(4 s_b)` is a unit quaternion with `toMat q = V`.
-/
namespace C13
open Model Model.Mass

variable {K : Type} [Field K] [LinearOrder K] [IsStrictOrderedRing K] (sq : K → K)

theorem rot_cofactors (v00 v01 v02 v10 v11 v12 v20 v21 v22 : K)
    (hc00 : v00 * v00 + v10 * v10 + v20 * v20 = 1) (hc01 : v00 * v01 + v10 * v11 + v20 * v21 = 0) (hc02 : v00 * v02 + v10 * v12 + v20 * v22 = 0) (hc11 : v01 * v01 + v11 * v11 + v21 * v21 = 1) (hc12 : v01 * v02 + v11 * v12 + v21 * v22 = 0) (hc22 : v02 * v02 + v12 * v12 + v22 * v22 = 1) (hdet : v00 * (v11 * v22 - v21 * v12) - v01 * (v10 * v22 - v20 * v12) + v02 * (v10 * v21 - v20 * v11) = 1) :
    ((v11 * v22 - v12 * v21) = v00) ∧ ((-(v10 * v22 - v12 * v20)) = v01) ∧ ((v10 * v21 - v11 * v20) = v02) ∧ ((-(v01 * v22 - v02 * v21)) = v10) ∧ ((v00 * v22 - v02 * v20) = v11) ∧ ((-(v00 * v21 - v01 * v20)) = v12) ∧ ((v01 * v12 - v02 * v11) = v20) ∧ ((-(v00 * v12 - v02 * v10)) = v21) ∧ ((v00 * v11 - v01 * v10) = v22) := by
  refine ⟨?_, ?_, ?_, ?_, ?_, ?_, ?_, ?_, ?_⟩
  · linear_combination (-(v11 * v22 - v12 * v21)) * hc00 + (-(-(v10 * v22 - v12 * v20))) * hc01 + (-(v10 * v21 - v11 * v20)) * hc02 + v00 * hdet
  · linear_combination (-(v11 * v22 - v12 * v21)) * hc01 + (-(-(v10 * v22 - v12 * v20))) * hc11 + (-(v10 * v21 - v11 * v20)) * hc12 + v01 * hdet
  · linear_combination (-(v11 * v22 - v12 * v21)) * hc02 + (-(-(v10 * v22 - v12 * v20))) * hc12 + (-(v10 * v21 - v11 * v20)) * hc22 + v02 * hdet
  · linear_combination (-(-(v01 * v22 - v02 * v21))) * hc00 + (-(v00 * v22 - v02 * v20)) * hc01 + (-(-(v00 * v21 - v01 * v20))) * hc02 + v10 * hdet
  · linear_combination (-(-(v01 * v22 - v02 * v21))) * hc01 + (-(v00 * v22 - v02 * v20)) * hc11 + (-(-(v00 * v21 - v01 * v20))) * hc12 + v11 * hdet
  · linear_combination (-(-(v01 * v22 - v02 * v21))) * hc02 + (-(v00 * v22 - v02 * v20)) * hc12 + (-(-(v00 * v21 - v01 * v20))) * hc22 + v12 * hdet
  · linear_combination (-(v01 * v12 - v02 * v11)) * hc00 + (-(-(v00 * v12 - v02 * v10))) * hc01 + (-(v00 * v11 - v01 * v10)) * hc02 + v20 * hdet
  · linear_combination (-(v01 * v12 - v02 * v11)) * hc01 + (-(-(v00 * v12 - v02 * v10))) * hc11 + (-(v00 * v11 - v01 * v10)) * hc12 + v21 * hdet
  · linear_combination (-(v01 * v12 - v02 * v11)) * hc02 + (-(-(v00 * v12 - v02 * v10))) * hc12 + (-(v00 * v11 - v01 * v10)) * hc22 + v22 * hdet

theorem rot_rows (v00 v01 v02 v10 v11 v12 v20 v21 v22 : K)
    (hdet : v00 * (v11 * v22 - v21 * v12) - v01 * (v10 * v22 - v20 * v12) + v02 * (v10 * v21 - v20 * v11) = 1) (hk00 : (v11 * v22 - v12 * v21) = v00) (hk01 : (-(v10 * v22 - v12 * v20)) = v01) (hk02 : (v10 * v21 - v11 * v20) = v02) (hk10 : (-(v01 * v22 - v02 * v21)) = v10) (hk11 : (v00 * v22 - v02 * v20) = v11) (hk12 : (-(v00 * v21 - v01 * v20)) = v12) (hk20 : (v01 * v12 - v02 * v11) = v20) (hk21 : (-(v00 * v12 - v02 * v10)) = v21) (hk22 : (v00 * v11 - v01 * v10) = v22) :
    (v00 * v00 + v01 * v01 + v02 * v02 = 1) ∧ (v00 * v10 + v01 * v11 + v02 * v12 = 0) ∧ (v00 * v20 + v01 * v21 + v02 * v22 = 0) ∧ (v10 * v10 + v11 * v11 + v12 * v12 = 1) ∧ (v10 * v20 + v11 * v21 + v12 * v22 = 0) ∧ (v20 * v20 + v21 * v21 + v22 * v22 = 1) := by
  refine ⟨?_, ?_, ?_, ?_, ?_, ?_⟩
  · linear_combination (-v00) * hk00 + (-v01) * hk01 + (-v02) * hk02 + (1) * hdet
  · linear_combination (-v00) * hk10 + (-v01) * hk11 + (-v02) * hk12 + (0) * hdet
  · linear_combination (-v00) * hk20 + (-v01) * hk21 + (-v02) * hk22 + (0) * hdet
  · linear_combination (-v10) * hk10 + (-v11) * hk11 + (-v12) * hk12 + (1) * hdet
  · linear_combination (-v10) * hk20 + (-v11) * hk21 + (-v12) * hk22 + (0) * hdet
  · linear_combination (-v20) * hk20 + (-v21) * hk21 + (-v22) * hk22 + (1) * hdet

theorem shepperd0 (v00 v01 v02 v10 v11 v12 v20 v21 v22 : K)
    (hc00 : v00 * v00 + v10 * v10 + v20 * v20 = 1) (hc01 : v00 * v01 + v10 * v11 + v20 * v21 = 0) (hc02 : v00 * v02 + v10 * v12 + v20 * v22 = 0) (hc11 : v01 * v01 + v11 * v11 + v21 * v21 = 1) (hc12 : v01 * v02 + v11 * v12 + v21 * v22 = 0) (hc22 : v02 * v02 + v12 * v12 + v22 * v22 = 1) (hr00 : v00 * v00 + v01 * v01 + v02 * v02 = 1) (hr01 : v00 * v10 + v01 * v11 + v02 * v12 = 0) (hr02 : v00 * v20 + v01 * v21 + v02 * v22 = 0) (hr11 : v10 * v10 + v11 * v11 + v12 * v12 = 1) (hr12 : v10 * v20 + v11 * v21 + v12 * v22 = 0) (hr22 : v20 * v20 + v21 * v21 + v22 * v22 = 1) (hk00 : (v11 * v22 - v12 * v21) = v00) (hk01 : (-(v10 * v22 - v12 * v20)) = v01) (hk02 : (v10 * v21 - v11 * v20) = v02) (hk10 : (-(v01 * v22 - v02 * v21)) = v10) (hk11 : (v00 * v22 - v02 * v20) = v11) (hk12 : (-(v00 * v21 - v01 * v20)) = v12) (hk20 : (v01 * v12 - v02 * v11) = v20) (hk21 : (-(v00 * v12 - v02 * v10)) = v21) (hk22 : (v00 * v11 - v01 * v10) = v22) :
    @Quat.toMat K (fieldNum K sq) ⟨v21 - v12, v02 - v20, v10 - v01, 1 + v00 + v11 + v22⟩ = ⟨⟨4 * (1 + v00 + v11 + v22) * v00, 4 * (1 + v00 + v11 + v22) * v01, 4 * (1 + v00 + v11 + v22) * v02⟩, ⟨4 * (1 + v00 + v11 + v22) * v10, 4 * (1 + v00 + v11 + v22) * v11, 4 * (1 + v00 + v11 + v22) * v12⟩, ⟨4 * (1 + v00 + v11 + v22) * v20, 4 * (1 + v00 + v11 + v22) * v21, 4 * (1 + v00 + v11 + v22) * v22⟩⟩ ∧
    (v21 - v12) * (v21 - v12) + (v02 - v20) * (v02 - v20) + (v10 - v01) * (v10 - v01) + (1 + v00 + v11 + v22) * (1 + v00 + v11 + v22) = 4 * (1 + v00 + v11 + v22) := by
  simp only [Quat.toMat, fieldNum_two]
  refine ⟨?_, ?_⟩
  · congr 1 <;> congr 1
    · linear_combination (-1) * hc00 + (1) * hc11 + (1) * hc22 + (-2) * hr00 + (2) * hk00 + (-2) * hk11 + (-2) * hk22
    · linear_combination (-2) * hc01 + (-2) * hr01 + (2) * hk01 + (2) * hk10
    · linear_combination (-2) * hc02 + (-2) * hr02 + (2) * hk02 + (2) * hk20
    · linear_combination (-2) * hc01 + (-2) * hr01 + (2) * hk01 + (2) * hk10
    · linear_combination (1) * hc00 + (-1) * hc11 + (1) * hc22 + (-2) * hr11 + (-2) * hk00 + (2) * hk11 + (-2) * hk22
    · linear_combination (-2) * hc12 + (-2) * hr12 + (2) * hk12 + (2) * hk21
    · linear_combination (-2) * hc02 + (-2) * hr02 + (2) * hk02 + (2) * hk20
    · linear_combination (-2) * hc12 + (-2) * hr12 + (2) * hk12 + (2) * hk21
    · linear_combination (-1) * hc00 + (-1) * hc11 + (-3) * hc22 + (2) * hr00 + (2) * hr11 + (-2) * hk00 + (-2) * hk11 + (2) * hk22
  · linear_combination (1) * hc00 + (1) * hc11 + (1) * hc22 + (2) * hk00 + (2) * hk11 + (2) * hk22

theorem shepperd1 (v00 v01 v02 v10 v11 v12 v20 v21 v22 : K)
    (hc00 : v00 * v00 + v10 * v10 + v20 * v20 = 1) (hc01 : v00 * v01 + v10 * v11 + v20 * v21 = 0) (hc02 : v00 * v02 + v10 * v12 + v20 * v22 = 0) (hc11 : v01 * v01 + v11 * v11 + v21 * v21 = 1) (hc12 : v01 * v02 + v11 * v12 + v21 * v22 = 0) (hc22 : v02 * v02 + v12 * v12 + v22 * v22 = 1) (hr00 : v00 * v00 + v01 * v01 + v02 * v02 = 1) (hr01 : v00 * v10 + v01 * v11 + v02 * v12 = 0) (hr02 : v00 * v20 + v01 * v21 + v02 * v22 = 0) (hr11 : v10 * v10 + v11 * v11 + v12 * v12 = 1) (hr12 : v10 * v20 + v11 * v21 + v12 * v22 = 0) (hr22 : v20 * v20 + v21 * v21 + v22 * v22 = 1) (hk00 : (v11 * v22 - v12 * v21) = v00) (hk01 : (-(v10 * v22 - v12 * v20)) = v01) (hk02 : (v10 * v21 - v11 * v20) = v02) (hk10 : (-(v01 * v22 - v02 * v21)) = v10) (hk11 : (v00 * v22 - v02 * v20) = v11) (hk12 : (-(v00 * v21 - v01 * v20)) = v12) (hk20 : (v01 * v12 - v02 * v11) = v20) (hk21 : (-(v00 * v12 - v02 * v10)) = v21) (hk22 : (v00 * v11 - v01 * v10) = v22) :
    @Quat.toMat K (fieldNum K sq) ⟨1 + v00 - v11 - v22, v01 + v10, v02 + v20, v21 - v12⟩ = ⟨⟨4 * (1 + v00 - v11 - v22) * v00, 4 * (1 + v00 - v11 - v22) * v01, 4 * (1 + v00 - v11 - v22) * v02⟩, ⟨4 * (1 + v00 - v11 - v22) * v10, 4 * (1 + v00 - v11 - v22) * v11, 4 * (1 + v00 - v11 - v22) * v12⟩, ⟨4 * (1 + v00 - v11 - v22) * v20, 4 * (1 + v00 - v11 - v22) * v21, 4 * (1 + v00 - v11 - v22) * v22⟩⟩ ∧
    (1 + v00 - v11 - v22) * (1 + v00 - v11 - v22) + (v01 + v10) * (v01 + v10) + (v02 + v20) * (v02 + v20) + (v21 - v12) * (v21 - v12) = 4 * (1 + v00 - v11 - v22) := by
  simp only [Quat.toMat, fieldNum_two]
  refine ⟨?_, ?_⟩
  · congr 1 <;> congr 1
    · linear_combination (-1) * hc00 + (1) * hc11 + (1) * hc22 + (-2) * hr00 + (2) * hk00 + (2) * hk11 + (2) * hk22
    · linear_combination (-2) * hc01 + (2) * hr01 + (2) * hk01 + (-2) * hk10
    · linear_combination (-2) * hc02 + (2) * hr02 + (2) * hk02 + (-2) * hk20
    · linear_combination (2) * hc01 + (-2) * hr01 + (-2) * hk01 + (2) * hk10
    · linear_combination (-1) * hc00 + (1) * hc11 + (-1) * hc22 + (2) * hr11 + (2) * hk00 + (2) * hk11 + (-2) * hk22
    · linear_combination (2) * hc12 + (2) * hr12 + (2) * hk12 + (2) * hk21
    · linear_combination (2) * hc02 + (-2) * hr02 + (-2) * hk02 + (2) * hk20
    · linear_combination (2) * hc12 + (2) * hr12 + (2) * hk12 + (2) * hk21
    · linear_combination (1) * hc00 + (1) * hc11 + (3) * hc22 + (-2) * hr00 + (-2) * hr11 + (2) * hk00 + (-2) * hk11 + (2) * hk22
  · linear_combination (1) * hc00 + (1) * hc11 + (1) * hc22 + (2) * hk00 + (-2) * hk11 + (-2) * hk22

theorem shepperd2 (v00 v01 v02 v10 v11 v12 v20 v21 v22 : K)
    (hc00 : v00 * v00 + v10 * v10 + v20 * v20 = 1) (hc01 : v00 * v01 + v10 * v11 + v20 * v21 = 0) (hc02 : v00 * v02 + v10 * v12 + v20 * v22 = 0) (hc11 : v01 * v01 + v11 * v11 + v21 * v21 = 1) (hc12 : v01 * v02 + v11 * v12 + v21 * v22 = 0) (hc22 : v02 * v02 + v12 * v12 + v22 * v22 = 1) (hr00 : v00 * v00 + v01 * v01 + v02 * v02 = 1) (hr01 : v00 * v10 + v01 * v11 + v02 * v12 = 0) (hr02 : v00 * v20 + v01 * v21 + v02 * v22 = 0) (hr11 : v10 * v10 + v11 * v11 + v12 * v12 = 1) (hr12 : v10 * v20 + v11 * v21 + v12 * v22 = 0) (hr22 : v20 * v20 + v21 * v21 + v22 * v22 = 1) (hk00 : (v11 * v22 - v12 * v21) = v00) (hk01 : (-(v10 * v22 - v12 * v20)) = v01) (hk02 : (v10 * v21 - v11 * v20) = v02) (hk10 : (-(v01 * v22 - v02 * v21)) = v10) (hk11 : (v00 * v22 - v02 * v20) = v11) (hk12 : (-(v00 * v21 - v01 * v20)) = v12) (hk20 : (v01 * v12 - v02 * v11) = v20) (hk21 : (-(v00 * v12 - v02 * v10)) = v21) (hk22 : (v00 * v11 - v01 * v10) = v22) :
    @Quat.toMat K (fieldNum K sq) ⟨v01 + v10, 1 - v00 + v11 - v22, v12 + v21, v02 - v20⟩ = ⟨⟨4 * (1 - v00 + v11 - v22) * v00, 4 * (1 - v00 + v11 - v22) * v01, 4 * (1 - v00 + v11 - v22) * v02⟩, ⟨4 * (1 - v00 + v11 - v22) * v10, 4 * (1 - v00 + v11 - v22) * v11, 4 * (1 - v00 + v11 - v22) * v12⟩, ⟨4 * (1 - v00 + v11 - v22) * v20, 4 * (1 - v00 + v11 - v22) * v21, 4 * (1 - v00 + v11 - v22) * v22⟩⟩ ∧
    (v01 + v10) * (v01 + v10) + (1 - v00 + v11 - v22) * (1 - v00 + v11 - v22) + (v12 + v21) * (v12 + v21) + (v02 - v20) * (v02 - v20) = 4 * (1 - v00 + v11 - v22) := by
  simp only [Quat.toMat, fieldNum_two]
  refine ⟨?_, ?_⟩
  · congr 1 <;> congr 1
    · linear_combination (1) * hc00 + (-1) * hc11 + (-1) * hc22 + (2) * hr00 + (2) * hk00 + (2) * hk11 + (-2) * hk22
    · linear_combination (2) * hc01 + (-2) * hr01 + (2) * hk01 + (-2) * hk10
    · linear_combination (2) * hc02 + (2) * hr02 + (2) * hk02 + (2) * hk20
    · linear_combination (-2) * hc01 + (2) * hr01 + (-2) * hk01 + (2) * hk10
    · linear_combination (1) * hc00 + (-1) * hc11 + (1) * hc22 + (-2) * hr11 + (2) * hk00 + (2) * hk11 + (2) * hk22
    · linear_combination (-2) * hc12 + (2) * hr12 + (2) * hk12 + (-2) * hk21
    · linear_combination (2) * hc02 + (2) * hr02 + (2) * hk02 + (2) * hk20
    · linear_combination (2) * hc12 + (-2) * hr12 + (-2) * hk12 + (2) * hk21
    · linear_combination (1) * hc00 + (1) * hc11 + (3) * hc22 + (-2) * hr00 + (-2) * hr11 + (-2) * hk00 + (2) * hk11 + (2) * hk22
  · linear_combination (1) * hc00 + (1) * hc11 + (1) * hc22 + (-2) * hk00 + (2) * hk11 + (-2) * hk22

theorem shepperd3 (v00 v01 v02 v10 v11 v12 v20 v21 v22 : K)
    (hc00 : v00 * v00 + v10 * v10 + v20 * v20 = 1) (hc01 : v00 * v01 + v10 * v11 + v20 * v21 = 0) (hc02 : v00 * v02 + v10 * v12 + v20 * v22 = 0) (hc11 : v01 * v01 + v11 * v11 + v21 * v21 = 1) (hc12 : v01 * v02 + v11 * v12 + v21 * v22 = 0) (hc22 : v02 * v02 + v12 * v12 + v22 * v22 = 1) (hr00 : v00 * v00 + v01 * v01 + v02 * v02 = 1) (hr01 : v00 * v10 + v01 * v11 + v02 * v12 = 0) (hr02 : v00 * v20 + v01 * v21 + v02 * v22 = 0) (hr11 : v10 * v10 + v11 * v11 + v12 * v12 = 1) (hr12 : v10 * v20 + v11 * v21 + v12 * v22 = 0) (hr22 : v20 * v20 + v21 * v21 + v22 * v22 = 1) (hk00 : (v11 * v22 - v12 * v21) = v00) (hk01 : (-(v10 * v22 - v12 * v20)) = v01) (hk02 : (v10 * v21 - v11 * v20) = v02) (hk10 : (-(v01 * v22 - v02 * v21)) = v10) (hk11 : (v00 * v22 - v02 * v20) = v11) (hk12 : (-(v00 * v21 - v01 * v20)) = v12) (hk20 : (v01 * v12 - v02 * v11) = v20) (hk21 : (-(v00 * v12 - v02 * v10)) = v21) (hk22 : (v00 * v11 - v01 * v10) = v22) :
    @Quat.toMat K (fieldNum K sq) ⟨v02 + v20, v12 + v21, 1 - v00 - v11 + v22, v10 - v01⟩ = ⟨⟨4 * (1 - v00 - v11 + v22) * v00, 4 * (1 - v00 - v11 + v22) * v01, 4 * (1 - v00 - v11 + v22) * v02⟩, ⟨4 * (1 - v00 - v11 + v22) * v10, 4 * (1 - v00 - v11 + v22) * v11, 4 * (1 - v00 - v11 + v22) * v12⟩, ⟨4 * (1 - v00 - v11 + v22) * v20, 4 * (1 - v00 - v11 + v22) * v21, 4 * (1 - v00 - v11 + v22) * v22⟩⟩ ∧
    (v02 + v20) * (v02 + v20) + (v12 + v21) * (v12 + v21) + (1 - v00 - v11 + v22) * (1 - v00 - v11 + v22) + (v10 - v01) * (v10 - v01) = 4 * (1 - v00 - v11 + v22) := by
  simp only [Quat.toMat, fieldNum_two]
  refine ⟨?_, ?_⟩
  · congr 1 <;> congr 1
    · linear_combination (1) * hc00 + (-1) * hc11 + (-1) * hc22 + (2) * hr00 + (2) * hk00 + (-2) * hk11 + (2) * hk22
    · linear_combination (2) * hc01 + (2) * hr01 + (2) * hk01 + (2) * hk10
    · linear_combination (2) * hc02 + (-2) * hr02 + (2) * hk02 + (-2) * hk20
    · linear_combination (2) * hc01 + (2) * hr01 + (2) * hk01 + (2) * hk10
    · linear_combination (-1) * hc00 + (1) * hc11 + (-1) * hc22 + (2) * hr11 + (-2) * hk00 + (2) * hk11 + (2) * hk22
    · linear_combination (2) * hc12 + (-2) * hr12 + (2) * hk12 + (-2) * hk21
    · linear_combination (-2) * hc02 + (2) * hr02 + (-2) * hk02 + (2) * hk20
    · linear_combination (-2) * hc12 + (2) * hr12 + (-2) * hk12 + (2) * hk21
    · linear_combination (-1) * hc00 + (-1) * hc11 + (-3) * hc22 + (2) * hr00 + (2) * hr11 + (2) * hk00 + (2) * hk11 + (2) * hk22
  · linear_combination (1) * hc00 + (1) * hc11 + (1) * hc22 + (-2) * hk00 + (-2) * hk11 + (2) * hk22

/-- normalising a Shepperd candidate: if `toMat ⟨A,B,C,D⟩ = 4s·V`, `|⟨A,B,C,D⟩|² = 4s` and `s ≥ 1`, then `⟨A,B,C,D⟩/√(4s)` is a unit
quaternion whose rotation matrix is `V` -/
theorem quat_of_scaled (hs : LawfulSqrt sq) (A B C D s : K) (V : M3 K) (hs1 : 1 ≤ s)
    (hn : A * A + B * B + C * C + D * D = 4 * s)
    (hT : @Quat.toMat K (fieldNum K sq) ⟨A, B, C, D⟩ =
      ⟨⟨4 * s * V.r0.x, 4 * s * V.r0.y, 4 * s * V.r0.z⟩, ⟨4 * s * V.r1.x, 4 * s * V.r1.y, 4 * s * V.r1.z⟩,
       ⟨4 * s * V.r2.x, 4 * s * V.r2.y, 4 * s * V.r2.z⟩⟩) :
    ∃ q : Quat K, UnitQ q ∧ @Quat.toMat K (fieldNum K sq) q = V := by
  have h4 : (0 : K) ≤ 4 * s := by linarith
  have hd : sq (4 * s) * sq (4 * s) = 4 * s := hs.sq_mul _ h4
  have hd0 : sq (4 * s) ≠ 0 := by
    intro h0; rw [h0, mul_zero] at hd; linarith
  set d := sq (4 * s)
  rcases V with ⟨⟨v00, v01, v02⟩, ⟨v10, v11, v12⟩, ⟨v20, v21, v22⟩⟩
  simp only [Quat.toMat, fieldNum_two, M3.mk.injEq, V3.mk.injEq] at hT
  obtain ⟨⟨h00, h01, h02⟩, ⟨h10, h11, h12⟩, ⟨h20, h21, h22⟩⟩ := hT
  refine ⟨⟨A / d, B / d, C / d, D / d⟩, ?_, ?_⟩
  · simp only [UnitQ]
    field_simp
    linear_combination hn - hd
  · simp only [Quat.toMat, fieldNum_two, M3.mk.injEq, V3.mk.injEq]
    refine ⟨⟨?_, ?_, ?_⟩, ⟨?_, ?_, ?_⟩, ⟨?_, ?_, ?_⟩⟩
    · field_simp; linear_combination h00 - v00 * hd
    · field_simp; linear_combination h01 - v01 * hd
    · field_simp; linear_combination h02 - v02 * hd
    · field_simp; linear_combination h10 - v10 * hd
    · field_simp; linear_combination h11 - v11 * hd
    · field_simp; linear_combination h12 - v12 * hd
    · field_simp; linear_combination h20 - v20 * hd
    · field_simp; linear_combination h21 - v21 * hd
    · field_simp; linear_combination h22 - v22 * hd

/-- **every rotation matrix is the matrix of a unit quaternion**: orthonormal columns (`Vᵀ V = 1`) and `det V = 1` -/
theorem rot_exists_quat (hs : LawfulSqrt sq) (V : M3 K)
    (hcol : @M3.mul K (fieldNum K sq) (mtr V) V = mone) (hdet : @det3 K (fieldNum K sq) V = 1) :
    ∃ q : Quat K, UnitQ q ∧ @Quat.toMat K (fieldNum K sq) q = V := by
  rcases V with ⟨⟨v00, v01, v02⟩, ⟨v10, v11, v12⟩, ⟨v20, v21, v22⟩⟩
  simp only [M3.mul, mtr, mone, M3.mk.injEq, V3.mk.injEq] at hcol
  simp only [det3] at hdet
  obtain ⟨⟨hc00, hc01, hc02⟩, ⟨-, hc11, hc12⟩, ⟨-, -, hc22⟩⟩ := hcol
  obtain ⟨hk00, hk01, hk02, hk10, hk11, hk12, hk20, hk21, hk22⟩ :=
    rot_cofactors v00 v01 v02 v10 v11 v12 v20 v21 v22 hc00 hc01 hc02 hc11 hc12 hc22 hdet
  obtain ⟨hr00, hr01, hr02, hr11, hr12, hr22⟩ :=
    rot_rows v00 v01 v02 v10 v11 v12 v20 v21 v22 hdet hk00 hk01 hk02 hk10 hk11 hk12 hk20 hk21 hk22
  by_cases b0 : 1 ≤ 1 + v00 + v11 + v22
  · obtain ⟨hT, hn⟩ := shepperd0 sq v00 v01 v02 v10 v11 v12 v20 v21 v22 hc00 hc01 hc02 hc11 hc12 hc22 hr00 hr01 hr02 hr11 hr12 hr22
      hk00 hk01 hk02 hk10 hk11 hk12 hk20 hk21 hk22
    exact quat_of_scaled sq hs _ _ _ _ (1 + v00 + v11 + v22) ⟨⟨v00, v01, v02⟩, ⟨v10, v11, v12⟩, ⟨v20, v21, v22⟩⟩ b0 hn hT
  by_cases b1 : 1 ≤ 1 + v00 - v11 - v22
  · obtain ⟨hT, hn⟩ := shepperd1 sq v00 v01 v02 v10 v11 v12 v20 v21 v22 hc00 hc01 hc02 hc11 hc12 hc22 hr00 hr01 hr02 hr11 hr12 hr22
      hk00 hk01 hk02 hk10 hk11 hk12 hk20 hk21 hk22
    exact quat_of_scaled sq hs _ _ _ _ (1 + v00 - v11 - v22) ⟨⟨v00, v01, v02⟩, ⟨v10, v11, v12⟩, ⟨v20, v21, v22⟩⟩ b1 hn hT
  by_cases b2 : 1 ≤ 1 - v00 + v11 - v22
  · obtain ⟨hT, hn⟩ := shepperd2 sq v00 v01 v02 v10 v11 v12 v20 v21 v22 hc00 hc01 hc02 hc11 hc12 hc22 hr00 hr01 hr02 hr11 hr12 hr22
      hk00 hk01 hk02 hk10 hk11 hk12 hk20 hk21 hk22
    exact quat_of_scaled sq hs _ _ _ _ (1 - v00 + v11 - v22) ⟨⟨v00, v01, v02⟩, ⟨v10, v11, v12⟩, ⟨v20, v21, v22⟩⟩ b2 hn hT
  have b3 : 1 ≤ 1 - v00 - v11 + v22 := by linarith [not_le.1 b0, not_le.1 b1, not_le.1 b2]
  obtain ⟨hT, hn⟩ := shepperd3 sq v00 v01 v02 v10 v11 v12 v20 v21 v22 hc00 hc01 hc02 hc11 hc12 hc22 hr00 hr01 hr02 hr11 hr12 hr22
    hk00 hk01 hk02 hk10 hk11 hk12 hk20 hk21 hk22
  exact quat_of_scaled sq hs _ _ _ _ (1 - v00 - v11 + v22) ⟨⟨v00, v01, v02⟩, ⟨v10, v11, v12⟩, ⟨v20, v21, v22⟩⟩ b3 hn hT

end C13
