import ParryModel.C13.Lemmas3
import Mathlib.Analysis.SpecialFunctions.Integrals.Basic
/-!
# C13 theorems, part 2: 3-D `MassProperties::from_trimesh` (closed triangle meshes of either orientation)

The model (`Model3.lean`) is read at the lawful instance `fieldNum K sq` of an arbitrary linearly ordered field.
Vocabulary (`Lemmas3.lean`): `vol4 o a b c` signed volume of the tetrahedron, `unitInertia4 r …` its inertia tensor per
unit volume about `r` in covariance form, `coneVol / coneFirst / coneInertia` the signed sums over the cones from an apex,
`Closed3` closed oriented surface (vanishing boundary chain).
-/
namespace C13
open Model Model.Mass

variable {K : Type} [Field K] [LinearOrder K] [IsStrictOrderedRing K] (sq : K → K)

/-- `Tetrahedron::signed_volume` is `det[b−a, c−a, d−a]/6`; swapping two vertices changes its sign -/
theorem tet_signed_volume_eq (a b c d : V3 K) :
    letI := fieldNum K sq
    tetSignedVolume a b c d = vol4 a b c d ∧ tetSignedVolume a b d c = -tetSignedVolume a b c d := by
  refine ⟨tetSignedVolume_spec sq a b c d, ?_⟩
  rw [tetSignedVolume_spec, tetSignedVolume_spec, vol4_swap]

/-- `tetrahedron_unit_inertia_tensor_wrt_point` is `tr(C)·1 − C` for the covariance form
`C = (Σ_k w_k w_kᵀ + s sᵀ)/20`, `w_k = p_k − point`, `s = Σ_k w_k` (the second moments per unit volume of the uniform
tetrahedron, see `tet_second_moment_is_integral`); it does not depend on the order of the vertices. -/
theorem tet_unit_inertia_eq (r p1 p2 p3 p4 : V3 K) :
    letI := fieldNum K sq
    tetUnitInertia r p1 p2 p3 p4 = unitInertia4 r p1 p2 p3 p4 ∧
    tetUnitInertia r p1 p2 p4 p3 = tetUnitInertia r p1 p2 p3 p4 ∧
    tetUnitInertia r p2 p1 p3 p4 = tetUnitInertia r p1 p2 p3 p4 ∧
    tetUnitInertia r p1 p3 p2 p4 = tetUnitInertia r p1 p2 p3 p4 := by
  refine ⟨tetUnitInertia_spec sq r p1 p2 p3 p4, ?_, ?_, ?_⟩ <;>
  · rw [tetUnitInertia_spec, tetUnitInertia_spec]
    simp only [unitInertia4, cov4]; congr 1 <;> congr 1 <;> ring

/-- **what the 3-D `from_trimesh` computes**, for every triangle list and every auxiliary apex `gc` (the code uses the
vertex average): with `V = Σ_t vol(gc, t)` the signed volume of the cones from `gc`,
* `V = 0`: the early `MassProperties::zero()`;
* otherwise `com = (Σ_t V_t g_t)/V`, the mass handed to `with_inertia_matrix` is `V·ρ·sgn V`, and the tensor is
  `sgn V · ρ · Σ_t vol(com, t) · J(com; com, t)`: the signed sum of the inertia tensors about `com` of the cones from `com`,
  **multiplied by the orientation sign**. -/
theorem from_trimesh3_unfold (ρ : K) (gc : V3 K) (ts : List (Triangle3 K)) :
    letI := fieldNum K sq
    let V := coneVol gc ts
    let com : V3 K := ⟨(coneFirst gc ts).x / V, (coneFirst gc ts).y / V, (coneFirst gc ts).z / V⟩
    let s : K := if V < 0 then -1 else 1
    fromTrimesh3Raw ρ gc ts = if V = 0 then none else some (com, V * ρ * s, mscale (mscale (coneInertia com com ts) ρ) s) := by
  intro V com s
  unfold fromTrimesh3Raw meshVolCom3
  rw [foldl_meshAcc3]
  simp only [fieldNum_neq', V3.zero, zero_add]
  have hz : vadd3 (⟨0, 0, 0⟩ : V3 K) (coneFirst gc ts) = coneFirst gc ts := by
    rcases coneFirst gc ts with ⟨x, y, z⟩; simp [vadd3]
  rw [hz]
  by_cases hV : coneVol gc ts = 0
  · simp [hV, V]
  · have hV' : ¬ V = 0 := hV
    simp only [hV, decide_false, Bool.false_eq_true, if_false, hV']
    rw [signum_spec sq _ hV, meshItot3_spec]
    rfl

/-- **orientation invariance** (the clause "closed meshes of either orientation"): reversing the winding of every
triangle changes neither the outcome (`zero()` or not) nor the centre of mass, the mass or the inertia tensor handed to
`with_inertia_matrix` — for every triangle list, density and auxiliary apex.  (The signed volume and the accumulated
tensor both change sign; `signum` is applied to both.) -/
theorem from_trimesh3_flip (ρ : K) (gc : V3 K) (ts : List (Triangle3 K)) :
    letI := fieldNum K sq
    fromTrimesh3Raw ρ gc (flipTris ts) = fromTrimesh3Raw ρ gc ts := by
  have h1 := from_trimesh3_unfold sq ρ gc (@flipTris K ts)
  have h2 := from_trimesh3_unfold sq ρ gc ts
  simp only at h1 h2
  rw [h1, h2, coneVol_flip, coneFirst_flip]
  by_cases hV : coneVol gc ts = 0
  · simp [hV]
  · have hn : -coneVol gc ts ≠ 0 := neg_ne_zero.2 hV
    simp only [hV, hn, if_false]
    have hc : (⟨-(coneFirst gc ts).x / -coneVol gc ts, -(coneFirst gc ts).y / -coneVol gc ts, -(coneFirst gc ts).z / -coneVol gc ts⟩ : V3 K)
        = ⟨(coneFirst gc ts).x / coneVol gc ts, (coneFirst gc ts).y / coneVol gc ts, (coneFirst gc ts).z / coneVol gc ts⟩ := by
      simp only [neg_div_neg_eq]
    rw [hc, coneInertia_flip]
    rcases lt_or_gt_of_ne hV with h | h
    · have h' : ¬ (-coneVol gc ts < 0) := by linarith
      simp only [h, h', if_true, if_false, mscale, Option.some.injEq, Prod.mk.injEq, true_and]
      refine ⟨by ring, ?_⟩
      congr 1 <;> congr 1 <;> ring
    · have h' : -coneVol gc ts < 0 := by linarith
      have h'' : ¬ (coneVol gc ts < 0) := by linarith
      simp only [h', h'', if_true, if_false, mscale, Option.some.injEq, Prod.mk.injEq, true_and]
      refine ⟨by ring, ?_⟩
      congr 1 <;> congr 1 <;> ring

/-- the mass handed to `with_inertia_matrix` is `ρ·|V|`: positive for every non-degenerate mesh of either orientation -/
theorem from_trimesh3_mass (ρ : K) (hρ : 0 < ρ) (gc : V3 K) (ts : List (Triangle3 K)) (c : V3 K) (m : K) (I : M3 K) :
    letI := fieldNum K sq
    fromTrimesh3Raw ρ gc ts = some (c, m, I) → m = ρ * |coneVol gc ts| ∧ 0 < m := by
  intro h
  have h2 := from_trimesh3_unfold sq ρ gc ts
  simp only at h2
  rw [h2] at h
  by_cases hV : coneVol gc ts = 0
  · simp [hV] at h
  · simp only [hV, if_false, Option.some.injEq, Prod.mk.injEq] at h
    obtain ⟨_, rfl, _⟩ := h
    rcases lt_or_gt_of_ne hV with hlt | hgt
    · simp only [hlt, if_true, abs_of_neg hlt]
      constructor
      · ring
      · nlinarith
    · have hn : ¬ (coneVol gc ts < 0) := by linarith
      simp only [hn, if_false, abs_of_pos hgt]
      constructor
      · ring
      · nlinarith [mul_pos hgt hρ]

/-- **closed surfaces: the cone sums do not depend on the apex.**  For a closed oriented triangle surface (`Closed3`:
the boundary chain vanishes — e.g. every directed edge is matched by its reverse, `closed3_of_perm`) the total signed
volume, first moment and inertia tensor (about any reference point `r`) of the cones from an apex `o` over the triangles
are the same for every apex.  (Each difference is a sum over the directed edges of an antisymmetric functional — the
moments of the tetrahedra `(o', o, p, q)` — by the five-term identity of the degenerate 4-simplex `(o', o, a, b, c)`.)
This is the discrete divergence theorem that makes `from_trimesh` meaningful: the result is a property of the surface,
not of the auxiliary points (vertex average, centre of mass) the code happens to use as apexes. -/
theorem closed_mesh_apex_independent (ts : List (Triangle3 K)) (hc : Closed3 ts) (o o' r : V3 K) :
    coneVol o ts = coneVol o' ts ∧ coneFirst o ts = coneFirst o' ts ∧ coneInertia r o ts = coneInertia r o' ts := by
  refine ⟨?_, ?_, ?_⟩
  · exact apex_indep (fun o a b c => vol4 o a b c) o o' (by intro a b c; simp only [vol4]; ring)
      (by intro p q; simp only [vol4]; ring) ts hc
  · apply v3_eq_of_vdot
    intro w
    simp only [coneFirst]
    rw [vdot3_vsum3, vdot3_vsum3, List.map_map, List.map_map]
    exact apex_indep (fun o a b c => vdot3 w ⟨(o.x + a.x + b.x + c.x) / 4 * vol4 o a b c, (o.y + a.y + b.y + c.y) / 4 * vol4 o a b c,
        (o.z + a.z + b.z + c.z) / 4 * vol4 o a b c⟩) o o'
      (by intro a b c; simp only [vdot3, vol4]; ring) (by intro p q; simp only [vdot3, vol4]; ring) ts hc
  · apply m3_eq_of_mdot
    intro w
    simp only [coneInertia]
    rw [mdot_msum, mdot_msum, List.map_map, List.map_map]
    exact apex_indep (fun o a b c => mdot w (mscale (unitInertia4 r o a b c) (vol4 o a b c))) o o'
      (fun a b c => five_inertia w r o o' a b c) (fun p q => anti_inertia w r o o' p q) ts hc

/-- **`from_trimesh` on a closed surface**: the result does not depend on the auxiliary apex `gc` (the vertex average in
the code) and can be computed with the cones from ANY apex `o` (e.g. the origin, as the exact oracle does): with
`V = Σ_t vol(o,t)` and `F = Σ_t vol(o,t)·centroid(o,t)`, the centre of mass is `F/V`, the mass `ρ|V|` (`= V·ρ·sgn V`) and
the tensor `sgn V · ρ · Σ_t vol(o,t)·J(com; o,t)` — the sign-corrected inertia tensor about `com` of the signed cones,
i.e. of the enclosed solid whichever way the surface is wound. -/
theorem from_trimesh3_closed (ρ : K) (gc o : V3 K) (ts : List (Triangle3 K)) (hc : Closed3 ts) :
    letI := fieldNum K sq
    let V := coneVol o ts
    let com : V3 K := ⟨(coneFirst o ts).x / V, (coneFirst o ts).y / V, (coneFirst o ts).z / V⟩
    let s : K := if V < 0 then -1 else 1
    fromTrimesh3Raw ρ gc ts = if V = 0 then none else some (com, V * ρ * s, mscale (mscale (coneInertia com o ts) ρ) s) := by
  intro V com s
  have h := from_trimesh3_unfold sq ρ gc ts
  simp only at h
  obtain ⟨e1, e2, _⟩ := closed_mesh_apex_independent ts hc gc o o
  rw [h, e1, e2]
  have e3 := (closed_mesh_apex_independent ts hc com o com).2.2
  rw [e3]

/-- **parallel axis for the cone sums**: the tensor about `r` and the tensor about the origin of the same signed cones
differ by the Steiner terms of the total signed volume `V` and first moment `F`:
`J_r = J_0 + V(|r|²·1 − r rᵀ) − (2 (r·F)·1 − r Fᵀ − F rᵀ)`.  With `r = F/V` (the centre of mass) this is
`J_com = J_0 − V(|c|²·1 − c cᵀ)`, the formula the oracle evaluates exactly. -/
theorem cone_inertia_parallel_axis (r o : V3 K) (ts : List (Triangle3 K)) :
    let V := coneVol o ts
    let F := coneFirst o ts
    let d := r.x * F.x + r.y * F.y + r.z * F.z
    coneInertia r o ts = madd (madd (coneInertia ⟨0, 0, 0⟩ o ts) (steiner3 V r))
      ⟨⟨-(2 * d - 2 * r.x * F.x), r.x * F.y + F.x * r.y, r.x * F.z + F.x * r.z⟩,
       ⟨r.y * F.x + F.y * r.x, -(2 * d - 2 * r.y * F.y), r.y * F.z + F.y * r.z⟩,
       ⟨r.z * F.x + F.z * r.x, r.z * F.y + F.z * r.y, -(2 * d - 2 * r.z * F.z)⟩⟩ := by
  induction ts with
  | nil => simp [coneInertia, coneVol, coneFirst, msum, vsum3, madd, mzero, steiner3]
  | cons t ts ih =>
    simp only at ih ⊢
    rw [coneInertia_cons, coneInertia_cons, coneVol_cons, coneFirst_cons, ih]
    simp only [madd, mscale, steiner3, vadd3, unitInertia4, cov4]
    congr 1 <;> congr 1 <;> ring

/-- centre-of-mass form of the parallel-axis identity: if `c·V = F` then `J_c + V(|c|²·1 − c cᵀ) = J_0` -/
theorem cone_inertia_about_com (c o : V3 K) (ts : List (Triangle3 K))
    (hx : c.x * coneVol o ts = (coneFirst o ts).x) (hy : c.y * coneVol o ts = (coneFirst o ts).y)
    (hz : c.z * coneVol o ts = (coneFirst o ts).z) :
    madd (coneInertia c o ts) (steiner3 (coneVol o ts) c) = coneInertia ⟨0, 0, 0⟩ o ts := by
  have h := cone_inertia_parallel_axis c o ts
  simp only at h
  rw [h, ← hx, ← hy, ← hz]
  simp only [madd, steiner3]
  rcases coneInertia (⟨0, 0, 0⟩ : V3 K) o ts with ⟨⟨a00, a01, a02⟩, ⟨a10, a11, a12⟩, ⟨a20, a21, a22⟩⟩
  congr 1 <;> congr 1 <;> ring

/-! ## concrete closed surfaces -/

/-- boundary of the tetrahedron `(p₀,p₁,p₂,p₃)`, consistently wound (outwards when `vol4 p₀ p₁ p₂ p₃ < 0`…; either way) -/
def tetraTris (p0 p1 p2 p3 : V3 K) : List (Triangle3 K) := [⟨p0, p1, p2⟩, ⟨p0, p3, p1⟩, ⟨p0, p2, p3⟩, ⟨p1, p3, p2⟩]

/-- the 12 outward triangles of the box `[-hx,hx]×[-hy,hy]×[-hz,hz]` (each face split along one diagonal) -/
def boxTris (h : V3 K) : List (Triangle3 K) :=
  let v (sx sy sz : K) : V3 K := ⟨sx * h.x, sy * h.y, sz * h.z⟩
  let quad (a b c d : V3 K) : List (Triangle3 K) := [⟨a, b, c⟩, ⟨a, c, d⟩]
  quad (v (-1) (-1) (-1)) (v (-1) 1 (-1)) (v 1 1 (-1)) (v 1 (-1) (-1))     -- z = −hz
  ++ quad (v (-1) (-1) 1) (v 1 (-1) 1) (v 1 1 1) (v (-1) 1 1)               -- z = +hz
  ++ quad (v (-1) (-1) (-1)) (v 1 (-1) (-1)) (v 1 (-1) 1) (v (-1) (-1) 1)   -- y = −hy
  ++ quad (v (-1) 1 (-1)) (v (-1) 1 1) (v 1 1 1) (v 1 1 (-1))               -- y = +hy
  ++ quad (v (-1) (-1) (-1)) (v (-1) (-1) 1) (v (-1) 1 1) (v (-1) 1 (-1))   -- x = −hx
  ++ quad (v 1 (-1) (-1)) (v 1 1 (-1)) (v 1 1 1) (v 1 (-1) 1)               -- x = +hx

/-- closedness is preserved by reversing every winding, and by putting two closed surfaces together -/
theorem closed3_flip_append (ts us : List (Triangle3 K)) (h1 : Closed3 ts) (h2 : Closed3 us) :
    Closed3 (flipTris ts) ∧ Closed3 (ts ++ us) := by
  constructor
  · intro E hE
    have h : (ts.map fun t => E t.b t.a + E t.c t.b + E t.a t.c).sum = 0 :=
      (sum_edges3 (fun p q => E q p) ts).symm.trans (h1 (fun p q => E q p) (fun p q => hE q p))
    rw [sum_edges3]
    have e : ∀ l : List (Triangle3 K), ((@flipTris K l).map fun t => E t.a t.b + E t.b t.c + E t.c t.a).sum
        = (l.map fun t => E t.b t.a + E t.c t.b + E t.a t.c).sum := by
      intro l
      induction l with
      | nil => rfl
      | cons t l ih =>
        rw [flipTris_cons]
        simp only [List.map_cons, List.sum_cons] at ih ⊢
        rw [ih]; ring
    rw [e]; exact h
  · intro E hE
    have a := h1 E hE
    have b := h2 E hE
    rw [sum_edges3] at a b ⊢
    rw [List.map_append, List.sum_append, a, b, add_zero]

/-- the boundary of a tetrahedron and the 12-triangle box are closed surfaces (non-vacuity of `Closed3`) -/
theorem tetra_box_closed (p0 p1 p2 p3 h : V3 K) : Closed3 (tetraTris p0 p1 p2 p3) ∧ Closed3 (boxTris h) := by
  constructor
  · intro E hE
    rw [sum_edges3]
    simp only [tetraTris, List.map_cons, List.map_nil, List.sum_cons, List.sum_nil]
    linarith [hE p0 p1, hE p0 p2, hE p0 p3, hE p1 p2, hE p1 p3, hE p2 p3]
  · intro E hE
    rw [sum_edges3]
    simp only [boxTris, List.map_cons, List.map_nil, List.sum_cons, List.sum_nil, List.map_append, List.sum_append,
      List.cons_append, List.nil_append]
    set a : V3 K := ⟨-1 * h.x, -1 * h.y, -1 * h.z⟩
    set b : V3 K := ⟨1 * h.x, -1 * h.y, -1 * h.z⟩
    set c : V3 K := ⟨-1 * h.x, 1 * h.y, -1 * h.z⟩
    set d : V3 K := ⟨1 * h.x, 1 * h.y, -1 * h.z⟩
    set a' : V3 K := ⟨-1 * h.x, -1 * h.y, 1 * h.z⟩
    set b' : V3 K := ⟨1 * h.x, -1 * h.y, 1 * h.z⟩
    set c' : V3 K := ⟨-1 * h.x, 1 * h.y, 1 * h.z⟩
    set d' : V3 K := ⟨1 * h.x, 1 * h.y, 1 * h.z⟩
    linarith [hE a b, hE a c, hE a d, hE a a', hE a b', hE a c', hE b d, hE b b', hE b d', hE c d, hE c c', hE c d',
      hE d d', hE a' b', hE a' c', hE a' d', hE b' d', hE c' d', hE b c, hE b' c']

/-- **tessellation agreement, tetrahedron**: `from_trimesh` on the four faces of a non-degenerate tetrahedron — wound
either way, whatever auxiliary apex — returns the centroid `(p₀+p₁+p₂+p₃)/4`, the mass `ρ·|vol|` and the tensor
`ρ·|vol|·J(centroid; p₀,p₁,p₂,p₃)` of the solid tetrahedron (`tet_unit_inertia_eq`, `tet_second_moment_is_integral`). -/
theorem from_trimesh3_tetra (ρ : K) (gc p0 p1 p2 p3 : V3 K) (hV : vol4 p0 p1 p2 p3 ≠ 0) :
    letI := fieldNum K sq
    let g : V3 K := ⟨(p0.x + p1.x + p2.x + p3.x) / 4, (p0.y + p1.y + p2.y + p3.y) / 4, (p0.z + p1.z + p2.z + p3.z) / 4⟩
    let want := some (g, ρ * |vol4 p0 p1 p2 p3|, mscale (unitInertia4 g p0 p1 p2 p3) (ρ * |vol4 p0 p1 p2 p3|))
    fromTrimesh3Raw ρ gc (tetraTris p0 p1 p2 p3) = want ∧ fromTrimesh3Raw ρ gc (flipTris (tetraTris p0 p1 p2 p3)) = want := by
  intro g want
  have main : @fromTrimesh3Raw K (fieldNum K sq) ρ gc (tetraTris p0 p1 p2 p3) = want := by
    have h := from_trimesh3_closed sq ρ gc p0 (tetraTris p0 p1 p2 p3) (tetra_box_closed p0 p1 p2 p3 p0).1
    simp only at h
    have hvol : coneVol p0 (tetraTris p0 p1 p2 p3) = -vol4 p0 p1 p2 p3 := by
      simp only [coneVol, tetraTris, List.map_cons, List.map_nil, List.sum_cons, List.sum_nil, vol4]; ring
    have hF : coneFirst p0 (tetraTris p0 p1 p2 p3) = ⟨g.x * -vol4 p0 p1 p2 p3, g.y * -vol4 p0 p1 p2 p3, g.z * -vol4 p0 p1 p2 p3⟩ := by
      simp only [coneFirst, tetraTris, List.map_cons, List.map_nil, vsum3, List.foldr_cons, List.foldr_nil, vadd3, vol4, g,
        V3.mk.injEq]
      refine ⟨?_, ?_, ?_⟩ <;> ring
    have hn : -vol4 p0 p1 p2 p3 ≠ 0 := neg_ne_zero.2 hV
    rw [h, hvol, hF]
    simp only [hn, if_false, mul_div_assoc, div_self hn, mul_one]
    have hI : coneInertia g p0 (tetraTris p0 p1 p2 p3) = mscale (unitInertia4 g p0 p1 p2 p3) (-vol4 p0 p1 p2 p3) := by
      simp only [coneInertia, tetraTris, List.map_cons, List.map_nil, msum, List.foldr_cons, List.foldr_nil]
      rw [unitInertia4_swap g p0 p1 p2 p3, vol4_swap p0 p1 p2 p3]
      have z1 : vol4 p0 p0 p1 p2 = 0 := by simp only [vol4]; ring
      have z2 : vol4 p0 p0 p3 p1 = 0 := by simp only [vol4]; ring
      have z3 : vol4 p0 p0 p2 p3 = 0 := by simp only [vol4]; ring
      rw [z1, z2, z3]
      simp only [madd, mscale, mzero, mul_zero, zero_add, add_zero]
    rw [hI]
    simp only [want, Option.some.injEq, Prod.mk.injEq]
    rcases lt_or_gt_of_ne hV with hlt | hgt
    · have h' : ¬ (-vol4 p0 p1 p2 p3 < 0) := by linarith
      simp only [h', if_false, abs_of_neg hlt, mscale]
      refine ⟨trivial, by ring, ?_⟩
      congr 1 <;> congr 1 <;> ring
    · have h' : -vol4 p0 p1 p2 p3 < 0 := by linarith
      simp only [h', if_true, abs_of_pos hgt, mscale]
      refine ⟨trivial, by ring, ?_⟩
      congr 1 <;> congr 1 <;> ring
  exact ⟨main, (from_trimesh3_flip sq ρ gc _).trans main⟩


private theorem box_vol (h : V3 K) : coneVol (⟨0, 0, 0⟩ : V3 K) (boxTris h) = 8 * h.x * h.y * h.z := by
  simp only [coneVol, boxTris, List.map_cons, List.map_nil, List.sum_cons, List.sum_nil,
    List.cons_append, List.nil_append, vol4]; ring

private theorem box_first (h : V3 K) : coneFirst (⟨0, 0, 0⟩ : V3 K) (boxTris h) = ⟨0, 0, 0⟩ := by
  simp only [coneFirst, boxTris, List.map_cons, List.map_nil, vsum3, List.foldr_cons, List.foldr_nil,
    List.cons_append, List.nil_append, vadd3, vol4, V3.mk.injEq]
  refine ⟨?_, ?_, ?_⟩ <;> ring

private theorem box_inertia (h : V3 K) : coneInertia (⟨0, 0, 0⟩ : V3 K) ⟨0, 0, 0⟩ (boxTris h)
    = ⟨⟨8 * h.x * h.y * h.z * (h.y * h.y + h.z * h.z) / 3, 0, 0⟩, ⟨0, 8 * h.x * h.y * h.z * (h.x * h.x + h.z * h.z) / 3, 0⟩,
       ⟨0, 0, 8 * h.x * h.y * h.z * (h.x * h.x + h.y * h.y) / 3⟩⟩ := by
  simp only [coneInertia, boxTris, List.map_cons, List.map_nil, msum, List.foldr_cons, List.foldr_nil,
    List.cons_append, List.nil_append, madd, mscale, mzero, unitInertia4, cov4, vol4]
  congr 1 <;> congr 1 <;> ring

/-- **tessellation agreement, cuboid** (the reviewers' shape): `from_trimesh` on the 12-triangle box — wound outwards or
INWARDS, whatever auxiliary apex — returns the centre of mass `0`, the mass `8ρ·hx·hy·hz` and the diagonal tensor
`m/3·(hy²+hz², hx²+hz², hx²+hy²)` of `from_cuboid` (`cuboid3_spec`). -/
theorem from_trimesh3_box (ρ : K) (gc h : V3 K) (hx : 0 < h.x) (hy : 0 < h.y) (hz : 0 < h.z) :
    letI := fieldNum K sq
    let m := 8 * ρ * h.x * h.y * h.z
    let want := some ((⟨0, 0, 0⟩ : V3 K), m,
      (⟨⟨m * (h.y * h.y + h.z * h.z) / 3, 0, 0⟩, ⟨0, m * (h.x * h.x + h.z * h.z) / 3, 0⟩, ⟨0, 0, m * (h.x * h.x + h.y * h.y) / 3⟩⟩ : M3 K))
    fromTrimesh3Raw ρ gc (boxTris h) = want ∧ fromTrimesh3Raw ρ gc (flipTris (boxTris h)) = want := by
  intro m want
  have main : @fromTrimesh3Raw K (fieldNum K sq) ρ gc (boxTris h) = want := by
    have hcl := from_trimesh3_closed sq ρ gc ⟨0, 0, 0⟩ (boxTris h) (tetra_box_closed gc gc gc gc h).2
    simp only at hcl
    have hpos : (0:K) < 8 * h.x * h.y * h.z := by positivity
    have hne : (8 * h.x * h.y * h.z : K) ≠ 0 := ne_of_gt hpos
    have hnl : ¬ ((8 * h.x * h.y * h.z : K) < 0) := not_lt.2 hpos.le
    rw [hcl, box_vol, box_first]
    simp only [hne, hnl, if_false, zero_div]
    rw [box_inertia]
    simp only [want, m, mscale, Option.some.injEq, Prod.mk.injEq]
    refine ⟨trivial, by ring, ?_⟩
    congr 1 <;> congr 1 <;> ring
  exact ⟨main, (from_trimesh3_flip sq ρ gc _).trans main⟩

/-- **why the sign must reach the tensor**: for the inward-wound box the accumulated (unsigned) sum
`Σ_t vol(com,t)·J(com; com,t)` is the NEGATIVE of the solid's tensor — its diagonal is negative, so handing it to
`with_inertia_matrix` without `sign` would clamp every principal inertia to zero while the mass stays `ρ|V|`. -/
theorem from_trimesh3_inward_sum_negative (h : V3 K) (hx : 0 < h.x) (hy : 0 < h.y) (hz : 0 < h.z) :
    let I := coneInertia (⟨0, 0, 0⟩ : V3 K) ⟨0, 0, 0⟩ (flipTris (boxTris h))
    I.r0.x < 0 ∧ I.r1.y < 0 ∧ I.r2.z < 0 ∧ coneVol (⟨0, 0, 0⟩ : V3 K) (flipTris (boxTris h)) < 0 := by
  intro I
  have hI : I = mscale (coneInertia (⟨0, 0, 0⟩ : V3 K) ⟨0, 0, 0⟩ (boxTris h)) (-1) := coneInertia_flip _ _ _
  rw [hI, box_inertia, coneVol_flip, box_vol]
  simp only [mscale]
  have p : (0:K) < 8 * h.x * h.y * h.z := by positivity
  refine ⟨?_, ?_, ?_, by linarith⟩ <;> nlinarith [mul_pos p (mul_pos hx hx), mul_pos p (mul_pos hy hy), mul_pos p (mul_pos hz hz)]

/-! ## non-vacuity -/

/-- the hypothesis of `from_trimesh3_tetra` holds for the unit corner tetrahedron (volume `1/6`), and the hypotheses of
`from_trimesh3_box` / `from_trimesh3_inward_sum_negative` for the `1×2×3` box of the library's own test -/
example : vol4 (⟨0, 0, 0⟩ : V3 ℚ) ⟨1, 0, 0⟩ ⟨0, 1, 0⟩ ⟨0, 0, 1⟩ = 1 / 6 ∧ vol4 (⟨0, 0, 0⟩ : V3 ℚ) ⟨1, 0, 0⟩ ⟨0, 1, 0⟩ ⟨0, 0, 1⟩ ≠ 0 ∧
    (0:ℚ) < (⟨1, 2, 3⟩ : V3 ℚ).x ∧ (0:ℚ) < (⟨1, 2, 3⟩ : V3 ℚ).y ∧ (0:ℚ) < (⟨1, 2, 3⟩ : V3 ℚ).z := by
  norm_num [vol4]

/-- the `1×2×3` box at density 1, wound INWARDS: mass 48 and principal inertias (208, 160, 80) as in the library's
`cuboid_as_trimesh_mprops` test — a concrete instance of `from_trimesh3_box` (so the hypothesis of `from_trimesh3_mass`,
`fromTrimesh3Raw … = some …`, is satisfiable too) -/
example : @fromTrimesh3Raw ℚ (fieldNum ℚ id) 1 ⟨5, 7, 9⟩ (flipTris (boxTris ⟨1, 2, 3⟩))
    = some (⟨0, 0, 0⟩, 48, ⟨⟨208, 0, 0⟩, ⟨0, 160, 0⟩, ⟨0, 0, 80⟩⟩) := by
  have h := (from_trimesh3_box (K := ℚ) id 1 ⟨5, 7, 9⟩ ⟨1, 2, 3⟩ (by norm_num) (by norm_num) (by norm_num)).2
  simp only at h
  rw [h]
  norm_num

/-- the combinatorial hypothesis of `closed3_of_perm` is satisfiable: a triangle glued to its mirror image -/
example (a b c : V3 ℚ) : (edges3 [(⟨a, b, c⟩ : Triangle3 ℚ), ⟨a, c, b⟩]).Perm ((edges3 [(⟨a, b, c⟩ : Triangle3 ℚ), ⟨a, c, b⟩]).map Prod.swap) :=
  (List.reverse_perm _).symm

section Integrals
open intervalIntegral

private theorem integral_poly4' (a b c0 c1 c2 c3 c4 : ℝ) :
    ∫ y in a..b, (c0 + c1 * y + c2 * y ^ 2 + c3 * y ^ 3 + c4 * y ^ 4)
      = c0 * (b - a) + c1 * (b ^ 2 - a ^ 2) / 2 + c2 * (b ^ 3 - a ^ 3) / 3 + c3 * (b ^ 4 - a ^ 4) / 4 + c4 * (b ^ 5 - a ^ 5) / 5 := by
  have h1 : ∀ y : ℝ, c0 + c1 * y + c2 * y ^ 2 + c3 * y ^ 3 + c4 * y ^ 4 = c0 + c1 * y ^ 1 + c2 * y ^ 2 + c3 * y ^ 3 + c4 * y ^ 4 := by
    intro y; ring
  simp only [h1]
  rw [integral_add, integral_add, integral_add, integral_add] <;> try (apply Continuous.intervalIntegrable; fun_prop)
  simp only [integral_const_mul, integral_const, integral_pow, smul_eq_mul]
  ring

/-- integrate over `[0, b]` a function that is a polynomial of degree ≤ 4 in `b − y` without constant term -/
private theorem integral_poly4_refl (f : ℝ → ℝ) (b c1 c2 c3 c4 : ℝ)
    (hf : ∀ y, f y = c1 * (b - y) + c2 * (b - y) ^ 2 + c3 * (b - y) ^ 3 + c4 * (b - y) ^ 4) :
    ∫ y in (0:ℝ)..b, f y = c1 * b ^ 2 / 2 + c2 * b ^ 3 / 3 + c3 * b ^ 4 / 4 + c4 * b ^ 5 / 5 := by
  have h : ∀ y, f y = (c1 * b + c2 * b ^ 2 + c3 * b ^ 3 + c4 * b ^ 4) + (-c1 - 2 * c2 * b - 3 * c3 * b ^ 2 - 4 * c4 * b ^ 3) * y
      + (c2 + 3 * c3 * b + 6 * c4 * b ^ 2) * y ^ 2 + (-c3 - 4 * c4 * b) * y ^ 3 + c4 * y ^ 4 := by
    intro y; rw [hf]; ring
  have e : (∫ y in (0:ℝ)..b, f y) = ∫ y in (0:ℝ)..b, ((c1 * b + c2 * b ^ 2 + c3 * b ^ 3 + c4 * b ^ 4) + (-c1 - 2 * c2 * b - 3 * c3 * b ^ 2 - 4 * c4 * b ^ 3) * y
      + (c2 + 3 * c3 * b + 6 * c4 * b ^ 2) * y ^ 2 + (-c3 - 4 * c4 * b) * y ^ 3 + c4 * y ^ 4) := by
    congr 1; funext y; exact h y
  rw [e, integral_poly4']
  ring

/-- **Tetrahedron, as an integral.**  With the parametrisation `x = p₁ + s(p₂−p₁) + t(p₃−p₁) + w(p₄−p₁)`, `0 ≤ s ≤ 1`,
`0 ≤ t ≤ 1−s`, `0 ≤ w ≤ 1−s−t` (Jacobian `|det| = 6·volume`, so the uniform density of unit total mass is `6 ds dt dw`),
the second moment `∫ u(x) v(x)` of two coordinates `u, v` (values `u_k, v_k` at the vertices, affine in between) per unit
volume is the covariance form `cov4 = (Σ_k u_k v_k + (Σ_k u_k)(Σ_k v_k))/20` from which
`tetrahedron_unit_inertia_tensor_wrt_point` is built (`tet_unit_inertia_eq`: `J = tr(C)·1 − C`). -/
theorem tet_second_moment_is_integral (u1 u2 u3 u4 v1 v2 v3 v4 : ℝ) :
    cov4 u1 u2 u3 u4 v1 v2 v3 v4 =
      6 * ∫ s in (0:ℝ)..1, ∫ t in (0:ℝ)..(1 - s), ∫ w in (0:ℝ)..(1 - s - t),
        (u1 + s * (u2 - u1) + t * (u3 - u1) + w * (u4 - u1)) * (v1 + s * (v2 - v1) + t * (v3 - v1) + w * (v4 - v1)) := by
  have inner : ∀ s t : ℝ, (∫ w in (0:ℝ)..(1 - s - t),
        (u1 + s * (u2 - u1) + t * (u3 - u1) + w * (u4 - u1)) * (v1 + s * (v2 - v1) + t * (v3 - v1) + w * (v4 - v1)))
      = (u1 + s * (u2 - u1) + t * (u3 - u1)) * (v1 + s * (v2 - v1) + t * (v3 - v1)) * (1 - s - t)
        + ((u1 + s * (u2 - u1) + t * (u3 - u1)) * (v4 - v1) + (u4 - u1) * (v1 + s * (v2 - v1) + t * (v3 - v1))) * (1 - s - t) ^ 2 / 2
        + (u4 - u1) * (v4 - v1) * (1 - s - t) ^ 3 / 3 := by
    intro s t
    have e : (∫ w in (0:ℝ)..(1 - s - t),
        (u1 + s * (u2 - u1) + t * (u3 - u1) + w * (u4 - u1)) * (v1 + s * (v2 - v1) + t * (v3 - v1) + w * (v4 - v1)))
        = ∫ w in (0:ℝ)..(1 - s - t), ((u1 + s * (u2 - u1) + t * (u3 - u1)) * (v1 + s * (v2 - v1) + t * (v3 - v1))
            + ((u1 + s * (u2 - u1) + t * (u3 - u1)) * (v4 - v1) + (u4 - u1) * (v1 + s * (v2 - v1) + t * (v3 - v1))) * w
            + (u4 - u1) * (v4 - v1) * w ^ 2 + 0 * w ^ 3 + 0 * w ^ 4) := by
      congr 1; funext w; ring
    rw [e, integral_poly4']; ring
  simp only [inner]
  -- middle integral, in powers of `L = (1 − s) − t`
  have mid : ∀ s : ℝ, (∫ t in (0:ℝ)..(1 - s),
        ((u1 + s * (u2 - u1) + t * (u3 - u1)) * (v1 + s * (v2 - v1) + t * (v3 - v1)) * (1 - s - t)
        + ((u1 + s * (u2 - u1) + t * (u3 - u1)) * (v4 - v1) + (u4 - u1) * (v1 + s * (v2 - v1) + t * (v3 - v1))) * (1 - s - t) ^ 2 / 2
        + (u4 - u1) * (v4 - v1) * (1 - s - t) ^ 3 / 3))
      = (u2 + (u3 - u2) * (1 - s)) * (v2 + (v3 - v2) * (1 - s)) * (1 - s) ^ 2 / 2
        + ((u2 + (u3 - u2) * (1 - s)) * ((v4 - v1) / 2 - (v3 - v1)) + (v2 + (v3 - v2) * (1 - s)) * ((u4 - u1) / 2 - (u3 - u1))) * (1 - s) ^ 3 / 3
        + ((u3 - u1) * (v3 - v1) - ((u3 - u1) * (v4 - v1) + (u4 - u1) * (v3 - v1)) / 2 + (u4 - u1) * (v4 - v1) / 3) * (1 - s) ^ 4 / 4 := by
    intro s
    rw [integral_poly4_refl _ (1 - s)
      ((u2 + (u3 - u2) * (1 - s)) * (v2 + (v3 - v2) * (1 - s)))
      ((u2 + (u3 - u2) * (1 - s)) * ((v4 - v1) / 2 - (v3 - v1)) + (v2 + (v3 - v2) * (1 - s)) * ((u4 - u1) / 2 - (u3 - u1)))
      ((u3 - u1) * (v3 - v1) - ((u3 - u1) * (v4 - v1) + (u4 - u1) * (v3 - v1)) / 2 + (u4 - u1) * (v4 - v1) / 3) 0
      (by intro t; ring)]
    ring
  simp only [mid]
  rw [integral_poly4_refl _ 1 0 (u2 * v2 / 2)
    ((u2 * (v3 - v2) + (u3 - u2) * v2) / 2 + (u2 * ((v4 - v1) / 2 - (v3 - v1)) + v2 * ((u4 - u1) / 2 - (u3 - u1))) / 3)
    ((u3 - u2) * (v3 - v2) / 2 + ((u3 - u2) * ((v4 - v1) / 2 - (v3 - v1)) + (v3 - v2) * ((u4 - u1) / 2 - (u3 - u1))) / 3
      + ((u3 - u1) * (v3 - v1) - ((u3 - u1) * (v4 - v1) + (u4 - u1) * (v3 - v1)) / 2 + (u4 - u1) * (v4 - v1) / 3) / 4)
    (by intro s; ring)]
  simp only [cov4]
  ring

/-- the same parametrisation has total mass 1: `6 ∫∫∫ 1 = 1` (so `signed_volume = det/6` is the volume) -/
theorem tet_unit_volume_is_integral :
    (6 : ℝ) * ∫ s in (0:ℝ)..1, ∫ t in (0:ℝ)..(1 - s), ∫ _w in (0:ℝ)..(1 - s - t), (1 : ℝ) = 1 := by
  simp only [integral_const, smul_eq_mul, sub_zero, mul_one]
  have mid : ∀ s : ℝ, (∫ t in (0:ℝ)..(1 - s), (1 - s - t)) = (1 - s) ^ 2 / 2 := by
    intro s
    rw [integral_poly4_refl _ (1 - s) 1 0 0 0 (by intro t; ring)]; ring
  simp only [mid]
  rw [integral_poly4_refl _ 1 0 (1 / 2) 0 0 (by intro s; ring)]
  norm_num

end Integrals

end C13
