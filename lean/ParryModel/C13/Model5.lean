import ParryModel.C13.Model4
/-!
C13 model, growth round fu5: the world-space accessors of `MassProperties` (`mass_properties.rs`).
-/
namespace Model
namespace Mass
variable {K : Type} [Num K]

/-- `MassProperties::world_com(pos)` (dim2): `pos * self.local_com` -/
def MP2.worldCom (p : MP2 K) (pos : Iso2 K) : V2 K := pos.act p.com
/-- `MassProperties::world_inv_inertia_sqrt(_rot)` (dim2): the scalar is rotation invariant, returned as is -/
def MP2.worldInvInertiaSqrt (p : MP2 K) (_rot : Iso2 K) : K := p.invI
/-- `MassProperties::world_com(pos)` (dim3): `pos * self.local_com` -/
def MP3.worldCom (p : MP3 K) (pos : Iso3 K) : V3 K := pos.act p.com

end Mass
end Model
