import ParryModel.Shapes
/-!
# C13 model: `src/mass_properties/*.rs`, `Triangle::{area, center, unit_angular_inertia}`, `utils::{inv, sort3, center}`

Literal transliteration (same branch order, comparison strictness and floating-point operation order) of the
2-D crate (`parry2d-f64`) mass-property code (triangle, convex polygon, trimesh, closed forms, `new/mass/principal_inertia`,
`zero/is_zero`, `transform_by`, `+`, `-`, `Sum`, Compound) and of the 3-D crate's closed forms, `transform_by`,
`reconstruct_inertia_matrix`, `construct_shifted_inertia_matrix` and the `(mass, com, matrix)` that `+`, `-`, `Sum` hand to
`with_inertia_matrix` (whose `symmetric_eigen` is not modelled), written against the lawless `Num`.

`π` is not a `Num` operation: every function that uses `Real::pi()` takes it as the explicit argument `pi`
(the `Float` driver passes the binary64 constant `0x400921FB54442D18`, the theorems keep it universally quantified
or instantiate it with `Real.pi`).

**Corrected behaviour (defect protocol, see `fixes/C13-*.diff`)** — three functions are modelled as the *fixed* code,
not as the pinned tree:
* `fromTriangle`    : the pinned code reports the polar moment about vertex `a` as if it were about the centroid;
* `fromTrimesh`     : the pinned code sums per-triangle moments about each triangle's own first vertex;
* `fromCapsule2`    : the pinned 2-D code uses the 3-D hemisphere centroid offset `3r/8` instead of the half-disc `4r/(3π)`.
-/
namespace Model
namespace Mass
variable {K : Type} [Num K]

/-- `utils::inv`: `if val == 0.0 { 0.0 } else { 1.0 / val }` -/
def inv (v : K) : K := if neq v 0 then 0 else 1 / v

/-- `const EPSILON: Real = f32::EPSILON as Real` = 2⁻²³ -/
def eps32 : K := lit 1 8388608

/-! ## 2-D `MassProperties` -/

/-- 2-D `MassProperties { local_com, inv_mass, inv_principal_inertia_sqrt }` -/
structure MP2 (K : Type) where
  com : V2 K
  invMass : K
  invI : K

namespace MP2

/-- `MassProperties::new(local_com, mass, principal_inertia)` (dim2) -/
def new (com : V2 K) (mass pinertia : K) : MP2 K :=
  ⟨com, inv mass, inv (Num.sqrt pinertia)⟩

/-- `MassProperties::mass` -/
def mass (p : MP2 K) : K := inv p.invMass

/-- `MassProperties::principal_inertia` (dim2) -/
def principalInertia (p : MP2 K) : K := inv (p.invI * p.invI)

/-- `construct_shifted_inertia_matrix(shift)` (dim2): parallel-axis shift of the scalar inertia -/
def shifted (p : MP2 K) (shift : V2 K) : K :=
  let i := inv (p.invI * p.invI)
  if !(neq p.invMass 0) then
    let mass := 1 / p.invMass
    i + shift.normSq * mass
  else i

/-- `transform_by` (dim2): only the centre of mass moves -/
def transformBy (p : MP2 K) (m : Iso2 K) : MP2 K := ⟨m.act p.com, p.invMass, p.invI⟩

/-- `Zero::zero` -/
def zero : MP2 K := ⟨V2.zero, 0, 0⟩

/-- `Zero::is_zero`: `*self == Self::zero()` with the derived field-wise `PartialEq` -/
def isZero (p : MP2 K) : Bool := neq p.com.x 0 && neq p.com.y 0 && neq p.invMass 0 && neq p.invI 0

/-- `impl Add<MassProperties> for MassProperties` (dim2) -/
def add (a b : MP2 K) : MP2 K :=
  if a.isZero then b
  else if b.isZero then a
  else
    let m1 := inv a.invMass
    let m2 := inv b.invMass
    let invMass := inv (m1 + m2)
    let com := ((a.com.smul m1).add (b.com.smul m2)).smul invMass
    let i1 := a.shifted (com.sub a.com)
    let i2 := b.shifted (com.sub b.com)
    let inertia := i1 + i2
    ⟨com, invMass, inv (Num.sqrt inertia)⟩

/-- `impl Sub<MassProperties> for MassProperties` (dim2) -/
def sub (a b : MP2 K) : MP2 K :=
  if a.isZero || b.isZero then a
  else
    let m1 := inv a.invMass
    let m2 := inv b.invMass
    let newMass0 := m1 - m2
    let newMass := if newMass0 < eps32 then 0 else newMass0
    let invMass := inv newMass
    let com := ((a.com.smul m1).sub (b.com.smul m2)).smul invMass
    let i1 := a.shifted (com.sub a.com)
    let i2 := b.shifted (com.sub b.com)
    let inertia0 := i1 - i2
    let inertia := if inertia0 < eps32 then 0 else inertia0
    ⟨com, invMass, inv (Num.sqrt inertia)⟩

/-- first loop of `Sum::sum`: `(total_mass, total_com)` accumulators -/
def sumAcc (acc : K × V2 K) (p : MP2 K) : K × V2 K :=
  let mass := inv p.invMass
  (acc.1 + mass, acc.2.add (p.com.smul mass))

/-- `impl Sum<MassProperties> for MassProperties` (dim2) -/
def sum (ps : List (MP2 K)) : MP2 K :=
  let acc := ps.foldl sumAcc (0, V2.zero)
  let totalMass := acc.1
  let totalCom := if 0 < totalMass then acc.2.sdiv totalMass else acc.2
  let totalInertia := ps.foldl (fun ti p => ti + p.shifted (totalCom.sub p.com)) 0
  ⟨totalCom, inv totalMass, inv (Num.sqrt totalInertia)⟩

end MP2

/-! ## Triangle (`shape/triangle.rs`, dim2) -/

/-- `utils::sort3`: returns `(sa, sb, sc)` ascending, with the code's own comparison tree -/
def sort3 (a b c : K) : K × K × K :=
  if b < a then
    if c < a then
      if c < b then (c, b, a) else (b, c, a)
    else (b, a, c)
  else
    if ¬ (c < a) then
      if c < b then (a, c, b) else (a, b, c)
    else (c, a, b)

/-- `Triangle::area` — Kahan's formula on the three side lengths -/
def triArea (t : Triangle2 K) : K :=
  let a0 := (t.b.sub t.a).norm
  let b0 := (t.c.sub t.b).norm
  let c0 := (t.a.sub t.c).norm
  let s := sort3 a0 b0 c0
  -- `let (c, b, a) = utils::sort3(&a, &b, &c);`
  let c := s.1; let b := s.2.1; let a := s.2.2
  let sqr := (a + (b + c)) * (c - (a - b)) * (c + (a - b)) * (a + (b - c))
  Num.sqrt (nmax sqr 0) * lit 1 4

/-- `Triangle::center` = `utils::center(&[a, b, c])`: `a*denom + b*denom + c*denom`, `denom = 1.0/3.0` -/
def triCenter (t : Triangle2 K) : V2 K :=
  let denom : K := 1 / lit 3
  ((t.a.smul denom).add (t.b.smul denom)).add (t.c.smul denom)

/-- `Triangle::unit_angular_inertia` (dim2): polar moment per unit area **about vertex `a`** -/
def triUnitInertia (t : Triangle2 K) : K :=
  let factor : K := 1 / lit 6
  let e1 := t.b.sub t.a
  let e2 := t.c.sub t.a
  let intx2 := e1.x * e1.x + e2.x * e1.x + e2.x * e2.x
  let inty2 := e1.y * e1.y + e2.y * e1.y + e2.y * e2.y
  factor * (intx2 + inty2)

/-- `MassProperties::from_triangle` — **corrected**: the unit inertia about vertex `a` is moved to the centroid by
the parallel-axis theorem (`- |com - a|²`).  The pinned tree omits the shift (`fromTrianglePinned`). -/
def fromTriangle (density : K) (t : Triangle2 K) : MP2 K :=
  let area := triArea t
  let com := triCenter t
  if neq area 0 then MP2.new com 0 0
  else
    let ipart := triUnitInertia t - (com.sub t.a).normSq
    MP2.new com (area * density) (ipart * area * density)

/-- the pinned-tree `from_triangle` (kept to state the refutation) -/
def fromTrianglePinned (density : K) (t : Triangle2 K) : MP2 K :=
  let area := triArea t
  let com := triCenter t
  if neq area 0 then MP2.new com 0 0
  else
    let ipart := triUnitInertia t
    MP2.new com (area * density) (ipart * area * density)

/-! ## Convex polygon (`mass_properties_convex_polygon.rs`) -/

/-- pairs `(v_i, v_{i+1})` of the closed chain, in the order of the `peekable` loop (last pair closes on `first`) -/
def cyclicPairs (first : V2 K) : List (V2 K) → List (V2 K × V2 K)
  | [] => []
  | [x] => [(x, first)]
  | x :: y :: rest => (x, y) :: cyclicPairs first (y :: rest)

/-- loop body of `convex_polygon_area_and_center_of_mass`: accumulators `(res, areasum)` -/
def polyAcc (gc : V2 K) (acc : V2 K × K) (e : V2 K × V2 K) : V2 K × K :=
  let area := triArea ⟨e.1, e.2, gc⟩
  let center := ((e.1.add e.2).add gc).sdiv (lit 3)
  (acc.1.add (center.smul area), acc.2 + area)

/-- the vertex average `geometric_center` -/
def polyGc (vs : List (V2 K)) : V2 K :=
  (vs.foldl V2.add V2.zero).sdiv (Num.ofRat (vs.length : Nat))

/-- body of `convex_polygon_area_and_center_of_mass` after the vertex average `gc` is known:
`(areasum, if areasum == 0 { gc } else { res / areasum })` over the closed chain `es` -/
def polyAreaComCore (gc : V2 K) (es : List (V2 K × V2 K)) : K × V2 K :=
  let acc := es.foldl (polyAcc gc) (V2.zero, 0)
  if neq acc.2 0 then (acc.2, gc) else (acc.2, acc.1.sdiv acc.2)

/-- `convex_polygon_area_and_center_of_mass`; `none` = the `unwrap` panic on an empty slice -/
def polyAreaCom (vs : List (V2 K)) : Option (K × V2 K) :=
  match vs with
  | [] => none
  | first :: _ => some (polyAreaComCore (polyGc vs) (cyclicPairs first vs))

/-- `itot` loop of `from_convex_polygon`: fan of triangles `(com, v_i, v_{i+1})`, each moment about `com` -/
def polyItot (com : V2 K) (pairs : List (V2 K × V2 K)) : K :=
  pairs.foldl (fun itot e =>
    let t : Triangle2 K := ⟨com, e.1, e.2⟩
    let area := triArea t
    let ipart := triUnitInertia t
    itot + ipart * area) 0

/-- body of `from_convex_polygon` once `(area, com)` is known -/
def fromConvexPolygonCore (density : K) (ac : K × V2 K) (es : List (V2 K × V2 K)) : MP2 K :=
  if neq ac.1 0 then MP2.new ac.2 0 0
  else
    let itot := polyItot ac.2 es
    MP2.new ac.2 (ac.1 * density) (itot * density)

/-- `MassProperties::from_convex_polygon` -/
def fromConvexPolygon (density : K) (vs : List (V2 K)) : Option (MP2 K) :=
  match vs with
  | [] => none
  | first :: _ =>
    let es := cyclicPairs first vs
    some (fromConvexPolygonCore density (polyAreaComCore (polyGc vs) es) es)

/-! ## 2-D TriMesh (`mass_properties_trimesh2d.rs`) -/

/-- `vertices[idx[k] as usize]` for the three corners; `none` = index panic -/
def resolveTris (vs : Array (V2 K)) : List (Nat × Nat × Nat) → Option (List (Triangle2 K))
  | [] => some []
  | (i, j, k) :: rest =>
    match vs[i]?, vs[j]?, vs[k]? with
    | some a, some b, some c =>
      match resolveTris vs rest with
      | some ts => some (⟨a, b, c⟩ :: ts)
      | none => none
    | _, _, _ => none

/-- loop body of `trimesh_area_and_center_of_mass` -/
def meshAcc (acc : V2 K × K) (t : Triangle2 K) : V2 K × K :=
  let area := triArea t
  let center := triCenter t
  (acc.1.add (center.smul area), acc.2 + area)

/-- `trimesh_area_and_center_of_mass` on resolved triangles -/
def meshAreaCom (ts : List (Triangle2 K)) : K × V2 K :=
  let acc := ts.foldl meshAcc (V2.zero, 0)
  if neq acc.2 0 then (acc.2, acc.1) else (acc.2, acc.1.sdiv acc.2)

/-- **corrected** per-triangle term of `from_trimesh`: unit inertia about vertex `a`, moved to the triangle's centroid
(`- |g - a|²`) and then to the mesh centre of mass (`+ |g - com|²`) -/
def meshTerm (com : V2 K) (t : Triangle2 K) : K :=
  let area := triArea t
  let center := triCenter t
  let ipart := triUnitInertia t - (center.sub t.a).normSq + (center.sub com).normSq
  ipart * area

/-- `MassProperties::from_trimesh` (dim2) on resolved triangles — **corrected** (see `meshTerm`) -/
def fromTrimeshTris (density : K) (ts : List (Triangle2 K)) : MP2 K :=
  let ac := meshAreaCom ts
  let area := ac.1; let com := ac.2
  if neq area 0 then MP2.new com 0 0
  else
    let itot := ts.foldl (fun itot t => itot + meshTerm com t) 0
    MP2.new com (area * density) (itot * density)

/-- the pinned-tree loop (per-triangle moments about each triangle's own first vertex) -/
def fromTrimeshTrisPinned (density : K) (ts : List (Triangle2 K)) : MP2 K :=
  let ac := meshAreaCom ts
  let area := ac.1; let com := ac.2
  if neq area 0 then MP2.new com 0 0
  else
    let itot := ts.foldl (fun itot t => itot + triUnitInertia t * triArea t) 0
    MP2.new com (area * density) (itot * density)

/-- `MassProperties::from_trimesh(density, vertices, indices)`; `none` = out-of-bounds index panic -/
def fromTrimesh (density : K) (vs : Array (V2 K)) (idx : List (Nat × Nat × Nat)) : Option (MP2 K) :=
  (resolveTris vs idx).map (fromTrimeshTris density)

/-! ## 2-D closed forms -/

/-- `ball_volume_unit_angular_inertia` (dim2) -/
def ballVolInertia2 (pi radius : K) : K × K :=
  (pi * radius * radius, radius * radius / two)

/-- `from_ball` (dim2) -/
def fromBall2 (pi density radius : K) : MP2 K :=
  let vi := ballVolInertia2 pi radius
  let mass := vi.1 * density
  MP2.new V2.zero mass (vi.2 * mass)

/-- `cuboid_volume_unit_inertia` (dim2) -/
def cuboidVolInertia2 (he : V2 K) : K × K :=
  let volume := he.x * he.y * lit 4
  let ix := (he.x * he.x) / lit 3
  let iy := (he.y * he.y) / lit 3
  (volume, ix + iy)

/-- `from_cuboid` (dim2) -/
def fromCuboid2 (density : K) (he : V2 K) : MP2 K :=
  let vi := cuboidVolInertia2 he
  let mass := vi.1 * density
  MP2.new V2.zero mass (vi.2 * mass)

/-- `from_capsule` (dim2) — **corrected**: half-disc centroid offset `4r/(3π)` (the pinned tree has the 3-D
hemisphere value `3r/8`, see `fromCapsule2Pinned`) -/
def fromCapsule2 (pi density : K) (a b : V2 K) (radius : K) : MP2 K :=
  let halfHeight := (b.sub a).norm / two
  let cyl := cuboidVolInertia2 ⟨radius, halfHeight⟩
  let ball := ballVolInertia2 pi radius
  let capVol := cyl.1 + ball.1
  let capMass := capVol * density
  let capI := (cyl.2 * cyl.1 + ball.2 * ball.1) * density
  let com := V2.center a b
  let h := halfHeight * two
  let extra := (h * h * lit 1 4 + h * radius * lit 4 / (lit 3 * pi)) * ball.1 * density
  MP2.new com capMass (capI + extra)

/-- the pinned-tree 2-D `from_capsule` -/
def fromCapsule2Pinned (pi density : K) (a b : V2 K) (radius : K) : MP2 K :=
  let halfHeight := (b.sub a).norm / two
  let cyl := cuboidVolInertia2 ⟨radius, halfHeight⟩
  let ball := ballVolInertia2 pi radius
  let capVol := cyl.1 + ball.1
  let capMass := capVol * density
  let capI := (cyl.2 * cyl.1 + ball.2 * ball.1) * density
  let com := V2.center a b
  let h := halfHeight * two
  let extra := (h * h * lit 1 4 + h * radius * lit 3 / lit 8) * ball.1 * density
  MP2.new com capMass (capI + extra)

/-- `MassProperties::from_compound` (dim2): `shapes.iter().map(|s| s.1.mass_properties(density).transform_by(&s.0)).sum()`,
given the parts' own mass properties -/
def fromCompound2 (parts : List (Iso2 K × MP2 K)) : MP2 K :=
  MP2.sum (parts.map fun s => s.2.transformBy s.1)

/-! ## 3-D `MassProperties` (`parry3d-f64`) -/

/-- 3×3 matrix by rows -/
structure M3 (K : Type) where
  r0 : V3 K
  r1 : V3 K
  r2 : V3 K

namespace M3
/-- nalgebra `Matrix3 * Matrix3` (gemm by columns, inner index accumulated left to right) -/
def mul (a b : M3 K) : M3 K :=
  let e (r : V3 K) (c0 c1 c2 : K) : K := r.x * c0 + r.y * c1 + r.z * c2
  let row (r : V3 K) : V3 K := ⟨e r b.r0.x b.r1.x b.r2.x, e r b.r0.y b.r1.y b.r2.y, e r b.r0.z b.r1.z b.r2.z⟩
  ⟨row a.r0, row a.r1, row a.r2⟩
def add (a b : M3 K) : M3 K := ⟨a.r0.add b.r0, a.r1.add b.r1, a.r2.add b.r2⟩
def sub (a b : M3 K) : M3 K := ⟨a.r0.sub b.r0, a.r1.sub b.r1, a.r2.sub b.r2⟩
def smul (a : M3 K) (s : K) : M3 K := ⟨a.r0.smul s, a.r1.smul s, a.r2.smul s⟩
def diag (d : V3 K) : M3 K := ⟨⟨d.x, 0, 0⟩, ⟨0, d.y, 0⟩, ⟨0, 0, d.z⟩⟩
def zero : M3 K := ⟨V3.zero, V3.zero, V3.zero⟩
/-- `v * v.transpose()` -/
def outer (v : V3 K) : M3 K := ⟨⟨v.x * v.x, v.x * v.y, v.x * v.z⟩, ⟨v.y * v.x, v.y * v.y, v.y * v.z⟩, ⟨v.z * v.x, v.z * v.y, v.z * v.z⟩⟩
def toList (a : M3 K) : List K := a.r0.toList ++ a.r1.toList ++ a.r2.toList
end M3

/-- unit quaternion `(i, j, k, w)` -/
structure Quat (K : Type) where
  i : K
  j : K
  k : K
  w : K

namespace Quat
def identity : Quat K := ⟨0, 0, 0, 1⟩
/-- `UnitQuaternion::inverse` = conjugate -/
def inverse (q : Quat K) : Quat K := ⟨-q.i, -q.j, -q.k, q.w⟩
/-- `UnitQuaternion::to_rotation_matrix` -/
def toMat (q : Quat K) : M3 K :=
  let i := q.i; let j := q.j; let k := q.k; let w := q.w
  let ww := w * w; let ii := i * i; let jj := j * j; let kk := k * k
  let ij := i * j * two; let wk := w * k * two; let wj := w * j * two
  let ik := i * k * two; let jk := j * k * two; let wi := w * i * two
  ⟨⟨ww + ii - jj - kk, ij - wk, wj + ik⟩,
   ⟨wk + ij, ww - ii + jj - kk, jk - wi⟩,
   ⟨ik - wj, wi + jk, ww - ii - jj + kk⟩⟩
/-- `a * b` (Hamilton product, nalgebra's operation order — `Iso3.qmul`) -/
def mul (a b : Quat K) : Quat K :=
  let r := Iso3.qmul a.i a.j a.k a.w b.i b.j b.k b.w
  ⟨r.1, r.2.1, r.2.2.1, r.2.2.2⟩
end Quat

/-- 3-D `MassProperties { local_com, inv_mass, inv_principal_inertia_sqrt, principal_inertia_local_frame }` -/
structure MP3 (K : Type) where
  com : V3 K
  invMass : K
  invI : V3 K
  frame : Quat K

namespace MP3
/-- `with_principal_inertia_frame` -/
def withFrame (com : V3 K) (mass : K) (pi : V3 K) (frame : Quat K) : MP3 K :=
  ⟨com, inv mass, ⟨inv (Num.sqrt pi.x), inv (Num.sqrt pi.y), inv (Num.sqrt pi.z)⟩, frame⟩
/-- `MassProperties::new` (dim3) -/
def new (com : V3 K) (mass : K) (pi : V3 K) : MP3 K := withFrame com mass pi Quat.identity
def mass (p : MP3 K) : K := inv p.invMass
/-- `principal_inertia` (dim3) -/
def principalInertia (p : MP3 K) : V3 K :=
  ⟨inv (p.invI.x * p.invI.x), inv (p.invI.y * p.invI.y), inv (p.invI.z * p.invI.z)⟩
/-- `reconstruct_inertia_matrix`: `R · diag(I) · R⁻¹` -/
def reconstruct (p : MP3 K) : M3 K :=
  ((p.frame.toMat).mul (M3.diag p.principalInertia)).mul p.frame.inverse.toMat
/-- `construct_shifted_inertia_matrix` (dim3) -/
def shifted (p : MP3 K) (shift : V3 K) : M3 K :=
  let matrix := p.reconstruct
  if !(neq p.invMass 0) then
    let mass := 1 / p.invMass
    let diag := shift.normSq
    let diagm : M3 K := M3.diag ⟨diag, diag, diag⟩
    matrix.add ((diagm.sub (M3.outer shift)).smul mass)
  else matrix
/-- `transform_by` (dim3) -/
def transformBy (p : MP3 K) (m : Iso3 K) : MP3 K :=
  ⟨m.act p.com, p.invMass, p.invI, Quat.mul ⟨m.qi, m.qj, m.qk, m.qw⟩ p.frame⟩
def zero : MP3 K := ⟨V3.zero, 0, V3.zero, Quat.identity⟩
/-- `is_zero`: field-wise `==`; `UnitQuaternion == ` accepts `q` and `-q` -/
def isZero (p : MP3 K) : Bool :=
  neq p.com.x 0 && neq p.com.y 0 && neq p.com.z 0 && neq p.invMass 0 &&
  neq p.invI.x 0 && neq p.invI.y 0 && neq p.invI.z 0 &&
  ((neq p.frame.i 0 && neq p.frame.j 0 && neq p.frame.k 0 && neq p.frame.w 1) ||
   (neq p.frame.i (-0) && neq p.frame.j (-0) && neq p.frame.k (-0) && neq p.frame.w (-1)))

/-- what `Add`/`Sub`/`Sum` hand to `with_inertia_matrix`: `(mass, com, inertia matrix)`; the eigen-decomposition
(`symmetric_eigen`) that follows is not modelled — the correspondence compares `reconstruct_inertia_matrix` of the
result with this matrix under a relative tolerance. `none` = the early `return self/other`. -/
def addRaw (a b : MP3 K) : Option (K × V3 K × M3 K) :=
  if a.isZero then none
  else if b.isZero then none
  else
    let m1 := inv a.invMass
    let m2 := inv b.invMass
    let invMass := inv (m1 + m2)
    let com := ((a.com.smul m1).add (b.com.smul m2)).smul invMass
    let i1 := a.shifted (com.sub a.com)
    let i2 := b.shifted (com.sub b.com)
    some (m1 + m2, com, i1.add i2)

/-- observable triple `(mass(), local_com, reconstruct_inertia_matrix())` -/
def observe (p : MP3 K) : K × V3 K × M3 K := (p.mass, p.com, p.reconstruct)

/-- `a + b` as the observable triple -/
def addObs (a b : MP3 K) : K × V3 K × M3 K :=
  match addRaw a b with
  | some (m, c, i) => (inv (inv m), c, i)
  | none => if a.isZero then b.observe else a.observe

def subObs (a b : MP3 K) : K × V3 K × M3 K :=
  if a.isZero || b.isZero then a.observe
  else
    let m1 := inv a.invMass
    let m2 := inv b.invMass
    let newMass0 := m1 - m2
    let newMass := if newMass0 < eps32 then 0 else newMass0
    let invMass := inv newMass
    let com := ((a.com.smul m1).sub (b.com.smul m2)).smul invMass
    let i1 := a.shifted (com.sub a.com)
    let i2 := b.shifted (com.sub b.com)
    (inv (inv newMass), com, i1.sub i2)

def sumAcc (acc : K × V3 K) (p : MP3 K) : K × V3 K :=
  let mass := inv p.invMass
  (acc.1 + mass, acc.2.add (p.com.smul mass))

def sumObs (ps : List (MP3 K)) : K × V3 K × M3 K :=
  let acc := ps.foldl sumAcc (0, V3.zero)
  let totalMass := acc.1
  let totalCom := if 0 < totalMass then acc.2.sdiv totalMass else acc.2
  let totalInertia := ps.foldl (fun ti p => ti.add (p.shifted (totalCom.sub p.com))) M3.zero
  (inv (inv totalMass), totalCom, totalInertia)
end MP3

/-! ## 3-D closed forms -/

/-- `ball_volume_unit_angular_inertia` (dim3) -/
def ballVolInertia3 (pi radius : K) : K × V3 K :=
  let volume := pi * radius * radius * radius * lit 4 / lit 3
  let i := radius * radius * two / lit 5
  (volume, ⟨i, i, i⟩)

def fromBall3 (pi density radius : K) : MP3 K :=
  let vi := ballVolInertia3 pi radius
  let mass := vi.1 * density
  MP3.new V3.zero mass (vi.2.smul mass)

/-- `cuboid_volume_unit_inertia` (dim3) -/
def cuboidVolInertia3 (he : V3 K) : K × V3 K :=
  let volume := he.x * he.y * he.z * lit 8
  let ix := (he.x * he.x) / lit 3
  let iy := (he.y * he.y) / lit 3
  let iz := (he.z * he.z) / lit 3
  (volume, ⟨iy + iz, ix + iz, ix + iy⟩)

def fromCuboid3 (density : K) (he : V3 K) : MP3 K :=
  let vi := cuboidVolInertia3 he
  let mass := vi.1 * density
  MP3.new V3.zero mass (vi.2.smul mass)

/-- `cylinder_y_volume_unit_inertia` (dim3) -/
def cylinderVolInertia (pi halfHeight radius : K) : K × V3 K :=
  let volume := halfHeight * radius * radius * pi * two
  let sqRadius := radius * radius
  let sqHeight := halfHeight * halfHeight * lit 4
  let off := (sqRadius * lit 3 + sqHeight) / lit 12
  (volume, ⟨off, sqRadius / two, off⟩)

def fromCylinder (pi density halfHeight radius : K) : MP3 K :=
  let vi := cylinderVolInertia pi halfHeight radius
  let mass := vi.1 * density
  MP3.withFrame V3.zero mass (vi.2.smul mass) Quat.identity

/-- `cone_y_volume_unit_inertia` -/
def coneVolInertia (pi halfHeight radius : K) : K × V3 K :=
  let volume := radius * radius * pi * halfHeight * two / lit 3
  let sqRadius := radius * radius
  let sqHeight := halfHeight * halfHeight * lit 4
  let off := sqRadius * lit 3 / lit 20 + sqHeight * lit 3 / lit 80
  let principal := sqRadius * lit 3 / lit 10
  (volume, ⟨off, principal, off⟩)

def fromCone (pi density halfHeight radius : K) : MP3 K :=
  let vi := coneVolInertia pi halfHeight radius
  let mass := vi.1 * density
  MP3.withFrame ⟨0, -halfHeight / two, 0⟩ mass (vi.2.smul mass) Quat.identity

/-- `from_capsule` (dim3) without the principal frame (`Capsule::rotation_wrt_y`, built from `acos/sin/cos`, is judged
by the oracle only): `(local_com, inv_mass, inv_principal_inertia_sqrt)` -/
def fromCapsule3 (pi density : K) (a b : V3 K) (radius : K) : V3 K × K × V3 K :=
  let halfHeight := (b.sub a).norm / two
  let cyl := cylinderVolInertia pi halfHeight radius
  let ball := ballVolInertia3 pi radius
  let capVol := cyl.1 + ball.1
  let capMass := capVol * density
  let capI := ((cyl.2.smul cyl.1).add (ball.2.smul ball.1)).smul density
  let com := V3.center a b
  let h := halfHeight * two
  let extra := (h * h * lit 1 4 + h * radius * lit 3 / lit 8) * ball.1 * density
  let capI' : V3 K := ⟨capI.x + extra, capI.y, capI.z + extra⟩
  let p := MP3.withFrame com capMass capI' Quat.identity
  (p.com, p.invMass, p.invI)

end Mass
end Model
