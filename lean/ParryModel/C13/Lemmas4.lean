import ParryModel.C13.Lemmas
import ParryModel.C13.Lemmas3
import ParryModel.C13.Model4
/-!
# C13 lemmas for `with_inertia_matrix`: quaternion ↔ rotation matrix round trip, renormalisation, orthonormality

`UnitQ q` : `|q|² = 1`.  For a unit quaternion `toMat q` is a rotation matrix (`toMat_mul_transpose`), nalgebra's
`from_rotation_matrix` recovers `q` up to sign in each of its four branches (`fromRotMat_toMat`) and `renormalize` is the
identity (`renormalize_unit`).
-/
namespace C13
open Model Model.Mass

variable {K : Type} [Field K] [LinearOrder K] [IsStrictOrderedRing K] (sq : K → K)

/-- `|q|² = 1` -/
def UnitQ (q : Quat K) : Prop := q.i * q.i + q.j * q.j + q.k * q.k + q.w * q.w = 1

/-- identity matrix (spec side) -/
def mone : M3 K := ⟨⟨1, 0, 0⟩, ⟨0, 1, 0⟩, ⟨0, 0, 1⟩⟩

/-- `-q` (same rotation) -/
def qneg (q : Quat K) : Quat K := ⟨-q.i, -q.j, -q.k, -q.w⟩

theorem sqrt_mul_self (hs : LawfulSqrt sq) (a : K) : sq (a * a) = |a| := by
  have h1 := hs.sq_mul (a * a) (mul_self_nonneg a)
  have h2 := hs.nonneg (a * a) (mul_self_nonneg a)
  rcases mul_self_eq_mul_self_iff.1 h1 with h | h
  · have : 0 ≤ a := by linarith
    rw [abs_of_nonneg this]; exact h
  · have : a ≤ 0 := by linarith
    rw [abs_of_nonpos this]; exact h

theorem toMat_mul_transpose (q : Quat K) (hq : UnitQ q) :
    @M3.mul K (fieldNum K sq) (@Quat.toMat K (fieldNum K sq) q) (mtr (@Quat.toMat K (fieldNum K sq) q)) = mone := by
  rcases q with ⟨i, j, k, w⟩
  simp only [UnitQ] at hq
  simp only [Quat.toMat, M3.mul, mtr, mone, fieldNum_two]
  congr 1 <;> congr 1 <;> first | ring1 | linear_combination (i * i + j * j + k * k + w * w + 1) * hq

theorem toMat_transpose_mul (q : Quat K) (hq : UnitQ q) :
    @M3.mul K (fieldNum K sq) (mtr (@Quat.toMat K (fieldNum K sq) q)) (@Quat.toMat K (fieldNum K sq) q) = mone := by
  rcases q with ⟨i, j, k, w⟩
  simp only [UnitQ] at hq
  simp only [Quat.toMat, M3.mul, mtr, mone, fieldNum_two]
  congr 1 <;> congr 1 <;> first | ring1 | linear_combination (i * i + j * j + k * k + w * w + 1) * hq

theorem toMat_qneg (q : Quat K) :
    @Quat.toMat K (fieldNum K sq) (qneg q) = @Quat.toMat K (fieldNum K sq) q := by
  rcases q with ⟨i, j, k, w⟩
  simp only [Quat.toMat, qneg, fieldNum_two]
  congr 1 <;> congr 1 <;> ring

theorem unitQ_qneg (q : Quat K) (hq : UnitQ q) : UnitQ (qneg q) := by
  simp only [UnitQ, qneg] at *
  linear_combination hq

theorem renormalize_unit (hs : LawfulSqrt sq) (q : Quat K) (hq : UnitQ q) :
    @Quat.renormalize K (fieldNum K sq) q = q := by
  rcases q with ⟨i, j, k, w⟩
  simp only [UnitQ] at hq
  have e : sq (i * i + k * k + (j * j + w * w)) = 1 := by
    rw [show i * i + k * k + (j * j + w * w) = 1 * 1 by linear_combination hq, sqrt_mul_self sq hs, abs_one]
  simp only [Quat.renormalize, fieldNum_sqrt, e, div_one]

/-- nalgebra's `from_rotation_matrix` applied to the rotation matrix of a unit quaternion returns that quaternion up to
sign (all four branches) -/
theorem fromRotMat_toMat (hs : LawfulSqrt sq) (q : Quat K) (hq : UnitQ q) :
    @Quat.fromRotMat K (fieldNum K sq) (@Quat.toMat K (fieldNum K sq) q) = q ∨
    @Quat.fromRotMat K (fieldNum K sq) (@Quat.toMat K (fieldNum K sq) q) = qneg q := by
  rcases q with ⟨i, j, k, w⟩
  simp only [UnitQ] at hq
  have hl : ((mkRat 1 4 : ℚ) : K) = 1 / 4 := by norm_num
  simp only [Quat.fromRotMat, Quat.toMat, fieldNum_two, fieldNum_lit, fieldNum_sqrt, qneg, hl, Bool.and_eq_true, decide_eq_true_eq]
  split_ifs with h1 h2 h3
  · have e : sq (w * w + i * i - j * j - k * k + (w * w - i * i + j * j - k * k) + (w * w - i * i - j * j + k * k) + 1) = |2 * w| := by
      rw [show w * w + i * i - j * j - k * k + (w * w - i * i + j * j - k * k) + (w * w - i * i - j * j + k * k) + 1 = (2 * w) * (2 * w) by
        linear_combination (-1) * hq, sqrt_mul_self sq hs]
    have hw : w ≠ 0 := by rintro rfl; nlinarith [mul_self_nonneg i, mul_self_nonneg j, mul_self_nonneg k]
    rw [e]
    rcases lt_or_gt_of_ne hw with hn | hp
    · right; rw [abs_of_neg (by linarith)]
      congr 1 <;> (field_simp; ring)
    · left; rw [abs_of_pos (by linarith)]
      congr 1 <;> (field_simp; ring)
  · have e : sq (1 + (w * w + i * i - j * j - k * k) - (w * w - i * i + j * j - k * k) - (w * w - i * i - j * j + k * k)) = |2 * i| := by
      rw [show 1 + (w * w + i * i - j * j - k * k) - (w * w - i * i + j * j - k * k) - (w * w - i * i - j * j + k * k) = (2 * i) * (2 * i) by
        linear_combination (-1) * hq, sqrt_mul_self sq hs]
    have hw : i ≠ 0 := by rintro rfl; nlinarith [mul_self_nonneg j, mul_self_nonneg k, h2.1, h2.2]
    rw [e]
    rcases lt_or_gt_of_ne hw with hn | hp
    · right; rw [abs_of_neg (by linarith)]
      congr 1 <;> (field_simp; ring)
    · left; rw [abs_of_pos (by linarith)]
      congr 1 <;> (field_simp; ring)
  · have e : sq (1 + (w * w - i * i + j * j - k * k) - (w * w + i * i - j * j - k * k) - (w * w - i * i - j * j + k * k)) = |2 * j| := by
      rw [show 1 + (w * w - i * i + j * j - k * k) - (w * w + i * i - j * j - k * k) - (w * w - i * i - j * j + k * k) = (2 * j) * (2 * j) by
        linear_combination (-1) * hq, sqrt_mul_self sq hs]
    have hw : j ≠ 0 := by rintro rfl; nlinarith [mul_self_nonneg k, h3]
    rw [e]
    rcases lt_or_gt_of_ne hw with hn | hp
    · right; rw [abs_of_neg (by linarith)]
      congr 1 <;> (field_simp; ring)
    · left; rw [abs_of_pos (by linarith)]
      congr 1 <;> (field_simp; ring)
  · have e : sq (1 + (w * w - i * i - j * j + k * k) - (w * w + i * i - j * j - k * k) - (w * w - i * i + j * j - k * k)) = |2 * k| := by
      rw [show 1 + (w * w - i * i - j * j + k * k) - (w * w + i * i - j * j - k * k) - (w * w - i * i + j * j - k * k) = (2 * k) * (2 * k) by
        linear_combination (-1) * hq, sqrt_mul_self sq hs]
    have hw : k ≠ 0 := by
      rintro rfl
      have hj : j = 0 := mul_self_eq_zero.1 (by nlinarith [mul_self_nonneg j, h3])
      subst hj
      have hi : i = 0 := by
        by_contra hi
        have : 0 < i * i := mul_self_pos.2 hi
        exact h2 ⟨by nlinarith, by nlinarith⟩
      subst hi
      apply h1; nlinarith
    rw [e]
    rcases lt_or_gt_of_ne hw with hn | hp
    · right; rw [abs_of_neg (by linarith)]
      congr 1 <;> (field_simp; ring)
    · left; rw [abs_of_pos (by linarith)]
      congr 1 <;> (field_simp; ring)

theorem isZero3_spec (a : MP3 K) (h : @MP3.isZero K (fieldNum K sq) a = true) :
    massOf3 a = 0 ∧ a.com = ⟨0, 0, 0⟩ ∧ @MP3.reconstruct K (fieldNum K sq) a = ⟨⟨0, 0, 0⟩, ⟨0, 0, 0⟩, ⟨0, 0, 0⟩⟩ := by
  rcases a with ⟨⟨cx, cy, cz⟩, im, ⟨ix, iy, iz⟩, ⟨fi, fj, fk, fw⟩⟩
  simp only [MP3.isZero, fieldNum_neq', Bool.and_eq_true, Bool.or_eq_true, decide_eq_true_eq] at h
  obtain ⟨⟨⟨⟨⟨⟨⟨h1, h2⟩, h3⟩, h4⟩, h5⟩, h6⟩, h7⟩, -⟩ := h
  subst h1 h2 h3 h4 h5 h6 h7
  refine ⟨by simp [massOf3], rfl, ?_⟩
  simp [MP3.reconstruct, MP3.principalInertia, inv_spec, M3.mul, M3.diag]

theorem madd_zero_left (m : K) (c : V3 K) (X : M3 K) :
    madd (madd (⟨⟨0, 0, 0⟩, ⟨0, 0, 0⟩, ⟨0, 0, 0⟩⟩ : M3 K) (steiner3 0 c)) X = X := by
  rcases X with ⟨⟨a00, a01, a02⟩, ⟨a10, a11, a12⟩, ⟨a20, a21, a22⟩⟩
  simp [madd, steiner3]

theorem madd_zero_right (c : V3 K) (X : M3 K) :
    madd X (madd (⟨⟨0, 0, 0⟩, ⟨0, 0, 0⟩, ⟨0, 0, 0⟩⟩ : M3 K) (steiner3 0 c)) = X := by
  rcases X with ⟨⟨a00, a01, a02⟩, ⟨a10, a11, a12⟩, ⟨a20, a21, a22⟩⟩
  simp [madd, steiner3]


theorem m3_one_mul (A : M3 K) : @M3.mul K (fieldNum K sq) mone A = A := by
  rcases A with ⟨⟨a00, a01, a02⟩, ⟨a10, a11, a12⟩, ⟨a20, a21, a22⟩⟩
  simp only [M3.mul, mone]
  congr 1 <;> congr 1 <;> ring

theorem mtr_mul (A B : M3 K) :
    mtr (@M3.mul K (fieldNum K sq) A B) = @M3.mul K (fieldNum K sq) (mtr B) (mtr A) := by
  rcases A with ⟨⟨a00, a01, a02⟩, ⟨a10, a11, a12⟩, ⟨a20, a21, a22⟩⟩
  rcases B with ⟨⟨b00, b01, b02⟩, ⟨b10, b11, b12⟩, ⟨b20, b21, b22⟩⟩
  simp only [M3.mul, mtr]
  congr 1 <;> congr 1 <;> ring

theorem mtr_diag (d : V3 K) : mtr (@M3.diag K (fieldNum K sq) d) = @M3.diag K (fieldNum K sq) d := rfl

theorem mtr_mtr (A : M3 K) : mtr (mtr A) = A := rfl

theorem diag_mul_diag (d e : V3 K) :
    @M3.mul K (fieldNum K sq) (@M3.diag K (fieldNum K sq) d) (@M3.diag K (fieldNum K sq) e)
      = @M3.diag K (fieldNum K sq) ⟨d.x * e.x, d.y * e.y, d.z * e.z⟩ := by
  simp only [M3.mul, M3.diag]
  congr 1 <;> congr 1 <;> ring

theorem scaleCols_eq (A : M3 K) (s : V3 K) :
    @M3.scaleCols K (fieldNum K sq) A s = @M3.mul K (fieldNum K sq) A (@M3.diag K (fieldNum K sq) s) := by
  rcases A with ⟨⟨a00, a01, a02⟩, ⟨a10, a11, a12⟩, ⟨a20, a21, a22⟩⟩
  simp only [M3.mul, M3.diag, M3.scaleCols]
  congr 1 <;> congr 1 <;> ring

theorem transpose_eq (A : M3 K) : M3.transpose A = mtr A := rfl

theorem unitQ_mul (p q : Quat K) (hp : UnitQ p) (hq : UnitQ q) : UnitQ (@Quat.mul K (fieldNum K sq) p q) := by
  rcases p with ⟨a, b, c, d⟩; rcases q with ⟨e, f, g, h⟩
  simp only [UnitQ, Quat.mul, Iso3.qmul] at *
  linear_combination (e * e + f * f + g * g + h * h) * hp + hq

/-- `Tᵀ (T X) = X` and `T (Tᵀ X) = X` for the rotation matrix of a unit quaternion -/
theorem transpose_mul_cancel (q : Quat K) (hq : UnitQ q) (X : M3 K) :
    @M3.mul K (fieldNum K sq) (mtr (@Quat.toMat K (fieldNum K sq) q)) (@M3.mul K (fieldNum K sq) (@Quat.toMat K (fieldNum K sq) q) X) = X := by
  rw [← m3_mul_assoc, toMat_transpose_mul sq q hq, m3_one_mul]

/-- conjugates of diagonal matrices by a rotation multiply like the diagonals -/
theorem conj_diag_mul (q : Quat K) (hq : UnitQ q) (d e : V3 K) :
    let T := @Quat.toMat K (fieldNum K sq) q
    @M3.mul K (fieldNum K sq) (@M3.mul K (fieldNum K sq) (@M3.mul K (fieldNum K sq) T (@M3.diag K (fieldNum K sq) d)) (mtr T))
        (@M3.mul K (fieldNum K sq) (@M3.mul K (fieldNum K sq) T (@M3.diag K (fieldNum K sq) e)) (mtr T))
      = @M3.mul K (fieldNum K sq) (@M3.mul K (fieldNum K sq) T (@M3.diag K (fieldNum K sq) ⟨d.x * e.x, d.y * e.y, d.z * e.z⟩)) (mtr T) := by
  intro T
  simp only [m3_mul_assoc]
  rw [transpose_mul_cancel sq q hq, ← m3_mul_assoc sq (@M3.diag K (fieldNum K sq) d), diag_mul_diag]

/-! ### 3-D `Sum`: fold lemmas -/
def totMass3 (ps : List (MP3 K)) : K := (ps.map massOf3).sum
def totF3 (ps : List (MP3 K)) : V3 K :=
  ⟨(ps.map fun a => a.com.x * massOf3 a).sum, (ps.map fun a => a.com.y * massOf3 a).sum, (ps.map fun a => a.com.z * massOf3 a).sum⟩
/-- second-moment (inertia) tensor of one member about the ORIGIN: own tensor + Steiner term -/
def originTensor (a : MP3 K) : M3 K := madd (@MP3.reconstruct K (fieldNum K sq) a) (steiner3 (massOf3 a) a.com)
def totTensor3 (ps : List (MP3 K)) : M3 K := msum (ps.map (originTensor sq))

/-- the correction between "about `c`" and "about the origin" for a family with total mass `M` and first moment `F` -/
def gShift (M : K) (F c : V3 K) : M3 K :=
  let n := c.x * c.x + c.y * c.y + c.z * c.z
  let cf := c.x * F.x + c.y * F.y + c.z * F.z
  ⟨⟨M * (n - c.x * c.x) - 2 * cf + 2 * c.x * F.x, M * (0 - c.x * c.y) + c.x * F.y + F.x * c.y, M * (0 - c.x * c.z) + c.x * F.z + F.x * c.z⟩,
   ⟨M * (0 - c.y * c.x) + c.y * F.x + F.y * c.x, M * (n - c.y * c.y) - 2 * cf + 2 * c.y * F.y, M * (0 - c.y * c.z) + c.y * F.z + F.y * c.z⟩,
   ⟨M * (0 - c.z * c.x) + c.z * F.x + F.z * c.x, M * (0 - c.z * c.y) + c.z * F.y + F.z * c.y, M * (n - c.z * c.z) - 2 * cf + 2 * c.z * F.z⟩⟩

theorem foldl_sumAcc3 (ps : List (MP3 K)) (acc : K × V3 K) :
    (ps.foldl (@MP3.sumAcc K (fieldNum K sq)) acc).1 = acc.1 + totMass3 ps ∧
    (ps.foldl (@MP3.sumAcc K (fieldNum K sq)) acc).2.x = acc.2.x + (totF3 ps).x ∧
    (ps.foldl (@MP3.sumAcc K (fieldNum K sq)) acc).2.y = acc.2.y + (totF3 ps).y ∧
    (ps.foldl (@MP3.sumAcc K (fieldNum K sq)) acc).2.z = acc.2.z + (totF3 ps).z := by
  induction ps generalizing acc with
  | nil => simp [totMass3, totF3]
  | cons a l ih =>
    simp only [List.foldl_cons, totMass3, totF3, List.map_cons, List.sum_cons]
    obtain ⟨h1, h2, h3, h4⟩ := ih (@MP3.sumAcc K (fieldNum K sq) acc a)
    simp only [totMass3, totF3] at h1 h2 h3 h4
    rw [h1, h2, h3, h4]
    simp only [MP3.sumAcc, inv_spec, V3.add, V3.smul, massOf3]
    refine ⟨by ring, by ring, by ring, by ring⟩

theorem foldl_shifted3 (ps : List (MP3 K)) (tc : V3 K) (Z : M3 K) :
    ps.foldl (fun ti p => @M3.add K (fieldNum K sq) ti (@MP3.shifted K (fieldNum K sq) p (@V3.sub K (fieldNum K sq) tc p.com))) Z
      = madd Z (msum (ps.map fun p => madd (@MP3.reconstruct K (fieldNum K sq) p)
          (steiner3 (massOf3 p) ⟨tc.x - p.com.x, tc.y - p.com.y, tc.z - p.com.z⟩))) := by
  induction ps generalizing Z with
  | nil =>
    rcases Z with ⟨⟨a00, a01, a02⟩, ⟨a10, a11, a12⟩, ⟨a20, a21, a22⟩⟩
    simp [msum, madd, mzero]
  | cons a l ih =>
    simp only [List.foldl_cons, List.map_cons, msum, List.foldr_cons]
    rw [ih]
    simp only [shifted3_spec, V3.sub, msum, madd, M3.add, V3.add]
    congr 1 <;> congr 1 <;> ring

theorem msum_shift (ps : List (MP3 K)) (c : V3 K) :
    msum (ps.map fun p => madd (@MP3.reconstruct K (fieldNum K sq) p)
        (steiner3 (massOf3 p) ⟨c.x - p.com.x, c.y - p.com.y, c.z - p.com.z⟩))
      = madd (totTensor3 sq ps) (gShift (totMass3 ps) (totF3 ps) c) := by
  induction ps with
  | nil => simp [msum, madd, mzero, totTensor3, gShift, totMass3, totF3]
  | cons a l ih =>
    simp only [List.map_cons, msum, List.foldr_cons, totTensor3, totMass3, totF3, List.sum_cons] at ih ⊢
    rw [ih]
    simp only [madd, steiner3, gShift, originTensor]
    congr 1 <;> congr 1 <;> ring

theorem gShift_com (M : K) (F c : V3 K) (hx : F.x = c.x * M) (hy : F.y = c.y * M) (hz : F.z = c.z * M) (T : M3 K) :
    madd (madd mzero (madd T (gShift M F c))) (steiner3 M c) = T := by
  rcases T with ⟨⟨a00, a01, a02⟩, ⟨a10, a11, a12⟩, ⟨a20, a21, a22⟩⟩
  simp only [madd, mzero, gShift, steiner3, hx, hy, hz]
  congr 1 <;> congr 1 <;> ring

end C13
