import ParryModel.Field
import ParryModel.C13.Model
/-!
# C13: specification vocabulary and helper lemmas (not property obligations)

The `def`s of this file are the *specification side* of the C13 theorems (plain field expressions, no model code):
observables of a `MassProperties` value, moments of a family of parts, triangle / polygon closed forms.  The `theorem`s are
helpers: how the lawless `Num` operations (`neq`, `inv`, `sqrt`, folds) read at the lawful instance, polynomial identities,
list-sum manipulations.
-/
namespace C13
open Model Model.Mass

variable {K : Type} [Field K] [LinearOrder K] [IsStrictOrderedRing K] (sq : K → K)

theorem fieldNum_neq (a b : K) : @Model.neq K (fieldNum K sq) a b = true ↔ a = b := by
  unfold Model.neq
  simp only [Bool.and_eq_true, decide_eq_true_eq]
  exact ⟨fun h => le_antisymm h.1 h.2, fun h => ⟨h.le, h.ge⟩⟩

theorem inv_spec (v : K) : @Mass.inv K (fieldNum K sq) v = v⁻¹ := by
  unfold Mass.inv
  split_ifs with h
  · rw [fieldNum_neq] at h; subst h; simp
  · simp

/-- the mass a 2-D `MassProperties` value stands for (`inv_mass⁻¹`, with `0⁻¹ = 0` as in `utils::inv`) -/
def massOf (a : MP2 K) : K := a.invMass⁻¹
/-- the angular inertia about the centre of mass it stands for (`(inv_principal_inertia_sqrt²)⁻¹`) -/
def inertiaOf (a : MP2 K) : K := (a.invI * a.invI)⁻¹
/-- second (polar) moment about an arbitrary point `p`, by the parallel-axis theorem: `I + m |p − com|²` -/
def momentAbout (a : MP2 K) (p : V2 K) : K :=
  inertiaOf a + massOf a * ((p.x - a.com.x) ^ 2 + (p.y - a.com.y) ^ 2)

theorem fieldNum_neq' (a b : K) : @Model.neq K (fieldNum K sq) a b = decide (a = b) := by
  rcases h : decide (a = b) with _ | _
  · rw [Bool.eq_false_iff, Ne, fieldNum_neq]; simpa using h
  · rw [fieldNum_neq]; simpa using h

theorem shifted_spec (a : MP2 K) (s : V2 K) :
    letI := fieldNum K sq
    a.shifted s = inertiaOf a + massOf a * (s.x ^ 2 + s.y ^ 2) := by
  simp only [MP2.shifted, inv_spec, inertiaOf, massOf, V2.normSq, V2.dot, fieldNum_neq']
  by_cases h : a.invMass = 0
  · simp [h]
  · simp [h]; ring

theorem fieldNum_sqrt (x : K) : @Num.sqrt K (fieldNum K sq) x = sq x := rfl

theorem isZero_iff (a : MP2 K) :
    letI := fieldNum K sq
    a.isZero = true ↔ a.com.x = 0 ∧ a.com.y = 0 ∧ a.invMass = 0 ∧ a.invI = 0 := by
  simp only [MP2.isZero, fieldNum_neq', Bool.and_eq_true, decide_eq_true_eq]
  tauto

/-- `sqrt`-roundtrip of the stored inertia: for `x ≥ 0`, `((√x)⁻¹ · (√x)⁻¹)⁻¹ = x`. -/
theorem sqrt_roundtrip (hs : LawfulSqrt sq) (x : K) (hx : 0 ≤ x) : ((sq x)⁻¹ * (sq x)⁻¹)⁻¹ = x := by
  rw [← mul_inv, inv_inv, hs.sq_mul x hx]

omit [LinearOrder K] [IsStrictOrderedRing K] in
/-- pure field identity behind `+`: parallel-axis additivity about an arbitrary point -/
theorem add_core (m1 m2 c1x c1y c2x c2y px py : K) (hM : m1 + m2 ≠ 0) :
    let cx := (c1x * m1 + c2x * m2) * (m1 + m2)⁻¹
    let cy := (c1y * m1 + c2y * m2) * (m1 + m2)⁻¹
    m1 * ((cx - c1x) ^ 2 + (cy - c1y) ^ 2) + m2 * ((cx - c2x) ^ 2 + (cy - c2y) ^ 2)
      + (m1 + m2) * ((px - cx) ^ 2 + (py - cy) ^ 2)
    = m1 * ((px - c1x) ^ 2 + (py - c1y) ^ 2) + m2 * ((px - c2x) ^ 2 + (py - c2y) ^ 2) := by
  intro cx cy
  simp only [cx, cy]
  field_simp
  ring

/-- two values describe the same body up to moments: equal mass, first moment `mass·com`, and second moment about every point -/
def SameMoments (a b : MP2 K) : Prop :=
  massOf a = massOf b ∧ a.com.x * massOf a = b.com.x * massOf b ∧ a.com.y * massOf a = b.com.y * massOf b ∧
  ∀ p : V2 K, momentAbout a p = momentAbout b p


/-- Kahan's product on the sorted side lengths is Heron's symmetric polynomial -/
theorem heron_sorted (a0 b0 c0 : K) :
    letI := fieldNum K sq
    let s := sort3 a0 b0 c0
    (s.2.2 + (s.2.1 + s.1)) * (s.1 - (s.2.2 - s.2.1)) * (s.1 + (s.2.2 - s.2.1)) * (s.2.2 + (s.2.1 - s.1))
      = 2 * (a0*a0) * (b0*b0) + 2 * (b0*b0) * (c0*c0) + 2 * (c0*c0) * (a0*a0)
        - (a0*a0) * (a0*a0) - (b0*b0) * (b0*b0) - (c0*c0) * (c0*c0) := by
  simp only [sort3]
  split_ifs <;> ring

theorem normSq_nonneg (v : V2 K) : 0 ≤ @V2.normSq K (fieldNum K sq) v := by
  simp only [V2.normSq, V2.dot]; exact add_nonneg (mul_self_nonneg _) (mul_self_nonneg _)


theorem sqrt_zero (hs : LawfulSqrt sq) : sq 0 = 0 := by
  have := hs.sq_mul 0 le_rfl
  exact mul_self_eq_zero.1 this

/-- squared lengths of the three sides -/
def sumSqSides (t : Triangle2 K) : K :=
  ((t.b.x - t.a.x) ^ 2 + (t.b.y - t.a.y) ^ 2) + ((t.c.x - t.b.x) ^ 2 + (t.c.y - t.b.y) ^ 2)
    + ((t.a.x - t.c.x) ^ 2 + (t.a.y - t.c.y) ^ 2)


/-- twice the signed area -/
def cross (t : Triangle2 K) : K := (t.b.x - t.a.x) * (t.c.y - t.a.y) - (t.b.y - t.a.y) * (t.c.x - t.a.x)

theorem sumSqSides_pos (t : Triangle2 K) (h : cross t ≠ 0) : 0 < sumSqSides t := by
  unfold sumSqSides
  by_contra hn
  push Not at hn
  have h1 : (t.b.x - t.a.x) ^ 2 = 0 := by nlinarith [sq_nonneg (t.b.x - t.a.x), sq_nonneg (t.b.y - t.a.y), sq_nonneg (t.c.x - t.b.x), sq_nonneg (t.c.y - t.b.y), sq_nonneg (t.a.x - t.c.x), sq_nonneg (t.a.y - t.c.y)]
  have h2 : (t.b.y - t.a.y) ^ 2 = 0 := by nlinarith [sq_nonneg (t.b.x - t.a.x), sq_nonneg (t.b.y - t.a.y), sq_nonneg (t.c.x - t.b.x), sq_nonneg (t.c.y - t.b.y), sq_nonneg (t.a.x - t.c.x), sq_nonneg (t.a.y - t.c.y)]
  have e1 : t.b.x - t.a.x = 0 := by simpa using h1
  have e2 : t.b.y - t.a.y = 0 := by simpa using h2
  apply h; unfold cross; rw [e1, e2]; ring


theorem sumSqSides_nonneg (t : Triangle2 K) : 0 ≤ sumSqSides t := by
  unfold sumSqSides; positivity


/-! ### moments of a finite family of parts -/
/-- total mass / first moment (x, y) / second moment about `p` of a finite family of parts -/
def totMass (ps : List (MP2 K)) : K := (ps.map massOf).sum
def totFx (ps : List (MP2 K)) : K := (ps.map fun a => a.com.x * massOf a).sum
def totFy (ps : List (MP2 K)) : K := (ps.map fun a => a.com.y * massOf a).sum
def totMoment (ps : List (MP2 K)) (p : V2 K) : K := (ps.map fun a => momentAbout a p).sum

theorem list_parallel_axis (ps : List (MP2 K)) (p c : V2 K) :
    totMoment ps p = totMoment ps c + totMass ps * ((p.x ^ 2 + p.y ^ 2) - (c.x ^ 2 + c.y ^ 2))
      - 2 * (p.x - c.x) * totFx ps - 2 * (p.y - c.y) * totFy ps := by
  induction ps with
  | nil => simp [totMoment, totMass, totFx, totFy]
  | cons a l ih =>
    simp only [totMoment, totMass, totFx, totFy, List.map_cons, List.sum_cons] at ih ⊢
    simp only [momentAbout] at ih ⊢
    linear_combination ih

theorem list_parallel_axis_com (ps : List (MP2 K)) (p c : V2 K)
    (hx : c.x * totMass ps = totFx ps) (hy : c.y * totMass ps = totFy ps) :
    totMoment ps p = totMoment ps c + totMass ps * ((p.x - c.x) ^ 2 + (p.y - c.y) ^ 2) := by
  rw [list_parallel_axis ps p c, ← hx, ← hy]; ring

theorem inertiaOf_nonneg (a : MP2 K) : 0 ≤ inertiaOf a := inv_nonneg.2 (mul_self_nonneg _)

theorem totMoment_nonneg (ps : List (MP2 K)) (h : ∀ a ∈ ps, 0 ≤ a.invMass) (p : V2 K) : 0 ≤ totMoment ps p := by
  unfold totMoment
  apply List.sum_nonneg
  intro x hx
  simp only [List.mem_map] at hx
  obtain ⟨a, ha, rfl⟩ := hx
  have := inertiaOf_nonneg a
  have : 0 ≤ massOf a := inv_nonneg.2 (h a ha)
  unfold momentAbout; positivity

theorem massless_family (ps : List (MP2 K)) (h : ∀ a ∈ ps, 0 ≤ a.invMass) (h0 : totMass ps = 0) :
    totFx ps = 0 ∧ totFy ps = 0 := by
  induction ps with
  | nil => simp [totFx, totFy]
  | cons a l ih =>
    simp only [totMass, totFx, totFy, List.map_cons, List.sum_cons] at h0 ⊢
    have ha : 0 ≤ massOf a := inv_nonneg.2 (h a (by simp))
    have hl : 0 ≤ (l.map massOf).sum := by
      apply List.sum_nonneg; intro x hx; simp only [List.mem_map] at hx
      obtain ⟨b, hb, rfl⟩ := hx; exact inv_nonneg.2 (h b (by simp [hb]))
    have e1 : massOf a = 0 := by linarith
    have e2 : (l.map massOf).sum = 0 := by linarith
    obtain ⟨i1, i2⟩ := ih (fun b hb => h b (by simp [hb])) e2
    simp only [totFx, totFy] at i1 i2
    simp [e1, i1, i2]

theorem totMass_nonneg (ps : List (MP2 K)) (h : ∀ a ∈ ps, 0 ≤ a.invMass) : 0 ≤ totMass ps := by
  apply List.sum_nonneg; intro x hx; simp only [List.mem_map] at hx
  obtain ⟨b, hb, rfl⟩ := hx; exact inv_nonneg.2 (h b hb)

theorem foldl_sumAcc (ps : List (MP2 K)) (acc : K × V2 K) :
    letI := fieldNum K sq
    (ps.foldl MP2.sumAcc acc).1 = acc.1 + totMass ps ∧
    (ps.foldl MP2.sumAcc acc).2.x = acc.2.x + totFx ps ∧
    (ps.foldl MP2.sumAcc acc).2.y = acc.2.y + totFy ps := by
  induction ps generalizing acc with
  | nil => simp [totMass, totFx, totFy]
  | cons a l ih =>
    simp only [List.foldl_cons, totMass, totFx, totFy, List.map_cons, List.sum_cons]
    obtain ⟨h1, h2, h3⟩ := ih (@MP2.sumAcc K (fieldNum K sq) acc a)
    simp only [totMass, totFx, totFy] at h1 h2 h3
    rw [h1, h2, h3]
    simp only [MP2.sumAcc, inv_spec, V2.add, V2.smul, massOf]
    refine ⟨by ring, by ring, by ring⟩

theorem foldl_shifted (ps : List (MP2 K)) (tc : V2 K) (z : K) :
    letI := fieldNum K sq
    ps.foldl (fun ti p => ti + p.shifted (tc.sub p.com)) z = z + totMoment ps tc := by
  induction ps generalizing z with
  | nil => simp [totMoment]
  | cons a l ih =>
    simp only [List.foldl_cons, totMoment, List.map_cons, List.sum_cons]
    rw [ih]
    simp only [shifted_spec, V2.sub, totMoment, momentAbout]
    ring


theorem sum_weighted_zero {α : Type} (l : List α) (w f : α → K) (hw : ∀ x ∈ l, 0 ≤ w x) (h0 : (l.map w).sum = 0) :
    (l.map fun x => f x * w x).sum = 0 := by
  induction l with
  | nil => simp
  | cons a l ih =>
    simp only [List.map_cons, List.sum_cons] at h0 ⊢
    have ha : 0 ≤ w a := hw a (by simp)
    have hl : 0 ≤ (l.map w).sum := by
      apply List.sum_nonneg; intro x hx; simp only [List.mem_map] at hx
      obtain ⟨b, hb, rfl⟩ := hx; exact hw b (by simp [hb])
    have e1 : w a = 0 := by linarith
    have e2 : (l.map w).sum = 0 := by linarith
    rw [ih (fun b hb => hw b (by simp [hb])) e2, e1]; simp

theorem foldl_meshAcc (ts : List (Triangle2 K)) (acc : V2 K × K) :
    letI := fieldNum K sq
    (ts.foldl meshAcc acc).2 = acc.2 + (ts.map triArea).sum ∧
    (ts.foldl meshAcc acc).1.x = acc.1.x + (ts.map fun t => (triCenter t).x * triArea t).sum ∧
    (ts.foldl meshAcc acc).1.y = acc.1.y + (ts.map fun t => (triCenter t).y * triArea t).sum := by
  induction ts generalizing acc with
  | nil => simp
  | cons a l ih =>
    simp only [List.foldl_cons, List.map_cons, List.sum_cons]
    obtain ⟨h1, h2, h3⟩ := ih (@meshAcc K (fieldNum K sq) acc a)
    rw [h1, h2, h3]
    simp only [meshAcc, V2.add, V2.smul]
    refine ⟨by ring, by ring, by ring⟩

omit [LinearOrder K] [IsStrictOrderedRing K] in
theorem foldl_add_map {α : Type} (l : List α) (f : α → K) (z : K) :
    l.foldl (fun acc x => acc + f x) z = z + (l.map f).sum := by
  induction l generalizing z with
  | nil => simp
  | cons a l ih => simp only [List.foldl_cons, List.map_cons, List.sum_cons]; rw [ih]; ring


/-- field-wise zero test (the meaning of `is_zero`) -/
def IsZeroMP (a : MP2 K) : Prop := a.com.x = 0 ∧ a.com.y = 0 ∧ a.invMass = 0 ∧ a.invI = 0

theorem add_general (a b : MP2 K) (hza : ¬ IsZeroMP a) (hzb : ¬ IsZeroMP b) :
    letI := fieldNum K sq
    a.add b =
      (let m1 := a.invMass⁻¹; let m2 := b.invMass⁻¹
       let cx := (a.com.x * m1 + b.com.x * m2) * (m1 + m2)⁻¹
       let cy := (a.com.y * m1 + b.com.y * m2) * (m1 + m2)⁻¹
       ⟨⟨cx, cy⟩, (m1 + m2)⁻¹,
        (sq (inertiaOf a + massOf a * ((cx - a.com.x) ^ 2 + (cy - a.com.y) ^ 2)
            + (inertiaOf b + massOf b * ((cx - b.com.x) ^ 2 + (cy - b.com.y) ^ 2))))⁻¹⟩) := by
  unfold MP2.add
  rw [if_neg (by rw [isZero_iff]; exact hza), if_neg (by rw [isZero_iff]; exact hzb)]
  simp only [shifted_spec, inv_spec, V2.sub, V2.add, V2.smul, fieldNum_sqrt]

theorem sub_general (a b : MP2 K) (hza : ¬ IsZeroMP a) (hzb : ¬ IsZeroMP b) :
    letI := fieldNum K sq
    a.sub b =
      (let m1 := a.invMass⁻¹; let m2 := b.invMass⁻¹
       let nm := if m1 - m2 < 1 / 8388608 then 0 else m1 - m2
       let cx := (a.com.x * m1 - b.com.x * m2) * nm⁻¹
       let cy := (a.com.y * m1 - b.com.y * m2) * nm⁻¹
       let i0 := inertiaOf a + massOf a * ((cx - a.com.x) ^ 2 + (cy - a.com.y) ^ 2)
            - (inertiaOf b + massOf b * ((cx - b.com.x) ^ 2 + (cy - b.com.y) ^ 2))
       ⟨⟨cx, cy⟩, nm⁻¹, (sq (if i0 < 1 / 8388608 then 0 else i0))⁻¹⟩) := by
  have he : ((mkRat 1 8388608 : ℚ) : K) = 1 / 8388608 := by norm_num
  unfold MP2.sub
  rw [if_neg (by simp only [Bool.or_eq_true, isZero_iff]; exact not_or.2 ⟨hza, hzb⟩)]
  simp only [shifted_spec, inv_spec, V2.sub, V2.smul, fieldNum_sqrt, eps32, fieldNum_lit, he]


theorem act_invAct (m : Iso2 K) (hu : m.re * m.re + m.im * m.im = 1) (q : V2 K) :
    @Iso2.act K (fieldNum K sq) m (@Iso2.invAct K (fieldNum K sq) m q) = q := by
  rcases q with ⟨x, y⟩
  simp only [Iso2.act, Iso2.invAct, Iso2.rot, Iso2.invRot, V2.add, V2.sub]
  congr 1
  · linear_combination (x - m.t.x) * hu
  · linear_combination (y - m.t.y) * hu


/-- 2-D cross product of plain vectors (spec side) -/
def cr (a b : V2 K) : K := a.x * b.y - a.y * b.x

/-- shoelace sum `Σ v_i × v_{i+1}` over a list of edges (twice the signed area of a closed chain) -/
def shoelace (es : List (V2 K × V2 K)) : K := (es.map fun e => cr e.1 e.2).sum
/-- `Σ (v_i + v_{i+1}) (v_i × v_{i+1})`, x and y components (six times the first moment of a closed chain) -/
def shoelaceFx (es : List (V2 K × V2 K)) : K := (es.map fun e => (e.1.x + e.2.x) * cr e.1 e.2).sum
def shoelaceFy (es : List (V2 K × V2 K)) : K := (es.map fun e => (e.1.y + e.2.y) * cr e.1 e.2).sum

/-- telescoping along the path `hd → … → first` produced by `cyclicPairs first (hd :: l)` -/
theorem path_telescope (p first : V2 K) (l : List (V2 K)) (hd : V2 K) :
    let es := cyclicPairs first (hd :: l)
    (es.map fun e => cr ⟨e.1.x - p.x, e.1.y - p.y⟩ ⟨e.2.x - p.x, e.2.y - p.y⟩).sum
        = shoelace es + cr p hd - cr p first ∧
    (es.map fun e => (e.1.x + e.2.x + p.x) * cr ⟨e.1.x - p.x, e.1.y - p.y⟩ ⟨e.2.x - p.x, e.2.y - p.y⟩).sum
        = shoelaceFx es + (first.x + p.x) * cr p first * (-1) + (hd.x + p.x) * cr p hd ∧
    (es.map fun e => (e.1.y + e.2.y + p.y) * cr ⟨e.1.x - p.x, e.1.y - p.y⟩ ⟨e.2.x - p.x, e.2.y - p.y⟩).sum
        = shoelaceFy es + (first.y + p.y) * cr p first * (-1) + (hd.y + p.y) * cr p hd := by
  induction l generalizing hd with
  | nil =>
    simp only [cyclicPairs, shoelace, shoelaceFx, shoelaceFy, List.map_cons, List.map_nil, List.sum_cons, List.sum_nil, cr]
    refine ⟨by ring, by ring, by ring⟩
  | cons y r ih =>
    obtain ⟨i1, i2, i3⟩ := ih y
    simp only [cyclicPairs, shoelace, shoelaceFx, shoelaceFy, List.map_cons, List.sum_cons] at i1 i2 i3 ⊢
    rw [i1, i2, i3]
    simp only [cr]
    refine ⟨by ring, by ring, by ring⟩

theorem sum_map_div {α : Type} (l : List α) (f : α → K) (d : K) :
    (l.map fun x => f x / d).sum = (l.map f).sum / d := by
  induction l with
  | nil => simp
  | cons a l ih => simp only [List.map_cons, List.sum_cons, ih]; ring

theorem sum_map_mul_right {α : Type} (l : List α) (f : α → K) (d : K) :
    (l.map fun x => f x * d).sum = (l.map f).sum * d := by
  induction l with
  | nil => simp
  | cons a l ih => simp only [List.map_cons, List.sum_cons, ih]; ring

/-- polar second moment about `c` of a closed chain by the signed-triangle formula in `c`-centred coordinates:
`Σ (a'×b') (|a'|² + a'·b' + |b'|²) / 12`, `a' = a - c`, `b' = b - c` -/
def shoelaceJ (c : V2 K) (es : List (V2 K × V2 K)) : K :=
  (es.map fun e =>
    cr ⟨e.1.x - c.x, e.1.y - c.y⟩ ⟨e.2.x - c.x, e.2.y - c.y⟩ *
      (((e.1.x - c.x) ^ 2 + (e.1.y - c.y) ^ 2) + ((e.1.x - c.x) * (e.2.x - c.x) + (e.1.y - c.y) * (e.2.y - c.y))
        + ((e.2.x - c.x) ^ 2 + (e.2.y - c.y) ^ 2)) / 12).sum

/-- `p` sees every edge of the chain counter-clockwise (it lies in the kernel of the CCW polygon; for a convex CCW
polygon: any interior or boundary point) -/
def SeesCCW (p : V2 K) (es : List (V2 K × V2 K)) : Prop :=
  ∀ e ∈ es, 0 ≤ cr ⟨e.1.x - p.x, e.1.y - p.y⟩ ⟨e.2.x - p.x, e.2.y - p.y⟩


/-! ### 3-D observables (specification side) -/
def massOf3 (a : MP3 K) : K := a.invMass⁻¹
/-- principal inertias `(1/invI_k²)` -/
def inertiaOf3 (a : MP3 K) : V3 K :=
  ⟨(a.invI.x * a.invI.x)⁻¹, (a.invI.y * a.invI.y)⁻¹, (a.invI.z * a.invI.z)⁻¹⟩

theorem withFrame_obs (hs : LawfulSqrt sq) (c : V3 K) (m : K) (pi : V3 K) (f : Quat K)
    (hx : 0 ≤ pi.x) (hy : 0 ≤ pi.y) (hz : 0 ≤ pi.z) :
    massOf3 (@MP3.withFrame K (fieldNum K sq) c m pi f) = m ∧
    inertiaOf3 (@MP3.withFrame K (fieldNum K sq) c m pi f) = pi ∧
    (@MP3.withFrame K (fieldNum K sq) c m pi f).com = c ∧
    (@MP3.withFrame K (fieldNum K sq) c m pi f).frame = f := by
  simp only [MP3.withFrame, massOf3, inertiaOf3, inv_spec, inv_inv, fieldNum_sqrt,
    sqrt_roundtrip sq hs _ hx, sqrt_roundtrip sq hs _ hy, sqrt_roundtrip sq hs _ hz, and_self]

/-- `m (|c|² 1 − c cᵀ)`: the parallel-axis (Steiner) term of a point mass `m` at `c` -/
def steiner3 (m : K) (c : V3 K) : M3 K :=
  let n := c.x * c.x + c.y * c.y + c.z * c.z
  ⟨⟨m * (n - c.x * c.x), m * (0 - c.x * c.y), m * (0 - c.x * c.z)⟩,
   ⟨m * (0 - c.y * c.x), m * (n - c.y * c.y), m * (0 - c.y * c.z)⟩,
   ⟨m * (0 - c.z * c.x), m * (0 - c.z * c.y), m * (n - c.z * c.z)⟩⟩

/-- entrywise sum of matrices (spec side) -/
def madd (a b : M3 K) : M3 K :=
  ⟨⟨a.r0.x + b.r0.x, a.r0.y + b.r0.y, a.r0.z + b.r0.z⟩, ⟨a.r1.x + b.r1.x, a.r1.y + b.r1.y, a.r1.z + b.r1.z⟩,
   ⟨a.r2.x + b.r2.x, a.r2.y + b.r2.y, a.r2.z + b.r2.z⟩⟩

theorem shifted3_spec (p : MP3 K) (s : V3 K) :
    letI := fieldNum K sq
    p.shifted s = madd p.reconstruct (steiner3 (massOf3 p) s) := by
  simp only [MP3.shifted, fieldNum_neq', massOf3]
  by_cases h : p.invMass = 0
  · simp only [h, decide_true, Bool.not_true, Bool.false_eq_true, if_false, inv_zero, steiner3, madd, zero_mul, add_zero]
  · simp only [h, decide_false, Bool.not_false, if_true, M3.add, M3.sub, M3.smul, M3.diag, M3.outer, V3.add, V3.sub, V3.smul,
      V3.normSq, V3.dot, steiner3, madd, one_div]
    congr 1 <;> congr 1 <;> ring


/-- transpose (spec side) -/
def mtr (a : M3 K) : M3 K := ⟨⟨a.r0.x, a.r1.x, a.r2.x⟩, ⟨a.r0.y, a.r1.y, a.r2.y⟩, ⟨a.r0.z, a.r1.z, a.r2.z⟩⟩

theorem m3_mul_assoc (A B C : M3 K) :
    @M3.mul K (fieldNum K sq) (@M3.mul K (fieldNum K sq) A B) C = @M3.mul K (fieldNum K sq) A (@M3.mul K (fieldNum K sq) B C) := by
  rcases A with ⟨⟨a00, a01, a02⟩, ⟨a10, a11, a12⟩, ⟨a20, a21, a22⟩⟩
  rcases B with ⟨⟨b00, b01, b02⟩, ⟨b10, b11, b12⟩, ⟨b20, b21, b22⟩⟩
  rcases C with ⟨⟨c00, c01, c02⟩, ⟨c10, c11, c12⟩, ⟨c20, c21, c22⟩⟩
  simp only [M3.mul]
  congr 1 <;> congr 1 <;> ring

theorem toMat_mul (p q : Quat K) :
    @Quat.toMat K (fieldNum K sq) (@Quat.mul K (fieldNum K sq) p q)
      = @M3.mul K (fieldNum K sq) (@Quat.toMat K (fieldNum K sq) p) (@Quat.toMat K (fieldNum K sq) q) := by
  rcases p with ⟨a, b, c, d⟩; rcases q with ⟨e, f, g, h⟩
  simp only [Quat.mul, Quat.toMat, Iso3.qmul, M3.mul, fieldNum_two]
  congr 1 <;> congr 1 <;> ring

theorem toMat_inverse (q : Quat K) :
    @Quat.toMat K (fieldNum K sq) (@Quat.inverse K (fieldNum K sq) q) = mtr (@Quat.toMat K (fieldNum K sq) q) := by
  rcases q with ⟨e, f, g, h⟩
  simp only [Quat.inverse, Quat.toMat, mtr, fieldNum_two]
  congr 1 <;> congr 1 <;> ring

theorem inverse_mul (p q : Quat K) :
    @Quat.inverse K (fieldNum K sq) (@Quat.mul K (fieldNum K sq) p q)
      = @Quat.mul K (fieldNum K sq) (@Quat.inverse K (fieldNum K sq) q) (@Quat.inverse K (fieldNum K sq) p) := by
  rcases p with ⟨a, b, c, d⟩; rcases q with ⟨e, f, g, h⟩
  simp only [Quat.mul, Quat.inverse, Iso3.qmul]
  congr 1 <;> ring


end C13
