import ParryModel.C13.Model
/-!
# C13 model, part 2: 3-D `MassProperties::from_trimesh` (`mass_properties_trimesh3d.rs`)

Literal transliteration of `Tetrahedron::{signed_volume, center}`, `utils::center`, nalgebra's 3×3 `determinant`,
`tetrahedron_unit_inertia_tensor_wrt_point`, `trimesh_signed_volume_and_center_of_mass` and of the body of
`MassProperties::from_trimesh` (dim3) up to the triple `(local_com, mass, inertia matrix)` it hands to
`with_inertia_matrix` (the `symmetric_eigen` that follows is not modelled, as for `+ - Sum`).  `from_convex_polyhedron`
and `TriMesh::mass_properties` are this function.

The orientation handling is part of the model: `sign = volume.signum()` multiplies BOTH the mass and the accumulated
tensor, so that an inward-wound closed mesh (negative signed volume, negative-definite accumulated tensor) yields the
same positive mass and positive-definite tensor as the outward-wound one (`Theorems2.lean`, `from_trimesh3_flip`).
-/
namespace Model
namespace Mass
variable {K : Type} [Num K]

/-- `f64::signum`: `1.0` for positive numbers and `+0.0`, `-1.0` for negative numbers and `-0.0`, NaN for NaN.
The two zeros are told apart by the sign of `1/v` (`±∞` at `Float`; in a field `1/0 = 0`, giving `1`). -/
def signum (v : K) : K :=
  if v < 0 then -1
  else if 0 < v then 1
  else if neq v 0 then (if 1 / v < 0 then -1 else 1)
  else v

/-- nalgebra `Matrix3::determinant` (`linalg/determinant.rs`, the `3 =>` arm), matrix given by rows -/
def det3 (m : M3 K) : K :=
  let m11 := m.r0.x; let m12 := m.r0.y; let m13 := m.r0.z
  let m21 := m.r1.x; let m22 := m.r1.y; let m23 := m.r1.z
  let m31 := m.r2.x; let m32 := m.r2.y; let m33 := m.r2.z
  let minor_m12_m23 := m22 * m33 - m32 * m23
  let minor_m11_m23 := m21 * m33 - m31 * m23
  let minor_m11_m22 := m21 * m32 - m31 * m22
  m11 * minor_m12_m23 - m12 * minor_m11_m23 + m13 * minor_m11_m22

/-- `Tetrahedron::new(a, b, c, d).signed_volume()`: the edge vectors from `a` are the COLUMNS of the matrix -/
def tetSignedVolume (a b c d : V3 K) : K :=
  let p1p2 := b.sub a
  let p1p3 := c.sub a
  let p1p4 := d.sub a
  det3 ⟨⟨p1p2.x, p1p3.x, p1p4.x⟩, ⟨p1p2.y, p1p3.y, p1p4.y⟩, ⟨p1p2.z, p1p3.z, p1p4.z⟩⟩ / lit 6

/-- `utils::center(&[a, b, c, d])`: `a*denom + b*denom + c*denom + d*denom`, `denom = 1.0/4.0` -/
def tetCenter (a b c d : V3 K) : V3 K :=
  let denom : K := 1 / lit 4
  (((a.smul denom).add (b.smul denom)).add (c.smul denom)).add (d.smul denom)

/-- `utils::center(pts)` on a slice; `none` = the `assert!(!pts.is_empty())` panic -/
def center3 (pts : List (V3 K)) : Option (V3 K) :=
  match pts with
  | [] => none
  | p :: rest =>
    let denom : K := 1 / Num.ofRat (pts.length : Nat)
    some (rest.foldl (fun res pt => res.add (pt.smul denom)) (p.smul denom))

/-- `tetrahedron_unit_inertia_tensor_wrt_point(point, p1, p2, p3, p4)`: inertia tensor per unit volume of the
tetrahedron about `point` -/
def tetUnitInertia (point p1 p2 p3 p4 : V3 K) : M3 K :=
  let p1 := p1.sub point; let p2 := p2.sub point; let p3 := p3.sub point; let p4 := p4.sub point
  let x1 := p1.x; let y1 := p1.y; let z1 := p1.z
  let x2 := p2.x; let y2 := p2.y; let z2 := p2.z
  let x3 := p3.x; let y3 := p3.y; let z3 := p3.z
  let x4 := p4.x; let y4 := p4.y; let z4 := p4.z
  let diag_x := x1 * x1 + x1 * x2 + x2 * x2 + x1 * x3 + x2 * x3 + x3 * x3 + x1 * x4 + x2 * x4 + x3 * x4 + x4 * x4
  let diag_y := y1 * y1 + y1 * y2 + y2 * y2 + y1 * y3 + y2 * y3 + y3 * y3 + y1 * y4 + y2 * y4 + y3 * y4 + y4 * y4
  let diag_z := z1 * z1 + z1 * z2 + z2 * z2 + z1 * z3 + z2 * z3 + z3 * z3 + z1 * z4 + z2 * z4 + z3 * z4 + z4 * z4
  let a0 := (diag_y + diag_z) * lit 1 10
  let b0 := (diag_z + diag_x) * lit 1 10
  let c0 := (diag_x + diag_y) * lit 1 10
  let a1 := (y1 * z1 * two + y2 * z1 + y3 * z1 + y4 * z1
           + y1 * z2 + y2 * z2 * two + y3 * z2 + y4 * z2
           + y1 * z3 + y2 * z3 + y3 * z3 * two + y4 * z3
           + y1 * z4 + y2 * z4 + y3 * z4 + y4 * z4 * two) * lit 1 20
  let b1 := (x1 * z1 * two + x2 * z1 + x3 * z1 + x4 * z1
           + x1 * z2 + x2 * z2 * two + x3 * z2 + x4 * z2
           + x1 * z3 + x2 * z3 + x3 * z3 * two + x4 * z3
           + x1 * z4 + x2 * z4 + x3 * z4 + x4 * z4 * two) * lit 1 20
  let c1 := (x1 * y1 * two + x2 * y1 + x3 * y1 + x4 * y1
           + x1 * y2 + x2 * y2 * two + x3 * y2 + x4 * y2
           + x1 * y3 + x2 * y3 + x3 * y3 * two + x4 * y3
           + x1 * y4 + x2 * y4 + x3 * y4 + x4 * y4 * two) * lit 1 20
  ⟨⟨a0, -c1, -b1⟩, ⟨-c1, b0, -a1⟩, ⟨-b1, -a1, c0⟩⟩

/-- `vertices[t[k] as usize]` for the three corners of every index triple; `none` = index panic -/
def resolveTris3 (vs : Array (V3 K)) : List (Nat × Nat × Nat) → Option (List (Triangle3 K))
  | [] => some []
  | (i, j, k) :: rest =>
    match vs[i]?, vs[j]?, vs[k]? with
    | some a, some b, some c =>
      match resolveTris3 vs rest with
      | some ts => some (⟨a, b, c⟩ :: ts)
      | none => none
    | _, _, _ => none

/-- loop body of `trimesh_signed_volume_and_center_of_mass`: accumulators `(res, vol)` -/
def meshAcc3 (gc : V3 K) (acc : V3 K × K) (t : Triangle3 K) : V3 K × K :=
  let volume := tetSignedVolume gc t.a t.b t.c
  let center := tetCenter gc t.a t.b t.c
  (acc.1.add (center.smul volume), acc.2 + volume)

/-- `trimesh_signed_volume_and_center_of_mass` once the vertex average `gc` is known, on resolved triangles:
`(vol, if vol == 0 { gc } else { res / vol })` -/
def meshVolCom3 (gc : V3 K) (ts : List (Triangle3 K)) : K × V3 K :=
  let acc := ts.foldl (meshAcc3 gc) (V3.zero, 0)
  if neq acc.2 0 then (acc.2, gc) else (acc.2, acc.1.sdiv acc.2)

/-- `itot` loop of `from_trimesh` (dim3): tetrahedra `(com, p2, p3, p4)`, tensors about `com`, weighted by the
signed volume -/
def meshItot3 (com : V3 K) (ts : List (Triangle3 K)) : M3 K :=
  ts.foldl (fun itot t =>
    let vol := tetSignedVolume com t.a t.b t.c
    let ipart := tetUnitInertia com com t.a t.b t.c
    itot.add (ipart.smul vol)) M3.zero

/-- what `from_trimesh` (dim3) does after the vertex average is known.  `none` = the early
`return MassProperties::zero()`; `some (com, mass, inertia)` = the arguments of `with_inertia_matrix`. -/
def fromTrimesh3Raw (density : K) (gc : V3 K) (ts : List (Triangle3 K)) : Option (V3 K × K × M3 K) :=
  let vc := meshVolCom3 gc ts
  let volume := vc.1; let com := vc.2
  if neq volume 0 then none
  else
    let itot := meshItot3 com ts
    let sign := signum volume
    some (com, volume * density * sign, (itot.smul density).smul sign)

/-- outcome of `MassProperties::from_trimesh(density, vertices, indices)` (dim3) -/
inductive Mesh3Out (K : Type) where
  /-- `assert!` of `utils::center` on an empty vertex slice, or an out-of-bounds index -/
  | panic
  /-- `MassProperties::zero()` (zero signed volume) -/
  | zero
  /-- `with_inertia_matrix(com, mass, inertia)` -/
  | raw (com : V3 K) (mass : K) (inertia : M3 K)

/-- `MassProperties::from_trimesh` (dim3).  The vertex average is taken first (panics on an empty slice even when there
is no triangle), then the triangles are resolved in order. -/
def fromTrimesh3 (density : K) (vs : List (V3 K)) (idx : List (Nat × Nat × Nat)) : Mesh3Out K :=
  match center3 vs with
  | none => .panic
  | some gc =>
    match resolveTris3 vs.toArray idx with
    | none => .panic
    | some ts =>
      match fromTrimesh3Raw density gc ts with
      | none => .zero
      | some (c, m, i) => .raw c m i

/-- the mesh with every triangle's winding reversed (last two corners swapped) -/
def flipTris (ts : List (Triangle3 K)) : List (Triangle3 K) := ts.map fun t => ⟨t.a, t.c, t.b⟩

end Mass
end Model
