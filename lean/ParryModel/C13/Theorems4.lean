import ParryModel.C13.Theorems2
/-!
# C13 theorems, part 4: a primitive and ANY refinement of its tessellation agree (3-D `from_trimesh`)

Clause: "[mass properties] agree between a primitive and any fine tessellation of it".  `Theorems2.lean` proves that the
4-face tetrahedron and the 12-triangle box give the closed forms.  Here: refining a surface mesh — inserting a point in the
plane of a triangle (`insertPoint`, 1 → 3; the point may lie anywhere in the plane, the cones are signed) or the
midpoint subdivision (`midpoint4`, 1 → 4) — changes none of the signed cone sums (volume, first moment, inertia tensor about
any point, from any apex), keeps the surface closed, and therefore leaves the result of `from_trimesh` unchanged, whatever
vertex average the refined vertex list has (`from_trimesh3_refine`).  Iterating (`refineN`) gives: every level of midpoint
subdivision of the 12-triangle box (`12·4ⁿ` triangles) returns exactly `from_cuboid` (`from_trimesh3_box_refined`), and of
the 4-face tetrahedron the solid tetrahedron (`from_trimesh3_tetra_refined`).
-/
namespace C13
open Model Model.Mass

variable {K : Type} [Field K] [LinearOrder K] [IsStrictOrderedRing K] (sq : K → K)

/-- 1 → 3: the triangle `(a,b,c)` replaced by `(a,b,p)`, `(b,c,p)`, `(c,a,p)` -/
def insertPoint (t : Triangle3 K) (p : V3 K) : List (Triangle3 K) := [⟨t.a, t.b, p⟩, ⟨t.b, t.c, p⟩, ⟨t.c, t.a, p⟩]
/-- midpoint of a segment (spec side) -/
def midT3 (a b : V3 K) : V3 K := ⟨(a.x + b.x) / 2, (a.y + b.y) / 2, (a.z + b.z) / 2⟩
/-- 1 → 4: midpoint subdivision, windings kept -/
def midpoint4 (t : Triangle3 K) : List (Triangle3 K) :=
  [⟨t.a, midT3 t.a t.b, midT3 t.c t.a⟩, ⟨midT3 t.a t.b, t.b, midT3 t.b t.c⟩, ⟨midT3 t.c t.a, midT3 t.b t.c, t.c⟩,
   ⟨midT3 t.a t.b, midT3 t.b t.c, midT3 t.c t.a⟩]

/-- a local refinement rule `f` keeps every signed cone sum of every triangle -/
def ConeEq (f : Triangle3 K → List (Triangle3 K)) : Prop :=
  ∀ (t : Triangle3 K) (o r : V3 K), coneVol o (f t) = coneVol o [t] ∧ coneFirst o (f t) = coneFirst o [t] ∧
    coneInertia r o (f t) = coneInertia r o [t]

/-- two triangle lists have the same signed cone sums (from every apex, about every point) -/
def SameCones (ts us : List (Triangle3 K)) : Prop :=
  ∀ o r : V3 K, coneVol o ts = coneVol o us ∧ coneFirst o ts = coneFirst o us ∧ coneInertia r o ts = coneInertia r o us

omit [LinearOrder K] [IsStrictOrderedRing K] in
private theorem mdot_madd (w a b : M3 K) : mdot w (madd a b) = mdot w a + mdot w b := by
  simp only [mdot, madd]; ring

omit [LinearOrder K] [IsStrictOrderedRing K] in
private theorem mdot_mzero (w : M3 K) : mdot w mzero = 0 := by simp [mdot, mzero]

omit [LinearOrder K] [IsStrictOrderedRing K] in
/-- moving the first vertex of a tetrahedron to the last place is an odd permutation: the signed tensor changes sign -/
private theorem rot4_inertia (w : M3 K) (r x y u v : V3 K) :
    mdot w (mscale (unitInertia4 r x y u v) (vol4 x y u v)) = -mdot w (mscale (unitInertia4 r y u v x) (vol4 y u v x)) := by
  have e1 : unitInertia4 r x y u v = unitInertia4 r y u v x := by
    simp only [unitInertia4, cov4]; congr 1 <;> congr 1 <;> ring
  have e2 : vol4 x y u v = -vol4 y u v x := by simp only [vol4]; ring
  rw [e1, e2]; simp only [mdot, mscale]; ring

omit [LinearOrder K] [IsStrictOrderedRing K] in
private theorem cone_append (o r : V3 K) (l1 l2 : List (Triangle3 K)) :
    coneVol o (l1 ++ l2) = coneVol o l1 + coneVol o l2 ∧ coneFirst o (l1 ++ l2) = vadd3 (coneFirst o l1) (coneFirst o l2) ∧
    coneInertia r o (l1 ++ l2) = madd (coneInertia r o l1) (coneInertia r o l2) := by
  induction l1 with
  | nil =>
    refine ⟨by simp [coneVol], ?_, ?_⟩
    · simp only [List.nil_append, coneFirst, List.map_nil, vsum3, List.foldr_nil, vadd3]
      simp
    · simp only [List.nil_append]
      exact (zero_madd _).symm
  | cons t l ih =>
    obtain ⟨h1, h2, h3⟩ := ih
    simp only [List.cons_append]
    rw [coneVol_cons, coneVol_cons, coneFirst_cons, coneFirst_cons, coneInertia_cons, coneInertia_cons, h1, h2, h3,
      vadd3_assoc, madd_assoc]
    exact ⟨by ring, rfl, rfl⟩

/-- **point insertion (1 → 3)**: for a point `p` in the plane of the triangle (`vol4 p a b c = 0`; inside or outside the
triangle — the cones are signed) the three cones over `(a,b,p)`, `(b,c,p)`, `(c,a,p)` have together the signed volume,
first moment and inertia tensor of the cone over `(a,b,c)`, from every apex `o` and about every point `r`. -/
theorem cone_sums_insert_point (t : Triangle3 K) (p : V3 K) (hp : vol4 p t.a t.b t.c = 0) (o r : V3 K) :
    coneVol o (insertPoint t p) = coneVol o [t] ∧ coneFirst o (insertPoint t p) = coneFirst o [t] ∧
    coneInertia r o (insertPoint t p) = coneInertia r o [t] := by
  rcases t with ⟨a, b, c⟩
  simp only at hp
  refine ⟨?_, ?_, ?_⟩
  · simp only [insertPoint, coneVol, List.map_cons, List.map_nil, List.sum_cons, List.sum_nil]
    simp only [vol4] at hp ⊢
    linear_combination (-1 : K) * hp
  · simp only [insertPoint, coneFirst, List.map_cons, List.map_nil, vsum3, List.foldr_cons, List.foldr_nil, vadd3]
    simp only [vol4] at hp ⊢
    congr 1
    · linear_combination (-(p.x + a.x + b.x + c.x) / 4) * hp
    · linear_combination (-(p.y + a.y + b.y + c.y) / 4) * hp
    · linear_combination (-(p.z + a.z + b.z + c.z) / 4) * hp
  · apply m3_eq_of_mdot
    intro w
    simp only [insertPoint, coneInertia, List.map_cons, List.map_nil, msum, List.foldr_cons, List.foldr_nil, mdot_madd,
      mdot_mzero]
    have h5 := five_inertia w r o p a b c
    have hz : mdot w (mscale (unitInertia4 r p a b c) (vol4 p a b c)) = 0 := by
      rw [hp]; simp [mdot, mscale]
    have r1 := rot4_inertia w r p o b c
    have r2 := rot4_inertia w r p o c a
    have r3 := rot4_inertia w r p o a b
    linear_combination (-1 : K) * h5 - hz + r1 + r2 + r3

/-- **midpoint subdivision (1 → 4)**: the four cones over the sub-triangles have together the signed volume, first moment
and inertia tensor of the cone over the parent triangle (polynomial identities, no hypothesis). -/
theorem cone_sums_midpoint4 : ConeEq (midpoint4 (K := K)) := by
  intro t o r
  rcases t with ⟨a, b, c⟩
  refine ⟨?_, ?_, ?_⟩
  · simp only [midpoint4, midT3, coneVol, List.map_cons, List.map_nil, List.sum_cons, List.sum_nil, vol4]
    ring
  · simp only [midpoint4, midT3, coneFirst, List.map_cons, List.map_nil, vsum3, List.foldr_cons, List.foldr_nil, vadd3, vol4]
    congr 1 <;> ring
  · simp only [midpoint4, midT3, coneInertia, List.map_cons, List.map_nil, msum, List.foldr_cons, List.foldr_nil, madd,
      mscale, mzero, unitInertia4, cov4, vol4]
    congr 1 <;> congr 1 <;> ring

omit [LinearOrder K] [IsStrictOrderedRing K] in
/-- refining every triangle by a rule that keeps the cone sums keeps the cone sums of the mesh -/
theorem refine_cone_sums (f : Triangle3 K → List (Triangle3 K)) (hf : ConeEq f) (ts : List (Triangle3 K)) :
    SameCones (ts.flatMap f) ts := by
  intro o r
  induction ts with
  | nil => exact ⟨rfl, rfl, rfl⟩
  | cons t ts ih =>
    obtain ⟨h1, h2, h3⟩ := ih
    obtain ⟨a1, a2, a3⟩ := cone_append o r (f t) (ts.flatMap f)
    obtain ⟨f1, f2, f3⟩ := hf t o r
    obtain ⟨b1, b2, b3⟩ := cone_append o r [t] ts
    simp only [List.flatMap_cons]
    rw [a1, a2, a3, h1, h2, h3, f1, f2, f3]
    exact ⟨b1.symm, b2.symm, b3.symm⟩

/-- **refinement keeps the surface closed**: inserting a point into each triangle (any choice `pt t`, e.g. a vertex of the
triangle itself = no change) keeps the boundary of every triangle; midpoint subdivision of ALL triangles splits every
directed edge and its reverse at the same point. -/
theorem closed3_refine (ts : List (Triangle3 K)) (hc : Closed3 ts) (pt : Triangle3 K → V3 K) :
    Closed3 (ts.flatMap fun t => insertPoint t (pt t)) ∧ Closed3 (ts.flatMap midpoint4) := by
  constructor
  · intro E hE
    have h := hc E hE
    rw [sum_edges3] at h ⊢
    have e : ∀ l : List (Triangle3 K),
        ((l.flatMap fun t => insertPoint t (pt t)).map fun t => E t.a t.b + E t.b t.c + E t.c t.a).sum
          = (l.map fun t => E t.a t.b + E t.b t.c + E t.c t.a).sum := by
      intro l
      induction l with
      | nil => rfl
      | cons t l ih =>
        simp only [List.flatMap_cons, List.map_append, List.sum_append, List.map_cons, List.sum_cons] at ih ⊢
        rw [ih]
        simp only [insertPoint, List.map_cons, List.map_nil, List.sum_cons, List.sum_nil]
        linarith [hE t.a (pt t), hE t.b (pt t), hE t.c (pt t)]
    rw [e]; exact h
  · intro E hE
    have hm : ∀ p q : V3 K, midT3 q p = midT3 p q := by
      intro p q; simp only [midT3]; congr 1 <;> ring
    let E' : V3 K → V3 K → K := fun p q => E p (midT3 p q) + E (midT3 p q) q
    have hE' : ∀ p q, E' q p = -E' p q := by
      intro p q
      simp only [E']
      rw [hm p q]
      linarith [hE q (midT3 p q), hE (midT3 p q) p]
    have h : (ts.map fun t => E' t.a t.b + E' t.b t.c + E' t.c t.a).sum = 0 :=
      (sum_edges3 E' ts).symm.trans (hc E' hE')
    rw [sum_edges3]
    have e : ∀ l : List (Triangle3 K),
        ((l.flatMap midpoint4).map fun t => E t.a t.b + E t.b t.c + E t.c t.a).sum
          = (l.map fun t => E' t.a t.b + E' t.b t.c + E' t.c t.a).sum := by
      intro l
      induction l with
      | nil => rfl
      | cons t l ih =>
        simp only [List.flatMap_cons, List.map_append, List.sum_append, List.map_cons, List.sum_cons] at ih ⊢
        rw [ih]
        simp only [midpoint4, List.map_cons, List.map_nil, List.sum_cons, List.sum_nil, E']
        linarith [hE (midT3 t.a t.b) (midT3 t.c t.a), hE (midT3 t.a t.b) (midT3 t.b t.c), hE (midT3 t.c t.a) (midT3 t.b t.c)]
    rw [e]; exact h

/-- **`from_trimesh` sees only the cone sums of a closed surface**: two closed surfaces with the same signed cone sums
get the same `(com, mass, tensor)` — or both the zero-volume `zero()` — whatever their vertex averages `gc`, `gc'`. -/
theorem from_trimesh3_refine (ρ : K) (gc gc' : V3 K) (ts us : List (Triangle3 K)) (hc : Closed3 ts) (hc' : Closed3 us)
    (h : SameCones us ts) :
    letI := fieldNum K sq
    fromTrimesh3Raw ρ gc' us = fromTrimesh3Raw ρ gc ts := by
  have a := from_trimesh3_closed sq ρ gc ⟨0, 0, 0⟩ ts hc
  have b := from_trimesh3_closed sq ρ gc' ⟨0, 0, 0⟩ us hc'
  simp only at a b
  rw [a, b, (h ⟨0, 0, 0⟩ ⟨0, 0, 0⟩).1, (h ⟨0, 0, 0⟩ ⟨0, 0, 0⟩).2.1, (h ⟨0, 0, 0⟩ _).2.2]

/-- `n` levels of midpoint subdivision -/
def refineN : Nat → List (Triangle3 K) → List (Triangle3 K)
  | 0, ts => ts
  | n + 1, ts => refineN n (ts.flatMap midpoint4)

omit [LinearOrder K] [IsStrictOrderedRing K] in
private theorem length_flatMap_midpoint4 (ts : List (Triangle3 K)) : (ts.flatMap midpoint4).length = 4 * ts.length := by
  induction ts with
  | nil => rfl
  | cons t l ih =>
    simp only [List.flatMap_cons, List.length_append, List.length_cons, ih, midpoint4, List.length_nil]
    omega

/-- `n` levels of midpoint subdivision of a closed surface: still closed, same cone sums, `4ⁿ` times the triangles -/
theorem refineN_spec (n : Nat) (ts : List (Triangle3 K)) (hc : Closed3 ts) :
    Closed3 (refineN n ts) ∧ SameCones (refineN n ts) ts ∧ (refineN n ts).length = 4 ^ n * ts.length := by
  induction n generalizing ts with
  | zero => exact ⟨hc, fun _ _ => ⟨rfl, rfl, rfl⟩, by simp [refineN]⟩
  | succ n ih =>
    have hc1 := (closed3_refine ts hc (fun t => t.a)).2
    obtain ⟨h1, h2, h3⟩ := ih (ts.flatMap midpoint4) hc1
    refine ⟨h1, ?_, ?_⟩
    · intro o r
      obtain ⟨x1, x2, x3⟩ := h2 o r
      obtain ⟨y1, y2, y3⟩ := refine_cone_sums midpoint4 cone_sums_midpoint4 ts o r
      exact ⟨x1.trans y1, x2.trans y2, x3.trans y3⟩
    · simp only [refineN]
      rw [h3, length_flatMap_midpoint4, pow_succ]; ring

/-- **every refined mesh of a closed surface gives the same mass properties**: `n` levels of midpoint subdivision, and
then a point inserted in the plane of every triangle, change nothing. -/
theorem from_trimesh3_subdivided (ρ : K) (gc gc' : V3 K) (ts : List (Triangle3 K)) (hc : Closed3 ts) (n : Nat)
    (pt : Triangle3 K → V3 K) (hpt : ∀ t, vol4 (pt t) t.a t.b t.c = 0) :
    letI := fieldNum K sq
    fromTrimesh3Raw ρ gc' ((refineN n ts).flatMap fun t => insertPoint t (pt t)) = fromTrimesh3Raw ρ gc ts := by
  obtain ⟨h1, h2, -⟩ := refineN_spec n ts hc
  apply from_trimesh3_refine sq ρ gc gc' ts _ hc (closed3_refine _ h1 pt).1
  intro o r
  obtain ⟨x1, x2, x3⟩ := refine_cone_sums (fun t => insertPoint t (pt t))
    (fun t o r => cone_sums_insert_point t (pt t) (hpt t) o r) (refineN n ts) o r
  obtain ⟨y1, y2, y3⟩ := h2 o r
  exact ⟨x1.trans y1, x2.trans y2, x3.trans y3⟩

/-- **cuboid vs. every level of refinement of its tessellation**: the `12·4ⁿ`-triangle box (and then one more point per
triangle, e.g. its centroid) returns exactly the closed form of `from_cuboid`: centre `0`, mass `8ρ·hx·hy·hz`, tensor
`m/3·diag(hy²+hz², hx²+hz², hx²+hy²)` — wound outwards or inwards, for every vertex average. -/
theorem from_trimesh3_box_refined (ρ : K) (gc h : V3 K) (hx : 0 < h.x) (hy : 0 < h.y) (hz : 0 < h.z) (n : Nat)
    (pt : Triangle3 K → V3 K) (hpt : ∀ t, vol4 (pt t) t.a t.b t.c = 0) :
    letI := fieldNum K sq
    let m := 8 * ρ * h.x * h.y * h.z
    let want := some ((⟨0, 0, 0⟩ : V3 K), m,
      (⟨⟨m * (h.y * h.y + h.z * h.z) / 3, 0, 0⟩, ⟨0, m * (h.x * h.x + h.z * h.z) / 3, 0⟩, ⟨0, 0, m * (h.x * h.x + h.y * h.y) / 3⟩⟩ : M3 K))
    fromTrimesh3Raw ρ gc ((refineN n (boxTris h)).flatMap fun t => insertPoint t (pt t)) = want ∧
    fromTrimesh3Raw ρ gc ((refineN n (flipTris (boxTris h))).flatMap fun t => insertPoint t (pt t)) = want := by
  intro m want
  obtain ⟨b1, b2⟩ := from_trimesh3_box sq ρ gc h hx hy hz
  have hcb := (tetra_box_closed gc gc gc gc h).2
  exact ⟨(from_trimesh3_subdivided sq ρ gc gc _ hcb n pt hpt).trans b1,
    (from_trimesh3_subdivided sq ρ gc gc _ (closed3_flip_append _ _ hcb hcb).1 n pt hpt).trans b2⟩

/-- the centroid of a triangle lies in its plane (hypothesis `hpt` is satisfiable for every mesh), and so does every
affine combination of the corners — also outside the triangle -/
theorem centroid_in_plane (t : Triangle3 K) (u v : K) :
    vol4 (⟨(t.a.x + t.b.x + t.c.x) / 3, (t.a.y + t.b.y + t.c.y) / 3, (t.a.z + t.b.z + t.c.z) / 3⟩ : V3 K) t.a t.b t.c = 0 ∧
    vol4 (⟨t.a.x + u * (t.b.x - t.a.x) + v * (t.c.x - t.a.x), t.a.y + u * (t.b.y - t.a.y) + v * (t.c.y - t.a.y),
      t.a.z + u * (t.b.z - t.a.z) + v * (t.c.z - t.a.z)⟩ : V3 K) t.a t.b t.c = 0 := by
  constructor <;> (simp only [vol4]; ring)

/-- non-vacuity: one level of subdivision of the unit-ish box `1×2×3` has 48 triangles, then 144 after centroid insertion -/
example : ((refineN 1 (boxTris (⟨1, 2, 3⟩ : V3 ℚ))).flatMap fun t => insertPoint t
    ⟨(t.a.x + t.b.x + t.c.x) / 3, (t.a.y + t.b.y + t.c.y) / 3, (t.a.z + t.b.z + t.c.z) / 3⟩).length = 144 := by
  simp [refineN, boxTris, midpoint4, insertPoint]

end C13
