import ParryModel.Proto
import ParryModel.C13.Model
import ParryModel.C13.Model3
/-!
C13 protocol handlers: model evaluation at `Float` (bit-exact against parry2d-f64 / parry3d-f64) and exact-`Rat`
oracles on the implementation's output.

The oracles never call the model functions: polygon / triangle moments are recomputed by *signed-triangle sums* with the
edge-midpoint quadrature rule (exact for quadratics), round shapes by their closed forms with `π` = the binary64
constant, `+ - sum transform_by` by the additivity / covariance identities of the moments about the origin.
-/
namespace C13
open Model Model.Mass Proto

/-- binary64 `core::f64::consts::PI` -/
instance : Inhabited (V2 Rat) := ⟨⟨0, 0⟩⟩

def piF : Float := Float.ofBits 0x400921FB54442D18
def piQ : Rat := q piF

/-! ## printers / parsers -/
def fmp2 (p : MP2 Float) : String := s!"{fv2 p.com} {ff p.invMass} {ff p.invI}"
def pmp2 : P (MP2 Float) := do let c ← pv2; let im ← pf; let ii ← pf; pure ⟨c, im, ii⟩
def pomp2 : P (MP2 Float) := do let x ← pfo; let y ← pfo; let im ← pfo; let ii ← pfo; pure ⟨⟨x, y⟩, im, ii⟩
def ptri2 : P (Triangle2 Float) := do let a ← pv2; let b ← pv2; let c ← pv2; pure ⟨a, b, c⟩
def pidx : P (Nat × Nat × Nat) := do let i ← pnat; let j ← pnat; let k ← pnat; pure (i, j, k)
def fopt (o : Option (MP2 Float)) : String := match o with | some p => fmp2 p | none => "panic"

def withOut {α} (p : P α) (out : List String) (k : α → String) : String :=
  match out with
  | "panic" :: _ => "fail panic"
  | _ => match run p out with
    | some a => k a
    | none => "fail unparsable-output"

/-! ## exact helpers (independent of the model) -/
def tol : Rat := 1 / 1000000000
/-- `|x - y| ≤ 1e-9 · scale` -/
def close (x y scale : Rat) : Bool := rabs (x - y) ≤ tol * scale
def rinv (x : Rat) : Rat := if x = 0 then 0 else 1 / x
def rmax (a b : Rat) : Rat := if a < b then b else a
def cross2 (a b : V2 Rat) : Rat := a.x * b.y - a.y * b.x
def nsq (a : V2 Rat) : Rat := a.x * a.x + a.y * a.y
def vsub (a b : V2 Rat) : V2 Rat := ⟨a.x - b.x, a.y - b.y⟩
def vadd (a b : V2 Rat) : V2 Rat := ⟨a.x + b.x, a.y + b.y⟩
def vscale (a : V2 Rat) (s : Rat) : V2 Rat := ⟨a.x * s, a.y * s⟩
def mid (a b : V2 Rat) : V2 Rat := ⟨(a.x + b.x) / 2, (a.y + b.y) / 2⟩

/-- exact moments of one triangle, weight `w·|signed area|`: `(area, first moment, polar moment about the origin)`;
second moment by the edge-midpoint rule `∫_T f = A/3 · Σ f(m_k)` (exact for quadratics) -/
def triMom (a b c : V2 Rat) : Rat × V2 Rat × Rat :=
  let A := rabs (cross2 (vsub b a) (vsub c a)) / 2
  let g : V2 Rat := ⟨(a.x + b.x + c.x) / 3, (a.y + b.y + c.y) / 3⟩
  let j := A / 3 * (nsq (mid a b) + nsq (mid b c) + nsq (mid c a))
  (A, vscale g A, j)

/-- signed version (for polygons given by their boundary): fan from the origin -/
def polyMom (vs : List (V2 Rat)) : Rat × V2 Rat × Rat :=
  match vs with
  | [] => (0, ⟨0, 0⟩, 0)
  | v0 :: _ =>
    let rec go : List (V2 Rat) → Rat × V2 Rat × Rat
      | [] => (0, ⟨0, 0⟩, 0)
      | [x] => edge x v0
      | x :: y :: r => let e := edge x y; let s := go (y :: r); (e.1 + s.1, vadd e.2.1 s.2.1, e.2.2 + s.2.2)
    go vs
where
  /-- signed moments of the triangle `(0, x, y)` -/
  edge (x y : V2 Rat) : Rat × V2 Rat × Rat :=
    let sA := cross2 x y / 2
    let o : V2 Rat := ⟨0, 0⟩
    let g : V2 Rat := ⟨(x.x + y.x) / 3, (x.y + y.y) / 3⟩
    (sA, vscale g sA, sA / 3 * (nsq (mid o x) + nsq (mid x y) + nsq (mid y o)))

/-- Heron/Kahan on rounded side lengths has a `√ε·L²` absolute error on (near-)degenerate triangles (the product under the
root is `O(ε L⁴)` instead of `0`): allowance `1e-7·L_t²` for each triangle whose exact area is below `1e-6·L_t²`. -/
def triSlack (a b c : V2 Rat) : Rat :=
  let l2 := rmax (nsq (vsub b a)) (rmax (nsq (vsub c b)) (nsq (vsub a c)))
  let A := rabs (cross2 (vsub b a) (vsub c a)) / 2
  if A < l2 / 1000000 then l2 / 10000000 else 0

def sumMom (ms : List (Rat × V2 Rat × Rat)) : Rat × V2 Rat × Rat :=
  ms.foldl (fun s e => (s.1 + e.1, vadd s.2.1 e.2.1, s.2.2 + e.2.2)) (0, ⟨0, 0⟩, 0)

/-- diameter-like scale of a point set (ℓ¹ extent from the first point) -/
def extent (vs : List (V2 Rat)) : Rat :=
  match vs with
  | [] => 0
  | v0 :: _ => vs.foldl (fun m v => rmax m (rabs (v.x - v0.x) + rabs (v.y - v0.y))) 0

def finiteMP (p : MP2 Float) : Bool :=
  FloatIO.isFinite p.com.x && FloatIO.isFinite p.com.y && FloatIO.isFinite p.invMass && FloatIO.isFinite p.invI

/-- exact observables of an implementation output: `(mass, com, principal inertia)` -/
def obs (p : MP2 Float) : Rat × V2 Rat × Rat :=
  (rinv (q p.invMass), q2 p.com, rinv (q p.invI * q p.invI))

/-- moments about the origin `(m, m·c, I + m|c|²)` of an output / input given by raw fields -/
def mom (p : MP2 Float) : Rat × V2 Rat × Rat :=
  let (m, c, i) := obs p
  (m, vscale c m, i + m * nsq c)

/-- judge an output against exact total moments about the origin `(A, F, J)` of a uniform lamina (unit density),
`L` = length scale: mass = ρA, com = F/A, inertia about com = ρ(J − |F|²/A) -/
def judgeLamina (density : Rat) (M : Rat × V2 Rat × Rat) (L : Rat) (out : MP2 Float) (slackA : Rat := 0) : String :=
  if !finiteMP out then "fail nonfinite-output" else
  let (A, F, J) := M
  if L = 0 then "skip point-shape" else
  if A < L * L / 1000000 then "skip degenerate-area" else
  let (m, c, i) := obs out
  let cx := F.x / A; let cy := F.y / A
  let ic := density * (J - nsq F / A)
  let sk := slackA / tol   -- `close` multiplies by `tol`
  if !close m (density * A) (density * (L * L + sk)) then s!"fail mass got={m} want={density * A}"
  else if !(close c.x cx (L + sk * L / A) && close c.y cy (L + sk * L / A)) then s!"fail com got=({c.x},{c.y}) want=({cx},{cy})"
  else if !close i ic (density * (L * L * L * L + 2 * sk * L * L)) then s!"fail inertia got={i} want={ic}"
  else "pass"

/-- additivity oracle: moments about the origin of `out` equal `want` -/
def judgeMoments (want : Rat × V2 Rat × Rat) (scale : Rat × Rat × Rat) (out : MP2 Float) : String :=
  if !finiteMP out then "fail nonfinite-output" else
  let (m, f, j) := mom out
  let (sm, sf, sj) := scale
  if !close m want.1 sm then s!"fail mass got={m} want={want.1}"
  else if !(close f.x want.2.1.x sf && close f.y want.2.1.y sf) then s!"fail first-moment got=({f.x},{f.y}) want=({want.2.1.x},{want.2.1.y})"
  else if !close j want.2.2 sj then s!"fail second-moment got={j} want={want.2.2}"
  else "pass"

/-- magnitudes for the tolerance of `judgeMoments`: Σ |terms| -/
def momScale (ps : List (MP2 Float)) : Rat × Rat × Rat :=
  ps.foldl (fun s p =>
    let (m, c, i) := obs p
    (s.1 + rabs m, s.2.1 + rabs m * (rabs c.x + rabs c.y), s.2.2 + rabs i + rabs m * nsq c)) (0, 0, 0)

def sqrtQ (x : Rat) : Rat := (Num.sqrt x : Rat)

def ptsOfTri (t : Triangle2 Float) : List (V2 Rat) := [q2 t.a, q2 t.b, q2 t.c]

def convexCCWorCW (vs : List (V2 Rat)) : Bool :=
  match vs with
  | [] => false
  | v0 :: _ =>
    let arr := vs.toArray
    let n := arr.size
    let turns := (List.range n).map fun i =>
      let a := arr[i]!; let b := arr[(i + 1) % n]!; let c := arr[(i + 2) % n]!
      cross2 (vsub b a) (vsub c b)
    (turns.all (· ≥ 0) || turns.all (· ≤ 0)) &&
    -- simple (winding number one): all fan triangles from v0 have the same orientation
    (let fans := (List.range n).map fun i => cross2 (vsub arr[i]! v0) (vsub arr[(i + 1) % n]! v0)
     fans.all (· ≥ 0) || fans.all (· ≤ 0))

/-! ## 3-D helpers -/
def fq (x : Quat Float) : String := s!"{ff x.i} {ff x.j} {ff x.k} {ff x.w}"
def fmp3 (p : MP3 Float) : String := s!"{fv3 p.com} {ff p.invMass} {fv3 p.invI} {fq p.frame}"
def fm3 (m : M3 Float) : String := s!"{fv3 m.r0} {fv3 m.r1} {fv3 m.r2}"
def fobs3 (o : Float × V3 Float × M3 Float) : String := s!"{ff o.1} {fv3 o.2.1} {fm3 o.2.2}"
def pquat : P (Quat Float) := do let i ← pf; let j ← pf; let k ← pf; let w ← pf; pure ⟨i, j, k, w⟩
def pmp3 : P (MP3 Float) := do let c ← pv3; let im ← pf; let ii ← pv3; let f ← pquat; pure ⟨c, im, ii, f⟩
def pov3 : P (V3 Float) := do let x ← pfo; let y ← pfo; let z ← pfo; pure ⟨x, y, z⟩
def pomp3 : P (MP3 Float) := do
  let c ← pov3; let im ← pfo; let ii ← pov3; let i ← pfo; let j ← pfo; let k ← pfo; let w ← pfo; pure ⟨c, im, ii, ⟨i, j, k, w⟩⟩
def pom3 : P (M3 Float) := do let a ← pov3; let b ← pov3; let c ← pov3; pure ⟨a, b, c⟩
def poobs3 : P (Float × V3 Float × M3 Float) := do let m ← pfo; let c ← pov3; let i ← pom3; pure (m, c, i)

abbrev RM3 := Array Rat   -- 9 entries, row major
def rm (f : Nat → Nat → Rat) : RM3 := (List.range 9).toArray.map fun n => f (n / 3) (n % 3)
def rget (m : RM3) (i j : Nat) : Rat := m.getD (3 * i + j) 0
def rmul (a b : RM3) : RM3 := rm fun i j => rget a i 0 * rget b 0 j + rget a i 1 * rget b 1 j + rget a i 2 * rget b 2 j
def rtr (a : RM3) : RM3 := rm fun i j => rget a j i
def radd (a b : RM3) : RM3 := rm fun i j => rget a i j + rget b i j
def rdiag (x y z : Rat) : RM3 := rm fun i j => if i = j then (if i = 0 then x else if i = 1 then y else z) else 0
def rnorm (a : RM3) : Rat := a.foldl (fun s x => s + rabs x) 0
def rofM3 (m : M3 Float) : RM3 := #[q m.r0.x, q m.r0.y, q m.r0.z, q m.r1.x, q m.r1.y, q m.r1.z, q m.r2.x, q m.r2.y, q m.r2.z]
/-- rotation matrix of a (nearly unit) quaternion, normalised exactly: `R = (…)/|q|²` -/
def rotOfQuat (i j k w : Rat) : RM3 :=
  let n := i * i + j * j + k * k + w * w
  if n = 0 then rdiag 1 1 1 else
  rm fun r c =>
    let e : Rat := match r, c with
      | 0, 0 => w*w + i*i - j*j - k*k | 0, 1 => 2*(i*j - w*k) | 0, 2 => 2*(w*j + i*k)
      | 1, 0 => 2*(w*k + i*j) | 1, 1 => w*w - i*i + j*j - k*k | 1, 2 => 2*(j*k - w*i)
      | 2, 0 => 2*(i*k - w*j) | 2, 1 => 2*(w*i + j*k) | _, _ => w*w - i*i - j*j + k*k
    e / n
/-- exact inertia tensor of raw fields: `R diag(1/invI²) Rᵀ` -/
def tensorOf (p : MP3 Float) : RM3 :=
  let R := rotOfQuat (q p.frame.i) (q p.frame.j) (q p.frame.k) (q p.frame.w)
  let d := rdiag (rinv (q p.invI.x * q p.invI.x)) (rinv (q p.invI.y * q p.invI.y)) (rinv (q p.invI.z * q p.invI.z))
  rmul (rmul R d) (rtr R)
/-- `m (|c|² 1 − c cᵀ)` -/
def steiner (m : Rat) (c : V3 Rat) : RM3 :=
  let n := c.x * c.x + c.y * c.y + c.z * c.z
  rm fun i j => m * ((if i = j then n else 0) - c.get i * c.get j)
/-- moments about the origin of raw fields: `(m, m c, I + steiner)` -/
def mom3 (p : MP3 Float) : Rat × V3 Rat × RM3 :=
  let m := rinv (q p.invMass); let c := q3 p.com
  (m, ⟨c.x * m, c.y * m, c.z * m⟩, radd (tensorOf p) (steiner m c))
def closeM (a b : RM3) (scale : Rat) : Bool := (List.range 9).all fun n => close (a.getD n 0) (b.getD n 0) scale
def finiteMP3 (p : MP3 Float) : Bool :=
  finite3 p.com && FloatIO.isFinite p.invMass && finite3 p.invI &&
  FloatIO.isFinite p.frame.i && FloatIO.isFinite p.frame.j && FloatIO.isFinite p.frame.k && FloatIO.isFinite p.frame.w

/-! exact integration of polynomials (coefficient lists, lowest degree first): the slicing integrals of solids of
revolution about the `y` axis are evaluated exactly, independently of the closed forms in the code -/
def padd (a b : List Rat) : List Rat :=
  match a, b with
  | [], b => b
  | a, [] => a
  | x :: a, y :: b => (x + y) :: padd a b
def pscale (a : List Rat) (s : Rat) : List Rat := a.map (· * s)
def pmulp (a b : List Rat) : List Rat :=
  match a with
  | [] => []
  | x :: a => padd (pscale b x) (0 :: pmulp a b)
def peval (a : List Rat) (x : Rat) : Rat := a.foldr (fun c acc => c + x * acc) 0
def pint (a : List Rat) (lo hi : Rat) : Rat :=
  let anti : List Rat := 0 :: (a.zipIdx.map fun (c, n) => c / ((n : Nat) + 1 : Rat))
  peval anti hi - peval anti lo
/-- slicing integrals of a solid of revolution given piecewise by `r(y)²` (polynomials in `y`):
`(V/π, ∫ y r², ∫ r⁴ , ∫ y² r²)` -/
def revolve (pieces : List (Rat × Rat × List Rat)) : Rat × Rat × Rat × Rat :=
  pieces.foldl (fun s (lo, hi, r2) =>
    (s.1 + pint r2 lo hi, s.2.1 + pint (0 :: r2) lo hi, s.2.2.1 + pint (pmulp r2 r2) lo hi, s.2.2.2 + pint (0 :: 0 :: r2) lo hi)) (0, 0, 0, 0)
/-- expected `(mass, y of the centroid, I_axis, I_transverse about the centroid)` for density `ρ` -/
def revolveMoments (ρ : Rat) (pieces : List (Rat × Rat × List Rat)) : Rat × Rat × Rat × Rat :=
  let (v, fy, r4, y2) := revolve pieces
  let mass := ρ * piQ * v
  let yc := if v = 0 then 0 else fy / v
  let iax := ρ * piQ / 2 * r4
  let itr0 := ρ * (piQ / 4 * r4 + piQ * y2)
  (mass, yc, iax, itr0 - mass * yc * yc)

/-- judge an axis-aligned 3-D output (identity frame expected): mass, com `(0, yc, 0)`, principal inertia `(itr, iax, itr)` -/
def judgeRevolve (ρ : Rat) (pieces : List (Rat × Rat × List Rat)) (L : Rat) (out : MP3 Float) : String :=
  if !finiteMP3 out then "fail nonfinite-output" else
  let (mass, yc, iax, itr) := revolveMoments ρ pieces
  let m := rinv (q out.invMass)
  let ix := rinv (q out.invI.x * q out.invI.x); let iy := rinv (q out.invI.y * q out.invI.y); let iz := rinv (q out.invI.z * q out.invI.z)
  let sI := ρ * L * L * L * L * L
  if !(q out.frame.i = 0 ∧ q out.frame.j = 0 ∧ q out.frame.k = 0 ∧ q out.frame.w = 1) then "fail frame-not-identity"
  else if !close m mass (ρ * L * L * L) then s!"fail mass got={m} want={mass}"
  else if !(close (q out.com.x) 0 L && close (q out.com.y) yc L && close (q out.com.z) 0 L) then s!"fail com got-y={q out.com.y} want-y={yc}"
  else if !close iy iax sI then s!"fail axis-inertia got={iy} want={iax}"
  else if !(close ix itr sI && close iz itr sI) then s!"fail transverse-inertia got=({ix},{iz}) want={itr}"
  else "pass"

def isZero3Q (p : MP3 Float) : Bool :=
  q p.com.x = 0 ∧ q p.com.y = 0 ∧ q p.com.z = 0 ∧ q p.invMass = 0 ∧ q p.invI.x = 0 ∧ q p.invI.y = 0 ∧ q p.invI.z = 0 ∧
  q p.frame.i = 0 ∧ q p.frame.j = 0 ∧ q p.frame.k = 0 ∧ (q p.frame.w = 1 ∨ q p.frame.w = -1)

def fmc3 (o : Float × V3 Float × M3 Float) : String := s!"{ff o.1} {fv3 o.2.1}"
def pomc3 : P (Float × V3 Float) := do let m ← pfo; let c ← pov3; pure (m, c)
def negMom3 (m : Rat × V3 Rat × RM3) : Rat × V3 Rat × RM3 := (-m.1, ⟨-m.2.1.x, -m.2.1.y, -m.2.1.z⟩, m.2.2.map (fun v => -v))

/-- additivity oracle (3-D), mass and first moment: `1e-9` relative to the magnitudes involved -/
def judgeMC3 (want : Rat × V3 Rat × RM3) (sc : Rat × Rat × Rat) (out : Float × V3 Float) : String :=
  let (mo, co) := out
  if !(FloatIO.isFinite mo && finite3 co) then "fail nonfinite-output" else
  let m := q mo; let c := q3 co
  if !close m want.1 sc.1 then s!"fail mass got={m} want={want.1}"
  else if !(close (c.x * m) want.2.1.x sc.2.1 && close (c.y * m) want.2.1.y sc.2.1 && close (c.z * m) want.2.1.z sc.2.1) then "fail first-moment"
  else "pass"

def rtrace (a : RM3) : Rat := rget a 0 0 + rget a 1 1 + rget a 2 2
def rdet (a : RM3) : Rat :=
  rget a 0 0 * (rget a 1 1 * rget a 2 2 - rget a 1 2 * rget a 2 1)
  - rget a 0 1 * (rget a 1 0 * rget a 2 2 - rget a 1 2 * rget a 2 0)
  + rget a 0 2 * (rget a 1 0 * rget a 2 1 - rget a 1 1 * rget a 2 0)

/-- additivity oracle (3-D), second moment: the tensor about the centre of mass implied by additivity about the origin,
`want.J − steiner(M, F/M)`, against the implementation's `reconstruct_inertia_matrix()`; then the same tensor against the
`Float` model (the correspondence leg of these functions; `check` has only entry-wise relations).

When the tensor is wrong but its three invariants (trace, trace of the square, determinant) are right, the verdict is
`fail principal-frame …`: the eigenvalues are right and the eigenvectors are not — the signature of nalgebra 0.33.3
`symmetric_eigen` on matrices with close eigenvalues / nearly block-diagonal matrices (KNOWN_FINDINGS). -/
def judgeTensor3 (want : Rat × V3 Rat × RM3) (sc : Rat × Rat × Rat) (model : M3 Float) (out : M3 Float) : String :=
  if !(finite3 out.r0 && finite3 out.r1 && finite3 out.r2) then "fail nonfinite-output" else
  let M := want.1
  if M = 0 then "skip massless" else
  let c : V3 Rat := ⟨want.2.1.x / M, want.2.1.y / M, want.2.1.z / M⟩
  let st := steiner M c
  let Ic : RM3 := rm fun i j => rget want.2.2 i j - rget st i j
  let O := rofM3 out
  let scale := sc.2.2 + 1 / 1000000000000
  if closeM O Ic scale then
    (if closeM O (rofM3 model) scale then "pass" else s!"fail model-tensor-differs got={O.toList} model={(rofM3 model).toList}")
  else if close (rtrace O) (rtrace Ic) scale && close (rtrace (rmul O O)) (rtrace (rmul Ic Ic)) (scale * scale)
        && close (rdet O) (rdet Ic) (scale * scale * scale) then
    let dev := (List.range 9).foldl (fun m n => rmax m (rabs (O.getD n 0 - Ic.getD n 0))) 0
    s!"fail principal-frame eigenvalues-right eigenvectors-wrong deviation/scale={((dev / scale) * 1000000000).floor}e-9"
  else s!"fail second-moment got={O.toList} want={Ic.toList}"
def momScale3 (ps : List (MP3 Float)) : Rat × Rat × Rat :=
  ps.foldl (fun s p =>
    let (m, f, J) := mom3 p
    (s.1 + rabs m, s.2.1 + rabs f.x + rabs f.y + rabs f.z, s.2.2 + rnorm J)) (0, 0, 0)
def sumMom3 (ms : List (Rat × V3 Rat × RM3)) : Rat × V3 Rat × RM3 :=
  ms.foldl (fun s e => (s.1 + e.1, ⟨s.2.1.x + e.2.1.x, s.2.1.y + e.2.1.y, s.2.1.z + e.2.1.z⟩, radd s.2.2 e.2.2)) (0, ⟨0, 0, 0⟩, rdiag 0 0 0)

/-! ## 3-D triangle meshes (`mass_properties_trimesh3d.rs`)

Exact oracle: a triangle list whose directed edges cancel in pairs (vertices identified by exact position) is a closed
oriented surface (a 2-cycle); its signed-tetrahedron sums do not depend on the apex, so they are taken with the apex at
the ORIGIN (the code uses the vertex average, then the centre of mass) and the second moments by the vertex/edge-midpoint
rule `∫_T f = V/20 · (4 Σ f(m_ij) − Σ f(v_i))`, exact for quadratics.  The expected result is the same whatever the sign
of the total signed volume: mass `ρ|V|`, centre `F/V`, tensor `ρ·sgn(V)·(…)` — an inward-wound mesh must give the mass,
centre AND inertia of the solid. -/
def pmesh3 : P (List (V3 Float) × List (Nat × Nat × Nat)) := do let vs ← plist pv3; let idx ← plist pidx; pure (vs, idx)
def eq3 (a b : V3 Rat) : Bool := a.x == b.x && a.y == b.y && a.z == b.z
def add3 (a b : V3 Rat) : V3 Rat := ⟨a.x + b.x, a.y + b.y, a.z + b.z⟩
def sub3 (a b : V3 Rat) : V3 Rat := ⟨a.x - b.x, a.y - b.y, a.z - b.z⟩
def scale3 (a : V3 Rat) (s : Rat) : V3 Rat := ⟨a.x * s, a.y * s, a.z * s⟩
def mid3 (a b : V3 Rat) : V3 Rat := ⟨(a.x + b.x) / 2, (a.y + b.y) / 2, (a.z + b.z) / 2⟩
def l1 (a : V3 Rat) : Rat := rabs a.x + rabs a.y + rabs a.z
def detQ (a b c : V3 Rat) : Rat :=
  a.x * (b.y * c.z - b.z * c.y) - a.y * (b.x * c.z - b.z * c.x) + a.z * (b.x * c.y - b.y * c.x)
def outerQ (v : V3 Rat) : RM3 := rm fun i j => v.get i * v.get j
def rscale (a : RM3) (s : Rat) : RM3 := a.map (· * s)
def rsub (a b : RM3) : RM3 := rm fun i j => rget a i j - rget b i j
def rzero : RM3 := rdiag 0 0 0
/-- inertia tensor `tr(P)·1 − P` of a second-moment matrix `P = ∫ x xᵀ` -/
def inertiaOfCov (p : RM3) : RM3 := rsub (rdiag (rtrace p) (rtrace p) (rtrace p)) p

/-- exact signed moments of the tetrahedron `(o, a, b, c)`: `(V, ∫ x, ∫ x xᵀ)` (coordinates absolute) -/
def tetMom (o a b c : V3 Rat) : Rat × V3 Rat × RM3 :=
  let V := detQ (sub3 a o) (sub3 b o) (sub3 c o) / 6
  let vs := [o, a, b, c]
  let ms := [mid3 o a, mid3 o b, mid3 o c, mid3 a b, mid3 b c, mid3 c a]
  let g := scale3 (add3 (add3 o a) (add3 b c)) (1 / 4)
  let sv := vs.foldl (fun s v => radd s (outerQ v)) rzero
  let sm := ms.foldl (fun s v => radd s (outerQ v)) rzero
  (V, scale3 g V, rscale (rsub (rscale sm 4) sv) (V / 20))

def resolveQ (vs : Array (V3 Rat)) : List (Nat × Nat × Nat) → Option (List (V3 Rat × V3 Rat × V3 Rat))
  | [] => some []
  | (i, j, k) :: rest =>
    match vs[i]?, vs[j]?, vs[k]?, resolveQ vs rest with
    | some a, some b, some c, some ts => some ((a, b, c) :: ts)
    | _, _, _, _ => none

/-- total signed moments of the cones from `o` over the triangles -/
def meshMom (o : V3 Rat) (ts : List (V3 Rat × V3 Rat × V3 Rat)) : Rat × V3 Rat × RM3 :=
  ts.foldl (fun s (a, b, c) => let e := tetMom o a b c; (s.1 + e.1, add3 s.2.1 e.2.1, radd s.2.2 e.2.2)) (0, ⟨0, 0, 0⟩, rzero)

/-- directed edges cancel in pairs (vertices identified by exact position): the triangles form a closed oriented surface -/
def isCycle (vs : Array (V3 Rat)) (idx : List (Nat × Nat × Nat)) : Bool :=
  let n := vs.size
  let canon : Array Nat := (Array.range n).map fun i => ((List.range i).find? fun j => eq3 (vs.getD j ⟨0, 0, 0⟩) (vs.getD i ⟨0, 0, 0⟩)).getD i
  let c (i : Nat) : Nat := canon.getD i i
  let edges : List (Nat × Nat) := idx.flatMap fun (i, j, k) => [(c i, c j), (c j, c k), (c k, c i)]
  let edges := edges.filter fun (a, b) => a != b
  let fwd := (edges.map fun (a, b) => a * n + b).toArray.qsort (· < ·)
  let rev := (edges.map fun (a, b) => b * n + a).toArray.qsort (· < ·)
  fwd == rev

structure MeshSpec where
  /-- length scale for tolerances: extent of the vertex set + 1e-6 of the coordinate magnitude -/
  L : Rat
  /-- extent alone -/
  ext : Rat
  V : Rat
  com : V3 Rat
  /-- unit-density inertia tensor about `com`, sign-corrected (positive semi-definite for a solid) -/
  Ic : RM3

/-- expected mass properties (unit density) of a closed oriented surface; `Except` carries the oracle verdict for
inputs outside the clause -/
def meshSpec (vs : List (V3 Rat)) (ts : List (V3 Rat × V3 Rat × V3 Rat)) (idx : List (Nat × Nat × Nat)) : Except String MeshSpec :=
  match vs with
  | [] => .error "skip empty-slice"
  | v0 :: _ =>
    let ext := vs.foldl (fun m v => rmax m (l1 (sub3 v v0))) 0
    let S := vs.foldl (fun m v => rmax m (l1 v)) 0
    let L := ext + S / 1000000
    if !isCycle vs.toArray idx then .error "skip not-a-closed-oriented-surface" else
    let (V, F, P) := meshMom ⟨0, 0, 0⟩ ts
    if rabs V < ext * ext * ext / 1000000 ∨ ext = 0 then .error "skip degenerate-volume" else
    let c := scale3 F (1 / V)
    let Pc := rsub P (rscale (outerQ c) V)
    let sg : Rat := if V < 0 then -1 else 1
    let Ic := rscale (inertiaOfCov Pc) sg
    -- a solid (all winding numbers of one sign) has a positive semi-definite tensor; components of opposite
    -- orientations (density +1 and −1) are not a uniformly filled shape
    let m2 (i j : Nat) : Rat := rget Ic i i * rget Ic j j - rget Ic i j * rget Ic j i
    if rget Ic 0 0 < 0 ∨ rget Ic 1 1 < 0 ∨ rget Ic 2 2 < 0 ∨ m2 0 1 < 0 ∨ m2 0 2 < 0 ∨ m2 1 2 < 0 ∨ rdet Ic < 0 then
      .error "skip not-a-solid (indefinite tensor: components of opposite orientations)" else
    .ok ⟨L, ext, V, c, Ic⟩

/-- exact signed volume of the cones from the exact vertex average (what `from_trimesh` divides by, whether or not the
soup is closed) relative to the cube of the extent: `none` when it is below `1e-6` -/
def soupNondegenerate (vs : List (V3 Rat)) (ts : List (V3 Rat × V3 Rat × V3 Rat)) : Option (Rat × Rat) :=
  match vs with
  | [] => none
  | v0 :: _ =>
    let ext := vs.foldl (fun m v => rmax m (l1 (sub3 v v0))) 0
    let S := vs.foldl (fun m v => rmax m (l1 v)) 0
    let g := scale3 (vs.foldl add3 ⟨0, 0, 0⟩) (1 / (vs.length : Rat))
    let V := (meshMom g ts).1
    if rabs V < ext * ext * ext / 1000000 ∨ ext = 0 then none else some (ext + S / 1000000, V)

def judgeMeshMC (ρ : Rat) (sp : MeshSpec) (c : V3 Float) (invMass : Float) : String :=
  if !(finite3 c && FloatIO.isFinite invMass) then "fail nonfinite-output" else
  let m := rinv (q invMass)
  let want := ρ * rabs sp.V
  if !close m want (ρ * sp.L * sp.L * sp.L) then s!"fail mass got={m} want={want}"
  else if !(close (q c.x) sp.com.x sp.L && close (q c.y) sp.com.y sp.L && close (q c.z) sp.com.z sp.L) then
    s!"fail com got=({q c.x},{q c.y},{q c.z}) want=({sp.com.x},{sp.com.y},{sp.com.z})"
  else "pass"

/-- tensor / principal inertias / frame of a result of `with_inertia_matrix` against the exact tensor `want` -/
def judgeMeshTensor (want : RM3) (scale : Rat) (model : Option (M3 Float)) (out : M3 Float) (pin : V3 Float) (fr : Quat Float) : String :=
  if !(finite3 out.r0 && finite3 out.r1 && finite3 out.r2 && finite3 pin) then "fail nonfinite-output" else
  let P := q3 pin
  if P.x < 0 ∨ P.y < 0 ∨ P.z < 0 then "fail negative-principal-inertia" else
  let n2 := q fr.i * q fr.i + q fr.j * q fr.j + q fr.k * q fr.k + q fr.w * q fr.w
  if !close n2 1 1 then "fail frame-not-unit" else
  let O := rofM3 out
  let scale := scale + 1 / 1000000000000
  -- the principal inertias are the eigenvalues of the exact tensor: the three invariants agree
  let D := rdiag P.x P.y P.z
  let eigOk := close (rtrace D) (rtrace want) scale && close (rtrace (rmul D D)) (rtrace (rmul want want)) (scale * scale)
               && close (rdet D) (rdet want) (scale * scale * scale)
  if !eigOk then s!"fail principal-inertia got=({P.x},{P.y},{P.z}) want-tensor={want.toList}"
  else if closeM O want scale then
    match model with
    | none => "pass"
    | some mo => if closeM O (rofM3 mo) scale then "pass" else s!"fail model-tensor-differs got={O.toList} model={(rofM3 mo).toList}"
  else
    let dev := (List.range 9).foldl (fun m n => rmax m (rabs (O.getD n 0 - want.getD n 0))) 0
    s!"fail principal-frame eigenvalues-right eigenvectors-wrong deviation/scale={((dev / scale) * 1000000000).floor}e-9"

def fmesh3Out (o : Mesh3Out Float) : String :=
  match o with
  | .panic => "panic"
  | .zero => "0000000000000000 0000000000000000 0000000000000000 0000000000000000"
  | .raw c m _ => s!"{fv3 c} {ff (inv m)}"

/-- common front of the mesh oracles: `panic` expected on an empty vertex slice / bad index, otherwise the exact spec -/
def withMesh (vs : List (V3 Float)) (idx : List (Nat × Nat × Nat)) (o : List String)
    (k : List (V3 Rat) → List (V3 Rat × V3 Rat × V3 Rat) → String) : String :=
  let V := vs.map q3
  if V.isEmpty then (if o.head? = some "panic" then "skip empty-slice (documented assert)" else "fail no-panic-on-empty-slice") else
  match resolveQ V.toArray idx with
  | none => if o.head? = some "panic" then "pass" else "fail no-panic-on-bad-index"
  | some ts => if o.head? = some "panic" then "fail panic" else k V ts

def handlerMesh3 (fn : String) : Option Handler :=
  match fn with
  | "tet_signed_volume" => some {
      model := fun a => run (do let a ← pv3; let b ← pv3; let c ← pv3; let d ← pv3; pure (ff (tetSignedVolume a b c d))) a
      oracle := fun a o => match run (do let a ← pv3; let b ← pv3; let c ← pv3; let d ← pv3; pure (a, b, c, d)) a with
        | some (a, b, c, d) => withOut pfo o fun r =>
            let A := q3 a
            let want := detQ (sub3 (q3 b) A) (sub3 (q3 c) A) (sub3 (q3 d) A) / 6
            let L := rmax (l1 (sub3 (q3 b) A)) (rmax (l1 (sub3 (q3 c) A)) (l1 (sub3 (q3 d) A))) + (l1 A) / 1000000
            if close (q r) want (L * L * L) then "pass" else s!"fail signed-volume got={q r} want={want}"
        | none => "skip bad-args" }
  | "tet_unit_inertia" => some {
      model := fun a => run (do let o ← pv3; let a ← pv3; let b ← pv3; let c ← pv3; let d ← pv3; pure (fm3 (tetUnitInertia o a b c d))) a
      oracle := fun a o => match run (do let o ← pv3; let a ← pv3; let b ← pv3; let c ← pv3; let d ← pv3; pure (o, a, b, c, d)) a with
        | some (pt, a, b, c, d) => withOut pom3 o fun out =>
            -- per unit volume: the quadrature weights alone (vertices −1/20, edge midpoints 4/20), about `pt`
            let O := q3 pt
            let vs := [sub3 (q3 a) O, sub3 (q3 b) O, sub3 (q3 c) O, sub3 (q3 d) O]
            let ms := match vs with
              | [a, b, c, d] => [mid3 a b, mid3 a c, mid3 a d, mid3 b c, mid3 b d, mid3 c d]
              | _ => []
            let sv := vs.foldl (fun s v => radd s (outerQ v)) rzero
            let sm := ms.foldl (fun s v => radd s (outerQ v)) rzero
            let want := inertiaOfCov (rscale (rsub (rscale sm 4) sv) (1 / 20))
            let L := vs.foldl (fun m v => rmax m (l1 v)) 0 + (l1 O) / 1000000
            if closeM (rofM3 out) want (L * L) then "pass" else s!"fail unit-inertia got={(rofM3 out).toList} want={want.toList}"
        | none => "skip bad-args" }
  | "trimesh3_vol_com" => some {
      model := fun a => run (do let (vs, idx) ← pmesh3
                                pure (match center3 vs, resolveTris3 vs.toArray idx with
                                  | some gc, some ts => let r := meshVolCom3 gc ts; s!"{ff r.1} {fv3 r.2}"
                                  | _, _ => "panic")) a
      oracle := fun a o => match run pmesh3 a with
        | some (vs, idx) => withMesh vs idx o fun V ts =>
            withOut (do let v ← pfo; let c ← pov3; pure (v, c)) o fun (v, c) =>
              match meshSpec V ts idx with
              | .error e => e
              | .ok sp =>
                if !(FloatIO.isFinite v && finite3 c) then "fail nonfinite-output"
                else if !close (q v) sp.V (sp.L * sp.L * sp.L) then s!"fail signed-volume got={q v} want={sp.V}"
                else if !(close (q c.x) sp.com.x sp.L && close (q c.y) sp.com.y sp.L && close (q c.z) sp.com.z sp.L) then
                  s!"fail com got=({q c.x},{q c.y},{q c.z}) want=({sp.com.x},{sp.com.y},{sp.com.z})"
                else "pass"
        | none => "skip bad-args" }
  | "from_trimesh3" | "trimesh3_shape" => some {
      model := fun a => run (do let d ← pf; let (vs, idx) ← pmesh3
                                if fn = "trimesh3_shape" ∧ idx.isEmpty then pure "none"   -- `TriMesh::new` refuses an empty index buffer
                                else pure (fmesh3Out (fromTrimesh3 d vs idx))) a
      oracle := fun a o => match run (do let d ← pf; let m ← pmesh3; pure (d, m)) a with
        | some (d, vs, idx) =>
          if o = ["none"] then (if idx.isEmpty then "skip empty-index-buffer" else "fail trimesh-rejected") else
          withMesh vs idx o fun V ts =>
            withOut (do let c ← pov3; let im ← pfo; pure (c, im)) o fun (c, im) =>
              match meshSpec V ts idx with
              | .error e => e
              | .ok sp => judgeMeshMC (q d) sp c im
        | none => "skip bad-args" }
  | "from_trimesh3_tensor" => some {
      model := fun _ => some "oracle-only"
      oracle := fun a o => match run (do let d ← pf; let m ← pmesh3; pure (d, m)) a with
        | some (d, vs, idx) => withMesh vs idx o fun V ts =>
            withOut (do let t ← pom3; let p ← pov3; let i ← pfo; let j ← pfo; let k ← pfo; let w ← pfo; pure (t, p, (⟨i, j, k, w⟩ : Quat Float))) o fun (t, p, fr) =>
              match meshSpec V ts idx with
              | .error e => e
              | .ok sp =>
                let ρ := q d
                let model : Option (M3 Float) := match fromTrimesh3 d vs idx with
                  | .raw _ _ i => some i
                  | _ => none
                judgeMeshTensor (rscale sp.Ic ρ) (ρ * sp.L * sp.L * sp.L * sp.L * sp.L) model t p fr
        | none => "skip bad-args" }
  | "from_trimesh3_flip" => some {
      model := fun _ => some "oracle-only"
      oracle := fun a o => match run (do let d ← pf; let m ← pmesh3; pure (d, m)) a with
        | some (d, vs, idx) => withMesh vs idx o fun V ts =>
            withOut (do let m1 ← pfo; let c1 ← pov3; let t1 ← pom3; let m2 ← pfo; let c2 ← pov3; let t2 ← pom3; pure (m1, c1, t1, m2, c2, t2)) o
              fun (m1, c1, t1, m2, c2, t2) =>
              -- metamorphic clause, valid for every triangle soup: reversing every winding changes nothing
              match soupNondegenerate V ts with
              | none => "skip degenerate-volume"
              | some (L, _) =>
                let ρ := q d
                if !(FloatIO.isFinite m1 && FloatIO.isFinite m2 && finite3 c1 && finite3 c2 && finite3 t1.r0 && finite3 t1.r1 && finite3 t1.r2
                     && finite3 t2.r0 && finite3 t2.r1 && finite3 t2.r2) then "fail nonfinite-output"
                else if !close (q m1) (q m2) (ρ * L * L * L) then s!"fail flipped-mass {q m1} vs {q m2}"
                else if !(close (q c1.x) (q c2.x) L && close (q c1.y) (q c2.y) L && close (q c1.z) (q c2.z) L) then "fail flipped-com"
                else
                  let A := rofM3 t1; let B := rofM3 t2
                  let scale := ρ * L * L * L * L * L
                  if closeM A B scale then "pass"
                  else if close (rtrace A) (rtrace B) scale && close (rtrace (rmul A A)) (rtrace (rmul B B)) (scale * scale)
                          && close (rdet A) (rdet B) (scale * scale * scale) then
                    "fail principal-frame eigenvalues-right eigenvectors-wrong (flip)"
                  else s!"fail flipped-inertia outward={A.toList} inward={B.toList}"
        | none => "skip bad-args" }
  | "convex3_shape" => some {
      model := fun _ => some "oracle-only"
      oracle := fun a o => match run (do let d ← pf; let m ← pmesh3; pure (d, m)) a with
        | some (d, vs, idx) =>
          if o = ["none"] then "skip mesh-rejected-by-from_convex_mesh" else
          withMesh vs idx o fun V ts =>
            withOut (do let c ← pov3; let im ← pfo; let t ← pom3; let p ← pov3; let i ← pfo; let j ← pfo; let k ← pfo; let w ← pfo
                        pure (c, im, t, p, (⟨i, j, k, w⟩ : Quat Float))) o fun (c, im, t, p, fr) =>
              match meshSpec V ts idx with
              | .error e => e
              | .ok sp =>
                let ρ := q d
                let r := judgeMeshMC ρ sp c im
                if r != "pass" then r else
                judgeMeshTensor (rscale sp.Ic ρ) (ρ * sp.L * sp.L * sp.L * sp.L * sp.L) none t p fr
        | none => "skip bad-args" }
  | _ => none

def handler3 (fn : String) : Option Handler :=
  match fn with
  | "from_ball3" => some {
      model := fun a => run (do let d ← pf; let r ← pf; pure (fmp3 (fromBall3 piF d r))) a
      oracle := fun a o => match run (do let d ← pf; let r ← pf; pure (d, r)) a with
        | some (d, r) => withOut pomp3 o fun out =>
            let R := q r
            judgeRevolve (q d) [(-R, R, [R * R, 0, -1])] R out
        | none => "skip bad-args" }
  | "from_cylinder" => some {
      model := fun a => run (do let d ← pf; let hh ← pf; let r ← pf; pure (fmp3 (fromCylinder piF d hh r))) a
      oracle := fun a o => match run (do let d ← pf; let hh ← pf; let r ← pf; pure (d, hh, r)) a with
        | some (d, hh, r) => withOut pomp3 o fun out =>
            let R := q r; let H := q hh
            judgeRevolve (q d) [(-H, H, [R * R])] (R + H) out
        | none => "skip bad-args" }
  | "from_cone" => some {
      model := fun a => run (do let d ← pf; let hh ← pf; let r ← pf; pure (fmp3 (fromCone piF d hh r))) a
      oracle := fun a o => match run (do let d ← pf; let hh ← pf; let r ← pf; pure (d, hh, r)) a with
        | some (d, hh, r) => withOut pomp3 o fun out =>
            let R := q r; let H := q hh
            if H = 0 then "skip flat-cone" else
            -- r(y) = R (H - y) / (2H): apex at +H, base disc at -H
            let lin : List Rat := [R / 2, -R / (2 * H)]
            judgeRevolve (q d) [(-H, H, pmulp lin lin)] (R + H) out
        | none => "skip bad-args" }
  | "from_cuboid3" => some {
      model := fun a => run (do let d ← pf; let he ← pv3; pure (fmp3 (fromCuboid3 d he))) a
      oracle := fun a o => match run (do let d ← pf; let he ← pv3; pure (d, he)) a with
        | some (d, he) => withOut pomp3 o fun out =>
            if !finiteMP3 out then "fail nonfinite-output" else
            let H := q3 he; let ρ := q d
            -- box integrals by exact 1-D polynomial integration
            let len (h : Rat) := pint [1] (-h) h
            let sec (h : Rat) := pint [0, 0, 1] (-h) h
            let mass := ρ * len H.x * len H.y * len H.z
            let sx := ρ * sec H.x * len H.y * len H.z; let sy := ρ * len H.x * sec H.y * len H.z; let sz := ρ * len H.x * len H.y * sec H.z
            let L := H.x + H.y + H.z
            let m := rinv (q out.invMass)
            let ix := rinv (q out.invI.x * q out.invI.x); let iy := rinv (q out.invI.y * q out.invI.y); let iz := rinv (q out.invI.z * q out.invI.z)
            let sI := ρ * L * L * L * L * L
            if !(q out.frame.i = 0 ∧ q out.frame.j = 0 ∧ q out.frame.k = 0 ∧ q out.frame.w = 1) then "fail frame-not-identity"
            else if !(q out.com.x = 0 ∧ q out.com.y = 0 ∧ q out.com.z = 0) then "fail com-not-origin"
            else if !close m mass (ρ * L * L * L) then s!"fail mass got={m} want={mass}"
            else if !(close ix (sy + sz) sI && close iy (sx + sz) sI && close iz (sx + sy) sI) then s!"fail inertia got=({ix},{iy},{iz}) want=({sy+sz},{sx+sz},{sx+sy})"
            else "pass"
        | none => "skip bad-args" }
  | "from_capsule3" => some {
      model := fun a => run (do let d ← pf; let p ← pv3; let p' ← pv3; let r ← pf
                                let x := fromCapsule3 piF d p p' r
                                pure s!"{fv3 x.1} {ff x.2.1} {fv3 x.2.2}") a
      oracle := fun a o => match run (do let d ← pf; let p ← pv3; let p' ← pv3; let r ← pf; pure (d, p, p', r)) a with
        | some (d, p, p', r) => withOut (do let c ← pov3; let im ← pfo; let ii ← pov3; pure (c, im, ii)) o fun (c, im, ii) =>
            let A := q3 p; let B := q3 p'; let R := q r
            let H := sqrtQ ((B.sub A).normSq) / 2
            let out : MP3 Float := ⟨⟨0, 0, 0⟩, im, ii, ⟨0, 0, 0, 1⟩⟩
            let res := judgeRevolve (q d) [(-H - R, -H, [R * R - H * H, -2 * H, -1]), (-H, H, [R * R]), (H, H + R, [R * R - H * H, 2 * H, -1])] (R + H) out
            if res != "pass" then res else
            let g : V3 Rat := ⟨(A.x + B.x) / 2, (A.y + B.y) / 2, (A.z + B.z) / 2⟩
            let s := R + H + (rabs g.x + rabs g.y + rabs g.z) / 1000
            if close (q c.x) g.x s && close (q c.y) g.y s && close (q c.z) g.z s then "pass" else "fail com"
        | none => "skip bad-args" }
  | "from_capsule3_frame" => some {
      model := fun _ => some "oracle-only"
      oracle := fun a o => match run (do let d ← pf; let p ← pv3; let p' ← pv3; let r ← pf; pure (d, p, p', r)) a with
        | some (_, p, p', _) => withOut (do let i ← pfo; let j ← pfo; let k ← pfo; let w ← pfo; pure (i, j, k, w)) o fun (i, j, k, w) =>
            let A := q3 p; let B := q3 p'
            let dir := B.sub A
            let n2 := q i * q i + q j * q j + q k * q k + q w * q w
            if !close n2 1 1 then "fail frame-not-unit" else
            let Rm := rotOfQuat (q i) (q j) (q k) (q w)
            -- image of the y axis must be collinear with b - a (principal axis of the capsule)
            let y : V3 Rat := ⟨rget Rm 0 1, rget Rm 1 1, rget Rm 2 1⟩
            let c := y.cross dir
            let L := rabs dir.x + rabs dir.y + rabs dir.z
            if close c.x 0 (1000 * L) && close c.y 0 (1000 * L) && close c.z 0 (1000 * L) then "pass" else s!"fail frame-axis-not-along-segment"
        | none => "skip bad-args" }
  | "mp3_new" => some {
      model := fun a => run (do let c ← pv3; let m ← pf; let i ← pv3
                                let p := MP3.new c m i
                                pure s!"{fmp3 p} {ff p.mass} {fv3 p.principalInertia}") a
      oracle := fun a o => match run (do let c ← pv3; let m ← pf; let i ← pv3; pure (c, m, i)) a with
        | some (c, m, i) => withOut (do let p ← pomp3; let m' ← pfo; let i' ← pov3; pure (p, m', i')) o fun (p, m', i') =>
            if q m < 0 ∨ q i.x < 0 ∨ q i.y < 0 ∨ q i.z < 0 then "skip negative-input" else
            if !(q p.com.x = q c.x ∧ q p.com.y = q c.y ∧ q p.com.z = q c.z) then "fail com-changed"
            else if !close (q m') (q m) (rabs (q m)) then "fail mass-roundtrip"
            else if !(close (q i'.x) (q i.x) (rabs (q i.x)) && close (q i'.y) (q i.y) (rabs (q i.y)) && close (q i'.z) (q i.z) (rabs (q i.z))) then "fail inertia-roundtrip"
            else if !(q p.frame.i = 0 ∧ q p.frame.j = 0 ∧ q p.frame.k = 0 ∧ q p.frame.w = 1) then "fail frame-not-identity"
            else "pass"
        | none => "skip bad-args" }
  | "mp3_reconstruct" => some {
      model := fun a => run (do let p ← pmp3; pure (fm3 p.reconstruct)) a
      oracle := fun a o => match run pmp3 a with
        | some p => withOut pom3 o fun out =>
            let T := tensorOf p
            if closeM (rofM3 out) T (rnorm T + 1 / 1000000000000) then "pass" else "fail reconstruct"
        | none => "skip bad-args" }
  | "mp3_transform" => some {
      model := fun a => run (do let p ← pmp3; let m ← piso3; pure (fmp3 (p.transformBy m))) a
      oracle := fun a o => match run (do let p ← pmp3; let m ← piso3; pure (p, m)) a with
        | some (p, m) => withOut pomp3 o fun out =>
            if !finiteMP3 out then "fail nonfinite-output" else
            let M := qiso3 m
            let Rm := rotOfQuat M.qi M.qj M.qk M.qw
            let c := q3 p.com
            let rc : V3 Rat := ⟨rget Rm 0 0 * c.x + rget Rm 0 1 * c.y + rget Rm 0 2 * c.z + M.t.x,
                                rget Rm 1 0 * c.x + rget Rm 1 1 * c.y + rget Rm 1 2 * c.z + M.t.y,
                                rget Rm 2 0 * c.x + rget Rm 2 1 * c.y + rget Rm 2 2 * c.z + M.t.z⟩
            let s := rabs c.x + rabs c.y + rabs c.z + rabs M.t.x + rabs M.t.y + rabs M.t.z + 1 / 1000000
            let T := rmul (rmul Rm (tensorOf p)) (rtr Rm)
            if q out.invMass ≠ q p.invMass ∨ q out.invI.x ≠ q p.invI.x ∨ q out.invI.y ≠ q p.invI.y ∨ q out.invI.z ≠ q p.invI.z then "fail mass-or-inertia-changed"
            else if !(close (q out.com.x) rc.x s && close (q out.com.y) rc.y s && close (q out.com.z) rc.z s) then "fail com"
            else if !closeM (tensorOf out) T (rnorm T + 1 / 1000000000000) then "fail rotated-tensor"
            else "pass"
        | none => "skip bad-args" }
  | "mp3_add" => some {
      model := fun a => run (do let x ← pmp3; let y ← pmp3; pure (fmc3 (MP3.addObs x y))) a
      oracle := fun a o => match run (do let x ← pmp3; let y ← pmp3; pure (x, y)) a with
        | some (x, y) => withOut pomc3 o fun out =>
            if q x.invMass < 0 ∨ q y.invMass < 0 then "skip negative-mass" else
            judgeMC3 (sumMom3 [mom3 x, mom3 y]) (momScale3 [x, y]) out
        | none => "skip bad-args" }
  | "mp3_add_tensor" => some {
      model := fun a => run (do let x ← pmp3; let y ← pmp3; pure (fm3 (MP3.addObs x y).2.2)) a
      oracle := fun a o => match run (do let x ← pmp3; let y ← pmp3; pure (x, y)) a with
        | some (x, y) => withOut pom3 o fun out =>
            if q x.invMass < 0 ∨ q y.invMass < 0 then "skip negative-mass" else
            judgeTensor3 (sumMom3 [mom3 x, mom3 y]) (momScale3 [x, y]) (MP3.addObs x y).2.2 out
        | none => "skip bad-args" }
  | "mp3_sub" => some {
      model := fun a => run (do let x ← pmp3; let y ← pmp3; pure (fmc3 (MP3.subObs x y))) a
      oracle := fun a o => match run (do let x ← pmp3; let y ← pmp3; pure (x, y)) a with
        | some (x, y) => withOut pomc3 o fun out =>
            if q x.invMass < 0 ∨ q y.invMass < 0 then "skip negative-mass" else
            if isZero3Q x ∨ isZero3Q y then "skip zero-operand" else
            let mx := mom3 x; let my := mom3 y
            if mx.1 - my.1 < 1 / 1000000 then "skip mass-below-threshold" else
            judgeMC3 (sumMom3 [mx, negMom3 my]) (momScale3 [x, y]) out
        | none => "skip bad-args" }
  | "mp3_sub_tensor" => some {
      model := fun a => run (do let x ← pmp3; let y ← pmp3; pure (fm3 (MP3.subObs x y).2.2)) a
      oracle := fun a o => match run (do let x ← pmp3; let y ← pmp3; pure (x, y)) a with
        | some (x, y) => withOut pom3 o fun out =>
            if q x.invMass < 0 ∨ q y.invMass < 0 then "skip negative-mass" else
            if isZero3Q x ∨ isZero3Q y then "skip zero-operand" else
            let mx := mom3 x; let my := mom3 y
            if mx.1 - my.1 < 1 / 1000000 then "skip mass-below-threshold" else
            judgeTensor3 (sumMom3 [mx, negMom3 my]) (momScale3 [x, y]) (MP3.subObs x y).2.2 out
        | none => "skip bad-args" }
  | "mp3_sum" => some {
      model := fun a => run (do let ps ← plist pmp3; pure (fmc3 (MP3.sumObs ps))) a
      oracle := fun a o => match run (plist pmp3) a with
        | some ps => withOut pomc3 o fun out =>
            if ps.any (fun p => q p.invMass < 0) then "skip negative-mass" else
            let tot := sumMom3 (ps.map mom3)
            if tot.1 = 0 then "skip massless-family" else
            judgeMC3 tot (momScale3 ps) out
        | none => "skip bad-args" }
  | "mp3_sum_tensor" => some {
      model := fun a => run (do let ps ← plist pmp3; pure (fm3 (MP3.sumObs ps).2.2)) a
      oracle := fun a o => match run (plist pmp3) a with
        | some ps => withOut pom3 o fun out =>
            if ps.any (fun p => q p.invMass < 0) then "skip negative-mass" else
            let tot := sumMom3 (ps.map mom3)
            if tot.1 = 0 then "skip massless-family" else
            judgeTensor3 tot (momScale3 ps) (MP3.sumObs ps).2.2 out
        | none => "skip bad-args" }
  | _ => handlerMesh3 fn

/-- a compound part: isometry + shape (`0 r` ball, `1 hx hy` cuboid, `2 n pts…` convex polygon) -/
inductive Part2 where
  | ball (r : Float)
  | cuboid (he : V2 Float)
  | poly (vs : List (V2 Float))
def ppart2 : P (Iso2 Float × Part2) := do
  let m ← piso2
  let k ← pnat
  match k with
  | 0 => do let r ← pf; pure (m, Part2.ball r)
  | 1 => do let he ← pv2; pure (m, Part2.cuboid he)
  | _ => do let vs ← plist pv2; pure (m, Part2.poly vs)
/-- `Shape::mass_properties(density)` of a part (model side) -/
def partMP (d : Float) : Part2 → Option (MP2 Float)
  | .ball r => some (fromBall2 piF d r)
  | .cuboid he => some (fromCuboid2 d he)
  | .poly vs => fromConvexPolygon d vs
/-- exact unit-density moments about the origin of a placed part -/
def partMom (m : Iso2 Rat) : Part2 → Rat × V2 Rat × Rat
  | .ball r =>
      let R := q r; let A := piQ * R * R
      (A, vscale m.t A, piQ * R * R * R * R / 2 + A * nsq m.t)
  | .cuboid he =>
      let H := q2 he
      let V : List (V2 Rat) := [⟨-H.x, -H.y⟩, ⟨H.x, -H.y⟩, ⟨H.x, H.y⟩, ⟨-H.x, H.y⟩]
      polyMom (V.map fun p => (⟨m.re * p.x - m.im * p.y + m.t.x, m.im * p.x + m.re * p.y + m.t.y⟩ : V2 Rat))
  | .poly vs =>
      let M := polyMom ((vs.map q2).map fun p => (⟨m.re * p.x - m.im * p.y + m.t.x, m.im * p.x + m.re * p.y + m.t.y⟩ : V2 Rat))
      if M.1 < 0 then (-M.1, vscale M.2.1 (-1), -M.2.2) else M
def partExtent (_m : Iso2 Rat) : Part2 → Rat
  | .ball r => 2 * q r
  | .cuboid he => 2 * (q he.x + q he.y)
  | .poly vs => extent (vs.map q2)

/-- `true`: the model of the 2-D `from_capsule` follows `fixes/C13-capsule2d-half-disk-centroid.diff` (corrected behaviour,
defect protocol).  Set to `false` if that patch is not applied to `/repo`: the model is then the pinned code
(`fromCapsule2Pinned`), the correspondence is bit-exact again and only the oracle reports the defect. -/
def capsule2Fixed : Bool := false

def handlerA (fn : String) : Option Handler :=
  match fn with
  | "tri_area" => some {
      model := fun a => run (do let t ← ptri2; pure (ff (triArea t))) a
      oracle := fun a o => match run ptri2 a with
        | some t => withOut pfo o fun r =>
            if !FloatIO.isFinite r then "fail nonfinite-output" else
            let L := extent (ptsOfTri t)
            let (A, _, _) := triMom (q2 t.a) (q2 t.b) (q2 t.c)
            if q r < 0 then "fail negative-area" else
            if close (q r) A (L * L + triSlack (q2 t.a) (q2 t.b) (q2 t.c) / tol) then "pass" else s!"fail area got={q r} want={A}"
        | none => "skip bad-args" }
  | "tri_center" => some {
      model := fun a => run (do let t ← ptri2; pure (fv2 (triCenter t))) a
      oracle := fun a o => match run ptri2 a with
        | some t => withOut (do let x ← pfo; let y ← pfo; pure (⟨x, y⟩ : V2 Float)) o fun r =>
            let L := extent (ptsOfTri t)
            let A := q2 t.a; let B := q2 t.b; let C := q2 t.c
            let S := rabs A.x + rabs A.y + rabs B.x + rabs B.y + rabs C.x + rabs C.y
            let gx := (A.x + B.x + C.x) / 3; let gy := (A.y + B.y + C.y) / 3
            -- the centre is computed from absolute coordinates: tolerance relative to their magnitude
            if close (q r.x) gx (L + S / 1000000) && close (q r.y) gy (L + S / 1000000) then "pass"
            else s!"fail centroid got=({q r.x},{q r.y}) want=({gx},{gy})"
        | none => "skip bad-args" }
  | "tri_unit_inertia" => some {
      model := fun a => run (do let t ← ptri2; pure (ff (triUnitInertia t))) a
      oracle := fun a o => match run ptri2 a with
        | some t => withOut pfo o fun r =>
            -- documented meaning checked here: polar moment per unit area about vertex `a`
            let A := q2 t.a
            let L := extent (ptsOfTri t)
            let (ar, _, j) := triMom ⟨0, 0⟩ (vsub (q2 t.b) A) (vsub (q2 t.c) A)
            if L = 0 then (if q r = 0 then "pass" else "fail nonzero-on-point") else
            if ar < L * L / 1000000 then "skip degenerate-area" else
            if close (q r) (j / ar) (L * L) then "pass" else s!"fail unit-inertia-about-a got={q r} want={j / ar}"
        | none => "skip bad-args" }
  | "from_triangle" => some {
      model := fun a => run (do let d ← pf; let t ← ptri2; pure (fmp2 (fromTriangle d t))) a
      oracle := fun a o => match run (do let d ← pf; let t ← ptri2; pure (d, t)) a with
        | some (d, t) => withOut pomp2 o fun r =>
            judgeLamina (q d) (triMom (q2 t.a) (q2 t.b) (q2 t.c)) (extent (ptsOfTri t)) r
        | none => "skip bad-args" }
  | "poly_area_com" => some {
      model := fun a => run (do let vs ← plist pv2
                                pure (match polyAreaCom vs with
                                  | some (ar, c) => s!"{ff ar} {fv2 c}"
                                  | none => "panic")) a
      oracle := fun a o => match run (plist pv2) a with
        | some vs => if vs.isEmpty then "skip empty-slice (documented unwrap panic)" else
          withOut (do let ar ← pfo; let x ← pfo; let y ← pfo; pure (ar, (⟨x, y⟩ : V2 Float))) o fun (ar, c) =>
            let V := vs.map q2
            if !convexCCWorCW V then "skip not-convex" else
            let L := extent V
            let (sA, F, _) := polyMom V
            let A := rabs sA
            if L = 0 ∨ A < L * L / 1000000 then "skip degenerate-area" else
            let S := (V.foldl (fun s v => rmax s (rabs v.x + rabs v.y)) 0) / 1000000
            if !close (q ar) A (L * L) then s!"fail area got={q ar} want={A}"
            else if !(close (q c.x) (F.x / sA) (L + S) && close (q c.y) (F.y / sA) (L + S)) then
              s!"fail com got=({q c.x},{q c.y}) want=({F.x / sA},{F.y / sA})"
            else "pass"
        | none => "skip bad-args" }
  | "from_convex_polygon" => some {
      model := fun a => run (do let d ← pf; let vs ← plist pv2; pure (fopt (fromConvexPolygon d vs))) a
      oracle := fun a o => match run (do let d ← pf; let vs ← plist pv2; pure (d, vs)) a with
        | some (d, vs) => if vs.isEmpty then "skip empty-slice (documented unwrap panic)" else
          withOut pomp2 o fun r =>
            let V := vs.map q2
            if !convexCCWorCW V then "skip not-convex" else
            let (sA, F, J) := polyMom V
            let sg : Rat := if sA < 0 then -1 else 1
            judgeLamina (q d) (sg * sA, vscale F sg, sg * J) (extent V) r
        | none => "skip bad-args" }
  | "trimesh_area_com" => some {
      model := fun a => run (do let vs ← plist pv2; let idx ← plist pidx
                                pure (match resolveTris vs.toArray idx with
                                  | some ts => let r := meshAreaCom ts; s!"{ff r.1} {fv2 r.2}"
                                  | none => "panic")) a
      oracle := fun a o => match run (do let vs ← plist pv2; let idx ← plist pidx; pure (vs, idx)) a with
        | some (vs, idx) =>
          match resolveTris (vs.map q2).toArray idx with
          | none => if o.head? = some "panic" then "pass" else "fail no-panic-on-bad-index"
          | some ts => withOut (do let ar ← pfo; let x ← pfo; let y ← pfo; pure (ar, (⟨x, y⟩ : V2 Float))) o fun (ar, c) =>
            let V := vs.map q2
            let L := extent V
            let (A, F, _) := sumMom (ts.map fun t => triMom t.a t.b t.c)
            if L = 0 ∨ A < L * L / 1000000 then "skip degenerate-area" else
            let S := (V.foldl (fun s v => rmax s (rabs v.x + rabs v.y)) 0) / 1000000
            let sk := (ts.foldl (fun s t => s + triSlack t.a t.b t.c) 0) / tol
            if !close (q ar) A (L * L + sk) then s!"fail area got={q ar} want={A}"
            else if !(close (q c.x) (F.x / A) (L + S + sk * L / A) && close (q c.y) (F.y / A) (L + S + sk * L / A)) then
              s!"fail com got=({q c.x},{q c.y}) want=({F.x / A},{F.y / A})"
            else "pass"
        | none => "skip bad-args" }
  | "from_trimesh2" => some {
      model := fun a => run (do let d ← pf; let vs ← plist pv2; let idx ← plist pidx
                                pure (fopt (fromTrimesh d vs.toArray idx))) a
      oracle := fun a o => match run (do let d ← pf; let vs ← plist pv2; let idx ← plist pidx; pure (d, vs, idx)) a with
        | some (d, vs, idx) =>
          match resolveTris (vs.map q2).toArray idx with
          | none => if o.head? = some "panic" then "pass" else "fail no-panic-on-bad-index"
          | some ts => withOut pomp2 o fun r =>
            judgeLamina (q d) (sumMom (ts.map fun t => triMom t.a t.b t.c)) (extent (vs.map q2)) r
              (ts.foldl (fun s t => s + triSlack t.a t.b t.c) 0)
        | none => "skip bad-args" }
  | "from_ball2" => some {
      model := fun a => run (do let d ← pf; let r ← pf; pure (fmp2 (fromBall2 piF d r))) a
      oracle := fun a o => match run (do let d ← pf; let r ← pf; pure (d, r)) a with
        | some (d, r) => withOut pomp2 o fun out =>
            let R := q r
            -- disc: A = πr², F = 0, J = πr⁴/2
            judgeLamina (q d) (piQ * R * R, ⟨0, 0⟩, piQ * R * R * R * R / 2) R out
        | none => "skip bad-args" }
  | "from_cuboid2" => some {
      model := fun a => run (do let d ← pf; let he ← pv2; pure (fmp2 (fromCuboid2 d he))) a
      oracle := fun a o => match run (do let d ← pf; let he ← pv2; pure (d, he)) a with
        | some (d, he) => withOut pomp2 o fun out =>
            let H := q2 he
            let V : List (V2 Rat) := [⟨-H.x, -H.y⟩, ⟨H.x, -H.y⟩, ⟨H.x, H.y⟩, ⟨-H.x, H.y⟩]
            judgeLamina (q d) (polyMom V) (extent V) out
        | none => "skip bad-args" }
  | "from_capsule2" => some {
      model := fun a => run (do let d ← pf; let p ← pv2; let p' ← pv2; let r ← pf; pure (fmp2 (if capsule2Fixed then fromCapsule2 piF d p p' r else fromCapsule2Pinned piF d p p' r))) a
      oracle := fun a o => match run (do let d ← pf; let p ← pv2; let p' ← pv2; let r ← pf; pure (d, p, p', r)) a with
        | some (d, p, p', r) => withOut pomp2 o fun out =>
            let A := q2 p; let B := q2 p'; let R := q r
            let h := sqrtQ (nsq (vsub B A))
            let c := mid A B
            -- stadium about its centre: rectangle 2r×h + two half-discs (centroid offset 4r/(3π) from the flat side)
            let area := 2 * R * h + piQ * R * R
            let jc := 2 * R * h * (4 * R * R + h * h) / 12
                      + piQ * R * R * R * R / 2 + piQ * R * R * h * h / 4 + 4 * h * R * R * R / 3
            let L := h + 2 * R
            judgeLamina (q d) (area, vscale c area, jc + area * nsq c) (L + (rabs c.x + rabs c.y) / 1000) out
        | none => "skip bad-args" }
  | "from_compound2" => some {
      model := fun a => run (do let d ← pf; let ps ← plist ppart2
                                let mps := ps.map fun (m, s) => (partMP d s).map fun mp => (m, mp)
                                if mps.any Option.isNone then pure "none"
                                else pure (fmp2 (fromCompound2 (mps.filterMap id)))) a
      oracle := fun a o => match run (do let d ← pf; let ps ← plist ppart2; pure (d, ps)) a with
        | some (d, ps) =>
          if o = ["none"] then "skip polygon-rejected" else
          withOut pomp2 o fun out =>
            -- a rotation `(re, im)` is only a unit complex up to rounding: the exact image is scaled by `re²+im²` (1 ± 1e-16)
            let ms := ps.map fun (m, s) => partMom (qiso2 m) s
            let tot := sumMom ms
            -- length scale: the largest part extent plus the spread of the part positions
            let ext := ps.foldl (fun e (m, s) => rmax e (partExtent (qiso2 m) s)) 0
            let spread := extent (ps.map fun (m, _) => q2 m.t)
            judgeLamina (q d) tot (ext + spread) out
        | none => "skip bad-args" }
  | "mp2_new" => some {
      model := fun a => run (do let c ← pv2; let m ← pf; let i ← pf
                                let p := MP2.new c m i
                                pure s!"{fmp2 p} {ff p.mass} {ff p.principalInertia}") a
      oracle := fun a o => match run (do let c ← pv2; let m ← pf; let i ← pf; pure (c, m, i)) a with
        | some (c, m, i) => withOut (do let p ← pomp2; let m' ← pfo; let i' ← pfo; pure (p, m', i')) o fun (p, m', i') =>
            if q m < 0 ∨ q i < 0 then "skip negative-input" else
            -- `mass()` and `principal_inertia()` give back what `new` was given; the com is stored as is
            if (q2 p.com).x ≠ q c.x ∨ (q2 p.com).y ≠ q c.y then "fail com-changed"
            else if !close (q m') (q m) (rabs (q m)) then s!"fail mass-roundtrip got={q m'} want={q m}"
            else if !close (q i') (q i) (rabs (q i)) then s!"fail inertia-roundtrip got={q i'} want={q i}"
            else if !close (obs p).1 (q m) (rabs (q m)) then "fail stored-mass"
            else "pass"
        | none => "skip bad-args" }
  | "mp2_transform" => some {
      model := fun a => run (do let p ← pmp2; let m ← piso2; pure (fmp2 (p.transformBy m))) a
      oracle := fun a o => match run (do let p ← pmp2; let m ← piso2; pure (p, m)) a with
        | some (p, m) => withOut pomp2 o fun out =>
            let M := qiso2 m
            let c := q2 p.com
            let want : V2 Rat := ⟨M.re * c.x - M.im * c.y + M.t.x, M.im * c.x + M.re * c.y + M.t.y⟩
            let s := rabs c.x + rabs c.y + rabs M.t.x + rabs M.t.y + 1 / 1000000
            if q out.invMass ≠ q p.invMass ∨ q out.invI ≠ q p.invI then "fail mass-or-inertia-changed"
            else if close (q out.com.x) want.x s && close (q out.com.y) want.y s then "pass"
            else s!"fail com got=({q out.com.x},{q out.com.y}) want=({want.x},{want.y})"
        | none => "skip bad-args" }
  | "mp2_is_zero" => some {
      model := fun a => run (do let p ← pmp2; pure (fb p.isZero)) a
      oracle := fun a o => match run pmp2 a with
        | some p =>
            let ex := q p.com.x = 0 ∧ q p.com.y = 0 ∧ q p.invMass = 0 ∧ q p.invI = 0
            if o = [fb ex] then "pass" else s!"fail is-zero expected={decide ex}"
        | none => "skip bad-args" }
  | "mp2_add" => some {
      model := fun a => run (do let x ← pmp2; let y ← pmp2; pure (fmp2 (x.add y))) a
      oracle := fun a o => match run (do let x ← pmp2; let y ← pmp2; pure (x, y)) a with
        | some (x, y) => withOut pomp2 o fun out =>
            if q x.invMass < 0 ∨ q y.invMass < 0 then "skip negative-mass" else
            let mx := mom x; let my := mom y
            judgeMoments (mx.1 + my.1, vadd mx.2.1 my.2.1, mx.2.2 + my.2.2) (momScale [x, y]) out
        | none => "skip bad-args" }
  | "mp2_sub" => some {
      model := fun a => run (do let x ← pmp2; let y ← pmp2; pure (fmp2 (x.sub y))) a
      oracle := fun a o => match run (do let x ← pmp2; let y ← pmp2; pure (x, y)) a with
        | some (x, y) => withOut pomp2 o fun out =>
            if q x.invMass < 0 ∨ q y.invMass < 0 then "skip negative-mass" else
            let zx := q x.com.x = 0 ∧ q x.com.y = 0 ∧ q x.invMass = 0 ∧ q x.invI = 0
            let zy := q y.com.x = 0 ∧ q y.com.y = 0 ∧ q y.invMass = 0 ∧ q y.invI = 0
            if zx ∨ zy then (if fmp2 out = fmp2 x then "pass" else "fail sub-zero-not-identity") else
            let mx := mom x; let my := mom y
            let e : Rat := 1 / 8388608
            let dm := mx.1 - my.1
            -- domain of `(a+b)-b = a`: the remaining mass and inertia are above the code's clamping threshold
            if dm < 2 * e then "skip mass-below-threshold" else
            let f := vsub mx.2.1 my.2.1
            let c := vscale f (1 / dm)
            let ic := (mx.2.2 - my.2.2) - dm * nsq c
            if ic < 2 * e then "skip inertia-below-threshold" else
            judgeMoments (dm, f, mx.2.2 - my.2.2) (momScale [x, y]) out
        | none => "skip bad-args" }
  | "mp2_sum" => some {
      model := fun a => run (do let ps ← plist pmp2; pure (fmp2 (MP2.sum ps))) a
      oracle := fun a o => match run (plist pmp2) a with
        | some ps => withOut pomp2 o fun out =>
            if ps.any (fun p => q p.invMass < 0) then "skip negative-mass" else
            let ms := ps.map mom
            let tot := sumMom ms
            if ps.length > 0 ∧ tot.1 = 0 then
              -- all members massless: inertias still add up, com is unspecified
              (if close (obs out).2.2 (ps.foldl (fun s p => s + (obs p).2.2) 0) (momScale ps).2.2 ∧ q out.invMass = 0 then "pass"
               else "fail massless-sum")
            else judgeMoments tot (momScale ps) out
        | none => "skip bad-args" }
  | _ => handler3 fn

end C13
