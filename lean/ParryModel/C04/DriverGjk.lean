import ParryModel.C04.DriverClosed
/-! C04 protocol handlers, GJK-cast shapes beyond capsule / cylinder / cone (oracle only; `relations.json` kind none):
3-D `ConvexPolyhedron` (from the convex hull of ≤ 10 points), 3-D `RoundCuboid` (`RoundShape<Cuboid>`), 2-D `ConvexPolygon`.

Oracles (exact `Rat`, via the generic `convexOracle` of `DriverClosed.lean`):
* polytope: the facet planes are recomputed in the oracle by brute force from the INPUT points (a triple / pair of points
  spans a facet plane iff all points lie on one side) — independent of parry's hull code; one body of affine constraints;
* round cuboid: union of 3 grown boxes, 12 edge cylinders and 8 corner balls (`dist(p, box) ≤ r`). -/
namespace C04
open Model Proto

instance : Inhabited (V3 Rat) := ⟨⟨0, 0, 0⟩⟩
instance : Inhabited (V2 Rat) := ⟨⟨0, 0⟩⟩

def trueQuad : QuadC := ⟨0, 0, -1, 0, 0, 0⟩

/-- affine constraint `N·(O + sD) − c ≤ 0` with its magnitude polynomial; `L` = size of the shape's coordinates, so that the
magnitude never vanishes (an origin exactly on a facet through the coordinate origin is a boundary point, not a deep one) -/
def planeC (N : V3 Rat) (c : Rat) (O D : V3 Rat) (L : Rat := 0) : AffC :=
  ⟨N.dot O - c, N.dot D, rabs N.x * (rabs O.x + L) + rabs N.y * (rabs O.y + L) + rabs N.z * (rabs O.z + L) + rabs c,
   rabs (N.x * D.x) + rabs (N.y * D.y) + rabs (N.z * D.z)⟩

/-- facet planes `(N, c)` (outward `N`, `N·p ≤ c` on the hull) of the convex hull of `pts`, by brute force over triples -/
def hullPlanes3 (pts : List (V3 Rat)) : List (V3 Rat × Rat) :=
  let arr := pts.toArray
  let n := arr.size
  Id.run do
    let mut out : List (V3 Rat × Rat) := []
    for i in [0:n] do
      for j in [i+1:n] do
        for k in [j+1:n] do
          let a := arr[i]!; let b := arr[j]!; let c := arr[k]!
          let N := (b.sub a).cross (c.sub a)
          if N.normSq ≠ 0 then
            let ds := pts.map fun p => N.dot (p.sub a)
            if ds.all (· ≤ 0) then out := (N, N.dot a) :: out
            else if ds.all (· ≥ 0) then out := (N.neg, N.neg.dot a) :: out
    return out

def hullSupport3 (pts : List (V3 Rat)) : Support := fun n => pts.foldl (fun m p => rmax m (n.dot p)) (-1000000000000)

def polyBodies3 (pts : List (V3 Rat)) (O D : V3 Rat) : List Body :=
  let L := pts.foldl (fun m p => rmax m (absV p)) 0
  [{ aff := (hullPlanes3 pts).map fun (N, c) => planeC N c O D L, quad := trueQuad }]

/-- 2-D: edge lines of the hull by brute force over pairs; embedded with `z` unconstrained -/
def hullPlanes2 (pts : List (V2 Rat)) : List (V3 Rat × Rat) :=
  let arr := pts.toArray
  let n := arr.size
  Id.run do
    let mut out : List (V3 Rat × Rat) := []
    for i in [0:n] do
      for j in [i+1:n] do
        let a := arr[i]!; let b := arr[j]!
        let e := b.sub a
        let N : V2 Rat := ⟨e.y, -e.x⟩
        if N.normSq ≠ 0 then
          let ds := pts.map fun p => N.dot (p.sub a)
          if ds.all (· ≤ 0) then out := (⟨N.x, N.y, 0⟩, N.dot a) :: out
          else if ds.all (· ≥ 0) then out := (⟨-N.x, -N.y, 0⟩, -(N.dot a)) :: out
    return out

/-- `dist(p, box(he)) ≤ r` as a union of convex bodies along the ray -/
def roundCuboidBodies (he : V3 Rat) (r : Rat) (O D : V3 Rat) : List Body :=
  let slab := fun (ax : Nat) (h : Rat) =>
    let N : V3 Rat := if ax = 0 then ⟨1, 0, 0⟩ else if ax = 1 then ⟨0, 1, 0⟩ else ⟨0, 0, 1⟩
    [planeC N h O D, planeC N.neg h O D]
  let box := fun (g : V3 Rat) => ({ aff := slab 0 g.x ++ slab 1 g.y ++ slab 2 g.z, quad := trueQuad } : Body)
  let boxes := [box ⟨he.x + r, he.y, he.z⟩, box ⟨he.x, he.y + r, he.z⟩, box ⟨he.x, he.y, he.z + r⟩]
  let sg : List Rat := [1, -1]
  let corners := sg.flatMap fun sx => sg.flatMap fun sy => sg.map fun sz => ballBody ⟨sx * he.x, sy * he.y, sz * he.z⟩ r O D
  -- edge cylinders: axis `ax`, through (·, s1·h1, s2·h2)
  let cyl := fun (ax : Nat) (s1 s2 : Rat) =>
    let get := fun (v : V3 Rat) (i : Nat) => if i = 0 then v.x else if i = 1 then v.y else v.z
    let i1 := (ax + 1) % 3; let i2 := (ax + 2) % 3
    let o1 := get O i1 - s1 * get he i1; let o2 := get O i2 - s2 * get he i2
    let d1 := get D i1; let d2 := get D i2
    ({ aff := slab ax (get he ax),
       quad := ⟨d1 * d1 + d2 * d2, o1 * d1 + o2 * d2, o1 * o1 + o2 * o2 - r * r,
                d1 * d1 + d2 * d2, rabs (o1 * d1) + rabs (o2 * d2), o1 * o1 + o2 * o2 + r * r⟩ } : Body)
  let cyls := [0, 1, 2].flatMap fun ax => sg.flatMap fun s1 => sg.map fun s2 => cyl ax s1 s2
  boxes ++ corners ++ cyls
def roundCuboidSupport (he : V3 Rat) (r : Rat) : Support := fun n =>
  he.x * rabs n.x + he.y * rabs n.y + he.z * rabs n.z + r * sqrtUp n.normSq

def ppts3 : P (List (V3 Float)) := do let n ← pnat; (List.range n).mapM fun _ => pv3
def ppts2 : P (List (V2 Float)) := do let n ← pnat; (List.range n).mapM fun _ => pv2

def handlerGjk (fn : String) : Option Handler :=
  match fn with
  | "convpoly_normal" => some {
      model := fun _ => some "gjk-not-modelled"
      oracle := fun a o => withArgs (do let ps ← ppts3; let ra ← pray; pure (ps, ra)) a fun (ps, ra) =>
        let pts := ps.map q3; let O := q3 ra.o; let D := q3 ra.d
        if (hullPlanes3 pts).length < 4 then "skip degenerate-hull" else
        convexOracle (polyBodies3 pts O D) (hullSupport3 pts) O D (1 + absV O + pts.foldl (fun m p => rmax m (absV p)) 0)
          ra.maxQ ra.solid gjkTol (parseOut o) }
  | "roundcuboid_normal" => some {
      model := fun _ => some "gjk-not-modelled"
      oracle := fun a o => withArgs (do let he ← pv3; let r ← pf; let ra ← pray; pure (he, r, ra)) a fun (he, r, ra) =>
        let O := q3 ra.o; let D := q3 ra.d; let H := q3 he
        convexOracle (roundCuboidBodies H (q r) O D) (roundCuboidSupport H (q r)) O D (1 + absV O + absV H + q r)
          ra.maxQ ra.solid gjkTol (parseOut o) }
  | "convpoly2_normal" => some {
      model := fun _ => some "gjk-not-modelled"
      oracle := fun a o => withArgs (do let ps ← ppts2; let ra ← pray2; pure (ps, ra)) a fun (ps, ra) =>
        let pts := ps.map q2; let O : V3 Rat := ⟨q ra.o.x, q ra.o.y, 0⟩; let D : V3 Rat := ⟨q ra.d.x, q ra.d.y, 0⟩
        let planes := hullPlanes2 pts
        if planes.length < 3 then "skip degenerate-hull" else
        let pts3 := pts.map fun p => (⟨p.x, p.y, 0⟩ : V3 Rat)
        let out := match parseOut2 o with
          | .bad w => Out.bad w | .miss => Out.miss | .hit t n f => Out.hit t (some ⟨n.x, n.y, 0.0⟩) f
        let L := pts3.foldl (fun m p => rmax m (absV p)) 0
        convexOracle [{ aff := planes.map fun (N, c) => planeC N c O D L, quad := trueQuad }] (hullSupport3 pts3) O D
          (1 + absV O + pts3.foldl (fun m p => rmax m (absV p)) 0) ra.maxQ ra.solid gjkTol out }
  | _ => none

end C04
