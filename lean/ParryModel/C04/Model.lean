import ParryModel.Shapes
/-!
# C04 model: closed-form ray casts of `src/query/ray/*.rs` and `src/query/clip/clip_aabb_line.rs`.
Literal transliteration (same branch order, comparison strictness, floating-point operation order).
Support-map (GJK) casts are *not* modelled (oracle-only, see `C04/Driver.lean`).
-/
namespace Model
variable {K : Type} [Num K]

/-- `Ray { origin, dir }` (3-D) -/
structure Ray3 (K : Type) where
  o : V3 K
  d : V3 K
/-- `Ray { origin, dir }` (2-D) -/
structure Ray2 (K : Type) where
  o : V2 K
  d : V2 K

namespace Ray3
/-- `Ray::point_at`: `origin + dir * t` -/
@[inline] def pointAt (r : Ray3 K) (t : K) : V3 K := r.o.add (r.d.smul t)
/-- `Ray::inverse_transform_by` -/
@[inline] def invTransform (r : Ray3 K) (m : Iso3 K) : Ray3 K := ⟨m.invAct r.o, m.invRot r.d⟩
/-- `Ray::translate_by` -/
@[inline] def translate (r : Ray3 K) (v : V3 K) : Ray3 K := ⟨r.o.add v, r.d⟩
end Ray3
namespace Ray2
@[inline] def pointAt (r : Ray2 K) (t : K) : V2 K := r.o.add (r.d.smul t)
@[inline] def invTransform (r : Ray2 K) (m : Iso2 K) : Ray2 K := ⟨m.invAct r.o, m.invRot r.d⟩
end Ray2

/-- `RayIntersection` (3-D): time of impact, normal; the feature id is carried as a tag string-free code:
`feat = (kind, index)` with kind 0 = Face, 1 = Vertex, 2 = Unknown. -/
structure Hit3 (K : Type) where
  toi : K
  n : V3 K
  fkind : Nat := 0
  fidx : Nat := 0
structure Hit2 (K : Type) where
  toi : K
  n : V2 K
  fkind : Nat := 0
  fidx : Nat := 0


/-- `RayIntersection::transform_by` : normal rotated, toi unchanged -/
@[inline] def Hit3.transformBy (h : Hit3 K) (m : Iso3 K) : Hit3 K := { h with n := m.rot h.n }
@[inline] def Hit2.transformBy (h : Hit2 K) (m : Iso2 K) : Hit2 K := { h with n := m.rot h.n }

/-! ## Ball (`ray_ball.rs`) -/

/-- `ray_toi_with_ball(center, radius, ray, solid) -> (inside, Option<toi>)` -/
def rayToiWithBall (center : V3 K) (radius : K) (ray : Ray3 K) (solid : Bool) : Bool × Option K :=
  let dcenter := ray.o.sub center
  let a := ray.d.normSq
  let b := dcenter.dot ray.d
  let c := dcenter.normSq - radius * radius
  if neq a 0 then
    if 0 < c then (false, none) else (true, some 0)
  else if 0 < c ∧ 0 < b then (false, none)
  else
    let delta := b * b - a * c
    if delta < 0 then (false, none)
    else
      let t := (-b - Num.sqrt delta) / a
      if t ≤ 0 then
        if solid then (true, some 0) else (true, some ((-b + Num.sqrt delta) / a))
      else (false, some t)

/-- `ray_toi_and_normal_with_ball` -/
def rayToiAndNormalWithBall (center : V3 K) (radius : K) (ray : Ray3 K) (solid : Bool) : Bool × Option (Hit3 K) :=
  let (inside, inter) := rayToiWithBall center radius ray solid
  (inside, inter.map fun n =>
    let pos := (ray.o.add (ray.d.smul n)).sub center
    let normal := pos.normalize
    { toi := n, n := if inside then normal.neg else normal, fkind := 0, fidx := 0 })

/-- `Ball::cast_local_ray` -/
def Ball.castLocalRay (s : Ball K) (ray : Ray3 K) (maxToi : K) (solid : Bool) : Option K :=
  (rayToiWithBall V3.zero s.r ray solid).2.filter fun t => decide (t ≤ maxToi)
/-- `Ball::cast_local_ray_and_get_normal` -/
def Ball.castLocalRayAndGetNormal (s : Ball K) (ray : Ray3 K) (maxToi : K) (solid : Bool) : Option (Hit3 K) :=
  (rayToiAndNormalWithBall V3.zero s.r ray solid).2.filter fun h => decide (h.toi ≤ maxToi)
/-- default `RayCast::cast_ray_and_get_normal` specialised to the ball -/
def Ball.castRayAndGetNormal (s : Ball K) (m : Iso3 K) (ray : Ray3 K) (maxToi : K) (solid : Bool) : Option (Hit3 K) :=
  (s.castLocalRayAndGetNormal (ray.invTransform m) maxToi solid).map (·.transformBy m)

/-! ## Aabb (`ray_aabb.rs`, `clip_aabb_line.rs`) and Cuboid (`ray_cuboid.rs`) -/

structure Aabb (K : Type) where
  mins : V3 K
  maxs : V3 K

/-- one iteration of the slab loop of `Aabb::cast_local_ray` on axis data `(mins[i], maxs[i], origin[i], dir[i])`;
`none` = the `return None` exits. -/
def slabStep (mn mx o d : K) (st : K × K) : Option (K × K) :=
  if neq d 0 then
    if o < mn ∨ mx < o then none else some st
  else
    let denom := 1 / d
    let n0 := (mn - o) * denom
    let f0 := (mx - o) * denom
    let near := if f0 < n0 then f0 else n0
    let far := if f0 < n0 then n0 else f0
    let tmin := nmax st.1 near
    let tmax := nmin st.2 far
    if tmax < tmin then none else some (tmin, tmax)

/-- `Aabb::cast_local_ray` — **corrected behaviour** (fixes/C04-aabb-cast-local-ray-max-toi.diff): the exit time of
a non-solid cast from inside is the smallest far-slab parameter, reported only if it is `≤ max_toi`.
On the pinned tree `tmax` starts at `max_time_of_impact` and `Some(max_toi)` is returned for a ray that is
still inside the box at `max_toi`.  `big` is `Real::MAX`. -/
def Aabb.castLocalRay (big : K) (b : Aabb K) (ray : Ray3 K) (maxToi : K) (solid : Bool) : Option K :=
  match slabStep b.mins.x b.maxs.x ray.o.x ray.d.x (0, big) with
  | none => none
  | some s0 =>
  match slabStep b.mins.y b.maxs.y ray.o.y ray.d.y s0 with
  | none => none
  | some s1 =>
  match slabStep b.mins.z b.maxs.z ray.o.z ray.d.z s1 with
  | none => none
  | some (tmin, tmax) =>
    let toi := if neq tmin 0 && !solid then tmax else tmin
    if toi ≤ maxToi then some toi else none

/-- `Aabb::cast_local_ray` exactly as on the pinned tree (kept for the record and for the negative theorem). -/
def Aabb.castLocalRayPinned (b : Aabb K) (ray : Ray3 K) (maxToi : K) (solid : Bool) : Option K :=
  match slabStep b.mins.x b.maxs.x ray.o.x ray.d.x (0, maxToi) with
  | none => none
  | some s0 =>
  match slabStep b.mins.y b.maxs.y ray.o.y ray.d.y s0 with
  | none => none
  | some s1 =>
  match slabStep b.mins.z b.maxs.z ray.o.z ray.d.z s1 with
  | none => none
  | some (tmin, tmax) => if neq tmin 0 && !solid then some tmax else some tmin

/-- loop state of `clip_aabb_line` -/
structure ClipSt (K : Type) where
  tmin : K
  tmax : K
  nearSide : Int
  farSide : Int
  nearDiag : Bool
  farDiag : Bool

/-- one iteration of the loop of `clip_aabb_line` for axis `i` -/
def clipStep (i : Nat) (mn mx o d : K) (st : ClipSt K) : Option (ClipSt K) :=
  if neq d 0 then
    if o < mn ∨ mx < o then none else some st
  else
    let denom := 1 / d
    let n0 := (mn - o) * denom
    let f0 := (mx - o) * denom
    let flip : Bool := decide (f0 < n0)
    let near := if flip then f0 else n0
    let far := if flip then n0 else f0
    let st1 : ClipSt K :=
      if st.tmin < near then
        { st with tmin := near, nearSide := if flip then -((i : Int) + 1) else (i : Int) + 1, nearDiag := false }
      else if neq near st.tmin then { st with nearDiag := true } else st
    let st2 : ClipSt K :=
      if far < st1.tmax then
        { st1 with tmax := far, farSide := if !flip then -((i : Int) + 1) else (i : Int) + 1, farDiag := false }
      else if neq far st1.tmax then { st1 with farDiag := true } else st1
    if st2.tmax < st2.tmin then none else some st2

/-- result of `clip_aabb_line`: `(param, normal, side)` for the near and the far intersection -/
structure ClipEnd (K : Type) where
  t : K
  n : V3 K
  side : Int

inductive ClipRes (K : Type) where
  | none
  | some (near far : ClipEnd K)

/-- unit vector `±e_k` (`k = |side| − 1`) written into `Vector::zeros()` -/
def axisVec (k : Int) (v : K) : V3 K :=
  if k = 0 then ⟨v, 0, 0⟩ else if k = 1 then ⟨0, v, 0⟩ else ⟨0, 0, v⟩

/-- `clip_aabb_line(aabb, origin, dir)`; `big` is `Real::MAX`.  The per-axis early exit is `tmin > tmax` only (a box behind
the origin is still clipped; the ray forms test `far < 0` themselves), and a side code `0` (no axis ever updated that end,
e.g. zero direction) leaves the normal at zero. -/
def clipAabbLine (big : K) (b : Aabb K) (o d : V3 K) : ClipRes K :=
  let st : ClipSt K := ⟨-big, big, 0, 0, false, false⟩
  match clipStep 0 b.mins.x b.maxs.x o.x d.x st with
  | none => .none
  | some s0 =>
  match clipStep 1 b.mins.y b.maxs.y o.y d.y s0 with
  | none => .none
  | some s1 =>
  match clipStep 2 b.mins.z b.maxs.z o.z d.z s1 with
  | none => .none
  | some s =>
    let near : ClipEnd K :=
      if s.nearDiag then ⟨s.tmin, d.normalize.neg, s.nearSide⟩
      else if s.nearSide < 0 then ⟨s.tmin, axisVec (-s.nearSide - 1) 1, s.nearSide⟩
      else if 0 < s.nearSide then ⟨s.tmin, axisVec (s.nearSide - 1) (-1), s.nearSide⟩
      else ⟨s.tmin, V3.zero, s.nearSide⟩
    let far : ClipEnd K :=
      if s.farDiag then ⟨s.tmax, d.normalize.neg, s.farSide⟩
      else if s.farSide < 0 then ⟨s.tmax, axisVec (-s.farSide - 1) (-1), s.farSide⟩
      else if 0 < s.farSide then ⟨s.tmax, axisVec (s.farSide - 1) 1, s.farSide⟩
      else ⟨s.tmax, V3.zero, s.farSide⟩
    .some near far

/-- `ray_aabb` + the feature computation of `Aabb::cast_local_ray_and_get_normal`.
Feature: `i < 0 → Face(-i - 1 + 3)`, else `Face(i as u32 - 1)` (for `i = 0` the release build wraps to `u32::MAX`). -/
def Aabb.castLocalRayAndGetNormal (big : K) (b : Aabb K) (ray : Ray3 K) (maxToi : K) (solid : Bool) : Option (Hit3 K) :=
  let mk := fun (t : K) (n : V3 K) (i : Int) =>
    ({ toi := t, n := n, fkind := 0,
       fidx := if i < 0 then (-i - 1 + 3).toNat else if i = 0 then 4294967295 else (i - 1).toNat } : Hit3 K)
  match clipAabbLine big b ray.o ray.d with
  | .none => none
  | .some near far =>
    if far.t < 0 then none
    else if near.t < 0 then
      if solid then some (mk 0 V3.zero far.side)
      else if far.t ≤ maxToi then some (mk far.t far.n far.side)
      else none
    else if near.t ≤ maxToi then some (mk near.t near.n near.side)
    else none

/-- `Cuboid::cast_local_ray` -/
def Cuboid3.castLocalRay (big : K) (s : Cuboid3 K) (ray : Ray3 K) (maxToi : K) (solid : Bool) : Option K :=
  (Aabb.mk s.he.neg s.he).castLocalRay big ray maxToi solid
/-- `Cuboid::cast_local_ray_and_get_normal` -/
def Cuboid3.castLocalRayAndGetNormal (big : K) (s : Cuboid3 K) (ray : Ray3 K) (maxToi : K) (solid : Bool) :
    Option (Hit3 K) :=
  (Aabb.mk s.he.neg s.he).castLocalRayAndGetNormal big ray maxToi solid
/-- `RayCast::cast_ray` / `cast_ray_and_get_normal` defaults, specialised to the cuboid -/
def Cuboid3.castRay (big : K) (s : Cuboid3 K) (m : Iso3 K) (ray : Ray3 K) (maxToi : K) (solid : Bool) : Option K :=
  s.castLocalRay big (ray.invTransform m) maxToi solid
def Cuboid3.castRayAndGetNormal (big : K) (s : Cuboid3 K) (m : Iso3 K) (ray : Ray3 K) (maxToi : K) (solid : Bool) :
    Option (Hit3 K) :=
  (s.castLocalRayAndGetNormal big (ray.invTransform m) maxToi solid).map (·.transformBy m)

/-- `BoundingSphere::cast_local_ray_and_get_normal`: `ray.translate_by(-center)` then the ball cast -/
def bsphereCastLocalRayAndGetNormal (center : V3 K) (r : K) (ray : Ray3 K) (maxToi : K) (solid : Bool) : Option (Hit3 K) :=
  (Ball.mk r).castLocalRayAndGetNormal (ray.translate center.neg) maxToi solid

/-! ## HalfSpace (`ray_halfspace.rs`) -/

/-- `HalfSpace::cast_local_ray_and_get_normal` — **corrected behaviour**
(fixes/C04-halfspace-parallel-ray.diff): a ray parallel to the boundary plane (`normal·dir == 0`) hits only if its
origin lies on the plane (toi 0).  On the pinned tree the division `dot_normal_dpos / 0` yields `+inf` (reported as a hit
when `max_toi = +inf`) or `NaN` (origin on the plane: `None`). -/
def HalfSpace3.castLocalRayAndGetNormal (s : HalfSpace3 K) (ray : Ray3 K) (maxToi : K) (solid : Bool) : Option (Hit3 K) :=
  let dpos := ray.o.neg
  let dotNormalDpos := s.n.dot dpos
  if solid ∧ 0 < dotNormalDpos then some { toi := 0, n := V3.zero }
  else
    let dotNormalDir := s.n.dot ray.d
    if neq dotNormalDir 0 then
      if neq dotNormalDpos 0 then some { toi := 0, n := s.n } else none
    else
      let t := dotNormalDpos / dotNormalDir
      if 0 ≤ t ∧ t ≤ maxToi then
        some { toi := t, n := if 0 < dotNormalDpos then s.n.neg else s.n }
      else none

/-- the pinned-tree version (no guard) -/
def HalfSpace3.castLocalRayAndGetNormalPinned (s : HalfSpace3 K) (ray : Ray3 K) (maxToi : K) (solid : Bool) : Option (Hit3 K) :=
  let dpos := ray.o.neg
  let dotNormalDpos := s.n.dot dpos
  if solid ∧ 0 < dotNormalDpos then some { toi := 0, n := V3.zero }
  else
    let t := dotNormalDpos / s.n.dot ray.d
    if 0 ≤ t ∧ t ≤ maxToi then
      some { toi := t, n := if 0 < dotNormalDpos then s.n.neg else s.n }
    else none

def HalfSpace3.castRayAndGetNormal (s : HalfSpace3 K) (m : Iso3 K) (ray : Ray3 K) (maxToi : K) (solid : Bool) : Option (Hit3 K) :=
  (s.castLocalRayAndGetNormal (ray.invTransform m) maxToi solid).map (·.transformBy m)

/-! ## Triangle, 3-D (`ray_triangle.rs`) -/

/-- `local_ray_intersection_with_triangle(a, b, c, ray) -> Option<(RayIntersection, barycentric)>`
(branch selection corrected, see the comment inside) -/
def localRayIntersectionWithTriangle (a b c : V3 K) (ray : Ray3 K) : Option (Hit3 K × V3 K) :=
  let ab := b.sub a
  let ac := c.sub a
  let n := ab.cross ac
  let d := n.dot ray.d
  if neq d 0 then none else
  let ap := ray.o.sub a
  let t := ap.dot n
  if (t < 0 ∧ d < 0) ∨ (0 < t ∧ 0 < d) then none else
  let fid : Nat := if d < 0 then 0 else 1
  let d := nabs d
  let e := (ray.d.cross ap).neg
  -- **corrected behaviour** (fixes/C04-triangle-origin-on-plane.diff): the pinned tree branches on `t < 0.0`, which
  -- sends a ray starting exactly in the triangle's plane (`t == 0`) with `d > 0` to the formulas meant for `d < 0`
  -- (barycentric coordinates with the wrong sign ⇒ `None`).  The branch that matches the formulas is the sign of `d`.
  if fid = 1 then
    let v := -(ac.dot e)
    if v < 0 ∨ d < v then none else
    let w := ab.dot e
    if w < 0 ∨ d < v + w then none else
    let invd := 1 / d
    let toi := -t * invd
    let normal := n.normalize.neg
    let v := v * invd
    let w := w * invd
    some ({ toi := toi, n := normal, fkind := 0, fidx := fid }, ⟨-v - w + 1, v, w⟩)
  else
    let v := ac.dot e
    if v < 0 ∨ d < v then none else
    let w := -(ab.dot e)
    if w < 0 ∨ d < v + w then none else
    let invd := 1 / d
    let toi := t * invd
    let normal := n.normalize
    let v := v * invd
    let w := w * invd
    some ({ toi := toi, n := normal, fkind := 0, fidx := fid }, ⟨-v - w + 1, v, w⟩)

/-- `Triangle::cast_local_ray_and_get_normal` (3-D; the `solid` flag is ignored by the code) -/
def Triangle3.castLocalRayAndGetNormal (s : Triangle3 K) (ray : Ray3 K) (maxToi : K) (_solid : Bool) : Option (Hit3 K) :=
  match localRayIntersectionWithTriangle s.a s.b s.c ray with
  | none => none
  | some (inter, _) => if inter.toi ≤ maxToi then some inter else none

/-! ## Segment, 2-D (`ray_support_map.rs`, `closest_points_line_line.rs`) -/

/-- `approx::ulps_eq!(a, b)` with the default `epsilon = f64::EPSILON`, `max_ulps = 4`; bit-level at `Float`,
`|a − b| ≤ ε` in exact arithmetic (there are no ulps there). -/
class UlpsEq (K : Type) where
  ulpsEq : K → K → Bool

instance : UlpsEq Float where
  ulpsEq a b :=
    let eps : Float := Float.ofBits 0x3CB0000000000000
    let diff := if a > b then a - b else b - a
    if diff ≤ eps then true
    else if a.isNaN || b.isNaN then false
    else
      let ia := a.toBits; let ib := b.toBits
      if (ia >>> 63) != (ib >>> 63) then false
      else if ia ≤ ib then ib - ia ≤ 4 else ia - ib ≤ 4

/-- `DEFAULT_EPSILON = f64::EPSILON = 2⁻⁵²` -/
@[inline] def defaultEps : K := lit 1 4503599627370496

/-- `closest_points_line_line_parameters_eps` (2-D instance) -/
def closestPointsLineLineParametersEps2 [UlpsEq K] (o1 d1 o2 d2 : V2 K) (eps : K) : K × K × Bool :=
  let r := o1.sub o2
  let a := d1.normSq
  let e := d2.normSq
  let f := d2.dot r
  if a ≤ eps ∧ e ≤ eps then (0, 0, false)
  else if a ≤ eps then (0, f / e, false)
  else
    let c := d1.dot r
    if e ≤ eps then (-c / a, 0, false)
    else
      let b := d1.dot d2
      let ae := a * e
      let bb := b * b
      let denom := ae - bb
      let parallel : Bool := decide (denom ≤ eps) || UlpsEq.ulpsEq ae bb
      let s := if !parallel then (b * f - c * e) / denom else 0
      (s, (b * s + f) / e, parallel)

/-- `Segment::normal()` (2-D) `.map(|n| *n).unwrap_or_else(Vector::zeros)`:
`Unit::try_new((dir.y, −dir.x), ε)` -/
def Segment2.normalOrZero (s : Segment2 K) : V2 K :=
  let dir := s.b.sub s.a
  let v : V2 K := ⟨dir.y, -dir.x⟩
  let sqn := v.normSq
  if defaultEps * defaultEps < sqn then v.sdiv (Num.sqrt sqn) else V2.zero

/-- `Segment::cast_local_ray_and_get_normal` (2-D). Feature: kind 0 = Face, 1 = Vertex. -/
def Segment2.castLocalRayAndGetNormal [UlpsEq K] (s : Segment2 K) (ray : Ray2 K) (maxToi : K) (_solid : Bool) : Option (Hit2 K) :=
  let segDir := s.b.sub s.a
  let (sp, tp, parallel) := closestPointsLineLineParametersEps2 ray.o ray.d s.a segDir defaultEps
  if parallel then
    let dpos := s.a.sub ray.o
    let normal := s.normalOrZero
    if nabs (dpos.dot normal) < defaultEps then
      let dist1 := dpos.dot ray.d
      let dist2 := dist1 + segDir.dot ray.d
      if 0 ≤ dist1 ∧ 0 ≤ dist2 then
        let toi := nmin dist1 dist2 / ray.d.normSq
        if maxToi < toi then none
        else if dist1 ≤ dist2 then some { toi := toi, n := normal, fkind := 1, fidx := 0 }
        else some { toi := dist2 / ray.d.normSq, n := normal, fkind := 1, fidx := 1 }
      else if 0 ≤ dist1 ∨ 0 ≤ dist2 then some { toi := 0, n := normal, fkind := 0, fidx := 0 }
      else none
    else none
  else if 0 ≤ sp ∧ sp ≤ maxToi ∧ 0 ≤ tp ∧ tp ≤ 1 then
    let normal := s.normalOrZero
    if 0 < normal.dot ray.d then some { toi := sp, n := normal.neg, fkind := 0, fidx := 1 }
    else some { toi := sp, n := normal, fkind := 0, fidx := 0 }
  else none

def Segment2.castRayAndGetNormal [UlpsEq K] (s : Segment2 K) (m : Iso2 K) (ray : Ray2 K) (maxToi : K) (solid : Bool) : Option (Hit2 K) :=
  (s.castLocalRayAndGetNormal (ray.invTransform m) maxToi solid).map (·.transformBy m)

end Model
