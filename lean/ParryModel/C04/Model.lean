import ParryModel.Shapes
/-!
# C04 model: closed-form ray casts of `src/query/ray/*.rs` and `src/query/clip/clip_aabb_line.rs`.
Literal transliteration (same branch order, comparison strictness, floating-point operation order).
Support-map (GJK) casts are *not* modelled (oracle-only, see `C04/Driver.lean`).
-/
namespace Model
variable {K : Type} [Num K]

/-- `Ray { origin, dir }` (3-D) -/
structure Ray3 (K : Type) where
  o : V3 K
  d : V3 K
/-- `Ray { origin, dir }` (2-D) -/
structure Ray2 (K : Type) where
  o : V2 K
  d : V2 K

namespace Ray3
/-- `Ray::point_at`: `origin + dir * t` -/
@[inline] def pointAt (r : Ray3 K) (t : K) : V3 K := r.o.add (r.d.smul t)
/-- `Ray::inverse_transform_by` -/
@[inline] def invTransform (r : Ray3 K) (m : Iso3 K) : Ray3 K := ⟨m.invAct r.o, m.invRot r.d⟩
/-- `Ray::translate_by` -/
@[inline] def translate (r : Ray3 K) (v : V3 K) : Ray3 K := ⟨r.o.add v, r.d⟩
end Ray3
namespace Ray2
@[inline] def pointAt (r : Ray2 K) (t : K) : V2 K := r.o.add (r.d.smul t)
@[inline] def invTransform (r : Ray2 K) (m : Iso2 K) : Ray2 K := ⟨m.invAct r.o, m.invRot r.d⟩
end Ray2

/-- `RayIntersection` (3-D): time of impact, normal; the feature id is carried as a tag string-free code:
`feat = (kind, index)` with kind 0 = Face, 1 = Vertex, 2 = Unknown. -/
structure Hit3 (K : Type) where
  toi : K
  n : V3 K
  fkind : Nat := 0
  fidx : Nat := 0
structure Hit2 (K : Type) where
  toi : K
  n : V2 K
  fkind : Nat := 0
  fidx : Nat := 0

/-- nalgebra `normalize`: `self.unscale(self.norm())` -/
@[inline] def V3.normalize (v : V3 K) : V3 K := v.sdiv v.norm
@[inline] def V2.normalize (v : V2 K) : V2 K := v.sdiv v.norm

/-- `RayIntersection::transform_by` : normal rotated, toi unchanged -/
@[inline] def Hit3.transformBy (h : Hit3 K) (m : Iso3 K) : Hit3 K := { h with n := m.rot h.n }
@[inline] def Hit2.transformBy (h : Hit2 K) (m : Iso2 K) : Hit2 K := { h with n := m.rot h.n }

/-! ## Ball (`ray_ball.rs`) -/

/-- `ray_toi_with_ball(center, radius, ray, solid) -> (inside, Option<toi>)` -/
def rayToiWithBall (center : V3 K) (radius : K) (ray : Ray3 K) (solid : Bool) : Bool × Option K :=
  let dcenter := ray.o.sub center
  let a := ray.d.normSq
  let b := dcenter.dot ray.d
  let c := dcenter.normSq - radius * radius
  if neq a 0 then
    if 0 < c then (false, none) else (true, some 0)
  else if 0 < c ∧ 0 < b then (false, none)
  else
    let delta := b * b - a * c
    if delta < 0 then (false, none)
    else
      let t := (-b - Num.sqrt delta) / a
      if t ≤ 0 then
        if solid then (true, some 0) else (true, some ((-b + Num.sqrt delta) / a))
      else (false, some t)

/-- `ray_toi_and_normal_with_ball` -/
def rayToiAndNormalWithBall (center : V3 K) (radius : K) (ray : Ray3 K) (solid : Bool) : Bool × Option (Hit3 K) :=
  let (inside, inter) := rayToiWithBall center radius ray solid
  (inside, inter.map fun n =>
    let pos := (ray.o.add (ray.d.smul n)).sub center
    let normal := pos.normalize
    { toi := n, n := if inside then normal.neg else normal, fkind := 0, fidx := 0 })

/-- `Ball::cast_local_ray` -/
def Ball.castLocalRay (s : Ball K) (ray : Ray3 K) (maxToi : K) (solid : Bool) : Option K :=
  (rayToiWithBall V3.zero s.r ray solid).2.filter fun t => decide (t ≤ maxToi)
/-- `Ball::cast_local_ray_and_get_normal` -/
def Ball.castLocalRayAndGetNormal (s : Ball K) (ray : Ray3 K) (maxToi : K) (solid : Bool) : Option (Hit3 K) :=
  (rayToiAndNormalWithBall V3.zero s.r ray solid).2.filter fun h => decide (h.toi ≤ maxToi)
/-- default `RayCast::cast_ray_and_get_normal` specialised to the ball -/
def Ball.castRayAndGetNormal (s : Ball K) (m : Iso3 K) (ray : Ray3 K) (maxToi : K) (solid : Bool) : Option (Hit3 K) :=
  (s.castLocalRayAndGetNormal (ray.invTransform m) maxToi solid).map (·.transformBy m)

end Model
