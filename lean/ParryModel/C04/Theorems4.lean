import ParryModel.C04.Theorems2
import ParryModel.C07.Theorems
import ParryModel.C04.ModelHf2
import Mathlib.Order.WithBot
/-!
# C04 property theorems, part 4: composite shapes (TriMesh / Polyline / Compound) = brute force over the parts

The ray visitors of `ray_composite_shape.rs` (`RayCompositeShapeToiBestFirstVisitor`, `…ToiAndNormalBestFirstVisitor`) give
every BVH lane the weight `tmin` of `SimdAabb::cast_local_ray` (pruned when `hit = false`) and every leaf the time of the
part's own cast.  `C07.bestFirst_optimal` (the model of `Qbvh::traverse_best_first`, proved for every tree) needs exactly one
hypothesis: lane weights are lower bounds of the leaf costs below them.  Here that hypothesis is DERIVED for the ray visitors
from `simdAabb_weight_lower_bound` (C04, part 2) — for any tree whose lane boxes contain the parts below them and any part
caster that only reports points of its part — and the conclusion is turned into the property's clauses: the composite cast
returns the smallest time over ALL parts (= the brute-force reduction), `None` iff every part reports `None`, and if each
part's cast is a first hit of its part then the composite result is the first hit of the union.
-/
namespace C04
open Model Model.Bvh Model.Bvh.Tree

variable {K : Type} [Field K] [LinearOrder K] [IsStrictOrderedRing K] (sq : K → K) {P : Type}

/-- weight of a BVH lane: the entry time of its box, `⊤` when the lane is pruned (`hit = false`) -/
def rayBoxCost (big : K) (ray : Ray3 K) (max : K) (b : Aabb K) : WithTop K :=
  letI := fieldNum K sq
  if (simdAabbCastLocalRay big b ray max).1 = true then ((simdAabbCastLocalRay big b ray max).2 : K) else ⊤

/-- cost of a leaf: the part is cast only when its lane is hit; `⊤` = no result (`mask = false`) -/
def rayLeafCost (big : K) (ray : Ray3 K) (max : K) (cast : P → Option K) (b : Aabb K) (p : P) : WithTop K :=
  letI := fieldNum K sq
  if (simdAabbCastLocalRay big b ray max).1 = true then (match cast p with | some t => ((t : K) : WithTop K) | none => ⊤) else ⊤

mutual
/-- geometry of the BVH: boxes are valid and every lane box contains the parts stored below it -/
def GeoOK (Smem : P → V3 K → Prop) : Tree (Aabb K) P → Prop
  | .leaf b p => AabbValid b ∧ ∀ q, Smem p q → AabbMem b q
  | .node b cs => (AabbValid b ∧ ∀ pr ∈ leavesList cs, ∀ q, Smem pr.2 q → AabbMem b q) ∧ GeoOKList Smem cs
def GeoOKList (Smem : P → V3 K → Prop) : List (Tree (Aabb K) P) → Prop
  | [] => True
  | t :: ts => GeoOK Smem t ∧ GeoOKList Smem ts
end

/-- the part caster only reports parameters of `[0, max]` at which the ray is in the part -/
def CastSound (Smem : P → V3 K → Prop) (ray : Ray3 K) (max : K) (cast : P → Option K) : Prop :=
  ∀ p t, cast p = some t → 0 ≤ t ∧ t ≤ max ∧ Smem p (rayPt sq ray t)

/-- a lane whose box contains the part is a lower bound of the part's leaf cost (whatever lane the leaf is stored in) -/
theorem rayCost_le (big : K) (ray : Ray3 K) (max : K) (cast : P → Option K) (Smem : P → V3 K → Prop)
    (hs : CastSound sq Smem ray max cast) (h0 : 0 ≤ max) (hmax : max ≤ big)
    (b : Aabb K) (hv : AabbValid b) (p : P) (hb : ∀ q, Smem p q → AabbMem b q) (b' : Aabb K) :
    rayBoxCost sq big ray max b ≤ rayLeafCost sq big ray max cast b' p := by
  simp only [rayLeafCost]
  split_ifs
  · cases hc : cast p with
    | none => exact le_top
    | some t =>
      obtain ⟨a, c, hm⟩ := hs p t hc
      obtain ⟨hhit, hle⟩ := simdAabb_weight_lower_bound sq big b ray max (Smem p) hv h0 hmax hb t a c hm
      simp only [rayBoxCost, hhit, if_true]
      exact WithTop.coe_le_coe.2 hle
  · exact le_top

mutual
private theorem LB_of_geo (big : K) (ray : Ray3 K) (max : K) (cast : P → Option K) (Smem : P → V3 K → Prop)
    (hs : CastSound sq Smem ray max cast) (h0 : 0 ≤ max) (hmax : max ≤ big) :
    ∀ t : Tree (Aabb K) P, GeoOK Smem t →
      C07.LB (rayBoxCost sq big ray max) (rayLeafCost sq big ray max cast) t
  | .leaf b p, hg => by
    simp only [C07.LB]
    exact rayCost_le sq big ray max cast Smem hs h0 hmax b hg.1 p hg.2 b
  | .node b cs, hg => by
    simp only [C07.LB]
    refine ⟨fun pr hpr => ?_, LBList_of_geo big ray max cast Smem hs h0 hmax cs hg.2⟩
    exact rayCost_le sq big ray max cast Smem hs h0 hmax b hg.1.1 pr.2 (hg.1.2 pr hpr) pr.1
private theorem LBList_of_geo (big : K) (ray : Ray3 K) (max : K) (cast : P → Option K) (Smem : P → V3 K → Prop)
    (hs : CastSound sq Smem ray max cast) (h0 : 0 ≤ max) (hmax : max ≤ big) :
    ∀ ts : List (Tree (Aabb K) P), GeoOKList Smem ts →
      C07.LBList (rayBoxCost sq big ray max) (rayLeafCost sq big ray max cast) ts
  | [], _ => by simp only [C07.LBList]
  | t :: ts, hg => by
    simp only [C07.LBList]
    exact ⟨LB_of_geo big ray max cast Smem hs h0 hmax t hg.1, LBList_of_geo big ray max cast Smem hs h0 hmax ts hg.2⟩
end

mutual
/-- a leaf's own box contains its part -/
private theorem leaf_geo (Smem : P → V3 K → Prop) :
    ∀ t : Tree (Aabb K) P, GeoOK Smem t → ∀ pr ∈ leaves t, AabbValid pr.1 ∧ ∀ q, Smem pr.2 q → AabbMem pr.1 q
  | .leaf b p, hg, pr, hpr => by
    simp only [leaves, List.mem_singleton] at hpr
    subst hpr; exact hg
  | .node b cs, hg, pr, hpr => by
    simp only [leaves] at hpr
    exact leafList_geo Smem cs hg.2 pr hpr
private theorem leafList_geo (Smem : P → V3 K → Prop) :
    ∀ ts : List (Tree (Aabb K) P), GeoOKList Smem ts → ∀ pr ∈ leavesList ts,
      AabbValid pr.1 ∧ ∀ q, Smem pr.2 q → AabbMem pr.1 q
  | [], _, pr, hpr => by simp [leavesList] at hpr
  | t :: ts, hg, pr, hpr => by
    simp only [leavesList, List.mem_append] at hpr
    rcases hpr with h | h
    · exact leaf_geo Smem t hg.1 pr h
    · exact leafList_geo Smem ts hg.2 pr h
end

/-- for a leaf stored in a box containing its part, the leaf cost is the part's own result (`⊤` for `None`):
a part that reports a hit is never masked out by its lane -/
theorem rayLeafCost_eq (big : K) (ray : Ray3 K) (max : K) (cast : P → Option K) (Smem : P → V3 K → Prop)
    (hs : CastSound sq Smem ray max cast) (h0 : 0 ≤ max) (hmax : max ≤ big)
    (b : Aabb K) (hv : AabbValid b) (p : P) (hb : ∀ q, Smem p q → AabbMem b q) :
    rayLeafCost sq big ray max cast b p = (match cast p with | some t => ((t : K) : WithTop K) | none => ⊤) := by
  simp only [rayLeafCost]
  cases hc : cast p with
  | none => simp
  | some t =>
    obtain ⟨a, c, hm⟩ := hs p t hc
    obtain ⟨hhit, _⟩ := simdAabb_weight_lower_bound sq big b ray max (Smem p) hv h0 hmax hb t a c hm
    simp only [hhit, if_true]

/-- the time reported by the composite cast: the best cost found, `None` when nothing (or only `⊤`) was found -/
def wtToOpt (c : WithTop K) : Option K := WithTop.recTopCoe none (fun x => some x) c
@[simp] theorem wtToOpt_top : wtToOpt (⊤ : WithTop K) = none := rfl
@[simp] theorem wtToOpt_coe (x : K) : wtToOpt ((x : K) : WithTop K) = some x := rfl
def compositeToi (res : Option (WithTop K × P)) : Option K :=
  match res with
  | some (c, _) => wtToOpt c
  | none => none

/-- **Composite ray cast (TriMesh / Polyline / Compound) = brute force over the parts.**  For every BVH whose lane boxes
are valid and contain the parts below them, every part caster that only reports points of its part, `0 ≤ max_toi ≤ MAX`:
the best-first traversal with the ray visitor's weights terminates within its fuel, and
* if it reports a time `toi`, some part `p` of the tree has `cast p = Some(toi)` and every part's result is `≥ toi`;
* if it reports nothing, every part's cast is `None`. -/
theorem composite_cast_bruteforce (big : K) (ray : Ray3 K) (max : K) (cast : P → Option K) (Smem : P → V3 K → Prop)
    (t : Tree (Aabb K) P) (hg : GeoOK Smem t) (hs : CastSound sq Smem ray max cast) (h0 : 0 ≤ max) (hmax : max ≤ big) :
    ∃ res, bestFirst C07.ltb (rayBoxCost sq big ray max) (rayLeafCost sq big ray max cast) t = some res ∧
      (∀ toi, compositeToi res = some toi →
        (∃ pr ∈ leaves t, cast pr.2 = some toi) ∧ ∀ pr ∈ leaves t, ∀ t', cast pr.2 = some t' → toi ≤ t') ∧
      (compositeToi res = none → ∀ pr ∈ leaves t, cast pr.2 = none) := by
  obtain ⟨res, hres, h1, h2⟩ := C07.bestFirst_optimal (rayBoxCost sq big ray max) (rayLeafCost sq big ray max cast) t
    (LB_of_geo sq big ray max cast Smem hs h0 hmax t hg)
  have hleaf : ∀ pr ∈ leaves t, rayLeafCost sq big ray max cast pr.1 pr.2 =
      (match cast pr.2 with | some t => ((t : K) : WithTop K) | none => ⊤) := fun pr hpr =>
    rayLeafCost_eq sq big ray max cast Smem hs h0 hmax pr.1 (leaf_geo Smem t hg pr hpr).1 pr.2 (leaf_geo Smem t hg pr hpr).2
  refine ⟨res, hres, ?_, ?_⟩
  · intro toi htoi
    cases res with
    | none => simp [compositeToi] at htoi
    | some cd =>
      obtain ⟨c, d⟩ := cd
      simp only [compositeToi] at htoi
      have hc : c = ((toi : K) : WithTop K) := by
        cases c with
        | top => simp at htoi
        | coe x => simp at htoi; rw [htoi]
      obtain ⟨⟨b, hb, hcost⟩, hmin⟩ := h1 c d rfl
      constructor
      · refine ⟨(b, d), hb, ?_⟩
        have := hleaf (b, d) hb
        rw [hcost, hc] at this
        cases hcd : cast d with
        | none => rw [hcd] at this; simp at this
        | some x => rw [hcd] at this; simp only [WithTop.coe_eq_coe] at this; rw [this]
      · intro pr hpr t' hc'
        have := hmin pr hpr
        rw [hleaf pr hpr, hc', hc] at this
        exact WithTop.coe_le_coe.1 this
  · intro hnone pr hpr
    cases res with
    | none => 
      have := h2 rfl
      rw [this] at hpr; simp at hpr
    | some cd =>
      obtain ⟨c, d⟩ := cd
      simp only [compositeToi] at hnone
      have hc : c = ⊤ := by
        cases c with
        | top => rfl
        | coe x => simp at hnone
      obtain ⟨_, hmin⟩ := h1 c d rfl
      have := hmin pr hpr
      rw [hleaf pr hpr, hc] at this
      cases hcd : cast pr.2 with
      | none => rfl
      | some x => rw [hcd] at this; simp at this

/-- **Composite ray cast: first hit of the union of the parts.**  If moreover every part's cast is the first hit of that
part on `[0, max_toi]` (the theorems of parts 1–3 for triangles, segments, cuboids, balls, …), the time reported by the
composite cast is the first hit of the union of all parts, and `None` means the segment `[0, max_toi]` meets no part. -/
theorem composite_cast_firstHit (big : K) (ray : Ray3 K) (max : K) (cast : P → Option K) (Smem : P → V3 K → Prop)
    (t : Tree (Aabb K) P) (hg : GeoOK Smem t) (h0 : 0 ≤ max) (hmax : max ≤ big)
    (hfh : ∀ p, FirstHit (Smem p) (rayPt sq ray) max (cast p)) :
    ∃ res, bestFirst C07.ltb (rayBoxCost sq big ray max) (rayLeafCost sq big ray max cast) t = some res ∧
      FirstHit (fun q => ∃ pr ∈ leaves t, Smem pr.2 q) (rayPt sq ray) max (compositeToi res) := by
  have hs : CastSound sq Smem ray max cast := by
    intro p t' hc
    have := hfh p
    rw [hc] at this
    exact ⟨this.1, this.2.1, this.2.2.1⟩
  obtain ⟨res, hres, h1, h2⟩ := composite_cast_bruteforce sq big ray max cast Smem t hg hs h0 hmax
  refine ⟨res, hres, ?_⟩
  cases hct : compositeToi res with
  | none =>
    intro s a c ⟨pr, hpr, hm⟩
    have hn := h2 hct pr hpr
    have := hfh pr.2
    rw [hn] at this
    exact this s a c hm
  | some toi =>
    obtain ⟨⟨pr, hpr, hc⟩, hmin⟩ := h1 toi hct
    have hf := hfh pr.2
    rw [hc] at hf
    refine ⟨hf.1, hf.2.1, ⟨pr, hpr, hf.2.2.1⟩, ?_⟩
    intro s a c ⟨pr', hpr', hm⟩
    have hf' := hfh pr'.2
    cases hc' : cast pr'.2 with
    | none =>
      rw [hc'] at hf'
      exact hf' s a (le_trans c.le hf.2.1) hm
    | some t' =>
      rw [hc'] at hf'
      have h3 := hmin pr' hpr' t' hc'
      exact hf'.2.2.2 s a (lt_of_lt_of_le c h3) hm

/-! ## 2-D HeightField cast (`ModelHf2.lean`, bit-exact): per-cell step, soundness, completeness of the linear walk -/

/-- **`cast_on_cell` reports the segment cast of that cell**: same time and normal; only the feature id is converted
(`Face(0) → Face(cell)`, back face `→ Face(cell + num_cells)`, `Vertex(i) → Vertex(cell + i)`), so the segment theorems of
part 1 (point on the segment, unit perpendicular normal facing the ray) apply to every reported hit. -/
theorem hf2_castOnCell_from_segment (h : HeightField2 K) (ray : Ray2 K) (max : K) (solid : Bool) (cell : Nat) (r : Hit2 K) :
    letI := fieldNum K sq
    letI := fieldUlps K
    h.castOnCell ray max solid cell = some r →
    ∃ seg r0, h.segmentAt cell = some seg ∧ cell < h.numCells ∧ seg.castLocalRayAndGetNormal ray max solid = some r0 ∧
      r.toi = r0.toi ∧ r.n = r0.n := by
  simp only [HeightField2.castOnCell]
  rcases hseg : @HeightField2.segmentAt K (fieldNum K sq) h cell with _ | seg
  · simp
  · simp only
    rcases hc : @Segment2.castLocalRayAndGetNormal K (fieldNum K sq) (fieldUlps K) seg ray max solid with _ | r0
    · simp
    · simp only [Option.some.injEq]
      intro hr
      have hlt : cell < h.numCells := by
        simp only [HeightField2.segmentAt] at hseg
        split_ifs at hseg with hh
        push Not at hh
        exact hh.1
      refine ⟨seg, r0, rfl, hlt, hc, ?_⟩
      subst hr
      split_ifs <;> exact ⟨rfl, rfl⟩

private theorem match_cases {α : Type} (x k : Option α) (r : α) :
    (match x with | some i => some i | none => k) = some r → x = some r ∨ (x = none ∧ k = some r) := by
  cases x <;> simp

/-- **soundness of the walk**: a hit returned by the `while` loop is the `cast_on_cell` result of some cell -/
theorem hf2_walk_sound (h : HeightField2 K) (ray : Ray2 K) (max : K) (solid : Bool) (maxT : K) (right : Bool) (r : Hit2 K) :
    letI := fieldNum K sq
    letI := fieldUlps K
    ∀ fuel curr, h.walk ray max solid maxT right fuel curr = some r → ∃ cell, h.castOnCell ray max solid cell = some r := by
  intro fuel
  induction fuel with
  | zero => intro curr hw; simp [HeightField2.walk] at hw
  | succ n ih =>
    intro curr hw
    simp only [HeightField2.walk] at hw
    split_ifs at hw
    all_goals
      split at hw
      · rename_i inter heq
        simp only [Option.some.injEq] at hw
        subst hw; exact ⟨_, heq⟩
      · exact ih _ hw

/-- **2-D HeightField cast, soundness**: every reported hit is the `cast_on_cell` result of an existing cell (hence, by
`hf2_castOnCell_from_segment`, a hit of that cell's segment with `toi ≤ max_toi`). -/
theorem hf2_cast_sound (big : K) (h : HeightField2 K) (ray : Ray2 K) (max : K) (solid : Bool) (r : Hit2 K) :
    letI := fieldNum K sq
    letI := fieldUlps K
    h.castLocalRayAndGetNormal big ray max solid = some r → ∃ cell, h.castOnCell ray max solid cell = some r := by
  simp only [HeightField2.castLocalRayAndGetNormal]
  rcases @clipAabbLine2 K (fieldNum K sq) big (@HeightField2.aabb K (fieldNum K sq) h) ray.o ray.d with _ | ⟨near, far⟩
  · simp
  · simp only
    split_ifs
    · simp
    · simp
    all_goals
      intro hw
      split at hw
      · rename_i inter heq
        simp only [Option.some.injEq] at hw
        subst hw; exact ⟨_, heq⟩
      · first
        | (simp at hw; done)
        | exact hf2_walk_sound sq h ray max solid _ _ r _ _ hw

/-- **completeness of the walk to the right** (`dir.x > 0`): if the loop started in cell `curr` returns `None`, then every
cell `c > curr` such that the boundary times `(cell_width·c' + start_x − origin.x)/dir.x` of all cells `curr < c' ≤ c` are
below `max_t` has been cast and reported nothing — no cell before the `max_t` exit is skipped. -/
theorem hf2_walk_right_complete (h : HeightField2 K) (ray : Ray2 K) (max : K) (solid : Bool) (maxT : K) :
    letI := fieldNum K sq
    letI := fieldUlps K
    ∀ fuel curr, h.numCells - curr < fuel → h.walk ray max solid maxT true fuel curr = none →
      ∀ c, curr < c → c ≤ h.numCells →
        (∀ c', curr < c' → c' ≤ c → (h.ucw * h.sc.x * lit ((c' : Nat) : Int) + h.sc.x * lit (-1) 2 - ray.o.x) / ray.d.x < maxT) →
        h.castOnCell ray max solid c = none := by
  intro fuel
  induction fuel with
  | zero => intro curr hf; omega
  | succ n ih =>
    intro curr hf hw c hc1 hc2 hpar
    simp only [HeightField2.walk, Bool.true_and, Bool.not_true, Bool.false_and, Bool.or_false, if_true,
      decide_eq_true_eq] at hw
    have hlt : curr < h.numCells := by omega
    rw [if_pos hlt] at hw
    have hp := hpar (curr + 1) (by omega) (by omega)
    rw [if_neg (not_le.2 hp)] at hw
    rcases hcc : @HeightField2.castOnCell K (fieldNum K sq) (fieldUlps K) h ray max solid (curr + 1) with _ | x
    · rw [hcc] at hw
      rcases Nat.lt_or_ge (curr + 1) c with hgt | hle
      · exact ih (curr + 1) (by omega) hw c hgt hc2 (fun c' a b => hpar c' (by omega) b)
      · have : c = curr + 1 := by omega
        rw [this]; exact hcc
    · rw [hcc] at hw; simp at hw

/-- **completeness of the walk to the left** (`dir.x < 0`), with the exit test exactly as coded,
`(origin.x − cell_width·c' − start_x)/dir.x ≥ max_t`.  (That expression is MINUS the parameter at which the ray crosses the
left boundary of cell `c'`, so for boundaries ahead of the origin it is `≤ 0` and the exit does not fire: the walk to the left
casts every remaining cell — each with `max_toi` — which costs time but cannot lose or invent a hit.) -/
theorem hf2_walk_left_complete (h : HeightField2 K) (ray : Ray2 K) (max : K) (solid : Bool) (maxT : K) :
    letI := fieldNum K sq
    letI := fieldUlps K
    ∀ fuel curr, curr < fuel → h.walk ray max solid maxT false fuel curr = none →
      ∀ c, c < curr →
        (∀ c', c < c' → c' ≤ curr → (ray.o.x - h.ucw * h.sc.x * lit ((c' : Nat) : Int) - h.sc.x * lit (-1) 2) / ray.d.x < maxT) →
        h.castOnCell ray max solid c = none := by
  intro fuel
  induction fuel with
  | zero => intro curr hf; omega
  | succ n ih =>
    intro curr hf hw c hc1 hpar
    simp only [HeightField2.walk, Bool.false_and, Bool.not_false, Bool.true_and, Bool.false_or, Bool.false_eq_true,
      if_false, decide_eq_true_eq] at hw
    have hpos : 0 < curr := by omega
    rw [if_pos hpos] at hw
    have hp := hpar curr hc1 (le_refl _)
    rw [if_neg (not_le.2 hp)] at hw
    rcases hcc : @HeightField2.castOnCell K (fieldNum K sq) (fieldUlps K) h ray max solid (curr - 1) with _ | x
    · rw [hcc] at hw
      rcases Nat.lt_or_ge c (curr - 1) with hgt | hle
      · exact ih (curr - 1) (by omega) hw c hgt (fun c' a b => hpar c' a (by omega))
      · have : c = curr - 1 := by omega
        rw [this]; exact hcc
    · rw [hcc] at hw; simp at hw

/-- non-vacuity: a one-leaf tree over `ℚ` whose box `[0,1]³` contains its part (the point set `{(1/2,1/2,1/2)}`) -/
example : GeoOK (K := ℚ) (P := Unit) (fun _ q => q = ⟨1/2, 1/2, 1/2⟩) (.leaf ⟨⟨0, 0, 0⟩, ⟨1, 1, 1⟩⟩ ()) := by
  refine ⟨by simp only [AabbValid]; norm_num, fun q hq => ?_⟩
  subst hq; simp only [AabbMem]; norm_num

/-! ## concrete composites: TriMesh (triangles) and Compound of posed cuboids -/

/-- a triangle the ray is not coplanar with (the case `local_ray_intersection_with_triangle` gives up on) -/
def RayTri (ray : Ray3 K) : Type := {tr : Triangle3 K // ¬ (triD sq tr.a tr.b tr.c ray = 0 ∧ triT sq tr.a tr.b tr.c ray = 0)}

/-- **TriMesh ray cast = first hit of the union of its triangles.**  For a BVH over triangles none of which is coplanar
with the ray, valid lane boxes containing the triangles below them, `0 ≤ max_toi ≤ MAX`, both `solid` flags, any direction
length: the best-first traversal with the TriMesh visitor's costs (lane weight `SimdAabb::cast_local_ray`, leaf cost the
triangle's own `cast_local_ray_and_get_normal` time) reports the FIRST parameter of `[0, max_toi]` at which the ray is on
some triangle of the mesh, and `None` iff the segment misses every triangle. -/
theorem trimesh_cast_firstHit (big : K) (ray : Ray3 K) (max : K) (solid : Bool)
    (t : Tree (Aabb K) (RayTri sq ray))
    (hg : GeoOK (fun (p : RayTri sq ray) q => @Triangle3.Mem K (fieldNum K sq) p.1 q) t) (h0 : 0 ≤ max) (hmax : max ≤ big) :
    ∃ res, bestFirst C07.ltb (rayBoxCost sq big ray max)
        (rayLeafCost sq big ray max
          (fun (p : RayTri sq ray) => (@Triangle3.castLocalRayAndGetNormal K (fieldNum K sq) p.1 ray max solid).map (·.toi))) t
        = some res ∧
      FirstHit (fun q => ∃ pr ∈ leaves t, @Triangle3.Mem K (fieldNum K sq) pr.2.1 q) (rayPt sq ray) max (compositeToi res) :=
  composite_cast_firstHit sq big ray max _ _ t hg h0 hmax
    (fun p => triangle_cast_firstHit_partial sq p.1 ray max solid p.2)

/-- a cuboid part of a `Compound`: non-negative half-extents, any pose -/
def CuboidPart (K : Type) [Field K] [LinearOrder K] [IsStrictOrderedRing K] : Type :=
  {p : Cuboid3 K × Iso3 K // 0 ≤ p.1.he.x ∧ 0 ≤ p.1.he.y ∧ 0 ≤ p.1.he.z}

/-- **Compound of posed cuboids, `solid = true` = first hit of the union of the posed cuboids** (leaf cost: the part's posed
`cast_ray`, i.e. the local cast of the inverse-transformed ray — what `RayCompositeShapeToiBestFirstVisitor` evaluates) -/
theorem compound_cuboids_cast_firstHit (big : K) (ray : Ray3 K) (max : K)
    (t : Tree (Aabb K) (CuboidPart K))
    (hg : GeoOK (fun (p : CuboidPart K) q => @Cuboid3.Mem K (fieldNum K sq) p.1.1 (@Iso3.invAct K (fieldNum K sq) p.1.2 q)) t)
    (h0 : 0 ≤ max) (hmax : max ≤ big) :
    ∃ res, bestFirst C07.ltb (rayBoxCost sq big ray max)
        (rayLeafCost sq big ray max
          (fun (p : CuboidPart K) => @Cuboid3.castRay K (fieldNum K sq) big p.1.1 p.1.2 ray max true)) t = some res ∧
      FirstHit (fun q => ∃ pr ∈ leaves t, @Cuboid3.Mem K (fieldNum K sq) pr.2.1.1 (@Iso3.invAct K (fieldNum K sq) pr.2.1.2 q))
        (rayPt sq ray) max (compositeToi res) :=
  composite_cast_firstHit sq big ray max _ _ t hg h0 hmax
    (fun p => cuboid_posed_solid_firstHit sq big p.1.1 p.1.2 ray max p.2 h0 hmax)

end C04
