import ParryModel.C04.DriverClosed
import ParryModel.C04.Composite
import ParryModel.C04.Driver2D
import ParryModel.C04.DriverGjk
import ParryModel.C04.DriverGlue
/-! C04 protocol handlers: the closed-form / primitive casts (`DriverClosed.lean`) and the composite-shape casts with the
BVH pruning test (`Composite.lean`). -/
namespace C04

def handler (fn : String) : Option Proto.Handler :=
  match handlerClosed fn with
  | some h => some h
  | none => match handlerComposite fn with
    | some h => some h
    | none => match handler2D fn with
      | some h => some h
      | none => match handlerGjk fn with
        | some h => some h
        | none => handlerGlue fn

end C04
