import ParryModel.Proto
import ParryModel.C04.Model
/-! C04 protocol handlers: model evaluation at `Float` and exact-`Rat` oracles on implementation output.

Oracle design (DESIGN §7 C04): every verdict is computed from *exact rational* evaluation of the shape's
defining inequalities along the ray `s ↦ o + s·d` — never from the model's cast functions.
Tolerances are applied in "constraint space" (value of the defining polynomial at the reported hit), which is
where the floating-point error of the closed forms is benign even for grazing rays. -/
namespace C04
open Model Proto

/-! ### parsing -/
structure RayArgs where
  o : V3 Float
  d : V3 Float
  max : Float
  solid : Bool
def pray : P RayArgs := do let o ← pv3; let d ← pv3; let m ← pf; let s ← pbool; pure ⟨o, d, m, s⟩
def RayArgs.ray (a : RayArgs) : Ray3 Float := ⟨a.o, a.d⟩
/-- exact `max_toi`; `none` = `+∞` -/
def RayArgs.maxQ (a : RayArgs) : Option Rat := if FloatIO.isFinite a.max then some (q a.max) else none

def ffeat (k i : Nat) : String := match k with | 0 => s!"f{i}" | 1 => s!"v{i}" | _ => "u"
def ftoi (x : Option Float) : String := match x with | none => "none" | some t => s!"some {ff t}"
def fhit (x : Option (Hit3 Float)) : String :=
  match x with | none => "none" | some h => s!"some {ff h.toi} {fv3 h.n} {ffeat h.fkind h.fidx}"

/-- implementation output of a cast: `none` | `some toi [n feature]` -/
inductive Out where
  | bad (why : String)
  | miss
  | hit (toi : Float) (n : Option (V3 Float)) (feat : String)
def parseOut (o : List String) : Out :=
  match o with
  | "panic" :: _ => .bad "panic"
  | ["none"] => .miss
  | ["some", t] => match run pfo [t] with | some x => .hit x none "" | none => .bad "unparsable-output"
  | ["some", t, a, b, c, f] =>
    match run (do let t ← pfo; let n ← (do let x ← pfo; let y ← pfo; let z ← pfo; pure (⟨x, y, z⟩ : V3 Float)); pure (t, n)) [t, a, b, c] with
    | some (t, n) => .hit t (some n) f
    | none => .bad "unparsable-output"
  | _ => .bad "unparsable-output"

/-! ### exact helpers -/
def tol : Rat := tolDefault
def sqr (x : Rat) : Rat := x * x
def clampQ (x lo : Rat) (hi : Option Rat) : Rat :=
  let x := if x < lo then lo else x
  match hi with | some h => if h < x then h else x | none => x
def leOpt (t : Rat) (m : Option Rat) : Bool := match m with | some h => t ≤ h | none => true
def finiteV (v : V3 Float) : Bool := finite3 v

/-- normal checks shared by all shapes: unit length, `n·d ≤ 0` (up to tolerance). -/
def normalBasic (n D : V3 Rat) : Option String :=
  if rabs (n.normSq - 1) > tol then some "normal-not-unit"
  else if n.dot D > 0 ∧ sqr (n.dot D) > sqr tol * D.normSq then some "normal-not-facing-ray"
  else none

/-! ### ball oracle: `g(s) = |O + s·D|² − r²` -/
def ballOracle (O D : V3 Rat) (r : Rat) (max : Option Rat) (solid : Bool) (out : Out) : String :=
  let a := D.normSq
  if a = 0 then "skip zero-dir" else if r ≤ 0 then "skip nonpositive-radius" else
  let b := O.dot D
  let c := O.normSq - r * r
  let g := fun (s : Rat) => a * s * s + 2 * b * s + c
  let tg := tol * (O.normSq + r * r)
  let gminOn := fun (hi : Option Rat) => g (clampQ (-b / a) 0 hi)
  match out with
  | .bad w => s!"fail {w}"
  | .miss =>
    if solid then
      if gminOn max < -tg then "fail none-but-segment-enters-ball" else "pass"
    else
      if c > tg then (if gminOn max < -tg then "fail none-but-segment-crosses-sphere" else "pass")
      else if c < -tg then
        match max with
        | none => "fail none-but-unbounded-ray-from-inside"
        | some m => if g m > tg then "fail none-but-segment-exits-ball" else "pass"
      else "pass"
  | .hit toi n _ =>
    if !FloatIO.isFinite toi then "fail nonfinite-toi" else
    let t := q toi
    if t < 0 then "fail negative-toi" else if !leOpt t max then "fail toi-exceeds-max" else
    let tgh := tol * (O.normSq + r * r + a * t * t)
    let onB := rabs (g t) ≤ tgh
    let first := gminOn (some t) ≥ -tgh
    let verdict :=
      if c > tg then (if !onB then "fail hit-not-on-sphere" else if !first then "fail earlier-point-inside" else "pass")
      else if c < -tg then
        (if solid then (if t = 0 then "pass" else "fail solid-inside-toi-nonzero")
         else if !onB then "fail exit-not-on-sphere" else if t ≤ 0 then "fail exit-at-zero-from-inside" else "pass")
      else (if solid ∧ t = 0 then "pass" else if !onB then "fail hit-not-on-sphere" else if solid ∧ !first then "fail earlier-point-inside" else "pass")
    if verdict != "pass" then verdict else
    match n with
    | none => "pass"
    | some nf =>
      -- toi = 0 from inside/on the surface: normal documented as unreliable
      if t = 0 ∧ c ≤ tg then "pass" else
      if !finiteV nf then "fail nonfinite-normal" else
      let nq := q3 nf
      let P := O.add (D.smul t)
      match normalBasic nq D with
      | some w => s!"fail {w}"
      | none =>
        if (nq.cross P).normSq > sqr (1 / 1000000) * P.normSq then "fail normal-not-radial"
        else
          let outward := nq.dot P > 0
          if c > tg ∧ !outward then "fail normal-not-outward"
          else if c < -tg ∧ outward then "fail exit-normal-not-inward"
          else "pass"

def withArgs {α} (p : P α) (a : List String) (k : α → String) : String :=
  match run p a with | some x => k x | none => "skip bad-args"

def handler (fn : String) : Option Handler :=
  match fn with
  | "ball_toi" => some {
      model := fun a => run (do let r ← pf; let ra ← pray; pure (ftoi ((Ball.mk r).castLocalRay ra.ray ra.max ra.solid))) a
      oracle := fun a o => withArgs (do let r ← pf; let ra ← pray; pure (r, ra)) a fun (r, ra) =>
        ballOracle (q3 ra.o) (q3 ra.d) (q r) ra.maxQ ra.solid (parseOut o) }
  | "ball_normal" => some {
      model := fun a => run (do let r ← pf; let ra ← pray; pure (fhit ((Ball.mk r).castLocalRayAndGetNormal ra.ray ra.max ra.solid))) a
      oracle := fun a o => withArgs (do let r ← pf; let ra ← pray; pure (r, ra)) a fun (r, ra) =>
        ballOracle (q3 ra.o) (q3 ra.d) (q r) ra.maxQ ra.solid (parseOut o) }
  | _ => none

end C04
