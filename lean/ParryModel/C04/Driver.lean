import ParryModel.C04.DriverClosed
import ParryModel.C04.Composite
/-! C04 protocol handlers: the closed-form / primitive casts (`DriverClosed.lean`) and the composite-shape casts with the
BVH pruning test (`Composite.lean`). -/
namespace C04

def handler (fn : String) : Option Proto.Handler :=
  match handlerClosed fn with
  | some h => some h
  | none => handlerComposite fn

end C04
