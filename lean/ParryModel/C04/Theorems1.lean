import ParryModel.C04.Lemmas
/-!
# C04 property theorems: closed-form ray casts, for every linearly ordered field and **every non-zero
direction (no unit-length assumption)**.  Vocabulary (`FirstHit`, `FirstHitU`, `ExitHit`, `BallAt`, `SphereAt`,
`rayPt`, …) is defined and explained in `C04/Lemmas.lean`.
-/
namespace C04
open Model

variable {K : Type} [Field K] [LinearOrder K] [IsStrictOrderedRing K] (sq : K → K)

/-- A first hit is unique: two results satisfying `FirstHit` for the same data coincide. -/
theorem firstHit_unique {α : Type} (S : α → Prop) (pt : K → α) (max : K) (r₁ r₂ : Option K)
    (h₁ : FirstHit S pt max r₁) (h₂ : FirstHit S pt max r₂) : r₁ = r₂ := by
  cases r₁ with
  | none =>
    cases r₂ with
    | none => rfl
    | some t => exact absurd h₂.2.2.1 (h₁ t h₂.1 h₂.2.1)
  | some t₁ =>
    cases r₂ with
    | none => exact absurd h₁.2.2.1 (h₂ t₁ h₁.1 h₁.2.1)
    | some t₂ =>
      obtain ⟨a1, b1, c1, d1⟩ := h₁
      obtain ⟨a2, b2, c2, d2⟩ := h₂
      rcases lt_trichotomy t₁ t₂ with h | h | h
      · exact absurd c1 (d2 t₁ a1 h)
      · rw [h]
      · exact absurd c2 (d1 t₂ a2 h)

/-- **toi is expressed in units of the direction** (generic part): re-parametrising the curve by `s ↦ pt (l·s)`
(i.e. casting along `l·d`), `l > 0`, with `max/l`, has first hit `t/l`. -/
theorem firstHit_scale {α : Type} (S : α → Prop) (pt : K → α) (max l : K) (hl : 0 < l) (r : Option K)
    (h : FirstHit S pt max r) : FirstHit S (fun s => pt (l * s)) (max / l) (r.map (· / l)) := by
  cases r with
  | none =>
    intro s hs hsm
    exact h (l * s) (mul_nonneg hl.le hs) (by rw [le_div_iff₀ hl] at hsm; linarith)
  | some t =>
    obtain ⟨a1, b1, c1, d1⟩ := h
    refine ⟨div_nonneg a1 hl.le, (div_le_div_iff_of_pos_right hl).2 b1, ?_, ?_⟩
    · show S (pt (l * (t / l))); rw [mul_div_cancel₀ _ (ne_of_gt hl)]; exact c1
    · intro s hs hst
      exact d1 (l * s) (mul_nonneg hl.le hs) (by rw [lt_div_iff₀ hl] at hst; linarith)

/-- `Real.sqrt` is a lawful square root: the `LawfulSqrt` hypothesis of the theorems below is satisfiable. -/
theorem real_lawfulSqrt : LawfulSqrt Real.sqrt := ⟨fun x _ => Real.sqrt_nonneg x, fun _ h => Real.mul_self_sqrt h⟩

/-! ## Ball (`ray_toi_with_ball`, `Ball::cast_local_ray*`) -/

/-- **Ball, `inside` flag.** For every non-zero direction, the flag returned by `ray_toi_with_ball` is exactly
membership of the ray origin in the (closed) ball. -/
theorem ball_inside_flag_iff (hs : LawfulSqrt sq) (c : V3 K) (r : K) (ray : Ray3 K) (solid : Bool) :
    letI := fieldNum K sq
    0 < ray.d.normSq →
    ((rayToiWithBall c r ray solid).1 = true ↔ BallAt sq c r ray.o) := by
  intro ha
  have h := (ball_core sq hs c r ray solid ha).1
  rw [ballAt_iff]; simpa only [rayPt_zero] using h

/-- **Ball, origin outside (either `solid` flag), non-unit direction.** When the origin is outside the ball, the result is the
first hit of the ball on `[0,∞)`: `None` ⇒ no point of the ray is in the ball; `Some t` ⇒ `t > 0`, `o + t·d` is on the
sphere and no earlier parameter is in the ball. -/
theorem ball_outside_firstHit (hs : LawfulSqrt sq) (c : V3 K) (r : K) (ray : Ray3 K) (solid : Bool) :
    letI := fieldNum K sq
    0 < ray.d.normSq →
    ¬ BallAt sq c r ray.o →
    FirstHitU (BallAt sq c r) (rayPt sq ray) (rayToiWithBall c r ray solid).2 ∧
    ∀ t, (rayToiWithBall c r ray solid).2 = some t → 0 < t ∧ SphereAt sq c r (rayPt sq ray t) := by
  intro ha hout
  have hf : (@rayToiWithBall K (fieldNum K sq) c r ray solid).1 = false := by
    cases h : (@rayToiWithBall K (fieldNum K sq) c r ray solid).1 with
    | false => rfl
    | true => exact absurd ((ball_inside_flag_iff sq hs c r ray solid ha).1 h) hout
  have h := (ball_core sq hs c r ray solid ha).2.1 hf
  revert h
  cases (@rayToiWithBall K (fieldNum K sq) c r ray solid).2 with
  | none =>
    intro h
    exact ⟨fun s hs' hm => absurd ((ballAt_iff sq c r _).1 hm) (not_le.2 (h s hs')), fun t ht => by cases ht⟩
  | some t =>
    intro h
    obtain ⟨h1, h2, _, h4⟩ := h
    refine ⟨⟨h1.le, (ballAt_iff sq c r _).2 (le_of_eq h2), fun s hs' hst hm => absurd ((ballAt_iff sq c r _).1 hm) (not_le.2 (h4 s hs' hst))⟩, ?_⟩
    intro t' ht'; cases ht'
    exact ⟨h1, (sphereAt_iff sq c r _).2 h2⟩

/-- **Ball, `solid = true`.** The result is the first hit of the solid ball on `[0,∞)`; in particular a ray that starts
in the ball reports `toi = 0`. -/
theorem ball_solid_firstHit (hs : LawfulSqrt sq) (c : V3 K) (r : K) (ray : Ray3 K) :
    letI := fieldNum K sq
    0 < ray.d.normSq →
    FirstHitU (BallAt sq c r) (rayPt sq ray) (rayToiWithBall c r ray true).2 := by
  intro ha
  cases hfl : (@rayToiWithBall K (fieldNum K sq) c r ray true).1 with
  | false => exact (ball_outside_firstHit sq hs c r ray true ha (fun hm => by have := (ball_inside_flag_iff sq hs c r ray true ha).2 hm; rw [hfl] at this; cases this)).1
  | true =>
    have h := (ball_core sq hs c r ray true ha).2.2.1 hfl rfl
    rw [h]
    refine ⟨le_refl _, ?_, fun s h1 h2 => absurd h2 (not_lt.2 h1)⟩
    rw [rayPt_zero]; exact (ball_inside_flag_iff sq hs c r ray true ha).1 hfl

/-- **Ball, `solid = false`, origin in the ball.** The reported time is the *exit*: the hit point is on the sphere, every
parameter of `[0,t]` is in the ball, every later one is outside; if the origin is strictly inside, no parameter before
`t` is on the sphere (so `t` is also the first hit of the hollow sphere). -/
theorem ball_nonsolid_exit (hs : LawfulSqrt sq) (c : V3 K) (r : K) (ray : Ray3 K) :
    letI := fieldNum K sq
    0 < ray.d.normSq →
    BallAt sq c r ray.o →
    ∃ t, (rayToiWithBall c r ray false).2 = some t ∧ SphereAt sq c r (rayPt sq ray t) ∧
      ExitHit (BallAt sq c r) (rayPt sq ray) t ∧
      (¬ SphereAt sq c r ray.o → ∀ s, 0 ≤ s → s < t → ¬ SphereAt sq c r (rayPt sq ray s)) := by
  intro ha hin
  have hfl := (ball_inside_flag_iff sq hs c r ray false ha).2 hin
  obtain ⟨t, h1, h2, h3, _, h5, h6, h7⟩ := (ball_core sq hs c r ray false ha).2.2.2 hfl rfl
  refine ⟨t, h1, (sphereAt_iff sq c r _).2 h3, ⟨h2, fun s a b => (ballAt_iff sq c r _).2 (h5 s a b),
    fun s a hm => absurd ((ballAt_iff sq c r _).1 hm) (not_le.2 (h7 s a))⟩, ?_⟩
  intro hns s a b hsp
  have h0 : @V3.normSq K (fieldNum K sq) (@V3.sub K (fieldNum K sq) (rayPt sq ray 0) c) - r * r < 0 := by
    rw [rayPt_zero]
    rcases lt_or_eq_of_le ((ballAt_iff sq c r _).1 hin) with h | h
    · exact h
    · exact absurd ((sphereAt_iff sq c r _).2 h) hns
  exact absurd ((sphereAt_iff sq c r _).1 hsp) (ne_of_lt (h6 h0 s a b))


/-- **`toi_units`, generic form.** If a caster returns the first hit of a set `S` both for `(o, d, max)` and for
`(o, l·d, max/l)`, `l > 0`, then the second result is the first divided by `l` (and `None` ↔ `None`). -/
theorem toi_units_of_firstHit (S : V3 K → Prop) (ray : Ray3 K) (l max : K) (hl : 0 < l) (r r' : Option K) :
    letI := fieldNum K sq
    FirstHit S (rayPt sq ray) max r → FirstHit S (rayPt sq ⟨ray.o, ray.d.smul l⟩) (max / l) r' →
    r' = r.map (· / l) := by
  intro h h'
  have e : rayPt sq ⟨ray.o, @V3.smul K (fieldNum K sq) ray.d l⟩ = fun s => rayPt sq ray (l * s) := by
    funext s; exact rayPt_scale sq ray l s
  rw [e] at h'
  exact firstHit_unique _ _ _ _ _ h' (firstHit_scale S (rayPt sq ray) max l hl r h)

/-- the local ray of a posed cast is the world ray seen through the inverse pose: `pt_local(s) = m⁻¹ • pt_world(s)`
(holds for every quaternion, unit or not: the rotation formula is linear) -/
theorem rayPt_invTransform (m : Iso3 K) (ray : Ray3 K) (s : K) :
    letI := fieldNum K sq
    rayPt sq (ray.invTransform m) s = m.invAct (rayPt sq ray s) := by
  simp only [rayPt, Ray3.pointAt, Ray3.invTransform, Iso3.invAct, Iso3.invRot, Iso3.rotQ, Iso3.qv, V3.add, V3.sub, V3.smul,
    V3.cross, V3.neg, fieldNum_two]
  congr 1 <;> ring


/-- **Ball::cast_local_ray, solid.** For every non-zero (not necessarily unit) direction and every `max_toi`: the
result is the first hit of the solid ball on `[0, max_toi]` — `Some t` ⇒ `0 ≤ t ≤ max_toi`, `o + t·d ∈ ball`, no earlier
point in the ball; `None` ⇒ no point of the segment `[0,max_toi]` is in the ball. -/
theorem ball_cast_solid_firstHit (hs : LawfulSqrt sq) (s : Ball K) (ray : Ray3 K) (max : K) :
    letI := fieldNum K sq
    0 < ray.d.normSq →
    FirstHit (s.Mem3) (rayPt sq ray) max (s.castLocalRay ray max true) := by
  intro ha
  have h := firstHitU_filter _ _ max _ (ball_solid_firstHit sq hs (@V3.zero K (fieldNum K sq)) s.r ray ha)
  have e : BallAt sq (@V3.zero K (fieldNum K sq)) s.r = @Ball.Mem3 K (fieldNum K sq) s := by
    funext p; exact propext (ballAt_zero sq s.r p)
  rw [e] at h; exact h

/-- **Ball::cast_local_ray, origin outside (both `solid` flags).** Same statement; additionally a reported hit has `t > 0`
and lies on the sphere. -/
theorem ball_cast_outside_firstHit (hs : LawfulSqrt sq) (s : Ball K) (ray : Ray3 K) (max : K) (solid : Bool) :
    letI := fieldNum K sq
    0 < ray.d.normSq → ¬ s.Mem3 ray.o →
    FirstHit (s.Mem3) (rayPt sq ray) max (s.castLocalRay ray max solid) ∧
    ∀ t, s.castLocalRay ray max solid = some t → 0 < t ∧ SphereAt sq V3.zero s.r (rayPt sq ray t) := by
  intro ha hout
  have e : BallAt sq (@V3.zero K (fieldNum K sq)) s.r = @Ball.Mem3 K (fieldNum K sq) s := by
    funext p; exact propext (ballAt_zero sq s.r p)
  have hout' : ¬ BallAt sq (@V3.zero K (fieldNum K sq)) s.r ray.o := by rw [e]; exact hout
  obtain ⟨h1, h2⟩ := ball_outside_firstHit sq hs (@V3.zero K (fieldNum K sq)) s.r ray solid ha hout'
  have h := firstHitU_filter _ _ max _ h1
  rw [e] at h
  refine ⟨h, fun t ht => h2 t ?_⟩
  simp only [Ball.castLocalRay] at ht
  exact (Option.filter_eq_some_iff.1 ht).1

/-- **Ball::cast_local_ray, `solid = false`, origin in the ball.** `Some t` ⇒ `t ≤ max_toi`, the hit point is on the
sphere and `t` is the exit parameter (`[0,t]` inside, everything later outside). `None` ⇒ the whole segment `[0,max_toi]`
stays in the ball and — if the origin is not itself on the sphere — never touches the sphere. -/
theorem ball_cast_nonsolid_inside (hs : LawfulSqrt sq) (s : Ball K) (ray : Ray3 K) (max : K) :
    letI := fieldNum K sq
    0 < ray.d.normSq → s.Mem3 ray.o →
    match s.castLocalRay ray max false with
    | some t => t ≤ max ∧ SphereAt sq V3.zero s.r (rayPt sq ray t) ∧ ExitHit s.Mem3 (rayPt sq ray) t
    | none => (∀ u, 0 ≤ u → u ≤ max → s.Mem3 (rayPt sq ray u)) ∧
        (¬ SphereAt sq V3.zero s.r ray.o → ∀ u, 0 ≤ u → u ≤ max → ¬ SphereAt sq V3.zero s.r (rayPt sq ray u)) := by
  intro ha hin
  have e : BallAt sq (@V3.zero K (fieldNum K sq)) s.r = @Ball.Mem3 K (fieldNum K sq) s := by
    funext p; exact propext (ballAt_zero sq s.r p)
  have hin' : BallAt sq (@V3.zero K (fieldNum K sq)) s.r ray.o := by rw [e]; exact hin
  obtain ⟨t, h1, h2, h3, h4⟩ := ball_nonsolid_exit sq hs (@V3.zero K (fieldNum K sq)) s.r ray ha hin'
  rw [e] at h3
  simp only [Ball.castLocalRay, h1]
  by_cases hm : t ≤ max
  · have hf : (some t).filter (fun t => decide (t ≤ max)) = some t := by simp [Option.filter, hm]
    rw [hf]
    exact ⟨hm, h2, h3⟩
  · have hf : (some t).filter (fun t => decide (t ≤ max)) = none := by simp [Option.filter, hm]
    rw [hf]
    push Not at hm
    exact ⟨fun u hu hum => h3.2.1 u hu (le_trans hum hm.le), fun hns u hu hum => h4 hns u hu (lt_of_le_of_lt hum hm)⟩


/-- **Ball normal.** For `r > 0` and a non-zero direction: whenever `ray_toi_and_normal_with_ball` reports a hit that is
not the "solid, origin inside, toi = 0" case, the normal is the unit radial vector at the hit point —
`n = (p − c)/r` (outward) for an origin outside, `n = −(p − c)/r` for the exit of a non-solid cast — and it faces
the ray: `n·d ≤ 0`.  The time is the one of `ray_toi_with_ball`. -/
theorem ball_normal_spec (hs : LawfulSqrt sq) (c : V3 K) (r : K) (ray : Ray3 K) (solid : Bool) :
    letI := fieldNum K sq
    0 < r → 0 < ray.d.normSq →
    ∀ h, (rayToiAndNormalWithBall c r ray solid).2 = some h →
      (rayToiWithBall c r ray solid).2 = some h.toi ∧
      (rayToiAndNormalWithBall c r ray solid).1 = (rayToiWithBall c r ray solid).1 ∧
      (¬ ((rayToiWithBall c r ray solid).1 = true ∧ solid = true) →
        h.n.smul r = (if (rayToiWithBall c r ray solid).1 then ((rayPt sq ray h.toi).sub c).neg else (rayPt sq ray h.toi).sub c) ∧
        h.n.normSq = 1 ∧ h.n.dot ray.d ≤ 0) := by
  intro hr ha h hh
  have core := ball_core sq hs c r ray solid ha
  simp only [rayToiAndNormalWithBall] at hh ⊢
  rcases hres : @rayToiWithBall K (fieldNum K sq) c r ray solid with ⟨ins, inter⟩
  rw [hres] at hh core
  simp only at hh core ⊢
  cases inter with
  | none => simp at hh
  | some t =>
    simp only [Option.map_some, Option.some.injEq] at hh
    subst hh
    refine ⟨rfl, trivial, ?_⟩
    intro hns
    dsimp only
    -- the hit is on the sphere
    have hg : (@V3.normSq K (fieldNum K sq) (@V3.sub K (fieldNum K sq) (rayPt sq ray t) c)) = r * r ∧
        (if ins then 0 ≤ @V3.normSq K (fieldNum K sq) ray.d * t + @V3.dot K (fieldNum K sq) (@V3.sub K (fieldNum K sq) ray.o c) ray.d
         else @V3.normSq K (fieldNum K sq) ray.d * t + @V3.dot K (fieldNum K sq) (@V3.sub K (fieldNum K sq) ray.o c) ray.d ≤ 0) := by
      cases ins with
      | false =>
        have := core.2.1 rfl
        simp only at this
        exact ⟨by linarith [this.2.1], this.2.2.1⟩
      | true =>
        have hsol : solid = false := by
          cases solid with
          | false => rfl
          | true => exact absurd ⟨rfl, rfl⟩ hns
        obtain ⟨t', ht', _, h3, h4, _⟩ := core.2.2.2 rfl hsol
        simp only [Option.some.injEq] at ht'
        subst ht'
        exact ⟨by linarith [h3], h4⟩
    obtain ⟨hsph, hsign⟩ := hg
    have hnorm : @V3.norm K (fieldNum K sq) (@V3.sub K (fieldNum K sq) (rayPt sq ray t) c) = r := by
      show sq _ = r
      rw [hsph]; exact lawfulSqrt_mul_self sq hs r hr.le
    have hpt : @V3.sub K (fieldNum K sq) (@V3.add K (fieldNum K sq) ray.o (@V3.smul K (fieldNum K sq) ray.d t)) c
        = @V3.sub K (fieldNum K sq) (rayPt sq ray t) c := rfl
    simp only [V3.normalize, hpt, hnorm]
    have hdot : @V3.dot K (fieldNum K sq) (@V3.sub K (fieldNum K sq) (rayPt sq ray t) c) ray.d
        = @V3.normSq K (fieldNum K sq) ray.d * t + @V3.dot K (fieldNum K sq) (@V3.sub K (fieldNum K sq) ray.o c) ray.d := by
      simp only [rayPt, Ray3.pointAt, V3.add, V3.sub, V3.smul, V3.normSq, V3.dot]; ring
    have hne : r ≠ 0 := ne_of_gt hr
    cases ins with
    | false =>
      simp only [Bool.false_eq_true, if_false] at hsign ⊢
      refine ⟨?_, ?_, ?_⟩
      · simp only [V3.smul, V3.sdiv, div_mul_cancel₀ _ hne]
      · have : @V3.normSq K (fieldNum K sq) (@V3.sdiv K (fieldNum K sq) (@V3.sub K (fieldNum K sq) (rayPt sq ray t) c) r)
            = @V3.normSq K (fieldNum K sq) (@V3.sub K (fieldNum K sq) (rayPt sq ray t) c) / (r * r) := by
          simp only [V3.normSq, V3.dot, V3.sdiv]; field_simp
        rw [this, hsph]; exact div_self (mul_ne_zero hne hne)
      · have : @V3.dot K (fieldNum K sq) (@V3.sdiv K (fieldNum K sq) (@V3.sub K (fieldNum K sq) (rayPt sq ray t) c) r) ray.d
            = @V3.dot K (fieldNum K sq) (@V3.sub K (fieldNum K sq) (rayPt sq ray t) c) ray.d / r := by
          simp only [V3.dot, V3.sdiv]; field_simp
        rw [this, hdot]
        exact div_nonpos_of_nonpos_of_nonneg hsign hr.le
    | true =>
      simp only [if_true] at hsign ⊢
      refine ⟨?_, ?_, ?_⟩
      · simp only [V3.smul, V3.sdiv, V3.neg, neg_mul, div_mul_cancel₀ _ hne]
      · have : @V3.normSq K (fieldNum K sq) (@V3.neg K (fieldNum K sq) (@V3.sdiv K (fieldNum K sq) (@V3.sub K (fieldNum K sq) (rayPt sq ray t) c) r))
            = @V3.normSq K (fieldNum K sq) (@V3.sub K (fieldNum K sq) (rayPt sq ray t) c) / (r * r) := by
          simp only [V3.normSq, V3.dot, V3.sdiv, V3.neg]; field_simp
        rw [this, hsph]; exact div_self (mul_ne_zero hne hne)
      · have : @V3.dot K (fieldNum K sq) (@V3.neg K (fieldNum K sq) (@V3.sdiv K (fieldNum K sq) (@V3.sub K (fieldNum K sq) (rayPt sq ray t) c) r)) ray.d
            = -(@V3.dot K (fieldNum K sq) (@V3.sub K (fieldNum K sq) (rayPt sq ray t) c) ray.d / r) := by
          simp only [V3.dot, V3.sdiv, V3.neg]; field_simp; ring
        rw [this, hdot]
        exact neg_nonpos.2 (div_nonneg hsign hr.le)


/-- **posed = local ∘ inverse transform (generic).** A result is the first hit of the local set `S` along the
inverse-transformed ray iff it is the first hit of the posed set `{p | m⁻¹•p ∈ S}` along the world ray — same `toi`. -/
theorem firstHit_posed (S : V3 K → Prop) (m : Iso3 K) (ray : Ray3 K) (max : K) (r : Option K) :
    letI := fieldNum K sq
    FirstHit S (rayPt sq (ray.invTransform m)) max r ↔ FirstHit (fun p => S (m.invAct p)) (rayPt sq ray) max r := by
  cases r <;> simp only [FirstHit, rayPt_invTransform]

/-- world normal `m.rot n` against the world direction equals the local normal against the local direction (unit `q`) -/
theorem posed_normal_dot (m : Iso3 K) (n d : V3 K)
    (hq : m.qi * m.qi + m.qj * m.qj + m.qk * m.qk + m.qw * m.qw = 1) :
    letI := fieldNum K sq
    (m.rot n).dot d = n.dot (m.invRot d) := by
  have h1 := rot_dot sq m n (@Iso3.invRot K (fieldNum K sq) m d) hq
  rw [rot_invRot sq m d hq] at h1
  exact h1

/-- the time reported by `cast_local_ray_and_get_normal` is the one of `cast_local_ray` -/
theorem ball_getNormal_toi (s : Ball K) (ray : Ray3 K) (max : K) (solid : Bool) :
    letI := fieldNum K sq
    (s.castLocalRayAndGetNormal ray max solid).map (·.toi) = s.castLocalRay ray max solid := by
  simp only [Ball.castLocalRayAndGetNormal, Ball.castLocalRay, rayToiAndNormalWithBall]
  rcases @rayToiWithBall K (fieldNum K sq) (@V3.zero K (fieldNum K sq)) s.r ray solid with ⟨ins, inter⟩
  cases inter with
  | none => rfl
  | some t =>
    simp only [Option.map_some, Option.filter]
    by_cases hm : t ≤ max <;> simp [hm]

/-- **Ball, posed form (`cast_ray_and_get_normal`), solid.** For a unit rotation and a non-zero world direction the time
returned is the first hit of the posed ball `{p | m⁻¹•p ∈ ball}` along the *world* ray, in units of the world
direction. -/
theorem ball_posed_solid_firstHit (hs : LawfulSqrt sq) (s : Ball K) (m : Iso3 K) (ray : Ray3 K) (max : K)
    (hq : m.qi * m.qi + m.qj * m.qj + m.qk * m.qk + m.qw * m.qw = 1) :
    letI := fieldNum K sq
    0 < ray.d.normSq →
    FirstHit (fun p => s.Mem3 (m.invAct p)) (rayPt sq ray) max ((s.castRayAndGetNormal m ray max true).map (·.toi)) := by
  intro ha
  have hd : 0 < @V3.normSq K (fieldNum K sq) (@Ray3.invTransform K (fieldNum K sq) ray m).d := by
    show 0 < @V3.dot K (fieldNum K sq) (@Iso3.invRot K (fieldNum K sq) m ray.d) (@Iso3.invRot K (fieldNum K sq) m ray.d)
    rw [invRot_dot sq m _ _ hq]; exact ha
  have h := ball_cast_solid_firstHit sq hs s (@Ray3.invTransform K (fieldNum K sq) ray m) max hd
  rw [← ball_getNormal_toi] at h
  have e : (@Ball.castRayAndGetNormal K (fieldNum K sq) s m ray max true).map (·.toi)
      = (@Ball.castLocalRayAndGetNormal K (fieldNum K sq) s (@Ray3.invTransform K (fieldNum K sq) ray m) max true).map (·.toi) := by
    simp only [Ball.castRayAndGetNormal, Option.map_map]; rfl
  rw [e]
  exact (firstHit_posed sq _ m ray max _).1 h

/-- **`toi_units`, Ball.** Casting along `l·d` (`l > 0`) with `max/l` divides the time by `l` (solid cast). -/
theorem ball_toi_units (hs : LawfulSqrt sq) (s : Ball K) (ray : Ray3 K) (l max : K) (hl : 0 < l) :
    letI := fieldNum K sq
    0 < ray.d.normSq →
    s.castLocalRay ⟨ray.o, ray.d.smul l⟩ (max / l) true = (s.castLocalRay ray max true).map (· / l) := by
  intro ha
  have ha' : 0 < @V3.normSq K (fieldNum K sq) (@V3.smul K (fieldNum K sq) ray.d l) := by
    have : @V3.normSq K (fieldNum K sq) (@V3.smul K (fieldNum K sq) ray.d l) = l * l * @V3.normSq K (fieldNum K sq) ray.d := by
      simp only [V3.normSq, V3.dot, V3.smul]; ring
    rw [this]; positivity
  exact toi_units_of_firstHit sq _ ray l max hl _ _ (ball_cast_solid_firstHit sq hs s ray max ha)
    (ball_cast_solid_firstHit sq hs s ⟨ray.o, @V3.smul K (fieldNum K sq) ray.d l⟩ (max / l) ha')


/-- non-vacuity: a non-unit direction (`|d| = 2`), an origin outside and an origin inside the unit ball, over `ℝ` -/
example : letI := fieldNum ℝ Real.sqrt
    (0:ℝ) < (V3.mk 2 0 0 : V3 ℝ).normSq ∧ ¬ BallAt Real.sqrt ⟨0,0,0⟩ 1 (⟨-3,0,0⟩ : V3 ℝ) ∧ BallAt Real.sqrt ⟨0,0,0⟩ 1 (⟨1/2,0,0⟩ : V3 ℝ)
      ∧ ¬ SphereAt Real.sqrt ⟨0,0,0⟩ 1 (⟨1/2,0,0⟩ : V3 ℝ) := by
  simp only [BallAt, SphereAt, Ball.Mem3, V3.normSq, V3.dot, V3.sub]; norm_num

/-! ## HalfSpace (`ray_halfspace.rs`, corrected parallel-ray behaviour) -/

/-- **HalfSpace cast, `solid = true`** (corrected parallel-ray behaviour), any non-zero or zero direction, `max_toi ≥ 0`:
the reported time is the first parameter of `[0,max_toi]` in the half-space `{p | n·p ≤ 0}`; `None` ⇒ the segment misses it. -/
theorem halfspace_cast_solid_firstHit (s : HalfSpace3 K) (ray : Ray3 K) (max : K) (hmax : 0 ≤ max) :
    letI := fieldNum K sq
    FirstHit s.Mem (rayPt sq ray) max ((s.castLocalRayAndGetNormal ray max true).map (·.toi)) := by
  have lin := halfspace_lin sq s ray
  simp only [HalfSpace3.castLocalRayAndGetNormal, halfspace_dpos sq s ray, apply_ite (Option.map (fun h : Hit3 K => h.toi)),
    Option.map_some, Option.map_none, true_and]
  generalize @V3.dot K (fieldNum K sq) s.n ray.o = al at lin ⊢
  generalize @V3.dot K (fieldNum K sq) s.n ray.d = be at lin ⊢
  have mem : ∀ u, @HalfSpace3.Mem K (fieldNum K sq) s (rayPt sq ray u) ↔ al + be * u ≤ 0 := fun u => by
    unfold HalfSpace3.Mem; rw [lin]
  split_ifs with h1 h2 h3 h4
  · -- strictly inside
    refine ⟨le_refl _, hmax, (mem 0).2 (by have : 0 < -al := h1; linarith), fun u h h' => absurd h' (not_lt.2 h)⟩
  · -- parallel, origin on the plane
    rw [neq_zero_iff] at h2 h3
    refine ⟨le_refl _, hmax, (mem 0).2 (by linarith), fun u h h' => absurd h' (not_lt.2 h)⟩
  · -- parallel, origin off the plane (hence outside)
    rw [neq_zero_iff] at h2
    have h3' : al ≠ 0 := fun h => h3 ((neq_zero_iff sq _).2 (by rw [h]; simp))
    have hal : 0 < al := by
      rcases lt_or_gt_of_ne h3' with h | h
      · exact absurd (by linarith : 0 < -al) h1
      · exact h
    intro u hu _ hm
    rw [mem, h2] at hm; linarith
  · -- crossing within range
    have hbe : be ≠ 0 := fun h => h2 ((neq_zero_iff sq _).2 h)
    have hal : 0 ≤ al := by
      by_contra h; push Not at h
      exact h1 (by linarith)
    refine ⟨h4.1, h4.2, (mem _).2 (le_of_eq (hs_root al be hbe)), ?_⟩
    intro u hu hut hm
    rw [mem] at hm
    have hr := hs_root al be hbe
    -- al ≥ 0, root ≥ 0 ⇒ be < 0 or al = 0 (then t = 0, vacuous)
    rcases lt_or_gt_of_ne hbe with hb | hb
    · nlinarith
    · have : -al / be ≤ 0 := div_nonpos_of_nonpos_of_nonneg (by linarith) hb.le
      linarith [h4.1]
  · -- no crossing within range
    have hbe : be ≠ 0 := fun h => h2 ((neq_zero_iff sq _).2 h)
    have hal : 0 ≤ al := by
      by_contra h; push Not at h
      exact h1 (by linarith)
    intro u hu hum hm
    rw [mem] at hm
    have hr := hs_root al be hbe
    apply h4
    rcases lt_or_gt_of_ne hbe with hb | hb
    · -- be < 0: the root is ≥ 0 and ≤ u ≤ max
      have h0 : 0 ≤ -al / be := div_nonneg_of_nonpos (by linarith) hb.le
      refine ⟨h0, le_trans ?_ hum⟩
      by_contra hc; push Not at hc
      nlinarith
    · -- be > 0: al + be u ≤ 0 with al ≥ 0, u ≥ 0 forces al = 0 = u·be
      have hal0 : al = 0 := by nlinarith [mul_nonneg hb.le hu]
      subst hal0
      simp only [neg_zero, zero_div]
      exact ⟨le_refl _, hmax⟩

/-- **HalfSpace cast, `solid = false`**: for *every* origin (inside, outside, on the plane) the reported time is the first
parameter of `[0,max_toi]` on the boundary plane `n·p = 0`; `None` ⇒ the segment never touches the plane.
(From outside this is also the first point of the half-space; from inside it is the exit.) -/
theorem halfspace_cast_nonsolid_firstHit (s : HalfSpace3 K) (ray : Ray3 K) (max : K) (hmax : 0 ≤ max) :
    letI := fieldNum K sq
    FirstHit (PlaneOf sq s) (rayPt sq ray) max ((s.castLocalRayAndGetNormal ray max false).map (·.toi)) := by
  have lin := halfspace_lin sq s ray
  simp only [HalfSpace3.castLocalRayAndGetNormal, halfspace_dpos sq s ray, apply_ite (Option.map (fun h : Hit3 K => h.toi)),
    Option.map_some, Option.map_none, Bool.false_eq_true, false_and, if_false]
  generalize @V3.dot K (fieldNum K sq) s.n ray.o = al at lin ⊢
  generalize @V3.dot K (fieldNum K sq) s.n ray.d = be at lin ⊢
  have mem : ∀ u, PlaneOf sq s (rayPt sq ray u) ↔ al + be * u = 0 := fun u => by
    unfold PlaneOf; rw [lin]
  split_ifs with h2 h3 h4
  · rw [neq_zero_iff] at h2 h3
    refine ⟨le_refl _, hmax, (mem 0).2 (by rw [h2]; linarith), fun u h h' => absurd h' (not_lt.2 h)⟩
  · rw [neq_zero_iff] at h2
    have h3' : al ≠ 0 := fun h => h3 ((neq_zero_iff sq _).2 (by rw [h]; simp))
    intro u _ _ hm
    rw [mem, h2] at hm; exact h3' (by linarith)
  · have hbe : be ≠ 0 := fun h => h2 ((neq_zero_iff sq _).2 h)
    refine ⟨h4.1, h4.2, (mem _).2 (hs_root al be hbe), ?_⟩
    intro u _ hut hm
    rw [mem] at hm
    have hu : u = -al / be := by field_simp; linarith
    exact absurd hu (ne_of_lt hut)
  · have hbe : be ≠ 0 := fun h => h2 ((neq_zero_iff sq _).2 h)
    intro u hu hum hm
    rw [mem] at hm
    have hu' : u = -al / be := by field_simp; linarith
    exact h4 ⟨hu' ▸ hu, hu' ▸ hum⟩

/-- **HalfSpace, non-solid from strictly inside**: every parameter up to the reported exit time is in the half-space. -/
theorem halfspace_nonsolid_inside_before (s : HalfSpace3 K) (ray : Ray3 K) (max : K) (hmax : 0 ≤ max) (t : K) :
    letI := fieldNum K sq
    s.n.dot ray.o < 0 → (s.castLocalRayAndGetNormal ray max false).map (·.toi) = some t →
    ∀ u, 0 ≤ u → u ≤ t → s.Mem (rayPt sq ray u) := by
  intro hin hres u hu hut
  have fh := halfspace_cast_nonsolid_firstHit sq s ray max hmax
  rw [hres] at fh
  obtain ⟨h0, _, hp, _⟩ := fh
  have lin := halfspace_lin sq s ray
  unfold PlaneOf at hp
  unfold HalfSpace3.Mem
  rw [lin] at hp ⊢
  rcases eq_or_lt_of_le hut with h | h
  · rw [h]; exact le_of_eq hp
  · have ht : 0 < t := lt_of_le_of_lt hu h
    nlinarith

/-- **HalfSpace normal.** Origin strictly outside ⇒ the reported normal is the outward normal `n` and `n·d < 0`;
origin strictly inside and `solid = false` ⇒ it is `−n` (facing the ray from inside) and `(−n)·d < 0`. -/
theorem halfspace_normal_spec (s : HalfSpace3 K) (ray : Ray3 K) (max : K) (solid : Bool) (h : Hit3 K) :
    letI := fieldNum K sq
    s.castLocalRayAndGetNormal ray max solid = some h →
    (0 < s.n.dot ray.o → h.n = s.n ∧ h.n.dot ray.d < 0) ∧
    (s.n.dot ray.o < 0 → solid = false → h.n = s.n.neg ∧ h.n.dot ray.d < 0) := by
  simp only [HalfSpace3.castLocalRayAndGetNormal, halfspace_dpos sq s ray]
  have negdot : @V3.dot K (fieldNum K sq) (@V3.neg K (fieldNum K sq) s.n) ray.d = -(@V3.dot K (fieldNum K sq) s.n ray.d) := by
    simp only [V3.neg, V3.dot]; ring
  generalize @V3.dot K (fieldNum K sq) s.n ray.o = al at *
  generalize hbe : @V3.dot K (fieldNum K sq) s.n ray.d = be at *
  intro hres
  split_ifs at hres with h1 h2 h3 h4 h5
  · -- solid, inside
    cases hres
    exact ⟨fun ha => absurd h1.2 (by linarith), fun _ hs => by rw [hs] at h1; exact absurd h1.1 (by simp)⟩
  · rw [neq_zero_iff] at h3
    exact ⟨fun ha => absurd h3 (by linarith), fun ha _ => absurd h3 (by linarith)⟩
  · -- 0 < -al : inside
    cases hres
    have hb : be ≠ 0 := fun h => h2 ((neq_zero_iff sq _).2 h)
    refine ⟨fun ha => absurd h5 (by linarith), fun ha _ => ⟨rfl, ?_⟩⟩
    show @V3.dot K (fieldNum K sq) (@V3.neg K (fieldNum K sq) s.n) ray.d < 0
    rw [negdot]
    -- t = -al/be ≥ 0 with -al > 0 ⇒ be > 0
    rcases lt_or_gt_of_ne hb with hb' | hb'
    · have : -al / be < 0 := div_neg_of_pos_of_neg h5 hb'
      linarith [h4.1]
    · linarith
  · cases hres
    have hb : be ≠ 0 := fun h => h2 ((neq_zero_iff sq _).2 h)
    refine ⟨fun ha => ⟨rfl, ?_⟩, fun ha _ => absurd ha (by push Not at h5; linarith)⟩
    show @V3.dot K (fieldNum K sq) s.n ray.d < 0
    rw [hbe]
    rcases lt_or_gt_of_ne hb with hb' | hb'
    · exact hb'
    · have : -al / be < 0 := div_neg_of_neg_of_pos (by linarith) hb'
      linarith [h4.1]


/-- **`toi_units`, HalfSpace (solid).** -/
theorem halfspace_toi_units (s : HalfSpace3 K) (ray : Ray3 K) (l max : K) (hl : 0 < l) (hmax : 0 ≤ max) :
    letI := fieldNum K sq
    (s.castLocalRayAndGetNormal ⟨ray.o, ray.d.smul l⟩ (max / l) true).map (·.toi)
      = ((s.castLocalRayAndGetNormal ray max true).map (·.toi)).map (· / l) :=
  toi_units_of_firstHit sq _ ray l max hl _ _ (halfspace_cast_solid_firstHit sq s ray max hmax)
    (halfspace_cast_solid_firstHit sq s ⟨ray.o, @V3.smul K (fieldNum K sq) ray.d l⟩ (max / l) (div_nonneg hmax hl.le))

/-- non-vacuity (half-space): a ray parallel to the plane from inside, a crossing ray with `|d| = 5`, over `ℚ` -/
example : letI := fieldNum ℚ id
    ((HalfSpace3.mk ⟨0,1,0⟩ : HalfSpace3 ℚ).n.dot (⟨0,-1,0⟩ : V3 ℚ) < 0) ∧
    (0 : ℚ) < (HalfSpace3.mk ⟨0,1,0⟩ : HalfSpace3 ℚ).n.dot (⟨0,2,0⟩ : V3 ℚ) ∧ (0:ℚ) ≤ 7 := by
  simp only [V3.dot]; norm_num

/-! ## Triangle, 3-D (`local_ray_intersection_with_triangle`, origin-on-plane branch corrected) -/

/-- **Triangle (3-D), a reported hit is sound**, for any non-unit direction: `toi ≥ 0`, the barycentric coordinates
are those of a point of the triangle (`≥ 0`, sum 1), the hit point `o + toi·d` *is* that point
`a + β(b−a) + γ(c−a)`, the ray is not parallel to the plane and `toi` is the unique plane-crossing parameter
(`toi·(n·d) = −(o−a)·n`). -/
theorem triangle_inter_sound (a b c : V3 K) (ray : Ray3 K) (h : Hit3 K) (bary : V3 K) :
    letI := fieldNum K sq
    localRayIntersectionWithTriangle a b c ray = some (h, bary) →
    0 ≤ h.toi ∧ 0 ≤ bary.y ∧ 0 ≤ bary.z ∧ bary.y + bary.z ≤ 1 ∧ bary.x = 1 - bary.y - bary.z ∧
    rayPt sq ray h.toi = (a.add ((b.sub a).smul bary.y)).add ((c.sub a).smul bary.z) ∧
    triD sq a b c ray ≠ 0 ∧ h.toi * triD sq a b c ray = -triT sq a b c ray := by
  rw [tri_model_eq]
  have pid := tri_point_identity sq a b c ray
  generalize triD sq a b c ray = d0 at *
  generalize triT sq a b c ray = t0 at *
  generalize triVs sq a b c ray = vs at *
  generalize triWs sq a b c ray = ws at *
  obtain ⟨ax, ay, az⟩ := a; obtain ⟨bx, b_y, bz⟩ := b; obtain ⟨cx, cy, cz⟩ := c
  obtain ⟨⟨ox, oy, oz⟩, ⟨dx, dy, dz⟩⟩ := ray
  simp only [V3.add, V3.sub, V3.smul, V3.mk.injEq] at pid
  obtain ⟨px, py, pz⟩ := pid
  simp only []
  intro hres
  split_ifs at hres with h0 h1 h2 h3 h4 h5 h6
  · -- d0 < 0
    push Not at h3 h4 h1
    have hd : d0 < 0 := h2
    have habs : |d0| = -d0 := abs_of_neg hd
    rw [habs] at hres h3 h4
    have ht : 0 ≤ t0 := by
      by_contra hc; push Not at hc; exact absurd hd (not_lt.2 (h1.1 hc))
    simp only [Option.some.injEq, Prod.mk.injEq] at hres
    obtain ⟨rfl, rfl⟩ := hres
    simp only [rayPt, Ray3.pointAt, V3.add, V3.sub, V3.smul, V3.mk.injEq]
    have hnd : 0 < -d0 := neg_pos.2 hd
    have hi : 0 < 1 / -d0 := one_div_pos.2 hnd
    have hne : d0 ≠ 0 := h0
    refine ⟨mul_nonneg ht hi.le, mul_nonneg h3.1 hi.le, mul_nonneg h4.1 hi.le, ?_, by ring, ⟨?_, ?_, ?_⟩, h0, ?_⟩
    · have : -vs * (1 / -d0) + -ws * (1 / -d0) = (-vs + -ws) / -d0 := by ring
      rw [this, div_le_one hnd]; exact h4.2
    · field_simp; linear_combination px
    · field_simp; linear_combination py
    · field_simp; linear_combination pz
    · field_simp

  · -- d0 > 0
    push Not at h2 h5 h6 h1
    have hd : 0 < d0 := lt_of_le_of_ne h2 (Ne.symm h0)
    have habs : |d0| = d0 := abs_of_pos hd
    rw [habs] at hres h5 h6
    have ht : t0 ≤ 0 := by
      by_contra hc; push Not at hc; exact absurd hd (not_lt.2 (h1.2 hc))
    simp only [Option.some.injEq, Prod.mk.injEq] at hres
    obtain ⟨rfl, rfl⟩ := hres
    simp only [rayPt, Ray3.pointAt, V3.add, V3.sub, V3.smul, V3.mk.injEq]
    have hi : 0 < 1 / d0 := one_div_pos.2 hd
    refine ⟨by nlinarith, mul_nonneg h5.1 hi.le, mul_nonneg h6.1 hi.le, ?_, by ring, ⟨?_, ?_, ?_⟩, h0, ?_⟩
    · have : vs * (1 / d0) + ws * (1 / d0) = (vs + ws) / d0 := by ring
      rw [this, div_le_one hd]; exact h6.2
    · field_simp; linear_combination px
    · field_simp; linear_combination py
    · field_simp; linear_combination pz
    · field_simp

/-- **Triangle (3-D), uniqueness**: when a hit is reported, its parameter is the *only* parameter (of the whole line) at
which the ray is in the triangle — so it is in particular the first one. -/
theorem triangle_inter_unique (a b c : V3 K) (ray : Ray3 K) (h : Hit3 K) (bary : V3 K) (s : K) :
    letI := fieldNum K sq
    localRayIntersectionWithTriangle a b c ray = some (h, bary) →
    (Triangle3.mk a b c).Mem (rayPt sq ray s) → s = h.toi := by
  intro hres ⟨u, v, _, _, _, hp⟩
  obtain ⟨_, _, _, _, _, _, hd, ht⟩ := triangle_inter_sound sq a b c ray h bary hres
  obtain ⟨e1, _, _⟩ := tri_mem_facts sq a b c ray s u v hp
  have : (s - h.toi) * triD sq a b c ray = 0 := by linear_combination e1 - ht
  rcases mul_eq_zero.1 this with h' | h'
  · linarith
  · exact absurd h' hd

/-- **Triangle (3-D), `None` is sound** unless the ray lies in the triangle's plane (`n·d = 0 ∧ (o−a)·n = 0`, the
coplanar case the algorithm gives up on — KNOWN_FINDINGS): no point of the ray `[0,∞)` is in the triangle. -/
theorem triangle_inter_none_partial (a b c : V3 K) (ray : Ray3 K) :
    letI := fieldNum K sq
    localRayIntersectionWithTriangle a b c ray = none →
    ¬ (triD sq a b c ray = 0 ∧ triT sq a b c ray = 0) →
    ∀ s, 0 ≤ s → ¬ (Triangle3.mk a b c).Mem (rayPt sq ray s) := by
  intro hres hnc s hs ⟨u, v, hu, hv, huv, hp⟩
  obtain ⟨e1, e2, e3⟩ := tri_mem_facts sq a b c ray s u v hp
  rw [tri_model_eq] at hres
  generalize triD sq a b c ray = d0 at *
  generalize triT sq a b c ray = t0 at *
  generalize triVs sq a b c ray = vs at *
  generalize triWs sq a b c ray = ws at *
  simp only [] at hres
  subst e2 e3
  split_ifs at hres with h0 h1 h2 h3 h4 h5 h6
  · exact hnc ⟨h0, by rw [h0] at e1; linarith⟩
  · rcases h1 with ⟨a1, a2⟩ | ⟨a1, a2⟩
    · nlinarith [mul_nonneg hs (neg_nonneg.2 a2.le)]
    · nlinarith [mul_nonneg hs a2.le]
  · -- d0 < 0, first barycentric test fails
    rw [abs_of_neg h2] at h3
    rcases h3 with h3 | h3 <;> nlinarith [mul_nonneg hu (neg_nonneg.2 h2.le), mul_nonneg (sub_nonneg.2 (le_trans (le_add_of_nonneg_right hv) huv)) (neg_nonneg.2 h2.le)]
  · rw [abs_of_neg h2] at h4
    rcases h4 with h4 | h4 <;> nlinarith [mul_nonneg hv (neg_nonneg.2 h2.le), mul_nonneg (sub_nonneg.2 huv) (neg_nonneg.2 h2.le)]
  · have hd : 0 < d0 := lt_of_le_of_ne (not_lt.1 h2) (Ne.symm h0)
    rw [abs_of_pos hd] at h5
    rcases h5 with h5 | h5 <;> nlinarith [mul_nonneg hu hd.le, mul_nonneg (sub_nonneg.2 (le_trans (le_add_of_nonneg_right hv) huv)) hd.le]
  · have hd : 0 < d0 := lt_of_le_of_ne (not_lt.1 h2) (Ne.symm h0)
    rw [abs_of_pos hd] at h6
    rcases h6 with h6 | h6 <;> nlinarith [mul_nonneg hv hd.le, mul_nonneg (sub_nonneg.2 huv) hd.le]

/-- the full-strength statement for the 3-D triangle (no side condition). It is **false** for the code (rays lying in
the triangle's plane are reported as misses), see `triangle_cast_firstHit_partial` and KNOWN_FINDINGS. -/
def triangle_cast_firstHit_full : Prop :=
  ∀ (s : Triangle3 K) (ray : Ray3 K) (max : K) (solid : Bool),
    letI := fieldNum K sq
    FirstHit s.Mem (rayPt sq ray) max ((s.castLocalRayAndGetNormal ray max solid).map (·.toi))

/-- **Triangle::cast_local_ray_and_get_normal (3-D)**: for every ray that does not lie in the triangle's plane (any
non-unit direction, both `solid` flags, every `max_toi`), the reported time is the first parameter of `[0,max_toi]` in the
triangle, and `None` means the segment misses the triangle.  Gap to `triangle_cast_firstHit_full`: coplanar rays. -/
theorem triangle_cast_firstHit_partial (s : Triangle3 K) (ray : Ray3 K) (max : K) (solid : Bool) :
    letI := fieldNum K sq
    ¬ (triD sq s.a s.b s.c ray = 0 ∧ triT sq s.a s.b s.c ray = 0) →
    FirstHit s.Mem (rayPt sq ray) max ((s.castLocalRayAndGetNormal ray max solid).map (·.toi)) := by
  intro hnc
  obtain ⟨a, b, c⟩ := s
  simp only [Triangle3.castLocalRayAndGetNormal]
  cases hres : @localRayIntersectionWithTriangle K (fieldNum K sq) a b c ray with
  | none =>
    exact fun u hu _ => triangle_inter_none_partial sq a b c ray hres hnc u hu
  | some p =>
    obtain ⟨h, bary⟩ := p
    have snd := triangle_inter_sound sq a b c ray h bary hres
    have unq := triangle_inter_unique sq a b c ray h bary
    simp only
    by_cases hm : h.toi ≤ max
    · rw [if_pos hm]
      refine ⟨snd.1, hm, ⟨bary.y, bary.z, snd.2.1, snd.2.2.1, snd.2.2.2.1, snd.2.2.2.2.2.1⟩, ?_⟩
      intro u _ hut hmem
      exact absurd (unq u hres hmem) (ne_of_lt hut)
    · rw [if_neg hm]
      intro u _ hum hmem
      have := unq u hres hmem
      rw [this] at hum; exact hm hum

/-- **Triangle normal (3-D).** With a lawful square root: a reported normal is a unit vector, collinear with the triangle's
normal `n = (b−a)×(c−a)` (`normal·|n| = ±n`), oriented against the ray: `normal·d < 0`. -/
theorem triangle_normal_spec (hs : LawfulSqrt sq) (a b c : V3 K) (ray : Ray3 K) (h : Hit3 K) (bary : V3 K) :
    letI := fieldNum K sq
    localRayIntersectionWithTriangle a b c ray = some (h, bary) →
    h.n.normSq = 1 ∧ h.n.dot ray.d < 0 ∧
    (h.n.smul (triN sq a b c).norm = triN sq a b c ∨ h.n.smul (triN sq a b c).norm = (triN sq a b c).neg) := by
  intro hres
  have hd := (triangle_inter_sound sq a b c ray h bary hres).2.2.2.2.2.2.1
  rw [tri_model_eq] at hres
  have hdn : triD sq a b c ray = @V3.dot K (fieldNum K sq) (triN sq a b c) ray.d := rfl
  generalize triN sq a b c = n at *
  -- |n| > 0
  have hnn : 0 < @V3.normSq K (fieldNum K sq) n := by
    have h0 : 0 ≤ @V3.normSq K (fieldNum K sq) n := by
      simp only [V3.normSq, V3.dot]; nlinarith [mul_self_nonneg n.x, mul_self_nonneg n.y, mul_self_nonneg n.z]
    rcases eq_or_lt_of_le h0 with h | h
    · exfalso; apply hd; rw [hdn]
      simp only [V3.normSq, V3.dot] at h
      have hx : n.x = 0 := by nlinarith [mul_self_nonneg n.x, mul_self_nonneg n.y, mul_self_nonneg n.z]
      have hy : n.y = 0 := by nlinarith [mul_self_nonneg n.x, mul_self_nonneg n.y, mul_self_nonneg n.z]
      have hz : n.z = 0 := by nlinarith [mul_self_nonneg n.x, mul_self_nonneg n.y, mul_self_nonneg n.z]
      simp only [V3.dot, hx, hy, hz]; ring
    · exact h
  have hw0 : 0 ≤ sq (@V3.normSq K (fieldNum K sq) n) := hs.nonneg _ hnn.le
  have hww : sq (@V3.normSq K (fieldNum K sq) n) * sq (@V3.normSq K (fieldNum K sq) n) = @V3.normSq K (fieldNum K sq) n := hs.sq_mul _ hnn.le
  have hnorm : @V3.norm K (fieldNum K sq) n = sq (@V3.normSq K (fieldNum K sq) n) := rfl
  have hwpos : 0 < sq (@V3.normSq K (fieldNum K sq) n) := by
    rcases eq_or_lt_of_le hw0 with h | h
    · rw [← h] at hww; linarith
    · exact h
  generalize triD sq a b c ray = d0 at *
  generalize triT sq a b c ray = t0 at *
  generalize triVs sq a b c ray = vs at *
  generalize triWs sq a b c ray = ws at *
  simp only [] at hres
  rw [hnorm]
  generalize sq (@V3.normSq K (fieldNum K sq) n) = w at *
  have hne : w ≠ 0 := ne_of_gt hwpos
  obtain ⟨nx, ny, nz⟩ := n
  split_ifs at hres with h0 h1 h2 h3 h4 h5 h6
  · simp only [Option.some.injEq, Prod.mk.injEq] at hres
    obtain ⟨rfl, _⟩ := hres
    simp only [V3.normalize, V3.norm, V3.sdiv, V3.smul, V3.normSq, V3.dot, V3.neg, V3.mk.injEq] at *
    simp only [hnorm]
    refine ⟨?_, ?_, Or.inl ⟨by field_simp, by field_simp, by field_simp⟩⟩
    · field_simp; linarith
    · have : nx / w * ray.d.x + ny / w * ray.d.y + nz / w * ray.d.z = d0 / w := by rw [hdn]; field_simp
      rw [this]; exact div_neg_of_neg_of_pos h2 hwpos
  · have hd0 : 0 < d0 := lt_of_le_of_ne (not_lt.1 h2) (Ne.symm h0)
    simp only [Option.some.injEq, Prod.mk.injEq] at hres
    obtain ⟨rfl, _⟩ := hres
    simp only [V3.normalize, V3.norm, V3.sdiv, V3.smul, V3.normSq, V3.dot, V3.neg, V3.mk.injEq] at *
    simp only [hnorm]
    refine ⟨?_, ?_, Or.inr ⟨by field_simp, by field_simp, by field_simp⟩⟩
    · field_simp; linarith
    · have : -(nx / w) * ray.d.x + -(ny / w) * ray.d.y + -(nz / w) * ray.d.z = -(d0 / w) := by rw [hdn]; field_simp; ring
      rw [this]; exact neg_neg_of_pos (div_pos hd0 hwpos)


/-- **`toi_units`, Triangle (3-D)** (rays not lying in the triangle's plane). -/
theorem triangle_toi_units (s : Triangle3 K) (ray : Ray3 K) (l max : K) (solid : Bool) (hl : 0 < l) :
    letI := fieldNum K sq
    ¬ (triD sq s.a s.b s.c ray = 0 ∧ triT sq s.a s.b s.c ray = 0) →
    (s.castLocalRayAndGetNormal ⟨ray.o, ray.d.smul l⟩ (max / l) solid).map (·.toi)
      = ((s.castLocalRayAndGetNormal ray max solid).map (·.toi)).map (· / l) := by
  intro hnc
  have hD : triD sq s.a s.b s.c ⟨ray.o, @V3.smul K (fieldNum K sq) ray.d l⟩ = l * triD sq s.a s.b s.c ray := by
    simp only [triD, triN, V3.dot, V3.smul, V3.cross, V3.sub]; ring
  have hT : triT sq s.a s.b s.c ⟨ray.o, @V3.smul K (fieldNum K sq) ray.d l⟩ = triT sq s.a s.b s.c ray := rfl
  have hnc' : ¬ (triD sq s.a s.b s.c ⟨ray.o, @V3.smul K (fieldNum K sq) ray.d l⟩ = 0 ∧
      triT sq s.a s.b s.c ⟨ray.o, @V3.smul K (fieldNum K sq) ray.d l⟩ = 0) := by
    rw [hD, hT]; rintro ⟨h1, h2⟩
    rcases mul_eq_zero.1 h1 with h | h
    · exact absurd h (ne_of_gt hl)
    · exact hnc ⟨h, h2⟩
  exact toi_units_of_firstHit sq _ ray l max hl _ _ (triangle_cast_firstHit_partial sq s ray max solid hnc)
    (triangle_cast_firstHit_partial sq s ⟨ray.o, @V3.smul K (fieldNum K sq) ray.d l⟩ (max / l) solid hnc')

/-- non-vacuity (triangle): a ray of direction length 3 crossing the plane of the unit right triangle (`n·d = −3 ≠ 0`) -/
example : ¬ (triD id (⟨0,0,0⟩ : V3 ℚ) ⟨1,0,0⟩ ⟨0,1,0⟩ ⟨⟨1/4,1/4,2⟩, ⟨0,0,-3⟩⟩ = 0 ∧
    triT id (⟨0,0,0⟩ : V3 ℚ) ⟨1,0,0⟩ ⟨0,1,0⟩ ⟨⟨1/4,1/4,2⟩, ⟨0,0,-3⟩⟩ = 0) := by
  simp only [triD, triT, triN, V3.dot, V3.cross, V3.sub]; norm_num

/-! ## Aabb / Cuboid, time only (`Aabb::cast_local_ray`, `max_toi` handling corrected) -/

/-- **Aabb::cast_local_ray, `solid = true`** (corrected `max_toi` handling), any non-zero or zero direction with zero
components allowed, `0 ≤ max_toi ≤ Real::MAX`: the result is the first parameter of `[0, max_toi]` in the box;
`None` ⇒ the segment misses the box. -/
theorem aabb_cast_solid_firstHit (big : K) (b : Aabb K) (ray : Ray3 K) (max : K) (hv : AabbValid b)
    (hmax0 : 0 ≤ max) (hmaxb : max ≤ big) :
    letI := fieldNum K sq
    FirstHit (AabbMem b) (rayPt sq ray) max (b.castLocalRay big ray max true) := by
  rcases aabb_cast_cases sq big b ray max true hv (le_trans hmax0 hmaxb) with ⟨st, inv, hres⟩ | ⟨hres, hno⟩
  · rw [hres]
    simp only [Bool.true_eq_false, and_false, if_false]
    by_cases hm : st.1 ≤ max
    · rw [if_pos hm]
      refine ⟨inv.lo, hm, (inv.iff _ inv.lo (le_trans hm hmaxb)).2 ⟨le_refl _, inv.le⟩, ?_⟩
      intro s hs hst hmem
      have := (inv.iff s hs (le_trans hst.le (le_trans hm hmaxb))).1 hmem
      linarith [this.1]
    · rw [if_neg hm]
      intro s hs hsm hmem
      have := (inv.iff s hs (le_trans hsm hmaxb)).1 hmem
      exact hm (le_trans this.1 hsm)
  · rw [hres]
    exact fun s hs hsm => hno s hs (le_trans hsm hmaxb)

/-- **Aabb::cast_local_ray, origin outside the box (both `solid` flags).** First hit as above; moreover a reported hit has
`t > 0` and lies on a face plane (so on the boundary of the box). -/
theorem aabb_cast_outside_firstHit (big : K) (b : Aabb K) (ray : Ray3 K) (max : K) (solid : Bool) (hv : AabbValid b)
    (hmax0 : 0 ≤ max) (hmaxb : max ≤ big) :
    letI := fieldNum K sq
    ¬ AabbMem b ray.o →
    FirstHit (AabbMem b) (rayPt sq ray) max (b.castLocalRay big ray max solid) ∧
    ∀ t, b.castLocalRay big ray max solid = some t → 0 < t ∧ OnFace b (rayPt sq ray t) := by
  intro hout
  have hbig := le_trans hmax0 hmaxb
  rcases aabb_cast_cases sq big b ray max solid hv hbig with ⟨st, inv, hres⟩ | ⟨hres, hno⟩
  · -- tmin ≠ 0 because the origin is outside
    have h0 : st.1 ≠ 0 := by
      intro h
      apply hout
      have := (inv.iff 0 (le_refl _) hbig).2 ⟨by rw [h], by rw [← h]; exact inv.le⟩
      rwa [rayPt_zero] at this
    have hpos : 0 < st.1 := lt_of_le_of_ne inv.lo (Ne.symm h0)
    have hc : ¬ (st.1 = 0 ∧ solid = false) := fun h => h0 h.1
    have he : (if st.1 = 0 ∧ solid = false then st.2 else st.1) = st.1 := if_neg hc
    rw [hres, he]
    by_cases hm : st.1 ≤ max
    · rw [if_pos hm]
      refine ⟨⟨inv.lo, hm, (inv.iff _ inv.lo (le_trans hm hmaxb)).2 ⟨le_refl _, inv.le⟩, ?_⟩, ?_⟩
      · intro s hs hst hmem
        have := (inv.iff s hs (le_trans hst.le (le_trans hm hmaxb))).1 hmem
        linarith [this.1]
      · intro t ht; cases ht
        exact ⟨hpos, inv.fmin.resolve_left h0⟩
    · rw [if_neg hm]
      refine ⟨?_, fun t ht => by cases ht⟩
      intro s hs hsm hmem
      have := (inv.iff s hs (le_trans hsm hmaxb)).1 hmem
      exact hm (le_trans this.1 hsm)
  · rw [hres]
    exact ⟨fun s hs hsm => hno s hs (le_trans hsm hmaxb), fun t ht => by cases ht⟩

/-- **Aabb::cast_local_ray, `solid = false`, origin in the box** (corrected): `Some t` ⇒ `t ≤ max_toi`, `t` is the exit
parameter — `[0,t]` is in the box, nothing of `(t, Real::MAX]` is — and, unless `t` is the `Real::MAX` sentinel, the
hit point lies on a face plane. `None` ⇒ the exit is beyond `max_toi`: the whole segment stays in the box.
(On the pinned tree the `None` case returns `Some(max_toi)`: see `aabb_castLocalRayPinned_counterexample`.) -/
theorem aabb_cast_nonsolid_inside (big : K) (b : Aabb K) (ray : Ray3 K) (max : K) (hv : AabbValid b)
    (hmax0 : 0 ≤ max) (hmaxb : max ≤ big) :
    letI := fieldNum K sq
    AabbMem b ray.o →
    match b.castLocalRay big ray max false with
    | some t => t ≤ max ∧ AabbMem b (rayPt sq ray t) ∧ (t < big → OnFace b (rayPt sq ray t)) ∧
        (∀ s, 0 ≤ s → s ≤ t → AabbMem b (rayPt sq ray s)) ∧ (∀ s, t < s → s ≤ big → ¬ AabbMem b (rayPt sq ray s))
    | none => ∀ s, 0 ≤ s → s ≤ max → AabbMem b (rayPt sq ray s) := by
  intro hin
  have hbig := le_trans hmax0 hmaxb
  rcases aabb_cast_cases sq big b ray max false hv hbig with ⟨st, inv, hres⟩ | ⟨hres, hno⟩
  · have h0 : st.1 = 0 := by
      have hm : AabbMem b (rayPt sq ray 0) := by rw [rayPt_zero]; exact hin
      have := (inv.iff 0 (le_refl _) hbig).1 hm
      exact le_antisymm this.1 inv.lo
    have he : (if st.1 = 0 ∧ false = false then st.2 else st.1) = st.2 := if_pos ⟨h0, rfl⟩
    rw [hres, he]
    by_cases hm : st.2 ≤ max
    · rw [if_pos hm]
      have h02 : 0 ≤ st.2 := by rw [← h0]; exact inv.le
      refine ⟨hm, (inv.iff _ h02 inv.hi).2 ⟨inv.le, le_refl _⟩, fun hlt => inv.fmax.resolve_left (ne_of_lt hlt), ?_, ?_⟩
      · intro s hs hst
        exact (inv.iff s hs (le_trans hst inv.hi)).2 ⟨by rw [h0]; exact hs, hst⟩
      · intro s hst hsb hmem
        have := (inv.iff s (le_trans h02 hst.le) hsb).1 hmem
        linarith [this.2]
    · rw [if_neg hm]
      intro s hs hsm
      push Not at hm
      exact (inv.iff s hs (le_trans hsm hmaxb)).2 ⟨by rw [h0]; exact hs, le_trans hsm hm.le⟩
  · exfalso
    exact hno 0 (le_refl _) hbig (by rw [rayPt_zero]; exact hin)

/-- **The pinned `Aabb::cast_local_ray` violates the property** (machine-checked witness over `ℚ`): unit cube `[-1,1]³`,
origin at the centre, direction `(1,0,0)`, `max_toi = 1/2`, `solid = false` ⇒ the pinned code returns `Some(1/2)`, a point
strictly inside the box (on no face plane), although the exit is at `1 > max_toi`. The corrected model returns `None`. -/
theorem aabb_castLocalRayPinned_counterexample :
    letI := fieldNum ℚ id
    (Aabb.mk ⟨-1,-1,-1⟩ ⟨1,1,1⟩ : Aabb ℚ).castLocalRayPinned ⟨⟨0,0,0⟩, ⟨1,0,0⟩⟩ (1/2) false = some (1/2) ∧
    ¬ OnFace (Aabb.mk ⟨-1,-1,-1⟩ ⟨1,1,1⟩ : Aabb ℚ) (rayPt id ⟨⟨0,0,0⟩, ⟨1,0,0⟩⟩ (1/2)) ∧
    (Aabb.mk ⟨-1,-1,-1⟩ ⟨1,1,1⟩ : Aabb ℚ).castLocalRay 1000 ⟨⟨0,0,0⟩, ⟨1,0,0⟩⟩ (1/2) false = none := by
  refine ⟨?_, ?_, ?_⟩
  · simp only [Aabb.castLocalRayPinned, slabStep, neq, nmax, nmin]
    norm_num
  · simp only [OnFace, rayPt, Ray3.pointAt, V3.add, V3.smul]; norm_num
  · simp only [Aabb.castLocalRay, slabStep, neq, nmax, nmin]
    norm_num

/-- **Cuboid::cast_local_ray, solid** (`Cuboid` = `Aabb(−he, he)`), non-negative half-extents: first hit of the cuboid
`{p | |p_i| ≤ he_i}` (`Cuboid3.Mem` of `Shapes.lean`). -/
theorem cuboid_cast_solid_firstHit (big : K) (s : Cuboid3 K) (ray : Ray3 K) (max : K)
    (hhe : 0 ≤ s.he.x ∧ 0 ≤ s.he.y ∧ 0 ≤ s.he.z) (hmax0 : 0 ≤ max) (hmaxb : max ≤ big) :
    letI := fieldNum K sq
    FirstHit s.Mem (rayPt sq ray) max (s.castLocalRay big ray max true) := by
  have hv : AabbValid (⟨@V3.neg K (fieldNum K sq) s.he, s.he⟩ : Aabb K) := by
    simp only [AabbValid, V3.neg]; refine ⟨?_, ?_, ?_⟩ <;> linarith [hhe.1, hhe.2.1, hhe.2.2]
  exact aabb_cast_solid_firstHit sq big _ ray max hv hmax0 hmaxb

/-- **`toi_units`, Aabb/Cuboid (solid)**: casting along `l·d` with `max/l` divides the time by `l`
(both bounds below the `Real::MAX` sentinel). -/
theorem aabb_toi_units (big : K) (b : Aabb K) (ray : Ray3 K) (l max : K) (hl : 0 < l) (hv : AabbValid b)
    (hmax0 : 0 ≤ max) (hmaxb : max ≤ big) (hmaxb' : max / l ≤ big) :
    letI := fieldNum K sq
    b.castLocalRay big ⟨ray.o, ray.d.smul l⟩ (max / l) true = (b.castLocalRay big ray max true).map (· / l) :=
  toi_units_of_firstHit sq _ ray l max hl _ _ (aabb_cast_solid_firstHit sq big b ray max hv hmax0 hmaxb)
    (aabb_cast_solid_firstHit sq big b ⟨ray.o, @V3.smul K (fieldNum K sq) ray.d l⟩ (max / l) hv (div_nonneg hmax0 hl.le) hmaxb')

/-- non-vacuity (box): a valid box, an origin inside and one outside, `0 ≤ max ≤ big`, over `ℚ` -/
example : AabbValid (⟨⟨-1,-2,-3⟩, ⟨1,2,3⟩⟩ : Aabb ℚ) ∧ AabbMem (⟨⟨-1,-2,-3⟩, ⟨1,2,3⟩⟩ : Aabb ℚ) ⟨1/2, 0, -3⟩ ∧
    ¬ AabbMem (⟨⟨-1,-2,-3⟩, ⟨1,2,3⟩⟩ : Aabb ℚ) ⟨5, 0, 0⟩ ∧ (0:ℚ) ≤ 10 ∧ (10:ℚ) ≤ 1000 := by
  simp only [AabbValid, AabbMem]; norm_num

/-! ## Aabb / Cuboid with normal (`clip_aabb_line`, `ray_aabb`) -/

/-- an outward face normal is a unit vector strictly facing the ray -/
theorem outwardFaceNormal_facing (b : Aabb K) (ray : Ray3 K) (t : K) (n : V3 K) (h : OutwardFaceNormal sq b ray t n) :
    letI := fieldNum K sq
    n.normSq = 1 ∧ n.dot ray.d < 0 ∧ OnFace b (rayPt sq ray t) := by
  unfold OnFace
  rcases h with ⟨rfl, h1, h2⟩ | ⟨rfl, h1, h2⟩ | ⟨rfl, h1, h2⟩ | ⟨rfl, h1, h2⟩ | ⟨rfl, h1, h2⟩ | ⟨rfl, h1, h2⟩ <;>
    simp only [V3.normSq, V3.dot] <;> refine ⟨by ring, by linarith, ?_⟩ <;> simp [h2]

/-- **`clip_aabb_line`, full line.** Non-degenerate box, `big = Real::MAX ≥ 0`: `Some(near, far)` ⇒ on `[−big, big]` the
line `o + s·d` is in the box exactly for `near.t ≤ s ≤ far.t` (and `near.t ≤ far.t`) — also when the box lies entirely
behind the origin (`far.t < 0`), which the function now reports instead of bailing out; `None` ⇒ no parameter of
`[−big, big]` is in the box (the line misses it). -/
theorem clip_aabb_line_spec (big : K) (b : Aabb K) (ray : Ray3 K) (hv : AabbStrict b) (hbig : 0 ≤ big) :
    letI := fieldNum K sq
    match clipAabbLine big b ray.o ray.d with
    | .some near far => near.t ≤ far.t ∧
        ∀ s, -big ≤ s → s ≤ big → (AabbMem b (rayPt sq ray s) ↔ near.t ≤ s ∧ s ≤ far.t)
    | .none => ∀ s, -big ≤ s → s ≤ big → ¬ AabbMem b (rayPt sq ray s) := by
  rcases clip_cases sq big b ray hv hbig with ⟨st, inv, hclip⟩ | ⟨hclip, hno⟩
  · rw [hclip]; exact ⟨inv.le, inv.iff⟩
  · rw [hclip]; exact hno

/-- **Aabb::cast_local_ray_and_get_normal (`ray_aabb` over `clip_aabb_line`), `solid = true`.** Non-degenerate box,
`0 ≤ max_toi ≤ Real::MAX`, any direction (zero components, even the zero vector, allowed — the function no longer
panics): the reported time is the first parameter of `[0, max_toi]` in the box; `None` (which now includes the
`far < 0` test made by `ray_aabb` itself) ⇒ the segment misses the box. -/
theorem aabb_normalCast_solid_firstHit (big : K) (b : Aabb K) (ray : Ray3 K) (max : K) (hv : AabbStrict b)
    (hmax0 : 0 ≤ max) (hmaxb : max ≤ big) :
    letI := fieldNum K sq
    FirstHit (AabbMem b) (rayPt sq ray) max ((b.castLocalRayAndGetNormal big ray max true).map (·.toi)) := by
  have hbig := le_trans hmax0 hmaxb
  rcases aabbN_cases sq big b ray max true hv hbig with ⟨st, inv, hc⟩ | ⟨hr, hno⟩
  · have inR : ∀ s, 0 ≤ s → s ≤ max → (AabbMem b (rayPt sq ray s) ↔ st.tmin ≤ s ∧ s ≤ st.tmax) := fun s h1 h2 =>
      inv.iff s (le_trans (neg_nonpos.2 hbig) h1) (le_trans h2 hmaxb)
    rcases hc with ⟨h0, hr⟩ | ⟨h0, h1, _, h, hr, ht⟩ | ⟨_, _, hs, _⟩ | ⟨_, _, hs, _⟩ | ⟨h0, h1, h2, h, hr, ht, _⟩ | ⟨h0, h1, h2, hr⟩
    · rw [hr]
      intro s a c hm
      have := (inR s a c).1 hm
      linarith [this.2]
    · rw [hr]; simp only [Option.map_some, ht]
      exact ⟨le_refl _, hmax0, (inR 0 (le_refl _) hmax0).2 ⟨h1.le, h0⟩, fun s a c => absurd c (not_lt.2 a)⟩
    · cases hs
    · cases hs
    · rw [hr]; simp only [Option.map_some, ht]
      refine ⟨h1, h2, (inR _ h1 h2).2 ⟨le_refl _, inv.le⟩, fun s a c hm => ?_⟩
      have := (inR s a (le_trans c.le h2)).1 hm
      linarith [this.1]
    · rw [hr]
      intro s a c hm
      have := (inR s a c).1 hm
      linarith [this.1]
  · rw [hr]
    exact fun s a c => hno s (le_trans (neg_nonpos.2 hbig) a) (le_trans c hmaxb)

/-- **Aabb::cast_local_ray_and_get_normal, origin outside the box (both `solid` flags).** First hit as above; a reported
hit has `t > 0`, and its normal is either the outward unit normal `∓e_i` of a face plane through the hit point with the
ray moving against it (so `n·d < 0`), or — when two slabs tie (edge/corner hit, `near_diag`) — the code's choice
`−dir/|dir|`. -/
theorem aabb_normalCast_outside (big : K) (b : Aabb K) (ray : Ray3 K) (max : K) (solid : Bool) (hv : AabbStrict b)
    (hmax0 : 0 ≤ max) (hmaxb : max ≤ big) :
    letI := fieldNum K sq
    ¬ AabbMem b ray.o →
    FirstHit (AabbMem b) (rayPt sq ray) max ((b.castLocalRayAndGetNormal big ray max solid).map (·.toi)) ∧
    ∀ h, b.castLocalRayAndGetNormal big ray max solid = some h →
      0 < h.toi ∧ (OutwardFaceNormal sq b ray h.toi h.n ∨ h.n = ray.d.normalize.neg) := by
  intro hout
  have hbig := le_trans hmax0 hmaxb
  rcases aabbN_cases sq big b ray max solid hv hbig with ⟨st, inv, hc⟩ | ⟨hr, hno⟩
  · have inR : ∀ s, 0 ≤ s → s ≤ max → (AabbMem b (rayPt sq ray s) ↔ st.tmin ≤ s ∧ s ≤ st.tmax) := fun s h1 h2 =>
      inv.iff s (le_trans (neg_nonpos.2 hbig) h1) (le_trans h2 hmaxb)
    -- origin outside ⇒ not (tmin ≤ 0 ≤ tmax)
    have hpos : 0 ≤ st.tmax → 0 < st.tmin := by
      intro h0
      by_contra hc'; push Not at hc'
      apply hout
      have := (inR 0 (le_refl _) hmax0).2 ⟨hc', h0⟩
      rwa [rayPt_zero] at this
    rcases hc with ⟨h0, hr⟩ | ⟨h0, h1, _⟩ | ⟨h0, h1, _⟩ | ⟨h0, h1, _⟩ | ⟨h0, h1, h2, h, hr, ht, hn⟩ | ⟨h0, h1, h2, hr⟩
    · rw [hr]
      exact ⟨fun s a c hm => by have := (inR s a c).1 hm; linarith [this.2], fun h hh => by cases hh⟩
    · linarith [hpos h0]
    · linarith [hpos h0]
    · linarith [hpos h0]
    · rw [hr]
      refine ⟨?_, ?_⟩
      · simp only [Option.map_some, ht]
        refine ⟨h1, h2, (inR _ h1 h2).2 ⟨le_refl _, inv.le⟩, fun s a c hm => ?_⟩
        have := (inR s a (le_trans c.le h2)).1 hm
        linarith [this.1]
      · intro h' hh; cases hh
        refine ⟨by rw [ht]; exact hpos h0, ?_⟩
        rw [hn, ht]
        cases hdiag : st.nearDiag with
        | true => right; simp only [clipNearN, hdiag, if_true]
        | false =>
          left
          have hok : NearOK b ray st.nearSide st.tmin := by
            rcases inv.nside with ⟨_, hm⟩ | h
            · have := hpos h0; rw [hm] at this; linarith
            · exact h
          exact clipNearN_outward sq b ray st hdiag hok
    · rw [hr]
      exact ⟨fun s a c hm => by have := (inR s a c).1 hm; linarith [this.1], fun h hh => by cases hh⟩
  · rw [hr]
    exact ⟨fun s a c => hno s (le_trans (neg_nonpos.2 hbig) a) (le_trans c hmaxb), fun h hh => by cases hh⟩

/-- **Aabb::cast_local_ray_and_get_normal, `solid = false`, origin in the box.** `Some h` ⇒ `h.toi ≤ max_toi`, the point
is in the box, and either `h.toi = 0` (origin on the boundary, ray entering: this form reports the origin itself) or
`h.toi` is the exit parameter (`[0,toi]` inside, nothing of `(toi, Real::MAX]` inside). `None` ⇒ the whole segment
`[0,max_toi]` stays in the box (exit beyond `max_toi`). -/
theorem aabb_normalCast_nonsolid_inside (big : K) (b : Aabb K) (ray : Ray3 K) (max : K) (hv : AabbStrict b)
    (hmax0 : 0 ≤ max) (hmaxb : max ≤ big) :
    letI := fieldNum K sq
    AabbMem b ray.o →
    match b.castLocalRayAndGetNormal big ray max false with
    | some h => h.toi ≤ max ∧ AabbMem b (rayPt sq ray h.toi) ∧
        (h.toi = 0 ∨ ((∀ s, 0 ≤ s → s ≤ h.toi → AabbMem b (rayPt sq ray s)) ∧
                      ∀ s, h.toi < s → s ≤ big → ¬ AabbMem b (rayPt sq ray s)))
    | none => ∀ s, 0 ≤ s → s ≤ max → AabbMem b (rayPt sq ray s) := by
  intro hin
  have hbig := le_trans hmax0 hmaxb
  have hm0 : AabbMem b (rayPt sq ray 0) := by rw [rayPt_zero]; exact hin
  rcases aabbN_cases sq big b ray max false hv hbig with ⟨st, inv, hc⟩ | ⟨hr, hno⟩
  · have inB : ∀ s, 0 ≤ s → s ≤ big → (AabbMem b (rayPt sq ray s) ↔ st.tmin ≤ s ∧ s ≤ st.tmax) := fun s h1 h2 =>
      inv.iff s (le_trans (neg_nonpos.2 hbig) h1) h2
    have h00 := (inB 0 (le_refl _) hbig).1 hm0
    rcases hc with ⟨h0, _⟩ | ⟨_, _, hs, _⟩ | ⟨h0, h1, _, h2, h, hr, ht, _⟩ | ⟨h0, h1, _, h2, hr⟩ | ⟨h0, h1, h2, h, hr, ht, _⟩ | ⟨h0, h1, h2, hr⟩
    · linarith [h00.2]
    · cases hs
    · rw [hr]; simp only [ht]
      refine ⟨h2, (inB _ h0 inv.hi).2 ⟨inv.le, le_refl _⟩, Or.inr ⟨fun s a c => ?_, fun s a c hm => ?_⟩⟩
      · exact (inB s a (le_trans c inv.hi)).2 ⟨le_trans h00.1 a, c⟩
      · have := (inB s (le_trans h0 a.le) c).1 hm
        linarith [this.2]
    · rw [hr]
      intro s a c
      exact (inB s a (le_trans c hmaxb)).2 ⟨le_trans h00.1 a, le_trans c h2.le⟩
    · have e : st.tmin = 0 := le_antisymm h00.1 h1
      rw [hr]; simp only [ht, e]
      exact ⟨hmax0, hm0, Or.inl trivial⟩
    · linarith [h00.1]
  · exfalso
    exact hno 0 (neg_nonpos.2 hbig) hbig hm0

/-- the edge/corner ("diag") normal `−dir/|dir|` is a unit vector facing the ray (lawful square root, `dir ≠ 0`) -/
theorem diag_normal_facing (hs : LawfulSqrt sq) (d : V3 K) :
    letI := fieldNum K sq
    0 < d.normSq → d.normalize.neg.normSq = 1 ∧ d.normalize.neg.dot d < 0 := by
  intro hd
  have hw0 := hs.nonneg _ hd.le
  have hww := hs.sq_mul _ hd.le
  have hn : @V3.norm K (fieldNum K sq) d = sq (@V3.normSq K (fieldNum K sq) d) := rfl
  simp only [V3.normalize, hn]
  generalize sq (@V3.normSq K (fieldNum K sq) d) = w at *
  have hwpos : 0 < w := by
    rcases eq_or_lt_of_le hw0 with h | h
    · rw [← h] at hww; linarith
    · exact h
  have hne : w ≠ 0 := ne_of_gt hwpos
  obtain ⟨x, y, z⟩ := d
  simp only [V3.normSq, V3.dot, V3.neg, V3.sdiv] at *
  constructor
  · field_simp; linarith
  · have : -(x / w) * x + -(y / w) * y + -(z / w) * z = -((x * x + y * y + z * z) / w) := by field_simp; ring
    rw [this]; exact neg_neg_of_pos (div_pos hd hwpos)

/-! ## Segment, 2-D (`Segment::cast_local_ray_and_get_normal`, `closest_points_line_line_parameters_eps`) -/

/-- **Segment (2-D) cast, non-parallel branch**: ray direction and segment longer than `√ε`, and `ε < |d|²|e|² − (d·e)²`
(so the code does not declare the lines parallel). For every `max_toi` and any non-unit direction the reported time is the
first (indeed the only) parameter of `[0,max_toi]` at which the ray is on the segment; `None` ⇒ the ray segment misses it. -/
theorem segment2_cast_nonparallel_firstHit (s : Segment2 K) (ray : Ray2 K) (max : K) (solid : Bool) :
    letI := fieldNum K sq
    letI := fieldUlps K
    epsK K < ray.d.normSq → epsK K < (s.b.sub s.a).normSq →
    epsK K < ray.d.normSq * (s.b.sub s.a).normSq - ray.d.dot (s.b.sub s.a) * ray.d.dot (s.b.sub s.a) →
    FirstHit s.Mem (rayPt2 sq ray) max ((s.castLocalRayAndGetNormal ray max solid).map (·.toi)) := by
  intro ha he hden
  have hcp := cp_nonparallel sq ray.o ray.d s.a (@V2.sub K (fieldNum K sq) s.b s.a) ha he hden
  simp only [Segment2.castLocalRayAndGetNormal, hcp, Bool.false_eq_true, if_false]
  have hden0 : @V2.normSq K (fieldNum K sq) ray.d * @V2.normSq K (fieldNum K sq) (@V2.sub K (fieldNum K sq) s.b s.a)
      - @V2.dot K (fieldNum K sq) ray.d (@V2.sub K (fieldNum K sq) s.b s.a) * @V2.dot K (fieldNum K sq) ray.d (@V2.sub K (fieldNum K sq) s.b s.a) ≠ 0 :=
    ne_of_gt (lt_trans epsK_pos hden)
  have he0 : @V2.normSq K (fieldNum K sq) (@V2.sub K (fieldNum K sq) s.b s.a) ≠ 0 := ne_of_gt (lt_trans epsK_pos he)
  have hpt := seg_nonparallel_point sq s.a s.b ray _ _ hden0 he0 rfl rfl
  have hperp : perp2 ray.d (@V2.sub K (fieldNum K sq) s.b s.a) ≠ 0 := by
    intro h
    apply hden0
    rw [← perp2_sq sq, h, mul_zero]
  generalize hsp : (@V2.dot K (fieldNum K sq) ray.d (@V2.sub K (fieldNum K sq) s.b s.a) * @V2.dot K (fieldNum K sq) (@V2.sub K (fieldNum K sq) s.b s.a) (@V2.sub K (fieldNum K sq) ray.o s.a)
      - @V2.dot K (fieldNum K sq) ray.d (@V2.sub K (fieldNum K sq) ray.o s.a) * @V2.normSq K (fieldNum K sq) (@V2.sub K (fieldNum K sq) s.b s.a)) /
      (@V2.normSq K (fieldNum K sq) ray.d * @V2.normSq K (fieldNum K sq) (@V2.sub K (fieldNum K sq) s.b s.a)
      - @V2.dot K (fieldNum K sq) ray.d (@V2.sub K (fieldNum K sq) s.b s.a) * @V2.dot K (fieldNum K sq) ray.d (@V2.sub K (fieldNum K sq) s.b s.a)) = sp at *
  generalize htp : (@V2.dot K (fieldNum K sq) ray.d (@V2.sub K (fieldNum K sq) s.b s.a) * sp
      + @V2.dot K (fieldNum K sq) (@V2.sub K (fieldNum K sq) s.b s.a) (@V2.sub K (fieldNum K sq) ray.o s.a)) / @V2.normSq K (fieldNum K sq) (@V2.sub K (fieldNum K sq) s.b s.a) = tp at *
  -- any parameter on the segment equals sp, with segment coordinate tp
  have huniq : ∀ u t, rayPt2 sq ray u = @V2.add K (fieldNum K sq) s.a (@V2.smul K (fieldNum K sq) (@V2.sub K (fieldNum K sq) s.b s.a) t) → u = sp ∧ t = tp := by
    intro u t hu
    obtain ⟨e1, e2⟩ := seg_mem_facts sq s.a s.b ray u t hu
    obtain ⟨f1, f2⟩ := seg_mem_facts sq s.a s.b ray sp tp hpt
    constructor
    · have : (u - sp) * perp2 ray.d (@V2.sub K (fieldNum K sq) s.b s.a) = 0 := by linear_combination e1 - f1
      rcases mul_eq_zero.1 this with h | h
      · linarith
      · exact absurd h hperp
    · have : (t - tp) * perp2 ray.d (@V2.sub K (fieldNum K sq) s.b s.a) = 0 := by linear_combination e2 - f2
      rcases mul_eq_zero.1 this with h | h
      · linarith
      · exact absurd h hperp
  by_cases hc : 0 ≤ sp ∧ sp ≤ max ∧ 0 ≤ tp ∧ tp ≤ 1
  · rw [if_pos hc]
    have : ∀ (x y : Hit2 K) (c : Prop) [Decidable c], x.toi = sp → y.toi = sp → Option.map (fun h : Hit2 K => h.toi) (if c then some x else some y) = some sp := by
      intro x y c _ hx hy; split_ifs <;> simp [hx, hy]
    rw [this _ _ _ rfl rfl]
    refine ⟨hc.1, hc.2.1, ⟨tp, hc.2.2.1, hc.2.2.2, hpt⟩, ?_⟩
    intro u _ hut ⟨t, _, _, hu⟩
    exact absurd (huniq u t hu).1 (ne_of_lt hut)
  · rw [if_neg hc]
    intro u hu hum ⟨t, ht0, ht1, hmem⟩
    obtain ⟨rfl, rfl⟩ := huniq u t hmem
    exact hc ⟨hu, hum, ht0, ht1⟩


/-- **Segment (2-D) cast, parallel and off the line.** Direction and segment longer than `√ε`, exactly parallel
(`d × e = 0`), origin at distance `≥ ε` from the segment's line (`ε²|e|² ≤ ((o−a)×e)²`): the cast returns `None` and
indeed no point of the whole line through the ray is on the segment. -/
theorem segment2_cast_parallel_offline (hs : LawfulSqrt sq) (s : Segment2 K) (ray : Ray2 K) (max : K) (solid : Bool) :
    letI := fieldNum K sq
    letI := fieldUlps K
    epsK K < ray.d.normSq → epsK K < (s.b.sub s.a).normSq → perp2 ray.d (s.b.sub s.a) = 0 →
    epsK K * epsK K * (s.b.sub s.a).normSq ≤ perp2 (ray.o.sub s.a) (s.b.sub s.a) * perp2 (ray.o.sub s.a) (s.b.sub s.a) →
    s.castLocalRayAndGetNormal ray max solid = none ∧ ∀ u, ¬ s.Mem (rayPt2 sq ray u) := by
  intro ha he hchi hoff
  have hden : @V2.normSq K (fieldNum K sq) ray.d * @V2.normSq K (fieldNum K sq) (@V2.sub K (fieldNum K sq) s.b s.a)
      - @V2.dot K (fieldNum K sq) ray.d (@V2.sub K (fieldNum K sq) s.b s.a) * @V2.dot K (fieldNum K sq) ray.d (@V2.sub K (fieldNum K sq) s.b s.a) ≤ epsK K := by
    rw [← perp2_sq sq, hchi, mul_zero]; exact epsK_pos.le
  have hpar := cp_parallel sq ray.o ray.d s.a _ ha he hden
  obtain ⟨w, hw, hww, hn⟩ := seg_normal_eq sq hs s he
  have hepos : 0 < @V2.normSq K (fieldNum K sq) (@V2.sub K (fieldNum K sq) s.b s.a) := lt_trans epsK_pos he
  have hpne : perp2 (@V2.sub K (fieldNum K sq) ray.o s.a) (@V2.sub K (fieldNum K sq) s.b s.a) ≠ 0 := by
    intro h; rw [h, mul_zero] at hoff
    nlinarith [@epsK_pos K _ _ _, mul_pos (mul_pos (@epsK_pos K _ _ _) (@epsK_pos K _ _ _)) hepos]
  constructor
  · rw [seg_cast_parallel_eq sq s ray max solid hpar]
    simp only [hn, defaultEps_eq, fieldNum_nabs]
    have hdot : @V2.dot K (fieldNum K sq) (@V2.sub K (fieldNum K sq) s.a ray.o)
        ⟨(@V2.sub K (fieldNum K sq) s.b s.a).y / w, -(@V2.sub K (fieldNum K sq) s.b s.a).x / w⟩
        = perp2 (@V2.sub K (fieldNum K sq) ray.o s.a) (@V2.sub K (fieldNum K sq) s.b s.a) * (-1) / w := by
      simp only [V2.dot, V2.sub, perp2]; field_simp; ring
    rw [hdot]
    have : ¬ (|perp2 (@V2.sub K (fieldNum K sq) ray.o s.a) (@V2.sub K (fieldNum K sq) s.b s.a) * (-1) / w| < epsK K) := by
      rw [abs_div, abs_of_pos hw, not_lt, le_div_iff₀ hw, mul_neg_one, abs_neg]
      rw [← hww] at hoff
      have hp2 := abs_mul_abs_self (perp2 (@V2.sub K (fieldNum K sq) ray.o s.a) (@V2.sub K (fieldNum K sq) s.b s.a))
      have hp0 := abs_nonneg (perp2 (@V2.sub K (fieldNum K sq) ray.o s.a) (@V2.sub K (fieldNum K sq) s.b s.a))
      by_contra hc; push Not at hc
      nlinarith [mul_pos (@epsK_pos K _ _ _) hw]
    rw [if_neg this]
  · intro u ⟨t, _, _, hu⟩
    obtain ⟨e1, _⟩ := seg_mem_facts sq s.a s.b ray u t hu
    rw [hchi, mul_zero] at e1
    exact hpne (by linarith)

/-- **Segment (2-D) cast, collinear branch.** Direction and segment longer than `√ε`, exactly parallel and the origin
exactly on the segment's line: for every `max_toi ≥ 0` the reported time is the first parameter of `[0,max_toi]` on the
segment — the nearer end point when the segment is ahead, `0` when the origin is on the segment, `None` when it is behind
or farther than `max_toi`; times are in units of the (non-unit) direction: `toi = (end − o)·d / |d|²`. -/
theorem segment2_cast_collinear_firstHit (hs : LawfulSqrt sq) (s : Segment2 K) (ray : Ray2 K) (max : K) (solid : Bool)
    (hmax : 0 ≤ max) :
    letI := fieldNum K sq
    letI := fieldUlps K
    epsK K < ray.d.normSq → epsK K < (s.b.sub s.a).normSq → perp2 ray.d (s.b.sub s.a) = 0 →
    perp2 (ray.o.sub s.a) (s.b.sub s.a) = 0 →
    FirstHit s.Mem (rayPt2 sq ray) max ((s.castLocalRayAndGetNormal ray max solid).map (·.toi)) := by
  intro ha he hchi hon
  have hden : @V2.normSq K (fieldNum K sq) ray.d * @V2.normSq K (fieldNum K sq) (@V2.sub K (fieldNum K sq) s.b s.a)
      - @V2.dot K (fieldNum K sq) ray.d (@V2.sub K (fieldNum K sq) s.b s.a) * @V2.dot K (fieldNum K sq) ray.d (@V2.sub K (fieldNum K sq) s.b s.a) ≤ epsK K := by
    rw [← perp2_sq sq, hchi, mul_zero]; exact epsK_pos.le
  have hpar := cp_parallel sq ray.o ray.d s.a _ ha he hden
  obtain ⟨w, hw, hww, hn⟩ := seg_normal_eq sq hs s he
  have hdpos : 0 < @V2.normSq K (fieldNum K sq) ray.d := lt_trans epsK_pos ha
  have hepos : 0 < @V2.normSq K (fieldNum K sq) (@V2.sub K (fieldNum K sq) s.b s.a) := lt_trans epsK_pos he
  have col := fun u t => seg_collinear_iff sq s.a s.b ray u t hdpos hepos hchi hon
  -- e·d ≠ 0
  have hg : @V2.dot K (fieldNum K sq) (@V2.sub K (fieldNum K sq) s.b s.a) ray.d ≠ 0 := by
    intro h
    have h1 := perp2_sq sq ray.d (@V2.sub K (fieldNum K sq) s.b s.a)
    have h2 : @V2.dot K (fieldNum K sq) ray.d (@V2.sub K (fieldNum K sq) s.b s.a) = @V2.dot K (fieldNum K sq) (@V2.sub K (fieldNum K sq) s.b s.a) ray.d := by
      simp only [V2.dot]; ring
    rw [hchi, h2, h] at h1
    nlinarith [mul_pos hdpos hepos]
  rw [seg_cast_parallel_eq sq s ray max solid hpar]
  simp only [hn, defaultEps_eq, fieldNum_nabs, fieldNum_nmin]
  have hdot : @V2.dot K (fieldNum K sq) (@V2.sub K (fieldNum K sq) s.a ray.o)
      ⟨(@V2.sub K (fieldNum K sq) s.b s.a).y / w, -(@V2.sub K (fieldNum K sq) s.b s.a).x / w⟩ = 0 := by
    have : @V2.dot K (fieldNum K sq) (@V2.sub K (fieldNum K sq) s.a ray.o)
        ⟨(@V2.sub K (fieldNum K sq) s.b s.a).y / w, -(@V2.sub K (fieldNum K sq) s.b s.a).x / w⟩
        = perp2 (@V2.sub K (fieldNum K sq) ray.o s.a) (@V2.sub K (fieldNum K sq) s.b s.a) * (-1) / w := by
      simp only [V2.dot, V2.sub, perp2]; field_simp; ring
    rw [this, hon]; simp
  rw [hdot]
  simp only [abs_zero, epsK_pos, if_true]
  generalize hd1 : @V2.dot K (fieldNum K sq) (@V2.sub K (fieldNum K sq) s.a ray.o) ray.d = d1 at *
  generalize hgg : @V2.dot K (fieldNum K sq) (@V2.sub K (fieldNum K sq) s.b s.a) ray.d = g at *
  generalize hn2 : @V2.normSq K (fieldNum K sq) ray.d = n2 at *
  -- membership in terms of the coordinate along d
  have mem : ∀ u, @Segment2.Mem K (fieldNum K sq) s (rayPt2 sq ray u) ↔ ∃ t, 0 ≤ t ∧ t ≤ 1 ∧ u * n2 = d1 + t * g := by
    intro u
    constructor
    · rintro ⟨t, h0, h1, hp⟩; exact ⟨t, h0, h1, (col u t).1 hp⟩
    · rintro ⟨t, h0, h1, hp⟩; exact ⟨t, h0, h1, (col u t).2 hp⟩
  simp only [apply_ite (Option.map (fun h : Hit2 K => h.toi)), Option.map_some, Option.map_none]
  by_cases hA : 0 ≤ d1 ∧ 0 ≤ d1 + g
  · rw [if_pos hA]
    have hlow : ∀ u t, 0 ≤ t → t ≤ 1 → u * n2 = d1 + t * g → min d1 (d1 + g) ≤ u * n2 := by
      intro u t h0 h1 hu
      rw [hu]
      rcases le_total 0 g with hgs | hgs
      · exact le_trans (min_le_left _ _) (by nlinarith)
      · exact le_trans (min_le_right _ _) (by nlinarith)
    by_cases hM : max < min d1 (d1 + g) / n2
    · rw [if_pos hM]
      intro u hu hum hm
      obtain ⟨t, h0, h1, hp⟩ := (mem u).1 hm
      have := hlow u t h0 h1 hp
      rw [lt_div_iff₀ hdpos] at hM
      nlinarith
    · rw [if_neg hM]
      push Not at hM
      by_cases h12 : d1 ≤ d1 + g
      · rw [if_pos h12, min_eq_left h12] at *
        refine ⟨div_nonneg hA.1 hdpos.le, hM, (mem (d1 / n2)).2 ⟨0, le_refl _, zero_le_one, by field_simp; ring⟩, ?_⟩
        intro u hu hut hm
        obtain ⟨t, h0, h1, hp⟩ := (mem u).1 hm
        have := hlow u t h0 h1 hp
        rw [lt_div_iff₀ hdpos] at hut
        linarith
      · rw [if_neg h12]
        push Not at h12
        rw [min_eq_right h12.le] at *
        refine ⟨div_nonneg hA.2 hdpos.le, hM, (mem ((d1 + g) / n2)).2 ⟨1, zero_le_one, le_refl _, by field_simp⟩, ?_⟩
        intro u hu hut hm
        obtain ⟨t, h0, h1, hp⟩ := (mem u).1 hm
        have := hlow u t h0 h1 hp
        rw [lt_div_iff₀ hdpos] at hut
        linarith
  · rw [if_neg hA]
    by_cases hB : 0 ≤ d1 ∨ 0 ≤ d1 + g
    · rw [if_pos hB]
      refine ⟨le_refl _, hmax, (mem 0).2 ?_, fun u hu hu0 => absurd hu0 (not_lt.2 hu)⟩
      refine ⟨-d1 / g, ?_, ?_, by field_simp; ring⟩
      · rcases hB with h | h
        · have hg2 : d1 + g < 0 := by by_contra hc; push Not at hc; exact hA ⟨h, hc⟩
          have : g < 0 := by linarith
          exact div_nonneg_of_nonpos (by linarith) this.le
        · have hd : d1 < 0 := by by_contra hc; push Not at hc; exact hA ⟨hc, h⟩
          have : 0 < g := by linarith
          exact div_nonneg (by linarith) this.le
      · rcases hB with h | h
        · have hg2 : d1 + g < 0 := by by_contra hc; push Not at hc; exact hA ⟨h, hc⟩
          have : g < 0 := by linarith
          rw [div_le_one_of_neg this]; linarith
        · have hd : d1 < 0 := by by_contra hc; push Not at hc; exact hA ⟨hc, h⟩
          have : 0 < g := by linarith
          rw [div_le_one this]; linarith
    · rw [if_neg hB]
      push Not at hB
      intro u hu _ hm
      obtain ⟨t, h0, h1, hp⟩ := (mem u).1 hm
      have h3 : 0 ≤ u * n2 := mul_nonneg hu hdpos.le
      have h4 : d1 + t * g < 0 := by
        have e : d1 + t * g = (1 - t) * d1 + t * (d1 + g) := by ring
        rw [e]
        rcases eq_or_lt_of_le h0 with ht | ht
        · rw [← ht]; simp; exact hB.1
        · nlinarith [mul_neg_of_pos_of_neg ht hB.2, mul_nonneg (sub_nonneg.2 h1) (neg_nonneg.2 hB.1.le)]
      linarith


/-- the full-strength statement for the 2-D segment (no side conditions). It is **false** for the code: lines with
`0 < |d|²|e|² sin²θ ≤ ε` are declared parallel (absolute threshold, scale dependent — KNOWN_FINDINGS) and origins closer
than `ε` to the line are declared collinear. The three theorems above cover every other configuration. -/
def segment2_cast_firstHit_full : Prop :=
  ∀ (s : Segment2 K) (ray : Ray2 K) (max : K) (solid : Bool),
    letI := fieldNum K sq
    letI := fieldUlps K
    0 ≤ max → FirstHit s.Mem (rayPt2 sq ray) max ((s.castLocalRayAndGetNormal ray max solid).map (·.toi))

/-- **Segment (2-D) normal.** For a segment longer than `√ε` (lawful square root) the vector used by the cast,
`Segment::normal()`, is a unit vector perpendicular to the segment; in the crossing branch the reported normal is `±` it,
oriented against the ray (`n·d ≤ 0`). -/
theorem segment2_normal_spec (hs : LawfulSqrt sq) (s : Segment2 K) (ray : Ray2 K) (max : K) (solid : Bool) :
    letI := fieldNum K sq
    letI := fieldUlps K
    epsK K < ray.d.normSq → epsK K < (s.b.sub s.a).normSq →
    epsK K < ray.d.normSq * (s.b.sub s.a).normSq - ray.d.dot (s.b.sub s.a) * ray.d.dot (s.b.sub s.a) →
    s.normalOrZero.normSq = 1 ∧ s.normalOrZero.dot (s.b.sub s.a) = 0 ∧
    ∀ h, s.castLocalRayAndGetNormal ray max solid = some h →
      (h.n = s.normalOrZero ∨ h.n = s.normalOrZero.neg) ∧ h.n.dot ray.d ≤ 0 := by
  intro ha he hden
  obtain ⟨w, hw, hww, hn⟩ := seg_normal_eq sq hs s he
  have hne : w ≠ 0 := ne_of_gt hw
  refine ⟨?_, ?_, ?_⟩
  · rw [hn]; simp only [V2.normSq, V2.dot] at hww ⊢; field_simp; linarith
  · rw [hn]; simp only [V2.dot]; field_simp; ring
  · intro h hres
    have hcp := cp_nonparallel sq ray.o ray.d s.a (@V2.sub K (fieldNum K sq) s.b s.a) ha he hden
    simp only [Segment2.castLocalRayAndGetNormal, hcp, Bool.false_eq_true, if_false] at hres
    split_ifs at hres with h1 h2
    · cases hres
      refine ⟨Or.inr rfl, ?_⟩
      have : @V2.dot K (fieldNum K sq) (@V2.neg K (fieldNum K sq) (@Segment2.normalOrZero K (fieldNum K sq) s)) ray.d
          = -(@V2.dot K (fieldNum K sq) (@Segment2.normalOrZero K (fieldNum K sq) s) ray.d) := by
        simp only [V2.dot, V2.neg]; ring
      rw [this]; linarith
    · cases hres
      exact ⟨Or.inl rfl, not_lt.1 h2⟩

/-- non-vacuity (segment): a crossing configuration with `|d| = 3` and a collinear one, over `ℚ` -/
example : letI := fieldNum ℚ id
    epsK ℚ < (⟨0, 3⟩ : V2 ℚ).normSq ∧ epsK ℚ < ((⟨2, 0⟩ : V2 ℚ).sub ⟨-2, 0⟩).normSq ∧
    epsK ℚ < (⟨0, 3⟩ : V2 ℚ).normSq * ((⟨2, 0⟩ : V2 ℚ).sub ⟨-2, 0⟩).normSq
      - (⟨0, 3⟩ : V2 ℚ).dot ((⟨2, 0⟩ : V2 ℚ).sub ⟨-2, 0⟩) * (⟨0, 3⟩ : V2 ℚ).dot ((⟨2, 0⟩ : V2 ℚ).sub ⟨-2, 0⟩) ∧
    perp2 (⟨5, 0⟩ : V2 ℚ) ((⟨2, 0⟩ : V2 ℚ).sub ⟨-2, 0⟩) = 0 := by
  simp only [epsK, V2.normSq, V2.dot, V2.sub, perp2]; norm_num

/-! ## posed forms of the other shapes, `toi_units` for the 2-D segment -/

/-- **Cuboid, posed form (`cast_ray`), solid**: the time returned for the world ray is the first hit of the posed cuboid
`{p | m⁻¹•p ∈ cuboid}` (any isometry `m`; `toi` in units of the world direction, which may be non-unit). -/
theorem cuboid_posed_solid_firstHit (big : K) (s : Cuboid3 K) (m : Iso3 K) (ray : Ray3 K) (max : K)
    (hhe : 0 ≤ s.he.x ∧ 0 ≤ s.he.y ∧ 0 ≤ s.he.z) (hmax0 : 0 ≤ max) (hmaxb : max ≤ big) :
    letI := fieldNum K sq
    FirstHit (fun p => s.Mem (m.invAct p)) (rayPt sq ray) max (s.castRay big m ray max true) :=
  (firstHit_posed sq _ m ray max _).1 (cuboid_cast_solid_firstHit sq big s (@Ray3.invTransform K (fieldNum K sq) ray m) max hhe hmax0 hmaxb)

/-- **HalfSpace, posed form (`cast_ray_and_get_normal`), solid.** -/
theorem halfspace_posed_solid_firstHit (s : HalfSpace3 K) (m : Iso3 K) (ray : Ray3 K) (max : K) (hmax : 0 ≤ max) :
    letI := fieldNum K sq
    FirstHit (fun p => s.Mem (m.invAct p)) (rayPt sq ray) max ((s.castRayAndGetNormal m ray max true).map (·.toi)) := by
  have h := halfspace_cast_solid_firstHit sq s (@Ray3.invTransform K (fieldNum K sq) ray m) max hmax
  have e : (@HalfSpace3.castRayAndGetNormal K (fieldNum K sq) s m ray max true).map (·.toi)
      = (@HalfSpace3.castLocalRayAndGetNormal K (fieldNum K sq) s (@Ray3.invTransform K (fieldNum K sq) ray m) max true).map (·.toi) := by
    simp only [HalfSpace3.castRayAndGetNormal, Option.map_map]; rfl
  rw [e]
  exact (firstHit_posed sq _ m ray max _).1 h

/-- **`toi_units`, 2-D segment (crossing branch)**: if both `(o,d)` and `(o, l·d)` are in the regime where the code does
not declare the lines parallel, the second time is the first divided by `l`.  (The regime itself is *not* scale invariant
— the code's threshold is absolute — which is the KNOWN_FINDINGS entry for the 2-D segment.) -/
theorem segment2_toi_units (s : Segment2 K) (ray : Ray2 K) (l max : K) (solid : Bool) (hl : 0 < l) :
    letI := fieldNum K sq
    letI := fieldUlps K
    epsK K < ray.d.normSq → epsK K < (ray.d.smul l).normSq → epsK K < (s.b.sub s.a).normSq →
    epsK K < ray.d.normSq * (s.b.sub s.a).normSq - ray.d.dot (s.b.sub s.a) * ray.d.dot (s.b.sub s.a) →
    epsK K < (ray.d.smul l).normSq * (s.b.sub s.a).normSq - (ray.d.smul l).dot (s.b.sub s.a) * (ray.d.smul l).dot (s.b.sub s.a) →
    (s.castLocalRayAndGetNormal ⟨ray.o, ray.d.smul l⟩ (max / l) solid).map (·.toi)
      = ((s.castLocalRayAndGetNormal ray max solid).map (·.toi)).map (· / l) := by
  intro h1 h2 h3 h4 h5
  have a := segment2_cast_nonparallel_firstHit sq s ray max solid h1 h3 h4
  have b := segment2_cast_nonparallel_firstHit sq s ⟨ray.o, @V2.smul K (fieldNum K sq) ray.d l⟩ (max / l) solid h2 h3 h5
  have e : rayPt2 sq ⟨ray.o, @V2.smul K (fieldNum K sq) ray.d l⟩ = fun u => rayPt2 sq ray (l * u) := by
    funext u; exact rayPt2_scale sq ray l u
  rw [e] at b
  exact firstHit_unique _ _ _ _ _ b (firstHit_scale _ (rayPt2 sq ray) max l hl _ a)


end C04
