import ParryModel.C04.DriverClosed
import ParryModel.C04.Model2D
/-! C04 protocol handlers, 2-D crate: ball, cuboid (time-only and with normal), triangle (local and posed).

Oracles: the 2-D ball / box are judged by the 3-D exact oracles on the embedded problem (`z = 0`, box slab `[-1, 1]` in
`z`): the disc is the section of the ball, the rectangle the section of the box, and the ray stays in the plane.
The 2-D triangle has its own exact oracle: the parameter set of the line inside the (shrunk / grown) triangle is an
interval computed in `Rat` from the three edge half-planes; independent of the edge casts of the model. -/
namespace C04
open Model Proto

def emb (v : V2 Rat) : V3 Rat := ⟨v.x, v.y, 0⟩
def embOut (o : Out2) : Out :=
  match o with
  | .bad w => .bad w
  | .miss => .miss
  | .hit t n f => .hit t (some ⟨n.x, n.y, 0.0⟩) f
def parseOutToi (o : List String) : Out := parseOut o

/-! ### triangle (2-D) oracle -/

/-- half-plane `n·p ≤ c` of the edge `P→Q` of a triangle with orientation sign `σ` (interior on the left for `σ > 0`) -/
structure HalfPl where
  n : V2 Rat
  c : Rat
def edgeHalf (σ : Rat) (P Q : V2 Rat) : HalfPl :=
  let e := Q.sub P
  -- left normal of e is (−e.y, e.x); interior is on the left iff σ > 0; outward normal = −σ·left
  let n : V2 Rat := if σ > 0 then ⟨e.y, -e.x⟩ else ⟨-e.y, e.x⟩
  ⟨n, n.dot P⟩
/-- clip the parameter interval by `n·(O + sD) ≤ c + shift·|n|₁` -/
def halfQ (h : HalfPl) (O D : V2 Rat) (shift : Rat) (acc : Option (Option Rat × Option Rat)) : Option (Option Rat × Option Rat) :=
  match acc with
  | none => none
  | some (lo, hi) =>
    let a := h.n.dot D
    let b := h.c + shift * absV2 h.n - h.n.dot O    -- a·s ≤ b
    if a = 0 then (if b < 0 then none else some (lo, hi))
    else if a > 0 then
      let u := b / a
      let hi' := match hi with | none => u | some x => rmin x u
      (match lo with | some l => if hi' < l then none else some (lo, some hi') | none => some (lo, some hi'))
    else
      let l := b / a
      let lo' := match lo with | none => l | some x => rmax x l
      (match hi with | some x => if x < lo' then none else some (some lo', hi) | none => some (some lo', hi))
def triInterval (hs : List HalfPl) (O D : V2 Rat) (shift : Rat) : Option (Option Rat × Option Rat) :=
  hs.foldl (fun acc h => halfQ h O D shift acc) (some (none, none))
/-- signed depth: `max_i (n_i·p − c_i)/|n_i|₁` (≤ 0 inside) -/
def triDepth (hs : List HalfPl) (p : V2 Rat) : Rat :=
  hs.foldl (fun acc h => rmax acc ((h.n.dot p - h.c) / absV2 h.n)) (-1000000000)

def tri2Oracle (A B C O D : V2 Rat) (max : Option Rat) (solid : Bool) (out : Out2) : String :=
  if D.normSq ≤ 1 / 1000000000000 then "skip tiny-dir" else
  let area2 := cross2 (B.sub A) (C.sub A)
  let emax := rmax (rmax (B.sub A).normSq (C.sub B).normSq) (A.sub C).normSq
  if sqr area2 ≤ (1 / 10000 : Rat) * sqr emax then "skip degenerate-triangle" else
  let hs := [edgeHalf area2 A B, edgeHalf area2 B C, edgeHalf area2 C A]
  let scale := 1 + absV2 O + absV2 A + absV2 B + absV2 C
  let tp := tolB * scale
  let f0 := triDepth hs O
  -- the known scale-dependent parallelism threshold of the segment cast (KNOWN_FINDINGS, segment2_*): an edge that the ray
  -- crosses at sin²θ ≤ 1e-5 may be reported as a miss; such configurations get their own verdict suffix
  let nearPar := [(A, B), (B, C), (C, A)].any fun (P, Q) =>
    let E := Q.sub P; let cr := cross2 D E
    decide (cr ≠ 0) && decide (sqr cr ≤ (1 / 100000 : Rat) * D.normSq * E.normSq)
  -- the exact entry point of the line into the closed triangle lies within 1e-6·scale of a vertex: the two edge casts that meet
  -- there may both reject it (segment parameter 1 + 1e-17 on one edge, −1e-17 on the other): KNOWN_FINDINGS `entry-through-vertex`
  let viaVertex : Bool :=
    match triInterval hs O D 0 with
    | some (some lo, _) =>
      let P0 := O.add (D.smul lo)
      decide (lo > 0) && [A, B, C].any fun V => decide ((P0.sub V).normSq ≤ sqr ((1 / 1000000 : Rat) * scale))
    | _ => false
  let sfx := if viaVertex then " entry-through-vertex" else if nearPar then "-near-parallel-edge" else ""
  match out with
  | .bad w => s!"fail {w}"
  | .miss =>
    if solid ∨ f0 > tp then
      (if meets (triInterval hs O D (-tp)) max false then
         -- origin on an edge up to rounding, ray going inward: see KNOWN_FINDINGS (`origin-on-edge`)
         (if f0 ≥ -tp ∧ f0 ≤ tp then s!"fail none-but-segment-enters-triangle origin-on-edge" else s!"fail none-but-segment-enters-triangle{sfx}")
       else "pass")
    else if f0 < -tp then
      match max with
      | none => s!"fail none-but-unbounded-ray-from-inside{sfx}"
      | some m => if triDepth hs (O.add (D.smul m)) > tolB * (scale + rabs m * absV2 D) then s!"fail none-but-segment-exits-triangle{sfx}" else "pass"
    else "pass"
  | .hit toi nf _ =>
    if !FloatIO.isFinite toi then "fail nonfinite-toi" else
    let t := q toi
    if t < 0 then "fail negative-toi" else if !leOpt t max then "fail toi-exceeds-max" else
    let tph := tolB * (scale + t * absV2 D)
    let P := O.add (D.smul t)
    let onB := rabs (triDepth hs P) ≤ tph
    let first := !meets (triInterval hs O D (-tph)) (some t) true
    let verdict :=
      if f0 > tp then (if !onB then "fail hit-not-on-boundary" else if !first then s!"fail earlier-point-inside{sfx}" else "pass")
      else if f0 < -tp then
        (if solid then (if t = 0 then "pass" else "fail solid-inside-toi-nonzero")
         else if !onB then "fail exit-not-on-boundary" else if t ≤ 0 then "fail exit-at-zero-from-inside" else "pass")
      -- origin on the boundary up to rounding: the float orientation test may count it as outside while the edge cast counts
      -- it as behind the edge (parameter −1e-17), so the edge the ray enters through is skipped (KNOWN_FINDINGS, `origin-on-edge`)
      else (if solid ∧ t = 0 then "pass" else if !onB then "fail hit-not-on-boundary"
            else if solid ∧ !first then "fail earlier-point-inside origin-on-edge" else "pass")
    if verdict != "pass" then verdict else
    if t = 0 ∧ solid ∧ f0 ≤ tp then "pass" else
    if !(FloatIO.isFinite nf.x && FloatIO.isFinite nf.y) then "fail nonfinite-normal" else
    let n := q2 nf
    if rabs (n.normSq - 1) > tol then "fail normal-not-unit"
    else if n.dot D > 0 ∧ sqr (n.dot D) > sqr (1 / 1000000) * D.normSq then "fail normal-not-facing-ray"
    else
      -- the normal must be perpendicular to an edge whose line passes through the hit point
      let okEdge := hs.any fun h =>
        decide (rabs ((h.n.dot P - h.c) / absV2 h.n) ≤ 10 * tph) && decide (sqr (cross2 n h.n) ≤ sqr (1 / 1000000) * h.n.normSq)
      if okEdge then "pass" else "fail normal-not-an-edge-normal-at-hit"

def ptri2 : P (Triangle2 Float) := do let a ← pv2; let b ← pv2; let c ← pv2; pure ⟨a, b, c⟩

def handler2D (fn : String) : Option Handler :=
  match fn with
  | "ball2_toi" => some {
      model := fun a => run (do let r ← pf; let ra ← pray2; pure (ftoi ((Ball.mk r).castLocalRay2 ⟨ra.o, ra.d⟩ ra.max ra.solid))) a
      oracle := fun a o => withArgs (do let r ← pf; let ra ← pray2; pure (r, ra)) a fun (r, ra) =>
        ballOracle (emb (q2 ra.o)) (emb (q2 ra.d)) (q r) ra.maxQ ra.solid (parseOut o) }
  | "ball2_normal" => some {
      model := fun a => run (do let r ← pf; let ra ← pray2
                                pure (fhit2d ((Ball.mk r).castLocalRayAndGetNormal2 ⟨ra.o, ra.d⟩ ra.max ra.solid))) a
      oracle := fun a o => withArgs (do let r ← pf; let ra ← pray2; pure (r, ra)) a fun (r, ra) =>
        ballOracle (emb (q2 ra.o)) (emb (q2 ra.d)) (q r) ra.maxQ ra.solid (embOut (parseOut2 o)) }
  | "cuboid2_toi" => some {
      model := fun a => run (do let he ← pv2; let ra ← pray2
                                pure (ftoi ((Cuboid2.mk he).castLocalRay bigF ⟨ra.o, ra.d⟩ ra.max ra.solid))) a
      oracle := fun a o => withArgs (do let he ← pv2; let ra ← pray2; pure (he, ra)) a fun (he, ra) =>
        let H := q2 he
        boxOracle ⟨-H.x, -H.y, -1⟩ ⟨H.x, H.y, 1⟩ (emb (q2 ra.o)) (emb (q2 ra.d)) ra.maxQ ra.solid (parseOut o) }
  | "cuboid2_normal" => some {
      model := fun a => run (do let he ← pv2; let ra ← pray2
                                pure (fhit2d ((Cuboid2.mk he).castLocalRayAndGetNormal bigF ⟨ra.o, ra.d⟩ ra.max ra.solid))) a
      oracle := fun a o => withArgs (do let he ← pv2; let ra ← pray2; pure (he, ra)) a fun (he, ra) =>
        let H := q2 he
        boxOracle ⟨-H.x, -H.y, -1⟩ ⟨H.x, H.y, 1⟩ (emb (q2 ra.o)) (emb (q2 ra.d)) ra.maxQ ra.solid (embOut (parseOut2 o)) }
  | "tri2_normal" => some {
      model := fun a => run (do let t ← ptri2; let ra ← pray2
                                pure (fhit2d (t.castLocalRayAndGetNormal bigF ⟨ra.o, ra.d⟩ ra.max ra.solid))) a
      oracle := fun a o => withArgs (do let t ← ptri2; let ra ← pray2; pure (t, ra)) a fun (t, ra) =>
        tri2Oracle (q2 t.a) (q2 t.b) (q2 t.c) (q2 ra.o) (q2 ra.d) ra.maxQ ra.solid (parseOut2 o) }
  | "tri2_posed" => some {
      model := fun a => run (do let t ← ptri2; let m ← piso2; let ra ← pray2
                                pure (fhit2d (t.castRayAndGetNormal bigF m ⟨ra.o, ra.d⟩ ra.max ra.solid))) a
      oracle := fun a o => withArgs (do let t ← ptri2; let m ← piso2; let ra ← pray2; pure (t, m, ra)) a fun (t, m, ra) =>
        -- judged in the world frame: the posed triangle is the triangle of the transformed vertices
        let M := qiso2 m
        tri2Oracle (M.act (q2 t.a)) (M.act (q2 t.b)) (M.act (q2 t.c)) (q2 ra.o) (q2 ra.d) ra.maxQ ra.solid (parseOut2 o) }
  | _ => none

end C04
