import ParryModel.C04.Lemmas
import ParryModel.C04.ModelGjk
import ParryModel.C04.ModelComposite
/-!
# Lemmas for `Theorems3.lean`: loop invariant of `gjk::minkowski_ray_cast` (abstract simplex).
-/
namespace C04
open Model

variable {K : Type} [Field K] [LinearOrder K] [IsStrictOrderedRing K] (sq : K → K)

/-- dot product at the lawful instance (definitionally `V3.dot`) -/
def dotK (a b : V3 K) : K := a.x * b.x + a.y * b.y + a.z * b.z
/-- the point `o + u·s` (definitionally `o.add (u.smul s)`) -/
def lin (o u : V3 K) (s : K) : V3 K := ⟨o.x + u.x * s, o.y + u.y * s, o.z + u.z * s⟩

theorem dotK_lin (n o u : V3 K) (s : K) : dotK n (lin o u s) = dotK n o + s * dotK n u := by
  simp only [dotK, lin]; ring

/-- **`supp` dominates `S`**: every point of `S` lies in every half-space `{x : dir·x ≤ dir·supp(dir)}` — the only
property of the support function the lower-bound certificate needs (neither convexity nor `supp dir ∈ S`). -/
def Supports (S : V3 K → Prop) (supp : V3 K → V3 K) : Prop := ∀ dir p, S p → dotK dir p ≤ dotK dir (supp dir)

/-- the invariant carried by `(ltoi, ldir, curr_ray.origin, clean)` -/
structure GjkInv (S : V3 K → Prop) (o u : V3 K) (ltoi : K) (ldir curO : V3 K) (clean : Bool) : Prop where
  nonneg : 0 ≤ ltoi
  curO_eq : curO = lin o u ltoi
  before : clean = true → ∀ s, 0 ≤ s → s < ltoi → ¬ S (lin o u s)
  plane : clean = true → 0 < ltoi → dotK ldir u < 0 ∧ ∀ p, S p → dotK ldir p ≤ dotK ldir curO

/-- what is certified about a result (in the unit-direction parametrisation `s ↦ o + u·s`, `toi·len` = travelled length) -/
def GjkGood (S : V3 K → Prop) (o u : V3 K) (len maxToi : K) (r : GjkRes K) : Prop :=
  r.clean = true →
  (∀ toi n, r.res = some (toi, n) →
      0 ≤ toi * len ∧ (∀ s, 0 ≤ s → s < toi * len → ¬ S (lin o u s)) ∧
      (0 < toi * len → dotK n u < 0 ∧ ∀ p, S p → dotK n p ≤ dotK n (lin o u (toi * len)))) ∧
  (r.exit = .miss → ∀ s, 0 ≤ s → ¬ S (lin o u s)) ∧
  (r.exit = .maxToi → ∀ s, 0 ≤ s → s ≤ maxToi * len → ¬ S (lin o u s)) ∧
  (r.res = none → r.exit ≠ .projZero ∧ r.exit ≠ .lastChanceHit ∧ r.exit ≠ .fullInside)

theorem gjkGood_some (S : V3 K → Prop) (o u : V3 K) (len maxToi ltoi : K) (ldir curO : V3 K) (clean : Bool)
    (e : GjkExit) (he1 : e ≠ .miss) (he2 : e ≠ .maxToi) (hlen : 0 < len)
    (inv : GjkInv S o u ltoi ldir curO clean) :
    GjkGood S o u len maxToi ⟨some (ltoi / len, ldir), e, clean⟩ := by
  intro hc
  have hl : ltoi / len * len = ltoi := div_mul_cancel₀ _ (ne_of_gt hlen)
  refine ⟨?_, fun h => absurd h he1, fun h => absurd h he2, fun h => by simp at h⟩
  intro toi n h
  simp only [Option.some.injEq, Prod.mk.injEq] at h
  obtain ⟨rfl, rfl⟩ := h
  rw [hl]
  refine ⟨inv.nonneg, inv.before hc, fun hp => ?_⟩
  have := inv.plane hc hp
  rw [inv.curO_eq] at this
  exact this

theorem gjkGood_none (S : V3 K → Prop) (o u : V3 K) (len maxToi : K) (clean : Bool)
    (e : GjkExit) (he1 : e ≠ .miss) (he2 : e ≠ .maxToi)
    (he3 : e ≠ .projZero) (he4 : e ≠ .lastChanceHit) (he5 : e ≠ .fullInside) :
    GjkGood S o u len maxToi ⟨none, e, clean⟩ := by
  intro _
  exact ⟨fun _ _ h => by simp at h, fun h => absurd h he1, fun h => absurd h he2, fun _ => ⟨he3, he4, he5⟩⟩

theorem gjkEpsTol_pos : 0 < @gjkEpsTol K (fieldNum K sq) := by
  simp only [gjkEpsTol, defaultEps_eq, fieldNum_lit]
  have := epsK_pos (K := K)
  have h10 : ((mkRat 10 1 : ℚ) : K) = 10 := by norm_num
  rw [h10]; positivity

theorem gjkRelEqZero_false_of_gt (x : K) (h : @gjkEpsTol K (fieldNum K sq) < x) :
    @gjkRelEqZero K (fieldNum K sq) x = false := by
  simp only [gjkRelEqZero, defaultEps_eq, fieldNum_nabs, decide_eq_false_iff_not, not_le]
  have hx : epsK K ≤ @gjkEpsTol K (fieldNum K sq) := by
    simp only [gjkEpsTol, defaultEps_eq, fieldNum_lit]
    have h10 : ((mkRat 10 1 : ℚ) : K) = 10 := by norm_num
    rw [h10]; nlinarith [epsK_pos (K := K)]
  have : 0 < x := lt_of_lt_of_le (lt_of_lt_of_le (epsK_pos (K := K)) hx) h.le
  rw [abs_of_pos this]; linarith

/-- **the clipping step**: a returned `t` is the parameter at which the ray crosses the plane `dir·(x − sp) = 0` -/
theorem rayToiWithHalfspace_some (sp dir curO u : V3 K) (t : K) :
    letI := fieldNum K sq
    rayToiWithHalfspace sp dir curO u = some t →
    dotK dir u ≠ 0 ∧ 0 ≤ t ∧ t * dotK dir u = dotK dir sp - dotK dir curO := by
  simp only [rayToiWithHalfspace, lineToiWithHalfspace, gjkRelEqZero, defaultEps_eq, fieldNum_nabs]
  intro h
  split at h
  · rename_i t' heq
    split at heq
    · simp at heq
    · rename_i hne
      simp only [decide_eq_true_eq, not_le] at hne
      have hne' : dotK dir u ≠ 0 := by
        intro h0
        have : (@V3.dot K (fieldNum K sq) dir u) = 0 := h0
        rw [this] at hne; simp at hne; linarith [epsK_pos (K := K)]
      simp only [Option.some.injEq] at heq
      split at h
      · rename_i ht
        simp only [Option.some.injEq] at h
        subst h
        refine ⟨hne', ht, ?_⟩
        rw [← heq]
        have : (@V3.dot K (fieldNum K sq) dir u) = dotK dir u := rfl
        rw [this, div_mul_cancel₀ _ hne']
        simp only [V3.dot, V3.sub, dotK]; ring
      · simp at h
  · simp at h

/-- a `None` of `ray_toi_with_halfspace` with `dir·u > eps_tol`: the origin is strictly outside the half-space -/
theorem rayToiWithHalfspace_none (sp dir curO u : V3 K) :
    letI := fieldNum K sq
    rayToiWithHalfspace sp dir curO u = none → @gjkEpsTol K (fieldNum K sq) < dotK dir u →
    dotK dir sp < dotK dir curO := by
  simp only [rayToiWithHalfspace, lineToiWithHalfspace]
  intro h hgt
  have hre := gjkRelEqZero_false_of_gt sq (dotK dir u) hgt
  have hd : (@V3.dot K (fieldNum K sq) dir u) = dotK dir u := rfl
  rw [hd, hre] at h
  simp only [Bool.false_eq_true, ↓reduceIte] at h
  split at h
  · simp at h
  · rename_i hneg
    have hpos : 0 < dotK dir u := lt_trans (gjkEpsTol_pos sq) hgt
    have hnum : (@V3.dot K (fieldNum K sq) dir (@V3.sub K (fieldNum K sq) sp curO)) < 0 := by
      by_contra hc
      push Not at hc
      exact hneg (div_nonneg hc hpos.le)
    have : (@V3.dot K (fieldNum K sq) dir (@V3.sub K (fieldNum K sq) sp curO)) = dotK dir sp - dotK dir curO := by
      simp only [V3.dot, V3.sub, dotK]; ring
    linarith

/-- invariant of a clip output -/
def GClipInv (S : V3 K → Prop) (o u : V3 K) {Sx : Type} (c : GjkClipOut K Sx) : Prop :=
  GjkInv S o u c.ltoi c.ldir c.curO c.clean
/-- invariant of a loop state -/
def GStInv (S : V3 K → Prop) (o u : V3 K) {Sx : Type} (st : GjkSt K Sx) : Prop :=
  GjkInv S o u st.ltoi st.ldir st.curO st.clean

/-- **the clipping `match` preserves the invariant and its two `return None` are sound**, provided the support point
dominates `S` in direction `dir` whenever it is not the pseudo support point. -/
theorem gjkClip_spec {Sx : Type} (S : V3 K → Prop) (ops : SimplexOps K Sx) (big : K) (o u : V3 K) (len maxToi : K)
    (st : GjkSt K Sx) (dir sp : V3 K) (maxBound : K) (lastChance pseudo : Bool)
    (hlen : 0 < len) (inv : GStInv S o u st)
    (hsp : pseudo = false → ∀ p, S p → dotK dir p ≤ dotK dir sp) :
    letI := fieldNum K sq
    match gjkClip ops big u len maxToi st dir sp maxBound lastChance pseudo with
    | .inl r => GjkGood S o u len maxToi r
    | .inr c => GClipInv S o u c := by
  simp only [gjkClip]
  have hd : (@V3.dot K (fieldNum K sq) dir u) = dotK dir u := rfl
  rcases hr : @rayToiWithHalfspace K (fieldNum K sq) sp dir st.curO u with _ | t
  · -- no forward intersection
    simp only
    split_ifs with hgt
    · -- miss
      intro hc
      simp only [Bool.and_eq_true, Bool.not_eq_eq_eq_not, Bool.not_true] at hc
      have hout := rayToiWithHalfspace_none sq sp dir st.curO u hr hgt
      have hpos : 0 < dotK dir u := lt_trans (gjkEpsTol_pos sq) hgt
      refine ⟨fun _ _ h => by simp at h, fun _ s hs hS => ?_, fun h => by simp at h, fun _ => by simp⟩
      rcases lt_or_ge s st.ltoi with hlt | hge
      · exact inv.before hc.1 s hs hlt hS
      · have h1 := hsp hc.2 _ hS
        rw [dotK_lin] at h1
        have h2 : dotK dir st.curO = dotK dir o + st.ltoi * dotK dir u := by rw [inv.curO_eq, dotK_lin]
        nlinarith [mul_nonneg (sub_nonneg.2 hge) hpos.le]
    · exact inv
  · obtain ⟨hne, ht0, hteq⟩ := rayToiWithHalfspace_some sq sp dir st.curO u t hr
    simp only
    split_ifs with hlow hmax
    · -- maxToi
      rw [hd] at hlow
      intro hc
      simp only [Bool.and_eq_true, Bool.not_eq_eq_eq_not, Bool.not_true] at hc
      refine ⟨fun _ _ h => by simp at h, fun h => by simp at h, fun _ s hs hle hS => ?_, fun _ => by simp⟩
      have hlt : s < st.ltoi + t := by
        have := (lt_div_iff₀ hlen).1 hmax
        linarith
      rcases lt_or_ge s st.ltoi with hlt' | hge
      · exact inv.before hc.1 s hs hlt' hS
      · have h1 := hsp hc.2 _ hS
        rw [dotK_lin] at h1
        have h2 : dotK dir st.curO = dotK dir o + st.ltoi * dotK dir u := by rw [inv.curO_eq, dotK_lin]
        nlinarith [mul_pos_of_neg_of_neg (sub_neg.2 hlt) hlow.1]
    · -- new lower bound
      rw [hd] at hlow
      have hcur : (@V3.add K (fieldNum K sq) st.curO (@V3.smul K (fieldNum K sq) u t)) = lin o u (st.ltoi + t) := by
        rw [inv.curO_eq]; simp only [V3.add, V3.smul, lin, V3.mk.injEq]
        refine ⟨by ring, by ring, by ring⟩
      refine ⟨by linarith [inv.nonneg], hcur, fun hc s hs hlt hS => ?_, fun hc _ => ⟨hlow.1, fun p hS => ?_⟩⟩
      · simp only [Bool.and_eq_true, Bool.not_eq_eq_eq_not, Bool.not_true] at hc
        rcases lt_or_ge s st.ltoi with hlt' | hge
        · exact inv.before hc.1 s hs hlt' hS
        · have h1 := hsp hc.2 _ hS
          rw [dotK_lin] at h1
          have h2 : dotK dir st.curO = dotK dir o + st.ltoi * dotK dir u := by rw [inv.curO_eq, dotK_lin]
          nlinarith [mul_pos_of_neg_of_neg (sub_neg.2 hlt) hlow.1]
      · simp only [Bool.and_eq_true, Bool.not_eq_eq_eq_not, Bool.not_true] at hc
        have h1 := hsp hc.2 _ hS
        show dotK dir p ≤ dotK dir (@V3.add K (fieldNum K sq) st.curO (@V3.smul K (fieldNum K sq) u t))
        rw [hcur, dotK_lin]
        have h2 : dotK dir st.curO = dotK dir o + st.ltoi * dotK dir u := by rw [inv.curO_eq, dotK_lin]
        nlinarith
    · exact inv

/-- the tail of an iteration only copies `(ltoi, ldir, origin, clean)` -/
theorem gjkTail_spec {Sx : Type} (S : V3 K → Prop) (ops : SimplexOps K Sx) (dim : Nat) (o u : V3 K) (len maxToi : K)
    (dir sp : V3 K) (c : GjkClipOut K Sx) (hlen : 0 < len) (inv : GClipInv S o u c) :
    letI := fieldNum K sq
    match gjkTail ops dim len dir sp c with
    | .inl r => GjkGood S o u len maxToi r
    | .inr st => GStInv S o u st := by
  simp only [gjkTail]
  split_ifs
  · exact gjkGood_none S o u len maxToi _ _ (by decide) (by decide) (by decide) (by decide) (by decide)
  · exact gjkGood_none S o u len maxToi _ _ (by decide) (by decide) (by decide) (by decide) (by decide)
  · exact gjkGood_none S o u len maxToi _ _ (by decide) (by decide) (by decide) (by decide) (by decide)
  · exact gjkGood_some S o u len maxToi _ _ _ _ _ (by decide) (by decide) hlen inv
  · exact inv

/-- **one iteration** preserves the invariant; every `return` of it is certified -/
theorem gjkStep_spec {Sx : Type} (S : V3 K → Prop) (ops : SimplexOps K Sx) (supp : V3 K → V3 K) (big : K) (dim : Nat)
    (o u : V3 K) (len maxToi : K) (st : GjkSt K Sx) (hlen : 0 < len) (hs : Supports S supp) (inv : GStInv S o u st) :
    letI := fieldNum K sq
    match gjkStep ops supp big dim u len maxToi st with
    | .inl r => GjkGood S o u len maxToi r
    | .inr st' => GStInv S o u st' := by
  simp only [gjkStep]
  rcases @tryNewAndGet K (fieldNum K sq) (@V3.neg K (fieldNum K sq) st.proj) (@gjkEpsTol K (fieldNum K sq)) with _ | ⟨dir, dist⟩
  · exact gjkGood_some S o u len maxToi _ _ _ _ _ (by decide) (by decide) hlen inv
  · simp only
    have hdom : decide (st.maxBound ≤ dist) = false → ∀ p, S p → dotK dir p ≤
        dotK dir (if decide (st.maxBound ≤ dist) = true then @V3.add K (fieldNum K sq) st.proj st.curO else supp dir) := by
      intro hp p hS; rw [hp]; simp only [Bool.false_eq_true, if_false]; exact hs dir p hS
    generalize (if decide (st.maxBound ≤ dist) = true then @V3.add K (fieldNum K sq) st.proj st.curO else supp dir) = sp
      at hdom ⊢
    by_cases hlc : (st.lastChance || decide (st.maxBound ≤ dist)) = true ∧ 0 < st.ltoi
    · rw [if_pos hlc]
      exact gjkGood_some S o u len maxToi _ _ _ _ _ (by decide) (by decide) hlen inv
    · rw [if_neg hlc]
      have hclip := gjkClip_spec sq S ops big o u len maxToi st dir sp dist
        (st.lastChance || decide (st.maxBound ≤ dist)) (decide (st.maxBound ≤ dist)) hlen inv hdom
      revert hclip
      rcases @gjkClip K (fieldNum K sq) Sx ops big u len maxToi st dir sp dist
        (st.lastChance || decide (st.maxBound ≤ dist)) (decide (st.maxBound ≤ dist)) with r | c
      · exact fun h => h
      · exact fun h => gjkTail_spec sq S ops dim o u len maxToi dir sp c hlen h

/-- **the loop**: from a state satisfying the invariant every result is certified -/
theorem gjkLoop_spec {Sx : Type} (S : V3 K → Prop) (ops : SimplexOps K Sx) (supp : V3 K → V3 K) (big : K) (dim : Nat)
    (o u : V3 K) (len maxToi : K) (hlen : 0 < len) (hs : Supports S supp) (n : Nat) (st : GjkSt K Sx)
    (inv : GStInv S o u st) :
    letI := fieldNum K sq
    GjkGood S o u len maxToi (gjkLoop ops supp big dim u len maxToi n st) := by
  induction n generalizing st with
  | zero => exact gjkGood_none S o u len maxToi _ _ (by decide) (by decide) (by decide) (by decide) (by decide)
  | succ n ih =>
    simp only [gjkLoop]
    have h := gjkStep_spec sq S ops supp big dim o u len maxToi st hlen hs inv
    revert h
    rcases @gjkStep K (fieldNum K sq) Sx ops supp big dim u len maxToi st with r | st'
    · exact fun h => h
    · exact fun h => ih st' h

/-- `ray_length > 0` for a non-zero direction -/
theorem rayLen_pos (hs : LawfulSqrt sq) (d : V3 K) (hd : 0 < dotK d d) : 0 < sq (dotK d d) := by
  have h1 := hs.nonneg _ hd.le
  have h2 := hs.sq_mul _ hd.le
  rcases h1.lt_or_eq with h | h
  · exact h
  · rw [← h] at h2; simp at h2; linarith

/-- **`minkowski_ray_cast`, all exits** (unit-direction parametrisation) -/
theorem minkowskiRayCast_good {Sx : Type} (hs : LawfulSqrt sq) (S : V3 K → Prop) (ops : SimplexOps K Sx)
    (supp : V3 K → V3 K) (big : K) (dim : Nat) (ray : Ray3 K) (maxToi : K) (hsupp : Supports S supp)
    (hd : 0 < dotK ray.d ray.d) :
    letI := fieldNum K sq
    GjkGood S ray.o (ray.d.sdiv (sq (dotK ray.d ray.d))) (sq (dotK ray.d ray.d)) maxToi
      (minkowskiRayCast ops supp big dim ray maxToi) := by
  have hlen := rayLen_pos sq hs ray.d hd
  simp only [minkowskiRayCast]
  have hn : (@V3.norm K (fieldNum K sq) ray.d) = sq (dotK ray.d ray.d) := rfl
  rw [hn]
  split_ifs
  · exact gjkGood_none S _ _ _ maxToi _ _ (by decide) (by decide) (by decide) (by decide) (by decide)
  · apply gjkLoop_spec sq S ops supp big dim ray.o _ _ maxToi hlen hsupp 100
    refine ⟨le_refl _, ?_, fun _ s h0 h1 => absurd h1 (not_lt.2 h0), fun _ h => absurd h (lt_irrefl _)⟩
    simp only [lin, mul_zero, add_zero]

/-! ## second invariant: the simplex lives in the (translated) shape — needs a specification of the simplex -/

def vadd (a b : V3 K) : V3 K := ⟨a.x + b.x, a.y + b.y, a.z + b.z⟩
def vsub (a b : V3 K) : V3 K := ⟨a.x - b.x, a.y - b.y, a.z - b.z⟩
theorem vadd_vsub (a b : V3 K) : vadd (vsub a b) b = a := by
  obtain ⟨ax, ay, az⟩ := a; obtain ⟨bx, b_y, bz⟩ := b
  simp only [vadd, vsub, V3.mk.injEq]; refine ⟨by ring, by ring, by ring⟩

/-- convex set (closed under segments) -/
def ConvexSet (T : V3 K → Prop) : Prop :=
  ∀ p q, T p → T q → ∀ t : K, 0 ≤ t → t ≤ 1 →
    T ⟨p.x + t * (q.x - p.x), p.y + t * (q.y - p.y), p.z + t * (q.z - p.z)⟩

theorem convexSet_translate (T : V3 K → Prop) (c : V3 K) (h : ConvexSet T) : ConvexSet (fun x => T (vadd x c)) := by
  intro p q hp hq t h0 h1
  have := h _ _ hp hq t h0 h1
  simp only [vadd] at this ⊢
  have e : ∀ a b cc : K, a + cc + t * (b + cc - (a + cc)) = a + t * (b - a) + cc := fun a b cc => by ring
  rw [e, e, e] at this
  exact this

/-- **Specification of the abstract simplex** used by the hit-point certificate: `Pts s T` reads "every vertex of `s`
satisfies `T`".  `project_origin_and_reduce` keeps a subset of the vertices and returns a convex combination of them;
when the reduced simplex still has `DIM + 1` vertices the origin is in their hull. -/
structure SimplexSpec {Sx : Type} (ops : SimplexOps K Sx) (dim : Nat) (Pts : Sx → (V3 K → Prop) → Prop) : Prop where
  mono : ∀ s (T T' : V3 K → Prop), (∀ x, T x → T' x) → Pts s T → Pts s T'
  reset : ∀ p (T : V3 K → Prop), T p → Pts (ops.reset p) T
  add : ∀ s p (T : V3 K → Prop), Pts s T → T p → Pts (ops.addPoint s p) T
  project : ∀ s (T : V3 K → Prop), ConvexSet T → Pts s T → Pts (ops.project s).1 T ∧ T (ops.project s).2
  translate : ∀ s v (T : V3 K → Prop), Pts s T → Pts (ops.translate s v) (fun x => T (vsub x v))
  full : ∀ s (T : V3 K → Prop), ConvexSet T → Pts s T → ops.dimension (ops.project s).1 = dim → T ⟨0, 0, 0⟩

/-- the simplex vertices (translated back by the current origin) are points of `S` -/
structure GjkInv2 (S : V3 K → Prop) (o u : V3 K) {Sx : Type} (Pts : Sx → (V3 K → Prop) → Prop)
    (ltoi : K) (curO : V3 K) (simplex : Sx) : Prop where
  curO_eq : curO = lin o u ltoi
  pts : Pts simplex (fun x => S (vadd x curO))

/-- hit-point certificate of a result: exit `projZero` ⇒ a point of `S` lies within `eps_tol` of the reported hit point;
exit `fullInside` ⇒ the reported hit point belongs to `S`. -/
def GjkNear (S : V3 K → Prop) (o u : V3 K) (len eps : K) (r : GjkRes K) : Prop :=
  ∀ toi n, r.res = some (toi, n) →
    (r.exit = .projZero → ∃ q, S q ∧
      dotK (vsub q (lin o u (toi * len))) (vsub q (lin o u (toi * len))) ≤ eps * eps) ∧
    (r.exit = .fullInside → S (lin o u (toi * len)))

theorem gjkNear_none (S : V3 K → Prop) (o u : V3 K) (len eps : K) (e : GjkExit) (c : Bool) :
    GjkNear S o u len eps ⟨none, e, c⟩ := fun _ _ h => by simp at h

theorem gjkNear_other (S : V3 K → Prop) (o u : V3 K) (len eps : K) (x : Option (K × V3 K)) (e : GjkExit) (c : Bool)
    (h1 : e ≠ .projZero) (h2 : e ≠ .fullInside) :
    GjkNear S o u len eps ⟨x, e, c⟩ := fun _ _ _ => ⟨fun h => absurd h h1, fun h => absurd h h2⟩

theorem gjkClip_spec2 {Sx : Type} (S : V3 K → Prop) (ops : SimplexOps K Sx) (dim : Nat)
    (Pts : Sx → (V3 K → Prop) → Prop) (spec : SimplexSpec ops dim Pts) (big : K) (o u : V3 K) (len maxToi eps : K)
    (st : GjkSt K Sx) (dir sp : V3 K) (maxBound : K) (lastChance pseudo : Bool)
    (inv : GjkInv2 S o u Pts st.ltoi st.curO st.simplex) :
    letI := fieldNum K sq
    match gjkClip ops big u len maxToi st dir sp maxBound lastChance pseudo with
    | .inl r => GjkNear S o u len eps r
    | .inr c => GjkInv2 S o u Pts c.ltoi c.curO c.simplex := by
  simp only [gjkClip]
  rcases @rayToiWithHalfspace K (fieldNum K sq) sp dir st.curO u with _ | t
  · simp only
    split_ifs
    · exact gjkNear_none S o u len eps _ _
    · exact inv
  · simp only
    split_ifs
    · exact gjkNear_none S o u len eps _ _
    · refine ⟨?_, ?_⟩
      · rw [inv.curO_eq]; simp only [V3.add, V3.smul, lin, V3.mk.injEq]
        refine ⟨by ring, by ring, by ring⟩
      · have h := spec.translate st.simplex (@V3.neg K (fieldNum K sq) (@V3.smul K (fieldNum K sq) u t)) _ inv.pts
        refine spec.mono _ _ _ ?_ h
        intro x hx
        have e : vadd (vsub x (@V3.neg K (fieldNum K sq) (@V3.smul K (fieldNum K sq) u t))) st.curO =
            vadd x (@V3.add K (fieldNum K sq) st.curO (@V3.smul K (fieldNum K sq) u t)) := by
          simp only [vadd, vsub, V3.neg, V3.smul, V3.add, V3.mk.injEq]
          refine ⟨by ring, by ring, by ring⟩
        rw [← e]; exact hx
    · exact inv

theorem gjkTail_spec2 {Sx : Type} (S : V3 K → Prop) (hconv : ConvexSet S) (ops : SimplexOps K Sx) (dim : Nat)
    (Pts : Sx → (V3 K → Prop) → Prop) (spec : SimplexSpec ops dim Pts) (o u : V3 K) (len eps : K) (hlen : 0 < len)
    (dir sp : V3 K) (c : GjkClipOut K Sx) (hsp : S sp) (inv : GjkInv2 S o u Pts c.ltoi c.curO c.simplex) :
    letI := fieldNum K sq
    match gjkTail ops dim len dir sp c with
    | .inl r => GjkNear S o u len eps r
    | .inr st => GjkInv2 S o u Pts st.ltoi st.curO st.simplex ∧ S (vadd st.proj st.curO) := by
  simp only [gjkTail]
  have hadd : Pts (ops.addPoint c.simplex (@V3.sub K (fieldNum K sq) sp c.curO)) (fun x => S (vadd x c.curO)) := by
    refine spec.add _ _ _ inv.pts ?_
    show S (vadd (vsub sp c.curO) c.curO)
    rw [vadd_vsub]; exact hsp
  have hcv := convexSet_translate S c.curO hconv
  split_ifs with h1 h2 h3 h4
  · exact gjkNear_none S o u len eps _ _
  · exact gjkNear_none S o u len eps _ _
  · exact gjkNear_none S o u len eps _ _
  · intro toi n h
    simp only [Option.some.injEq, Prod.mk.injEq] at h
    obtain ⟨rfl, rfl⟩ := h
    refine ⟨fun h => by simp at h, fun _ => ?_⟩
    rw [div_mul_cancel₀ _ (ne_of_gt hlen), ← inv.curO_eq]
    have := spec.full _ _ hcv hadd h3
    simpa only [vadd, zero_add] using this
  · have := spec.project _ _ hcv hadd
    exact ⟨⟨inv.curO_eq, this.1⟩, this.2⟩

theorem gjkStep_spec2 {Sx : Type} (hs : LawfulSqrt sq) (S : V3 K → Prop) (hconv : ConvexSet S) (ops : SimplexOps K Sx)
    (supp : V3 K → V3 K) (hin : ∀ d, S (supp d)) (big : K) (dim : Nat)
    (Pts : Sx → (V3 K → Prop) → Prop) (spec : SimplexSpec ops dim Pts) (o u : V3 K) (len maxToi : K) (hlen : 0 < len)
    (st : GjkSt K Sx) (inv : GjkInv2 S o u Pts st.ltoi st.curO st.simplex) (hproj : S (vadd st.proj st.curO)) :
    letI := fieldNum K sq
    match gjkStep ops supp big dim u len maxToi st with
    | .inl r => GjkNear S o u len (@gjkEpsTol K (fieldNum K sq)) r
    | .inr st' => GjkInv2 S o u Pts st'.ltoi st'.curO st'.simplex ∧ S (vadd st'.proj st'.curO) := by
  simp only [gjkStep]
  rcases htn : @tryNewAndGet K (fieldNum K sq) (@V3.neg K (fieldNum K sq) st.proj) (@gjkEpsTol K (fieldNum K sq)) with _ | ⟨dir, dist⟩
  · -- projZero
    intro toi n h
    simp only [Option.some.injEq, Prod.mk.injEq] at h
    obtain ⟨rfl, rfl⟩ := h
    refine ⟨fun _ => ⟨vadd st.proj st.curO, hproj, ?_⟩, fun h => by simp at h⟩
    rw [div_mul_cancel₀ _ (ne_of_gt hlen), ← inv.curO_eq]
    simp only [tryNewAndGet] at htn
    split_ifs at htn with hle
    have hx : dotK (vsub (vadd st.proj st.curO) st.curO) (vsub (vadd st.proj st.curO) st.curO) = dotK st.proj st.proj := by
      simp only [dotK, vsub, vadd]; ring
    rw [hx]
    have hn : (@V3.norm K (fieldNum K sq) (@V3.neg K (fieldNum K sq) st.proj)) = sq (dotK st.proj st.proj) := by
      simp only [V3.norm, V3.normSq, V3.dot, V3.neg, fieldNum_sqrt, dotK]; congr 1; ring
    rw [hn] at hle
    have h0 : 0 ≤ dotK st.proj st.proj := by
      simp only [dotK]; nlinarith [mul_self_nonneg st.proj.x, mul_self_nonneg st.proj.y, mul_self_nonneg st.proj.z]
    have h1 := hs.nonneg _ h0
    have h2 := hs.sq_mul _ h0
    rw [← h2]
    exact mul_le_mul hle hle h1 (le_trans h1 hle)
  · simp only
    have hsp : S (if decide (st.maxBound ≤ dist) = true then @V3.add K (fieldNum K sq) st.proj st.curO else supp dir) := by
      split_ifs
      · exact hproj
      · exact hin dir
    generalize (if decide (st.maxBound ≤ dist) = true then @V3.add K (fieldNum K sq) st.proj st.curO else supp dir) = sp
      at hsp ⊢
    by_cases hlc : (st.lastChance || decide (st.maxBound ≤ dist)) = true ∧ 0 < st.ltoi
    · rw [if_pos hlc]
      exact gjkNear_other S o u len _ _ _ _ (by decide) (by decide)
    · rw [if_neg hlc]
      have hclip := gjkClip_spec2 sq S ops dim Pts spec big o u len maxToi (@gjkEpsTol K (fieldNum K sq)) st dir sp dist
        (st.lastChance || decide (st.maxBound ≤ dist)) (decide (st.maxBound ≤ dist)) inv
      revert hclip
      rcases @gjkClip K (fieldNum K sq) Sx ops big u len maxToi st dir sp dist
        (st.lastChance || decide (st.maxBound ≤ dist)) (decide (st.maxBound ≤ dist)) with r | c
      · exact fun h => h
      · exact fun h => gjkTail_spec2 sq S hconv ops dim Pts spec o u len _ hlen dir sp c hsp h

theorem gjkLoop_spec2 {Sx : Type} (hs : LawfulSqrt sq) (S : V3 K → Prop) (hconv : ConvexSet S) (ops : SimplexOps K Sx)
    (supp : V3 K → V3 K) (hin : ∀ d, S (supp d)) (big : K) (dim : Nat)
    (Pts : Sx → (V3 K → Prop) → Prop) (spec : SimplexSpec ops dim Pts) (o u : V3 K) (len maxToi : K) (hlen : 0 < len)
    (n : Nat) (st : GjkSt K Sx) (inv : GjkInv2 S o u Pts st.ltoi st.curO st.simplex) (hproj : S (vadd st.proj st.curO)) :
    letI := fieldNum K sq
    GjkNear S o u len (@gjkEpsTol K (fieldNum K sq)) (gjkLoop ops supp big dim u len maxToi n st) := by
  induction n generalizing st with
  | zero => exact gjkNear_none S o u len _ _ _
  | succ n ih =>
    simp only [gjkLoop]
    have h := gjkStep_spec2 sq hs S hconv ops supp hin big dim Pts spec o u len maxToi hlen st inv hproj
    revert h
    rcases @gjkStep K (fieldNum K sq) Sx ops supp big dim u len maxToi st with r | st'
    · exact fun h => h
    · exact fun h => ih st' h.1 h.2

theorem minkowskiRayCast_near {Sx : Type} (hs : LawfulSqrt sq) (S : V3 K → Prop) (hconv : ConvexSet S)
    (ops : SimplexOps K Sx) (supp : V3 K → V3 K) (hin : ∀ d, S (supp d)) (big : K) (dim : Nat)
    (Pts : Sx → (V3 K → Prop) → Prop) (spec : SimplexSpec ops dim Pts) (ray : Ray3 K) (maxToi : K)
    (hd : 0 < dotK ray.d ray.d) :
    letI := fieldNum K sq
    GjkNear S ray.o (ray.d.sdiv (sq (dotK ray.d ray.d))) (sq (dotK ray.d ray.d)) (@gjkEpsTol K (fieldNum K sq))
      (minkowskiRayCast ops supp big dim ray maxToi) := by
  have hlen := rayLen_pos sq hs ray.d hd
  simp only [minkowskiRayCast]
  have hn : (@V3.norm K (fieldNum K sq) ray.d) = sq (dotK ray.d ray.d) := rfl
  rw [hn]
  split_ifs
  · exact gjkNear_none S _ _ _ _ _ _
  · have hcv := convexSet_translate S ray.o hconv
    have hreset : Pts (ops.reset (@V3.sub K (fieldNum K sq) (supp (@V3.neg K (fieldNum K sq)
        (@V3.sdiv K (fieldNum K sq) ray.d (sq (dotK ray.d ray.d))))) ray.o)) (fun x => S (vadd x ray.o)) := by
      refine spec.reset _ _ ?_
      show S (vadd (vsub _ ray.o) ray.o)
      rw [vadd_vsub]; exact hin _
    have hp := spec.project _ _ hcv hreset
    apply gjkLoop_spec2 sq hs S hconv ops supp hin big dim Pts spec ray.o _ _ maxToi hlen 100
    · exact ⟨by simp only [lin, mul_zero, add_zero], hp.1⟩
    · exact hp.2

end C04

namespace C04
open Model
variable {K : Type} [Field K] [LinearOrder K] [IsStrictOrderedRing K] (sq : K → K)

/-! ## one axis of the heightfield grid walk -/

/-- the boundary time of one axis as computed by `nextCell`: `(toi, forward)` before the clamp at 0 -/
def axisToi (big lo hi o d : K) : K × Bool :=
  if 0 < d then ((hi - o) / d, true) else if d < 0 then ((lo - o) / d, false) else (big, false)

/-- **one axis**: the coordinate is in `[lo, hi]` at parameter `t ≥ 0`.  Then the clamped boundary time `T = max(toi, 0)` is
`≥ t` (or the coordinate never leaves the slab when `d = 0`), the coordinate stays in `[lo, hi]` on `[t, T]`, and at `T` it
sits on the boundary the walk steps across. -/
theorem axisToi_spec (big lo hi o d t : K) (ht : 0 ≤ t) (hm : lo ≤ o + d * t ∧ o + d * t ≤ hi) :
    (∀ s, t ≤ s → s ≤ max (axisToi big lo hi o d).1 0 → lo ≤ o + d * s ∧ o + d * s ≤ hi) ∧
    (d ≠ 0 → t ≤ max (axisToi big lo hi o d).1 0) ∧
    (0 < d → (axisToi big lo hi o d).2 = true ∧ o + d * max (axisToi big lo hi o d).1 0 = hi) ∧
    (d < 0 → (axisToi big lo hi o d).2 = false ∧ o + d * max (axisToi big lo hi o d).1 0 = lo) ∧
    (d = 0 → (axisToi big lo hi o d).2 = false ∧ big ≤ max (axisToi big lo hi o d).1 0) := by
  rcases lt_trichotomy d 0 with hd | hd | hd
  · have hn : ¬ 0 < d := not_lt.2 hd.le
    have e : axisToi big lo hi o d = ((lo - o) / d, false) := by simp only [axisToi, hn, hd, if_false, if_true]
    rw [e]; dsimp only
    have hτ : t ≤ (lo - o) / d := by
      rw [le_div_iff_of_neg hd]; linarith [hm.1]
    have hmax : max ((lo - o) / d) 0 = (lo - o) / d := max_eq_left (le_trans ht hτ)
    rw [hmax]
    have hmul : d * ((lo - o) / d) = lo - o := mul_div_cancel₀ _ (ne_of_lt hd)
    have hval : o + d * ((lo - o) / d) = lo := by rw [hmul]; ring
    refine ⟨fun s h1 h2 => ⟨?_, ?_⟩, fun _ => hτ, fun h => absurd h hn, fun _ => ⟨rfl, hval⟩, fun h => absurd h (ne_of_lt hd)⟩
    · have : d * ((lo - o) / d) ≤ d * s := mul_le_mul_of_nonpos_left h2 hd.le
      linarith
    · have : d * s ≤ d * t := mul_le_mul_of_nonpos_left h1 hd.le
      linarith [hm.2]
  · subst hd
    have e : axisToi big lo hi o 0 = (big, false) := by simp only [axisToi, lt_irrefl, if_false]
    rw [e]; dsimp only
    simp only [zero_mul, add_zero] at hm ⊢
    refine ⟨fun _ _ _ => hm, fun h => absurd rfl h, fun h => absurd h (lt_irrefl _), fun h => absurd h (lt_irrefl _),
      fun _ => ⟨trivial, le_max_left _ _⟩⟩
  · have hn : ¬ d < 0 := not_lt.2 hd.le
    have e : axisToi big lo hi o d = ((hi - o) / d, true) := by simp only [axisToi, hd, if_true]
    rw [e]; dsimp only
    have hτ : t ≤ (hi - o) / d := by
      rw [le_div_iff₀ hd]; linarith [hm.2]
    have hmax : max ((hi - o) / d) 0 = (hi - o) / d := max_eq_left (le_trans ht hτ)
    rw [hmax]
    have hmul : d * ((hi - o) / d) = hi - o := mul_div_cancel₀ _ (ne_of_gt hd)
    have hval : o + d * ((hi - o) / d) = hi := by rw [hmul]; ring
    refine ⟨fun s h1 h2 => ⟨?_, ?_⟩, fun _ => hτ, fun _ => ⟨rfl, hval⟩, fun h => absurd h hn, fun h => absurd h (ne_of_gt hd)⟩
    · have : d * t ≤ d * s := mul_le_mul_of_nonneg_left h1 hd.le
      linarith [hm.1]
    · have : d * s ≤ d * ((hi - o) / d) := mul_le_mul_of_nonneg_left h2 hd.le
      linarith

/-- the column (in `x`, `z`) of cell `(i, j)` -/
def ColMem (h : HeightField3 K) (i j : Nat) (p : V3 K) : Prop :=
  letI := fieldNum K sq
  (h.xAt j ≤ p.x ∧ p.x ≤ h.xAt (j + 1)) ∧ (h.zAt i ≤ p.z ∧ p.z ≤ h.zAt (i + 1))

/-- `nextCell` written with `axisToi` and `max` -/
def nextCellA (big : K) (h : HeightField3 K) (ray : Ray3 K) (maxT : K) (ci cj : Nat) : Option (Nat × Nat) :=
  letI := fieldNum K sq
  let tx := axisToi big (h.xAt cj) (h.xAt (cj + 1)) ray.o.x ray.d.x
  let tz := axisToi big (h.zAt ci) (h.zAt (ci + 1)) ray.o.z ray.d.z
  let toiX := max tx.1 0
  let toiZ := max tz.1 0
  if maxT < toiX ∧ maxT < toiZ then none else
  let next : Option (Nat × Nat) :=
    if 0 ≤ toiX ∧ toiX < toiZ then
      (if tx.2 then some (ci, cj + 1) else if 0 < cj then some (ci, cj - 1) else none)
    else if 0 ≤ toiZ then
      (if tz.2 then some (ci + 1, cj) else if 0 < ci then some (ci - 1, cj) else none)
    else none
  match next with
  | none => none
  | some (ni, nj) => if h.nr - 1 ≤ ni ∨ h.nc - 1 ≤ nj then none else some (ni, nj)

theorem nextCell_eq (big : K) (h : HeightField3 K) (ray : Ray3 K) (maxT : K) (ci cj : Nat) :
    letI := fieldNum K sq
    h.nextCell big ray maxT ci cj = nextCellA sq big h ray maxT ci cj := by
  simp only [HeightField3.nextCell, nextCellA, axisToi, fieldNum_nmax]
  rfl

end C04
