import ParryModel.C04.Theorems3
import ParryModel.C04.ModelHf2
/-!
# C04 property theorems, part 5: completeness of the 3-D heightfield grid walk

`hf_nextCell_step` (part 3) is one step; here the induction over the whole `loop` of `ray_heightfield.rs` is carried out.

Vocabulary: `HfSurf h p` — `p` lies on a triangle of some cell of the grid; `ColMem h i j p` — `p` is in the (closed) column
of cell `(i, j)`; `HfWatertight h` — a surface point that lies in the closed column of a cell lies on a triangle of THAT cell
(true for every heightfield without removed triangles: neighbouring cells share their boundary edges and nodes; it fails
exactly when a removed triangle leaves a boundary edge owned by one cell only, which is where the real walk — which visits
ONE of the two cells a ray running along a grid line touches — can miss a grazing contact).
-/
namespace C04
open Model

variable {K : Type} [Field K] [LinearOrder K] [IsStrictOrderedRing K] (sq : K → K)

/-- the heightfield surface: the union of the triangles of all cells -/
def HfSurf (h : HeightField3 K) (p : V3 K) : Prop :=
  letI := fieldNum K sq
  ∃ i j, i < h.nr - 1 ∧ j < h.nc - 1 ∧ CellMem sq (h.trianglesAt i j).1 (h.trianglesAt i j).2 p

/-- a surface point in the closed column of a cell is on a triangle of that cell -/
def HfWatertight (h : HeightField3 K) : Prop :=
  letI := fieldNum K sq
  ∀ i j p, i < h.nr - 1 → j < h.nc - 1 → ColMem sq h i j p → HfSurf sq h p →
    CellMem sq (h.trianglesAt i j).1 (h.trianglesAt i j).2 p

/-- watertightness along one ray: what the walk theorems actually use -/
def HfRayWatertight (h : HeightField3 K) (ray : Ray3 K) : Prop :=
  letI := fieldNum K sq
  ∀ s i j, i < h.nr - 1 → j < h.nc - 1 → ColMem sq h i j (rayPt sq ray s) → HfSurf sq h (rayPt sq ray s) →
    CellMem sq (h.trianglesAt i j).1 (h.trianglesAt i j).2 (rayPt sq ray s)

/-- the open column of cell `(i, j)` -/
def ColInt (h : HeightField3 K) (i j : Nat) (p : V3 K) : Prop :=
  letI := fieldNum K sq
  (h.xAt j < p.x ∧ p.x < h.xAt (j + 1)) ∧ (h.zAt i < p.z ∧ p.z < h.zAt (i + 1))

/-- no ray/triangle pair of the field is coplanar (the case the triangle cast gives up on, KNOWN_FINDINGS) -/
def HfNotCoplanar (h : HeightField3 K) (ray : Ray3 K) : Prop :=
  letI := fieldNum K sq
  ∀ i j, ONotCoplanar sq (h.trianglesAt i j).1 ray ∧ ONotCoplanar sq (h.trianglesAt i j).2 ray

/-- remaining steps of the walk: cells still ahead in the direction of travel, per axis -/
def hfRemaining (h : HeightField3 K) (ray : Ray3 K) (ci cj : Nat) : Nat :=
  (if 0 < ray.d.x then (h.nc - 2) - cj else cj) + (if 0 < ray.d.z then (h.nr - 2) - ci else ci)

/-! ### geometry of one cell -/

private theorem between_of_bary (lo hi a b c u v : K) (hlh : lo ≤ hi) (ha : a = lo ∨ a = hi) (hb : b = lo ∨ b = hi)
    (hc : c = lo ∨ c = hi) (hu : 0 ≤ u) (hv : 0 ≤ v) (huv : u + v ≤ 1) :
    lo ≤ a + (b - a) * u + (c - a) * v ∧ a + (b - a) * u + (c - a) * v ≤ hi := by
  have hd : 0 ≤ hi - lo := sub_nonneg.2 hlh
  have h1 := mul_nonneg hd hu
  have h2 := mul_nonneg hd hv
  have h3 := mul_nonneg hd (sub_nonneg.2 huv)
  rcases ha with rfl | rfl <;> rcases hb with rfl | rfl <;> rcases hc with rfl | rfl <;> constructor <;> nlinarith

/-- the vertices of the triangles of cell `(i, j)` sit on the four grid lines of the cell -/
private theorem trianglesAt_vertices (h : HeightField3 K) (i j : Nat) (tr : Triangle3 K) :
    letI := fieldNum K sq
    ((h.trianglesAt i j).1 = some tr ∨ (h.trianglesAt i j).2 = some tr) →
    ((tr.a.x = h.xAt j ∨ tr.a.x = h.xAt (j + 1)) ∧ (tr.b.x = h.xAt j ∨ tr.b.x = h.xAt (j + 1)) ∧
      (tr.c.x = h.xAt j ∨ tr.c.x = h.xAt (j + 1))) ∧
    ((tr.a.z = h.zAt i ∨ tr.a.z = h.zAt (i + 1)) ∧ (tr.b.z = h.zAt i ∨ tr.b.z = h.zAt (i + 1)) ∧
      (tr.c.z = h.zAt i ∨ tr.c.z = h.zAt (i + 1))) := by
  intro hm
  simp only [HeightField3.trianglesAt] at hm
  simp only [HeightField3.xAt, HeightField3.zAt]
  split_ifs at hm <;> rcases hm with hm | hm <;> simp only [Option.some.injEq] at hm <;>
    subst hm <;> simp

/-- **a triangle of a cell lies in the closed column of the cell** -/
theorem hf_cellMem_colMem (h : HeightField3 K) (i j : Nat) (p : V3 K)
    (hmx : letI := fieldNum K sq; h.xAt j ≤ h.xAt (j + 1))
    (hmz : letI := fieldNum K sq; h.zAt i ≤ h.zAt (i + 1)) :
    letI := fieldNum K sq
    CellMem sq (h.trianglesAt i j).1 (h.trianglesAt i j).2 p → ColMem sq h i j p := by
  intro hc
  have key : ∀ tr : Triangle3 K, ((@HeightField3.trianglesAt K (fieldNum K sq) h i j).1 = some tr ∨
      (@HeightField3.trianglesAt K (fieldNum K sq) h i j).2 = some tr) →
      @Triangle3.Mem K (fieldNum K sq) tr p → ColMem sq h i j p := by
    intro tr htr hmem
    obtain ⟨⟨ax, bx, cx⟩, ⟨az, bz, cz⟩⟩ := trianglesAt_vertices sq h i j tr htr
    obtain ⟨u, v, hu, hv, huv, hp⟩ := hmem
    have px : p.x = tr.a.x + (tr.b.x - tr.a.x) * u + (tr.c.x - tr.a.x) * v := by
      rw [hp]; simp only [V3.add, V3.sub, V3.smul]
    have pz : p.z = tr.a.z + (tr.b.z - tr.a.z) * u + (tr.c.z - tr.a.z) * v := by
      rw [hp]; simp only [V3.add, V3.sub, V3.smul]
    refine ⟨?_, ?_⟩
    · rw [px]; exact between_of_bary _ _ _ _ _ u v hmx ax bx cx hu hv huv
    · rw [pz]; exact between_of_bary _ _ _ _ _ u v hmz az bz cz hu hv huv
  rcases hc with ⟨tr, e, m⟩ | ⟨tr, e, m⟩
  · exact key tr (Or.inl e) m
  · exact key tr (Or.inr e) m

/-- the closed column is convex along the ray -/
private theorem colMem_convex (h : HeightField3 K) (ray : Ray3 K) (i j : Nat) (t0 t1 s : K)
    (h0 : ColMem sq h i j (rayPt sq ray t0)) (h1 : ColMem sq h i j (rayPt sq ray t1)) (a : t0 ≤ s) (b : s ≤ t1) :
    ColMem sq h i j (rayPt sq ray s) := by
  have hpx : ∀ s, (rayPt sq ray s).x = ray.o.x + ray.d.x * s := fun s => rfl
  have hpz : ∀ s, (rayPt sq ray s).z = ray.o.z + ray.d.z * s := fun s => rfl
  obtain ⟨⟨a1, a2⟩, ⟨a3, a4⟩⟩ := h0
  obtain ⟨⟨b1, b2⟩, ⟨b3, b4⟩⟩ := h1
  rw [hpx] at a1 a2 b1 b2; rw [hpz] at a3 a4 b3 b4
  refine ⟨⟨?_, ?_⟩, ⟨?_, ?_⟩⟩
  · rw [hpx]; rcases le_total 0 ray.d.x with hd | hd
    · nlinarith [mul_le_mul_of_nonneg_left a hd]
    · nlinarith [mul_le_mul_of_nonpos_left b hd]
  · rw [hpx]; rcases le_total 0 ray.d.x with hd | hd
    · nlinarith [mul_le_mul_of_nonneg_left b hd]
    · nlinarith [mul_le_mul_of_nonpos_left a hd]
  · rw [hpz]; rcases le_total 0 ray.d.z with hd | hd
    · nlinarith [mul_le_mul_of_nonneg_left a hd]
    · nlinarith [mul_le_mul_of_nonpos_left b hd]
  · rw [hpz]; rcases le_total 0 ray.d.z with hd | hd
    · nlinarith [mul_le_mul_of_nonneg_left b hd]
    · nlinarith [mul_le_mul_of_nonpos_left a hd]

private theorem mono_le {f : Nat → K} (hm : ∀ j, f j ≤ f (j + 1)) : ∀ a b, a ≤ b → f a ≤ f b :=
  fun _ _ hab => monotone_nat_of_le_succ hm hab

/-! ### direction and validity of a step -/

/-- a step of the walk goes to a valid 4-neighbour, in the direction of travel of the ray along the axis it steps on -/
theorem hf_nextCell_dir (big : K) (h : HeightField3 K) (ray : Ray3 K) (maxT : K) (ci cj ni nj : Nat)
    (hbig : maxT < big) :
    letI := fieldNum K sq
    h.nextCell big ray maxT ci cj = some (ni, nj) →
    (ni < h.nr - 1 ∧ nj < h.nc - 1) ∧
    ((ni = ci ∧ nj = cj + 1 ∧ 0 < ray.d.x) ∨ (ni = ci ∧ nj + 1 = cj ∧ ray.d.x < 0) ∨
     (nj = cj ∧ ni = ci + 1 ∧ 0 < ray.d.z) ∨ (nj = cj ∧ ni + 1 = ci ∧ ray.d.z < 0)) := by
  rw [nextCell_eq]
  simp only [nextCellA]
  have hx0 : ray.d.x = 0 → big ≤ max (axisToi big (@HeightField3.xAt K (fieldNum K sq) h cj)
      (@HeightField3.xAt K (fieldNum K sq) h (cj + 1)) ray.o.x ray.d.x).1 0 ∧
      (axisToi big (@HeightField3.xAt K (fieldNum K sq) h cj)
      (@HeightField3.xAt K (fieldNum K sq) h (cj + 1)) ray.o.x ray.d.x).2 = false := by
    intro e; simp only [axisToi, e, lt_irrefl, if_false]; exact ⟨le_max_left _ _, trivial⟩
  have hz0 : ray.d.z = 0 → big ≤ max (axisToi big (@HeightField3.zAt K (fieldNum K sq) h ci)
      (@HeightField3.zAt K (fieldNum K sq) h (ci + 1)) ray.o.z ray.d.z).1 0 ∧
      (axisToi big (@HeightField3.zAt K (fieldNum K sq) h ci)
      (@HeightField3.zAt K (fieldNum K sq) h (ci + 1)) ray.o.z ray.d.z).2 = false := by
    intro e; simp only [axisToi, e, lt_irrefl, if_false]; exact ⟨le_max_left _ _, trivial⟩
  have hxt : (axisToi big (@HeightField3.xAt K (fieldNum K sq) h cj)
      (@HeightField3.xAt K (fieldNum K sq) h (cj + 1)) ray.o.x ray.d.x).2 = true ↔ 0 < ray.d.x := by
    simp only [axisToi]; split_ifs <;> simp_all
  have hzt : (axisToi big (@HeightField3.zAt K (fieldNum K sq) h ci)
      (@HeightField3.zAt K (fieldNum K sq) h (ci + 1)) ray.o.z ray.d.z).2 = true ↔ 0 < ray.d.z := by
    simp only [axisToi]; split_ifs <;> simp_all
  have hTx0 : 0 ≤ max (axisToi big (@HeightField3.xAt K (fieldNum K sq) h cj)
      (@HeightField3.xAt K (fieldNum K sq) h (cj + 1)) ray.o.x ray.d.x).1 0 := le_max_right _ _
  generalize max (axisToi big (@HeightField3.xAt K (fieldNum K sq) h cj)
    (@HeightField3.xAt K (fieldNum K sq) h (cj + 1)) ray.o.x ray.d.x).1 0 = Tx at *
  generalize max (axisToi big (@HeightField3.zAt K (fieldNum K sq) h ci)
    (@HeightField3.zAt K (fieldNum K sq) h (ci + 1)) ray.o.z ray.d.z).1 0 = Tz at *
  generalize (axisToi big (@HeightField3.xAt K (fieldNum K sq) h cj)
    (@HeightField3.xAt K (fieldNum K sq) h (cj + 1)) ray.o.x ray.d.x).2 = fx at *
  generalize (axisToi big (@HeightField3.zAt K (fieldNum K sq) h ci)
    (@HeightField3.zAt K (fieldNum K sq) h (ci + 1)) ray.o.z ray.d.z).2 = fz at *
  intro hn
  by_cases hstop : maxT < Tx ∧ maxT < Tz
  · rw [if_pos hstop] at hn; cases hn
  · rw [if_neg hstop] at hn
    by_cases hxs : 0 ≤ Tx ∧ Tx < Tz
    · rw [if_pos hxs] at hn
      have hdx : ray.d.x ≠ 0 := by
        intro e
        have := (hx0 e).1
        exact hstop ⟨lt_of_lt_of_le hbig this, lt_trans (lt_of_lt_of_le hbig this) hxs.2⟩
      cases fx with
      | true =>
        simp only [if_true] at hn
        split_ifs at hn with hidx
        simp only [Option.some.injEq, Prod.mk.injEq] at hn
        obtain ⟨rfl, rfl⟩ := hn
        exact ⟨by omega, Or.inl ⟨rfl, rfl, hxt.1 rfl⟩⟩
      | false =>
        have hneg : ray.d.x < 0 := by
          rcases lt_trichotomy ray.d.x 0 with c | c | c
          · exact c
          · exact absurd c hdx
          · exact absurd (hxt.2 c) (by simp)
        simp only [Bool.false_eq_true, if_false] at hn
        by_cases hcj : 0 < cj
        · simp only [hcj, if_true] at hn
          split_ifs at hn with hidx
          simp only [Option.some.injEq, Prod.mk.injEq] at hn
          obtain ⟨rfl, rfl⟩ := hn
          exact ⟨by omega, Or.inr (Or.inl ⟨rfl, by omega, hneg⟩)⟩
        · simp only [hcj, if_false] at hn
          cases hn
    · rw [if_neg hxs] at hn
      by_cases hTz0 : 0 ≤ Tz
      · rw [if_pos hTz0] at hn
        have hdz : ray.d.z ≠ 0 := by
          intro e
          have hb := (hz0 e).1
          have hzx : ¬ (0 ≤ Tx ∧ Tx < Tz) := hxs
          by_cases h0 : 0 ≤ Tx
          · have : Tz ≤ Tx := not_lt.1 (fun c => hzx ⟨h0, c⟩)
            exact hstop ⟨lt_of_lt_of_le hbig (le_trans hb this), lt_of_lt_of_le hbig hb⟩
          · exact h0 hTx0
        cases fz with
        | true =>
          simp only [if_true] at hn
          split_ifs at hn with hidx
          simp only [Option.some.injEq, Prod.mk.injEq] at hn
          obtain ⟨rfl, rfl⟩ := hn
          exact ⟨by omega, Or.inr (Or.inr (Or.inl ⟨rfl, rfl, hzt.1 rfl⟩))⟩
        | false =>
          have hneg : ray.d.z < 0 := by
            rcases lt_trichotomy ray.d.z 0 with c | c | c
            · exact c
            · exact absurd c hdz
            · exact absurd (hzt.2 c) (by simp)
          simp only [Bool.false_eq_true, if_false] at hn
          by_cases hci : 0 < ci
          · simp only [hci, if_true] at hn
            split_ifs at hn with hidx
            simp only [Option.some.injEq, Prod.mk.injEq] at hn
            obtain ⟨rfl, rfl⟩ := hn
            exact ⟨by omega, Or.inr (Or.inr (Or.inr ⟨rfl, by omega, hneg⟩))⟩
          · simp only [hci, if_false] at hn
            cases hn
      · rw [if_neg hTz0] at hn; cases hn


/-! ### the induction over the walk -/

/-- the part of the ray inside the closed column of a cell whose cast reported nothing carries no surface point -/
private theorem no_surf_in_missed_col (h : HeightField3 K) (ray : Ray3 K) (max : K) (solid : Bool) (ci cj : Nat)
    (hvalid : ci < h.nr - 1 ∧ cj < h.nc - 1) (hnc : HfNotCoplanar sq h ray) (hw : HfRayWatertight sq h ray)
    (hc : letI := fieldNum K sq
      hfCellCast (h.trianglesAt ci cj).1 (h.trianglesAt ci cj).2 ray max solid = none)
    (s : K) (hs0 : 0 ≤ s) (hsm : s ≤ max) (hcol : ColMem sq h ci cj (rayPt sq ray s)) :
    ¬ HfSurf sq h (rayPt sq ray s) := by
  intro hsurf
  have hm := hw s ci cj hvalid.1 hvalid.2 hcol hsurf
  have hf := hfCellCast_firstHit sq _ _ ray max solid (hnc ci cj).1 (hnc ci cj).2
  rw [hc] at hf
  exact hf s hs0 hsm hm

/-- **Completeness of the 3-D heightfield grid walk** (the `loop` of `ray_heightfield.rs`, corrected boundary times).
Start the walk in the valid cell `(ci, cj)` with the ray in the closed column of that cell at parameter `t0 ≥ 0`; grid lines
non-decreasing (`hf_grid_mono`), `max_t ≤ max_toi`, `max_t < Real::MAX`, no triangle coplanar with the ray, surface
watertight along the ray (`HfRayWatertight`), enough fuel for the cells ahead (`hfRemaining`, which the cast's own fuel `nrows + ncols` always exceeds).  Then
* `Some r`: `0 ≤ r.toi ≤ max_toi`, the point `origin + dir·toi` is on the surface, and NO point of the ray at a parameter of
  `[t0, toi)` is on the surface of ANY cell — the walk skipped nothing;
* `None`: no point of the ray at a parameter of `[t0, max_t]` is on the surface. -/
theorem hf_walk_firstHit (big : K) (h : HeightField3 K) (ray : Ray3 K) (max : K) (solid : Bool) (maxT : K)
    (hbig : maxT < big) (hmax : maxT ≤ max)
    (hmx : letI := fieldNum K sq; ∀ j, h.xAt j ≤ h.xAt (j + 1))
    (hmz : letI := fieldNum K sq; ∀ i, h.zAt i ≤ h.zAt (i + 1))
    (hnc : HfNotCoplanar sq h ray) (hw : HfRayWatertight sq h ray)
    (fuel : Nat) (ci cj : Nat) (t0 : K) (ht0 : 0 ≤ t0)
    (hvalid : ci < h.nr - 1 ∧ cj < h.nc - 1)
    (hin : ColMem sq h ci cj (rayPt sq ray t0))
    (hfuel : hfRemaining h ray ci cj < fuel) :
    letI := fieldNum K sq
    match HeightField3.walk big h ray max solid maxT fuel (ci, cj) with
    | some r => 0 ≤ r.toi ∧ r.toi ≤ max ∧ HfSurf sq h (rayPt sq ray r.toi) ∧
        ∀ s, t0 ≤ s → s < r.toi → ¬ HfSurf sq h (rayPt sq ray s)
    | none => ∀ s, t0 ≤ s → s ≤ maxT → ¬ HfSurf sq h (rayPt sq ray s) := by
  induction fuel generalizing ci cj t0 with
  | zero => exact absurd hfuel (Nat.not_lt_zero _)
  | succ n ih =>
    simp only [HeightField3.walk]
    cases hc : (@hfCellCast K (fieldNum K sq) (@HeightField3.trianglesAt K (fieldNum K sq) h ci cj).1
        (@HeightField3.trianglesAt K (fieldNum K sq) h ci cj).2 ray max solid) with
    | some p =>
      obtain ⟨left, hit⟩ := p
      simp only
      have hf := hfCellCast_firstHit sq _ _ ray max solid (hnc ci cj).1 (hnc ci cj).2
      rw [hc] at hf
      simp only [Option.map_some] at hf
      obtain ⟨f0, f1, f2, f3⟩ := hf
      refine ⟨f0, f1, ⟨ci, cj, hvalid.1, hvalid.2, f2⟩, fun s a b hsurf => ?_⟩
      have hcolhit := hf_cellMem_colMem sq h ci cj _ (hmx cj) (hmz ci) f2
      have hcol := colMem_convex sq h ray ci cj t0 hit.toi s hin hcolhit a b.le
      exact f3 s (le_trans ht0 a) b (hw s ci cj hvalid.1 hvalid.2 hcol hsurf)
    | none =>
      simp only
      have hmiss := no_surf_in_missed_col sq h ray max solid ci cj hvalid hnc hw hc
      have hstep := hf_nextCell_step sq big h ray maxT t0 ci cj ht0 hbig hvalid hmx hmz hin
      cases hn : (@HeightField3.nextCell K (fieldNum K sq) big h ray maxT ci cj) with
      | none =>
        rw [hn] at hstep
        simp only
        intro s a b
        rcases hstep with hall | ⟨te, h1, h2, hall, hexit⟩
        · exact hmiss s (le_trans ht0 a) (le_trans b hmax) (hall s a b)
        · rcases le_or_gt s te with hle | hgt
          · exact hmiss s (le_trans ht0 a) (le_trans b hmax) (hall s a hle)
          · -- beyond the outer edge of the grid: outside every column
            rintro ⟨i, j, hi, hj, hcm⟩
            obtain ⟨⟨c1, c2⟩, ⟨c3, c4⟩⟩ := hf_cellMem_colMem sq h i j _ (hmx j) (hmz i) hcm
            have hpx : ∀ s, (rayPt sq ray s).x = ray.o.x + ray.d.x * s := fun s => rfl
            have hpz : ∀ s, (rayPt sq ray s).z = ray.o.z + ray.d.z * s := fun s => rfl
            rw [hpx] at c1 c2; rw [hpz] at c3 c4
            rcases hexit with ⟨hd, he⟩ | ⟨hd, he⟩ | ⟨hd, he⟩ | ⟨hd, he⟩
            · rw [hpx] at he
              have := mono_le (K := K) hmx 0 j (Nat.zero_le _)
              nlinarith [mul_lt_mul_of_neg_left hgt hd]
            · rw [hpx] at he
              have := mono_le (K := K) hmx (j + 1) (h.nc - 1) (by omega)
              nlinarith [mul_lt_mul_of_pos_left hgt hd]
            · rw [hpz] at he
              have := mono_le (K := K) hmz 0 i (Nat.zero_le _)
              nlinarith [mul_lt_mul_of_neg_left hgt hd]
            · rw [hpz] at he
              have := mono_le (K := K) hmz (i + 1) (h.nr - 1) (by omega)
              nlinarith [mul_lt_mul_of_pos_left hgt hd]
      | some c =>
        obtain ⟨ni, nj⟩ := c
        rw [hn] at hstep
        simp only
        obtain ⟨te, h1, h2, hall, hcolN, _⟩ := hstep
        obtain ⟨hvN, hdir⟩ := hf_nextCell_dir sq big h ray maxT ci cj ni nj hbig hn
        have hfuelN : hfRemaining h ray ni nj < n := by
          simp only [hfRemaining] at hfuel ⊢
          rcases hdir with ⟨rfl, rfl, hd⟩ | ⟨rfl, e, hd⟩ | ⟨rfl, rfl, hd⟩ | ⟨rfl, e, hd⟩
          · rw [if_pos hd] at hfuel ⊢; omega
          · rw [if_neg (not_lt.2 hd.le)] at hfuel ⊢; omega
          · rw [if_pos hd] at hfuel ⊢; omega
          · rw [if_neg (not_lt.2 hd.le)] at hfuel ⊢; omega
        have hrec := ih ni nj te (le_trans ht0 h1) hvN hcolN hfuelN
        cases hwk : (@HeightField3.walk K (fieldNum K sq) big h ray max solid maxT n (ni, nj)) with
        | some r =>
          rw [hwk] at hrec
          simp only at hrec ⊢
          obtain ⟨r0, r1, r2, r3⟩ := hrec
          refine ⟨r0, r1, r2, fun s a b => ?_⟩
          rcases le_or_gt s te with hle | hgt
          · exact hmiss s (le_trans ht0 a) (le_trans (le_trans hle h2) hmax) (hall s a hle)
          · exact r3 s hgt.le b
        | none =>
          rw [hwk] at hrec
          simp only at hrec ⊢
          intro s a b
          rcases le_or_gt s te with hle | hgt
          · exact hmiss s (le_trans ht0 a) (le_trans b hmax) (hall s a hle)
          · exact hrec s hgt.le b


/-! ### the start cell -/

private theorem lit_natK (n : Nat) : @lit K (fieldNum K sq) ((n : Nat) : Int) 1 = (n : K) := by
  rw [fieldNum_lit]; simp [Rat.mkRat_one]

/-- counting characterisation of the clamped floor -/
private theorem cnt_spec (x : K) (P : Nat → Bool) (hP : ∀ k, P k = true ↔ (1 ≤ k ∧ (k : K) ≤ x)) :
    ∀ n, ((List.range n).filter P).length ≤ n - 1 ∧
      (1 ≤ ((List.range n).filter P).length → ((((List.range n).filter P).length : Nat) : K) ≤ x) ∧
      (((List.range n).filter P).length + 1 < n → x < ((((List.range n).filter P).length : Nat) : K) + 1) := by
  intro n
  induction n with
  | zero => simp
  | succ n ih =>
    rw [List.range_succ, List.filter_append, List.length_append]
    generalize ((List.range n).filter P).length = c at ih ⊢
    obtain ⟨i1, i2, i3⟩ := ih
    cases hp : P n with
    | true =>
      obtain ⟨hn1, hnx⟩ := (hP n).1 hp
      have hc : c = n - 1 := by
        by_contra hne
        have hlt : c + 1 < n := by omega
        have h1 := i3 hlt
        have h2 : ((c : K) + 1) ≤ (n : K) := by exact_mod_cast hlt.le
        linarith
      simp only [List.filter_cons, hp, if_true, List.filter_nil, List.length_singleton]
      have e : c + 1 = n := by omega
      rw [e]
      exact ⟨by omega, fun _ => hnx, fun hh => absurd hh (lt_irrefl _)⟩
    | false =>
      simp only [List.filter_cons, hp, Bool.false_eq_true, if_false, List.filter_nil, List.length_nil, add_zero]
      refine ⟨by omega, i2, fun hh => ?_⟩
      by_cases hlt : c + 1 < n
      · exact i3 hlt
      · have e : c + 1 = n := by omega
        have hnp : ¬ (1 ≤ n ∧ (n : K) ≤ x) := fun hh' => by rw [(hP n).2 hh'] at hp; cases hp
        have : ¬ (n : K) ≤ x := fun hh' => hnp ⟨by omega, hh'⟩
        have e2 : ((c : K) + 1) = (n : K) := by exact_mod_cast e
        rw [e2]; exact not_le.1 this

/-- one axis of `closest_cell_at_point`: for a coordinate inside the footprint the quantised index names a grid interval
that contains it -/
private theorem quantize_spec (val u scale : K) (N : Nat) (hN : 1 ≤ N) (hu : u * (N : K) = 1) (hs : 0 < scale)
    (hlo : (-(1/2 : K)) * scale ≤ val) (hhi : val ≤ (1/2 : K) * scale) :
    letI := fieldNum K sq
    let j := HeightField3.quantizeFloor (val / scale) u N
    j < N ∧ (-(1/2 : K) + u * (j : K)) * scale ≤ val ∧ val ≤ (-(1/2 : K) + u * ((j + 1 : Nat) : K)) * scale := by
  have hNpos : (0 : K) < (N : K) := by exact_mod_cast hN
  have hupos : 0 < u := by
    by_contra hc; push Not at hc
    nlinarith [mul_nonneg_of_nonpos_of_nonpos hc (neg_nonpos.2 hNpos.le)]
  have hl : @lit K (fieldNum K sq) 1 2 = (1 / 2 : K) := by rw [fieldNum_lit]; norm_num
  simp only [HeightField3.quantizeFloor, hl]
  set x : K := (val / scale + 1 / 2) / u with hx
  have hP : ∀ k : Nat, ((fun (k : Nat) => decide (1 ≤ k) && @decide (@LE.le K (fieldNum K sq).toLE
      (@lit K (fieldNum K sq) ((k : Nat) : Int) 1) x) ((fieldNum K sq).decLe _ _)) k = true) ↔ (1 ≤ k ∧ (k : K) ≤ x) := by
    intro k
    simp only [Bool.and_eq_true, decide_eq_true_eq, lit_natK]
  obtain ⟨c1, c2, c3⟩ := cnt_spec x _ hP N
  generalize ((List.range N).filter _).length = c at c1 c2 c3 ⊢
  have hvs : val / scale * scale = val := div_mul_cancel₀ _ (ne_of_gt hs)
  have hxu : x * u = val / scale + 1 / 2 := div_mul_cancel₀ _ (ne_of_gt hupos)
  refine ⟨by omega, ?_, ?_⟩
  · by_cases h1 : 1 ≤ c
    · have := c2 h1
      have h2 : u * (c : K) ≤ val / scale + 1 / 2 := by rw [← hxu]; nlinarith
      nlinarith [mul_le_mul_of_nonneg_right h2 hs.le]
    · have e : c = 0 := by omega
      subst e; simp only [Nat.cast_zero, mul_zero, add_zero]; linarith
  · by_cases h1 : c + 1 < N
    · have := c3 h1
      have h2 : val / scale + 1 / 2 ≤ u * ((c : K) + 1) := by rw [← hxu]; nlinarith
      push_cast
      nlinarith [mul_le_mul_of_nonneg_right h2 hs.le]
    · have e : c + 1 = N := by omega
      rw [e, hu]; linarith


private theorem lit_half : @lit K (fieldNum K sq) 1 2 = (1 / 2 : K) := by rw [fieldNum_lit]; norm_num

private theorem xAt_eq (h : HeightField3 K) (j : Nat) :
    letI := fieldNum K sq
    h.xAt j = (-(1 / 2 : K) + h.ucw * (j : K)) * h.sc.x := by
  simp only [HeightField3.xAt, lit_half, lit_natK]
private theorem zAt_eq (h : HeightField3 K) (i : Nat) :
    letI := fieldNum K sq
    h.zAt i = (-(1 / 2 : K) + h.uch * (i : K)) * h.sc.z := by
  simp only [HeightField3.zAt, lit_half, lit_natK]

private theorem ucw_mul (h : HeightField3 K) (hnc : 2 ≤ h.nc) :
    letI := fieldNum K sq
    h.ucw * (((h.nc - 1 : Nat)) : K) = 1 := by
  simp only [HeightField3.ucw, lit_natK]
  have e : (((h.nc - 1 : Nat)) : K) = (h.nc : K) - 1 := by
    rw [Nat.cast_sub (by omega)]; simp
  rw [e]
  have : (2 : K) ≤ (h.nc : K) := by exact_mod_cast hnc
  have hne : (h.nc : K) - 1 ≠ 0 := by intro h0; linarith
  field_simp
private theorem uch_mul (h : HeightField3 K) (hnr : 2 ≤ h.nr) :
    letI := fieldNum K sq
    h.uch * (((h.nr - 1 : Nat)) : K) = 1 := by
  simp only [HeightField3.uch, lit_natK]
  have e : (((h.nr - 1 : Nat)) : K) = (h.nr : K) - 1 := by
    rw [Nat.cast_sub (by omega)]; simp
  rw [e]
  have : (2 : K) ≤ (h.nr : K) := by exact_mod_cast hnr
  have hne : (h.nr : K) - 1 ≠ 0 := by intro h0; linarith
  field_simp

/-- **the start cell contains the entry point**: for a point whose `x`, `z` lie in the footprint of the field,
`closest_cell_at_point` returns a valid cell whose closed column contains the point -/
theorem hf_closestCell_colMem (h : HeightField3 K) (p : V3 K) (hnc : 2 ≤ h.nc) (hnr : 2 ≤ h.nr)
    (hsx : 0 < h.sc.x) (hsz : 0 < h.sc.z)
    (hx : -(1 / 2 : K) * h.sc.x ≤ p.x ∧ p.x ≤ (1 / 2 : K) * h.sc.x)
    (hz : -(1 / 2 : K) * h.sc.z ≤ p.z ∧ p.z ≤ (1 / 2 : K) * h.sc.z) :
    letI := fieldNum K sq
    ((h.closestCell p).1 < h.nr - 1 ∧ (h.closestCell p).2 < h.nc - 1) ∧
      ColMem sq h (h.closestCell p).1 (h.closestCell p).2 p := by
  obtain ⟨a1, a2, a3⟩ := quantize_spec sq p.x (@HeightField3.ucw K (fieldNum K sq) h) h.sc.x (h.nc - 1) (by omega)
    (ucw_mul sq h hnc) hsx hx.1 hx.2
  obtain ⟨b1, b2, b3⟩ := quantize_spec sq p.z (@HeightField3.uch K (fieldNum K sq) h) h.sc.z (h.nr - 1) (by omega)
    (uch_mul sq h hnr) hsz hz.1 hz.2
  simp only [HeightField3.closestCell]
  refine ⟨⟨b1, a1⟩, ⟨?_, ?_⟩, ⟨?_, ?_⟩⟩
  · rw [xAt_eq]; exact a2
  · rw [xAt_eq]; exact a3
  · rw [zAt_eq]; exact b2
  · rw [zAt_eq]; exact b3

/-! ### 2-D heightfield: the start cell -/

/-- **2-D `HeightField` cast, start cell** (`cell_at_point` on the clipped entry point): for a point whose `x` lies in the
footprint `[-scale.x/2, scale.x/2]` (at least two heights, positive horizontal scale) the fallback branch is not taken, the
returned index is a cell of the field and the point lies between the two grid abscissae of that cell — the endpoints
`x0·scale.x`, `(x0 + unit_cell_width)·scale.x` of `segment_at(cell)`.  (Was: "that the start cell is the cell containing the
clipped entry point is not proved".) -/
theorem hf2_startCell_spec (h : HeightField2 K) (pt : V2 K) (ox : K) (hsize : 2 ≤ h.hs.size) (hsx : 0 < h.sc.x)
    (hlo : -(1 / 2 : K) * h.sc.x ≤ pt.x) (hhi : pt.x ≤ (1 / 2 : K) * h.sc.x) :
    letI := fieldNum K sq
    let c := h.startCell pt ox
    c < h.numCells ∧ (-(1 / 2 : K) + h.ucw * (c : K)) * h.sc.x ≤ pt.x ∧
      pt.x ≤ (-(1 / 2 : K) + h.ucw * (c : K) + h.ucw) * h.sc.x := by
  have hu : @HeightField2.ucw K (fieldNum K sq) h * (((h.hs.size - 1 : Nat)) : K) = 1 := by
    simp only [HeightField2.ucw, lit_natK]
    have e : (((h.hs.size - 1 : Nat)) : K) = (h.hs.size : K) - 1 := by
      rw [Nat.cast_sub (by omega)]; simp
    rw [e]
    have : (2 : K) ≤ (h.hs.size : K) := by exact_mod_cast hsize
    have hne : (h.hs.size : K) - 1 ≠ 0 := by intro h0; linarith
    field_simp
  obtain ⟨a1, a2, a3⟩ := quantize_spec sq pt.x (@HeightField2.ucw K (fieldNum K sq) h) h.sc.x (h.hs.size - 1) (by omega)
    hu hsx hlo hhi
  have hin : ¬ (pt.x / h.sc.x < -(1 / 2 : K) ∨ (1 / 2 : K) < pt.x / h.sc.x) := by
    rintro (c | c)
    · rw [div_lt_iff₀ hsx] at c; linarith
    · rw [lt_div_iff₀ hsx] at c; linarith
  simp only [HeightField2.startCell, HeightField2.numCells, lit_half, if_neg hin]
  refine ⟨a1, a2, ?_⟩
  have e : (-(1 / 2 : K) + @HeightField2.ucw K (fieldNum K sq) h *
      ((@HeightField3.quantizeFloor K (fieldNum K sq) (pt.x / h.sc.x) (@HeightField2.ucw K (fieldNum K sq) h)
        (h.hs.size - 1) : Nat) : K) + @HeightField2.ucw K (fieldNum K sq) h) =
      (-(1 / 2 : K) + @HeightField2.ucw K (fieldNum K sq) h *
      (((@HeightField3.quantizeFloor K (fieldNum K sq) (pt.x / h.sc.x) (@HeightField2.ucw K (fieldNum K sq) h)
        (h.hs.size - 1)) + 1 : Nat) : K)) := by push_cast; ring
  rw [e]; exact a3

/-! ### the surface lies in the bounding box -/

private theorem foldl_min_le :
    letI := fieldNum K sq
    ∀ (l : List K) (x : K), ∀ y ∈ x :: l, l.foldl (fun a b => if a ≤ b then a else b) x ≤ y := by
  intro l
  induction l with
  | nil => intro x y hy; simp only [List.mem_singleton] at hy; subst hy; exact le_refl _
  | cons b l ih =>
    intro x y hy
    simp only [List.foldl_cons]
    have hm1 : (if x ≤ b then x else b) ≤ x := by split_ifs with hh; exact le_refl _; exact (not_le.1 hh).le
    have hm2 : (if x ≤ b then x else b) ≤ b := by split_ifs with hh; exact hh; exact le_refl _
    have i0 := ih (if x ≤ b then x else b) _ (List.mem_cons_self)
    rcases List.mem_cons.1 hy with rfl | hy
    · exact le_trans i0 hm1
    · rcases List.mem_cons.1 hy with rfl | hy
      · exact le_trans i0 hm2
      · exact ih _ y (List.mem_cons_of_mem _ hy)

private theorem le_foldl_max :
    letI := fieldNum K sq
    ∀ (l : List K) (x : K), ∀ y ∈ x :: l, y ≤ l.foldl (fun a b => if b ≤ a then a else b) x := by
  intro l
  induction l with
  | nil => intro x y hy; simp only [List.mem_singleton] at hy; subst hy; exact le_refl _
  | cons b l ih =>
    intro x y hy
    simp only [List.foldl_cons]
    have hm1 : x ≤ (if b ≤ x then x else b) := by split_ifs with hh; exact le_refl _; exact (not_le.1 hh).le
    have hm2 : b ≤ (if b ≤ x then x else b) := by split_ifs with hh; exact hh; exact le_refl _
    have i0 := ih (if b ≤ x then x else b) _ (List.mem_cons_self)
    rcases List.mem_cons.1 hy with rfl | hy
    · exact le_trans hm1 i0
    · rcases List.mem_cons.1 hy with rfl | hy
      · exact le_trans hm2 i0
      · exact ih _ y (List.mem_cons_of_mem _ hy)

/-- every stored height lies between `heights.min()` and `heights.max()` -/
private theorem height_range (h : HeightField3 K) (hsz : h.hs.size = h.nr * h.nc) (i j : Nat) (hi : i < h.nr) (hj : j < h.nc) :
    letI := fieldNum K sq
    h.minH ≤ h.height i j ∧ h.height i j ≤ h.maxH := by
  have hidx : i + j * h.nr < h.hs.size := by
    rw [hsz]
    calc i + j * h.nr < h.nr + j * h.nr := by omega
      _ = (j + 1) * h.nr := by ring
      _ ≤ h.nc * h.nr := Nat.mul_le_mul_right _ hj
      _ = h.nr * h.nc := Nat.mul_comm _ _
  have hmem : (@HeightField3.height K (fieldNum K sq) h i j) ∈ h.hs.toList := by
    simp only [HeightField3.height, Array.getD_eq_getD_getElem?, Array.getElem?_eq_getElem hidx, Option.getD_some]
    exact Array.getElem_mem_toList hidx
  simp only [HeightField3.minH, HeightField3.maxH]
  cases hl : h.hs.toList with
  | nil => rw [hl] at hmem; cases hmem
  | cons x xs =>
    rw [hl] at hmem
    exact ⟨foldl_min_le sq xs x _ hmem, le_foldl_max sq xs x _ hmem⟩


private theorem between_of_bary' (lo hi a b c u v : K) (ha : lo ≤ a ∧ a ≤ hi) (hb : lo ≤ b ∧ b ≤ hi)
    (hc : lo ≤ c ∧ c ≤ hi) (hu : 0 ≤ u) (hv : 0 ≤ v) (huv : u + v ≤ 1) :
    lo ≤ a + (b - a) * u + (c - a) * v ∧ a + (b - a) * u + (c - a) * v ≤ hi := by
  have hw : 0 ≤ 1 - u - v := by linarith
  constructor
  · nlinarith [mul_nonneg hu (sub_nonneg.2 hb.1), mul_nonneg hv (sub_nonneg.2 hc.1), mul_nonneg hw (sub_nonneg.2 ha.1)]
  · nlinarith [mul_nonneg hu (sub_nonneg.2 hb.2), mul_nonneg hv (sub_nonneg.2 hc.2), mul_nonneg hw (sub_nonneg.2 ha.2)]

private theorem trianglesAt_heights (h : HeightField3 K) (i j : Nat) (tr : Triangle3 K) :
    letI := fieldNum K sq
    ((h.trianglesAt i j).1 = some tr ∨ (h.trianglesAt i j).2 = some tr) →
    ∀ v, (v = tr.a ∨ v = tr.b ∨ v = tr.c) → ∃ i' j', i' ≤ i + 1 ∧ j' ≤ j + 1 ∧ v.y = h.height i' j' * h.sc.y := by
  intro hm
  simp only [HeightField3.trianglesAt] at hm
  split_ifs at hm <;> rcases hm with hm | hm <;> simp only [Option.some.injEq] at hm <;>
    subst hm <;> rintro v (rfl | rfl | rfl) <;> exact ⟨_, _, by omega, by omega, rfl⟩

/-- **the surface lies in the bounding box computed by `HeightField::with_flags`** -/
theorem hf_surf_in_aabb (h : HeightField3 K) (p : V3 K) (hnc : 2 ≤ h.nc) (hnr : 2 ≤ h.nr)
    (hsx : 0 ≤ h.sc.x) (hsy : 0 ≤ h.sc.y) (hsz : 0 ≤ h.sc.z) (hsize : h.hs.size = h.nr * h.nc) :
    letI := fieldNum K sq
    HfSurf sq h p → AabbMem h.aabb p := by
  rintro ⟨i, j, hi, hj, hcm⟩
  obtain ⟨hmx, hmz⟩ := hf_grid_mono sq h hnc hnr hsx hsz
  obtain ⟨⟨c1, c2⟩, ⟨c3, c4⟩⟩ := hf_cellMem_colMem sq h i j p (hmx j) (hmz i) hcm
  have x0 := mono_le (K := K) hmx 0 j (Nat.zero_le _)
  have x1 := mono_le (K := K) hmx (j + 1) (h.nc - 1) (by omega)
  have z0 := mono_le (K := K) hmz 0 i (Nat.zero_le _)
  have z1 := mono_le (K := K) hmz (i + 1) (h.nr - 1) (by omega)
  rw [xAt_eq sq h 0] at x0; rw [xAt_eq sq h (h.nc - 1), ucw_mul sq h hnc] at x1
  rw [zAt_eq sq h 0] at z0; rw [zAt_eq sq h (h.nr - 1), uch_mul sq h hnr] at z1
  simp only [Nat.cast_zero, mul_zero, add_zero] at x0 z0
  have hy : @HeightField3.minH K (fieldNum K sq) h * h.sc.y ≤ p.y ∧
      p.y ≤ @HeightField3.maxH K (fieldNum K sq) h * h.sc.y := by
    have key : ∀ tr : Triangle3 K, ((@HeightField3.trianglesAt K (fieldNum K sq) h i j).1 = some tr ∨
        (@HeightField3.trianglesAt K (fieldNum K sq) h i j).2 = some tr) →
        @Triangle3.Mem K (fieldNum K sq) tr p → @HeightField3.minH K (fieldNum K sq) h * h.sc.y ≤ p.y ∧
          p.y ≤ @HeightField3.maxH K (fieldNum K sq) h * h.sc.y := by
      intro tr htr hmem
      have hv : ∀ v, (v = tr.a ∨ v = tr.b ∨ v = tr.c) →
          @HeightField3.minH K (fieldNum K sq) h * h.sc.y ≤ v.y ∧ v.y ≤ @HeightField3.maxH K (fieldNum K sq) h * h.sc.y := by
        intro v hvv
        obtain ⟨i', j', hi', hj', e⟩ := trianglesAt_heights sq h i j tr htr v hvv
        obtain ⟨r1, r2⟩ := height_range sq h hsize i' j' (by omega) (by omega)
        rw [e]
        exact ⟨mul_le_mul_of_nonneg_right r1 hsy, mul_le_mul_of_nonneg_right r2 hsy⟩
      obtain ⟨u, v, hu, hv', huv, hp⟩ := hmem
      have py : p.y = tr.a.y + (tr.b.y - tr.a.y) * u + (tr.c.y - tr.a.y) * v := by
        rw [hp]; simp only [V3.add, V3.sub, V3.smul]
      rw [py]
      exact between_of_bary' _ _ _ _ _ u v (hv _ (Or.inl rfl)) (hv _ (Or.inr (Or.inl rfl)))
        (hv _ (Or.inr (Or.inr rfl))) hu hv' huv
    rcases hcm with ⟨tr, e, m⟩ | ⟨tr, e, m⟩
    · exact key tr (Or.inl e) m
    · exact key tr (Or.inr e) m
  simp only [AabbMem, HeightField3.aabb, lit_half]
  refine ⟨⟨by linarith, by linarith⟩, hy, ⟨by linarith, by linarith⟩⟩

/-! ### two sufficient conditions for `HfRayWatertight` -/

/-- a watertight field is watertight along every ray -/
theorem hf_rayWatertight_of_watertight (h : HeightField3 K) (ray : Ray3 K) (hw : HfWatertight sq h) :
    HfRayWatertight sq h ray :=
  fun _ i j hi hj hc hs => hw i j _ hi hj hc hs

/-- **any field (removed triangles allowed), generic ray**: if every surface point of the ray lies in the OPEN column of
some cell (the ray never meets the surface exactly above a grid line), the field is watertight along the ray -/
theorem hf_rayWatertight_of_generic (h : HeightField3 K) (ray : Ray3 K)
    (hmx : letI := fieldNum K sq; ∀ j, h.xAt j ≤ h.xAt (j + 1))
    (hmz : letI := fieldNum K sq; ∀ i, h.zAt i ≤ h.zAt (i + 1))
    (hgen : ∀ s, HfSurf sq h (rayPt sq ray s) → ∃ i j, ColInt sq h i j (rayPt sq ray s)) :
    HfRayWatertight sq h ray := by
  intro s i j hi hj hcol hsurf
  obtain ⟨i0, j0, ⟨x1, x2⟩, ⟨z1, z2⟩⟩ := hgen s hsurf
  -- a closed column containing a point of the open column (i0, j0) is the column (i0, j0)
  have uniq : ∀ i' j', ColMem sq h i' j' (rayPt sq ray s) → i' = i0 ∧ j' = j0 := by
    rintro i' j' ⟨⟨a1, a2⟩, ⟨a3, a4⟩⟩
    constructor
    · rcases Nat.lt_trichotomy i' i0 with c | c | c
      · have := mono_le (K := K) hmz (i' + 1) i0 (by omega); linarith
      · exact c
      · have := mono_le (K := K) hmz (i0 + 1) i' (by omega); linarith
    · rcases Nat.lt_trichotomy j' j0 with c | c | c
      · have := mono_le (K := K) hmx (j' + 1) j0 (by omega); linarith
      · exact c
      · have := mono_le (K := K) hmx (j0 + 1) j' (by omega); linarith
  obtain ⟨i', j', hi', hj', hcm⟩ := hsurf
  obtain ⟨e1, e2⟩ := uniq i' j' (hf_cellMem_colMem sq h i' j' _ (hmx j') (hmz i') hcm)
  obtain ⟨e3, e4⟩ := uniq i j hcol
  subst e1 e2; rw [e3, e4]; exact hcm

/-! ### the whole cast -/

/-- **3-D HeightField cast = first hit of the whole surface** (`HeightField::cast_local_ray_and_get_normal`, corrected start
cell and boundary times; replaces the unproved statement `hf_cast_firstHit_full`).  Field with at least 2×2 heights, stored
heights matrix of the declared size, positive horizontal scales, non-negative vertical scale, non-flat bounding box
(`AabbStrict`, needed by `clip_aabb_line_spec`), `0 ≤ max_toi < Real::MAX`, any direction of any length, both `solid` flags,
no triangle coplanar with the ray (KNOWN_FINDINGS), surface watertight along the ray (`HfRayWatertight`: implied by
`HfWatertight` — no boundary edge left dangling by a removed triangle — for every ray, and, for ANY field, by the ray not
meeting the surface exactly above a grid line: `hf_rayWatertight_of_generic`).  Then the reported time is the FIRST parameter of `[0, max_toi]` at which the ray is on the surface — the union
over ALL cells, not only the visited ones — and `None` means the segment `[0, max_toi]` misses the whole surface: the
bounding-box clip discards nothing, the start cell contains the entry point, and the grid walk visits every column the ray
crosses, in order, until the hit. -/
theorem hf_cast_firstHit (big : K) (h : HeightField3 K) (ray : Ray3 K) (max : K) (solid : Bool)
    (hnc : 2 ≤ h.nc) (hnr : 2 ≤ h.nr) (hsx : 0 < h.sc.x) (hsy : 0 ≤ h.sc.y) (hsz : 0 < h.sc.z)
    (hsize : h.hs.size = h.nr * h.nc)
    (hbox : letI := fieldNum K sq; AabbStrict h.aabb)
    (hmax0 : 0 ≤ max) (hmaxb : max < big)
    (hncp : HfNotCoplanar sq h ray) (hw : HfRayWatertight sq h ray) :
    letI := fieldNum K sq
    FirstHit (HfSurf sq h) (rayPt sq ray) max ((h.castLocalRayAndGetNormal big ray max solid).map (·.toi)) := by
  have hbig0 : 0 ≤ big := le_trans hmax0 hmaxb.le
  have hin := fun p => hf_surf_in_aabb sq h p hnc hnr hsx.le hsy hsz.le hsize
  obtain ⟨hmx, hmz⟩ := hf_grid_mono sq h hnc hnr hsx.le hsz.le
  have hclip := clip_aabb_line_spec sq big (@HeightField3.aabb K (fieldNum K sq) h) ray hbox hbig0
  simp only [HeightField3.castLocalRayAndGetNormal]
  cases hc : (@clipAabbLine K (fieldNum K sq) big (@HeightField3.aabb K (fieldNum K sq) h) ray.o ray.d) with
  | none =>
    rw [hc] at hclip
    simp only [Option.map_none]
    intro s s0 sm hs
    exact hclip s (by linarith) (le_trans sm hmaxb.le) (hin _ hs)
  | some near far =>
    rw [hc] at hclip
    obtain ⟨hnf, hiff⟩ := hclip
    simp only
    by_cases hfar : far.t < 0
    · rw [if_pos hfar]
      simp only [Option.map_none]
      intro s s0 sm hs
      have := ((hiff s (by linarith) (le_trans sm hmaxb.le)).1 (hin _ hs)).2
      linarith
    · rw [if_neg hfar]
      push Not at hfar
      simp only [fieldNum_nmax, fieldNum_nmin]
      set minT := Max.max near.t 0 with hminT
      set maxT := Min.min far.t max with hmaxT
      have hminT0 : 0 ≤ minT := le_max_right _ _
      have hmaxTm : maxT ≤ max := min_le_right _ _
      have hbefore : ∀ s, 0 ≤ s → s ≤ max → s < minT → ¬ HfSurf sq h (rayPt sq ray s) := by
        intro s s0 sm slt hs
        have hlt : s < near.t := by
          rcases lt_max_iff.1 slt with c | c
          · exact c
          · exact absurd c (not_lt.2 s0)
        have := ((hiff s (by linarith) (le_trans sm hmaxb.le)).1 (hin _ hs)).1
        linarith
      by_cases hempty : max < minT
      · -- the clipped range starts beyond `max_toi`: no cell cast can report anything
        have hfold : (@HeightField3.castLocalRayAndGetNormal K (fieldNum K sq) big h ray max solid) =
            (@HeightField3.walk K (fieldNum K sq) big h ray max solid maxT (h.nr + h.nc)
              (@HeightField3.closestCell K (fieldNum K sq) h (@Ray3.pointAt K (fieldNum K sq) ray minT))) := by
          simp only [HeightField3.castLocalRayAndGetNormal, hc, if_neg (not_lt.2 hfar), fieldNum_nmax, fieldNum_nmin]
          rfl
        rw [← hfold]
        cases hres : (@HeightField3.castLocalRayAndGetNormal K (fieldNum K sq) big h ray max solid) with
        | none =>
          simp only [Option.map_none]
          exact fun s s0 sm => hbefore s s0 sm (lt_of_le_of_lt sm hempty)
        | some r =>
          exfalso
          obtain ⟨i, j, left, hit, hi, hj, hcell, e1, _, _, hfh⟩ := hf_cast_sound sq big h ray max solid r hres
          obtain ⟨f0, f1, f2, _⟩ := hfh (hncp i j).1 (hncp i j).2
          exact hbefore r.toi f0 f1 (lt_of_le_of_lt f1 hempty) ⟨i, j, hi, hj, f2⟩
      · push Not at hempty
        have hstart : AabbMem (@HeightField3.aabb K (fieldNum K sq) h) (rayPt sq ray minT) :=
          (hiff minT (by linarith) (le_trans hempty hmaxb.le)).2 ⟨le_max_left _ _, max_le hnf hfar⟩
        obtain ⟨⟨sx1, sx2⟩, _, ⟨sz1, sz2⟩⟩ := hstart
        simp only [HeightField3.aabb, lit_half] at sx1 sx2 sz1 sz2
        obtain ⟨hv, hcol⟩ := hf_closestCell_colMem sq h (rayPt sq ray minT) hnc hnr hsx hsz
          ⟨by linarith, by linarith⟩ ⟨by linarith, by linarith⟩
        have hfuel : hfRemaining h ray (@HeightField3.closestCell K (fieldNum K sq) h (rayPt sq ray minT)).1
            (@HeightField3.closestCell K (fieldNum K sq) h (rayPt sq ray minT)).2 < h.nr + h.nc := by
          simp only [hfRemaining]; split_ifs <;> omega
        have hwalk := hf_walk_firstHit sq big h ray max solid maxT (lt_of_le_of_lt hmaxTm hmaxb) hmaxTm hmx hmz hncp hw
          (h.nr + h.nc) _ _ minT hminT0 hv hcol hfuel
        have hcellEq : (@HeightField3.closestCell K (fieldNum K sq) h (@Ray3.pointAt K (fieldNum K sq) ray minT)) =
            ((@HeightField3.closestCell K (fieldNum K sq) h (rayPt sq ray minT)).1,
             (@HeightField3.closestCell K (fieldNum K sq) h (rayPt sq ray minT)).2) := rfl
        rw [hcellEq]
        cases hwk : (@HeightField3.walk K (fieldNum K sq) big h ray max solid maxT (h.nr + h.nc)
            ((@HeightField3.closestCell K (fieldNum K sq) h (rayPt sq ray minT)).1,
             (@HeightField3.closestCell K (fieldNum K sq) h (rayPt sq ray minT)).2)) with
        | some r =>
          rw [hwk] at hwalk
          simp only at hwalk
          obtain ⟨r0, r1, r2, r3⟩ := hwalk
          simp only [Option.map_some]
          refine ⟨r0, r1, r2, fun s s0 slt => ?_⟩
          rcases lt_or_ge s minT with c | c
          · exact hbefore s s0 (le_trans slt.le r1) c
          · exact r3 s c slt
        | none =>
          rw [hwk] at hwalk
          simp only at hwalk
          simp only [Option.map_none]
          intro s s0 sm
          rcases lt_or_ge s minT with c | c
          · exact hbefore s s0 sm c
          · rcases le_or_gt s maxT with c2 | c2
            · exact hwalk s c c2
            · intro hs
              have hgt : far.t < s := by
                rcases min_lt_iff.1 c2 with c3 | c3
                · exact c3
                · exact absurd c3 (not_lt.2 sm)
              have := ((hiff s (by linarith) (le_trans sm hmaxb.le)).1 (hin _ hs)).2
              linarith

/-- **posed 3-D HeightField cast** (`cast_ray_and_get_normal`): first hit of the posed surface `{p : m⁻¹·p ∈ surface}`, same
time of impact as the local cast of the inverse-transformed ray (hypotheses on the local ray) -/
theorem hf_posed_firstHit (big : K) (h : HeightField3 K) (m : Iso3 K) (ray : Ray3 K) (max : K) (solid : Bool)
    (hnc : 2 ≤ h.nc) (hnr : 2 ≤ h.nr) (hsx : 0 < h.sc.x) (hsy : 0 ≤ h.sc.y) (hsz : 0 < h.sc.z)
    (hsize : h.hs.size = h.nr * h.nc)
    (hbox : letI := fieldNum K sq; AabbStrict h.aabb)
    (hmax0 : 0 ≤ max) (hmaxb : max < big)
    (hncp : letI := fieldNum K sq; HfNotCoplanar sq h (ray.invTransform m))
    (hw : letI := fieldNum K sq; HfRayWatertight sq h (ray.invTransform m)) :
    letI := fieldNum K sq
    FirstHit (fun p => HfSurf sq h (m.invAct p)) (rayPt sq ray) max
      ((h.castRayAndGetNormal big m ray max solid).map (·.toi)) := by
  rw [hf_posed_toi]
  exact (firstHit_posed sq _ m ray max _).1
    (hf_cast_firstHit sq big h (@Ray3.invTransform K (fieldNum K sq) ray m) max solid hnc hnr hsx hsy hsz hsize hbox
      hmax0 hmaxb hncp hw)

/-- non-vacuity of `hf_cast_firstHit`: the single-cell field is watertight (only one cell) -/
example : letI := fieldNum ℚ id
    HfWatertight (K := ℚ) id ⟨2, 2, #[1, 0, 0, 1], ⟨1, 1, 1⟩, []⟩ := by
  intro i j p hi hj _ hs
  obtain ⟨i', j', hi', hj', hm⟩ := hs
  have e1 : i = 0 := by simp at hi; omega
  have e2 : j = 0 := by simp at hj; omega
  have e3 : i' = 0 := by simp at hi'; omega
  have e4 : j' = 0 := by simp at hj'; omega
  subst e1 e2 e3 e4
  exact hm

/-- non-vacuity: the bounding box of that field is non-flat -/
example : letI := fieldNum ℚ id
    AabbStrict (HeightField3.aabb (⟨2, 2, #[1, 0, 0, 1], ⟨1, 1, 1⟩, []⟩ : HeightField3 ℚ)) := by
  have hl : ((mkRat 1 2 : ℚ) : ℚ) = 1/2 := by norm_num
  simp only [AabbStrict, HeightField3.aabb, HeightField3.minH, HeightField3.maxH, fieldNum_lit, List.foldl]
  norm_num [hl]

/-- non-vacuity: the ray of the `hf_cast_sound` example is coplanar with no triangle of that field (`HfNotCoplanar`) -/
example : letI := fieldNum ℚ id
    ∀ i j, ONotCoplanar (K := ℚ) id ((HeightField3.trianglesAt (⟨2, 2, #[1, 0, 0, 1], ⟨1, 1, 1⟩, []⟩ : HeightField3 ℚ) i j).1)
        ⟨⟨-3/5, 1/2, -3/5⟩, ⟨1, 0, 1⟩⟩ ∧
      ONotCoplanar (K := ℚ) id ((HeightField3.trianglesAt (⟨2, 2, #[1, 0, 0, 1], ⟨1, 1, 1⟩, []⟩ : HeightField3 ℚ) i j).2)
        ⟨⟨-3/5, 1/2, -3/5⟩, ⟨1, 0, 1⟩⟩ := by
  intro i j
  have hl : ((mkRat 1 2 : ℚ) : ℚ) = 1/2 := by norm_num
  have h0 : ((mkRat 0 1 : ℚ) : ℚ) = 0 := by norm_num
  have h1 : ((mkRat 1 1 : ℚ) : ℚ) = 1 := by norm_num
  by_cases hij : i = 0 ∧ j = 0
  · obtain ⟨rfl, rfl⟩ := hij
    constructor <;> intro s hs <;>
      simp [HeightField3.trianglesAt, HeightField3.status, HeightField3.height, HeightField3.ucw, HeightField3.uch,
        fieldNum_lit, hl, h0, h1] at hs <;> subst hs <;>
      simp [triD, triT, triN, V3.sub, V3.cross, V3.dot] <;> norm_num
  · have : (2 : Nat) - 1 ≤ i ∨ (2 : Nat) - 1 ≤ j := by omega
    simp only [HeightField3.trianglesAt, this, if_true]
    constructor <;> intro s hs <;> cases hs
end C04
