import ParryModel.C04.DriverClosed
import ParryModel.C04.ModelGlue
import ParryModel.C04.Driver2D
/-!
# C04 protocol handlers, glue: `intersects_local_ray` / `intersects_ray` (boolean forms of the trait)

Output grammar: `1` | `0`.  Oracles (exact `Rat`, independent of the cast models): does the segment `{o + s·d : 0 ≤ s ≤ max}`
meet the shape?  `1` is wrong when the segment clearly misses the shape grown by the tolerance, `0` is wrong when it clearly
enters the shape shrunk by the tolerance.
-/
namespace C04
open Model Proto

def fbool (x : Bool) : String := if x then "1" else "0"

/-- ball of radius `r` centred at the origin: minimum of `|O + sD|² − r²` over `[0, max]` -/
def ballMeetsOracle (O D : V3 Rat) (r : Rat) (max : Option Rat) (o : List String) : String :=
  let a := D.normSq
  if a = 0 then "skip zero-dir" else if r ≤ 0 then "skip nonpositive-radius" else
  let b := O.dot D
  let c := O.normSq - r * r
  let g := fun (s : Rat) => a * s * s + 2 * b * s + c
  let s0 := clampQ (-b / a) 0 max
  let tg := tol * (O.normSq + r * r + a * s0 * s0)
  match o with
  | ["1"] => if g s0 > tg then "fail true-but-segment-misses-ball" else "pass"
  | ["0"] => if g s0 < -tg then "fail false-but-segment-enters-ball" else "pass"
  | "panic" :: _ => "fail panic"
  | _ => "fail unparsable-output"

/-- box `[mn, mx]` -/
def boxMeetsOracle (mn mx O D : V3 Rat) (max : Option Rat) (o : List String) : String :=
  if D.normSq = 0 then "skip zero-dir" else
  if mx.x < mn.x ∨ mx.y < mn.y ∨ mx.z < mn.z then "skip invalid-box" else
  let scale := 1 + absV O + absV mn + absV mx
  let tp := tol * scale
  match o with
  | ["1"] => if meets (boxInterval mn mx O D (-tp)) (max.map fun m => m * (1 + tol)) false then "pass"
             else "fail true-but-segment-misses-box"
  | ["0"] => if meets (boxInterval mn mx O D tp) (max.map fun m => m * (1 - tol)) false
             then "fail false-but-segment-enters-box" else "pass"
  | "panic" :: _ => "fail panic"
  | _ => "fail unparsable-output"

/-- half-space `{p : N·p ≤ 0}`: `f(s) = N·(O + sD)` is affine, its minimum over the segment is at an end -/
def halfspaceMeetsOracle (N O D : V3 Rat) (max : Option Rat) (o : List String) : String :=
  if D.normSq = 0 then "skip zero-dir" else if N.normSq = 0 then "skip zero-normal" else
  let f0 := N.dot O
  let nd := N.dot D
  let tp := tol * (absV N * (1 + absV O))
  -- clearly met: origin clearly inside, or the far end clearly inside
  let clearIn : Bool := decide (f0 < -tp) ||
    (match max with
     | none => decide (nd < -(tol * absV N * absV D))   -- unbounded ray heading in
     | some m => decide (f0 + m * nd < -(tp + tol * absV N * absV D * m)))
  let clearOut : Bool := decide (f0 > tp) &&
    (match max with
     | none => decide (nd > tol * absV N * absV D)
     | some m => decide (f0 + m * nd > tp + tol * absV N * absV D * m))
  match o with
  | ["1"] => if clearOut then "fail true-but-segment-misses-halfspace" else "pass"
  | ["0"] => if clearIn then "fail false-but-segment-enters-halfspace" else "pass"
  | "panic" :: _ => "fail panic"
  | _ => "fail unparsable-output"

def handlerGlue (fn : String) : Option Handler :=
  match fn with
  | "ball_intersects" => some {
      model := fun a => run (do let r ← pf; let ra ← pray; pure (fbool ((Ball.mk r).intersectsLocalRay ra.ray ra.max))) a
      oracle := fun a o => withArgs (do let r ← pf; let ra ← pray; pure (r, ra)) a fun (r, ra) =>
        ballMeetsOracle (q3 ra.o) (q3 ra.d) (q r) ra.maxQ o }
  | "ball_intersects_posed" => some {
      model := fun a => run (do let r ← pf; let m ← piso3; let ra ← pray
                                pure (fbool ((Ball.mk r).intersectsRay m ra.ray ra.max))) a
      oracle := fun a o => withArgs (do let r ← pf; let m ← piso3; let ra ← pray; pure (r, m, ra)) a fun (r, m, ra) =>
        let M := qiso3 m
        ballMeetsOracle (M.invAct (q3 ra.o)) (M.invRot (q3 ra.d)) (q r) ra.maxQ o }
  | "bsphere_intersects" => some {
      model := fun a => run (do let c ← pv3; let r ← pf; let ra ← pray
                                pure (fbool (bsphereIntersectsLocalRay c r ra.ray ra.max))) a
      oracle := fun a o => withArgs (do let c ← pv3; let r ← pf; let ra ← pray; pure (c, r, ra)) a fun (c, r, ra) =>
        ballMeetsOracle ((q3 ra.o).sub (q3 c)) (q3 ra.d) (q r) ra.maxQ o }
  | "aabb_intersects" => some {
      model := fun a => run (do let b ← paabb; let ra ← pray; pure (fbool (b.intersectsLocalRay bigF ra.ray ra.max))) a
      oracle := fun a o => withArgs (do let b ← paabb; let ra ← pray; pure (b, ra)) a fun (b, ra) =>
        boxMeetsOracle (q3 b.mins) (q3 b.maxs) (q3 ra.o) (q3 ra.d) ra.maxQ o }
  | "cuboid_intersects" => some {
      model := fun a => run (do let he ← pv3; let ra ← pray
                                pure (fbool ((Cuboid3.mk he).intersectsLocalRay bigF ra.ray ra.max))) a
      oracle := fun a o => withArgs (do let he ← pv3; let ra ← pray; pure (he, ra)) a fun (he, ra) =>
        boxMeetsOracle (q3 he).neg (q3 he) (q3 ra.o) (q3 ra.d) ra.maxQ o }
  | "cuboid_intersects_posed" => some {
      model := fun a => run (do let he ← pv3; let m ← piso3; let ra ← pray
                                pure (fbool ((Cuboid3.mk he).intersectsRay bigF m ra.ray ra.max))) a
      oracle := fun a o => withArgs (do let he ← pv3; let m ← piso3; let ra ← pray; pure (he, m, ra)) a fun (he, m, ra) =>
        let M := qiso3 m
        boxMeetsOracle (q3 he).neg (q3 he) (M.invAct (q3 ra.o)) (M.invRot (q3 ra.d)) ra.maxQ o }
  | "halfspace_intersects" => some {
      model := fun a => run (do let n ← pv3; let ra ← pray
                                pure (fbool ((HalfSpace3.mk n).intersectsLocalRay ra.ray ra.max))) a
      oracle := fun a o => withArgs (do let n ← pv3; let ra ← pray; pure (n, ra)) a fun (n, ra) =>
        halfspaceMeetsOracle (q3 n) (q3 ra.o) (q3 ra.d) ra.maxQ o }
  | "halfspace_intersects_posed" => some {
      model := fun a => run (do let n ← pv3; let m ← piso3; let ra ← pray
                                pure (fbool ((HalfSpace3.mk n).intersectsRay m ra.ray ra.max))) a
      oracle := fun a o => withArgs (do let n ← pv3; let m ← piso3; let ra ← pray; pure (n, m, ra)) a fun (n, m, ra) =>
        let M := qiso3 m
        halfspaceMeetsOracle (q3 n) (M.invAct (q3 ra.o)) (M.invRot (q3 ra.d)) ra.maxQ o }
  -- 2-D posed ball: judged in the world frame (the posed ball is the ball about the translation), like `bsphere_normal`
  | "ball2_posed" => some {
      model := fun a => run (do let r ← pf; let m ← piso2; let ra ← pray2
                                pure (fhit2d ((Ball.mk r).castRayAndGetNormal2 m ⟨ra.o, ra.d⟩ ra.max ra.solid))) a
      oracle := fun a o => withArgs (do let r ← pf; let m ← piso2; let ra ← pray2; pure (r, m, ra)) a fun (r, m, ra) =>
        ballOracle ((emb (q2 ra.o)).sub (emb (q2 m.t))) (emb (q2 ra.d)) (q r) ra.maxQ ra.solid (embOut (parseOut2 o)) }
  | "ball2_posed_toi" => some {
      model := fun a => run (do let r ← pf; let m ← piso2; let ra ← pray2
                                pure (ftoi ((Ball.mk r).castRay2 m ⟨ra.o, ra.d⟩ ra.max ra.solid))) a
      oracle := fun a o => withArgs (do let r ← pf; let m ← piso2; let ra ← pray2; pure (r, m, ra)) a fun (r, m, ra) =>
        ballOracle ((emb (q2 ra.o)).sub (emb (q2 m.t))) (emb (q2 ra.d)) (q r) ra.maxQ ra.solid (parseOut o) }
  -- 2-D posed cuboid: time judged exactly in the local frame (exact inverse transform of the ray); the world normal is
  -- pulled back and must be a unit vector facing the ray, axis-aligned (or −dir at a corner)
  | "cuboid2_posed_toi" => some {
      model := fun a => run (do let he ← pv2; let m ← piso2; let ra ← pray2
                                pure (ftoi ((Cuboid2.mk he).castRay bigF m ⟨ra.o, ra.d⟩ ra.max ra.solid))) a
      oracle := fun a o => withArgs (do let he ← pv2; let m ← piso2; let ra ← pray2; pure (he, m, ra)) a fun (he, m, ra) =>
        let H := q2 he; let M := qiso2 m
        boxOracle ⟨-H.x, -H.y, -1⟩ ⟨H.x, H.y, 1⟩ (emb (M.invAct (q2 ra.o))) (emb (M.invRot (q2 ra.d))) ra.maxQ ra.solid (parseOut o) }
  | "cuboid2_posed" => some {
      model := fun a => run (do let he ← pv2; let m ← piso2; let ra ← pray2
                                pure (fhit2d ((Cuboid2.mk he).castRayAndGetNormal bigF m ⟨ra.o, ra.d⟩ ra.max ra.solid))) a
      oracle := fun a o => withArgs (do let he ← pv2; let m ← piso2; let ra ← pray2; pure (he, m, ra)) a fun (he, m, ra) =>
        let H := q2 he; let M := qiso2 m
        let O := M.invAct (q2 ra.o); let D := M.invRot (q2 ra.d)
        let mn : V3 Rat := ⟨-H.x, -H.y, -1⟩; let mx : V3 Rat := ⟨H.x, H.y, 1⟩
        let res := boxOracle mn mx (emb O) (emb D) ra.maxQ ra.solid
          (match parseOut2 o with | .hit t _ f => .hit t none f | .miss => .miss | .bad w => .bad w)
        if res != "pass" then res else
        match parseOut2 o with
        | .hit t nf _ =>
          let tq := q t
          let scale := 1 + absV (emb O) + 2 * absV (emb H)
          if tq = 0 ∧ ra.solid ∧ boxDepth mn mx (emb O) ≤ tol * scale then "pass" else
          if !(FloatIO.isFinite nf.x && FloatIO.isFinite nf.y) then "fail nonfinite-normal" else
          let nl := M.invRot (q2 nf)
          if rabs (nl.normSq - 1) > 1 / 1000000 then "fail normal-not-unit"
          else if nl.dot D > 0 ∧ sqr (nl.dot D) > sqr (1 / 1000000) * D.normSq then "fail normal-not-facing-ray"
          else if rabs nl.x ≤ 1 / 1000000 ∨ rabs nl.y ≤ 1 / 1000000 then "pass"
          else if sqr (cross2 nl D) ≤ sqr (1 / 1000000) * D.normSq then "pass"
          else "fail normal-not-axis-aligned"
        | _ => "pass" }
  | _ => none

end C04
