import ParryModel.Field
import ParryModel.C04.Model
import Mathlib.Analysis.Real.Sqrt
/-!
# C04 specification vocabulary and helper lemmas (not obligations; the property theorems are in `Theorems.lean`): closed-form ray casts, for every linearly ordered field and **every non-zero
direction (no unit-length assumption)**.

Specification vocabulary (the part a reader must trust):
* `FirstHit S pt max res` — `res = some t`: `t ∈ [0,max]`, the point `pt t` is in `S` and no earlier parameter
  `s ∈ [0,t)` is; `res = none`: no parameter of `[0,max]` is in `S`.
* `FirstHitU` — the same without an upper bound (`max = +∞`).
* `ExitHit S pt t` — a ray that starts inside `S` leaves it at `t`: all of `[0,t]` is in `S`, nothing after `t` is.
* shapes as sets are the `Mem` predicates of `Shapes.lean`; boundaries are spelled out per shape.
-/
namespace C04
open Model

variable {K : Type} [Field K] [LinearOrder K] [IsStrictOrderedRing K] (sq : K → K)

/-- first parameter of `[0,max]` at which the curve `pt` is in `S` (`none`: there is none) -/
def FirstHit {α : Type} (S : α → Prop) (pt : K → α) (max : K) : Option K → Prop
  | some t => 0 ≤ t ∧ t ≤ max ∧ S (pt t) ∧ ∀ s, 0 ≤ s → s < t → ¬ S (pt s)
  | none => ∀ s, 0 ≤ s → s ≤ max → ¬ S (pt s)

/-- `FirstHit` on the unbounded ray `[0,+∞)` -/
def FirstHitU {α : Type} (S : α → Prop) (pt : K → α) : Option K → Prop
  | some t => 0 ≤ t ∧ S (pt t) ∧ ∀ s, 0 ≤ s → s < t → ¬ S (pt s)
  | none => ∀ s, 0 ≤ s → ¬ S (pt s)

/-- the ray starts in `S` and leaves it for good at parameter `t` -/
def ExitHit {α : Type} (S : α → Prop) (pt : K → α) (t : K) : Prop :=
  0 ≤ t ∧ (∀ s, 0 ≤ s → s ≤ t → S (pt s)) ∧ ∀ s, t < s → ¬ S (pt s)

theorem quad_root (a b c w s : K) (hw : w * w = b * b - a * c) :
    a * (a * s * s + 2 * b * s + c) = (a * s + b - w) * (a * s + b + w) := by
  linear_combination (1 : K) * hw

theorem quad_zero (a b c w t : K) (ha : a ≠ 0) (hw : w * w = b * b - a * c)
    (h : a * t + b - w = 0 ∨ a * t + b + w = 0) : a * t * t + 2 * b * t + c = 0 := by
  have h1 := quad_root a b c w t hw
  have : a * (a * t * t + 2 * b * t + c) = 0 := by
    rw [h1]; rcases h with h | h <;> rw [h] <;> ring
  rcases mul_eq_zero.1 this with h' | h'
  · exact absurd h' ha
  · exact h'

/-- scalar skeleton of `ray_toi_with_ball` (same branches; `w` stands for `sqrt(delta)`) -/
def ballScalar (a b c w : K) (solid : Bool) : Bool × Option K :=
  if 0 < c ∧ 0 < b then (false, none)
  else if b * b - a * c < 0 then (false, none)
  else if (-b - w) / a ≤ 0 then
    (if solid then (true, some 0) else (true, some ((-b + w) / a)))
  else (false, some ((-b - w) / a))

theorem ballScalar_spec (a b c w : K) (solid : Bool) (ha : 0 < a)
    (hw0 : 0 ≤ b * b - a * c → 0 ≤ w) (hww : 0 ≤ b * b - a * c → w * w = b * b - a * c) :
    let g := fun s : K => a * s * s + 2 * b * s + c
    let res := ballScalar a b c w solid
    (res.1 = true ↔ c ≤ 0) ∧
    (res.1 = false → match res.2 with
        | some t => 0 < t ∧ g t = 0 ∧ a * t + b ≤ 0 ∧ ∀ s, 0 ≤ s → s < t → 0 < g s
        | none => ∀ s, 0 ≤ s → 0 < g s) ∧
    (res.1 = true → solid = true → res.2 = some 0) ∧
    (res.1 = true → solid = false → ∃ t, res.2 = some t ∧ 0 ≤ t ∧ g t = 0 ∧ 0 ≤ a * t + b ∧
        (∀ s, 0 ≤ s → s ≤ t → g s ≤ 0) ∧ (c < 0 → ∀ s, 0 ≤ s → s < t → g s < 0) ∧ ∀ s, t < s → 0 < g s) := by
  intro g res
  have hgpos : ∀ s, 0 < a * g s → 0 < g s := fun s h => by
    rcases lt_trichotomy 0 (g s) with h' | h' | h'
    · exact h'
    · rw [← h'] at h; simp at h
    · nlinarith
  simp only [res, ballScalar]
  split_ifs with h1 h2 h3 h4
  · -- c > 0, b > 0
    refine ⟨by simp; exact h1.1, fun _ => ?_, by simp, by simp⟩
    intro s hs
    show 0 < a * s * s + 2 * b * s + c
    nlinarith [mul_nonneg (mul_nonneg ha.le hs) hs, mul_nonneg h1.2.le hs, h1.1]
  · -- delta < 0
    have hc : 0 < c := by nlinarith [mul_self_nonneg b]
    refine ⟨by simp; exact hc, fun _ => ?_, by simp, by simp⟩
    intro s hs
    apply hgpos
    show 0 < a * (a * s * s + 2 * b * s + c)
    nlinarith [mul_self_nonneg (a * s + b)]
  · -- inside, solid
    push Not at h2
    have w0 := hw0 h2; have ww := hww h2
    have hbw : 0 ≤ b + w := by
      rw [div_le_iff₀ ha] at h3; linarith
    have hc : c ≤ 0 := by
      by_contra hc; push Not at hc
      have hb : b ≤ 0 := by by_contra hb; push Not at hb; exact h1 ⟨hc, hb⟩
      nlinarith [mul_pos ha hc]
    refine ⟨by simp; exact hc, by simp, by simp, by simp [h4]⟩
  · -- inside, not solid
    push Not at h2
    have w0 := hw0 h2; have ww := hww h2
    have hbw : 0 ≤ b + w := by
      rw [div_le_iff₀ ha] at h3; linarith
    have hc : c ≤ 0 := by
      by_contra hc; push Not at hc
      have hb : b ≤ 0 := by by_contra hb; push Not at hb; exact h1 ⟨hc, hb⟩
      nlinarith [mul_pos ha hc]
    have hwb : b ≤ w := by nlinarith [mul_nonneg ha.le (neg_nonneg.2 hc)]
    refine ⟨by simp; exact hc, by simp, by simp [h4], fun _ _ => ⟨_, rfl, ?_, ?_, ?_, ?_, ?_, ?_⟩⟩
    · exact div_nonneg (by linarith) ha.le
    · exact quad_zero a b c w _ ha.ne' ww (Or.inl (by rw [mul_div_cancel₀ _ ha.ne']; ring))
    · rw [mul_div_cancel₀ _ ha.ne']; linarith
    · intro s hs hst
      rw [le_div_iff₀ ha] at hst
      have h := quad_root a b c w s ww
      have : a * g s ≤ 0 := by
        rw [show g s = a * s * s + 2 * b * s + c from rfl, h]
        apply mul_nonpos_of_nonpos_of_nonneg <;> nlinarith [mul_nonneg ha.le hs]
      by_contra hg; push Not at hg
      nlinarith [mul_pos ha hg]
    · intro hc' s hs hst
      rw [lt_div_iff₀ ha] at hst
      have hbw' : 0 < b + w := by nlinarith [mul_pos ha (neg_pos.2 hc')]
      have h := quad_root a b c w s ww
      have : a * g s < 0 := by
        rw [show g s = a * s * s + 2 * b * s + c from rfl, h]
        apply mul_neg_of_neg_of_pos <;> nlinarith [mul_nonneg ha.le hs]
      by_contra hg; push Not at hg
      nlinarith [mul_nonneg ha.le hg]
    · intro s hst
      rw [div_lt_iff₀ ha] at hst
      apply hgpos
      rw [show g s = a * s * s + 2 * b * s + c from rfl, quad_root a b c w s ww]
      apply mul_pos <;> nlinarith
  · -- outside, hit
    push Not at h2 h3
    have w0 := hw0 h2; have ww := hww h2
    have hc0 : 0 < c := by
      by_contra hc; push Not at hc
      rw [lt_div_iff₀ ha] at h3
      nlinarith [mul_nonneg ha.le (neg_nonneg.2 hc)]
    refine ⟨by simp; exact hc0, fun _ => ⟨h3, ?_, ?_, ?_⟩, by simp, by simp⟩
    · exact quad_zero a b c w _ ha.ne' ww (Or.inr (by rw [mul_div_cancel₀ _ ha.ne']; ring))
    · rw [mul_div_cancel₀ _ ha.ne']; linarith
    · intro s hs hst
      rw [lt_div_iff₀ ha] at hst
      apply hgpos
      rw [show g s = a * s * s + 2 * b * s + c from rfl, quad_root a b c w s ww]
      apply mul_pos_of_neg_of_neg <;> nlinarith

/-- the ball of radius `r` centred at `c`, as a set: `|p − c|² ≤ r²` (`Ball.Mem3` of `Shapes.lean`, translated) -/
def BallAt (c : V3 K) (r : K) (p : V3 K) : Prop :=
  letI := fieldNum K sq
  (Ball.mk r).Mem3 (p.sub c)
/-- the sphere (boundary of the ball): `|p − c|² = r²` -/
def SphereAt (c : V3 K) (r : K) (p : V3 K) : Prop :=
  letI := fieldNum K sq
  (p.sub c).normSq = r * r
/-- the curve `s ↦ o + s·d` of a ray (model's `Ray::point_at`) -/
def rayPt (ray : Ray3 K) : K → V3 K := fun s =>
  letI := fieldNum K sq
  ray.pointAt s

theorem ball_poly (c : V3 K) (ray : Ray3 K) (r s : K) :
    letI := fieldNum K sq
    ((rayPt sq ray s).sub c).normSq - r * r
      = ray.d.normSq * s * s + 2 * ((ray.o.sub c).dot ray.d) * s + ((ray.o.sub c).normSq - r * r) := by
  simp only [rayPt, Ray3.pointAt, V3.add, V3.sub, V3.smul, V3.normSq, V3.dot]; ring

theorem rayToiWithBall_eq (c : V3 K) (r : K) (ray : Ray3 K) (solid : Bool) :
    letI := fieldNum K sq
    0 < ray.d.normSq →
    rayToiWithBall c r ray solid =
      ballScalar ray.d.normSq ((ray.o.sub c).dot ray.d) ((ray.o.sub c).normSq - r * r)
        (sq (((ray.o.sub c).dot ray.d) * ((ray.o.sub c).dot ray.d) - ray.d.normSq * ((ray.o.sub c).normSq - r * r))) solid := by
  intro ha
  have hne : @neq K (fieldNum K sq) (@V3.normSq K (fieldNum K sq) ray.d) 0 = false := by
    simp only [neq, Bool.and_eq_false_iff, decide_eq_false_iff_not, not_le]
    exact Or.inl ha
  simp only [rayToiWithBall, ballScalar, hne]
  rfl

/-- all four facts about `ray_toi_with_ball` at once, in terms of `g(s) = |o + s·d − c|² − r²` -/
theorem ball_core (hs : LawfulSqrt sq) (c : V3 K) (r : K) (ray : Ray3 K) (solid : Bool) :
    letI := fieldNum K sq
    0 < ray.d.normSq →
    let g := fun s : K => ((rayPt sq ray s).sub c).normSq - r * r
    let a := ray.d.normSq
    let b := (ray.o.sub c).dot ray.d
    let res := rayToiWithBall c r ray solid
    (res.1 = true ↔ g 0 ≤ 0) ∧
    (res.1 = false → match res.2 with
        | some t => 0 < t ∧ g t = 0 ∧ a * t + b ≤ 0 ∧ ∀ s, 0 ≤ s → s < t → 0 < g s
        | none => ∀ s, 0 ≤ s → 0 < g s) ∧
    (res.1 = true → solid = true → res.2 = some 0) ∧
    (res.1 = true → solid = false → ∃ t, res.2 = some t ∧ 0 ≤ t ∧ g t = 0 ∧ 0 ≤ a * t + b ∧
        (∀ s, 0 ≤ s → s ≤ t → g s ≤ 0) ∧ (g 0 < 0 → ∀ s, 0 ≤ s → s < t → g s < 0) ∧ ∀ s, t < s → 0 < g s) := by
  intro ha
  have hp := ball_poly sq c ray r
  have := ballScalar_spec (@V3.normSq K (fieldNum K sq) ray.d) (@V3.dot K (fieldNum K sq) (@V3.sub K (fieldNum K sq) ray.o c) ray.d)
    (@V3.normSq K (fieldNum K sq) (@V3.sub K (fieldNum K sq) ray.o c) - r * r) (sq _) solid ha (hs.nonneg _) (hs.sq_mul _)
  simp only [rayToiWithBall_eq sq c r ray solid ha, hp, mul_zero, zero_add]
  exact this

theorem ballAt_iff (c : V3 K) (r : K) (p : V3 K) :
    letI := fieldNum K sq
    BallAt sq c r p ↔ (p.sub c).normSq - r * r ≤ 0 := by
  unfold BallAt Ball.Mem3; exact sub_nonpos.symm
theorem sphereAt_iff (c : V3 K) (r : K) (p : V3 K) :
    letI := fieldNum K sq
    SphereAt sq c r p ↔ (p.sub c).normSq - r * r = 0 := by
  unfold SphereAt; exact sub_eq_zero.symm
theorem rayPt_zero (ray : Ray3 K) : rayPt sq ray 0 = ray.o := by
  simp [rayPt, Ray3.pointAt, V3.add, V3.smul]

theorem sub_zero_v3 (p : V3 K) : @V3.sub K (fieldNum K sq) p (@V3.zero K (fieldNum K sq)) = p := by
  cases p; simp [V3.sub, V3.zero]


/-- for a unit quaternion, the conjugate rotation preserves dot products -/
theorem invRot_dot (m : Iso3 K) (u v : V3 K)
    (hq : m.qi * m.qi + m.qj * m.qj + m.qk * m.qk + m.qw * m.qw = 1) :
    letI := fieldNum K sq
    (m.invRot u).dot (m.invRot v) = u.dot v := by
  simp only [Iso3.invRot, Iso3.rotQ, Iso3.qv, V3.add, V3.smul, V3.cross, V3.neg, V3.dot, fieldNum_two]
  linear_combination (4 * ((m.qi * m.qi + m.qj * m.qj + m.qk * m.qk) * (u.x * v.x + u.y * v.y + u.z * v.z)
    - (m.qi * u.x + m.qj * u.y + m.qk * u.z) * (m.qi * v.x + m.qj * v.y + m.qk * v.z))) * hq

theorem rot_dot (m : Iso3 K) (u v : V3 K)
    (hq : m.qi * m.qi + m.qj * m.qj + m.qk * m.qk + m.qw * m.qw = 1) :
    letI := fieldNum K sq
    (m.rot u).dot (m.rot v) = u.dot v := by
  simp only [Iso3.rot, Iso3.rotQ, Iso3.qv, V3.add, V3.smul, V3.cross, V3.dot, fieldNum_two]
  linear_combination (4 * ((m.qi * m.qi + m.qj * m.qj + m.qk * m.qk) * (u.x * v.x + u.y * v.y + u.z * v.z)
    - (m.qi * u.x + m.qj * u.y + m.qk * u.z) * (m.qi * v.x + m.qj * v.y + m.qk * v.z))) * hq

/-- for a unit quaternion, `rot ∘ invRot = id` -/
theorem rot_invRot (m : Iso3 K) (v : V3 K)
    (hq : m.qi * m.qi + m.qj * m.qj + m.qk * m.qk + m.qw * m.qw = 1) :
    letI := fieldNum K sq
    m.rot (m.invRot v) = v := by
  obtain ⟨x, y, z⟩ := v
  simp only [Iso3.rot, Iso3.invRot, Iso3.rotQ, Iso3.qv, V3.add, V3.smul, V3.cross, V3.neg, fieldNum_two]
  congr 1
  · linear_combination (4 * ((m.qi * m.qi + m.qj * m.qj + m.qk * m.qk) * x - m.qi * (m.qi * x + m.qj * y + m.qk * z))) * hq
  · linear_combination (4 * ((m.qi * m.qi + m.qj * m.qj + m.qk * m.qk) * y - m.qj * (m.qi * x + m.qj * y + m.qk * z))) * hq
  · linear_combination (4 * ((m.qi * m.qi + m.qj * m.qj + m.qk * m.qk) * z - m.qk * (m.qi * x + m.qj * y + m.qk * z))) * hq

/-! ## small general facts -/

/-- casting along `l·d` re-parametrises the ray: `pt_{l·d}(s) = pt_d(l·s)` -/
theorem rayPt_scale (ray : Ray3 K) (l s : K) :
    letI := fieldNum K sq
    rayPt sq ⟨ray.o, ray.d.smul l⟩ s = rayPt sq ray (l * s) := by
  simp only [rayPt, Ray3.pointAt, V3.add, V3.smul, mul_assoc]

/-- filtering an unbounded first hit by `t ≤ max` gives the first hit on `[0,max]` -/
theorem firstHitU_filter {α : Type} (S : α → Prop) (pt : K → α) (max : K) (r : Option K) (h : FirstHitU S pt r) :
    FirstHit S pt max (r.filter fun t => decide (t ≤ max)) := by
  cases r with
  | none => exact fun s h1 _ => h s h1
  | some t =>
    obtain ⟨h1, h2, h3⟩ := h
    by_cases hm : t ≤ max
    · have hf : (some t).filter (fun t => decide (t ≤ max)) = some t := by simp [Option.filter, hm]
      rw [hf]
      exact ⟨h1, hm, h2, h3⟩
    · have hf : (some t).filter (fun t => decide (t ≤ max)) = none := by simp [Option.filter, hm]
      rw [hf]
      intro s hs hsm
      exact h3 s hs (lt_of_le_of_lt hsm (not_le.1 hm))

theorem lawfulSqrt_mul_self (hs : LawfulSqrt sq) (r : K) (hr : 0 ≤ r) : sq (r * r) = r :=
  (mul_self_inj (hs.nonneg _ (mul_self_nonneg r)) hr).1 (hs.sq_mul _ (mul_self_nonneg r))

/-- `BallAt` at the origin is `Ball.Mem3` -/
theorem ballAt_zero (r : K) (p : V3 K) :
    letI := fieldNum K sq
    BallAt sq V3.zero r p ↔ (Ball.mk r).Mem3 p := by
  unfold BallAt; rw [sub_zero_v3]


/-! ## half-space helpers -/

/-- boundary plane of the half-space: `n·p = 0` -/
def PlaneOf (s : HalfSpace3 K) (p : V3 K) : Prop :=
  letI := fieldNum K sq
  s.n.dot p = 0

theorem halfspace_lin (s : HalfSpace3 K) (ray : Ray3 K) (u : K) :
    letI := fieldNum K sq
    s.n.dot (rayPt sq ray u) = s.n.dot ray.o + s.n.dot ray.d * u := by
  simp only [rayPt, Ray3.pointAt, V3.add, V3.smul, V3.dot]; ring

theorem halfspace_dpos (s : HalfSpace3 K) (ray : Ray3 K) :
    letI := fieldNum K sq
    s.n.dot ray.o.neg = -(s.n.dot ray.o) := by
  simp only [V3.neg, V3.dot]; ring

theorem neq_zero_iff (x : K) : @neq K (fieldNum K sq) x 0 = true ↔ x = 0 := by
  simp only [neq, Bool.and_eq_true, decide_eq_true_eq]
  exact ⟨fun h => le_antisymm h.1 h.2, fun h => by rw [h]; exact ⟨le_refl _, le_refl _⟩⟩

/-- scalar facts about `t = -al/be` -/
theorem hs_root (al be : K) (hbe : be ≠ 0) : al + be * (-al / be) = 0 := by
  field_simp; ring


/-! ## triangle (3-D) helpers -/

/-- the scalar quantities of the triangle cast, as polynomials of the inputs:
`d0 = n·dir`, `t0 = (o−a)·n`, `vs = ((o−a)×(c−a))·dir`, `ws = ((b−a)×(o−a))·dir`, with `n = (b−a)×(c−a)` -/
def triN (a b c : V3 K) : V3 K := letI := fieldNum K sq; (b.sub a).cross (c.sub a)
def triD (a b c : V3 K) (ray : Ray3 K) : K := letI := fieldNum K sq; (triN sq a b c).dot ray.d
def triT (a b c : V3 K) (ray : Ray3 K) : K := letI := fieldNum K sq; (ray.o.sub a).dot (triN sq a b c)
def triVs (a b c : V3 K) (ray : Ray3 K) : K := letI := fieldNum K sq; ((ray.o.sub a).cross (c.sub a)).dot ray.d
def triWs (a b c : V3 K) (ray : Ray3 K) : K := letI := fieldNum K sq; ((b.sub a).cross (ray.o.sub a)).dot ray.d

/-- if the ray point at `s` is the triangle point with coordinates `(u, v)`, then `s`, `u`, `v` are determined by the
scalar quantities: `t0 + s·d0 = 0`, `vs = u·d0`, `ws = v·d0` (Cramer) -/
theorem tri_mem_facts (a b c : V3 K) (ray : Ray3 K) (s u v : K) :
    letI := fieldNum K sq
    rayPt sq ray s = (a.add ((b.sub a).smul u)).add ((c.sub a).smul v) →
    triT sq a b c ray + s * triD sq a b c ray = 0 ∧ triVs sq a b c ray = u * triD sq a b c ray ∧
      triWs sq a b c ray = v * triD sq a b c ray := by
  obtain ⟨ax, ay, az⟩ := a; obtain ⟨bx, b_y, bz⟩ := b; obtain ⟨cx, cy, cz⟩ := c
  obtain ⟨⟨ox, oy, oz⟩, ⟨dx, dy, dz⟩⟩ := ray
  simp only [rayPt, Ray3.pointAt, V3.add, V3.sub, V3.smul, V3.mk.injEq, triT, triD, triVs, triWs, triN, V3.cross, V3.dot]
  rintro ⟨hx, hy, hz⟩
  refine ⟨?_, ?_, ?_⟩
  · linear_combination ((b_y - ay) * (cz - az) - (bz - az) * (cy - ay)) * hx + ((bz - az) * (cx - ax) - (bx - ax) * (cz - az)) * hy
      + ((bx - ax) * (cy - ay) - (b_y - ay) * (cx - ax)) * hz
  · linear_combination ((cy - ay) * dz - (cz - az) * dy) * hx + ((cz - az) * dx - (cx - ax) * dz) * hy
      + ((cx - ax) * dy - (cy - ay) * dx) * hz
  · linear_combination (dy * (bz - az) - dz * (b_y - ay)) * hx + (dz * (bx - ax) - dx * (bz - az)) * hy
      + (dx * (b_y - ay) - dy * (bx - ax)) * hz

/-- conversely (Cramer): the ray point at `s = −t0/d0` is `a + (vs/d0)(b−a) + (ws/d0)(c−a)`; stated without division -/
theorem tri_point_identity (a b c : V3 K) (ray : Ray3 K) :
    letI := fieldNum K sq
    ((ray.o.sub a).smul (triD sq a b c ray)).sub (ray.d.smul (triT sq a b c ray))
      = ((b.sub a).smul (triVs sq a b c ray)).add ((c.sub a).smul (triWs sq a b c ray)) := by
  obtain ⟨ax, ay, az⟩ := a; obtain ⟨bx, b_y, bz⟩ := b; obtain ⟨cx, cy, cz⟩ := c
  obtain ⟨⟨ox, oy, oz⟩, ⟨dx, dy, dz⟩⟩ := ray
  simp only [V3.add, V3.sub, V3.smul, V3.mk.injEq, triT, triD, triVs, triWs, triN, V3.cross, V3.dot]
  refine ⟨?_, ?_, ?_⟩ <;> ring

theorem tri_e_v (a c : V3 K) (ray : Ray3 K) (b : V3 K) :
    letI := fieldNum K sq
    (c.sub a).dot ((ray.d.cross (ray.o.sub a)).neg) = -triVs sq a b c ray := by
  simp only [triVs, V3.dot, V3.cross, V3.sub, V3.neg]; ring
theorem tri_e_w (a b : V3 K) (ray : Ray3 K) (c : V3 K) :
    letI := fieldNum K sq
    (b.sub a).dot ((ray.d.cross (ray.o.sub a)).neg) = triWs sq a b c ray := by
  simp only [triWs, V3.dot, V3.cross, V3.sub, V3.neg]; ring

/-- the model in terms of the scalar quantities -/
theorem tri_model_eq (a b c : V3 K) (ray : Ray3 K) :
    letI := fieldNum K sq
    localRayIntersectionWithTriangle a b c ray =
      (let d0 := triD sq a b c ray; let t0 := triT sq a b c ray; let vs := triVs sq a b c ray; let ws := triWs sq a b c ray
       let n := triN sq a b c
       if d0 = 0 then none else
       if (t0 < 0 ∧ d0 < 0) ∨ (0 < t0 ∧ 0 < d0) then none else
       if ¬ d0 < 0 then
         (if vs < 0 ∨ |d0| < vs then none else if ws < 0 ∨ |d0| < vs + ws then none else
           some ({ toi := -t0 * (1 / |d0|), n := n.normalize.neg, fkind := 0, fidx := 1 },
                 ⟨-(vs * (1 / |d0|)) - ws * (1 / |d0|) + 1, vs * (1 / |d0|), ws * (1 / |d0|)⟩))
       else
         (if -vs < 0 ∨ |d0| < -vs then none else if -ws < 0 ∨ |d0| < -vs + -ws then none else
           some ({ toi := t0 * (1 / |d0|), n := n.normalize, fkind := 0, fidx := 0 },
                 ⟨-(-vs * (1 / |d0|)) - -ws * (1 / |d0|) + 1, -vs * (1 / |d0|), -ws * (1 / |d0|)⟩))) := by
  simp only [localRayIntersectionWithTriangle, tri_e_v sq a c ray b, tri_e_w sq a b ray c, fieldNum_nabs, neg_neg]
  have hD : @V3.dot K (fieldNum K sq) (@V3.cross K (fieldNum K sq) (@V3.sub K (fieldNum K sq) b a) (@V3.sub K (fieldNum K sq) c a)) ray.d
      = triD sq a b c ray := rfl
  have hT : @V3.dot K (fieldNum K sq) (@V3.sub K (fieldNum K sq) ray.o a) (@V3.cross K (fieldNum K sq) (@V3.sub K (fieldNum K sq) b a) (@V3.sub K (fieldNum K sq) c a))
      = triT sq a b c ray := rfl
  have hN : (@V3.cross K (fieldNum K sq) (@V3.sub K (fieldNum K sq) b a) (@V3.sub K (fieldNum K sq) c a)) = triN sq a b c := rfl
  rw [hD, hT, hN]
  by_cases h0 : triD sq a b c ray = 0
  · have : @neq K (fieldNum K sq) (triD sq a b c ray) 0 = true := (neq_zero_iff sq _).2 h0
    rw [if_pos this]; simp [h0]
  · have : @neq K (fieldNum K sq) (triD sq a b c ray) 0 = false := by
      rw [Bool.eq_false_iff]; exact fun h => h0 ((neq_zero_iff sq _).1 h)
    simp only [this, h0, if_false, Bool.false_eq_true]
    by_cases hneg : triD sq a b c ray < 0
    · simp [hneg]
    · simp [hneg]


/-! ## Aabb helpers -/

/-- one coordinate of the ray inside one slab of the box -/
def SlabMem (mn mx o d s : K) : Prop := mn ≤ o + d * s ∧ o + d * s ≤ mx

/-- the box as a set -/
def AabbMem (b : Aabb K) (p : V3 K) : Prop :=
  (b.mins.x ≤ p.x ∧ p.x ≤ b.maxs.x) ∧ (b.mins.y ≤ p.y ∧ p.y ≤ b.maxs.y) ∧ (b.mins.z ≤ p.z ∧ p.z ≤ b.maxs.z)
/-- `p` lies on (the plane of) one of the six faces; the boundary of the box is `AabbMem ∧ OnFace` -/
def OnFace (b : Aabb K) (p : V3 K) : Prop :=
  (p.x = b.mins.x ∨ p.x = b.maxs.x) ∨ (p.y = b.mins.y ∨ p.y = b.maxs.y) ∨ (p.z = b.mins.z ∨ p.z = b.maxs.z)
/-- `mins ≤ maxs` componentwise -/
def AabbValid (b : Aabb K) : Prop := b.mins.x ≤ b.maxs.x ∧ b.mins.y ≤ b.maxs.y ∧ b.mins.z ≤ b.maxs.z

theorem aabbMem_rayPt (b : Aabb K) (ray : Ray3 K) (s : K) :
    AabbMem b (rayPt sq ray s) ↔ SlabMem b.mins.x b.maxs.x ray.o.x ray.d.x s ∧ SlabMem b.mins.y b.maxs.y ray.o.y ray.d.y s ∧
      SlabMem b.mins.z b.maxs.z ray.o.z ray.d.z s := Iff.rfl

/-- for `d ≠ 0` the slab condition is the parameter interval `[near, far]` computed by the code -/
theorem slab_iff (mn mx o d s : K) (hbox : mn ≤ mx) (hd : d ≠ 0) :
    SlabMem mn mx o d s ↔
      (if (mx - o) * (1 / d) < (mn - o) * (1 / d) then (mx - o) * (1 / d) else (mn - o) * (1 / d)) ≤ s ∧
      s ≤ (if (mx - o) * (1 / d) < (mn - o) * (1 / d) then (mn - o) * (1 / d) else (mx - o) * (1 / d)) := by
  unfold SlabMem
  have e1 : (mn - o) * (1 / d) = (mn - o) / d := by ring
  have e2 : (mx - o) * (1 / d) = (mx - o) / d := by ring
  rw [e1, e2]
  rcases lt_or_gt_of_ne hd with hneg | hpos
  · -- d < 0 : near = (mx-o)/d, far = (mn-o)/d (or equal)
    have hle : (mx - o) / d ≤ (mn - o) / d := by
      rw [div_le_div_right_of_neg hneg]; linarith
    split_ifs with h
    · rw [div_le_iff_of_neg hneg, le_div_iff_of_neg hneg]
      constructor
      · rintro ⟨a, b⟩; constructor <;> nlinarith
      · rintro ⟨a, b⟩; constructor <;> nlinarith
    · have heq : (mx - o) / d = (mn - o) / d := le_antisymm hle (not_lt.1 h)
      rw [← heq, div_le_iff_of_neg hneg, le_div_iff_of_neg hneg]
      have : mx - o = mn - o := by
        have := congrArg (· * d) heq
        simp only [div_mul_cancel₀ _ hd] at this; exact this
      constructor
      · rintro ⟨a, b⟩; constructor <;> nlinarith
      · rintro ⟨a, b⟩; constructor <;> nlinarith
  · have hle : (mn - o) / d ≤ (mx - o) / d := by
      rw [div_le_div_iff_of_pos_right hpos]; linarith
    rw [if_neg (not_lt.2 hle), if_neg (not_lt.2 hle), div_le_iff₀ hpos, le_div_iff₀ hpos]
    constructor
    · rintro ⟨a, b⟩; constructor <;> nlinarith
    · rintro ⟨a, b⟩; constructor <;> nlinarith

theorem slab_face (mn mx o d : K) (hd : d ≠ 0) :
    let n0 := (mn - o) * (1 / d); let f0 := (mx - o) * (1 / d)
    (o + d * (if f0 < n0 then f0 else n0) = mn ∨ o + d * (if f0 < n0 then f0 else n0) = mx) ∧
    (o + d * (if f0 < n0 then n0 else f0) = mn ∨ o + d * (if f0 < n0 then n0 else f0) = mx) := by
  intro n0 f0
  have e1 : o + d * n0 = mn := by simp only [n0]; field_simp; ring
  have e2 : o + d * f0 = mx := by simp only [f0]; field_simp; ring
  split_ifs <;> simp [e1, e2]

/-- loop invariant of `Aabb::cast_local_ray` after some axes have been processed (`P` = their slab conditions) -/
structure SlabInv (big : K) (P face : K → Prop) (st : K × K) : Prop where
  iff : ∀ s, 0 ≤ s → s ≤ big → (P s ↔ st.1 ≤ s ∧ s ≤ st.2)
  lo : 0 ≤ st.1
  le : st.1 ≤ st.2
  hi : st.2 ≤ big
  fmin : st.1 = 0 ∨ face st.1
  fmax : st.2 = big ∨ face st.2

theorem slabStep_some (big mn mx o d : K) (hbox : mn ≤ mx) (P face : K → Prop) (st st' : K × K)
    (hface : ∀ s, (o + d * s = mn ∨ o + d * s = mx) → face s)
    (hinv : SlabInv big P face st) :
    letI := fieldNum K sq
    slabStep mn mx o d st = some st' → SlabInv big (fun s => P s ∧ SlabMem mn mx o d s) face st' := by
  simp only [slabStep]
  by_cases hd : d = 0
  · have : @neq K (fieldNum K sq) d 0 = true := (neq_zero_iff sq d).2 hd
    rw [if_pos this]
    split_ifs with h
    · intro h'; cases h'
    · intro h'; cases h'
      push Not at h
      refine ⟨fun s hs hsb => ?_, hinv.lo, hinv.le, hinv.hi, hinv.fmin, hinv.fmax⟩
      rw [← hinv.iff s hs hsb]
      unfold SlabMem; rw [hd]; simp only [zero_mul, add_zero]
      exact ⟨fun h' => h'.1, fun h' => ⟨h', h.1, h.2⟩⟩
  · have : ¬ (@neq K (fieldNum K sq) d 0 = true) := fun h => hd ((neq_zero_iff sq d).1 h)
    rw [if_neg this]
    simp only [fieldNum_nmax, fieldNum_nmin]
    have hs := slab_iff mn mx o d
    have hf := slab_face mn mx o d hd
    simp only at hf
    generalize (if (mx - o) * (1 / d) < (mn - o) * (1 / d) then (mx - o) * (1 / d) else (mn - o) * (1 / d)) = near at *
    generalize (if (mx - o) * (1 / d) < (mn - o) * (1 / d) then (mn - o) * (1 / d) else (mx - o) * (1 / d)) = far at *
    split_ifs with h
    · intro h'; cases h'
    · intro h'; cases h'
      push Not at h
      refine ⟨fun s hs0 hsb => ?_, le_trans hinv.lo (le_max_left _ _), h, le_trans (min_le_left _ _) hinv.hi, ?_, ?_⟩
      · rw [hinv.iff s hs0 hsb, hs s hbox hd]
        simp only [max_le_iff, le_min_iff]; tauto
      · rcases max_choice st.1 near with e | e
        · rw [e]; exact hinv.fmin
        · rw [e]; exact Or.inr (hface _ hf.1)
      · rcases min_choice st.2 far with e | e
        · rw [e]; exact hinv.fmax
        · rw [e]; exact Or.inr (hface _ hf.2)

theorem slabStep_none (big mn mx o d : K) (hbox : mn ≤ mx) (P face : K → Prop) (st : K × K)
    (hinv : SlabInv big P face st) :
    letI := fieldNum K sq
    slabStep mn mx o d st = none → ∀ s, 0 ≤ s → s ≤ big → ¬ (P s ∧ SlabMem mn mx o d s) := by
  simp only [slabStep]
  by_cases hd : d = 0
  · have : @neq K (fieldNum K sq) d 0 = true := (neq_zero_iff sq d).2 hd
    rw [if_pos this]
    split_ifs with h
    · intro _ s _ _ ⟨_, h1, h2⟩
      rw [hd] at h1 h2; simp only [zero_mul, add_zero] at h1 h2
      rcases h with h | h <;> linarith
    · intro h'; cases h'
  · have : ¬ (@neq K (fieldNum K sq) d 0 = true) := fun h => hd ((neq_zero_iff sq d).1 h)
    rw [if_neg this]
    simp only [fieldNum_nmax, fieldNum_nmin]
    have hs := slab_iff mn mx o d
    generalize (if (mx - o) * (1 / d) < (mn - o) * (1 / d) then (mx - o) * (1 / d) else (mn - o) * (1 / d)) = near at *
    generalize (if (mx - o) * (1 / d) < (mn - o) * (1 / d) then (mn - o) * (1 / d) else (mx - o) * (1 / d)) = far at *
    split_ifs with h
    · intro _ s hs0 hsb ⟨hp, hsl⟩
      rw [hinv.iff s hs0 hsb] at hp
      rw [hs s hbox hd] at hsl
      have h1 : max st.1 near ≤ s := max_le hp.1 hsl.1
      have h2 : s ≤ min st.2 far := le_min hp.2 hsl.2
      linarith
    · intro h'; cases h'

theorem SlabInv.congr {big : K} {P Q face : K → Prop} {st : K × K} (h : SlabInv big P face st) (hpq : ∀ s, P s ↔ Q s) :
    SlabInv big Q face st :=
  ⟨fun s a b => (hpq s).symm.trans (h.iff s a b), h.lo, h.le, h.hi, h.fmin, h.fmax⟩

/-- the three slab iterations of `Aabb::cast_local_ray`: either some axis exits with `None` and no parameter of `[0,big]`
is in the box, or the final `(tmin, tmax)` satisfies the invariant for the whole box -/
theorem aabb_fold (big : K) (b : Aabb K) (ray : Ray3 K) (hv : AabbValid b) (hbig : 0 ≤ big) :
    letI := fieldNum K sq
    (∃ s0 s1 st, slabStep b.mins.x b.maxs.x ray.o.x ray.d.x (0, big) = some s0 ∧
        slabStep b.mins.y b.maxs.y ray.o.y ray.d.y s0 = some s1 ∧ slabStep b.mins.z b.maxs.z ray.o.z ray.d.z s1 = some st ∧
        SlabInv big (fun s => AabbMem b (rayPt sq ray s)) (fun s => OnFace b (rayPt sq ray s)) st) ∨
    ((slabStep b.mins.x b.maxs.x ray.o.x ray.d.x (0, big) = none ∨
      (∃ s0, slabStep b.mins.x b.maxs.x ray.o.x ray.d.x (0, big) = some s0 ∧
        (slabStep b.mins.y b.maxs.y ray.o.y ray.d.y s0 = none ∨
         ∃ s1, slabStep b.mins.y b.maxs.y ray.o.y ray.d.y s0 = some s1 ∧ slabStep b.mins.z b.maxs.z ray.o.z ray.d.z s1 = none))) ∧
      ∀ s, 0 ≤ s → s ≤ big → ¬ AabbMem b (rayPt sq ray s)) := by
  obtain ⟨vx, vy, vz⟩ := hv
  let face := fun s => OnFace b (rayPt sq ray s)
  have i0 : SlabInv big (fun _ => True) face ((0 : K), big) :=
    ⟨fun s a b => ⟨fun _ => ⟨a, b⟩, fun _ => trivial⟩, le_refl _, hbig, le_refl _, Or.inl rfl, Or.inl rfl⟩
  have fx : ∀ s, (ray.o.x + ray.d.x * s = b.mins.x ∨ ray.o.x + ray.d.x * s = b.maxs.x) → face s := fun s h => Or.inl h
  have fy : ∀ s, (ray.o.y + ray.d.y * s = b.mins.y ∨ ray.o.y + ray.d.y * s = b.maxs.y) → face s := fun s h => Or.inr (Or.inl h)
  have fz : ∀ s, (ray.o.z + ray.d.z * s = b.mins.z ∨ ray.o.z + ray.d.z * s = b.maxs.z) → face s := fun s h => Or.inr (Or.inr h)
  cases h0 : @slabStep K (fieldNum K sq) b.mins.x b.maxs.x ray.o.x ray.d.x (0, big) with
  | none =>
    refine Or.inr ⟨Or.inl rfl, fun s a c hm => ?_⟩
    exact slabStep_none sq big _ _ _ _ vx _ face _ i0 h0 s a c ⟨trivial, ((aabbMem_rayPt sq b ray s).1 hm).1⟩
  | some s0 =>
    have i1 := slabStep_some sq big _ _ _ _ vx _ face _ s0 fx i0 h0
    cases h1 : @slabStep K (fieldNum K sq) b.mins.y b.maxs.y ray.o.y ray.d.y s0 with
    | none =>
      refine Or.inr ⟨Or.inr ⟨s0, rfl, Or.inl h1⟩, fun s a c hm => ?_⟩
      have hm' := (aabbMem_rayPt sq b ray s).1 hm
      exact slabStep_none sq big _ _ _ _ vy _ face _ i1 h1 s a c ⟨⟨trivial, hm'.1⟩, hm'.2.1⟩
    | some s1 =>
      have i2 := slabStep_some sq big _ _ _ _ vy _ face _ s1 fy i1 h1
      cases h2 : @slabStep K (fieldNum K sq) b.mins.z b.maxs.z ray.o.z ray.d.z s1 with
      | none =>
        refine Or.inr ⟨Or.inr ⟨s0, rfl, Or.inr ⟨s1, h1, h2⟩⟩, fun s a c hm => ?_⟩
        have hm' := (aabbMem_rayPt sq b ray s).1 hm
        exact slabStep_none sq big _ _ _ _ vz _ face _ i2 h2 s a c ⟨⟨⟨trivial, hm'.1⟩, hm'.2.1⟩, hm'.2.2⟩
      | some st =>
        have i3 := slabStep_some sq big _ _ _ _ vz _ face _ st fz i2 h2
        refine Or.inl ⟨s0, s1, st, rfl, h1, h2, i3.congr fun s => ?_⟩
        rw [aabbMem_rayPt]; tauto


/-- `Aabb::cast_local_ray` (corrected) in terms of the final loop state -/
theorem aabb_cast_cases (big : K) (b : Aabb K) (ray : Ray3 K) (max : K) (solid : Bool) (hv : AabbValid b) (hbig : 0 ≤ big) :
    letI := fieldNum K sq
    (∃ st : K × K, SlabInv big (fun s => AabbMem b (rayPt sq ray s)) (fun s => OnFace b (rayPt sq ray s)) st ∧
      b.castLocalRay big ray max solid =
        (if (if st.1 = 0 ∧ solid = false then st.2 else st.1) ≤ max then some (if st.1 = 0 ∧ solid = false then st.2 else st.1) else none)) ∨
    (b.castLocalRay big ray max solid = none ∧ ∀ s, 0 ≤ s → s ≤ big → ¬ AabbMem b (rayPt sq ray s)) := by
  rcases aabb_fold sq big b ray hv hbig with ⟨s0, s1, st, h0, h1, h2, inv⟩ | ⟨hnone, hno⟩
  · refine Or.inl ⟨st, inv, ?_⟩
    simp only [Aabb.castLocalRay, h0, h1, h2]
    have e : (@neq K (fieldNum K sq) st.1 0 && !solid) = true ↔ (st.1 = 0 ∧ solid = false) := by
      rw [Bool.and_eq_true, neq_zero_iff]; simp
    by_cases hc : st.1 = 0 ∧ solid = false
    · rw [if_pos (e.2 hc), if_pos hc]
    · rw [if_neg (fun h => hc (e.1 h)), if_neg hc]
  · refine Or.inr ⟨?_, hno⟩
    simp only [Aabb.castLocalRay]
    rcases hnone with h | ⟨s0, h0, h | ⟨s1, h1, h2⟩⟩
    · rw [h]
    · rw [h0]; simp only [h]
    · rw [h0]; simp only [h1, h2]


/-! ## clip_aabb_line helpers -/

/-- entering face of axis `i`: side code `i+1` = min face (ray moving in `+i`), `−(i+1)` = max face (moving in `−i`) -/
def NearFace (i : Nat) (mn mx o d : K) (side : Int) (t : K) : Prop :=
  (side = (i : Int) + 1 ∧ 0 < d ∧ o + d * t = mn) ∨ (side = -((i : Int) + 1) ∧ d < 0 ∧ o + d * t = mx)
/-- leaving face of axis `i`: `−(i+1)` = max face (moving in `+i`), `i+1` = min face (moving in `−i`) -/
def FarFace (i : Nat) (mn mx o d : K) (side : Int) (t : K) : Prop :=
  (side = -((i : Int) + 1) ∧ 0 < d ∧ o + d * t = mx) ∨ (side = (i : Int) + 1 ∧ d < 0 ∧ o + d * t = mn)

/-- loop invariant of `clip_aabb_line` -/
structure ClipInv (big : K) (P : K → Prop) (nearOK farOK : Int → K → Prop) (st : ClipSt K) : Prop where
  iff : ∀ s, -big ≤ s → s ≤ big → (P s ↔ st.tmin ≤ s ∧ s ≤ st.tmax)
  lo : -big ≤ st.tmin
  hi : st.tmax ≤ big
  le : st.tmin ≤ st.tmax
  nside : (st.nearSide = 0 ∧ st.tmin = -big) ∨ nearOK st.nearSide st.tmin
  fside : (st.farSide = 0 ∧ st.tmax = big) ∨ farOK st.farSide st.tmax

theorem flip_iff (mn mx o d : K) (hbox : mn < mx) (hd : d ≠ 0) :
    (mx - o) * (1 / d) < (mn - o) * (1 / d) ↔ d < 0 := by
  have e1 : (mn - o) * (1 / d) = (mn - o) / d := by ring
  have e2 : (mx - o) * (1 / d) = (mx - o) / d := by ring
  rw [e1, e2]
  rcases lt_or_gt_of_ne hd with h | h
  · simp only [h, iff_true]; rw [div_lt_div_right_of_neg h]; linarith
  · have : ¬ d < 0 := not_lt.2 h.le
    simp only [this, iff_false, not_lt]; rw [div_le_div_iff_of_pos_right h]; linarith

/-- the "near" update of one `clip_aabb_line` iteration -/
def updNear (i : Nat) (flip : Bool) (near : K) (st : ClipSt K) : ClipSt K :=
  letI := fieldNum K sq
  if st.tmin < near then
    { st with tmin := near, nearSide := if flip then -((i : Int) + 1) else (i : Int) + 1, nearDiag := false }
  else if neq near st.tmin then { st with nearDiag := true } else st
/-- the "far" update -/
def updFar (i : Nat) (flip : Bool) (far : K) (st : ClipSt K) : ClipSt K :=
  letI := fieldNum K sq
  if far < st.tmax then
    { st with tmax := far, farSide := if !flip then -((i : Int) + 1) else (i : Int) + 1, farDiag := false }
  else if neq far st.tmax then { st with farDiag := true } else st

theorem clipStep_eq (i : Nat) (mn mx o d : K) (st : ClipSt K) :
    letI := fieldNum K sq
    clipStep i mn mx o d st =
      if neq d 0 then (if o < mn ∨ mx < o then none else some st)
      else
        let n0 := (mn - o) * (1 / d); let f0 := (mx - o) * (1 / d)
        let flip : Bool := decide (f0 < n0)
        let st2 := updFar sq i flip (if flip then n0 else f0) (updNear sq i flip (if flip then f0 else n0) st)
        if st2.tmax < st2.tmin then none else some st2 := rfl

theorem updNear_spec (i : Nat) (flip : Bool) (near : K) (st : ClipSt K) :
    (updNear sq i flip near st).tmin = max st.tmin near ∧ (updNear sq i flip near st).tmax = st.tmax ∧
    (updNear sq i flip near st).farSide = st.farSide ∧
    ((st.tmin < near ∧ (updNear sq i flip near st).nearSide = (if flip then -((i : Int) + 1) else (i : Int) + 1)) ∨
     (near ≤ st.tmin ∧ (updNear sq i flip near st).nearSide = st.nearSide)) := by
  unfold updNear
  by_cases h1 : st.tmin < near
  · rw [if_pos h1]
    exact ⟨(max_eq_right h1.le).symm, rfl, rfl, Or.inl ⟨h1, rfl⟩⟩
  · rw [if_neg h1]
    by_cases h2 : @neq K (fieldNum K sq) near st.tmin = true
    · rw [if_pos h2]
      exact ⟨(max_eq_left (not_lt.1 h1)).symm, rfl, rfl, Or.inr ⟨not_lt.1 h1, rfl⟩⟩
    · rw [if_neg h2]
      exact ⟨(max_eq_left (not_lt.1 h1)).symm, rfl, rfl, Or.inr ⟨not_lt.1 h1, rfl⟩⟩

theorem updFar_spec (i : Nat) (flip : Bool) (far : K) (st : ClipSt K) :
    (updFar sq i flip far st).tmax = min st.tmax far ∧ (updFar sq i flip far st).tmin = st.tmin ∧
    (updFar sq i flip far st).nearSide = st.nearSide ∧
    ((far < st.tmax ∧ (updFar sq i flip far st).farSide = (if !flip then -((i : Int) + 1) else (i : Int) + 1)) ∨
     (st.tmax ≤ far ∧ (updFar sq i flip far st).farSide = st.farSide)) := by
  unfold updFar
  by_cases h1 : far < st.tmax
  · rw [if_pos h1]
    exact ⟨(min_eq_right h1.le).symm, rfl, rfl, Or.inl ⟨h1, rfl⟩⟩
  · rw [if_neg h1]
    by_cases h2 : @neq K (fieldNum K sq) far st.tmax = true
    · rw [if_pos h2]
      exact ⟨(min_eq_left (not_lt.1 h1)).symm, rfl, rfl, Or.inr ⟨not_lt.1 h1, rfl⟩⟩
    · rw [if_neg h2]
      exact ⟨(min_eq_left (not_lt.1 h1)).symm, rfl, rfl, Or.inr ⟨not_lt.1 h1, rfl⟩⟩

theorem clipStep_some (big : K) (i : Nat) (mn mx o d : K) (hbox : mn < mx) (P : K → Prop) (nearOK farOK : Int → K → Prop)
    (st st' : ClipSt K)
    (hnear : ∀ side t, NearFace i mn mx o d side t → nearOK side t)
    (hfar : ∀ side t, FarFace i mn mx o d side t → farOK side t)
    (hinv : ClipInv big P nearOK farOK st) :
    letI := fieldNum K sq
    clipStep i mn mx o d st = some st' → ClipInv big (fun s => P s ∧ SlabMem mn mx o d s) nearOK farOK st' := by
  rw [clipStep_eq]
  by_cases hd : d = 0
  · have : @neq K (fieldNum K sq) d 0 = true := (neq_zero_iff sq d).2 hd
    rw [if_pos this]
    split_ifs with h
    · intro h'; cases h'
    · intro h'; cases h'
      push Not at h
      refine ⟨fun s hs hsb => ?_, hinv.lo, hinv.hi, hinv.le, hinv.nside, hinv.fside⟩
      rw [← hinv.iff s hs hsb]
      unfold SlabMem; rw [hd]; simp only [zero_mul, add_zero]
      exact ⟨fun h' => h'.1, fun h' => ⟨h', h.1, h.2⟩⟩
  · have : ¬ (@neq K (fieldNum K sq) d 0 = true) := fun h => hd ((neq_zero_iff sq d).1 h)
    rw [if_neg this]
    have hs := slab_iff mn mx o d
    have hfl := flip_iff mn mx o d hbox hd
    simp only
    set n0 := (mn - o) * (1 / d) with hn0
    set f0 := (mx - o) * (1 / d) with hf0
    have en : o + d * n0 = mn := by rw [hn0]; field_simp; ring
    have ef : o + d * f0 = mx := by rw [hf0]; field_simp; ring
    -- the sorted parameters and what they mean, by sign of d
    obtain ⟨near, far, flip, hnearv, hfarv, hslab, hN, hF⟩ :
        ∃ (near far : K) (flip : Bool), (if (decide (f0 < n0)) = true then f0 else n0) = near ∧
          (if (decide (f0 < n0)) = true then n0 else f0) = far ∧
          (∀ s, SlabMem mn mx o d s ↔ near ≤ s ∧ s ≤ far) ∧ decide (f0 < n0) = flip ∧
          (NearFace i mn mx o d (if flip then -((i : Int) + 1) else (i : Int) + 1) near ∧
           FarFace i mn mx o d (if !flip then -((i : Int) + 1) else (i : Int) + 1) far) := by
      rcases lt_or_gt_of_ne hd with hneg | hpos
      · have hflip : f0 < n0 := hfl.2 hneg
        refine ⟨f0, n0, true, by simp [hflip], by simp [hflip], fun s => ?_, by simp [hflip], ?_⟩
        · have := hs s hbox.le hd; simp only [hflip, if_true] at this; exact this
        · exact ⟨Or.inr ⟨by simp, hneg, ef⟩, Or.inr ⟨by simp, hneg, en⟩⟩
      · have hflip : ¬ f0 < n0 := fun h => absurd (hfl.1 h) (not_lt.2 hpos.le)
        refine ⟨n0, f0, false, by simp [hflip], by simp [hflip], fun s => ?_, by simp [hflip], ?_⟩
        · have := hs s hbox.le hd; simp only [hflip, if_false] at this; exact this
        · exact ⟨Or.inl ⟨by simp, hpos, en⟩, Or.inl ⟨by simp, hpos, ef⟩⟩
    rw [hnearv, hfarv, hN]
    obtain ⟨a1, a2, a3, a4⟩ := updNear_spec sq i flip near st
    obtain ⟨b1, b2, b3, b4⟩ := updFar_spec sq i flip far (updNear sq i flip near st)
    generalize updNear sq i flip near st = st1 at *
    generalize updFar sq i flip far st1 = st2 at *
    split_ifs with h
    · intro h'; cases h'
    · intro h'; cases h'
      push Not at h
      have e1 : st'.tmin = max st.tmin near := by rw [b2, a1]
      have e2 : st'.tmax = min st.tmax far := by rw [b1, a2]
      refine ⟨fun s hs0 hsb => ?_, ?_, ?_, h, ?_, ?_⟩
      · rw [hinv.iff s hs0 hsb, hslab s, e1, e2]
        simp only [max_le_iff, le_min_iff]; tauto
      · rw [e1]; exact le_trans hinv.lo (le_max_left _ _)
      · rw [e2]; exact le_trans (min_le_left _ _) hinv.hi
      · rw [b3]
        rcases a4 with ⟨hlt, hside⟩ | ⟨hle, hside⟩
        · right; rw [hside, e1, max_eq_right hlt.le]; exact hnear _ _ hF.1
        · rw [hside, e1, max_eq_left hle]; exact hinv.nside
      · rcases b4 with ⟨hlt, hside⟩ | ⟨hle, hside⟩
        · right; rw [hside, e2, a2] at *; rw [min_eq_right hlt.le]; exact hfar _ _ hF.2
        · rw [hside, a3, e2]; rw [a2] at hle; rw [min_eq_left hle]; exact hinv.fside

theorem clipStep_none (big : K) (i : Nat) (mn mx o d : K) (hbox : mn < mx) (P : K → Prop) (nearOK farOK : Int → K → Prop)
    (st : ClipSt K) (hinv : ClipInv big P nearOK farOK st) :
    letI := fieldNum K sq
    clipStep i mn mx o d st = none → ∀ s, -big ≤ s → s ≤ big → ¬ (P s ∧ SlabMem mn mx o d s) := by
  rw [clipStep_eq]
  by_cases hd : d = 0
  · have : @neq K (fieldNum K sq) d 0 = true := (neq_zero_iff sq d).2 hd
    rw [if_pos this]
    split_ifs with h
    · intro _ s _ _ ⟨_, h1, h2⟩
      rw [hd] at h1 h2; simp only [zero_mul, add_zero] at h1 h2
      rcases h with h | h <;> linarith
    · intro h'; cases h'
  · have : ¬ (@neq K (fieldNum K sq) d 0 = true) := fun h => hd ((neq_zero_iff sq d).1 h)
    rw [if_neg this]
    have hs := slab_iff mn mx o d
    simp only
    set n0 := (mn - o) * (1 / d) with hn0
    set f0 := (mx - o) * (1 / d) with hf0
    obtain ⟨near, far, flip, hnearv, hfarv, hslab, hF⟩ :
        ∃ (near far : K) (flip : Bool), (if (decide (f0 < n0)) = true then f0 else n0) = near ∧
          (if (decide (f0 < n0)) = true then n0 else f0) = far ∧
          (∀ s, SlabMem mn mx o d s ↔ near ≤ s ∧ s ≤ far) ∧ decide (f0 < n0) = flip := by
      by_cases hflip : f0 < n0
      · refine ⟨f0, n0, true, by simp [hflip], by simp [hflip], fun s => ?_, by simp [hflip]⟩
        have := hs s hbox.le hd; simp only [hflip, if_true] at this; exact this
      · refine ⟨n0, f0, false, by simp [hflip], by simp [hflip], fun s => ?_, by simp [hflip]⟩
        have := hs s hbox.le hd; simp only [hflip, if_false] at this; exact this
    rw [hnearv, hfarv, hF]
    obtain ⟨a1, a2, _, _⟩ := updNear_spec sq i flip near st
    obtain ⟨b1, b2, _, _⟩ := updFar_spec sq i flip far (updNear sq i flip near st)
    generalize updNear sq i flip near st = st1 at *
    generalize updFar sq i flip far st1 = st2 at *
    split_ifs with h
    · intro _ s hs0 hsb ⟨hp, hsl⟩
      rw [hinv.iff s hs0 hsb] at hp
      rw [hslab s] at hsl
      have e1 : st2.tmin = max st.tmin near := by rw [b2, a1]
      have e2 : st2.tmax = min st.tmax far := by rw [b1, a2]
      have h1 : max st.tmin near ≤ s := max_le hp.1 hsl.1
      have h2 : s ≤ min st.tmax far := le_min hp.2 hsl.2
      rw [e1, e2] at h
      linarith
    · intro h'; cases h'


/-- `mins < maxs` componentwise (non-degenerate box) -/
def AabbStrict (b : Aabb K) : Prop := b.mins.x < b.maxs.x ∧ b.mins.y < b.maxs.y ∧ b.mins.z < b.maxs.z

/-- the side code / parameter pair names an entering face of the box for this ray -/
def NearOK (b : Aabb K) (ray : Ray3 K) (side : Int) (t : K) : Prop :=
  NearFace 0 b.mins.x b.maxs.x ray.o.x ray.d.x side t ∨ NearFace 1 b.mins.y b.maxs.y ray.o.y ray.d.y side t ∨
  NearFace 2 b.mins.z b.maxs.z ray.o.z ray.d.z side t
def FarOK (b : Aabb K) (ray : Ray3 K) (side : Int) (t : K) : Prop :=
  FarFace 0 b.mins.x b.maxs.x ray.o.x ray.d.x side t ∨ FarFace 1 b.mins.y b.maxs.y ray.o.y ray.d.y side t ∨
  FarFace 2 b.mins.z b.maxs.z ray.o.z ray.d.z side t

theorem ClipInv.congr {big : K} {P Q : K → Prop} {n f : Int → K → Prop} {st : ClipSt K} (h : ClipInv big P n f st)
    (hpq : ∀ s, P s ↔ Q s) : ClipInv big Q n f st :=
  ⟨fun s a b => (hpq s).symm.trans (h.iff s a b), h.lo, h.hi, h.le, h.nside, h.fside⟩

/-- the three iterations of `clip_aabb_line` -/
theorem clip_fold (big : K) (b : Aabb K) (ray : Ray3 K) (hv : AabbStrict b) (hbig : 0 ≤ big) :
    letI := fieldNum K sq
    let st0 : ClipSt K := ⟨-big, big, 0, 0, false, false⟩
    (∃ s0 s1 st, clipStep 0 b.mins.x b.maxs.x ray.o.x ray.d.x st0 = some s0 ∧
        clipStep 1 b.mins.y b.maxs.y ray.o.y ray.d.y s0 = some s1 ∧ clipStep 2 b.mins.z b.maxs.z ray.o.z ray.d.z s1 = some st ∧
        ClipInv big (fun s => AabbMem b (rayPt sq ray s)) (NearOK b ray) (FarOK b ray) st) ∨
    ((clipStep 0 b.mins.x b.maxs.x ray.o.x ray.d.x st0 = none ∨
      (∃ s0, clipStep 0 b.mins.x b.maxs.x ray.o.x ray.d.x st0 = some s0 ∧
        (clipStep 1 b.mins.y b.maxs.y ray.o.y ray.d.y s0 = none ∨
         ∃ s1, clipStep 1 b.mins.y b.maxs.y ray.o.y ray.d.y s0 = some s1 ∧ clipStep 2 b.mins.z b.maxs.z ray.o.z ray.d.z s1 = none))) ∧
      ∀ s, -big ≤ s → s ≤ big → ¬ AabbMem b (rayPt sq ray s)) := by
  intro st0
  obtain ⟨vx, vy, vz⟩ := hv
  have i0 : ClipInv big (fun _ => True) (NearOK b ray) (FarOK b ray) st0 :=
    ⟨fun s a c => ⟨fun _ => ⟨a, c⟩, fun _ => trivial⟩, le_refl _, le_refl _, by show -big ≤ big; linarith,
      Or.inl ⟨rfl, rfl⟩, Or.inl ⟨rfl, rfl⟩⟩
  have nx : ∀ side t, NearFace 0 b.mins.x b.maxs.x ray.o.x ray.d.x side t → NearOK b ray side t := fun _ _ h => Or.inl h
  have ny : ∀ side t, NearFace 1 b.mins.y b.maxs.y ray.o.y ray.d.y side t → NearOK b ray side t := fun _ _ h => Or.inr (Or.inl h)
  have nz : ∀ side t, NearFace 2 b.mins.z b.maxs.z ray.o.z ray.d.z side t → NearOK b ray side t := fun _ _ h => Or.inr (Or.inr h)
  have fx : ∀ side t, FarFace 0 b.mins.x b.maxs.x ray.o.x ray.d.x side t → FarOK b ray side t := fun _ _ h => Or.inl h
  have fy : ∀ side t, FarFace 1 b.mins.y b.maxs.y ray.o.y ray.d.y side t → FarOK b ray side t := fun _ _ h => Or.inr (Or.inl h)
  have fz : ∀ side t, FarFace 2 b.mins.z b.maxs.z ray.o.z ray.d.z side t → FarOK b ray side t := fun _ _ h => Or.inr (Or.inr h)
  cases h0 : @clipStep K (fieldNum K sq) 0 b.mins.x b.maxs.x ray.o.x ray.d.x st0 with
  | none =>
    refine Or.inr ⟨Or.inl rfl, fun s a c hm => ?_⟩
    exact clipStep_none sq big 0 _ _ _ _ vx _ _ _ _ i0 h0 s a c ⟨trivial, ((aabbMem_rayPt sq b ray s).1 hm).1⟩
  | some s0 =>
    have i1 := clipStep_some sq big 0 _ _ _ _ vx _ _ _ _ s0 nx fx i0 h0
    cases h1 : @clipStep K (fieldNum K sq) 1 b.mins.y b.maxs.y ray.o.y ray.d.y s0 with
    | none =>
      refine Or.inr ⟨Or.inr ⟨s0, rfl, Or.inl h1⟩, fun s a c hm => ?_⟩
      have hm' := (aabbMem_rayPt sq b ray s).1 hm
      exact clipStep_none sq big 1 _ _ _ _ vy _ _ _ _ i1 h1 s a c ⟨⟨trivial, hm'.1⟩, hm'.2.1⟩
    | some s1 =>
      have i2 := clipStep_some sq big 1 _ _ _ _ vy _ _ _ _ s1 ny fy i1 h1
      cases h2 : @clipStep K (fieldNum K sq) 2 b.mins.z b.maxs.z ray.o.z ray.d.z s1 with
      | none =>
        refine Or.inr ⟨Or.inr ⟨s0, rfl, Or.inr ⟨s1, h1, h2⟩⟩, fun s a c hm => ?_⟩
        have hm' := (aabbMem_rayPt sq b ray s).1 hm
        exact clipStep_none sq big 2 _ _ _ _ vz _ _ _ _ i2 h2 s a c ⟨⟨⟨trivial, hm'.1⟩, hm'.2.1⟩, hm'.2.2⟩
      | some st =>
        have i3 := clipStep_some sq big 2 _ _ _ _ vz _ _ _ _ st nz fz i2 h2
        refine Or.inl ⟨s0, s1, st, rfl, h1, h2, i3.congr fun s => ?_⟩
        rw [aabbMem_rayPt]; tauto

/-- the near/far normals written by `clip_aabb_line` from the final loop state -/
def clipNearN (d : V3 K) (s : ClipSt K) : V3 K :=
  letI := fieldNum K sq
  if s.nearDiag then d.normalize.neg else if s.nearSide < 0 then axisVec (-s.nearSide - 1) 1
  else if 0 < s.nearSide then axisVec (s.nearSide - 1) (-1) else V3.zero
def clipFarN (d : V3 K) (s : ClipSt K) : V3 K :=
  letI := fieldNum K sq
  if s.farDiag then d.normalize.neg else if s.farSide < 0 then axisVec (-s.farSide - 1) (-1)
  else if 0 < s.farSide then axisVec (s.farSide - 1) 1 else V3.zero

/-- `clip_aabb_line` in terms of the final loop state -/
theorem clip_cases (big : K) (b : Aabb K) (ray : Ray3 K) (hv : AabbStrict b) (hbig : 0 ≤ big) :
    letI := fieldNum K sq
    (∃ st : ClipSt K, ClipInv big (fun s => AabbMem b (rayPt sq ray s)) (NearOK b ray) (FarOK b ray) st ∧
      clipAabbLine big b ray.o ray.d =
        ClipRes.some ⟨st.tmin, clipNearN sq ray.d st, st.nearSide⟩ ⟨st.tmax, clipFarN sq ray.d st, st.farSide⟩) ∨
    (clipAabbLine big b ray.o ray.d = ClipRes.none ∧ ∀ s, -big ≤ s → s ≤ big → ¬ AabbMem b (rayPt sq ray s)) := by
  rcases clip_fold sq big b ray hv hbig with ⟨s0, s1, st, h0, h1, h2, inv⟩ | ⟨hnone, hno⟩
  · refine Or.inl ⟨st, inv, ?_⟩
    simp only [clipAabbLine, h0, h1, h2, clipNearN, clipFarN]
    split_ifs <;> rfl
  · refine Or.inr ⟨?_, hno⟩
    simp only [clipAabbLine]
    rcases hnone with h | ⟨s0, h0, h | ⟨s1, h1, h2⟩⟩
    · rw [h]
    · rw [h0]; simp only [h]
    · rw [h0]; simp only [h1, h2]

/-- `n` is the outward unit normal `∓e_i` of a face plane the ray point at `t` lies on, and the ray moves against it
(`n = −e_i`: min face, `d_i > 0`; `n = +e_i`: max face, `d_i < 0`) -/
def OutwardFaceNormal (b : Aabb K) (ray : Ray3 K) (t : K) (n : V3 K) : Prop :=
  (n = ⟨-1, 0, 0⟩ ∧ 0 < ray.d.x ∧ (rayPt sq ray t).x = b.mins.x) ∨ (n = ⟨1, 0, 0⟩ ∧ ray.d.x < 0 ∧ (rayPt sq ray t).x = b.maxs.x) ∨
  (n = ⟨0, -1, 0⟩ ∧ 0 < ray.d.y ∧ (rayPt sq ray t).y = b.mins.y) ∨ (n = ⟨0, 1, 0⟩ ∧ ray.d.y < 0 ∧ (rayPt sq ray t).y = b.maxs.y) ∨
  (n = ⟨0, 0, -1⟩ ∧ 0 < ray.d.z ∧ (rayPt sq ray t).z = b.mins.z) ∨ (n = ⟨0, 0, 1⟩ ∧ ray.d.z < 0 ∧ (rayPt sq ray t).z = b.maxs.z)

/-- a non-diagonal near normal written from a valid entering side code is an outward face normal -/
theorem clipNearN_outward (b : Aabb K) (ray : Ray3 K) (st : ClipSt K) (hd : st.nearDiag = false)
    (h : NearOK b ray st.nearSide st.tmin) : OutwardFaceNormal sq b ray st.tmin (clipNearN sq ray.d st) := by
  unfold clipNearN; rw [hd]; simp only [Bool.false_eq_true, if_false]
  have ptx : (rayPt sq ray st.tmin).x = ray.o.x + ray.d.x * st.tmin := rfl
  have pty : (rayPt sq ray st.tmin).y = ray.o.y + ray.d.y * st.tmin := rfl
  have ptz : (rayPt sq ray st.tmin).z = ray.o.z + ray.d.z * st.tmin := rfl
  rcases h with h | h | h <;> rcases h with ⟨hs, hdd, hp⟩ | ⟨hs, hdd, hp⟩ <;> rw [hs] <;>
    simp only [OutwardFaceNormal, ptx, pty, ptz, hp, axisVec] <;> norm_num <;> simp [hdd]

/-- `Aabb::cast_local_ray_and_get_normal` (`ray_aabb` over `clip_aabb_line`) in terms of the final loop state -/
theorem aabbN_cases (big : K) (b : Aabb K) (ray : Ray3 K) (max : K) (solid : Bool) (hv : AabbStrict b) (hbig : 0 ≤ big) :
    letI := fieldNum K sq
    let r := b.castLocalRayAndGetNormal big ray max solid
    (∃ st : ClipSt K, ClipInv big (fun s => AabbMem b (rayPt sq ray s)) (NearOK b ray) (FarOK b ray) st ∧
      ((st.tmax < 0 ∧ r = none) ∨
       (0 ≤ st.tmax ∧ st.tmin < 0 ∧ solid = true ∧ ∃ h, r = some h ∧ h.toi = 0) ∨
       (0 ≤ st.tmax ∧ st.tmin < 0 ∧ solid = false ∧ st.tmax ≤ max ∧ ∃ h, r = some h ∧ h.toi = st.tmax ∧ h.n = clipFarN sq ray.d st) ∨
       (0 ≤ st.tmax ∧ st.tmin < 0 ∧ solid = false ∧ max < st.tmax ∧ r = none) ∨
       (0 ≤ st.tmax ∧ 0 ≤ st.tmin ∧ st.tmin ≤ max ∧ ∃ h, r = some h ∧ h.toi = st.tmin ∧ h.n = clipNearN sq ray.d st) ∨
       (0 ≤ st.tmax ∧ 0 ≤ st.tmin ∧ max < st.tmin ∧ r = none))) ∨
    (r = none ∧ ∀ s, -big ≤ s → s ≤ big → ¬ AabbMem b (rayPt sq ray s)) := by
  intro r
  rcases clip_cases sq big b ray hv hbig with ⟨st, inv, hclip⟩ | ⟨hclip, hno⟩
  · refine Or.inl ⟨st, inv, ?_⟩
    have hr : r = @Aabb.castLocalRayAndGetNormal K (fieldNum K sq) big b ray max solid := rfl
    simp only [Aabb.castLocalRayAndGetNormal, hclip] at hr
    by_cases h0 : st.tmax < 0
    · rw [if_pos h0] at hr; exact Or.inl ⟨h0, hr⟩
    · rw [if_neg h0] at hr
      have h0' : 0 ≤ st.tmax := not_lt.1 h0
      by_cases h1 : st.tmin < 0
      · rw [if_pos h1] at hr
        cases solid with
        | true =>
          simp only [if_true] at hr
          exact Or.inr (Or.inl ⟨h0', h1, rfl, _, hr, rfl⟩)
        | false =>
          simp only [Bool.false_eq_true, if_false] at hr
          by_cases h2 : st.tmax ≤ max
          · rw [if_pos h2] at hr
            exact Or.inr (Or.inr (Or.inl ⟨h0', h1, rfl, h2, _, hr, rfl, rfl⟩))
          · rw [if_neg h2] at hr
            exact Or.inr (Or.inr (Or.inr (Or.inl ⟨h0', h1, rfl, not_le.1 h2, hr⟩)))
      · rw [if_neg h1] at hr
        by_cases h2 : st.tmin ≤ max
        · rw [if_pos h2] at hr
          exact Or.inr (Or.inr (Or.inr (Or.inr (Or.inl ⟨h0', not_lt.1 h1, h2, _, hr, rfl, rfl⟩))))
        · rw [if_neg h2] at hr
          exact Or.inr (Or.inr (Or.inr (Or.inr (Or.inr ⟨h0', not_lt.1 h1, not_le.1 h2, hr⟩))))
  · refine Or.inr ⟨?_, hno⟩
    show @Aabb.castLocalRayAndGetNormal K (fieldNum K sq) big b ray max solid = none
    simp only [Aabb.castLocalRayAndGetNormal, hclip]

/-! ## segment (2-D) helpers -/

/-- `f64::EPSILON` in `K` -/
def epsK (K : Type) [Field K] : K := ((mkRat 1 4503599627370496 : ℚ) : K)

/-- `ulps_eq!` in exact arithmetic: only the absolute clause `|a − b| ≤ ε` is meaningful (there are no ulps) -/
@[reducible] def fieldUlps (K : Type) [Field K] [LinearOrder K] [IsStrictOrderedRing K] : UlpsEq K where
  ulpsEq a b := decide (|a - b| ≤ epsK K)

theorem epsK_pos : 0 < epsK K := by
  unfold epsK; norm_num
theorem epsK_lt_one : epsK K < 1 := by
  unfold epsK; norm_num

/-- the curve of a 2-D ray -/
def rayPt2 (ray : Ray2 K) : K → V2 K := fun s =>
  letI := fieldNum K sq
  ray.pointAt s

/-- 2-D cross product -/
def perp2 (u v : V2 K) : K := u.x * v.y - u.y * v.x

/-- if the ray point at `s` is the segment point `a + t(b−a)`: Cramer in 2-D -/
theorem seg_mem_facts (a b : V2 K) (ray : Ray2 K) (s t : K) :
    letI := fieldNum K sq
    rayPt2 sq ray s = a.add ((b.sub a).smul t) →
    s * perp2 ray.d (b.sub a) = -perp2 (ray.o.sub a) (b.sub a) ∧
    t * perp2 ray.d (b.sub a) = -perp2 (ray.o.sub a) ray.d := by
  obtain ⟨ax, ay⟩ := a; obtain ⟨bx, b_y⟩ := b; obtain ⟨⟨ox, oy⟩, ⟨dx, dy⟩⟩ := ray
  simp only [rayPt2, Ray2.pointAt, V2.add, V2.sub, V2.smul, V2.mk.injEq, perp2]
  rintro ⟨hx, hy⟩
  constructor
  · linear_combination (b_y - ay) * hx - (bx - ax) * hy
  · linear_combination dy * hx - dx * hy

/-- polynomial identities behind the 2-D line–line intersection -/
theorem seg_poly (rx ry dx dy ex ey : K) :
    let aa := dx * dx + dy * dy; let e := ex * ex + ey * ey; let f := ex * rx + ey * ry
    let c := dx * rx + dy * ry; let bq := dx * ex + dy * ey; let den := aa * e - bq * bq
    e * den * rx + e * (bq * f - c * e) * dx - (bq * (bq * f - c * e) + f * den) * ex = 0 ∧
    e * den * ry + e * (bq * f - c * e) * dy - (bq * (bq * f - c * e) + f * den) * ey = 0 ∧
    den = (dx * ey - dy * ex) * (dx * ey - dy * ex) := by
  refine ⟨by ring, by ring, by ring⟩

/-- the closest-point parameters of two non-parallel lines in the plane are those of their intersection point -/
theorem seg_nonparallel_point (a b : V2 K) (ray : Ray2 K) (s t : K) :
    letI := fieldNum K sq
    let E := b.sub a; let r := ray.o.sub a
    let aa := ray.d.normSq; let e := E.normSq; let f := E.dot r; let c := ray.d.dot r; let bq := ray.d.dot E
    let denom := aa * e - bq * bq
    denom ≠ 0 → e ≠ 0 → s = (bq * f - c * e) / denom → t = (bq * s + f) / e →
    rayPt2 sq ray s = a.add (E.smul t) := by
  obtain ⟨ax, ay⟩ := a; obtain ⟨bx, b_y⟩ := b; obtain ⟨⟨ox, oy⟩, ⟨dx, dy⟩⟩ := ray
  simp only [rayPt2, Ray2.pointAt, V2.add, V2.sub, V2.smul, V2.mk.injEq, V2.normSq, V2.dot]
  intro hden he hs ht
  obtain ⟨p1, p2, _⟩ := seg_poly (ox - ax) (oy - ay) dx dy (bx - ax) (b_y - ay)
  generalize (dx * dx + dy * dy) * ((bx - ax) * (bx - ax) + (b_y - ay) * (b_y - ay)) -
      (dx * (bx - ax) + dy * (b_y - ay)) * (dx * (bx - ax) + dy * (b_y - ay)) = den at *
  generalize (bx - ax) * (bx - ax) + (b_y - ay) * (b_y - ay) = e at *
  have hs' : s * den = (dx * (bx - ax) + dy * (b_y - ay)) * ((bx - ax) * (ox - ax) + (b_y - ay) * (oy - ay)) -
      (dx * (ox - ax) + dy * (oy - ay)) * e := by rw [hs]; field_simp
  have ht' : t * e = (dx * (bx - ax) + dy * (b_y - ay)) * s + ((bx - ax) * (ox - ax) + (b_y - ay) * (oy - ay)) := by
    rw [ht]; field_simp
  have hne : e * den ≠ 0 := mul_ne_zero he hden
  constructor
  · have : e * den * (ox + dx * s - (ax + (bx - ax) * t)) = 0 := by
      linear_combination p1 + e * dx * hs' - den * (bx - ax) * ht' - (dx * (bx - ax) + dy * (b_y - ay)) * (bx - ax) * hs'
    rcases mul_eq_zero.1 this with h | h
    · exact absurd h hne
    · linarith
  · have : e * den * (oy + dy * s - (ay + (b_y - ay) * t)) = 0 := by
      linear_combination p2 + e * dy * hs' - den * (b_y - ay) * ht' - (dx * (bx - ax) + dy * (b_y - ay)) * (b_y - ay) * hs'
    rcases mul_eq_zero.1 this with h | h
    · exact absurd h hne
    · linarith

theorem defaultEps_eq : @defaultEps K (fieldNum K sq) = epsK K := rfl

/-- `closest_points_line_line_parameters_eps` in the regime `ε < |d1|²`, `ε < |d2|²`, `ε < denom` -/
theorem cp_nonparallel (o1 d1 o2 d2 : V2 K) :
    letI := fieldNum K sq
    letI := fieldUlps K
    let r := o1.sub o2; let a := d1.normSq; let e := d2.normSq; let f := d2.dot r; let c := d1.dot r; let b := d1.dot d2
    let denom := a * e - b * b
    epsK K < a → epsK K < e → epsK K < denom →
    closestPointsLineLineParametersEps2 o1 d1 o2 d2 defaultEps =
      ((b * f - c * e) / denom, (b * ((b * f - c * e) / denom) + f) / e, false) := by
  intro r a e f c b denom ha he hden
  simp only [closestPointsLineLineParametersEps2, defaultEps_eq]
  have hnle : ¬ (denom ≤ epsK K) := not_le.2 hden
  have hu : ¬ (|a * e - b * b| ≤ epsK K) := by
    rw [abs_of_pos (lt_trans (epsK_pos) hden)]; exact not_le.2 hden
  have h2 : ¬ (a ≤ epsK K) := not_le.2 ha
  have h3 : ¬ (e ≤ epsK K) := not_le.2 he
  simp only [r, a, e, f, c, b, denom] at hnle hu h2 h3 ⊢
  simp [h2, h3, hnle, hu, UlpsEq.ulpsEq]

/-- squared 2-D cross product = Gram determinant -/
theorem perp2_sq (u v : V2 K) :
    letI := fieldNum K sq
    perp2 u v * perp2 u v = u.normSq * v.normSq - u.dot v * u.dot v := by
  simp only [perp2, V2.normSq, V2.dot]; ring


/-- `closest_points_line_line_parameters_eps` flags exactly parallel lines (`denom = 0`) as parallel -/
theorem cp_parallel (o1 d1 o2 d2 : V2 K) :
    letI := fieldNum K sq
    letI := fieldUlps K
    epsK K < d1.normSq → epsK K < d2.normSq → d1.normSq * d2.normSq - d1.dot d2 * d1.dot d2 ≤ epsK K →
    (closestPointsLineLineParametersEps2 o1 d1 o2 d2 defaultEps).2.2 = true := by
  intro ha he hden
  simp only [closestPointsLineLineParametersEps2, defaultEps_eq]
  have h2 : ¬ (@V2.normSq K (fieldNum K sq) d1 ≤ epsK K) := not_le.2 ha
  have h3 : ¬ (@V2.normSq K (fieldNum K sq) d2 ≤ epsK K) := not_le.2 he
  simp [h2, h3, hden]

/-- the unit normal of a segment longer than `ε`, with `w = sqrt(|E|²)` -/
theorem seg_normal_eq (hs : LawfulSqrt sq) (s : Segment2 K) :
    letI := fieldNum K sq
    epsK K < (s.b.sub s.a).normSq →
    ∃ w, 0 < w ∧ w * w = (s.b.sub s.a).normSq ∧
      s.normalOrZero = ⟨(s.b.sub s.a).y / w, -(s.b.sub s.a).x / w⟩ := by
  intro he
  have hepos : 0 < @V2.normSq K (fieldNum K sq) (@V2.sub K (fieldNum K sq) s.b s.a) := lt_trans epsK_pos he
  have hsq : @V2.normSq K (fieldNum K sq) (⟨(@V2.sub K (fieldNum K sq) s.b s.a).y, -(@V2.sub K (fieldNum K sq) s.b s.a).x⟩ : V2 K)
      = @V2.normSq K (fieldNum K sq) (@V2.sub K (fieldNum K sq) s.b s.a) := by
    simp only [V2.normSq, V2.dot]; ring
  refine ⟨sq (@V2.normSq K (fieldNum K sq) (@V2.sub K (fieldNum K sq) s.b s.a)), ?_, hs.sq_mul _ hepos.le, ?_⟩
  · have h0 := hs.nonneg _ hepos.le
    have hww := hs.sq_mul _ hepos.le
    rcases eq_or_lt_of_le h0 with h | h
    · rw [← h] at hww; linarith
    · exact h
  · simp only [Segment2.normalOrZero, defaultEps_eq]
    rw [hsq]
    have hlt : epsK K * epsK K < @V2.normSq K (fieldNum K sq) (@V2.sub K (fieldNum K sq) s.b s.a) := by
      have : epsK K * epsK K < epsK K := by nlinarith [@epsK_pos K _ _ _, @epsK_lt_one K _ _ _]
      exact lt_trans this he
    simp only [hlt, if_true]
    rfl

/-- three vectors of the plane are linearly dependent (2-D Cramer identity) -/
theorem perp2_cramer (u v w : V2 K) :
    perp2 u v * w.x + perp2 v w * u.x + perp2 w u * v.x = 0 ∧ perp2 u v * w.y + perp2 v w * u.y + perp2 w u * v.y = 0 := by
  simp only [perp2]; constructor <;> ring

/-- Lagrange in 2-D: `|v|²|d|² = (v·d)² + (v×d)²` -/
theorem lagrange2 (v d : V2 K) :
    letI := fieldNum K sq
    v.normSq * d.normSq = v.dot d * v.dot d + perp2 v d * perp2 v d := by
  simp only [perp2, V2.normSq, V2.dot]; ring

/-- collinear configuration (`d ∥ e`, origin on the segment's line): the ray point at `u` is the segment point with
coordinate `t` iff their coordinates along `d` agree: `u·|d|² = (a−o)·d + t·(e·d)` -/
theorem seg_collinear_iff (a b : V2 K) (ray : Ray2 K) (u t : K) :
    letI := fieldNum K sq
    0 < ray.d.normSq → 0 < (b.sub a).normSq →
    perp2 ray.d (b.sub a) = 0 → perp2 (ray.o.sub a) (b.sub a) = 0 →
    (rayPt2 sq ray u = a.add ((b.sub a).smul t) ↔
      u * ray.d.normSq = (a.sub ray.o).dot ray.d + t * (b.sub a).dot ray.d) := by
  intro hd he hchi hr
  -- (o−a) × d = 0
  have hrd : perp2 (@V2.sub K (fieldNum K sq) ray.o a) ray.d = 0 := by
    obtain ⟨c1, c2⟩ := perp2_cramer (@V2.sub K (fieldNum K sq) ray.o a) ray.d (@V2.sub K (fieldNum K sq) b a)
    have hx : perp2 (@V2.sub K (fieldNum K sq) ray.o a) ray.d * (@V2.sub K (fieldNum K sq) b a).x = 0 := by
      have h3 : perp2 (@V2.sub K (fieldNum K sq) b a) (@V2.sub K (fieldNum K sq) ray.o a) = 0 := by
        simp only [perp2] at hr ⊢; linarith
      rw [hchi, h3] at c1; linarith
    have hy : perp2 (@V2.sub K (fieldNum K sq) ray.o a) ray.d * (@V2.sub K (fieldNum K sq) b a).y = 0 := by
      have h3 : perp2 (@V2.sub K (fieldNum K sq) b a) (@V2.sub K (fieldNum K sq) ray.o a) = 0 := by
        simp only [perp2] at hr ⊢; linarith
      rw [hchi, h3] at c2; linarith
    by_contra hne
    have ex : (@V2.sub K (fieldNum K sq) b a).x = 0 := (mul_eq_zero.1 hx).resolve_left hne
    have ey : (@V2.sub K (fieldNum K sq) b a).y = 0 := (mul_eq_zero.1 hy).resolve_left hne
    simp only [V2.normSq, V2.dot, ex, ey] at he; linarith
  obtain ⟨ax, ay⟩ := a; obtain ⟨bx, b_y⟩ := b; obtain ⟨⟨ox, oy⟩, ⟨dx, dy⟩⟩ := ray
  simp only [rayPt2, Ray2.pointAt, V2.add, V2.sub, V2.smul, V2.mk.injEq, perp2, V2.normSq, V2.dot] at *
  constructor
  · rintro ⟨hx, hy⟩
    linear_combination dx * hx + dy * hy
  · intro h
    -- v = (o + u d) − (a + t e); v·d = 0 and v×d = 0 ⇒ v = 0
    have vd : (ox + dx * u - (ax + (bx - ax) * t)) * dx + (oy + dy * u - (ay + (b_y - ay) * t)) * dy = 0 := by
      linear_combination h
    have vp : (ox + dx * u - (ax + (bx - ax) * t)) * dy - (oy + dy * u - (ay + (b_y - ay) * t)) * dx = 0 := by
      linear_combination hrd + t * hchi
    have hsq : ((ox + dx * u - (ax + (bx - ax) * t)) * (ox + dx * u - (ax + (bx - ax) * t)) +
        (oy + dy * u - (ay + (b_y - ay) * t)) * (oy + dy * u - (ay + (b_y - ay) * t))) * (dx * dx + dy * dy) = 0 := by
      linear_combination ((ox + dx * u - (ax + (bx - ax) * t)) * dx + (oy + dy * u - (ay + (b_y - ay) * t)) * dy) * vd +
        ((ox + dx * u - (ax + (bx - ax) * t)) * dy - (oy + dy * u - (ay + (b_y - ay) * t)) * dx) * vp
    have hz := (mul_eq_zero.1 hsq).resolve_right (ne_of_gt hd)
    have hP : ox + dx * u - (ax + (bx - ax) * t) = 0 := by
      have := mul_self_nonneg (oy + dy * u - (ay + (b_y - ay) * t))
      have h2 := mul_self_nonneg (ox + dx * u - (ax + (bx - ax) * t))
      exact mul_self_eq_zero.1 (le_antisymm (by linarith) h2)
    have hQ : oy + dy * u - (ay + (b_y - ay) * t) = 0 := by
      have := mul_self_nonneg (ox + dx * u - (ax + (bx - ax) * t))
      have h2 := mul_self_nonneg (oy + dy * u - (ay + (b_y - ay) * t))
      exact mul_self_eq_zero.1 (le_antisymm (by linarith) h2)
    constructor <;> linarith


/-- the parallel branch of the 2-D segment cast -/
theorem seg_cast_parallel_eq (s : Segment2 K) (ray : Ray2 K) (max : K) (solid : Bool) :
    letI := fieldNum K sq
    letI := fieldUlps K
    (closestPointsLineLineParametersEps2 ray.o ray.d s.a (s.b.sub s.a) defaultEps).2.2 = true →
    s.castLocalRayAndGetNormal ray max solid =
      (let segDir := s.b.sub s.a
       let dpos := s.a.sub ray.o
       let normal := s.normalOrZero
       if nabs (dpos.dot normal) < defaultEps then
         let dist1 := dpos.dot ray.d
         let dist2 := dist1 + segDir.dot ray.d
         if 0 ≤ dist1 ∧ 0 ≤ dist2 then
           let toi := nmin dist1 dist2 / ray.d.normSq
           if max < toi then none
           else if dist1 ≤ dist2 then some { toi := toi, n := normal, fkind := 1, fidx := 0 }
           else some { toi := dist2 / ray.d.normSq, n := normal, fkind := 1, fidx := 1 }
         else if 0 ≤ dist1 ∨ 0 ≤ dist2 then some { toi := 0, n := normal, fkind := 0, fidx := 0 }
         else none
       else none) := by
  intro hpar
  simp only [Segment2.castLocalRayAndGetNormal]
  rcases hcp : @closestPointsLineLineParametersEps2 K (fieldNum K sq) (fieldUlps K) ray.o ray.d s.a (@V2.sub K (fieldNum K sq) s.b s.a) (@defaultEps K (fieldNum K sq)) with ⟨sp, tp, par⟩
  rw [hcp] at hpar
  simp only at hpar
  subst hpar
  simp only [if_true]


/-- 2-D version of `rayPt_scale` -/
theorem rayPt2_scale (ray : Ray2 K) (l u : K) :
    letI := fieldNum K sq
    rayPt2 sq ⟨ray.o, ray.d.smul l⟩ u = rayPt2 sq ray (l * u) := by
  simp only [rayPt2, Ray2.pointAt, V2.add, V2.smul, mul_assoc]


end C04
