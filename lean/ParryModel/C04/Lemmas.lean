import ParryModel.Field
import ParryModel.C04.Model
import Mathlib.Analysis.Real.Sqrt
/-!
# C04 specification vocabulary and helper lemmas (not obligations; the property theorems are in `Theorems.lean`): closed-form ray casts, for every linearly ordered field and **every non-zero
direction (no unit-length assumption)**.

Specification vocabulary (the part a reader must trust):
* `FirstHit S pt max res` — `res = some t`: `t ∈ [0,max]`, the point `pt t` is in `S` and no earlier parameter
  `s ∈ [0,t)` is; `res = none`: no parameter of `[0,max]` is in `S`.
* `FirstHitU` — the same without an upper bound (`max = +∞`).
* `ExitHit S pt t` — a ray that starts inside `S` leaves it at `t`: all of `[0,t]` is in `S`, nothing after `t` is.
* shapes as sets are the `Mem` predicates of `Shapes.lean`; boundaries are spelled out per shape.
-/
namespace C04
open Model

variable {K : Type} [Field K] [LinearOrder K] [IsStrictOrderedRing K] (sq : K → K)

/-- first parameter of `[0,max]` at which the curve `pt` is in `S` (`none`: there is none) -/
def FirstHit (S : V3 K → Prop) (pt : K → V3 K) (max : K) : Option K → Prop
  | some t => 0 ≤ t ∧ t ≤ max ∧ S (pt t) ∧ ∀ s, 0 ≤ s → s < t → ¬ S (pt s)
  | none => ∀ s, 0 ≤ s → s ≤ max → ¬ S (pt s)

/-- `FirstHit` on the unbounded ray `[0,+∞)` -/
def FirstHitU (S : V3 K → Prop) (pt : K → V3 K) : Option K → Prop
  | some t => 0 ≤ t ∧ S (pt t) ∧ ∀ s, 0 ≤ s → s < t → ¬ S (pt s)
  | none => ∀ s, 0 ≤ s → ¬ S (pt s)

/-- the ray starts in `S` and leaves it for good at parameter `t` -/
def ExitHit (S : V3 K → Prop) (pt : K → V3 K) (t : K) : Prop :=
  0 ≤ t ∧ (∀ s, 0 ≤ s → s ≤ t → S (pt s)) ∧ ∀ s, t < s → ¬ S (pt s)

theorem quad_root (a b c w s : K) (hw : w * w = b * b - a * c) :
    a * (a * s * s + 2 * b * s + c) = (a * s + b - w) * (a * s + b + w) := by
  linear_combination (1 : K) * hw

theorem quad_zero (a b c w t : K) (ha : a ≠ 0) (hw : w * w = b * b - a * c)
    (h : a * t + b - w = 0 ∨ a * t + b + w = 0) : a * t * t + 2 * b * t + c = 0 := by
  have h1 := quad_root a b c w t hw
  have : a * (a * t * t + 2 * b * t + c) = 0 := by
    rw [h1]; rcases h with h | h <;> rw [h] <;> ring
  rcases mul_eq_zero.1 this with h' | h'
  · exact absurd h' ha
  · exact h'

/-- scalar skeleton of `ray_toi_with_ball` (same branches; `w` stands for `sqrt(delta)`) -/
def ballScalar (a b c w : K) (solid : Bool) : Bool × Option K :=
  if 0 < c ∧ 0 < b then (false, none)
  else if b * b - a * c < 0 then (false, none)
  else if (-b - w) / a ≤ 0 then
    (if solid then (true, some 0) else (true, some ((-b + w) / a)))
  else (false, some ((-b - w) / a))

theorem ballScalar_spec (a b c w : K) (solid : Bool) (ha : 0 < a)
    (hw0 : 0 ≤ b * b - a * c → 0 ≤ w) (hww : 0 ≤ b * b - a * c → w * w = b * b - a * c) :
    let g := fun s : K => a * s * s + 2 * b * s + c
    let res := ballScalar a b c w solid
    (res.1 = true ↔ c ≤ 0) ∧
    (res.1 = false → match res.2 with
        | some t => 0 < t ∧ g t = 0 ∧ a * t + b ≤ 0 ∧ ∀ s, 0 ≤ s → s < t → 0 < g s
        | none => ∀ s, 0 ≤ s → 0 < g s) ∧
    (res.1 = true → solid = true → res.2 = some 0) ∧
    (res.1 = true → solid = false → ∃ t, res.2 = some t ∧ 0 ≤ t ∧ g t = 0 ∧ 0 ≤ a * t + b ∧
        (∀ s, 0 ≤ s → s ≤ t → g s ≤ 0) ∧ (c < 0 → ∀ s, 0 ≤ s → s < t → g s < 0) ∧ ∀ s, t < s → 0 < g s) := by
  intro g res
  have hgpos : ∀ s, 0 < a * g s → 0 < g s := fun s h => by
    rcases lt_trichotomy 0 (g s) with h' | h' | h'
    · exact h'
    · rw [← h'] at h; simp at h
    · nlinarith
  simp only [res, ballScalar]
  split_ifs with h1 h2 h3 h4
  · -- c > 0, b > 0
    refine ⟨by simp; exact h1.1, fun _ => ?_, by simp, by simp⟩
    intro s hs
    show 0 < a * s * s + 2 * b * s + c
    nlinarith [mul_nonneg (mul_nonneg ha.le hs) hs, mul_nonneg h1.2.le hs, h1.1]
  · -- delta < 0
    have hc : 0 < c := by nlinarith [mul_self_nonneg b]
    refine ⟨by simp; exact hc, fun _ => ?_, by simp, by simp⟩
    intro s hs
    apply hgpos
    show 0 < a * (a * s * s + 2 * b * s + c)
    nlinarith [mul_self_nonneg (a * s + b)]
  · -- inside, solid
    push Not at h2
    have w0 := hw0 h2; have ww := hww h2
    have hbw : 0 ≤ b + w := by
      rw [div_le_iff₀ ha] at h3; linarith
    have hc : c ≤ 0 := by
      by_contra hc; push Not at hc
      have hb : b ≤ 0 := by by_contra hb; push Not at hb; exact h1 ⟨hc, hb⟩
      nlinarith [mul_pos ha hc]
    refine ⟨by simp; exact hc, by simp, by simp, by simp [h4]⟩
  · -- inside, not solid
    push Not at h2
    have w0 := hw0 h2; have ww := hww h2
    have hbw : 0 ≤ b + w := by
      rw [div_le_iff₀ ha] at h3; linarith
    have hc : c ≤ 0 := by
      by_contra hc; push Not at hc
      have hb : b ≤ 0 := by by_contra hb; push Not at hb; exact h1 ⟨hc, hb⟩
      nlinarith [mul_pos ha hc]
    have hwb : b ≤ w := by nlinarith [mul_nonneg ha.le (neg_nonneg.2 hc)]
    refine ⟨by simp; exact hc, by simp, by simp [h4], fun _ _ => ⟨_, rfl, ?_, ?_, ?_, ?_, ?_, ?_⟩⟩
    · exact div_nonneg (by linarith) ha.le
    · exact quad_zero a b c w _ ha.ne' ww (Or.inl (by rw [mul_div_cancel₀ _ ha.ne']; ring))
    · rw [mul_div_cancel₀ _ ha.ne']; linarith
    · intro s hs hst
      rw [le_div_iff₀ ha] at hst
      have h := quad_root a b c w s ww
      have : a * g s ≤ 0 := by
        rw [show g s = a * s * s + 2 * b * s + c from rfl, h]
        apply mul_nonpos_of_nonpos_of_nonneg <;> nlinarith [mul_nonneg ha.le hs]
      by_contra hg; push Not at hg
      nlinarith [mul_pos ha hg]
    · intro hc' s hs hst
      rw [lt_div_iff₀ ha] at hst
      have hbw' : 0 < b + w := by nlinarith [mul_pos ha (neg_pos.2 hc')]
      have h := quad_root a b c w s ww
      have : a * g s < 0 := by
        rw [show g s = a * s * s + 2 * b * s + c from rfl, h]
        apply mul_neg_of_neg_of_pos <;> nlinarith [mul_nonneg ha.le hs]
      by_contra hg; push Not at hg
      nlinarith [mul_nonneg ha.le hg]
    · intro s hst
      rw [div_lt_iff₀ ha] at hst
      apply hgpos
      rw [show g s = a * s * s + 2 * b * s + c from rfl, quad_root a b c w s ww]
      apply mul_pos <;> nlinarith
  · -- outside, hit
    push Not at h2 h3
    have w0 := hw0 h2; have ww := hww h2
    have hc0 : 0 < c := by
      by_contra hc; push Not at hc
      rw [lt_div_iff₀ ha] at h3
      nlinarith [mul_nonneg ha.le (neg_nonneg.2 hc)]
    refine ⟨by simp; exact hc0, fun _ => ⟨h3, ?_, ?_, ?_⟩, by simp, by simp⟩
    · exact quad_zero a b c w _ ha.ne' ww (Or.inr (by rw [mul_div_cancel₀ _ ha.ne']; ring))
    · rw [mul_div_cancel₀ _ ha.ne']; linarith
    · intro s hs hst
      rw [lt_div_iff₀ ha] at hst
      apply hgpos
      rw [show g s = a * s * s + 2 * b * s + c from rfl, quad_root a b c w s ww]
      apply mul_pos_of_neg_of_neg <;> nlinarith

/-- the ball of radius `r` centred at `c`, as a set: `|p − c|² ≤ r²` (`Ball.Mem3` of `Shapes.lean`, translated) -/
def BallAt (c : V3 K) (r : K) (p : V3 K) : Prop :=
  letI := fieldNum K sq
  (Ball.mk r).Mem3 (p.sub c)
/-- the sphere (boundary of the ball): `|p − c|² = r²` -/
def SphereAt (c : V3 K) (r : K) (p : V3 K) : Prop :=
  letI := fieldNum K sq
  (p.sub c).normSq = r * r
/-- the curve `s ↦ o + s·d` of a ray (model's `Ray::point_at`) -/
def rayPt (ray : Ray3 K) : K → V3 K := fun s =>
  letI := fieldNum K sq
  ray.pointAt s

theorem ball_poly (c : V3 K) (ray : Ray3 K) (r s : K) :
    letI := fieldNum K sq
    ((rayPt sq ray s).sub c).normSq - r * r
      = ray.d.normSq * s * s + 2 * ((ray.o.sub c).dot ray.d) * s + ((ray.o.sub c).normSq - r * r) := by
  simp only [rayPt, Ray3.pointAt, V3.add, V3.sub, V3.smul, V3.normSq, V3.dot]; ring

theorem rayToiWithBall_eq (c : V3 K) (r : K) (ray : Ray3 K) (solid : Bool) :
    letI := fieldNum K sq
    0 < ray.d.normSq →
    rayToiWithBall c r ray solid =
      ballScalar ray.d.normSq ((ray.o.sub c).dot ray.d) ((ray.o.sub c).normSq - r * r)
        (sq (((ray.o.sub c).dot ray.d) * ((ray.o.sub c).dot ray.d) - ray.d.normSq * ((ray.o.sub c).normSq - r * r))) solid := by
  intro ha
  have hne : @neq K (fieldNum K sq) (@V3.normSq K (fieldNum K sq) ray.d) 0 = false := by
    simp only [neq, Bool.and_eq_false_iff, decide_eq_false_iff_not, not_le]
    exact Or.inl ha
  simp only [rayToiWithBall, ballScalar, hne]
  rfl

/-- all four facts about `ray_toi_with_ball` at once, in terms of `g(s) = |o + s·d − c|² − r²` -/
theorem ball_core (hs : LawfulSqrt sq) (c : V3 K) (r : K) (ray : Ray3 K) (solid : Bool) :
    letI := fieldNum K sq
    0 < ray.d.normSq →
    let g := fun s : K => ((rayPt sq ray s).sub c).normSq - r * r
    let a := ray.d.normSq
    let b := (ray.o.sub c).dot ray.d
    let res := rayToiWithBall c r ray solid
    (res.1 = true ↔ g 0 ≤ 0) ∧
    (res.1 = false → match res.2 with
        | some t => 0 < t ∧ g t = 0 ∧ a * t + b ≤ 0 ∧ ∀ s, 0 ≤ s → s < t → 0 < g s
        | none => ∀ s, 0 ≤ s → 0 < g s) ∧
    (res.1 = true → solid = true → res.2 = some 0) ∧
    (res.1 = true → solid = false → ∃ t, res.2 = some t ∧ 0 ≤ t ∧ g t = 0 ∧ 0 ≤ a * t + b ∧
        (∀ s, 0 ≤ s → s ≤ t → g s ≤ 0) ∧ (g 0 < 0 → ∀ s, 0 ≤ s → s < t → g s < 0) ∧ ∀ s, t < s → 0 < g s) := by
  intro ha
  have hp := ball_poly sq c ray r
  have := ballScalar_spec (@V3.normSq K (fieldNum K sq) ray.d) (@V3.dot K (fieldNum K sq) (@V3.sub K (fieldNum K sq) ray.o c) ray.d)
    (@V3.normSq K (fieldNum K sq) (@V3.sub K (fieldNum K sq) ray.o c) - r * r) (sq _) solid ha (hs.nonneg _) (hs.sq_mul _)
  simp only [rayToiWithBall_eq sq c r ray solid ha, hp, mul_zero, zero_add]
  exact this

theorem ballAt_iff (c : V3 K) (r : K) (p : V3 K) :
    letI := fieldNum K sq
    BallAt sq c r p ↔ (p.sub c).normSq - r * r ≤ 0 := by
  unfold BallAt Ball.Mem3; exact sub_nonpos.symm
theorem sphereAt_iff (c : V3 K) (r : K) (p : V3 K) :
    letI := fieldNum K sq
    SphereAt sq c r p ↔ (p.sub c).normSq - r * r = 0 := by
  unfold SphereAt; exact sub_eq_zero.symm
theorem rayPt_zero (ray : Ray3 K) : rayPt sq ray 0 = ray.o := by
  simp [rayPt, Ray3.pointAt, V3.add, V3.smul]

theorem sub_zero_v3 (p : V3 K) : @V3.sub K (fieldNum K sq) p (@V3.zero K (fieldNum K sq)) = p := by
  cases p; simp [V3.sub, V3.zero]


/-- for a unit quaternion, the conjugate rotation preserves dot products -/
theorem invRot_dot (m : Iso3 K) (u v : V3 K)
    (hq : m.qi * m.qi + m.qj * m.qj + m.qk * m.qk + m.qw * m.qw = 1) :
    letI := fieldNum K sq
    (m.invRot u).dot (m.invRot v) = u.dot v := by
  simp only [Iso3.invRot, Iso3.rotQ, Iso3.qv, V3.add, V3.smul, V3.cross, V3.neg, V3.dot, fieldNum_two]
  linear_combination (4 * ((m.qi * m.qi + m.qj * m.qj + m.qk * m.qk) * (u.x * v.x + u.y * v.y + u.z * v.z)
    - (m.qi * u.x + m.qj * u.y + m.qk * u.z) * (m.qi * v.x + m.qj * v.y + m.qk * v.z))) * hq

theorem rot_dot (m : Iso3 K) (u v : V3 K)
    (hq : m.qi * m.qi + m.qj * m.qj + m.qk * m.qk + m.qw * m.qw = 1) :
    letI := fieldNum K sq
    (m.rot u).dot (m.rot v) = u.dot v := by
  simp only [Iso3.rot, Iso3.rotQ, Iso3.qv, V3.add, V3.smul, V3.cross, V3.dot, fieldNum_two]
  linear_combination (4 * ((m.qi * m.qi + m.qj * m.qj + m.qk * m.qk) * (u.x * v.x + u.y * v.y + u.z * v.z)
    - (m.qi * u.x + m.qj * u.y + m.qk * u.z) * (m.qi * v.x + m.qj * v.y + m.qk * v.z))) * hq

/-- for a unit quaternion, `rot ∘ invRot = id` -/
theorem rot_invRot (m : Iso3 K) (v : V3 K)
    (hq : m.qi * m.qi + m.qj * m.qj + m.qk * m.qk + m.qw * m.qw = 1) :
    letI := fieldNum K sq
    m.rot (m.invRot v) = v := by
  obtain ⟨x, y, z⟩ := v
  simp only [Iso3.rot, Iso3.invRot, Iso3.rotQ, Iso3.qv, V3.add, V3.smul, V3.cross, V3.neg, fieldNum_two]
  congr 1
  · linear_combination (4 * ((m.qi * m.qi + m.qj * m.qj + m.qk * m.qk) * x - m.qi * (m.qi * x + m.qj * y + m.qk * z))) * hq
  · linear_combination (4 * ((m.qi * m.qi + m.qj * m.qj + m.qk * m.qk) * y - m.qj * (m.qi * x + m.qj * y + m.qk * z))) * hq
  · linear_combination (4 * ((m.qi * m.qi + m.qj * m.qj + m.qk * m.qk) * z - m.qk * (m.qi * x + m.qj * y + m.qk * z))) * hq

/-! ## half-space helpers -/

/-- boundary plane of the half-space: `n·p = 0` -/
def PlaneOf (s : HalfSpace3 K) (p : V3 K) : Prop :=
  letI := fieldNum K sq
  s.n.dot p = 0

theorem halfspace_lin (s : HalfSpace3 K) (ray : Ray3 K) (u : K) :
    letI := fieldNum K sq
    s.n.dot (rayPt sq ray u) = s.n.dot ray.o + s.n.dot ray.d * u := by
  simp only [rayPt, Ray3.pointAt, V3.add, V3.smul, V3.dot]; ring

theorem halfspace_dpos (s : HalfSpace3 K) (ray : Ray3 K) :
    letI := fieldNum K sq
    s.n.dot ray.o.neg = -(s.n.dot ray.o) := by
  simp only [V3.neg, V3.dot]; ring

theorem neq_zero_iff (x : K) : @neq K (fieldNum K sq) x 0 = true ↔ x = 0 := by
  simp only [neq, Bool.and_eq_true, decide_eq_true_eq]
  exact ⟨fun h => le_antisymm h.1 h.2, fun h => by rw [h]; exact ⟨le_refl _, le_refl _⟩⟩

/-- scalar facts about `t = -al/be` -/
theorem hs_root (al be : K) (hbe : be ≠ 0) : al + be * (-al / be) = 0 := by
  field_simp; ring


/-! ## triangle (3-D) helpers -/

/-- the scalar quantities of the triangle cast, as polynomials of the inputs:
`d0 = n·dir`, `t0 = (o−a)·n`, `vs = ((o−a)×(c−a))·dir`, `ws = ((b−a)×(o−a))·dir`, with `n = (b−a)×(c−a)` -/
def triN (a b c : V3 K) : V3 K := letI := fieldNum K sq; (b.sub a).cross (c.sub a)
def triD (a b c : V3 K) (ray : Ray3 K) : K := letI := fieldNum K sq; (triN sq a b c).dot ray.d
def triT (a b c : V3 K) (ray : Ray3 K) : K := letI := fieldNum K sq; (ray.o.sub a).dot (triN sq a b c)
def triVs (a b c : V3 K) (ray : Ray3 K) : K := letI := fieldNum K sq; ((ray.o.sub a).cross (c.sub a)).dot ray.d
def triWs (a b c : V3 K) (ray : Ray3 K) : K := letI := fieldNum K sq; ((b.sub a).cross (ray.o.sub a)).dot ray.d

/-- if the ray point at `s` is the triangle point with coordinates `(u, v)`, then `s`, `u`, `v` are determined by the
scalar quantities: `t0 + s·d0 = 0`, `vs = u·d0`, `ws = v·d0` (Cramer) -/
theorem tri_mem_facts (a b c : V3 K) (ray : Ray3 K) (s u v : K) :
    letI := fieldNum K sq
    rayPt sq ray s = (a.add ((b.sub a).smul u)).add ((c.sub a).smul v) →
    triT sq a b c ray + s * triD sq a b c ray = 0 ∧ triVs sq a b c ray = u * triD sq a b c ray ∧
      triWs sq a b c ray = v * triD sq a b c ray := by
  obtain ⟨ax, ay, az⟩ := a; obtain ⟨bx, b_y, bz⟩ := b; obtain ⟨cx, cy, cz⟩ := c
  obtain ⟨⟨ox, oy, oz⟩, ⟨dx, dy, dz⟩⟩ := ray
  simp only [rayPt, Ray3.pointAt, V3.add, V3.sub, V3.smul, V3.mk.injEq, triT, triD, triVs, triWs, triN, V3.cross, V3.dot]
  rintro ⟨hx, hy, hz⟩
  refine ⟨?_, ?_, ?_⟩
  · linear_combination ((b_y - ay) * (cz - az) - (bz - az) * (cy - ay)) * hx + ((bz - az) * (cx - ax) - (bx - ax) * (cz - az)) * hy
      + ((bx - ax) * (cy - ay) - (b_y - ay) * (cx - ax)) * hz
  · linear_combination ((cy - ay) * dz - (cz - az) * dy) * hx + ((cz - az) * dx - (cx - ax) * dz) * hy
      + ((cx - ax) * dy - (cy - ay) * dx) * hz
  · linear_combination (dy * (bz - az) - dz * (b_y - ay)) * hx + (dz * (bx - ax) - dx * (bz - az)) * hy
      + (dx * (b_y - ay) - dy * (bx - ax)) * hz

/-- conversely (Cramer): the ray point at `s = −t0/d0` is `a + (vs/d0)(b−a) + (ws/d0)(c−a)`; stated without division -/
theorem tri_point_identity (a b c : V3 K) (ray : Ray3 K) :
    letI := fieldNum K sq
    ((ray.o.sub a).smul (triD sq a b c ray)).sub (ray.d.smul (triT sq a b c ray))
      = ((b.sub a).smul (triVs sq a b c ray)).add ((c.sub a).smul (triWs sq a b c ray)) := by
  obtain ⟨ax, ay, az⟩ := a; obtain ⟨bx, b_y, bz⟩ := b; obtain ⟨cx, cy, cz⟩ := c
  obtain ⟨⟨ox, oy, oz⟩, ⟨dx, dy, dz⟩⟩ := ray
  simp only [V3.add, V3.sub, V3.smul, V3.mk.injEq, triT, triD, triVs, triWs, triN, V3.cross, V3.dot]
  refine ⟨?_, ?_, ?_⟩ <;> ring

theorem tri_e_v (a c : V3 K) (ray : Ray3 K) (b : V3 K) :
    letI := fieldNum K sq
    (c.sub a).dot ((ray.d.cross (ray.o.sub a)).neg) = -triVs sq a b c ray := by
  simp only [triVs, V3.dot, V3.cross, V3.sub, V3.neg]; ring
theorem tri_e_w (a b : V3 K) (ray : Ray3 K) (c : V3 K) :
    letI := fieldNum K sq
    (b.sub a).dot ((ray.d.cross (ray.o.sub a)).neg) = triWs sq a b c ray := by
  simp only [triWs, V3.dot, V3.cross, V3.sub, V3.neg]; ring

/-- the model in terms of the scalar quantities -/
theorem tri_model_eq (a b c : V3 K) (ray : Ray3 K) :
    letI := fieldNum K sq
    localRayIntersectionWithTriangle a b c ray =
      (let d0 := triD sq a b c ray; let t0 := triT sq a b c ray; let vs := triVs sq a b c ray; let ws := triWs sq a b c ray
       let n := triN sq a b c
       if d0 = 0 then none else
       if (t0 < 0 ∧ d0 < 0) ∨ (0 < t0 ∧ 0 < d0) then none else
       if ¬ d0 < 0 then
         (if vs < 0 ∨ |d0| < vs then none else if ws < 0 ∨ |d0| < vs + ws then none else
           some ({ toi := -t0 * (1 / |d0|), n := n.normalize.neg, fkind := 0, fidx := 1 },
                 ⟨-(vs * (1 / |d0|)) - ws * (1 / |d0|) + 1, vs * (1 / |d0|), ws * (1 / |d0|)⟩))
       else
         (if -vs < 0 ∨ |d0| < -vs then none else if -ws < 0 ∨ |d0| < -vs + -ws then none else
           some ({ toi := t0 * (1 / |d0|), n := n.normalize, fkind := 0, fidx := 0 },
                 ⟨-(-vs * (1 / |d0|)) - -ws * (1 / |d0|) + 1, -vs * (1 / |d0|), -ws * (1 / |d0|)⟩))) := by
  simp only [localRayIntersectionWithTriangle, tri_e_v sq a c ray b, tri_e_w sq a b ray c, fieldNum_nabs, neg_neg]
  have hD : @V3.dot K (fieldNum K sq) (@V3.cross K (fieldNum K sq) (@V3.sub K (fieldNum K sq) b a) (@V3.sub K (fieldNum K sq) c a)) ray.d
      = triD sq a b c ray := rfl
  have hT : @V3.dot K (fieldNum K sq) (@V3.sub K (fieldNum K sq) ray.o a) (@V3.cross K (fieldNum K sq) (@V3.sub K (fieldNum K sq) b a) (@V3.sub K (fieldNum K sq) c a))
      = triT sq a b c ray := rfl
  have hN : (@V3.cross K (fieldNum K sq) (@V3.sub K (fieldNum K sq) b a) (@V3.sub K (fieldNum K sq) c a)) = triN sq a b c := rfl
  rw [hD, hT, hN]
  by_cases h0 : triD sq a b c ray = 0
  · have : @neq K (fieldNum K sq) (triD sq a b c ray) 0 = true := (neq_zero_iff sq _).2 h0
    rw [if_pos this]; simp [h0]
  · have : @neq K (fieldNum K sq) (triD sq a b c ray) 0 = false := by
      rw [Bool.eq_false_iff]; exact fun h => h0 ((neq_zero_iff sq _).1 h)
    simp only [this, h0, if_false, Bool.false_eq_true]
    by_cases hneg : triD sq a b c ray < 0
    · simp [hneg]
    · simp [hneg]


end C04
