import ParryModel.Proto
import ParryModel.C04.Model
/-! C04 protocol handlers: model evaluation at `Float` and exact-`Rat` oracles on implementation output.

Oracle design (DESIGN §7 C04): every verdict is computed from *exact rational* evaluation of the shape's
defining inequalities along the ray `s ↦ o + s·d` — never from the model's cast functions.
Tolerances are applied in "constraint space" (value of the defining polynomial at the reported hit), which is
where the floating-point error of the closed forms is benign even for grazing rays. -/
namespace C04
open Model Proto

/-! ### parsing -/
structure RayArgs where
  o : V3 Float
  d : V3 Float
  max : Float
  solid : Bool
def pray : P RayArgs := do let o ← pv3; let d ← pv3; let m ← pf; let s ← pbool; pure ⟨o, d, m, s⟩
def RayArgs.ray (a : RayArgs) : Ray3 Float := ⟨a.o, a.d⟩
/-- exact `max_toi`; `none` = `+∞` -/
def RayArgs.maxQ (a : RayArgs) : Option Rat := if FloatIO.isFinite a.max then some (q a.max) else none

def ffeat (k i : Nat) : String := match k with | 0 => s!"f{i}" | 1 => s!"v{i}" | _ => "u"
def ftoi (x : Option Float) : String := match x with | none => "none" | some t => s!"some {ff t}"
def fhit (x : Option (Hit3 Float)) : String :=
  match x with | none => "none" | some h => s!"some {ff h.toi} {fv3 h.n} {ffeat h.fkind h.fidx}"

/-- implementation output of a cast: `none` | `some toi [n feature]` -/
inductive Out where
  | bad (why : String)
  | miss
  | hit (toi : Float) (n : Option (V3 Float)) (feat : String)
def parseOut (o : List String) : Out :=
  match o with
  | "panic" :: _ => .bad "panic"
  | ["none"] => .miss
  | ["some", t] => match run pfo [t] with | some x => .hit x none "" | none => .bad "unparsable-output"
  | ["some", t, a, b, c, f] =>
    match run (do let t ← pfo; let n ← (do let x ← pfo; let y ← pfo; let z ← pfo; pure (⟨x, y, z⟩ : V3 Float)); pure (t, n)) [t, a, b, c] with
    | some (t, n) => .hit t (some n) f
    | none => .bad "unparsable-output"
  | _ => .bad "unparsable-output"

/-! ### exact helpers -/
def tol : Rat := tolDefault
def sqr (x : Rat) : Rat := x * x
def clampQ (x lo : Rat) (hi : Option Rat) : Rat :=
  let x := if x < lo then lo else x
  match hi with | some h => if h < x then h else x | none => x
def leOpt (t : Rat) (m : Option Rat) : Bool := match m with | some h => t ≤ h | none => true
/-- `s ≤ max·(1 − tol)`: clearly within the time bound -/
def ltMaxClear (s : Rat) (m : Option Rat) : Bool := match m with | some h => s ≤ h * (1 - tolDefault) | none => true
def finiteV (v : V3 Float) : Bool := finite3 v

/-- normal checks shared by all shapes: unit length, `n·d ≤ 0` (up to tolerance). -/
def normalBasic (n D : V3 Rat) : Option String :=
  if rabs (n.normSq - 1) > tol then some "normal-not-unit"
  else if n.dot D > 0 ∧ sqr (n.dot D) > sqr tol * D.normSq then some "normal-not-facing-ray"
  else none

/-! ### ball oracle: `g(s) = |O + s·D|² − r²` -/
def ballOracle (O D : V3 Rat) (r : Rat) (max : Option Rat) (solid : Bool) (out : Out) : String :=
  let a := D.normSq
  if a = 0 then "skip zero-dir" else if r ≤ 0 then "skip nonpositive-radius" else
  let b := O.dot D
  let c := O.normSq - r * r
  let g := fun (s : Rat) => a * s * s + 2 * b * s + c
  let tg := tol * (O.normSq + r * r)
  let gminOn := fun (hi : Option Rat) => g (clampQ (-b / a) 0 hi)
  match out with
  | .bad w => s!"fail {w}"
  | .miss =>
    if solid then
      if gminOn max < -tg then "fail none-but-segment-enters-ball" else "pass"
    else
      if c > tg then (if gminOn max < -tg then "fail none-but-segment-crosses-sphere" else "pass")
      else if c < -tg then
        match max with
        | none => "fail none-but-unbounded-ray-from-inside"
        | some m => if g m > tg then "fail none-but-segment-exits-ball" else "pass"
      else "pass"
  | .hit toi n _ =>
    if !FloatIO.isFinite toi then "fail nonfinite-toi" else
    let t := q toi
    if t < 0 then "fail negative-toi" else if !leOpt t max then "fail toi-exceeds-max" else
    let tgh := tol * (O.normSq + r * r + a * t * t)
    let onB := rabs (g t) ≤ tgh
    let first := gminOn (some t) ≥ -tgh
    let verdict :=
      if c > tg then (if !onB then "fail hit-not-on-sphere" else if !first then "fail earlier-point-inside" else "pass")
      else if c < -tg then
        (if solid then (if t = 0 then "pass" else "fail solid-inside-toi-nonzero")
         else if !onB then "fail exit-not-on-sphere" else if t ≤ 0 then "fail exit-at-zero-from-inside" else "pass")
      else (if solid ∧ t = 0 then "pass" else if !onB then "fail hit-not-on-sphere" else if solid ∧ !first then "fail earlier-point-inside" else "pass")
    if verdict != "pass" then verdict else
    match n with
    | none => "pass"
    | some nf =>
      -- toi = 0 from inside/on the surface: normal documented as unreliable
      if t = 0 ∧ c ≤ tg then "pass" else
      if !finiteV nf then "fail nonfinite-normal" else
      let nq := q3 nf
      let P := O.add (D.smul t)
      match normalBasic nq D with
      | some w => s!"fail {w}"
      | none =>
        if (nq.cross P).normSq > sqr (1 / 1000000) * P.normSq then "fail normal-not-radial"
        else
          let outward := nq.dot P > 0
          if c > tg ∧ !outward then "fail normal-not-outward"
          else if c < -tg ∧ outward then "fail exit-normal-not-inward"
          else "pass"

/-! ### box oracle: `f(s) = max_i max(mn_i − p_i, p_i − mx_i)` at `p = O + s·D` (≤ 0 inside, 0 on the boundary) -/
def bigF : Float := Float.ofBits 0x7FEFFFFFFFFFFFFF

def rmax (a b : Rat) : Rat := if a < b then b else a
def rmin (a b : Rat) : Rat := if b < a then b else a
def boxDepth (mn mx p : V3 Rat) : Rat :=
  rmax (rmax (rmax (mn.x - p.x) (p.x - mx.x)) (rmax (mn.y - p.y) (p.y - mx.y))) (rmax (mn.z - p.z) (p.z - mx.z))
/-- parameter interval of the line inside the box `[mn+e, mx−e]`; `none` = empty; ends `none` = unbounded -/
def slabQ (mn mx o d : Rat) (acc : Option (Option Rat × Option Rat)) : Option (Option Rat × Option Rat) :=
  match acc with
  | none => none
  | some (lo, hi) =>
    if mx < mn then none else
    if d = 0 then (if o < mn ∨ mx < o then none else some (lo, hi))
    else
      let a := (mn - o) / d; let b := (mx - o) / d
      let n := rmin a b; let f := rmax a b
      let lo' := match lo with | none => n | some l => rmax l n
      let hi' := match hi with | none => f | some h => rmin h f
      if hi' < lo' then none else some (some lo', some hi')
def boxInterval (mn mx O D : V3 Rat) (e : Rat) : Option (Option Rat × Option Rat) :=
  slabQ (mn.z + e) (mx.z - e) O.z D.z (slabQ (mn.y + e) (mx.y - e) O.y D.y (slabQ (mn.x + e) (mx.x - e) O.x D.x (some (none, none))))
/-- does the parameter interval meet `[0, hi)` (strict) resp. `[0, hi]`? -/
def meets (iv : Option (Option Rat × Option Rat)) (hi : Option Rat) (strict : Bool) : Bool :=
  match iv with
  | none => false
  | some (lo, up) =>
    let lo0 := match lo with | none => (0 : Rat) | some l => rmax l 0
    let upOk := match up with | none => true | some u => lo0 ≤ u
    let hiOk := match hi with | none => true | some h => if strict then lo0 < h else lo0 ≤ h
    upOk && hiOk
def absV (v : V3 Rat) : Rat := rabs v.x + rabs v.y + rabs v.z
def nearFaces (mn mx p : V3 Rat) (t : Rat) : Nat :=
  ([rabs (p.x - mn.x), rabs (p.x - mx.x), rabs (p.y - mn.y), rabs (p.y - mx.y), rabs (p.z - mn.z), rabs (p.z - mx.z)].filter (· ≤ t)).length

def boxNormal (mn mx O D : V3 Rat) (t tp : Rat) (inside : Option Bool) (nf : V3 Float) : String :=
  if !finiteV nf then "fail nonfinite-normal" else
  let n := q3 nf
  let P := O.add (D.smul t)
  match normalBasic n D with
  | some w => s!"fail {w}"
  | none =>
    let axisLike := ([n.x, n.y, n.z].filter (· ≠ 0)).length = 1
    if axisLike then
      -- n = ±e_i : the hit point must lie on the face it names: outward for entries, inward for exits
      let chk := fun (ni pi mni mxi : Rat) =>
        if ni = 0 then true else
        let onMin := rabs (pi - mni) ≤ tp; let onMax := rabs (pi - mxi) ≤ tp
        match inside with
        | some false => if ni < 0 then onMin else onMax
        | some true => if ni < 0 then onMax else onMin
        | none => onMin || onMax
      if chk n.x P.x mn.x mx.x && chk n.y P.y mn.y mx.y && chk n.z P.z mn.z mx.z then "pass" else "fail normal-names-wrong-face"
    else
      -- edge/corner tie: the code returns −dir/|dir|
      if (n.cross D).normSq > sqr (1 / 1000000) * D.normSq then "fail diag-normal-not-minus-dir"
      else if nearFaces mn mx P tp < 2 then "fail diag-normal-off-edge" else "pass"

def boxOracle (mn mx O D : V3 Rat) (max : Option Rat) (solid : Bool) (out : Out) : String :=
  if D.normSq = 0 then "skip zero-dir" else
  if mx.x < mn.x ∨ mx.y < mn.y ∨ mx.z < mn.z then "skip invalid-box" else
  let scale := 1 + absV O + absV mn + absV mx
  let tp := tol * scale
  let f := fun (s : Rat) => boxDepth mn mx (O.add (D.smul s))
  let f0 := f 0
  let deep := boxInterval mn mx O D tp
  match out with
  | .bad w => s!"fail {w}"
  | .miss =>
    if solid ∨ f0 > tp then (if meets deep max false then "fail none-but-segment-enters-box" else "pass")
    else if f0 < -tp then
      match max with
      | none => "fail none-but-unbounded-ray-from-inside"
      | some m => if f m > tol * (scale + rabs m * absV D) then "fail none-but-segment-exits-box" else "pass"
    else "pass"
  | .hit toi n _ =>
    if !FloatIO.isFinite toi then "fail nonfinite-toi" else
    let t := q toi
    if t < 0 then "fail negative-toi" else if !leOpt t max then "fail toi-exceeds-max" else
    let tph := tol * (scale + t * absV D)
    let onB := rabs (f t) ≤ tph
    let first := !meets (boxInterval mn mx O D tph) (some t) true
    let verdict :=
      if f0 > tp then (if !onB then "fail hit-not-on-boundary" else if !first then "fail earlier-point-inside" else "pass")
      else if f0 < -tp then
        (if solid then (if t = 0 then "pass" else "fail solid-inside-toi-nonzero")
         else if !onB then "fail exit-not-on-boundary" else if t ≤ 0 then "fail exit-at-zero-from-inside" else "pass")
      else (if solid ∧ t = 0 then "pass" else if !onB then "fail hit-not-on-boundary" else if solid ∧ !first then "fail earlier-point-inside" else "pass")
    if verdict != "pass" then verdict else
    match n with
    | none => "pass"
    | some nf =>
      if t = 0 ∧ solid ∧ f0 ≤ tp then "pass" else
      boxNormal mn mx O D t tph (if f0 > tp then some false else if f0 < -tp then some true else none) nf

def paabb : P (Aabb Float) := do let a ← pv3; let b ← pv3; pure ⟨a, b⟩
def fhit2 (x : Option (Hit3 Float)) : String := fhit x
def fclipEnd (e : ClipEnd Float) : String := s!"{ff e.t} {fv3 e.n} {e.side}"
def fclip (x : ClipRes Float) : String :=
  match x with | .none => "none" | .some n f => s!"some {fclipEnd n} {fclipEnd f}"

def clipOracle (mn mx O D : V3 Rat) (o : List String) : String :=
  if D.normSq = 0 then "skip zero-dir" else
  if mx.x < mn.x ∨ mx.y < mn.y ∨ mx.z < mn.z then "skip invalid-box" else
  let scale := 1 + absV O + absV mn + absV mx
  let tp := tol * scale
  let f := fun (s : Rat) => boxDepth mn mx (O.add (D.smul s))
  match o with
  | "panic" :: _ => "fail panic"
  -- `None` now means the whole *line* misses the box (a box behind the origin is still clipped)
  | ["none"] => if (boxInterval mn mx O D tp).isSome then "fail none-but-line-enters-box" else "pass"
  | ["some", t1, _, _, _, _, t2, _, _, _, _] =>
    match run pfo [t1], run pfo [t2] with
    | some a, some b =>
      if !(FloatIO.isFinite a && FloatIO.isFinite b) then "fail nonfinite-parameter" else
      let a := q a; let b := q b
      let tph := tol * (scale + (rabs a + rabs b) * absV D)
      if b < a then "fail tmax-below-tmin"
      else if rabs (f a) > tph then "fail near-not-on-boundary"
      else if rabs (f b) > tph then "fail far-not-on-boundary"
      else if f ((a + b) / 2) > tph then "fail midpoint-outside" else "pass"
    | _, _ => "fail unparsable-output"
  | _ => "fail unparsable-output"

/-! ### half-space oracle: `h(s) = n·(O + s·D) = α + β·s` (≤ 0 inside) -/
def halfspaceOracle (N O D : V3 Rat) (max : Option Rat) (solid : Bool) (exactTie : Bool) (out : Out) : String :=
  if D.normSq = 0 then "skip zero-dir" else
  if rabs (N.normSq - 1) > tol then "skip non-unit-normal" else
  let α := N.dot O
  let β := N.dot D
  let th := tol * (1 + absV O)
  -- crossing parameter, when the ray is not parallel to the plane
  let crossing : Option Rat := if β = 0 then none else some (-α / β)
  let within := fun (s : Rat) => decide (0 ≤ s) && ltMaxClear s max
  match out with
  | .bad w => s!"fail {w}"
  | .miss =>
    if solid ∧ α < -th then "fail none-but-origin-inside"
    else if exactTie ∧ α = 0 then "fail none-but-origin-on-plane"
    else if α > th ∨ (α < -th ∧ !solid) then
      match crossing with
      | some s => if within s ∧ sqr β > sqr tol * D.normSq then "fail none-but-ray-crosses-plane" else "pass"
      | none => "pass"
    else "pass"
  | .hit toi n _ =>
    if !FloatIO.isFinite toi then "fail nonfinite-toi" else
    let t := q toi
    if t < 0 then "fail negative-toi" else if !leOpt t max then "fail toi-exceeds-max" else
    let h := α + β * t
    let thh := tol * (1 + absV O + t * absV D)
    let verdict :=
      if α < -th ∧ solid then (if t = 0 then "pass" else "fail solid-inside-toi-nonzero")
      else if rabs α ≤ th ∧ solid ∧ t = 0 then "pass"
      else if rabs h > thh then "fail hit-not-on-plane" else "pass"
    if verdict != "pass" then verdict else
    match n with
    | none => "pass"
    | some nf =>
      -- toi = 0 (origin in the solid half-space, or on the plane): normal documented as unreliable
      if t = 0 ∧ ((solid ∧ α ≤ th) ∨ rabs α ≤ th) then "pass" else
      if !finiteV nf then "fail nonfinite-normal" else
      let nq := q3 nf
      match normalBasic nq D with
      | some w => s!"fail {w}"
      | none =>
        let d1 := (nq.sub N).normSq; let d2 := (nq.add N).normSq
        if α > th then (if d1 ≤ sqr tol then "pass" else "fail normal-not-outward")
        else if α < -th then (if d2 ≤ sqr tol then "pass" else "fail exit-normal-not-inward")
        else if d1 ≤ sqr tol ∨ d2 ≤ sqr tol then "pass" else "fail normal-not-plane-normal"

/-! ### triangle (3-D) oracle -/
structure TriQ where
  a : V3 Rat
  b : V3 Rat
  c : V3 Rat
def TriQ.N (T : TriQ) : V3 Rat := (T.b.sub T.a).cross (T.c.sub T.a)
/-- barycentric coordinates (of `b` and `c`) of the projection of `P` on the plane -/
def TriQ.bary (T : TriQ) (P : V3 Rat) : Rat × Rat :=
  let N := T.N; let ap := P.sub T.a
  (N.dot (ap.cross (T.c.sub T.a)) / N.normSq, N.dot ((T.b.sub T.a).cross ap) / N.normSq)
def tolB : Rat := 1 / 10000000

def triangleOracle (T : TriQ) (O D : V3 Rat) (max : Option Rat) (out : Out) (bary : Option (V3 Float)) : String :=
  if D.normSq = 0 then "skip zero-dir" else
  let N := T.N
  if N.normSq = 0 then "skip degenerate-triangle" else
  let δ := N.dot D
  let τ := N.dot (O.sub T.a)
  let scale := 1 + absV O + absV T.a + absV T.b + absV T.c
  match out with
  | .bad w => s!"fail {w}"
  | .miss =>
    if δ = 0 then
      if τ ≠ 0 then "pass" else
      -- coplanar ray: the three barycentric coordinates are affine in s; exact interval test
      let (v0, w0) := T.bary O; let (v1, w1) := T.bary (O.add D)
      let cons : List (Rat × Rat) := [(-v0, -(v1 - v0)), (-w0, -(w1 - w0)), (v0 + w0 - 1, (v1 - v0) + (w1 - w0))]
      let iv := cons.foldl (fun (acc : Option (Option Rat × Option Rat)) (c : Rat × Rat) =>
        match acc with
        | none => none
        | some (lo, hi) =>
          let (α, β) := c   -- α + β s ≤ 0
          if β = 0 then (if α ≤ 0 then some (lo, hi) else none)
          else
            let r := -α / β
            let (lo', hi') := if β > 0 then (lo, some (match hi with | none => r | some h => rmin h r))
                              else (some (match lo with | none => r | some l => rmax l r), hi)
            match lo', hi' with
            | some l, some h => if h < l then none else some (lo', hi')
            | _, _ => some (lo', hi')) (some (none, none))
      if meets iv max false then "fail none-but-coplanar-ray-crosses-triangle" else "pass"
    else
      let sStar := -τ / δ
      let tτ := tol * absV N * scale
      let clearSide : Bool := decide (τ = 0) || decide (rabs τ > tτ)
      let inRange : Bool := decide (0 ≤ sStar) && ltMaxClear sStar max
      let (v, w) := T.bary (O.add (D.smul sStar))
      let clearInside : Bool := decide (v ≥ tolB) && decide (w ≥ tolB) && decide (v + w ≤ 1 - tolB)
      if clearSide ∧ inRange ∧ clearInside ∧ sqr δ > sqr (1 / 1000000) * N.normSq * D.normSq
      then "fail none-but-ray-crosses-triangle" else "pass"
  | .hit toi n _ =>
    if !FloatIO.isFinite toi then "fail nonfinite-toi" else
    let t := q toi
    if t < 0 then "fail negative-toi" else if !leOpt t max then "fail toi-exceeds-max" else
    -- ray within 1e-6 rad of the triangle's plane: the crossing point is ill-conditioned, not judged
    if sqr δ ≤ sqr (1 / 1000000) * N.normSq * D.normSq then "skip ray-nearly-parallel-to-plane" else
    let P := O.add (D.smul t)
    let sc := scale + t * absV D
    if rabs (N.dot (P.sub T.a)) > (1 / 10000000 : Rat) * absV N * sc then "fail hit-not-in-plane" else
    let (v, w) := T.bary P
    if v < -tolB ∨ w < -tolB ∨ v + w > 1 + tolB then "fail hit-outside-triangle" else
    let nres := match n with
      | none => "pass"
      | some nf =>
        if !finiteV nf then "fail nonfinite-normal" else
        let nq := q3 nf
        -- toi = 0 (origin on the triangle's plane): facing not judged (documented as unreliable)
        match (if t = 0 then (if rabs (nq.normSq - 1) > tol then some "normal-not-unit" else none) else normalBasic nq D) with
        | some w => s!"fail {w}"
        | none => if (nq.cross N).normSq > sqr (1 / 1000000) * N.normSq then "fail normal-not-plane-normal" else "pass"
    if nres != "pass" then nres else
    match bary with
    | none => "pass"
    | some bf =>
      let B := q3 bf
      if rabs (B.y - v) > 10 * tolB ∨ rabs (B.z - w) > 10 * tolB ∨ rabs (B.x - (1 - v - w)) > 10 * tolB then "fail barycentric-wrong" else "pass"

/-! ### segment (2-D) oracle -/
def cross2 (a b : V2 Rat) : Rat := a.x * b.y - a.y * b.x
def absV2 (v : V2 Rat) : Rat := rabs v.x + rabs v.y

inductive Out2 where
  | bad (why : String)
  | miss
  | hit (toi : Float) (n : V2 Float) (feat : String)
def parseOut2 (o : List String) : Out2 :=
  match o with
  | "panic" :: _ => .bad "panic"
  | ["none"] => .miss
  | ["some", t, a, b, f] =>
    match run (do let t ← pfo; let x ← pfo; let y ← pfo; pure (t, (⟨x, y⟩ : V2 Float))) [t, a, b] with
    | some (t, n) => .hit t n f
    | none => .bad "unparsable-output"
  | _ => .bad "unparsable-output"

def segmentOracle (A B O D : V2 Rat) (max : Option Rat) (out : Out2) (exactFrame : Bool := true) : String :=
  let E := B.sub A
  if D.normSq ≤ 1 / 1000000000000 then "skip tiny-dir" else
  if E.normSq ≤ 1 / 1000000000000 then "skip tiny-segment" else
  let cr := cross2 D E
  let ao := A.sub O
  let scale := 1 + absV2 O + absV2 A + absV2 B
  match out with
  | .bad w => s!"fail {w}"
  | .miss =>
    if cr = 0 then
      if cross2 ao D ≠ 0 then "pass" else
      -- exactly collinear: the segment occupies [τ₁, τ₂] in ray parameters
      let τ1 := ao.dot D / D.normSq; let τ2 := (B.sub O).dot D / D.normSq
      -- a collinear overlap is a measure-zero tie; it is only demanded when the code's collinearity test is exact in
      -- binary64 (axis-aligned segment ⇒ the unit normal is exactly representable)
      if exactFrame ∧ (E.x = 0 ∨ E.y = 0) ∧ meets (some (some (rmin τ1 τ2), some (rmax τ1 τ2))) max false
      then "fail none-but-collinear-overlap" else "pass"
    else
      let sStar := cross2 ao E / cr
      let tStar := cross2 ao D / cr
      -- an origin exactly on the segment's line (s* = 0) is only a decidable tie when no float rotation is involved
      let inRange : Bool := ((exactFrame && decide (sStar = 0)) || decide (sStar > tol)) && ltMaxClear sStar max
      if inRange ∧ tStar ≥ tolB ∧ tStar ≤ 1 - tolB then
        -- sin² of the angle between the ray and the segment
        -- sin²θ: below 1e-24 the configuration is collinear up to rounding (tie, not judged); below 1e-5 the code's
        -- *absolute* parallelism threshold (`denom ≤ ε`) can hide a genuine crossing of a short segment by a short ray
        if sqr cr ≤ (1 / 1000000000000000000000000 : Rat) * D.normSq * E.normSq then "pass"
        else if sqr cr > (1 / 100000 : Rat) * D.normSq * E.normSq then "fail none-but-ray-crosses-segment"
        else "fail none-but-near-parallel-ray-crosses-segment"
      else "pass"
  | .hit toi nf _ =>
    if !FloatIO.isFinite toi then "fail nonfinite-toi" else
    let t := q toi
    if t < 0 then "fail negative-toi" else if !leOpt t max then "fail toi-exceeds-max" else
    let P := O.add (D.smul t)
    let sc := scale + t * absV2 D
    let ap := P.sub A
    if sqr (cross2 ap E) > sqr (tolB * sc) * E.normSq then "fail hit-off-the-line" else
    let u := ap.dot E / E.normSq
    if u < -tolB ∨ u > 1 + tolB then "fail hit-outside-segment" else
    -- first hit: only the collinear case has more than one candidate
    let firstOk :=
      if cr = 0 ∧ cross2 ao D = 0 then
        let τ1 := ao.dot D / D.normSq; let τ2 := (B.sub O).dot D / D.normSq
        let first := rmax (rmin τ1 τ2) 0
        rabs (t - first) * absV2 D ≤ tolB * sc
      else true
    if !firstOk then "fail collinear-not-first-point" else
    if !(FloatIO.isFinite nf.x && FloatIO.isFinite nf.y) then "fail nonfinite-normal" else
    let n := q2 nf
    if rabs (n.normSq - 1) > tol then "fail normal-not-unit"
    else if sqr (n.dot E) > sqr (1 / 1000000) * E.normSq then "fail normal-not-perpendicular"
    else if n.dot D > 0 ∧ sqr (n.dot D) > sqr (1 / 1000000) * D.normSq then "fail normal-not-facing-ray"
    else "pass"

/-! ### generic exact oracle for convex bodies given as unions of {affine constraints ∧ one quadratic constraint}
along the ray (used for the GJK-cast shapes: capsule, cylinder, cone).  Every constraint carries a magnitude
polynomial `m(s)` (sum of the absolute values of its terms); "deep inside" / "loosely inside" shift the constraint by
`±tolR·m(s)`, which keeps it affine / quadratic, so all interval computations stay exact in `Rat`. -/
structure AffC where
  α : Rat
  β : Rat
  mα : Rat
  mβ : Rat
structure QuadC where
  A : Rat
  B : Rat
  C : Rat
  mA : Rat
  mB : Rat
  mC : Rat
structure Body where
  aff : List AffC
  quad : QuadC

def AffC.shift (c : AffC) (σ : Rat) : Rat × Rat := (c.α + σ * c.mα, c.β + σ * c.mβ)
def QuadC.shift (c : QuadC) (σ : Rat) : Rat × Rat × Rat := (c.A + σ * c.mA, c.B + σ * c.mB, c.C + σ * c.mC)
def quadVal (c : Rat × Rat × Rat) (s : Rat) : Rat := c.1 * s * s + 2 * c.2.1 * s + c.2.2

/-- is `O + s·D` in the union of bodies shifted by `σ` (σ > 0: shrunk, σ < 0: loosened)?  `s ≥ 0`. -/
def insideAt (bodies : List Body) (σ : Rat) (s : Rat) : Bool :=
  bodies.any fun b => (b.aff.all fun c => let (α, β) := c.shift σ; α + β * s ≤ 0) && quadVal (b.quad.shift σ) s ≤ 0

/-- does some `s ∈ [lo, hi]` (`hi = none`: unbounded) lie in the σ-shifted union? -/
def existsInside (bodies : List Body) (σ : Rat) (lo : Rat) (hi : Option Rat) : Bool :=
  bodies.any fun b =>
    let iv := b.aff.foldl (fun (acc : Option (Rat × Option Rat)) c =>
      match acc with
      | none => none
      | some (l, h) =>
        let (α, β) := c.shift σ
        if β = 0 then (if α ≤ 0 then some (l, h) else none)
        else
          let r := -α / β
          let (l', h') := if β > 0 then (l, some (match h with | none => r | some x => rmin x r)) else (rmax l r, h)
          match h' with
          | some x => if x < l' then none else some (l', h')
          | none => some (l', h')) (some (lo, hi))
    match iv with
    | none => false
    | some (l, h) =>
      let qd := b.quad.shift σ
      let (A, B, _) := qd
      let atL := quadVal qd l ≤ 0
      match h with
      | some x =>
        atL || quadVal qd x ≤ 0 || (A > 0 && (let v := -B / A; l ≤ v && v ≤ x && quadVal qd v ≤ 0))
      | none =>
        atL || A < 0 || (A = 0 && B < 0) || (A > 0 && (let v := -B / A; l ≤ v && quadVal qd v ≤ 0))

/-- support function `max_{q ∈ body} n·q` (upper bound good to 2⁻⁴⁰) -/
abbrev Support := V3 Rat → Rat

def convexOracle (bodies : List Body) (supp : Support) (O D : V3 Rat) (scale : Rat) (max : Option Rat) (solid : Bool)
    (tolR : Rat) (out : Out) : String :=
  if D.normSq = 0 then "skip zero-dir" else
  let deep0 := insideAt bodies tolR 0
  let out0 := !insideAt bodies (-tolR) 0
  -- parameter resolution: a displacement of tolR·scale along the ray
  let δ := tolR * scale / absV D
  match out with
  | .bad w => s!"fail {w}"
  | .miss =>
    if (match max with | some m => decide (m ≤ δ) | none => false) then "skip max-toi-below-resolution" else
    if solid ∨ out0 then
      (if existsInside bodies tolR 0 max then
         (if !out0 ∧ !deep0 then "fail none-but-segment-enters-shape origin-on-surface"
          else if deep0 then "fail none-but-origin-inside" else "fail none-but-segment-enters-shape")
       else "pass")
    else if deep0 then
      match max with
      | none => "fail none-but-unbounded-ray-from-inside"
      | some m => if !insideAt bodies (-tolR) m then "fail none-but-segment-exits-shape" else "pass"
    else "pass"
  | .hit toi n _ =>
    if !FloatIO.isFinite toi then "fail nonfinite-toi" else
    let t0 := q toi
    -- the non-solid re-cast computes `shift − toi`: results a few ulps below zero are read as zero
    if t0 < -δ then "fail negative-toi" else
    let t := if t0 < 0 then 0 else t0
    if !leOpt t max then "fail toi-exceeds-max" else
    let nearB := insideAt bodies (-tolR) t && !insideAt bodies tolR t
    -- no point deep inside strictly before the hit (up to the parameter resolution δ)
    let first := t ≤ δ || !existsInside bodies tolR 0 (some (t - δ))
    let verdict :=
      if out0 then (if !nearB then "fail hit-not-on-boundary" else if !first then "fail earlier-point-inside" else "pass")
      else if deep0 then
        (if solid then (if t ≤ δ then "pass" else "fail solid-inside-toi-nonzero")
         else if t ≤ δ then "fail nonsolid-inside-reported-as-hit-at-origin"
         else if !nearB then "fail exit-not-on-boundary" else "pass")
      else (if solid ∧ t ≤ δ then "pass" else if !nearB then "fail hit-not-on-boundary" else if solid ∧ !first then "fail earlier-point-inside" else "pass")
    if verdict != "pass" then verdict else
    match n with
    | none => "pass"
    | some nf =>
      if t ≤ δ then "pass" else
      if !finiteV nf then "fail nonfinite-normal" else
      let nq := q3 nf
      let P := O.add (D.smul t)
      if rabs (nq.normSq - 1) > (1 / 1000000 : Rat) then "fail normal-not-unit"
      else if nq.dot D > 0 ∧ sqr (nq.dot D) > sqr (1 / 10000 : Rat) * D.normSq then "fail normal-not-facing-ray"
      else
        -- outward normal ⇔ the hit point maximises n· over the body (n in the normal cone); exits: −n
        let tn := (1 / 1000 : Rat) * scale
        if out0 then (if supp nq - nq.dot P > tn then "fail normal-not-outward" else "pass")
        else if deep0 then (if supp nq.neg - nq.neg.dot P > tn then "fail exit-normal-not-inward" else "pass")
        else "pass"

/-- relative tolerance (constraint space) for the iterative GJK casts -/
def gjkTol : Rat := 1 / 10000

def sqrtUp (x : Rat) : Rat := if x ≤ 0 then 0 else Rat.sqrtApprox x + 1 / 1000000000000

def cylinderBodies (hh r : Rat) (O D : V3 Rat) : List Body :=
  [{ aff := [⟨O.y - hh, D.y, rabs O.y + hh, rabs D.y⟩, ⟨-O.y - hh, -D.y, rabs O.y + hh, rabs D.y⟩]
     quad := ⟨D.x * D.x + D.z * D.z, O.x * D.x + O.z * D.z, O.x * O.x + O.z * O.z - r * r,
              D.x * D.x + D.z * D.z, rabs (O.x * D.x) + rabs (O.z * D.z), O.x * O.x + O.z * O.z + r * r⟩ }]
def cylinderSupport (hh r : Rat) : Support := fun n => hh * rabs n.y + r * sqrtUp (n.x * n.x + n.z * n.z)

def coneBodies (hh r : Rat) (O D : V3 Rat) : List Body :=
  let k := 4 * hh * hh
  let Y := hh - O.y
  [{ aff := [⟨O.y - hh, D.y, rabs O.y + hh, rabs D.y⟩, ⟨-O.y - hh, -D.y, rabs O.y + hh, rabs D.y⟩]
     quad := ⟨k * (D.x * D.x + D.z * D.z) - r * r * D.y * D.y, k * (O.x * D.x + O.z * D.z) + r * r * Y * D.y,
              k * (O.x * O.x + O.z * O.z) - r * r * Y * Y,
              k * (D.x * D.x + D.z * D.z) + r * r * D.y * D.y, k * (rabs (O.x * D.x) + rabs (O.z * D.z)) + r * r * rabs (Y * D.y),
              k * (O.x * O.x + O.z * O.z) + r * r * (hh * hh + O.y * O.y)⟩ }]
def coneSupport (hh r : Rat) : Support := fun n => rmax (hh * n.y) (-hh * n.y + r * sqrtUp (n.x * n.x + n.z * n.z))

def ballBody (c : V3 Rat) (r : Rat) (O D : V3 Rat) : Body :=
  let oc := O.sub c
  { aff := [], quad := ⟨D.normSq, oc.dot D, oc.normSq - r * r, D.normSq, rabs (oc.x * D.x) + rabs (oc.y * D.y) + rabs (oc.z * D.z), oc.normSq + r * r⟩ }
def capsuleBodies (a b : V3 Rat) (r : Rat) (O D : V3 Rat) : List Body :=
  let E := b.sub a; let L := E.normSq
  let oa := O.sub a
  let w0 := oa.dot E; let w1 := D.dot E
  let a2 := D.normSq; let b2 := oa.dot D; let c2 := oa.normSq
  let mw0 := rabs (oa.x * E.x) + rabs (oa.y * E.y) + rabs (oa.z * E.z)
  let mw1 := rabs (D.x * E.x) + rabs (D.y * E.y) + rabs (D.z * E.z)
  let mb2 := rabs (oa.x * D.x) + rabs (oa.y * D.y) + rabs (oa.z * D.z)
  [ballBody a r O D, ballBody b r O D,
   { aff := [⟨-w0, -w1, mw0, mw1⟩, ⟨w0 - L, w1, mw0 + L, mw1⟩]
     quad := ⟨a2 * L - w1 * w1, b2 * L - w0 * w1, c2 * L - w0 * w0 - r * r * L,
              a2 * L + mw1 * mw1, mb2 * L + mw0 * mw1, c2 * L + mw0 * mw0 + r * r * L⟩ }]
def capsuleSupport (a b : V3 Rat) (r : Rat) : Support := fun n => rmax (n.dot a) (n.dot b) + r * sqrtUp n.normSq

structure RayArgs2 where
  o : V2 Float
  d : V2 Float
  max : Float
  solid : Bool
def pray2 : P RayArgs2 := do let o ← pv2; let d ← pv2; let m ← pf; let s ← pbool; pure ⟨o, d, m, s⟩
def RayArgs2.maxQ (a : RayArgs2) : Option Rat := if FloatIO.isFinite a.max then some (q a.max) else none
def fhit2d (x : Option (Hit2 Float)) : String :=
  match x with | none => "none" | some h => s!"some {ff h.toi} {fv2 h.n} {ffeat h.fkind h.fidx}"
def axisAligned (n : V3 Float) : Bool := ([n.x, n.y, n.z].filter (· != 0.0)).length = 1

def withArgs {α} (p : P α) (a : List String) (k : α → String) : String :=
  match run p a with | some x => k x | none => "skip bad-args"

/-- handlers of the closed-form casts and of the GJK-cast primitives (the composite-shape handlers are in `Composite.lean`;
`C04.handler` in `Driver.lean` joins the two tables) -/
def handlerClosed (fn : String) : Option Handler :=
  match fn with
  | "ball_toi" => some {
      model := fun a => run (do let r ← pf; let ra ← pray; pure (ftoi ((Ball.mk r).castLocalRay ra.ray ra.max ra.solid))) a
      oracle := fun a o => withArgs (do let r ← pf; let ra ← pray; pure (r, ra)) a fun (r, ra) =>
        ballOracle (q3 ra.o) (q3 ra.d) (q r) ra.maxQ ra.solid (parseOut o) }
  | "ball_normal" => some {
      model := fun a => run (do let r ← pf; let ra ← pray; pure (fhit ((Ball.mk r).castLocalRayAndGetNormal ra.ray ra.max ra.solid))) a
      oracle := fun a o => withArgs (do let r ← pf; let ra ← pray; pure (r, ra)) a fun (r, ra) =>
        ballOracle (q3 ra.o) (q3 ra.d) (q r) ra.maxQ ra.solid (parseOut o) }
  | "ball_posed" => some {
      model := fun a => run (do let r ← pf; let m ← piso3; let ra ← pray
                                pure (fhit ((Ball.mk r).castRayAndGetNormal m ra.ray ra.max ra.solid))) a
      oracle := fun a o => withArgs (do let r ← pf; let m ← piso3; let ra ← pray; pure (r, m, ra)) a fun (r, m, ra) =>
        let M := qiso3 m
        -- judge in the local frame: exact inverse transform of the ray; normal pulled back exactly
        let res := ballOracle (M.invAct (q3 ra.o)) (M.invRot (q3 ra.d)) (q r) ra.maxQ ra.solid
          (match parseOut o with | .hit t _ f => .hit t none f | x => x)
        if res != "pass" then res else
        match parseOut o with
        | .hit t (some n) _ =>
          if !FloatIO.isFinite t then "fail nonfinite-toi" else
          let tq := q t
          let O := M.invAct (q3 ra.o); let D := M.invRot (q3 ra.d)
          let c := O.normSq - q r * q r
          if tq = 0 ∧ c ≤ tol * (O.normSq + q r * q r) then "pass" else
          if !finiteV n then "fail nonfinite-normal" else
          let nl := M.invRot (q3 n)
          let Pl := O.add (D.smul tq)
          (match normalBasic nl D with
           | some w => s!"fail {w}"
           | none => if (nl.cross Pl).normSq > sqr (1 / 1000000) * Pl.normSq then "fail normal-not-radial"
                     else if c > tol * (O.normSq + q r * q r) ∧ nl.dot Pl ≤ 0 then "fail normal-not-outward" else "pass")
        | _ => "pass" }
  | "ray_toi_with_ball" => some {
      model := fun a => run (do let c ← pv3; let r ← pf; let ra ← pray
                                let (ins, t) := rayToiWithBall c r ra.ray ra.solid
                                pure s!"{fb ins} {ftoi t}") a
      oracle := fun a o => withArgs (do let c ← pv3; let r ← pf; let ra ← pray; pure (c, r, ra)) a fun (c, r, ra) =>
        match o with
        | flag :: rest =>
          let O := (q3 ra.o).sub (q3 c)
          let cc := O.normSq - q r * q r
          let tg := tol * (O.normSq + q r * q r)
          if (flag = "1" ∧ cc > tg) ∨ (flag = "0" ∧ cc < -tg) then "fail inside-flag-wrong" else
          ballOracle O (q3 ra.d) (q r) none ra.solid (parseOut rest)
        | _ => "fail unparsable-output" }
  | "bsphere_normal" => some {
      model := fun a => run (do let c ← pv3; let r ← pf; let ra ← pray
                                pure (fhit (bsphereCastLocalRayAndGetNormal c r ra.ray ra.max ra.solid))) a
      oracle := fun a o => withArgs (do let c ← pv3; let r ← pf; let ra ← pray; pure (c, r, ra)) a fun (c, r, ra) =>
        ballOracle ((q3 ra.o).sub (q3 c)) (q3 ra.d) (q r) ra.maxQ ra.solid (parseOut o) }
  | "aabb_toi" => some {
      model := fun a => run (do let b ← paabb; let ra ← pray; pure (ftoi (b.castLocalRay bigF ra.ray ra.max ra.solid))) a
      oracle := fun a o => withArgs (do let b ← paabb; let ra ← pray; pure (b, ra)) a fun (b, ra) =>
        boxOracle (q3 b.mins) (q3 b.maxs) (q3 ra.o) (q3 ra.d) ra.maxQ ra.solid (parseOut o) }
  | "aabb_normal" => some {
      model := fun a => run (do let b ← paabb; let ra ← pray; pure (fhit2 (b.castLocalRayAndGetNormal bigF ra.ray ra.max ra.solid))) a
      oracle := fun a o => withArgs (do let b ← paabb; let ra ← pray; pure (b, ra)) a fun (b, ra) =>
        boxOracle (q3 b.mins) (q3 b.maxs) (q3 ra.o) (q3 ra.d) ra.maxQ ra.solid (parseOut o) }
  | "clip_aabb_line" => some {
      model := fun a => run (do let b ← paabb; let o ← pv3; let d ← pv3; pure (fclip (clipAabbLine bigF b o d))) a
      oracle := fun a o => withArgs (do let b ← paabb; let o ← pv3; let d ← pv3; pure (b, o, d)) a fun (b, ro, rd) =>
        clipOracle (q3 b.mins) (q3 b.maxs) (q3 ro) (q3 rd) o }
  | "cuboid_toi" => some {
      model := fun a => run (do let he ← pv3; let ra ← pray; pure (ftoi ((Cuboid3.mk he).castLocalRay bigF ra.ray ra.max ra.solid))) a
      oracle := fun a o => withArgs (do let he ← pv3; let ra ← pray; pure (he, ra)) a fun (he, ra) =>
        boxOracle (q3 he).neg (q3 he) (q3 ra.o) (q3 ra.d) ra.maxQ ra.solid (parseOut o) }
  | "cuboid_normal" => some {
      model := fun a => run (do let he ← pv3; let ra ← pray; pure (fhit2 ((Cuboid3.mk he).castLocalRayAndGetNormal bigF ra.ray ra.max ra.solid))) a
      oracle := fun a o => withArgs (do let he ← pv3; let ra ← pray; pure (he, ra)) a fun (he, ra) =>
        boxOracle (q3 he).neg (q3 he) (q3 ra.o) (q3 ra.d) ra.maxQ ra.solid (parseOut o) }
  | "cuboid_posed_toi" => some {
      model := fun a => run (do let he ← pv3; let m ← piso3; let ra ← pray
                                pure (ftoi ((Cuboid3.mk he).castRay bigF m ra.ray ra.max ra.solid))) a
      oracle := fun a o => withArgs (do let he ← pv3; let m ← piso3; let ra ← pray; pure (he, m, ra)) a fun (he, m, ra) =>
        let M := qiso3 m
        boxOracle (q3 he).neg (q3 he) (M.invAct (q3 ra.o)) (M.invRot (q3 ra.d)) ra.maxQ ra.solid (parseOut o) }
  | "cuboid_posed" => some {
      model := fun a => run (do let he ← pv3; let m ← piso3; let ra ← pray
                                pure (fhit2 ((Cuboid3.mk he).castRayAndGetNormal bigF m ra.ray ra.max ra.solid))) a
      oracle := fun a o => withArgs (do let he ← pv3; let m ← piso3; let ra ← pray; pure (he, m, ra)) a fun (he, m, ra) =>
        let M := qiso3 m
        -- the toi part is judged exactly in the local frame; the world normal is pulled back (and must be a unit
        -- vector facing the ray, and ±(rotated axis) or −dir)
        let O := M.invAct (q3 ra.o); let D := M.invRot (q3 ra.d)
        let res := boxOracle (q3 he).neg (q3 he) O D ra.maxQ ra.solid (match parseOut o with | .hit t _ f => .hit t none f | x => x)
        if res != "pass" then res else
        match parseOut o with
        | .hit t (some n) _ =>
          if !FloatIO.isFinite t then "fail nonfinite-toi" else
          if !finiteV n then "fail nonfinite-normal" else
          let tq := q t
          let nl := M.invRot (q3 n)
          let scale := 1 + absV O + 2 * absV (q3 he)
          let f0 := boxDepth (q3 he).neg (q3 he) O
          if tq = 0 ∧ ra.solid ∧ f0 ≤ tol * scale then "pass" else
          (match normalBasic nl D with
           | some w => s!"fail {w}"
           | none =>
             -- outwardness at the hit point: for an entry, n·(p − centre-side) must not point into the box:
             -- the local normal, rounded to the nearest axis pattern, must name a face the hit point lies on
             let P := O.add (D.smul tq)
             let tph := (1 / 1000000 : Rat) * (scale + tq * absV D)
             let big := fun (x : Rat) => rabs x > 9 / 10
             let axisLike := ([nl.x, nl.y, nl.z].filter big).length = 1 ∧ ([nl.x, nl.y, nl.z].filter (fun x => rabs x > 1 / 1000000 ∧ !big x)).length = 0
             if axisLike then
               let H := q3 he
               let chk := fun (ni pi hi : Rat) => if !big ni then true else
                 let onMin := rabs (pi + hi) ≤ tph; let onMax := rabs (pi - hi) ≤ tph
                 if f0 > tol * scale then (if ni < 0 then onMin else onMax)
                 else if f0 < -(tol * scale) then (if ni < 0 then onMax else onMin) else onMin || onMax
               if chk nl.x P.x H.x && chk nl.y P.y H.y && chk nl.z P.z H.z then "pass" else "fail normal-names-wrong-face"
             else if (nl.cross D).normSq > sqr (1 / 1000000) * D.normSq then "fail diag-normal-not-minus-dir"
             else "pass")
        | _ => "pass" }
  | "halfspace_normal" => some {
      model := fun a => run (do let n ← pv3; let ra ← pray
                                pure (fhit ((HalfSpace3.mk n).castLocalRayAndGetNormal ra.ray ra.max ra.solid))) a
      oracle := fun a o => withArgs (do let n ← pv3; let ra ← pray; pure (n, ra)) a fun (n, ra) =>
        halfspaceOracle (q3 n) (q3 ra.o) (q3 ra.d) ra.maxQ ra.solid (axisAligned n) (parseOut o) }
  | "halfspace_posed" => some {
      model := fun a => run (do let n ← pv3; let m ← piso3; let ra ← pray
                                pure (fhit ((HalfSpace3.mk n).castRayAndGetNormal m ra.ray ra.max ra.solid))) a
      oracle := fun a o => withArgs (do let n ← pv3; let m ← piso3; let ra ← pray; pure (n, m, ra)) a fun (n, m, ra) =>
        let M := qiso3 m
        let out := match parseOut o with
          | .hit t (some nw) f => if finiteV nw then
              -- pull the world normal back exactly; re-encode is not possible in Float, so judge it here
              .hit t none f else .hit t (some nw) f
          | x => x
        let res := halfspaceOracle (q3 n) (M.invAct (q3 ra.o)) (M.invRot (q3 ra.d)) ra.maxQ ra.solid false out
        if res != "pass" then res else
        match parseOut o with
        | .hit t (some nw) _ =>
          let tq := q t
          let O := M.invAct (q3 ra.o); let D := M.invRot (q3 ra.d)
          let α := (q3 n).dot O
          if tq = 0 ∧ ((ra.solid ∧ α ≤ tol * (1 + absV O)) ∨ rabs α ≤ tol * (1 + absV O)) then "pass" else
          let nl := M.invRot (q3 nw)
          (match normalBasic nl D with
           | some w => s!"fail {w}"
           | none =>
             let d1 := (nl.sub (q3 n)).normSq; let d2 := (nl.add (q3 n)).normSq
             if d1 ≤ sqr (1 / 1000000) ∨ d2 ≤ sqr (1 / 1000000) then "pass" else "fail normal-not-plane-normal")
        | _ => "pass" }
  | "triangle_normal" => some {
      model := fun a => run (do let p ← pv3; let p' ← pv3; let p'' ← pv3; let ra ← pray
                                pure (fhit ((Triangle3.mk p p' p'').castLocalRayAndGetNormal ra.ray ra.max ra.solid))) a
      oracle := fun a o => withArgs (do let p ← pv3; let p' ← pv3; let p'' ← pv3; let ra ← pray; pure (p, p', p'', ra)) a
        fun (p, p', p'', ra) => triangleOracle ⟨q3 p, q3 p', q3 p''⟩ (q3 ra.o) (q3 ra.d) ra.maxQ (parseOut o) none }
  | "triangle_inter" => some {
      model := fun a => run (do let p ← pv3; let p' ← pv3; let p'' ← pv3; let o ← pv3; let d ← pv3
                                pure (match localRayIntersectionWithTriangle p p' p'' ⟨o, d⟩ with
                                      | none => "none"
                                      | some (h, b) => s!"{fhit (some h)} {fv3 b}")) a
      oracle := fun a o => withArgs (do let p ← pv3; let p' ← pv3; let p'' ← pv3; let ro ← pv3; let rd ← pv3; pure (p, p', p'', ro, rd)) a
        fun (p, p', p'', ro, rd) =>
          let T : TriQ := ⟨q3 p, q3 p', q3 p''⟩
          match o with
          | ["some", t, x, y, z, f, b0, b1, b2] =>
            (match run (do let a ← pfo; let b ← pfo; let c ← pfo; pure (⟨a, b, c⟩ : V3 Float)) [b0, b1, b2] with
             | some bv => triangleOracle T (q3 ro) (q3 rd) none (parseOut ["some", t, x, y, z, f]) (some bv)
             | none => "fail unparsable-output")
          | _ => triangleOracle T (q3 ro) (q3 rd) none (parseOut o) none }
  | "segment2_normal" => some {
      model := fun a => run (do let p ← pv2; let p' ← pv2; let ra ← pray2
                                pure (fhit2d ((Segment2.mk p p').castLocalRayAndGetNormal ⟨ra.o, ra.d⟩ ra.max ra.solid))) a
      oracle := fun a o => withArgs (do let p ← pv2; let p' ← pv2; let ra ← pray2; pure (p, p', ra)) a fun (p, p', ra) =>
        segmentOracle (q2 p) (q2 p') (q2 ra.o) (q2 ra.d) ra.maxQ (parseOut2 o) }
  | "segment2_posed" => some {
      model := fun a => run (do let p ← pv2; let p' ← pv2; let m ← piso2; let ra ← pray2
                                pure (fhit2d ((Segment2.mk p p').castRayAndGetNormal m ⟨ra.o, ra.d⟩ ra.max ra.solid))) a
      oracle := fun a o => withArgs (do let p ← pv2; let p' ← pv2; let m ← piso2; let ra ← pray2; pure (p, p', m, ra)) a fun (p, p', m, ra) =>
        -- judged in the world frame: the posed segment is the segment of the transformed end points
        let M := qiso2 m
        segmentOracle (M.act (q2 p)) (M.act (q2 p')) (q2 ra.o) (q2 ra.d) ra.maxQ (parseOut2 o) false }
  -- support-map (GJK) shapes: not modelled (relations.json: kind none); exact oracle only
  | "capsule_normal" => some {
      model := fun _ => some "gjk-not-modelled"
      oracle := fun a o => withArgs (do let p ← pv3; let p' ← pv3; let r ← pf; let ra ← pray; pure (p, p', r, ra)) a fun (p, p', r, ra) =>
        let A := q3 p; let B := q3 p'; let O := q3 ra.o; let D := q3 ra.d
        convexOracle (capsuleBodies A B (q r) O D) (capsuleSupport A B (q r)) O D (1 + absV O + absV A + absV B + q r) ra.maxQ ra.solid gjkTol (parseOut o) }
  | "cylinder_normal" => some {
      model := fun _ => some "gjk-not-modelled"
      oracle := fun a o => withArgs (do let hh ← pf; let r ← pf; let ra ← pray; pure (hh, r, ra)) a fun (hh, r, ra) =>
        let O := q3 ra.o; let D := q3 ra.d
        convexOracle (cylinderBodies (q hh) (q r) O D) (cylinderSupport (q hh) (q r)) O D (1 + absV O + q hh + q r) ra.maxQ ra.solid gjkTol (parseOut o) }
  | "cone_normal" => some {
      model := fun _ => some "gjk-not-modelled"
      oracle := fun a o => withArgs (do let hh ← pf; let r ← pf; let ra ← pray; pure (hh, r, ra)) a fun (hh, r, ra) =>
        let O := q3 ra.o; let D := q3 ra.d
        convexOracle (coneBodies (q hh) (q r) O D) (coneSupport (q hh) (q r)) O D (1 + absV O + q hh + q r) ra.maxQ ra.solid gjkTol (parseOut o) }
  | _ => none

end C04
