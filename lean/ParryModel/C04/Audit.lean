import ParryModel.C04.Theorems
#print axioms C04.firstHit_unique
#print axioms C04.firstHit_scale
#print axioms C04.real_lawfulSqrt
#print axioms C04.ball_inside_flag_iff
#print axioms C04.ball_outside_firstHit
#print axioms C04.ball_solid_firstHit
#print axioms C04.ball_nonsolid_exit
