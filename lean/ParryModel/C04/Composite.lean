import ParryModel.C04.DriverClosed
import ParryModel.C04.ModelHf2
import ParryModel.C04.ModelComposite
/-! C04 protocol handlers, part 2: composite shapes (3-D HeightField, TriMesh, Compound of cuboids, 2-D Polyline) and the
BVH pruning test `SimdAabb::cast_local_ray`.

Oracles are *brute force over the parts in exact rational arithmetic*, independent of the grid walk / the BVH:
* a reported hit must lie on some part, no part may be clearly crossed (entered) strictly earlier, the normal must be a
  unit normal of a part through the hit point, facing the ray;
* `None` is wrong as soon as one part is clearly crossed within `[0, max_toi]`.
"Clearly" = with the tolerances of the single-part oracles of `DriverClosed.lean` (crossing point at least `tolB` inside the
part, non-grazing).  Exact ties (a ray running exactly in the plane of a box face, through a mesh edge or a polyline vertex)
are judged with NO tolerance when every floating-point operation the real code performs on that input is exact: all
coordinates on the lattice `k/64`, direction components `0` or `±2^k` (so that `1/d` and the products are exact), identity
rotations.  That is where a pruning test that is strict instead of closed shows.  -/
namespace C04
open Model Proto

/-! ### parsing -/
def pcount {α} (p : P α) : Nat → P (List α)
  | 0 => pure []
  | k + 1 => do let x ← p; let xs ← pcount p k; pure (x :: xs)

/-! ### exactness of the float computation -/
/-- `x = k/64`, `|x| ≤ bound` -/
def onLattice (bound : Rat) (x : Rat) : Bool := (x * 64).den = 1 && decide (rabs x ≤ bound)
def onLattice3 (bound : Rat) (v : V3 Rat) : Bool := onLattice bound v.x && onLattice bound v.y && onLattice bound v.z
def onLattice2 (bound : Rat) (v : V2 Rat) : Bool := onLattice bound v.x && onLattice bound v.y
/-- `x = 0` or `|x| = 2^k` with `|k| ≤ 10` -/
def zeroOrPow2 (x : Rat) : Bool :=
  x = 0 || ((List.range 21).any fun k => rabs x = (2 : Rat) ^ k / 1024)
def zeroOrPow2V3 (v : V3 Rat) : Bool := zeroOrPow2 v.x && zeroOrPow2 v.y && zeroOrPow2 v.z
def isPow2Nat (n : Nat) : Bool := n = 1 || n = 2 || n = 4 || n = 8 || n = 16

/-! ### `SimdAabb::cast_local_ray` oracle
`hit = false` prunes the node: it is wrong as soon as the segment `[0, max]` of the ray meets the box.
`hit = true` with weight `tmin`: the best-first traversal relies on `tmin` being a lower bound of every hit inside the box. -/
def simdAabbOracle (mn mx O D : V3 Rat) (max : Option Rat) (o : List String) : String :=
  if mx.x < mn.x ∨ mx.y < mn.y ∨ mx.z < mn.z then "skip invalid-box" else
  -- exact parameter interval of the line inside the CLOSED box
  let iv := boxInterval mn mx O D 0
  -- entry / exit restricted to [0, max]
  let seg : Option (Rat × Option Rat) :=
    match iv with
    | none => none
    | some (lo, hi) =>
      let lo0 := match lo with | none => (0 : Rat) | some l => rmax l 0
      let hi0 : Option Rat := match hi, max with
        | none, m => m
        | some h, none => some h
        | some h, some m => some (rmin h m)
      match hi0 with
      | none => some (lo0, none)
      | some h => if h < lo0 then none else some (lo0, some h)
  let scale := 1 + absV O + absV mn + absV mx
  match o with
  | "panic" :: _ => "fail panic"
  | [hit, t] =>
    match run pfo [t] with
    | none => "fail unparsable-output"
    | some tf =>
      if hit = "0" then
        match seg with
        | none => "pass"
        | some (lo0, hi0) =>
          -- the float slab parameters carry a relative error of a few ulps: a clearly non-empty intersection must be kept;
          -- an exactly non-empty one must be kept when the float computation is exact
          let slack := tol * (scale / (absV D + tol) + lo0)
          let clear : Bool := match hi0 with | none => true | some h => decide (lo0 + slack ≤ h)
          let exact : Bool := onLattice3 1024 mn && onLattice3 1024 mx && onLattice3 1024 O && zeroOrPow2V3 D
          if D.normSq = 0 then "fail node-pruned-but-origin-in-box"
          else if clear then "fail node-pruned-but-segment-meets-box"
          else if exact then "fail node-pruned-but-segment-meets-box exactly-computed-tie"
          else "pass"
      else if hit = "1" then
        if !FloatIO.isFinite tf then "fail nonfinite-weight" else
        let tq := q tf
        if tq < 0 then "fail negative-weight" else
        match seg with
        | none => "pass"    -- a false positive only costs time
        | some (lo0, _) =>
          if tq > lo0 + tol * (scale / (absV D + tol) + lo0) then "fail weight-exceeds-entry-time" else "pass"
      else "fail unparsable-output"
  | _ => "fail unparsable-output"

/-! ### triangle soups (TriMesh, HeightField) -/
structure Cr where
  s : Rat
  v : Rat
  w : Rat
  δ : Rat
  τ : Rat

def TriQ.crossing (T : TriQ) (O D : V3 Rat) : Option Cr :=
  let N := T.N
  if N.normSq = 0 then none else
  let δ := N.dot D
  if δ = 0 then none else
  let τ := N.dot (O.sub T.a)
  let s := -τ / δ
  let (v, w) := T.bary (O.add (D.smul s))
  some ⟨s, v, w, δ, τ⟩

def triScale (T : TriQ) (O : V3 Rat) : Rat := 1 + absV O + absV T.a + absV T.b + absV T.c

/-- the ray crosses the triangle transversally at a point at least `tolB` inside it (same criteria as the `None` branch of
`triangleOracle`); returns the crossing parameter -/
def clearlyCrossed (T : TriQ) (O D : V3 Rat) (tieOk : Bool := true) : Option Rat :=
  match T.crossing O D with
  | none => none
  | some c =>
    let N := T.N
    let tτ := tol * absV N * triScale T O
    -- an origin exactly in the triangle's plane is a decidable tie only when the vertices the code works with are the exact
    -- ones (`tieOk`; a heightfield computes its vertices in floating point)
    let clearSide : Bool := (tieOk && decide (c.τ = 0)) || decide (rabs c.τ > tτ)
    let clearInside : Bool := decide (c.v ≥ tolB) && decide (c.w ≥ tolB) && decide (c.v + c.w ≤ 1 - tolB)
    if clearSide && clearInside && decide (0 ≤ c.s) && decide (sqr c.δ > sqr (1 / 1000000) * N.normSq * D.normSq)
    then some c.s else none

/-- the ray meets the CLOSED triangle (exact, no tolerance) -/
def closedCrossed (T : TriQ) (O D : V3 Rat) : Option Rat :=
  match T.crossing O D with
  | none => none
  | some c => if decide (0 ≤ c.s) && decide (0 ≤ c.v) && decide (0 ≤ c.w) && decide (c.v + c.w ≤ 1) then some c.s else none

inductive OnTri where
  | yes
  | no
  | illConditioned

/-- is the point `P = O + t·D` on the triangle (tolerances of `triangleOracle`)? -/
def onTriangle (T : TriQ) (O D : V3 Rat) (t : Rat) : OnTri :=
  let N := T.N
  let P := O.add (D.smul t)
  let sc := triScale T O + t * absV D
  if rabs (N.dot (P.sub T.a)) > (1 / 10000000 : Rat) * absV N * sc then .no else
  -- ray within 1e-6 rad of the triangle's plane and (numerically) in it: the crossing point is ill-conditioned (the code's
  -- barycentric coordinates are differences of rounding errors); not judged, as in `triangleOracle`
  if sqr (N.dot D) ≤ sqr (1 / 1000000) * N.normSq * D.normSq then .illConditioned else
  let (v, w) := T.bary P
  if v < -tolB ∨ w < -tolB ∨ v + w > 1 + tolB then .no else .yes

def soupOracle (Ts : List TriQ) (O D : V3 Rat) (max : Option Rat) (exact : Bool) (named : Option Nat) (out : Out)
    (tieOk : Bool := true) : String :=
  if D.normSq = 0 then "skip zero-dir" else
  let live := Ts.filter fun T => T.N.normSq ≠ 0
  match out with
  | .bad w => s!"fail {w}"
  | .miss =>
    if live.any (fun T => match clearlyCrossed T O D tieOk with | some s => ltMaxClear s max | none => false)
    then "fail none-but-ray-crosses-a-triangle"
    else if exact && live.any (fun T => match closedCrossed T O D with | some s => ltMaxClear s max | none => false)
    then "fail none-but-ray-meets-a-triangle exactly-computed-tie"
    else "pass"
  | .hit toi n _ =>
    if !FloatIO.isFinite toi then "fail nonfinite-toi" else
    let t := q toi
    if t < 0 then "fail negative-toi" else if !leOpt t max then "fail toi-exceeds-max" else
    let marks := live.map fun T => (T, onTriangle T O D t)
    let on := marks.filterMap fun (T, m) => match m with | .yes => some T | _ => none
    let ill := marks.any fun (_, m) => match m with | .illConditioned => true | _ => false
    if on.isEmpty then (if ill then "skip ray-nearly-parallel-to-the-hit-triangle" else "fail hit-not-on-any-triangle") else
    let namedOk : Bool := match named with
      | none => true
      | some k => match Ts[k]? with
        | some T => (match onTriangle T O D t with | .no => false | _ => true)
        | none => false
    if !namedOk then "fail hit-not-on-the-reported-triangle" else
    -- first hit: no triangle clearly crossed strictly before `t` (parameter resolution: `tolB` of the scene size)
    let before := fun (T : TriQ) (s : Rat) => decide (s + tolB * (triScale T O / absV D + s) < t)
    if live.any (fun T => match clearlyCrossed T O D tieOk with | some s => before T s | none => false)
    then "fail earlier-triangle-crossed" else
    if exact && live.any (fun T => match closedCrossed T O D with | some s => before T s | none => false)
    then "fail earlier-triangle-met exactly-computed-tie" else
    match n with
    | none => "pass"
    | some nf =>
      if !finiteV nf then "fail nonfinite-normal" else
      let nq := q3 nf
      match (if t = 0 then (if rabs (nq.normSq - 1) > tol then some "normal-not-unit" else none) else normalBasic nq D) with
      | some w => s!"fail {w}"
      | none =>
        -- (a triangle whose plane contains the ray, numerically, and the hit point may also be the one reported)
        let cand := marks.filterMap fun (T, m) => match m with | .no => none | _ => some T
        if cand.any (fun T => decide ((nq.cross T.N).normSq ≤ sqr (1 / 1000000) * T.N.normSq)) then "pass"
        else "fail normal-not-a-normal-of-the-hit-triangle"

/-- heightfield on the wire -/
structure HfArgs where
  nr : Nat
  nc : Nat
  hs : Array Float
  sc : V3 Float
  st : List (Nat × Nat × Nat)

def phf : P HfArgs := do
  let nr ← pnat; let nc ← pnat
  let hs ← pcount pf (nr * nc)
  let sc ← pv3
  let ns ← pnat
  let st ← pcount (do let i ← pnat; let j ← pnat; let b ← pnat; pure (i, j, b)) ns
  pure ⟨nr, nc, hs.toArray, sc, st⟩

def HfArgs.model (h : HfArgs) : HeightField3 Float := ⟨h.nr, h.nc, h.hs, h.sc, h.st⟩

/-- status bits of cell `(i, j)`: the last `set_cell_status` wins -/
def HfArgs.status (h : HfArgs) (i j : Nat) : Nat :=
  h.st.foldl (fun acc (e : Nat × Nat × Nat) => if e.1 = i ∧ e.2.1 = j then e.2.2 else acc) 0

/-- the triangles of the heightfield from its documentation: vertex `(i, j)` (row `i` along `z`, column `j` along `x`) is
`((−1/2 + j/(nc−1))·sx, h(i,j)·sy, (−1/2 + i/(nr−1))·sz)`; a cell is split along the diagonal `p10–p01` (default) or
`p00–p11` (zig-zag bit 1); bits 2 / 4 remove the left / right triangle. -/
def HfArgs.exactGeom (h : HfArgs) : Bool :=
  isPow2Nat (h.nr - 1) && isPow2Nat (h.nc - 1) && zeroOrPow2V3 (q3 h.sc) && h.hs.all fun x => onLattice 64 (q x)

def HfArgs.triangles (h : HfArgs) : List TriQ :=
  if h.nr < 2 ∨ h.nc < 2 then [] else
  let S := q3 h.sc
  let hq := fun (i j : Nat) => q (h.hs.getD (i + j * h.nr) 0)
  let px := fun (j : Nat) => (-(1 / 2 : Rat) + (j : Rat) / ((h.nc - 1 : Nat) : Rat)) * S.x
  let pz := fun (i : Nat) => (-(1 / 2 : Rat) + (i : Rat) / ((h.nr - 1 : Nat) : Rat)) * S.z
  let vtx := fun (i j : Nat) => (⟨px j, hq i j * S.y, pz i⟩ : V3 Rat)
  (List.range (h.nr - 1)).flatMap fun i => (List.range (h.nc - 1)).flatMap fun j =>
    let bits := h.status i j
    let zig := bits % 2 = 1
    let leftRemoved := (bits / 2) % 2 = 1
    let rightRemoved := (bits / 4) % 2 = 1
    let p00 := vtx i j; let p10 := vtx (i + 1) j; let p01 := vtx i (j + 1); let p11 := vtx (i + 1) (j + 1)
    let t1 : TriQ := if zig then ⟨p00, p10, p11⟩ else ⟨p00, p10, p01⟩
    let t2 : TriQ := if zig then ⟨p00, p11, p01⟩ else ⟨p10, p11, p01⟩
    (if leftRemoved then [] else [t1]) ++ (if rightRemoved then [] else [t2])

/-- trimesh on the wire -/
structure MeshArgs where
  vs : Array (V3 Float)
  is : List (Nat × Nat × Nat)
def pmesh : P MeshArgs := do
  let nv ← pnat; let vs ← pcount pv3 nv
  let nt ← pnat; let is ← pcount (do let i ← pnat; let j ← pnat; let k ← pnat; pure (i, j, k)) nt
  pure ⟨vs.toArray, is⟩
def MeshArgs.triangles (m : MeshArgs) : List TriQ :=
  m.is.map fun (i, j, k) => ⟨q3 (m.vs.getD i ⟨0, 0, 0⟩), q3 (m.vs.getD j ⟨0, 0, 0⟩), q3 (m.vs.getD k ⟨0, 0, 0⟩)⟩

/-- `f<id>`: `id < nt` front face of triangle `id`, else back face of `id − nt` -/
def namedTriangle (feat : String) (nt : Nat) : Option Nat :=
  if nt = 0 then none else
  match feat.toList with
  | 'f' :: ds => (String.ofList ds).toNat?.map (· % nt)
  | _ => none

def meshOracle (m : MeshArgs) (ra : RayArgs) (o : List String) : String :=
  let Ts := m.triangles
  let O := q3 ra.o; let D := q3 ra.d
  let exact : Bool := Ts.all (fun T => onLattice3 64 T.a && onLattice3 64 T.b && onLattice3 64 T.c) &&
    onLattice3 1024 O && onLattice3 1024 D && zeroOrPow2V3 D
  let out := parseOut o
  let named := match out with | .hit _ (some _) f => namedTriangle f Ts.length | _ => none
  soupOracle Ts O D ra.maxQ exact named out

/-! ### compound of cuboids -/
structure PartQ where
  he : V3 Rat
  m : Iso3 Rat
  ident : Bool

def ppart : P (V3 Float × Iso3 Float) := do let he ← pv3; let m ← piso3; pure (he, m)
def pcompound : P (List (V3 Float × Iso3 Float)) := do let n ← pnat; pcount ppart n

def compoundOracle (parts : List PartQ) (O D : V3 Rat) (max : Option Rat) (solid : Bool) (out : Out) : String :=
  if D.normSq = 0 then "skip zero-dir" else
  if parts.any (fun p => p.he.x < 0 ∨ p.he.y < 0 ∨ p.he.z < 0) then "skip invalid-box" else
  -- per part: local ray, depth function, tolerances (those of `boxOracle`)
  let loc := parts.map fun p =>
    let Ol := p.m.invAct O; let Dl := p.m.invRot D
    (p, Ol, Dl, 1 + absV Ol + 2 * absV p.he)
  let f := fun (e : PartQ × V3 Rat × V3 Rat × Rat) (s : Rat) => boxDepth e.1.he.neg e.1.he (e.2.1.add (e.2.2.1.smul s))
  let tp := fun (e : PartQ × V3 Rat × V3 Rat × Rat) => tol * e.2.2.2
  let outsideAll := loc.all fun e => decide (f e 0 > tp e)
  let deepIn := loc.filter fun e => decide (f e 0 < -(tp e))
  -- exactly computed ties: lattice data, identity rotations, direction components 0 or ±2^k
  let exact : Bool := parts.all (fun p => p.ident && onLattice3 64 p.he && onLattice3 64 p.m.t) &&
    onLattice3 1024 O && onLattice3 1024 D && zeroOrPow2V3 D
  match out with
  | .bad w => s!"fail {w}"
  | .miss =>
    if solid ∨ outsideAll then
      if loc.any (fun e => meets (boxInterval e.1.he.neg e.1.he e.2.1 e.2.2.1 (tp e)) max false) then "fail none-but-segment-enters-a-part"
      else if exact && loc.any (fun e =>
          match boxInterval e.1.he.neg e.1.he e.2.1 e.2.2.1 0 with
          | some (some lo, some hi) =>
            decide (0 ≤ hi) && (if lo < 0 ∧ !solid then ltMaxClear hi max else ltMaxClear (rmax lo 0) max)
          | _ => false)
      then "fail none-but-segment-meets-a-part exactly-computed-tie"
      else "pass"
    else
      match deepIn with
      | [] => "pass"
      | es =>
        match max with
        | none => "fail none-but-unbounded-ray-from-inside"
        | some m => if es.any (fun e => decide (f e m > tol * (e.2.2.2 + rabs m * absV e.2.2.1))) then "fail none-but-segment-exits-a-part" else "pass"
  | .hit toi n _ =>
    if !FloatIO.isFinite toi then "fail nonfinite-toi" else
    let t := q toi
    if t < 0 then "fail negative-toi" else if !leOpt t max then "fail toi-exceeds-max" else
    let tph := fun (e : PartQ × V3 Rat × V3 Rat × Rat) => tol * (e.2.2.2 + t * absV e.2.2.1)
    let onB := loc.filter fun e => decide (rabs (f e t) ≤ tph e)
    let first := loc.all fun e => !meets (boxInterval e.1.he.neg e.1.he e.2.1 e.2.2.1 (tph e)) (some t) true
    let verdict :=
      if outsideAll then (if onB.isEmpty then "fail hit-not-on-any-part-boundary" else if !first then "fail earlier-point-inside-a-part" else "pass")
      else if !deepIn.isEmpty then
        (if solid then (if t = 0 then "pass" else "fail solid-inside-toi-nonzero")
         else if onB.isEmpty then "fail hit-not-on-any-part-boundary" else "pass")
      else (if solid ∧ t = 0 then "pass" else if onB.isEmpty then "fail hit-not-on-any-part-boundary" else "pass")
    if verdict != "pass" then verdict else
    match n with
    | none => "pass"
    | some nf =>
      if t = 0 ∧ solid ∧ !outsideAll then "pass" else
      if !finiteV nf then "fail nonfinite-normal" else
      let nq := q3 nf
      match normalBasic nq D with
      | some w => s!"fail {w}"
      | none =>
        -- the normal, pulled back into the frame of a part that has the hit point on its boundary, must be ± an axis naming a
        -- face through the hit point (or −dir at an edge / corner)
        let okFor := fun (e : PartQ × V3 Rat × V3 Rat × Rat) =>
          let nl := e.1.m.invRot nq
          let P := e.2.1.add (e.2.2.1.smul t)
          let big := fun (x : Rat) => decide (rabs x > 9 / 10)
          let small := fun (x : Rat) => decide (rabs x ≤ 1 / 1000000)
          let axisLike := ([nl.x, nl.y, nl.z].filter big).length = 1 ∧ ([nl.x, nl.y, nl.z].filter small).length = 2
          if axisLike then
            let chk := fun (ni pi hi : Rat) => if !big ni then true else
              decide (rabs (pi + hi) ≤ 1000 * tph e) || decide (rabs (pi - hi) ≤ 1000 * tph e)
            chk nl.x P.x e.1.he.x && chk nl.y P.y e.1.he.y && chk nl.z P.z e.1.he.z
          else decide ((nl.cross e.2.2.1).normSq ≤ sqr (1 / 1000000) * e.2.2.1.normSq)
        if onB.any okFor then "pass" else "fail normal-not-a-face-normal-of-the-hit-part"

/-! ### polyline (2-D) -/
def ppolyline2 : P (List (V2 Float)) := do let n ← pnat; pcount pv2 n

structure SegCr where
  s : Rat     -- ray parameter
  u : Rat     -- segment parameter
  sin2 : Rat  -- sin² of the angle × |D|²|E|² (i.e. cross²)

def segCrossing (A B O D : V2 Rat) : Option SegCr :=
  let E := B.sub A
  let cr := cross2 D E
  if cr = 0 then none else
  let ao := A.sub O
  some ⟨cross2 ao E / cr, cross2 ao D / cr, sqr cr⟩

/-- brute force over a set of 2-D segments (`exactData`: the segments are the exact ones the code works with and lie on the
lattice; exact ties are then judged without tolerance for axis-parallel rays with power-of-two components) -/
def segsOracle (segs : List (V2 Rat × V2 Rat)) (exactData : Bool) (O D : V2 Rat) (max : Option Rat) (out : Out2) : String :=
  if D.normSq ≤ 1 / 1000000000000 then "skip tiny-dir" else
  if segs.any (fun (a, b) => decide ((b.sub a).normSq ≤ 1 / 1000000000000)) then "skip tiny-segment" else
  let scale := 1 + absV2 O + (segs.foldl (fun acc (a, b) => acc + absV2 a + absV2 b) 0)
  let exact : Bool := exactData && onLattice2 1024 O && onLattice2 1024 D &&
    ((D.x = 0 && zeroOrPow2 D.y) || (D.y = 0 && zeroOrPow2 D.x))
  -- clearly crossed: transversal (sin² > 1e-5: above the absolute-threshold regime of the parallelism test), crossing point
  -- at least `tolB` inside the segment, origin not on the segment's line
  let clear := fun (a b : V2 Rat) => match segCrossing a b O D with
    | none => none
    | some c =>
      let E := b.sub a
      if decide (c.s > tol) && decide (c.u ≥ tolB) && decide (c.u ≤ 1 - tolB) && decide (c.sin2 > (1 / 100000 : Rat) * D.normSq * E.normSq)
      then some c.s else none
  let closed := fun (a b : V2 Rat) => match segCrossing a b O D with
    | none => none
    | some c => if decide (0 ≤ c.s) && decide (0 ≤ c.u) && decide (c.u ≤ 1) then some c.s else none
  -- exactly collinear, axis-aligned segment overlapping the ray: first common parameter
  let collinear := fun (a b : V2 Rat) =>
    let E := b.sub a; let ao := a.sub O
    if cross2 D E = 0 ∧ cross2 ao D = 0 ∧ (E.x = 0 ∨ E.y = 0) then
      let τ1 := ao.dot D / D.normSq; let τ2 := (b.sub O).dot D / D.normSq
      -- computed vertices: the common part must have a clear length (more than the parameter resolution), a ray that
      -- merely touches the end of the segment within rounding is a tie
      let first := rmax (rmin τ1 τ2) 0
      if rmax τ1 τ2 < 0 then none
      else if !exactData && decide (rmax τ1 τ2 - first ≤ tolB * (scale / absV2 D + first)) then none
      else some first
    else none
  match out with
  | .bad w => s!"fail {w}"
  | .miss =>
    if segs.any (fun (a, b) => match clear a b with | some s => ltMaxClear s max | none => false) then "fail none-but-ray-crosses-a-segment"
    -- (computed vertices: the overlap must start clearly before `max_toi`, by the parameter resolution `tolB` of the scene)
    else if segs.any (fun (a, b) => match collinear a b with
        | some s => ltMaxClear (if exactData then s else s + tolB * (scale / absV2 D + s)) max
        | none => false) then "fail none-but-collinear-overlap"
    else if exact && segs.any (fun (a, b) => match closed a b with | some s => ltMaxClear s max | none => false)
    then "fail none-but-ray-meets-a-segment exactly-computed-tie"
    else "pass"
  | .hit toi nf _ =>
    if !FloatIO.isFinite toi then "fail nonfinite-toi" else
    let t := q toi
    if t < 0 then "fail negative-toi" else if !leOpt t max then "fail toi-exceeds-max" else
    let P := O.add (D.smul t)
    let sc := scale + t * absV2 D
    let on := segs.filter fun (a, b) =>
      let E := b.sub a; let ap := P.sub a
      decide (sqr (cross2 ap E) ≤ sqr (tolB * sc) * E.normSq) &&
        (let u := ap.dot E / E.normSq; decide (-tolB ≤ u) && decide (u ≤ 1 + tolB))
    if on.isEmpty then "fail hit-not-on-any-segment" else
    let before := fun (s : Rat) => decide (s + tolB * (sc / absV2 D + s) < t)
    if segs.any (fun (a, b) => match clear a b with | some s => before s | none => false) then "fail earlier-segment-crossed"
    else if segs.any (fun (a, b) => match collinear a b with | some s => before s | none => false) then "fail earlier-collinear-segment"
    else if exact && segs.any (fun (a, b) => match closed a b with | some s => before s | none => false)
    then "fail earlier-segment-met exactly-computed-tie" else
    if !(FloatIO.isFinite nf.x && FloatIO.isFinite nf.y) then "fail nonfinite-normal" else
    let n := q2 nf
    if rabs (n.normSq - 1) > tol then "fail normal-not-unit"
    else if n.dot D > 0 ∧ sqr (n.dot D) > sqr (1 / 1000000) * D.normSq then "fail normal-not-facing-ray"
    else if on.any (fun (a, b) => let E := b.sub a; decide (sqr (n.dot E) ≤ sqr (1 / 1000000) * E.normSq)) then "pass"
    else "fail normal-not-perpendicular-to-the-hit-segment"

def polylineOracle (vs : List (V2 Rat)) (O D : V2 Rat) (max : Option Rat) (out : Out2) : String :=
  segsOracle (vs.zip (vs.drop 1)) (vs.all (onLattice2 64)) O D max out

/-- 2-D heightfield on the wire: `n h[n] sx sy nrem (i)*nrem` -/
structure Hf2Args where
  hs : Array Float
  sc : V2 Float
  removed : List Nat
def phf2 : P Hf2Args := do
  let n ← pnat; let hs ← pcount pf n; let sc ← pv2; let nr ← pnat; let rm ← pcount pnat nr
  pure ⟨hs.toArray, sc, rm⟩
/-- the segments of the 2-D heightfield from its documentation: vertex `i` is `((−1/2 + i/(n−1))·sx, h_i·sy)`, segment `i`
joins the vertices `i` and `i+1` unless it has been removed -/
def Hf2Args.segments (h : Hf2Args) : List (V2 Rat × V2 Rat) :=
  let n := h.hs.size
  if n < 2 then [] else
  let S := q2 h.sc
  let vtx := fun (i : Nat) => (⟨(-(1 / 2 : Rat) + (i : Rat) / ((n - 1 : Nat) : Rat)) * S.x, q (h.hs.getD i 0) * S.y⟩ : V2 Rat)
  (List.range (n - 1)).filterMap fun i => if h.removed.contains i then none else some (vtx i, vtx (i + 1))

/-! ### handlers -/
def isIdentQuat (m : Iso3 Rat) : Bool := m.qi = 0 && m.qj = 0 && m.qk = 0 && (m.qw = 1 || m.qw = -1)

def handlerComposite (fn : String) : Option Handler :=
  match fn with
  | "simd_aabb_cast" => some {
      model := fun a => run (do let b ← paabb; let o ← pv3; let d ← pv3; let m ← pf
                                let (hit, t) := simdAabbCastLocalRay bigF b ⟨o, d⟩ m
                                pure s!"{fb hit} {ff t}") a
      oracle := fun a o => withArgs (do let b ← paabb; let o ← pv3; let d ← pv3; let m ← pf; pure (b, o, d, m)) a fun (b, ro, rd, m) =>
        if !(finite3 b.mins && finite3 b.maxs && finite3 ro && finite3 rd) || m.isNaN then "skip non-finite-input" else
        simdAabbOracle (q3 b.mins) (q3 b.maxs) (q3 ro) (q3 rd) (if FloatIO.isFinite m then some (q m) else none) o }
  -- 3-D heightfield: modelled (grid walk with fuel), bit-exact; oracle = exact brute force over the triangles
  | "rc_hf3" => some {
      model := fun a => run (do let h ← phf; let ra ← pray
                                pure (fhit (h.model.castLocalRayAndGetNormal bigF ra.ray ra.max ra.solid))) a
      oracle := fun a o => withArgs (do let h ← phf; let ra ← pray; pure (h, ra)) a fun (h, ra) =>
        soupOracle h.triangles (q3 ra.o) (q3 ra.d) ra.maxQ false none (parseOut o) h.exactGeom }
  | "rc_hf3_posed" => some {
      model := fun a => run (do let h ← phf; let m ← piso3; let ra ← pray
                                pure (fhit (h.model.castRayAndGetNormal bigF m ra.ray ra.max ra.solid))) a
      oracle := fun a o => withArgs (do let h ← phf; let m ← piso3; let ra ← pray; pure (h, m, ra)) a fun (h, m, ra) =>
        let M := qiso3 m
        -- judged in the local frame: exact inverse transform of the ray; the world normal is pulled back exactly
        let out := match parseOut o with
          | .hit t (some nw) f => if finiteV nw then .hit t none f else .hit t (some nw) f
          | x => x
        let O := M.invAct (q3 ra.o); let D := M.invRot (q3 ra.d)
        let res := soupOracle h.triangles O D ra.maxQ false none out false
        if res != "pass" then res else
        match parseOut o with
        | .hit t (some nw) _ =>
          if !finiteV nw then "fail nonfinite-normal" else
          let tq := q t
          let nl := M.invRot (q3 nw)
          (match (if tq = 0 then none else normalBasic nl D) with
           | some w => s!"fail {w}"
           | none =>
             let on := h.triangles.filter fun T => match onTriangle T O D tq with | .no => false | _ => true
             if on.any (fun T => decide ((nl.cross T.N).normSq ≤ sqr (1 / 1000000) * T.N.normSq)) then "pass"
             else "fail normal-not-a-normal-of-the-hit-triangle")
        | _ => "pass" }
  -- BVH-based composites: best-first traversal not modelled here (relations.json: kind none); exact brute-force oracle
  | "rc_trimesh" => some {
      model := fun _ => some "composite-not-modelled"
      oracle := fun a o => withArgs (do let m ← pmesh; let ra ← pray; pure (m, ra)) a fun (m, ra) => meshOracle m ra o }
  | "rc_trimesh_toi" => some {
      model := fun _ => some "composite-not-modelled"
      oracle := fun a o => withArgs (do let m ← pmesh; let ra ← pray; pure (m, ra)) a fun (m, ra) => meshOracle m ra o }
  | "rc_compound" => some {
      model := fun _ => some "composite-not-modelled"
      oracle := fun a o => withArgs (do let c ← pcompound; let ra ← pray; pure (c, ra)) a fun (c, ra) =>
        compoundOracle (c.map fun (he, m) => ⟨q3 he, qiso3 m, isIdentQuat (qiso3 m)⟩) (q3 ra.o) (q3 ra.d) ra.maxQ ra.solid (parseOut o) }
  | "rc_compound_toi" => some {
      model := fun _ => some "composite-not-modelled"
      oracle := fun a o => withArgs (do let c ← pcompound; let ra ← pray; pure (c, ra)) a fun (c, ra) =>
        compoundOracle (c.map fun (he, m) => ⟨q3 he, qiso3 m, isIdentQuat (qiso3 m)⟩) (q3 ra.o) (q3 ra.d) ra.maxQ ra.solid (parseOut o) }
  | "rc_polyline2" => some {
      model := fun _ => some "composite-not-modelled"
      oracle := fun a o => withArgs (do let vs ← ppolyline2; let ra ← pray2; pure (vs, ra)) a fun (vs, ra) =>
        polylineOracle (vs.map q2) (q2 ra.o) (q2 ra.d) ra.maxQ (parseOut2 o) }
  -- 2-D heightfield (linear cell walk): not modelled; exact brute force over its segments (no exact-tie rule: the
  -- heightfield computes its vertices in floating point)
  | "rc_hf2" => some {
      model := fun a => run (do let h ← phf2; let ra ← pray2
                                pure (fhit2d ((HeightField2.mk h.hs h.sc h.removed).castLocalRayAndGetNormal bigF ⟨ra.o, ra.d⟩ ra.max ra.solid))) a
      oracle := fun a o => withArgs (do let h ← phf2; let ra ← pray2; pure (h, ra)) a fun (h, ra) =>
        if h.sc.x ≤ 0 || h.sc.y ≤ 0 then "skip nonpositive-scale" else
        segsOracle h.segments false (q2 ra.o) (q2 ra.d) ra.maxQ (parseOut2 o) }
  | _ => none

end C04
