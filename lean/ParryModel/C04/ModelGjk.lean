import ParryModel.C04.Model
/-!
# C04 model, part 3: `gjk::minkowski_ray_cast` / `gjk::cast_local_ray` (`src/query/gjk/gjk.rs`), structurally.

The ray-cast loop is transliterated statement by statement (same branch order, same comparisons, same return sites);
the two things it calls are *parameters* of the model:

* `supp : V3 K → V3 K` — `CSOPoint::from_shapes(pos12, g1, g2, dir).point`, the support point of the configuration-space
  object in direction `dir` (for `cast_local_ray` the CSO is the shape itself: `g2 = ConstantOrigin`, `pos12 = identity`);
* `SimplexOps` — the `VoronoiSimplex` (`reset`, `add_point`, `project_origin_and_reduce`, `modify_pnts(translate)`,
  `dimension`).  Nothing is assumed about it: the theorems of `Theorems3.lean` hold for EVERY simplex implementation,
  i.e. the soundness of the exits below does not depend on the Voronoi-region code being right.

Every return site carries an `Exit` tag (the "termination reason" of the property's `hook_needed`), and the state carries a
ghost flag `clean` that is cleared when the ray origin is advanced by clipping against the plane through the *projection
point* (the `last_chance` "upper bounds inconsistencies" branch with `ltoi = 0`): that plane is not a supporting plane of
the shape, so results that went through it are excluded from the certificate (see `gjk_lastChance_clip_unsound`).

The model is written over `V3`; the 2-D instance of the Rust code is the same text with `DIM = 2` (parameter `dim`).
There is no bit-exact correspondence for this file (the simplex is abstract); the real function is covered by the exact
oracles of the capsule / cylinder / cone / convex-polytope / round-shape casts.
-/
namespace Model
variable {K : Type} [Num K]

/-- the part of `VoronoiSimplex` the ray cast uses; `S` is the simplex state -/
structure SimplexOps (K S : Type) where
  /-- `simplex.reset(pt)` -/
  reset : V3 K → S
  /-- `simplex.add_point(pt)` (the returned `bool` is discarded by the ray cast) -/
  addPoint : S → V3 K → S
  /-- `simplex.project_origin_and_reduce()` : new state and the projection of the origin -/
  project : S → S × V3 K
  /-- `simplex.modify_pnts(&|pt| pt.translate_mut(&v))` -/
  translate : S → V3 K → S
  /-- `simplex.dimension()` -/
  dimension : S → Nat

/-- return sites of `minkowski_ray_cast`, in source order -/
inductive GjkExit where
  | zeroDir          -- `relative_eq!(ray_length, 0.0)` ⇒ None
  | projZero         -- `Unit::try_new_and_get(-proj, eps_tol)` failed ⇒ Some (origin on / in the CSO)
  | lastChanceHit    -- `last_chance && ltoi > 0.0` ⇒ Some
  | maxToi           -- `ltoi / ray_length > max_time_of_impact` ⇒ None
  | miss             -- `dir.dot(curr_ray.dir) > eps_tol` with no forward intersection ⇒ None
  | lastChanceMiss   -- `if last_chance { return None }`
  | converged        -- `max_bound - min_bound <= eps_rel * max_bound` ⇒ None (without `improved_fixed_point_support`)
  | fullOutside      -- `simplex.dimension() == DIM`, `min_bound >= eps_tol` ⇒ None
  | fullInside       -- `simplex.dimension() == DIM` otherwise ⇒ Some
  | iterCap          -- `niter == 100` ⇒ None
  deriving DecidableEq, Repr

/-- `eps_tol() = DEFAULT_EPSILON * 10.0` -/
@[inline] def gjkEpsTol : K := defaultEps * lit 10

/-- `relative_eq!(x, 0.0)` with the default `epsilon = max_relative = f64::EPSILON`: `|x| ≤ ε` (the relative test
`|x| ≤ |x|·ε` can only hold for `x = 0`). -/
@[inline] def gjkRelEqZero (x : K) : Bool := decide (nabs x ≤ defaultEps)

/-- `Unit::try_new_and_get(v, min_norm)`: `None` if `|v| ≤ min_norm`, else `(v / |v|, |v|)` -/
def tryNewAndGet (v : V3 K) (minNorm : K) : Option (V3 K × K) :=
  let n := v.norm
  if n ≤ minNorm then none else some (v.sdiv n, n)

/-- `line_toi_with_halfspace` -/
def lineToiWithHalfspace (center normal o d : V3 K) : Option K :=
  let dpos := center.sub o
  let denom := normal.dot d
  if gjkRelEqZero denom then none else some (normal.dot dpos / denom)

/-- `ray_toi_with_halfspace` -/
def rayToiWithHalfspace (center normal o d : V3 K) : Option K :=
  match lineToiWithHalfspace center normal o d with
  | some t => if 0 ≤ t then some t else none
  | none => none

/-- loop state of `minkowski_ray_cast` -/
structure GjkSt (K S : Type) where
  simplex : S
  proj : V3 K
  maxBound : K
  ltoi : K
  ldir : V3 K
  /-- `curr_ray.origin` -/
  curO : V3 K
  lastChance : Bool
  /-- ghost: no origin update went through the `last_chance` pseudo support point -/
  clean : Bool

/-- result: `Option (toi, normal)`, the return site, the ghost flag -/
structure GjkRes (K : Type) where
  res : Option (K × V3 K)
  exit : GjkExit
  clean : Bool

/-- the mutable variables the clipping `match` of an iteration may change -/
structure GjkClipOut (K S : Type) where
  ltoi : K
  ldir : V3 K
  curO : V3 K
  maxBound : K
  simplex : S
  lastChance : Bool
  clean : Bool

/-- the `match query::details::ray_toi_with_halfspace(&support_point.point, &dir, &curr_ray) { … }` of one iteration:
clip the ray on the half-space `{x : dir·(x − sp) ≤ 0}`.  `pseudo` = the support point is the `last_chance` pseudo
support point `proj + curr_ray.origin` (ghost information only). -/
def gjkClip {S : Type} (ops : SimplexOps K S) (big : K) (u : V3 K) (len maxToi : K) (st : GjkSt K S)
    (dir sp : V3 K) (maxBound : K) (lastChance pseudo : Bool) : Sum (GjkRes K) (GjkClipOut K S) :=
  match rayToiWithHalfspace sp dir st.curO u with
  | some t =>
    if dir.dot u < 0 ∧ 0 < t then
      -- new lower bound
      let ltoi := st.ltoi + t
      if maxToi < ltoi / len then .inl ⟨none, .maxToi, st.clean && !pseudo⟩
      else
        let shift := u.smul t
        .inr ⟨ltoi, dir, st.curO.add shift, big, ops.translate st.simplex shift.neg, false, st.clean && !pseudo⟩
    else .inr ⟨st.ltoi, st.ldir, st.curO, maxBound, st.simplex, lastChance, st.clean⟩
  | none =>
    if gjkEpsTol < dir.dot u then .inl ⟨none, .miss, st.clean && !pseudo⟩
    else .inr ⟨st.ltoi, st.ldir, st.curO, maxBound, st.simplex, lastChance, st.clean⟩

/-- the rest of an iteration after the clipping `match` -/
def gjkTail {S : Type} (ops : SimplexOps K S) (dim : Nat) (len : K) (dir sp : V3 K) (c : GjkClipOut K S) :
    Sum (GjkRes K) (GjkSt K S) :=
  if c.lastChance then .inl ⟨none, .lastChanceMiss, c.clean⟩
  else
    let minBound := -(dir.dot (sp.sub c.curO))
    -- `assert!(min_bound.is_finite())` : a panic at `Float`, vacuous in a field
    let epsRel : K := Num.sqrt gjkEpsTol
    if c.maxBound - minBound ≤ epsRel * c.maxBound then .inl ⟨none, .converged, c.clean⟩
    else
      let simplex := ops.addPoint c.simplex (sp.sub c.curO)
      let pr := ops.project simplex
      if ops.dimension pr.1 = dim then
        if gjkEpsTol ≤ minBound then .inl ⟨none, .fullOutside, c.clean⟩
        else .inl ⟨some (c.ltoi / len, c.ldir), .fullInside, c.clean⟩
      else
        .inr ⟨pr.1, pr.2, c.maxBound, c.ltoi, c.ldir, c.curO, c.lastChance, c.clean⟩

/-- one iteration of the `loop { … }` of `minkowski_ray_cast`.  `u` is `curr_ray.dir` (the normalised direction),
`len` is `ray_length`, `big` is `Real::max_value()`, `dim` is `DIM`.  `Sum.inl` = a `return`. -/
def gjkStep {S : Type} (ops : SimplexOps K S) (supp : V3 K → V3 K) (big : K) (dim : Nat) (u : V3 K) (len maxToi : K)
    (st : GjkSt K S) : Sum (GjkRes K) (GjkSt K S) :=
  let oldMaxBound := st.maxBound
  match tryNewAndGet st.proj.neg gjkEpsTol with
  | none => .inl ⟨some (st.ltoi / len, st.ldir), .projZero, st.clean⟩
  | some (dir, dist) =>
    let maxBound := dist
    -- `if max_bound >= old_max_bound { last_chance = true; single_point(proj + origin) } else { from_shapes(dir) }`
    let inconsistent : Bool := decide (oldMaxBound ≤ maxBound)
    let lastChance := st.lastChance || inconsistent
    let sp := if inconsistent then st.proj.add st.curO else supp dir
    if lastChance ∧ 0 < st.ltoi then .inl ⟨some (st.ltoi / len, st.ldir), .lastChanceHit, st.clean⟩
    else
      match gjkClip ops big u len maxToi st dir sp maxBound lastChance inconsistent with
      | .inl r => .inl r
      | .inr c => gjkTail ops dim len dir sp c

/-- the loop; the code's own cap is `niter == 100` -/
def gjkLoop {S : Type} (ops : SimplexOps K S) (supp : V3 K → V3 K) (big : K) (dim : Nat) (u : V3 K) (len maxToi : K) :
    Nat → GjkSt K S → GjkRes K
  | 0, st => ⟨none, .iterCap, st.clean⟩
  | n + 1, st =>
    match gjkStep ops supp big dim u len maxToi st with
    | .inl r => r
    | .inr st' => gjkLoop ops supp big dim u len maxToi n st'

/-- `minkowski_ray_cast(pos12, g1, g2, ray, max_time_of_impact, simplex)` -/
def minkowskiRayCast {S : Type} (ops : SimplexOps K S) (supp : V3 K → V3 K) (big : K) (dim : Nat) (ray : Ray3 K)
    (maxToi : K) : GjkRes K :=
  let len := ray.d.norm
  if gjkRelEqZero len then ⟨none, .zeroDir, true⟩
  else
    let u := ray.d.sdiv len
    let dir := u.neg
    let sp := supp dir
    let simplex := ops.reset (sp.sub ray.o)     -- `support_point.translate(&-curr_ray.origin.coords)`
    let pr := ops.project simplex
    gjkLoop ops supp big dim u len maxToi 100 ⟨pr.1, pr.2, big, 0, dir, ray.o, false, true⟩

/-- result of the support-map wrapper with ghost information: `recast` = the non-solid re-cast was taken,
`clean1` / `clean2` = ghost flags of the first / second `minkowski_ray_cast` -/
structure SmRes (K : Type) where
  res : Option (Hit3 K)
  recast : Bool
  clean1 : Bool
  clean2 : Bool

/-- `local_ray_intersection_with_support_map_with_params(shape, simplex, ray, max_time_of_impact, solid)`
(`ray_support_map.rs`; tree with fixes/C04-support-map-nonsolid-recast.diff, i.e. the re-cast runs along the UNIT direction
and the final time is divided by `|dir|`).  `gjk::cast_local_ray(shape, …)` = `minkowskiRayCast` with `supp` = the shape's
`local_support_point`.  The initial `simplex.reset(…)` of the wrapper is dead code (`minkowski_ray_cast` resets again).
Feature id: `Unknown` (kind 2). -/
def localRayIntersectionWithSupportMap {S : Type} (ops : SimplexOps K S) (supp : V3 K → V3 K) (big : K) (dim : Nat)
    (ray : Ray3 K) (maxToi : K) (solid : Bool) : SmRes K :=
  let r1 := minkowskiRayCast ops supp big dim ray maxToi
  match r1.res with
  | none => ⟨none, false, r1.clean, true⟩
  | some (toi, normal) =>
    if !solid && neq toi 0 then
      -- the ray is inside of the shape
      let dirNorm := ray.d.norm
      let ndir := ray.d.sdiv dirNorm
      let sp := supp ndir
      let eps : K := lit 1 1000
      let shift := (sp.sub ray.o).dot ndir + eps
      let newRay : Ray3 K := ⟨ray.o.add (ndir.smul shift), ndir.neg⟩
      let r2 := minkowskiRayCast ops supp big dim newRay (shift + eps)
      match r2.res with
      | none => ⟨none, true, r1.clean, r2.clean⟩
      | some (toi2, outwardNormal) =>
        let t := (shift - toi2) / dirNorm
        if t ≤ maxToi then ⟨some { toi := t, n := outwardNormal.neg, fkind := 2, fidx := 0 }, true, r1.clean, r2.clean⟩
        else ⟨none, true, r1.clean, r2.clean⟩
    else ⟨some { toi := toi, n := normal, fkind := 2, fidx := 0 }, false, r1.clean, true⟩

end Model
