import ParryModel.C04.Model
import ParryModel.C04.Model2D
/-!
# C04 model, glue: the boolean forms of the `RayCast` trait

`RayCast::intersects_local_ray` (default: `self.cast_local_ray(ray, max_toi, true).is_some()`), `RayCast::intersects_ray`
(default: inverse-transform the ray, then `intersects_local_ray`) and the one override in the crate,
`BoundingSphere::intersects_local_ray` (translate the ray by `-center`, then the `Ball` form).  For `Ball`, `Cuboid`, `Aabb`
`cast_local_ray` is the shape's own time-only function; `HalfSpace` has only the normal form, so the default `cast_local_ray`
(`cast_local_ray_and_get_normal(..).map(|i| i.time_of_impact)`) is what `intersects_local_ray` goes through.
-/
namespace Model
variable {K : Type} [Num K]

/-- default `intersects_local_ray` for `Ball` -/
def Ball.intersectsLocalRay (s : Ball K) (ray : Ray3 K) (maxToi : K) : Bool :=
  (s.castLocalRay ray maxToi true).isSome
/-- default `intersects_ray` for `Ball` -/
def Ball.intersectsRay (s : Ball K) (m : Iso3 K) (ray : Ray3 K) (maxToi : K) : Bool :=
  s.intersectsLocalRay (ray.invTransform m) maxToi
/-- `BoundingSphere::intersects_local_ray` -/
def bsphereIntersectsLocalRay (center : V3 K) (r : K) (ray : Ray3 K) (maxToi : K) : Bool :=
  (Ball.mk r).intersectsLocalRay (ray.translate center.neg) maxToi
/-- default `intersects_local_ray` for `Aabb` -/
def Aabb.intersectsLocalRay (big : K) (b : Aabb K) (ray : Ray3 K) (maxToi : K) : Bool :=
  (b.castLocalRay big ray maxToi true).isSome
/-- default `intersects_local_ray` for `Cuboid` -/
def Cuboid3.intersectsLocalRay (big : K) (s : Cuboid3 K) (ray : Ray3 K) (maxToi : K) : Bool :=
  (s.castLocalRay big ray maxToi true).isSome
/-- default `intersects_ray` for `Cuboid` -/
def Cuboid3.intersectsRay (big : K) (s : Cuboid3 K) (m : Iso3 K) (ray : Ray3 K) (maxToi : K) : Bool :=
  s.intersectsLocalRay big (ray.invTransform m) maxToi
/-- default `intersects_local_ray` for `HalfSpace` (through the default `cast_local_ray`) -/
def HalfSpace3.intersectsLocalRay (s : HalfSpace3 K) (ray : Ray3 K) (maxToi : K) : Bool :=
  ((s.castLocalRayAndGetNormal ray maxToi true).map (·.toi)).isSome
/-- default `intersects_ray` for `HalfSpace` -/
def HalfSpace3.intersectsRay (s : HalfSpace3 K) (m : Iso3 K) (ray : Ray3 K) (maxToi : K) : Bool :=
  s.intersectsLocalRay (ray.invTransform m) maxToi

/-! ## 2-D crate: posed forms of `Ball` and `Cuboid` (default `cast_ray` / `cast_ray_and_get_normal`; the normal forms
`Ball.castRayAndGetNormal2`, `Cuboid2.castRayAndGetNormal` are in `Model2D.lean`) -/

/-- default `RayCast::cast_ray` for the 2-D `Ball` -/
def Ball.castRay2 (s : Ball K) (m : Iso2 K) (ray : Ray2 K) (maxToi : K) (solid : Bool) : Option K :=
  s.castLocalRay2 (ray.invTransform m) maxToi solid
/-- default `RayCast::cast_ray` for the 2-D `Cuboid` -/
def Cuboid2.castRay (big : K) (s : Cuboid2 K) (m : Iso2 K) (ray : Ray2 K) (maxToi : K) (solid : Bool) : Option K :=
  s.castLocalRay big (ray.invTransform m) maxToi solid

end Model
