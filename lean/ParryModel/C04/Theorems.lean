import ParryModel.C04.Theorems1
import ParryModel.C04.Theorems2
import ParryModel.C04.Theorems3
import ParryModel.C04.Theorems4
import ParryModel.C04.Theorems5
import ParryModel.C04.Theorems6
import ParryModel.C04.Theorems7
/-!
# C04 property theorems (umbrella file)

* `Theorems1.lean` — closed-form casts: ball, half-space, 3-D triangle, Aabb / cuboid (time-only and with normals,
  `clip_aabb_line`), 2-D segment, `toi_units`, posed = local ∘ inverse transform.
* `Theorems2.lean` — composite shapes: the BVH pruning test / node weight `SimdAabb::cast_local_ray`, the per-cell step of
  the 3-D heightfield cast (nearer of the two triangles of a cell), soundness of the whole heightfield cast.
* `Theorems3.lean` — `gjk::minkowski_ray_cast` over an abstract simplex (lower-bound / supporting-normal / miss certificates),
  2-D ball, 2-D cuboid / Aabb and 2-D triangle casts, one step of the heightfield grid walk.
* `Theorems4.lean` — composite shapes: best-first BVH ray cast = brute force over the parts (instantiates `C07.bestFirst_optimal`).
* `Theorems5.lean` — completeness of the 3-D heightfield grid walk: the whole cast is the first hit of the whole surface.
* `Theorems7.lean` — 2-D `clip_aabb_line` / Aabb normal cast = the 3-D functions on the embedded problem; transferred theorems.
* `Theorems6.lean` — the boolean forms `intersects_local_ray` / `intersects_ray` (true iff the segment meets the shape).
-/
