import ParryModel.Field
import ParryModel.C04.Model
import Mathlib.Analysis.Real.Sqrt
/-!
# C04 property theorems: closed-form ray casts, for every linearly ordered field and **every non-zero
direction (no unit-length assumption)**.

Specification vocabulary (the part a reader must trust):
* `FirstHit S pt max res` — `res = some t`: `t ∈ [0,max]`, the point `pt t` is in `S` and no earlier parameter
  `s ∈ [0,t)` is; `res = none`: no parameter of `[0,max]` is in `S`.
* `FirstHitU` — the same without an upper bound (`max = +∞`).
* `ExitHit S pt t` — a ray that starts inside `S` leaves it at `t`: all of `[0,t]` is in `S`, nothing after `t` is.
* shapes as sets are the `Mem` predicates of `Shapes.lean`; boundaries are spelled out per shape.
-/
namespace C04
open Model

variable {K : Type} [Field K] [LinearOrder K] [IsStrictOrderedRing K] (sq : K → K)

/-- first parameter of `[0,max]` at which the curve `pt` is in `S` (`none`: there is none) -/
def FirstHit (S : V3 K → Prop) (pt : K → V3 K) (max : K) : Option K → Prop
  | some t => 0 ≤ t ∧ t ≤ max ∧ S (pt t) ∧ ∀ s, 0 ≤ s → s < t → ¬ S (pt s)
  | none => ∀ s, 0 ≤ s → s ≤ max → ¬ S (pt s)

/-- `FirstHit` on the unbounded ray `[0,+∞)` -/
def FirstHitU (S : V3 K → Prop) (pt : K → V3 K) : Option K → Prop
  | some t => 0 ≤ t ∧ S (pt t) ∧ ∀ s, 0 ≤ s → s < t → ¬ S (pt s)
  | none => ∀ s, 0 ≤ s → ¬ S (pt s)

/-- the ray starts in `S` and leaves it for good at parameter `t` -/
def ExitHit (S : V3 K → Prop) (pt : K → V3 K) (t : K) : Prop :=
  0 ≤ t ∧ (∀ s, 0 ≤ s → s ≤ t → S (pt s)) ∧ ∀ s, t < s → ¬ S (pt s)

/-- A first hit is unique: two results satisfying `FirstHit` for the same data coincide. -/
theorem firstHit_unique (S : V3 K → Prop) (pt : K → V3 K) (max : K) (r₁ r₂ : Option K)
    (h₁ : FirstHit S pt max r₁) (h₂ : FirstHit S pt max r₂) : r₁ = r₂ := by
  cases r₁ with
  | none =>
    cases r₂ with
    | none => rfl
    | some t => exact absurd h₂.2.2.1 (h₁ t h₂.1 h₂.2.1)
  | some t₁ =>
    cases r₂ with
    | none => exact absurd h₁.2.2.1 (h₂ t₁ h₁.1 h₁.2.1)
    | some t₂ =>
      obtain ⟨a1, b1, c1, d1⟩ := h₁
      obtain ⟨a2, b2, c2, d2⟩ := h₂
      rcases lt_trichotomy t₁ t₂ with h | h | h
      · exact absurd c1 (d2 t₁ a1 h)
      · rw [h]
      · exact absurd c2 (d1 t₂ a2 h)

/-- **toi is expressed in units of the direction** (generic part): re-parametrising the curve by `s ↦ pt (l·s)`
(i.e. casting along `l·d`), `l > 0`, with `max/l`, has first hit `t/l`. -/
theorem firstHit_scale (S : V3 K → Prop) (pt : K → V3 K) (max l : K) (hl : 0 < l) (r : Option K)
    (h : FirstHit S pt max r) : FirstHit S (fun s => pt (l * s)) (max / l) (r.map (· / l)) := by
  cases r with
  | none =>
    intro s hs hsm
    exact h (l * s) (mul_nonneg hl.le hs) (by rw [le_div_iff₀ hl] at hsm; linarith)
  | some t =>
    obtain ⟨a1, b1, c1, d1⟩ := h
    refine ⟨div_nonneg a1 hl.le, (div_le_div_iff_of_pos_right hl).2 b1, ?_, ?_⟩
    · show S (pt (l * (t / l))); rw [mul_div_cancel₀ _ (ne_of_gt hl)]; exact c1
    · intro s hs hst
      exact d1 (l * s) (mul_nonneg hl.le hs) (by rw [lt_div_iff₀ hl] at hst; linarith)

/-- `Real.sqrt` is a lawful square root: the `LawfulSqrt` hypothesis of the theorems below is satisfiable. -/
theorem real_lawfulSqrt : LawfulSqrt Real.sqrt := ⟨fun x _ => Real.sqrt_nonneg x, fun _ h => Real.mul_self_sqrt h⟩

/-! ## Ball (`ray_toi_with_ball`, `Ball::cast_local_ray*`) -/

private theorem quad_root (a b c w s : K) (hw : w * w = b * b - a * c) :
    a * (a * s * s + 2 * b * s + c) = (a * s + b - w) * (a * s + b + w) := by
  linear_combination (1 : K) * hw

private theorem quad_zero (a b c w t : K) (ha : a ≠ 0) (hw : w * w = b * b - a * c)
    (h : a * t + b - w = 0 ∨ a * t + b + w = 0) : a * t * t + 2 * b * t + c = 0 := by
  have h1 := quad_root a b c w t hw
  have : a * (a * t * t + 2 * b * t + c) = 0 := by
    rw [h1]; rcases h with h | h <;> rw [h] <;> ring
  rcases mul_eq_zero.1 this with h' | h'
  · exact absurd h' ha
  · exact h'

/-- scalar skeleton of `ray_toi_with_ball` (same branches; `w` stands for `sqrt(delta)`) -/
private def ballScalar (a b c w : K) (solid : Bool) : Bool × Option K :=
  if 0 < c ∧ 0 < b then (false, none)
  else if b * b - a * c < 0 then (false, none)
  else if (-b - w) / a ≤ 0 then
    (if solid then (true, some 0) else (true, some ((-b + w) / a)))
  else (false, some ((-b - w) / a))

private theorem ballScalar_spec (a b c w : K) (solid : Bool) (ha : 0 < a)
    (hw0 : 0 ≤ b * b - a * c → 0 ≤ w) (hww : 0 ≤ b * b - a * c → w * w = b * b - a * c) :
    let g := fun s : K => a * s * s + 2 * b * s + c
    let res := ballScalar a b c w solid
    (res.1 = true ↔ c ≤ 0) ∧
    (res.1 = false → match res.2 with
        | some t => 0 < t ∧ g t = 0 ∧ a * t + b ≤ 0 ∧ ∀ s, 0 ≤ s → s < t → 0 < g s
        | none => ∀ s, 0 ≤ s → 0 < g s) ∧
    (res.1 = true → solid = true → res.2 = some 0) ∧
    (res.1 = true → solid = false → ∃ t, res.2 = some t ∧ 0 ≤ t ∧ g t = 0 ∧ 0 ≤ a * t + b ∧
        (∀ s, 0 ≤ s → s ≤ t → g s ≤ 0) ∧ (c < 0 → ∀ s, 0 ≤ s → s < t → g s < 0) ∧ ∀ s, t < s → 0 < g s) := by
  intro g res
  have hgpos : ∀ s, 0 < a * g s → 0 < g s := fun s h => by
    rcases lt_trichotomy 0 (g s) with h' | h' | h'
    · exact h'
    · rw [← h'] at h; simp at h
    · nlinarith
  simp only [res, ballScalar]
  split_ifs with h1 h2 h3 h4
  · -- c > 0, b > 0
    refine ⟨by simp; exact h1.1, fun _ => ?_, by simp, by simp⟩
    intro s hs
    show 0 < a * s * s + 2 * b * s + c
    nlinarith [mul_nonneg (mul_nonneg ha.le hs) hs, mul_nonneg h1.2.le hs, h1.1]
  · -- delta < 0
    have hc : 0 < c := by nlinarith [mul_self_nonneg b]
    refine ⟨by simp; exact hc, fun _ => ?_, by simp, by simp⟩
    intro s hs
    apply hgpos
    show 0 < a * (a * s * s + 2 * b * s + c)
    nlinarith [mul_self_nonneg (a * s + b)]
  · -- inside, solid
    push Not at h2
    have w0 := hw0 h2; have ww := hww h2
    have hbw : 0 ≤ b + w := by
      rw [div_le_iff₀ ha] at h3; linarith
    have hc : c ≤ 0 := by
      by_contra hc; push Not at hc
      have hb : b ≤ 0 := by by_contra hb; push Not at hb; exact h1 ⟨hc, hb⟩
      nlinarith [mul_pos ha hc]
    refine ⟨by simp; exact hc, by simp, by simp, by simp [h4]⟩
  · -- inside, not solid
    push Not at h2
    have w0 := hw0 h2; have ww := hww h2
    have hbw : 0 ≤ b + w := by
      rw [div_le_iff₀ ha] at h3; linarith
    have hc : c ≤ 0 := by
      by_contra hc; push Not at hc
      have hb : b ≤ 0 := by by_contra hb; push Not at hb; exact h1 ⟨hc, hb⟩
      nlinarith [mul_pos ha hc]
    have hwb : b ≤ w := by nlinarith [mul_nonneg ha.le (neg_nonneg.2 hc)]
    refine ⟨by simp; exact hc, by simp, by simp [h4], fun _ _ => ⟨_, rfl, ?_, ?_, ?_, ?_, ?_, ?_⟩⟩
    · exact div_nonneg (by linarith) ha.le
    · exact quad_zero a b c w _ ha.ne' ww (Or.inl (by rw [mul_div_cancel₀ _ ha.ne']; ring))
    · rw [mul_div_cancel₀ _ ha.ne']; linarith
    · intro s hs hst
      rw [le_div_iff₀ ha] at hst
      have h := quad_root a b c w s ww
      have : a * g s ≤ 0 := by
        rw [show g s = a * s * s + 2 * b * s + c from rfl, h]
        apply mul_nonpos_of_nonpos_of_nonneg <;> nlinarith [mul_nonneg ha.le hs]
      by_contra hg; push Not at hg
      nlinarith [mul_pos ha hg]
    · intro hc' s hs hst
      rw [lt_div_iff₀ ha] at hst
      have hbw' : 0 < b + w := by nlinarith [mul_pos ha (neg_pos.2 hc')]
      have h := quad_root a b c w s ww
      have : a * g s < 0 := by
        rw [show g s = a * s * s + 2 * b * s + c from rfl, h]
        apply mul_neg_of_neg_of_pos <;> nlinarith [mul_nonneg ha.le hs]
      by_contra hg; push Not at hg
      nlinarith [mul_nonneg ha.le hg]
    · intro s hst
      rw [div_lt_iff₀ ha] at hst
      apply hgpos
      rw [show g s = a * s * s + 2 * b * s + c from rfl, quad_root a b c w s ww]
      apply mul_pos <;> nlinarith
  · -- outside, hit
    push Not at h2 h3
    have w0 := hw0 h2; have ww := hww h2
    have hc0 : 0 < c := by
      by_contra hc; push Not at hc
      rw [lt_div_iff₀ ha] at h3
      nlinarith [mul_nonneg ha.le (neg_nonneg.2 hc)]
    refine ⟨by simp; exact hc0, fun _ => ⟨h3, ?_, ?_, ?_⟩, by simp, by simp⟩
    · exact quad_zero a b c w _ ha.ne' ww (Or.inr (by rw [mul_div_cancel₀ _ ha.ne']; ring))
    · rw [mul_div_cancel₀ _ ha.ne']; linarith
    · intro s hs hst
      rw [lt_div_iff₀ ha] at hst
      apply hgpos
      rw [show g s = a * s * s + 2 * b * s + c from rfl, quad_root a b c w s ww]
      apply mul_pos_of_neg_of_neg <;> nlinarith

/-- the ball of radius `r` centred at `c`, as a set: `|p − c|² ≤ r²` (`Ball.Mem3` of `Shapes.lean`, translated) -/
def BallAt (c : V3 K) (r : K) (p : V3 K) : Prop :=
  letI := fieldNum K sq
  (Ball.mk r).Mem3 (p.sub c)
/-- the sphere (boundary of the ball): `|p − c|² = r²` -/
def SphereAt (c : V3 K) (r : K) (p : V3 K) : Prop :=
  letI := fieldNum K sq
  (p.sub c).normSq = r * r
/-- the curve `s ↦ o + s·d` of a ray (model's `Ray::point_at`) -/
def rayPt (ray : Ray3 K) : K → V3 K := fun s =>
  letI := fieldNum K sq
  ray.pointAt s

private theorem ball_poly (c : V3 K) (ray : Ray3 K) (r s : K) :
    letI := fieldNum K sq
    ((rayPt sq ray s).sub c).normSq - r * r
      = ray.d.normSq * s * s + 2 * ((ray.o.sub c).dot ray.d) * s + ((ray.o.sub c).normSq - r * r) := by
  simp only [rayPt, Ray3.pointAt, V3.add, V3.sub, V3.smul, V3.normSq, V3.dot]; ring

private theorem rayToiWithBall_eq (c : V3 K) (r : K) (ray : Ray3 K) (solid : Bool) :
    letI := fieldNum K sq
    0 < ray.d.normSq →
    rayToiWithBall c r ray solid =
      ballScalar ray.d.normSq ((ray.o.sub c).dot ray.d) ((ray.o.sub c).normSq - r * r)
        (sq (((ray.o.sub c).dot ray.d) * ((ray.o.sub c).dot ray.d) - ray.d.normSq * ((ray.o.sub c).normSq - r * r))) solid := by
  intro ha
  have hne : @neq K (fieldNum K sq) (@V3.normSq K (fieldNum K sq) ray.d) 0 = false := by
    simp only [neq, Bool.and_eq_false_iff, decide_eq_false_iff_not, not_le]
    exact Or.inl ha
  simp only [rayToiWithBall, ballScalar, hne]
  rfl

/-- all four facts about `ray_toi_with_ball` at once, in terms of `g(s) = |o + s·d − c|² − r²` -/
private theorem ball_core (hs : LawfulSqrt sq) (c : V3 K) (r : K) (ray : Ray3 K) (solid : Bool) :
    letI := fieldNum K sq
    0 < ray.d.normSq →
    let g := fun s : K => ((rayPt sq ray s).sub c).normSq - r * r
    let a := ray.d.normSq
    let b := (ray.o.sub c).dot ray.d
    let res := rayToiWithBall c r ray solid
    (res.1 = true ↔ g 0 ≤ 0) ∧
    (res.1 = false → match res.2 with
        | some t => 0 < t ∧ g t = 0 ∧ a * t + b ≤ 0 ∧ ∀ s, 0 ≤ s → s < t → 0 < g s
        | none => ∀ s, 0 ≤ s → 0 < g s) ∧
    (res.1 = true → solid = true → res.2 = some 0) ∧
    (res.1 = true → solid = false → ∃ t, res.2 = some t ∧ 0 ≤ t ∧ g t = 0 ∧ 0 ≤ a * t + b ∧
        (∀ s, 0 ≤ s → s ≤ t → g s ≤ 0) ∧ (g 0 < 0 → ∀ s, 0 ≤ s → s < t → g s < 0) ∧ ∀ s, t < s → 0 < g s) := by
  intro ha
  have hp := ball_poly sq c ray r
  have := ballScalar_spec (@V3.normSq K (fieldNum K sq) ray.d) (@V3.dot K (fieldNum K sq) (@V3.sub K (fieldNum K sq) ray.o c) ray.d)
    (@V3.normSq K (fieldNum K sq) (@V3.sub K (fieldNum K sq) ray.o c) - r * r) (sq _) solid ha (hs.nonneg _) (hs.sq_mul _)
  simp only [rayToiWithBall_eq sq c r ray solid ha, hp, mul_zero, zero_add]
  exact this

private theorem ballAt_iff (c : V3 K) (r : K) (p : V3 K) :
    letI := fieldNum K sq
    BallAt sq c r p ↔ (p.sub c).normSq - r * r ≤ 0 := by
  unfold BallAt Ball.Mem3; exact sub_nonpos.symm
private theorem sphereAt_iff (c : V3 K) (r : K) (p : V3 K) :
    letI := fieldNum K sq
    SphereAt sq c r p ↔ (p.sub c).normSq - r * r = 0 := by
  unfold SphereAt; exact sub_eq_zero.symm
private theorem rayPt_zero (ray : Ray3 K) : rayPt sq ray 0 = ray.o := by
  simp [rayPt, Ray3.pointAt, V3.add, V3.smul]

/-- **Ball, `inside` flag.** For every non-zero direction, the flag returned by `ray_toi_with_ball` is exactly
membership of the ray origin in the (closed) ball. -/
theorem ball_inside_flag_iff (hs : LawfulSqrt sq) (c : V3 K) (r : K) (ray : Ray3 K) (solid : Bool) :
    letI := fieldNum K sq
    0 < ray.d.normSq →
    ((rayToiWithBall c r ray solid).1 = true ↔ BallAt sq c r ray.o) := by
  intro ha
  have h := (ball_core sq hs c r ray solid ha).1
  rw [ballAt_iff]; simpa only [rayPt_zero] using h

/-- **Ball, origin outside (either `solid` flag), non-unit direction.** When the origin is outside the ball, the result is the
first hit of the ball on `[0,∞)`: `None` ⇒ no point of the ray is in the ball; `Some t` ⇒ `t > 0`, `o + t·d` is on the
sphere and no earlier parameter is in the ball. -/
theorem ball_outside_firstHit (hs : LawfulSqrt sq) (c : V3 K) (r : K) (ray : Ray3 K) (solid : Bool) :
    letI := fieldNum K sq
    0 < ray.d.normSq →
    ¬ BallAt sq c r ray.o →
    FirstHitU (BallAt sq c r) (rayPt sq ray) (rayToiWithBall c r ray solid).2 ∧
    ∀ t, (rayToiWithBall c r ray solid).2 = some t → 0 < t ∧ SphereAt sq c r (rayPt sq ray t) := by
  intro ha hout
  have hf : (@rayToiWithBall K (fieldNum K sq) c r ray solid).1 = false := by
    cases h : (@rayToiWithBall K (fieldNum K sq) c r ray solid).1 with
    | false => rfl
    | true => exact absurd ((ball_inside_flag_iff sq hs c r ray solid ha).1 h) hout
  have h := (ball_core sq hs c r ray solid ha).2.1 hf
  revert h
  cases (@rayToiWithBall K (fieldNum K sq) c r ray solid).2 with
  | none =>
    intro h
    exact ⟨fun s hs' hm => absurd ((ballAt_iff sq c r _).1 hm) (not_le.2 (h s hs')), fun t ht => by cases ht⟩
  | some t =>
    intro h
    obtain ⟨h1, h2, _, h4⟩ := h
    refine ⟨⟨h1.le, (ballAt_iff sq c r _).2 (le_of_eq h2), fun s hs' hst hm => absurd ((ballAt_iff sq c r _).1 hm) (not_le.2 (h4 s hs' hst))⟩, ?_⟩
    intro t' ht'; cases ht'
    exact ⟨h1, (sphereAt_iff sq c r _).2 h2⟩

/-- **Ball, `solid = true`.** The result is the first hit of the solid ball on `[0,∞)`; in particular a ray that starts
in the ball reports `toi = 0`. -/
theorem ball_solid_firstHit (hs : LawfulSqrt sq) (c : V3 K) (r : K) (ray : Ray3 K) :
    letI := fieldNum K sq
    0 < ray.d.normSq →
    FirstHitU (BallAt sq c r) (rayPt sq ray) (rayToiWithBall c r ray true).2 := by
  intro ha
  cases hfl : (@rayToiWithBall K (fieldNum K sq) c r ray true).1 with
  | false => exact (ball_outside_firstHit sq hs c r ray true ha (fun hm => by have := (ball_inside_flag_iff sq hs c r ray true ha).2 hm; rw [hfl] at this; cases this)).1
  | true =>
    have h := (ball_core sq hs c r ray true ha).2.2.1 hfl rfl
    rw [h]
    refine ⟨le_refl _, ?_, fun s h1 h2 => absurd h2 (not_lt.2 h1)⟩
    rw [rayPt_zero]; exact (ball_inside_flag_iff sq hs c r ray true ha).1 hfl

/-- **Ball, `solid = false`, origin in the ball.** The reported time is the *exit*: the hit point is on the sphere, every
parameter of `[0,t]` is in the ball, every later one is outside; if the origin is strictly inside, no parameter before
`t` is on the sphere (so `t` is also the first hit of the hollow sphere). -/
theorem ball_nonsolid_exit (hs : LawfulSqrt sq) (c : V3 K) (r : K) (ray : Ray3 K) :
    letI := fieldNum K sq
    0 < ray.d.normSq →
    BallAt sq c r ray.o →
    ∃ t, (rayToiWithBall c r ray false).2 = some t ∧ SphereAt sq c r (rayPt sq ray t) ∧
      ExitHit (BallAt sq c r) (rayPt sq ray) t ∧
      (¬ SphereAt sq c r ray.o → ∀ s, 0 ≤ s → s < t → ¬ SphereAt sq c r (rayPt sq ray s)) := by
  intro ha hin
  have hfl := (ball_inside_flag_iff sq hs c r ray false ha).2 hin
  obtain ⟨t, h1, h2, h3, _, h5, h6, h7⟩ := (ball_core sq hs c r ray false ha).2.2.2 hfl rfl
  refine ⟨t, h1, (sphereAt_iff sq c r _).2 h3, ⟨h2, fun s a b => (ballAt_iff sq c r _).2 (h5 s a b),
    fun s a hm => absurd ((ballAt_iff sq c r _).1 hm) (not_le.2 (h7 s a))⟩, ?_⟩
  intro hns s a b hsp
  have h0 : @V3.normSq K (fieldNum K sq) (@V3.sub K (fieldNum K sq) (rayPt sq ray 0) c) - r * r < 0 := by
    rw [rayPt_zero]
    rcases lt_or_eq_of_le ((ballAt_iff sq c r _).1 hin) with h | h
    · exact h
    · exact absurd ((sphereAt_iff sq c r _).2 h) hns
  exact absurd ((sphereAt_iff sq c r _).1 hsp) (ne_of_lt (h6 h0 s a b))


/-- non-vacuity: a non-unit direction (`|d| = 2`), an origin outside and an origin inside the unit ball, over `ℝ` -/
example : letI := fieldNum ℝ Real.sqrt
    (0:ℝ) < (V3.mk 2 0 0 : V3 ℝ).normSq ∧ ¬ BallAt Real.sqrt ⟨0,0,0⟩ 1 (⟨-3,0,0⟩ : V3 ℝ) ∧ BallAt Real.sqrt ⟨0,0,0⟩ 1 (⟨1/2,0,0⟩ : V3 ℝ)
      ∧ ¬ SphereAt Real.sqrt ⟨0,0,0⟩ 1 (⟨1/2,0,0⟩ : V3 ℝ) := by
  simp only [BallAt, SphereAt, Ball.Mem3, V3.normSq, V3.dot, V3.sub]; norm_num

end C04
