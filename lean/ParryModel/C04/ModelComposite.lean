import ParryModel.C04.Model
/-!
# C04 model, part 2: the pieces of the composite-shape ray casts that are closed-form.

* `simdAabbCastLocalRay` — one lane of `SimdAabb::cast_local_ray` (`src/bounding_volume/simd_aabb.rs`), the pruning test
  and node weight of the best-first BVH ray visitors of TriMesh / Polyline / Compound
  (`src/query/ray/ray_composite_shape.rs`).
* `hfCellCast` — the per-cell step of the 3-D `HeightField` cast (`src/query/ray/ray_heightfield.rs`): both triangles of
  the cell are cast and the nearer hit is kept.
* `HeightField3.castLocalRayAndGetNormal` — the whole 3-D heightfield cast: clip against the bounding box, locate the
  start cell, per-cell step, grid walk (DDA) with the code's own exits; fuel = `nrows + ncols` (each iteration of the
  Rust `loop` returns, breaks, or moves one cell further in the direction of the ray, so it runs at most
  `(nrows − 1) + (ncols − 1) + 1` times).  **Corrected behaviour** on two points, see the docstrings of
  `HeightField3.castLocalRayAndGetNormal` and `HeightField3.nextCell`.

Literal transliteration (same branch order, comparison strictness, floating-point operation order).
-/
namespace Model
variable {K : Type} [Num K]

/-! ## `SimdAabb::cast_local_ray`, one lane -/

/-- loop state of `SimdAabb::cast_local_ray`: the lane's `hit` bit, `tmin`, `tmax` -/
structure SimdSt (K : Type) where
  hit : Bool
  tmin : K
  tmax : K

/-- one iteration (axis data `mins[i], maxs[i], origin[i], dir[i]`).  `simd_max(a, b) = if a >= b {a} else {b}`,
`simd_min(a, b) = if a <= b {a} else {b}`, `x.select(c, y) = if c {x} else {y}`; `big` is `Real::MAX`.
Unlike `Aabb::cast_local_ray` there is no early exit: `tmin`/`tmax` keep being updated after the lane has missed. -/
def simdSlabStep (big mn mx o d : K) (st : SimdSt K) : SimdSt K :=
  let isNotZero : Bool := !(neq d 0)
  let isZeroTest : Bool := decide (mn ≤ o) && decide (o ≤ mx)
  let denom := 1 / d
  let n0 := if isNotZero then (mn - o) * denom else -big
  let f0 := if isNotZero then (mx - o) * denom else big
  let gt : Bool := decide (f0 < n0)
  let near := if gt then f0 else n0
  let far := if gt then n0 else f0
  let tmin := if near ≤ st.tmin then st.tmin else near
  let tmax := if st.tmax ≤ far then st.tmax else far
  let isNotZeroTest : Bool := decide (tmin ≤ tmax)
  ⟨st.hit && (if isNotZero then isNotZeroTest else isZeroTest), tmin, tmax⟩

/-- `SimdAabb::cast_local_ray(ray, max_time_of_impact) -> (hit, tmin)`, one lane -/
def simdAabbCastLocalRay (big : K) (b : Aabb K) (ray : Ray3 K) (maxToi : K) : Bool × K :=
  let s0 : SimdSt K := ⟨true, 0, maxToi⟩
  let s1 := simdSlabStep big b.mins.x b.maxs.x ray.o.x ray.d.x s0
  let s2 := simdSlabStep big b.mins.y b.maxs.y ray.o.y ray.d.y s1
  let s3 := simdSlabStep big b.mins.z b.maxs.z ray.o.z ray.d.z s2
  (s3.hit, s3.tmin)

/-! ## 3-D heightfield: the per-cell step -/

/-- the `match (inter1, inter2)` of `HeightField::cast_local_ray_and_get_normal` (3-D): the two triangles of the cell have
been cast; `some (left, hit)` is the returned intersection and which triangle it came from, `none` = go on to the next cell.
With two hits the STRICTLY nearer first one wins, otherwise the second. -/
def hfCellPick (i1 i2 : Option (Hit3 K)) : Option (Bool × Hit3 K) :=
  match i1, i2 with
  | some h1, some h2 => if h1.toi < h2.toi then some (true, h1) else some (false, h2)
  | some h1, none => some (true, h1)
  | none, some h2 => some (false, h2)
  | none, none => none

/-- the per-cell step: cast both (optional) triangles of the cell with the full ray and `max_toi`, keep the nearer -/
def hfCellCast (t1 t2 : Option (Triangle3 K)) (ray : Ray3 K) (maxToi : K) (solid : Bool) : Option (Bool × Hit3 K) :=
  hfCellPick (t1.bind fun t => t.castLocalRayAndGetNormal ray maxToi solid)
             (t2.bind fun t => t.castLocalRayAndGetNormal ray maxToi solid)

/-! ## 3-D heightfield (`src/shape/heightfield3.rs`, `src/query/ray/ray_heightfield.rs`) -/

/-- `HeightField` (3-D): `heights` is an `nr × nc` matrix stored column-major (`hs[i + j·nr]` is row `i` — along `z` —,
column `j` — along `x`), `sc` the scale, `st` the list of `set_cell_status(i, j, bits)` calls (bit 1 zig-zag, bit 2 left
triangle removed, bit 4 right triangle removed; the last call for a cell wins). -/
structure HeightField3 (K : Type) where
  nr : Nat
  nc : Nat
  hs : Array K
  sc : V3 K
  st : List (Nat × Nat × Nat)

namespace HeightField3

def status (h : HeightField3 K) (i j : Nat) : Nat :=
  h.st.foldl (fun acc (e : Nat × Nat × Nat) => if e.1 = i ∧ e.2.1 = j then e.2.2 else acc) 0
def height (h : HeightField3 K) (i j : Nat) : K := h.hs.getD (i + j * h.nr) 0

/-- nalgebra `Matrix::max()`: fold from the first element with `simd_max(a, b) = if a >= b {a} else {b}` -/
def maxH (h : HeightField3 K) : K :=
  match h.hs.toList with
  | [] => 0
  | x :: xs => xs.foldl (fun a b => if b ≤ a then a else b) x
/-- nalgebra `Matrix::min()`: `simd_min(a, b) = if a <= b {a} else {b}` -/
def minH (h : HeightField3 K) : K :=
  match h.hs.toList with
  | [] => 0
  | x :: xs => xs.foldl (fun a b => if a ≤ b then a else b) x

/-- the bounding box computed by `HeightField::with_flags` -/
def aabb (h : HeightField3 K) : Aabb K :=
  let hx := h.sc.x * lit 1 2
  let hz := h.sc.z * lit 1 2
  ⟨⟨-hx, h.minH * h.sc.y, -hz⟩, ⟨hx, h.maxH * h.sc.y, hz⟩⟩

/-- `unit_cell_width = 1.0 / (ncols as Real - 1.0)` -/
def ucw (h : HeightField3 K) : K := 1 / (lit (h.nc : Int) - 1)
/-- `unit_cell_height = 1.0 / (nrows as Real - 1.0)` -/
def uch (h : HeightField3 K) : K := 1 / (lit (h.nr : Int) - 1)
/-- `x_at(j) = (-0.5 + unit_cell_width * j) * scale.x` -/
def xAt (h : HeightField3 K) (j : Nat) : K := (-(lit 1 2) + h.ucw * lit (j : Int)) * h.sc.x
/-- `z_at(i) = (-0.5 + unit_cell_height * i) * scale.z` -/
def zAt (h : HeightField3 K) (i : Nat) : K := (-(lit 1 2) + h.uch * lit (i : Int)) * h.sc.z

/-- `quantize_floor(val, cell_size, num_cells) = clamp(((val + 0.5) / cell_size).floor(), 0, num_cells − 1) as usize`.
For an integer `k`, `floor x ≥ k ⇔ x ≥ k`, so the clamped floor is the number of `k ∈ {1, …, num_cells − 1}` with `k ≤ x`
(`NaN` gives 0 on both sides). -/
def quantizeFloor (val cellSize : K) (numCells : Nat) : Nat :=
  let x := (val + lit 1 2) / cellSize
  ((List.range numCells).filter fun (k : Nat) => decide (1 ≤ k) && decide (lit ((k : Nat) : Int) ≤ x)).length

/-- `closest_cell_at_point(pt) -> (i, j)` -/
def closestCell (h : HeightField3 K) (pt : V3 K) : Nat × Nat :=
  let sx := pt.x / h.sc.x
  let sz := pt.z / h.sc.z
  (quantizeFloor sz h.uch (h.nr - 1), quantizeFloor sx h.ucw (h.nc - 1))

/-- `triangles_at(i, j)` -/
def trianglesAt (h : HeightField3 K) (i j : Nat) : Option (Triangle3 K) × Option (Triangle3 K) :=
  if h.nr - 1 ≤ i ∨ h.nc - 1 ≤ j then (none, none) else
  let bits := h.status i j
  let zig : Bool := bits % 2 = 1
  let leftRemoved : Bool := (bits / 2) % 2 = 1
  let rightRemoved : Bool := (bits / 4) % 2 = 1
  if leftRemoved && rightRemoved then (none, none) else
  let z0 := -(lit 1 2) + h.uch * lit (i : Int)
  let z1 := -(lit 1 2) + h.uch * lit ((i + 1 : Nat) : Int)
  let x0 := -(lit 1 2) + h.ucw * lit (j : Int)
  let x1 := -(lit 1 2) + h.ucw * lit ((j + 1 : Nat) : Int)
  let p00 : V3 K := ⟨x0 * h.sc.x, h.height i j * h.sc.y, z0 * h.sc.z⟩
  let p10 : V3 K := ⟨x0 * h.sc.x, h.height (i + 1) j * h.sc.y, z1 * h.sc.z⟩
  let p01 : V3 K := ⟨x1 * h.sc.x, h.height i (j + 1) * h.sc.y, z0 * h.sc.z⟩
  let p11 : V3 K := ⟨x1 * h.sc.x, h.height (i + 1) (j + 1) * h.sc.y, z1 * h.sc.z⟩
  if zig then
    (if leftRemoved then none else some ⟨p00, p10, p11⟩, if rightRemoved then none else some ⟨p00, p11, p01⟩)
  else
    (if leftRemoved then none else some ⟨p00, p10, p01⟩, if rightRemoved then none else some ⟨p10, p11, p01⟩)

/-- `convert_triangle_feature_id(i, j, left, FeatureId::Face(fid))` -/
def faceId (h : HeightField3 K) (i j : Nat) (left : Bool) (fid : Nat) : Nat :=
  let numTriangles := (h.nr - 1) * (h.nc - 1) * 2
  let tid := j * (h.nr - 1) + i
  let tid := if left then tid else tid + numTriangles / 2
  if fid = 0 then tid else tid + numTriangles

/-- "Find the next cell to cast the ray on": the tail of one iteration of the `loop` of the 3-D cast, in cell `(ci, cj)`;
`none` = one of the `break`s.  `maxT = min(far clip parameter, max_toi)`, `big = Real::MAX`.
**Corrected behaviour** (fixes/C04-heightfield-ray-walk-negative-toi.diff): the times `toi_x`, `toi_z` at which the ray
reaches the next cell boundary are clamped at 0.  On the pinned tree a ray whose origin is within rounding of a cell boundary
(start cell = the cell beyond the boundary) gets a slightly negative `toi_x`, fails the `toi_x >= 0.0` test and then never
steps along `x` (it walks along `z` or stops): hits are missed. -/
def nextCell (big : K) (h : HeightField3 K) (ray : Ray3 K) (maxT : K) (ci cj : Nat) : Option (Nat × Nat) :=
  let tx : K × Bool :=
    if 0 < ray.d.x then ((h.xAt (cj + 1) - ray.o.x) / ray.d.x, true)
    else if ray.d.x < 0 then ((h.xAt cj - ray.o.x) / ray.d.x, false)
    else (big, false)
  let tz : K × Bool :=
    if 0 < ray.d.z then ((h.zAt (ci + 1) - ray.o.z) / ray.d.z, true)
    else if ray.d.z < 0 then ((h.zAt ci - ray.o.z) / ray.d.z, false)
    else (big, false)
  let toiX := nmax tx.1 0
  let toiZ := nmax tz.1 0
  if maxT < toiX ∧ maxT < toiZ then none else
  let next : Option (Nat × Nat) :=
    if 0 ≤ toiX ∧ toiX < toiZ then
      (if tx.2 then some (ci, cj + 1) else if 0 < cj then some (ci, cj - 1) else none)
    else if 0 ≤ toiZ then
      (if tz.2 then some (ci + 1, cj) else if 0 < ci then some (ci - 1, cj) else none)
    else none
  match next with
  | none => none
  | some (ni, nj) => if h.nr - 1 ≤ ni ∨ h.nc - 1 ≤ nj then none else some (ni, nj)

/-- the `loop` of the 3-D cast, started in cell `(ci, cj)`: cast the two triangles of the cell (`hfCellCast`), return the
nearer hit with its feature id converted, otherwise go on to `nextCell`. -/
def walk (big : K) (h : HeightField3 K) (ray : Ray3 K) (maxToi : K) (solid : Bool) (maxT : K) :
    Nat → Nat × Nat → Option (Hit3 K)
  | 0, _ => none
  | fuel + 1, (ci, cj) =>
    match hfCellCast (h.trianglesAt ci cj).1 (h.trianglesAt ci cj).2 ray maxToi solid with
    | some (left, hit) => some { hit with fkind := 0, fidx := h.faceId ci cj left hit.fidx }
    | none =>
      match h.nextCell big ray maxT ci cj with
      | none => none
      | some c => walk big h ray maxToi solid maxT fuel c

/-- `HeightField::cast_local_ray_and_get_normal` (3-D).
**Corrected behaviour** (fixes/C04-heightfield-ray-start-cell.diff): the start cell is the cell closest to the point where
the ray enters the bounding box (`closest_cell_at_point`, indices clamped).  On the pinned tree `cell_at_point` returns `None`
when rounding puts that point marginally outside the box — about every second ray that enters through a side face — and the
fallback picks the corner cell given by the signs of the ray ORIGIN, which is in general not the entered cell: the walk
starts in the wrong place and the hit is missed. -/
def castLocalRayAndGetNormal (big : K) (h : HeightField3 K) (ray : Ray3 K) (maxToi : K) (solid : Bool) : Option (Hit3 K) :=
  match clipAabbLine big h.aabb ray.o ray.d with
  | .none => none
  | .some near far =>
    -- `clip_ray_parameters`: `if t1 < 0 { None } else { Some((t0.max(0.0), t1)) }`
    if far.t < 0 then none else
    let minT := nmax near.t 0
    let maxT := nmin far.t maxToi
    walk big h ray maxToi solid maxT (h.nr + h.nc) (h.closestCell (ray.pointAt minT))

/-- default `RayCast::cast_ray_and_get_normal` specialised to the heightfield -/
def castRayAndGetNormal (big : K) (h : HeightField3 K) (m : Iso3 K) (ray : Ray3 K) (maxToi : K) (solid : Bool) : Option (Hit3 K) :=
  (h.castLocalRayAndGetNormal big (ray.invTransform m) maxToi solid).map (·.transformBy m)

end HeightField3

end Model
