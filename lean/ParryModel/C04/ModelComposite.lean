import ParryModel.C04.Model
/-!
# C04 model, part 2: the pieces of the composite-shape ray casts that are closed-form.

* `simdAabbCastLocalRay` — one lane of `SimdAabb::cast_local_ray` (`src/bounding_volume/simd_aabb.rs`), the pruning test
  and node weight of the best-first BVH ray visitors of TriMesh / Polyline / Compound
  (`src/query/ray/ray_composite_shape.rs`).
* `hfCellCast` — the per-cell step of the 3-D `HeightField` cast (`src/query/ray/ray_heightfield.rs`): both triangles of
  the cell are cast and the nearer hit is kept.
* `HeightField3.castLocalRayAndGetNormal` — the whole 3-D heightfield cast: clip against the bounding box, locate the
  start cell, per-cell step, grid walk (DDA) with the code's own exits; fuel = number of cells + 2 (each iteration of the
  Rust `loop` moves to a new cell of a monotone walk or breaks).

Literal transliteration (same branch order, comparison strictness, floating-point operation order).
-/
namespace Model
variable {K : Type} [Num K]

/-! ## `SimdAabb::cast_local_ray`, one lane -/

/-- loop state of `SimdAabb::cast_local_ray`: the lane's `hit` bit, `tmin`, `tmax` -/
structure SimdSt (K : Type) where
  hit : Bool
  tmin : K
  tmax : K

/-- one iteration (axis data `mins[i], maxs[i], origin[i], dir[i]`).  `simd_max(a, b) = if a >= b {a} else {b}`,
`simd_min(a, b) = if a <= b {a} else {b}`, `x.select(c, y) = if c {x} else {y}`; `big` is `Real::MAX`.
Unlike `Aabb::cast_local_ray` there is no early exit: `tmin`/`tmax` keep being updated after the lane has missed. -/
def simdSlabStep (big mn mx o d : K) (st : SimdSt K) : SimdSt K :=
  let isNotZero : Bool := !(neq d 0)
  let isZeroTest : Bool := decide (mn ≤ o) && decide (o ≤ mx)
  let denom := 1 / d
  let n0 := if isNotZero then (mn - o) * denom else -big
  let f0 := if isNotZero then (mx - o) * denom else big
  let gt : Bool := decide (f0 < n0)
  let near := if gt then f0 else n0
  let far := if gt then n0 else f0
  let tmin := if near ≤ st.tmin then st.tmin else near
  let tmax := if st.tmax ≤ far then st.tmax else far
  let isNotZeroTest : Bool := decide (tmin ≤ tmax)
  ⟨st.hit && (if isNotZero then isNotZeroTest else isZeroTest), tmin, tmax⟩

/-- `SimdAabb::cast_local_ray(ray, max_time_of_impact) -> (hit, tmin)`, one lane -/
def simdAabbCastLocalRay (big : K) (b : Aabb K) (ray : Ray3 K) (maxToi : K) : Bool × K :=
  let s0 : SimdSt K := ⟨true, 0, maxToi⟩
  let s1 := simdSlabStep big b.mins.x b.maxs.x ray.o.x ray.d.x s0
  let s2 := simdSlabStep big b.mins.y b.maxs.y ray.o.y ray.d.y s1
  let s3 := simdSlabStep big b.mins.z b.maxs.z ray.o.z ray.d.z s2
  (s3.hit, s3.tmin)

/-! ## 3-D heightfield: the per-cell step -/

/-- the `match (inter1, inter2)` of `HeightField::cast_local_ray_and_get_normal` (3-D): the two triangles of the cell have
been cast; `some (left, hit)` is the returned intersection and which triangle it came from, `none` = go on to the next cell.
With two hits the STRICTLY nearer first one wins, otherwise the second. -/
def hfCellPick (i1 i2 : Option (Hit3 K)) : Option (Bool × Hit3 K) :=
  match i1, i2 with
  | some h1, some h2 => if h1.toi < h2.toi then some (true, h1) else some (false, h2)
  | some h1, none => some (true, h1)
  | none, some h2 => some (false, h2)
  | none, none => none

/-- the per-cell step: cast both (optional) triangles of the cell with the full ray and `max_toi`, keep the nearer -/
def hfCellCast (t1 t2 : Option (Triangle3 K)) (ray : Ray3 K) (maxToi : K) (solid : Bool) : Option (Bool × Hit3 K) :=
  hfCellPick (t1.bind fun t => t.castLocalRayAndGetNormal ray maxToi solid)
             (t2.bind fun t => t.castLocalRayAndGetNormal ray maxToi solid)

end Model
