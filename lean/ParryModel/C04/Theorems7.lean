import ParryModel.C04.Theorems3
import ParryModel.C04.Theorems6
/-!
# C04 property theorems, part 7: the 2-D `clip_aabb_line` / `Aabb::cast_local_ray_and_get_normal` (normals)

The 2-D functions are EQUAL to the 3-D models on the embedded problem (rectangle thickened to the slab `z ∈ [-1, 1]`, ray in
the plane `z = 0`): parameters, side codes, normals (`z = 0`) and feature ids — `clip2_eq_embed`,
`aabb2_normalCast_eq_embed`.  The 3-D theorems are transferred: first hit (solid), and for an origin outside the rectangle
the reported normal is the outward unit normal `∓e_i` of an edge line through the hit point with the ray moving against it
(or the code's `-dir/|dir|` at a corner tie).  `Cuboid::cast_local_ray_and_get_normal` (2-D) is by definition the Aabb form
on `[-he, he]`, so the statements apply to it verbatim.
-/
namespace C04
open Model
variable {K : Type} [Field K] [LinearOrder K] [IsStrictOrderedRing K] (sq : K → K)

/-! ## 2-D `clip_aabb_line` / `ray_aabb` with normals = the 3-D functions on the embedded problem -/

/-- the rectangle thickened to the slab `z ∈ [-1, 1]` (the embedded ray has `z = 0`, `d.z = 0`) -/
def embAabbT (b : RcAabb2 K) : Aabb K := ⟨⟨b.mins.x, b.mins.y, -1⟩, ⟨b.maxs.x, b.maxs.y, 1⟩⟩
def embEnd (e : ClipEnd2 K) : ClipEnd K := ⟨e.t, emb3 e.n, e.side⟩
def embHit2 (h : Hit2 K) : Hit3 K := { toi := h.toi, n := emb3 h.n, fkind := h.fkind, fidx := h.fidx }

private theorem clipStep_sides (i : Nat) (mn mx o d : K) (st s' : ClipSt K) :
    letI := fieldNum K sq
    clipStep i mn mx o d st = some s' →
    (s'.nearSide = st.nearSide ∨ s'.nearSide = (i : Int) + 1 ∨ s'.nearSide = -((i : Int) + 1)) ∧
    (s'.farSide = st.farSide ∨ s'.farSide = (i : Int) + 1 ∨ s'.farSide = -((i : Int) + 1)) := by
  simp only [clipStep]
  split_ifs <;> intro h <;> simp only [Option.some.injEq] at h <;> subst h <;> simp

private theorem clipStep_flat (i : Nat) (st : ClipSt K) :
    letI := fieldNum K sq
    clipStep i (-1 : K) 1 0 0 st = some st := by
  simp [clipStep, neq]

private theorem emb_normalize_neg (d : V2 K) :
    letI := fieldNum K sq
    emb3 (d.normalize.neg) = (emb3 d).normalize.neg := by
  simp only [emb3, V2.normalize, V3.normalize, V2.sdiv, V3.sdiv, V2.norm, V3.norm, V2.normSq, V3.normSq, V2.dot, V3.dot,
    V2.neg, V3.neg, mul_zero, add_zero, zero_div, neg_zero]

private theorem end_emb (diag : Bool) (t v1 v2 : K) (d : V2 K) (side : Int)
    (hside : side = 0 ∨ side = 1 ∨ side = -1 ∨ side = 2 ∨ side = -2) :
    letI := fieldNum K sq
    embEnd (if diag then ⟨t, d.normalize.neg, side⟩
            else if side < 0 then ⟨t, axisVec2 (-side - 1) v1, side⟩
            else if 0 < side then ⟨t, axisVec2 (side - 1) v2, side⟩
            else ⟨t, V2.zero, side⟩) =
      (if diag then ⟨t, (emb3 d).normalize.neg, side⟩
       else if side < 0 then ⟨t, axisVec (-side - 1) v1, side⟩
       else if 0 < side then ⟨t, axisVec (side - 1) v2, side⟩
       else ⟨t, V3.zero, side⟩ : ClipEnd K) := by
  cases diag
  · rcases hside with rfl | rfl | rfl | rfl | rfl <;>
      simp [embEnd, emb3, axisVec, axisVec2, V2.zero, V3.zero]
  · simp only [if_true, embEnd, emb_normalize_neg]

/-- **`clip_aabb_line` (2-D) = the 3-D function on the embedded problem** (parameters, side codes and normals) -/
theorem clip2_eq_embed (big : K) (b : RcAabb2 K) (o d : V2 K) :
    letI := fieldNum K sq
    clipAabbLine big (embAabbT b) (emb3 o) (emb3 d) =
      (match clipAabbLine2 big b o d with
       | .none => ClipRes.none
       | .some near far => ClipRes.some (embEnd near) (embEnd far)) := by
  simp only [clipAabbLine, clipAabbLine2, embAabbT, emb3]
  cases h0 : (@clipStep K (fieldNum K sq) 0 b.mins.x b.maxs.x o.x d.x ⟨-big, big, 0, 0, false, false⟩) with
  | none => rfl
  | some s0 =>
    simp only
    cases h1 : (@clipStep K (fieldNum K sq) 1 b.mins.y b.maxs.y o.y d.y s0) with
    | none => rfl
    | some s =>
      simp only [clipStep_flat]
      obtain ⟨a0, b0⟩ := clipStep_sides sq 0 _ _ _ _ _ _ h0
      obtain ⟨a1, b1⟩ := clipStep_sides sq 1 _ _ _ _ _ _ h1
      have hn : s.nearSide = 0 ∨ s.nearSide = 1 ∨ s.nearSide = -1 ∨ s.nearSide = 2 ∨ s.nearSide = -2 := by
        simp only [Nat.cast_zero, Nat.cast_one] at a0 a1; omega
      have hf : s.farSide = 0 ∨ s.farSide = 1 ∨ s.farSide = -1 ∨ s.farSide = 2 ∨ s.farSide = -2 := by
        simp only [Nat.cast_zero, Nat.cast_one] at b0 b1; omega
      have e1 := end_emb sq s.nearDiag s.tmin 1 (-1) d s.nearSide hn
      have e2 := end_emb sq s.farDiag s.tmax (-1) 1 d s.farSide hf
      simp only [emb3] at e1 e2
      rw [e1, e2]

private theorem tail_emb (mk2 : K → V2 K → Int → Hit2 K) (mk3 : K → V3 K → Int → Hit3 K)
    (hmk : ∀ t n i, embHit2 (mk2 t n i) = mk3 t (emb3 n) i) (nt ft : K) (nn fn : V2 K) (ns fs : Int) (max : K) (solid : Bool) :
    letI := fieldNum K sq
    (if ft < 0 then none
     else if nt < 0 then
       (if solid then some (mk3 0 V3.zero fs) else if ft ≤ max then some (mk3 ft (emb3 fn) fs) else none)
     else if nt ≤ max then some (mk3 nt (emb3 nn) ns) else none) =
    (if ft < 0 then none
     else if nt < 0 then
       (if solid then some (mk2 0 V2.zero fs) else if ft ≤ max then some (mk2 ft fn fs) else none)
     else if nt ≤ max then some (mk2 nt nn ns) else none).map embHit2 := by
  have hz : @V3.zero K (fieldNum K sq) = emb3 (@V2.zero K (fieldNum K sq)) := rfl
  split_ifs <;> simp only [Option.map_some, Option.map_none, hmk, hz]

/-- **`Aabb::cast_local_ray_and_get_normal` (2-D) = the 3-D function on the embedded problem** (time, normal with `z = 0`,
feature id) -/
theorem aabb2_normalCast_eq_embed (big : K) (b : RcAabb2 K) (ray : Ray2 K) (max : K) (solid : Bool) :
    letI := fieldNum K sq
    (embAabbT b).castLocalRayAndGetNormal big (embRay ray) max solid =
      (b.castLocalRayAndGetNormal big ray max solid).map embHit2 := by
  simp only [Aabb.castLocalRayAndGetNormal, RcAabb2.castLocalRayAndGetNormal, embRay]
  rw [clip2_eq_embed]
  cases (@clipAabbLine2 K (fieldNum K sq) big b ray.o ray.d) with
  | none => rfl
  | some near far =>
    exact tail_emb sq
      (fun t n i => (⟨t, n, 0, if i < 0 then (-i - 1 + 3).toNat else if i = 0 then 4294967295 else (i - 1).toNat⟩ : Hit2 K))
      (fun t n i => (⟨t, n, 0, if i < 0 then (-i - 1 + 3).toNat else if i = 0 then 4294967295 else (i - 1).toNat⟩ : Hit3 K))
      (fun _ _ _ => rfl) near.t far.t near.n far.n near.side far.side max solid

private theorem aabbMem_embT (b : RcAabb2 K) (ray : Ray2 K) (s : K) :
    AabbMem (embAabbT b) (rayPt sq (embRay ray) s) ↔ Aabb2Mem b (rayPt2 sq ray s) := by
  simp only [AabbMem, Aabb2Mem, embAabbT, embRay, emb3, rayPt, rayPt2, Ray3.pointAt, Ray2.pointAt, V3.add, V3.smul,
    V2.add, V2.smul, zero_mul, add_zero]
  constructor
  · exact fun h => ⟨h.1, h.2.1⟩
  · exact fun h => ⟨h.1, h.2, by norm_num⟩

private theorem map_toi_emb (x : Option (Hit2 K)) : (x.map embHit2).map (·.toi) = x.map (·.toi) := by
  cases x <;> rfl

/-- **`Aabb::cast_local_ray_and_get_normal` (2-D), `solid = true`**: first parameter of `[0, max_toi]` in the rectangle;
non-degenerate rectangle, any direction (zero components allowed) -/
theorem aabb2_normalCast_solid_firstHit (big : K) (b : RcAabb2 K) (ray : Ray2 K) (max : K)
    (hv : b.mins.x < b.maxs.x ∧ b.mins.y < b.maxs.y) (hmax0 : 0 ≤ max) (hmaxb : max ≤ big) :
    letI := fieldNum K sq
    FirstHit (Aabb2Mem b) (rayPt2 sq ray) max ((b.castLocalRayAndGetNormal big ray max true).map (·.toi)) := by
  have h := aabb_normalCast_solid_firstHit sq big (embAabbT b) (embRay ray) max
    ⟨hv.1, hv.2, by simp only [embAabbT]; norm_num⟩ hmax0 hmaxb
  rw [aabb2_normalCast_eq_embed, map_toi_emb] at h
  exact firstHit_congr _ _ _ _ max (aabbMem_embT sq b ray) _ h

/-- **`Aabb::cast_local_ray_and_get_normal` (2-D), origin outside (both `solid` flags)**: first hit, `toi > 0`, and the
normal is the outward unit normal `∓e_i` of an edge line through the hit point with the ray moving against it — or the
code's `-dir/|dir|` at a corner tie -/
theorem aabb2_normalCast_outside (big : K) (b : RcAabb2 K) (ray : Ray2 K) (max : K) (solid : Bool)
    (hv : b.mins.x < b.maxs.x ∧ b.mins.y < b.maxs.y) (hmax0 : 0 ≤ max) (hmaxb : max ≤ big) :
    letI := fieldNum K sq
    ¬ Aabb2Mem b ray.o →
    FirstHit (Aabb2Mem b) (rayPt2 sq ray) max ((b.castLocalRayAndGetNormal big ray max solid).map (·.toi)) ∧
    ∀ h, b.castLocalRayAndGetNormal big ray max solid = some h →
      0 < h.toi ∧
      ((h.n = ⟨-1, 0⟩ ∧ 0 < ray.d.x ∧ (rayPt2 sq ray h.toi).x = b.mins.x) ∨
       (h.n = ⟨1, 0⟩ ∧ ray.d.x < 0 ∧ (rayPt2 sq ray h.toi).x = b.maxs.x) ∨
       (h.n = ⟨0, -1⟩ ∧ 0 < ray.d.y ∧ (rayPt2 sq ray h.toi).y = b.mins.y) ∨
       (h.n = ⟨0, 1⟩ ∧ ray.d.y < 0 ∧ (rayPt2 sq ray h.toi).y = b.maxs.y) ∨
       h.n = ray.d.normalize.neg) := by
  intro hout
  have hout3 : ¬ AabbMem (embAabbT b) (embRay ray).o := by
    intro hm
    apply hout
    have := (aabbMem_embT sq b ray 0).1 (by rw [rayPt_zero]; exact hm)
    simpa only [rayPt2, Ray2.pointAt, V2.add, V2.smul, mul_zero, add_zero] using this
  obtain ⟨h1, h2⟩ := aabb_normalCast_outside sq big (embAabbT b) (embRay ray) max solid
    ⟨hv.1, hv.2, by simp only [embAabbT]; norm_num⟩ hmax0 hmaxb hout3
  rw [aabb2_normalCast_eq_embed, map_toi_emb] at h1
  refine ⟨firstHit_congr _ _ _ _ max (aabbMem_embT sq b ray) _ h1, fun h hh => ?_⟩
  have h3 : @Aabb.castLocalRayAndGetNormal K (fieldNum K sq) big (embAabbT b) (embRay ray) max solid = some (embHit2 h) := by
    rw [aabb2_normalCast_eq_embed, hh]; rfl
  obtain ⟨p1, p2⟩ := h2 _ h3
  refine ⟨p1, ?_⟩
  have inj : ∀ a c : K, emb3 h.n = ⟨a, c, 0⟩ → h.n = ⟨a, c⟩ := by
    intro a c e
    have ex := congrArg V3.x e; have ey := congrArg V3.y e
    simp only [emb3] at ex ey
    cases hn : h.n; rw [hn] at ex ey; simp only at ex ey; rw [ex, ey]
  rcases p2 with p2 | p2
  · simp only [OutwardFaceNormal, embHit2] at p2
    have px : (rayPt sq (embRay ray) h.toi).x = (rayPt2 sq ray h.toi).x := rfl
    have py : (rayPt sq (embRay ray) h.toi).y = (rayPt2 sq ray h.toi).y := rfl
    rcases p2 with ⟨e, d1, d2⟩ | ⟨e, d1, d2⟩ | ⟨e, d1, d2⟩ | ⟨e, d1, d2⟩ | ⟨e, d1, d2⟩ | ⟨e, d1, d2⟩
    · exact Or.inl ⟨inj _ _ e, d1, by rw [← px]; exact d2⟩
    · exact Or.inr (Or.inl ⟨inj _ _ e, d1, by rw [← px]; exact d2⟩)
    · exact Or.inr (Or.inr (Or.inl ⟨inj _ _ e, d1, by rw [← py]; exact d2⟩))
    · exact Or.inr (Or.inr (Or.inr (Or.inl ⟨inj _ _ e, d1, by rw [← py]; exact d2⟩)))
    · exact absurd d1 (lt_irrefl _)
    · exact absurd d1 (lt_irrefl _)
  · refine Or.inr (Or.inr (Or.inr (Or.inr ?_)))
    simp only [embHit2, embRay] at p2
    rw [← emb_normalize_neg] at p2
    have ex := congrArg V3.x p2; have ey := congrArg V3.y p2
    simp only [emb3] at ex ey
    cases hn : h.n with
    | mk a c =>
      rw [hn] at ex ey; simp only at ex ey
      cases hm : (@V2.neg K (fieldNum K sq) (@V2.normalize K (fieldNum K sq) ray.d)) with
      | mk a' c' => rw [hm] at ex ey; simp only at ex ey; rw [ex, ey]

/-- **`Aabb::cast_local_ray_and_get_normal` (2-D), `solid = false`, origin in the rectangle**: a reported time is `≤ max_toi`,
the point is in the rectangle, and (unless `toi = 0`) it is the exit parameter — `[0, toi]` inside, nothing of
`(toi, Real::MAX]` inside; `None` ⇒ the whole segment stays inside -/
theorem aabb2_normalCast_nonsolid_inside (big : K) (b : RcAabb2 K) (ray : Ray2 K) (max : K)
    (hv : b.mins.x < b.maxs.x ∧ b.mins.y < b.maxs.y) (hmax0 : 0 ≤ max) (hmaxb : max ≤ big) :
    letI := fieldNum K sq
    Aabb2Mem b ray.o →
    match (b.castLocalRayAndGetNormal big ray max false).map (·.toi) with
    | some t => t ≤ max ∧ Aabb2Mem b (rayPt2 sq ray t) ∧
        (t = 0 ∨ ((∀ s, 0 ≤ s → s ≤ t → Aabb2Mem b (rayPt2 sq ray s)) ∧
                  ∀ s, t < s → s ≤ big → ¬ Aabb2Mem b (rayPt2 sq ray s)))
    | none => ∀ s, 0 ≤ s → s ≤ max → Aabb2Mem b (rayPt2 sq ray s) := by
  intro hin
  have hin3 : AabbMem (embAabbT b) (embRay ray).o := by
    have := (aabbMem_embT sq b ray 0).2 (by
      simpa only [rayPt2, Ray2.pointAt, V2.add, V2.smul, mul_zero, add_zero] using hin)
    rw [rayPt_zero] at this; exact this
  have h := aabb_normalCast_nonsolid_inside sq big (embAabbT b) (embRay ray) max
    ⟨hv.1, hv.2, by simp only [embAabbT]; norm_num⟩ hmax0 hmaxb hin3
  rw [aabb2_normalCast_eq_embed] at h
  revert h
  cases (@RcAabb2.castLocalRayAndGetNormal K (fieldNum K sq) big b ray max false) with
  | none =>
    simp only [Option.map_none]
    exact fun h s a c => (aabbMem_embT sq b ray s).1 (h s a c)
  | some r =>
    simp only [Option.map_some, embHit2]
    rintro ⟨h1, h2, h3⟩
    refine ⟨h1, (aabbMem_embT sq b ray _).1 h2, ?_⟩
    rcases h3 with h3 | ⟨h3, h4⟩
    · exact Or.inl h3
    · exact Or.inr ⟨fun s a c => (aabbMem_embT sq b ray s).1 (h3 s a c),
        fun s a c hm => h4 s a c ((aabbMem_embT sq b ray s).2 hm)⟩

/-! ## posed normal forms of the 2-D crate (`cast_ray_and_get_normal`) -/

/-- the time reported by the 2-D `Ball::cast_local_ray_and_get_normal` is the one of `cast_local_ray` -/
theorem ball2_getNormal_toi (s : Ball K) (ray : Ray2 K) (max : K) (solid : Bool) :
    letI := fieldNum K sq
    (s.castLocalRayAndGetNormal2 ray max solid).map (·.toi) = s.castLocalRay2 ray max solid := by
  simp only [Ball.castLocalRayAndGetNormal2, Ball.castLocalRay2, rayToiAndNormalWithBall2]
  rcases @rayToiWithBall2 K (fieldNum K sq) (@V2.zero K (fieldNum K sq)) s.r ray solid with ⟨ins, inter⟩
  cases inter with
  | none => rfl
  | some t =>
    simp only [Option.map_some, Option.filter]
    by_cases hm : t ≤ max <;> simp [hm]

/-- **2-D `Ball::cast_ray_and_get_normal`, solid** (unit complex rotation, non-zero direction): the reported time is the first
hit of the posed disc along the world ray -/
theorem ball2_posedNormal_solid_firstHit (hs : LawfulSqrt sq) (b : Ball K) (m : Iso2 K) (ray : Ray2 K) (max : K)
    (hq : m.re * m.re + m.im * m.im = 1) :
    letI := fieldNum K sq
    0 < ray.d.normSq →
    FirstHit (fun p => b.Mem2 (m.invAct p)) (rayPt2 sq ray) max ((b.castRayAndGetNormal2 m ray max true).map (·.toi)) := by
  intro ha
  rw [(posed2_normal_toi sq 0 b ⟨⟨0, 0⟩⟩ m ray max true).1, ball2_getNormal_toi]
  exact ball2_posed_solid_firstHit sq hs b m ray max hq ha

/-- **2-D `Cuboid::cast_ray_and_get_normal`, solid**: the reported time is the first hit of the posed rectangle along the
world ray (positive half-extents) -/
theorem cuboid2_posedNormal_solid_firstHit (big : K) (s : Cuboid2 K) (m : Iso2 K) (ray : Ray2 K) (max : K)
    (hhe : 0 < s.he.x ∧ 0 < s.he.y) (hmax0 : 0 ≤ max) (hmaxb : max ≤ big) :
    letI := fieldNum K sq
    FirstHit (fun p => s.Mem (m.invAct p)) (rayPt2 sq ray) max ((s.castRayAndGetNormal big m ray max true).map (·.toi)) := by
  rw [(posed2_normal_toi sq big ⟨0⟩ s m ray max true).2]
  have h := aabb2_normalCast_solid_firstHit sq big ⟨@V2.neg K (fieldNum K sq) s.he, s.he⟩
    (@Ray2.invTransform K (fieldNum K sq) ray m) max
    ⟨by simp only [V2.neg]; linarith [hhe.1], by simp only [V2.neg]; linarith [hhe.2]⟩ hmax0 hmaxb
  exact (firstHit_posed2 sq _ m ray max _).1 h


/-- non-vacuity: a non-degenerate rectangle and `0 ≤ max ≤ big` (over `ℚ`); the 2-D cast from `(3, 0)` along `(-2, 0)`
hits the unit square at `toi = 1` with normal `(1, 0)` -/
example : letI := fieldNum ℚ id
    ((RcAabb2.mk (⟨-1, -1⟩ : V2 ℚ) ⟨1, 1⟩).castLocalRayAndGetNormal 1000 ⟨⟨3, 0⟩, ⟨-2, 0⟩⟩ 10 true).map
      (fun h => (h.toi, h.n.x, h.n.y)) = some (1, 1, 0) := by
  simp only [RcAabb2.castLocalRayAndGetNormal, clipAabbLine2, clipStep, neq, axisVec2]
  norm_num

end C04
