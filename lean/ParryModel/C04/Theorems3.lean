import ParryModel.C04.Lemmas3
import ParryModel.C04.Theorems2
/-!
# C04 property theorems, part 3

## A. `gjk::minkowski_ray_cast` / `gjk::cast_local_ray` (support-map shapes, round shapes, convex polytopes)

The loop of `src/query/gjk/gjk.rs` is modelled statement by statement in `ModelGjk.lean` over an ABSTRACT `VoronoiSimplex`
and an abstract support function.  The theorems below are the partial-correctness certificate of its exits: they hold for
every simplex implementation (no property of `project_origin_and_reduce` is used), every non-zero direction of any length,
every `max_toi`, and every set `S` that the support function dominates (`Supports S supp`: each point of `S` lies in each
half-space `{x : dir·x ≤ dir·supp dir}` — true for the support map of any shape, convex or not).

* `gjk_cast_lower_bound` — a returned time is a LOWER BOUND of the first hit ("no point of the ray before toi is inside the
  shape"): the ray-clipping step `ltoi += t` never jumps past a supporting half-space that contains the shape.
* `gjk_cast_normal_supporting` — when `toi > 0` the returned normal faces the ray (`n·dir < 0`) and the plane through the
  reported hit point with that normal leaves the whole shape on its inner side (outward normal of a supporting plane).
* `gjk_cast_miss_sound`, `gjk_cast_maxToi_sound` — the two `return None` of the clipping step are sound: the whole ray
  (resp. the segment `[0, max_toi]`) misses the shape.
* `gjk_cast_none_exits` — a `None` can only come from the seven `return None` sites.

All four are conditional on the ghost flag `clean`: it is cleared only when the origin was advanced by clipping against the
plane through the simplex PROJECTION (the `last_chance` pseudo support point, possible only while `ltoi = 0`), which is not a
supporting plane of the shape.  NOT proved (stated gap): that a returned hit point is ON the shape (needs convergence of the
simplex, i.e. properties of `VoronoiSimplex`), and soundness of the `None` of the exits `lastChanceMiss`, `converged`,
`fullOutside`, `iterCap`; these stay covered by the exact oracles only.
-/
namespace C04
open Model

variable {K : Type} [Field K] [LinearOrder K] [IsStrictOrderedRing K] (sq : K → K)

private theorem lin_ray (ray : Ray3 K) (hlen : 0 < sq (dotK ray.d ray.d)) (s : K) :
    letI := fieldNum K sq
    lin ray.o (ray.d.sdiv (sq (dotK ray.d ray.d))) (s * sq (dotK ray.d ray.d)) = rayPt sq ray s := by
  have hne := ne_of_gt hlen
  simp only [lin, rayPt, Ray3.pointAt, V3.add, V3.smul, V3.sdiv, V3.mk.injEq]
  refine ⟨?_, ?_, ?_⟩ <;> · congr 1; field_simp

private theorem dot_sdiv_neg (n d : V3 K) (l : K) (hl : 0 < l) :
    letI := fieldNum K sq
    dotK n (d.sdiv l) < 0 → n.dot d < 0 := by
  intro h
  have : dotK n (@V3.sdiv K (fieldNum K sq) d l) = (@V3.dot K (fieldNum K sq) n d) / l := by
    simp only [dotK, V3.sdiv, V3.dot]; field_simp
  rw [this] at h
  by_contra hc
  push Not at hc
  exact absurd h (not_lt.2 (div_nonneg hc hl.le))

/-- **GJK ray cast: the returned time is a lower bound of the first hit.**  For every simplex implementation, every
support function dominating `S`, every non-zero (non-unit) direction: if `minkowski_ray_cast` returns `Some((toi, n))`
(through any of its three `Some` exits) without having clipped against the `last_chance` pseudo support point, then
`toi ≥ 0` and no point `origin + dir·s`, `0 ≤ s < toi`, belongs to `S`. -/
theorem gjk_cast_lower_bound {Sx : Type} (hs : LawfulSqrt sq) (S : V3 K → Prop) (ops : SimplexOps K Sx)
    (supp : V3 K → V3 K) (big : K) (dim : Nat) (ray : Ray3 K) (maxToi : K) (hsupp : Supports S supp)
    (hd : 0 < dotK ray.d ray.d) (toi : K) (n : V3 K) :
    letI := fieldNum K sq
    (minkowskiRayCast ops supp big dim ray maxToi).clean = true →
    (minkowskiRayCast ops supp big dim ray maxToi).res = some (toi, n) →
    0 ≤ toi ∧ ∀ s, 0 ≤ s → s < toi → ¬ S (rayPt sq ray s) := by
  intro hc hr
  have hlen := rayLen_pos sq hs ray.d hd
  obtain ⟨h1, h2, _⟩ := (minkowskiRayCast_good sq hs S ops supp big dim ray maxToi hsupp hd hc).1 toi n hr
  refine ⟨nonneg_of_mul_nonneg_left h1 hlen, fun s hs0 hlt => ?_⟩
  have := h2 (s * sq (dotK ray.d ray.d)) (mul_nonneg hs0 hlen.le) (mul_lt_mul_of_pos_right hlt hlen)
  rwa [lin_ray sq ray hlen] at this

/-- **GJK ray cast: the returned normal is the outward normal of a supporting plane at the hit point, facing the ray.**
Same hypotheses; when `toi > 0`: `n·dir < 0` and every point `p` of `S` satisfies `n·p ≤ n·(origin + dir·toi)`. -/
theorem gjk_cast_normal_supporting {Sx : Type} (hs : LawfulSqrt sq) (S : V3 K → Prop) (ops : SimplexOps K Sx)
    (supp : V3 K → V3 K) (big : K) (dim : Nat) (ray : Ray3 K) (maxToi : K) (hsupp : Supports S supp)
    (hd : 0 < dotK ray.d ray.d) (toi : K) (n : V3 K) :
    letI := fieldNum K sq
    (minkowskiRayCast ops supp big dim ray maxToi).clean = true →
    (minkowskiRayCast ops supp big dim ray maxToi).res = some (toi, n) → 0 < toi →
    n.dot ray.d < 0 ∧ ∀ p, S p → n.dot p ≤ n.dot (rayPt sq ray toi) := by
  intro hc hr ht
  have hlen := rayLen_pos sq hs ray.d hd
  obtain ⟨_, _, h3⟩ := (minkowskiRayCast_good sq hs S ops supp big dim ray maxToi hsupp hd hc).1 toi n hr
  obtain ⟨ha, hb⟩ := h3 (mul_pos ht hlen)
  refine ⟨dot_sdiv_neg sq n ray.d _ hlen ha, fun p hp => ?_⟩
  have := hb p hp
  rwa [lin_ray sq ray hlen] at this

/-- **GJK ray cast: the `miss` exit is sound** (`dir·ray.dir > eps_tol` and no forward intersection with the supporting
half-space): no point of the whole ray `[0, +∞)` belongs to `S`. -/
theorem gjk_cast_miss_sound {Sx : Type} (hs : LawfulSqrt sq) (S : V3 K → Prop) (ops : SimplexOps K Sx)
    (supp : V3 K → V3 K) (big : K) (dim : Nat) (ray : Ray3 K) (maxToi : K) (hsupp : Supports S supp)
    (hd : 0 < dotK ray.d ray.d) :
    letI := fieldNum K sq
    (minkowskiRayCast ops supp big dim ray maxToi).clean = true →
    (minkowskiRayCast ops supp big dim ray maxToi).exit = .miss →
    ∀ s, 0 ≤ s → ¬ S (rayPt sq ray s) := by
  intro hc he s hs0
  have hlen := rayLen_pos sq hs ray.d hd
  have := (minkowskiRayCast_good sq hs S ops supp big dim ray maxToi hsupp hd hc).2.1 he
    (s * sq (dotK ray.d ray.d)) (mul_nonneg hs0 hlen.le)
  rwa [lin_ray sq ray hlen] at this

/-- **GJK ray cast: the `max_time_of_impact` exit is sound** (`ltoi / ray_length > max_toi` after a lower-bound update):
no point of the segment `[0, max_toi]` belongs to `S`. -/
theorem gjk_cast_maxToi_sound {Sx : Type} (hs : LawfulSqrt sq) (S : V3 K → Prop) (ops : SimplexOps K Sx)
    (supp : V3 K → V3 K) (big : K) (dim : Nat) (ray : Ray3 K) (maxToi : K) (hsupp : Supports S supp)
    (hd : 0 < dotK ray.d ray.d) :
    letI := fieldNum K sq
    (minkowskiRayCast ops supp big dim ray maxToi).clean = true →
    (minkowskiRayCast ops supp big dim ray maxToi).exit = .maxToi →
    ∀ s, 0 ≤ s → s ≤ maxToi → ¬ S (rayPt sq ray s) := by
  intro hc he s hs0 hsm
  have hlen := rayLen_pos sq hs ray.d hd
  have := (minkowskiRayCast_good sq hs S ops supp big dim ray maxToi hsupp hd hc).2.2.1 he
    (s * sq (dotK ray.d ray.d)) (mul_nonneg hs0 hlen.le) (mul_le_mul_of_nonneg_right hsm hlen.le)
  rwa [lin_ray sq ray hlen] at this

/-- **GJK ray cast: `None` comes only from the `return None` sites** (never from `projZero`, `lastChanceHit`,
`fullInside`, which return `Some`). -/
theorem gjk_cast_none_exits {Sx : Type} (hs : LawfulSqrt sq) (ops : SimplexOps K Sx)
    (supp : V3 K → V3 K) (big : K) (dim : Nat) (ray : Ray3 K) (maxToi : K) (hd : 0 < dotK ray.d ray.d) :
    letI := fieldNum K sq
    (minkowskiRayCast ops supp big dim ray maxToi).clean = true →
    (minkowskiRayCast ops supp big dim ray maxToi).res = none →
    (minkowskiRayCast ops supp big dim ray maxToi).exit ≠ .projZero ∧
    (minkowskiRayCast ops supp big dim ray maxToi).exit ≠ .lastChanceHit ∧
    (minkowskiRayCast ops supp big dim ray maxToi).exit ≠ .fullInside := by
  intro hc hr
  exact (minkowskiRayCast_good sq hs (fun _ => False) ops supp big dim ray maxToi (fun _ _ h => h.elim) hd hc).2.2.2 hr

/-- **Support-map wrapper (`local_ray_intersection_with_support_map_with_params`), direct path** (solid cast, or
non-solid with a non-zero first time): the reported time is the time of the first GJK cast, hence a lower bound of the
first hit; the feature is `Unknown`. -/
theorem gjk_wrapper_lower_bound {Sx : Type} (hs : LawfulSqrt sq) (S : V3 K → Prop) (ops : SimplexOps K Sx)
    (supp : V3 K → V3 K) (big : K) (dim : Nat) (ray : Ray3 K) (maxToi : K) (solid : Bool) (hsupp : Supports S supp)
    (hd : 0 < dotK ray.d ray.d) (h : Hit3 K) :
    letI := fieldNum K sq
    (localRayIntersectionWithSupportMap ops supp big dim ray maxToi solid).res = some h →
    (localRayIntersectionWithSupportMap ops supp big dim ray maxToi solid).recast = false →
    (localRayIntersectionWithSupportMap ops supp big dim ray maxToi solid).clean1 = true →
    0 ≤ h.toi ∧ (∀ s, 0 ≤ s → s < h.toi → ¬ S (rayPt sq ray s)) ∧ h.fkind = 2 := by
  simp only [localRayIntersectionWithSupportMap]
  rcases hr : (@minkowskiRayCast K (fieldNum K sq) Sx ops supp big dim ray maxToi).res with _ | ⟨toi, n⟩
  · simp
  · simp only
    split_ifs
    · rcases (@minkowskiRayCast K (fieldNum K sq) Sx ops supp big dim _ _).res with _ | ⟨toi2, n2⟩
      · simp
      · simp only; split_ifs <;> simp
    · intro h1 _ hc
      simp only [Option.some.injEq] at h1
      subst h1
      obtain ⟨a, b⟩ := gjk_cast_lower_bound sq hs S ops supp big dim ray maxToi hsupp hd toi n hc hr
      exact ⟨a, b, rfl⟩

/-- **Support-map wrapper, non-solid cast from inside (the re-cast)**: the first cast returned time 0, the shape is
re-cast backwards along the unit direction from beyond its support plane, and the reported time
`(shift − toi₂)/|dir|` is an UPPER bound of the last parameter at which the ray is in the shape — after the reported exit
the ray never meets the shape again — and it is `≤ max_toi`; for every direction length (this is the clause that the pinned
tree violated for `|dir| ≠ 1`). -/
theorem gjk_wrapper_nonsolid_exit {Sx : Type} (hs : LawfulSqrt sq) (S : V3 K → Prop) (ops : SimplexOps K Sx)
    (supp : V3 K → V3 K) (big : K) (dim : Nat) (ray : Ray3 K) (maxToi : K) (solid : Bool) (hsupp : Supports S supp)
    (hd : 0 < dotK ray.d ray.d) (h : Hit3 K) :
    letI := fieldNum K sq
    (localRayIntersectionWithSupportMap ops supp big dim ray maxToi solid).res = some h →
    (localRayIntersectionWithSupportMap ops supp big dim ray maxToi solid).recast = true →
    (localRayIntersectionWithSupportMap ops supp big dim ray maxToi solid).clean2 = true →
    h.toi ≤ maxToi ∧ ∀ s, h.toi < s → ¬ S (rayPt sq ray s) := by
  have hlen := rayLen_pos sq hs ray.d hd
  have hn : (@V3.norm K (fieldNum K sq) ray.d) = sq (dotK ray.d ray.d) := rfl
  simp only [localRayIntersectionWithSupportMap, hn]
  generalize hL : sq (dotK ray.d ray.d) = len at hlen
  rcases (@minkowskiRayCast K (fieldNum K sq) Sx ops supp big dim ray maxToi).res with _ | ⟨toi, n⟩
  · simp
  · simp only
    split_ifs
    · -- the re-cast
      set u := @V3.sdiv K (fieldNum K sq) ray.d len with hu
      set shift := (@V3.dot K (fieldNum K sq) (@V3.sub K (fieldNum K sq) (supp u) ray.o) u) + @lit K (fieldNum K sq) 1 1000
        with hshift
      set newRay : Ray3 K := ⟨@V3.add K (fieldNum K sq) ray.o (@V3.smul K (fieldNum K sq) u shift), @V3.neg K (fieldNum K sq) u⟩
        with hnr
      have huu : dotK u u = 1 := by
        have h2 := hs.sq_mul _ hd.le
        rw [hL] at h2
        simp only [hu, dotK, V3.sdiv]
        have hne := ne_of_gt hlen
        field_simp
        simp only [dotK] at h2
        linarith
      have hd2 : 0 < dotK newRay.d newRay.d := by
        have : dotK newRay.d newRay.d = dotK u u := by simp only [hnr, dotK, V3.neg]; ring
        rw [this, huu]; exact one_pos
      rcases hr2 : (@minkowskiRayCast K (fieldNum K sq) Sx ops supp big dim newRay
          (shift + @lit K (fieldNum K sq) 1 1000)).res with _ | ⟨toi2, n2⟩
      · simp
      · simp only
        split_ifs with hle
        · intro h1 _ hc
          simp only [Option.some.injEq] at h1
          subst h1
          refine ⟨hle, fun s hlt hS => ?_⟩
          simp only at hlt
          obtain ⟨_, hb⟩ := gjk_cast_lower_bound sq hs S ops supp big dim newRay _ hsupp hd2 toi2 n2 hc hr2
          have hσ : shift - toi2 < s * len := by
            have := (div_lt_iff₀ hlen).1 hlt; linarith
          have hpt : ∀ σ : K, rayPt sq newRay (shift - σ) = lin ray.o u σ := by
            intro σ
            simp only [rayPt, Ray3.pointAt, hnr, V3.add, V3.smul, V3.neg, lin, V3.mk.injEq]
            refine ⟨by ring, by ring, by ring⟩
          have hray : rayPt sq ray s = lin ray.o u (s * len) := by
            have hne := ne_of_gt hlen
            simp only [rayPt, Ray3.pointAt, V3.add, V3.smul, lin, hu, V3.sdiv, V3.mk.injEq]
            refine ⟨?_, ?_, ?_⟩ <;> · congr 1; field_simp
          rw [hray] at hS
          rcases le_or_gt (s * len) shift with hin | hout
          · have := hb (shift - s * len) (by linarith) (by linarith)
            rw [hpt] at this
            exact this hS
          · have h1 := hsupp u _ hS
            rw [dotK_lin, huu] at h1
            have heps : (0 : K) < @lit K (fieldNum K sq) 1 1000 := by
              simp only [fieldNum_lit]; norm_num
            have hsh : shift = dotK (supp u) u - dotK ray.o u + @lit K (fieldNum K sq) 1 1000 := by
              simp only [hshift, V3.dot, V3.sub, dotK]; ring
            have hc1 : dotK u (supp u) = dotK (supp u) u := by simp only [dotK]; ring
            have hc2 : dotK u ray.o = dotK ray.o u := by simp only [dotK]; ring
            linarith
        · simp
    · simp

/-- non-vacuity: the support function of the cube `[-1,1]³` (`sign`-vertex) dominates the cube, over `ℚ` -/
example : Supports (K := ℚ) (fun p => |p.x| ≤ 1 ∧ |p.y| ≤ 1 ∧ |p.z| ≤ 1)
    (fun d => ⟨if d.x < 0 then -1 else 1, if d.y < 0 then -1 else 1, if d.z < 0 then -1 else 1⟩) := by
  intro d p ⟨hx, hy, hz⟩
  simp only [dotK]
  rw [abs_le] at hx hy hz
  split_ifs <;> nlinarith [hx.1, hx.2, hy.1, hy.2, hz.1, hz.2]

end C04
