import ParryModel.C04.Lemmas3
import ParryModel.C04.Model2D
import ParryModel.C04.Theorems2
/-!
# C04 property theorems, part 3

## A. `gjk::minkowski_ray_cast` / `gjk::cast_local_ray` (support-map shapes, round shapes, convex polytopes)

The loop of `src/query/gjk/gjk.rs` is modelled statement by statement in `ModelGjk.lean` over an ABSTRACT `VoronoiSimplex`
and an abstract support function.  The theorems below are the partial-correctness certificate of its exits: they hold for
every simplex implementation (no property of `project_origin_and_reduce` is used), every non-zero direction of any length,
every `max_toi`, and every set `S` that the support function dominates (`Supports S supp`: each point of `S` lies in each
half-space `{x : dir·x ≤ dir·supp dir}` — true for the support map of any shape, convex or not).

* `gjk_cast_lower_bound` — a returned time is a LOWER BOUND of the first hit ("no point of the ray before toi is inside the
  shape"): the ray-clipping step `ltoi += t` never jumps past a supporting half-space that contains the shape.
* `gjk_cast_normal_supporting` — when `toi > 0` the returned normal faces the ray (`n·dir < 0`) and the plane through the
  reported hit point with that normal leaves the whole shape on its inner side (outward normal of a supporting plane).
* `gjk_cast_miss_sound`, `gjk_cast_maxToi_sound` — the two `return None` of the clipping step are sound: the whole ray
  (resp. the segment `[0, max_toi]`) misses the shape.
* `gjk_cast_none_exits` — a `None` can only come from the seven `return None` sites.

All four are conditional on the ghost flag `clean`: it is cleared only when the origin was advanced by clipping against the
plane through the simplex PROJECTION (the `last_chance` pseudo support point, possible only while `ltoi = 0`), which is not a
supporting plane of the shape.  NOT proved (stated gap): that a returned hit point is ON the shape (needs convergence of the
simplex, i.e. properties of `VoronoiSimplex`), and soundness of the `None` of the exits `lastChanceMiss`, `converged`,
`fullOutside`, `iterCap`; these stay covered by the exact oracles only.
-/
namespace C04
open Model

variable {K : Type} [Field K] [LinearOrder K] [IsStrictOrderedRing K] (sq : K → K)

private theorem lin_ray (ray : Ray3 K) (hlen : 0 < sq (dotK ray.d ray.d)) (s : K) :
    letI := fieldNum K sq
    lin ray.o (ray.d.sdiv (sq (dotK ray.d ray.d))) (s * sq (dotK ray.d ray.d)) = rayPt sq ray s := by
  have hne := ne_of_gt hlen
  simp only [lin, rayPt, Ray3.pointAt, V3.add, V3.smul, V3.sdiv, V3.mk.injEq]
  refine ⟨?_, ?_, ?_⟩ <;> · congr 1; field_simp

private theorem dot_sdiv_neg (n d : V3 K) (l : K) (hl : 0 < l) :
    letI := fieldNum K sq
    dotK n (d.sdiv l) < 0 → n.dot d < 0 := by
  intro h
  have : dotK n (@V3.sdiv K (fieldNum K sq) d l) = (@V3.dot K (fieldNum K sq) n d) / l := by
    simp only [dotK, V3.sdiv, V3.dot]; field_simp
  rw [this] at h
  by_contra hc
  push Not at hc
  exact absurd h (not_lt.2 (div_nonneg hc hl.le))

/-- **GJK ray cast: the returned time is a lower bound of the first hit.**  For every simplex implementation, every
support function dominating `S`, every non-zero (non-unit) direction: if `minkowski_ray_cast` returns `Some((toi, n))`
(through any of its three `Some` exits) without having clipped against the `last_chance` pseudo support point, then
`toi ≥ 0` and no point `origin + dir·s`, `0 ≤ s < toi`, belongs to `S`. -/
theorem gjk_cast_lower_bound {Sx : Type} (hs : LawfulSqrt sq) (S : V3 K → Prop) (ops : SimplexOps K Sx)
    (supp : V3 K → V3 K) (big : K) (dim : Nat) (ray : Ray3 K) (maxToi : K) (hsupp : Supports S supp)
    (hd : 0 < dotK ray.d ray.d) (toi : K) (n : V3 K) :
    letI := fieldNum K sq
    (minkowskiRayCast ops supp big dim ray maxToi).clean = true →
    (minkowskiRayCast ops supp big dim ray maxToi).res = some (toi, n) →
    0 ≤ toi ∧ ∀ s, 0 ≤ s → s < toi → ¬ S (rayPt sq ray s) := by
  intro hc hr
  have hlen := rayLen_pos sq hs ray.d hd
  obtain ⟨h1, h2, _⟩ := (minkowskiRayCast_good sq hs S ops supp big dim ray maxToi hsupp hd hc).1 toi n hr
  refine ⟨nonneg_of_mul_nonneg_left h1 hlen, fun s hs0 hlt => ?_⟩
  have := h2 (s * sq (dotK ray.d ray.d)) (mul_nonneg hs0 hlen.le) (mul_lt_mul_of_pos_right hlt hlen)
  rwa [lin_ray sq ray hlen] at this

/-- **GJK ray cast: the returned normal is the outward normal of a supporting plane at the hit point, facing the ray.**
Same hypotheses; when `toi > 0`: `n·dir < 0` and every point `p` of `S` satisfies `n·p ≤ n·(origin + dir·toi)`. -/
theorem gjk_cast_normal_supporting {Sx : Type} (hs : LawfulSqrt sq) (S : V3 K → Prop) (ops : SimplexOps K Sx)
    (supp : V3 K → V3 K) (big : K) (dim : Nat) (ray : Ray3 K) (maxToi : K) (hsupp : Supports S supp)
    (hd : 0 < dotK ray.d ray.d) (toi : K) (n : V3 K) :
    letI := fieldNum K sq
    (minkowskiRayCast ops supp big dim ray maxToi).clean = true →
    (minkowskiRayCast ops supp big dim ray maxToi).res = some (toi, n) → 0 < toi →
    n.dot ray.d < 0 ∧ ∀ p, S p → n.dot p ≤ n.dot (rayPt sq ray toi) := by
  intro hc hr ht
  have hlen := rayLen_pos sq hs ray.d hd
  obtain ⟨_, _, h3⟩ := (minkowskiRayCast_good sq hs S ops supp big dim ray maxToi hsupp hd hc).1 toi n hr
  obtain ⟨ha, hb⟩ := h3 (mul_pos ht hlen)
  refine ⟨dot_sdiv_neg sq n ray.d _ hlen ha, fun p hp => ?_⟩
  have := hb p hp
  rwa [lin_ray sq ray hlen] at this

/-- **GJK ray cast: the `miss` exit is sound** (`dir·ray.dir > eps_tol` and no forward intersection with the supporting
half-space): no point of the whole ray `[0, +∞)` belongs to `S`. -/
theorem gjk_cast_miss_sound {Sx : Type} (hs : LawfulSqrt sq) (S : V3 K → Prop) (ops : SimplexOps K Sx)
    (supp : V3 K → V3 K) (big : K) (dim : Nat) (ray : Ray3 K) (maxToi : K) (hsupp : Supports S supp)
    (hd : 0 < dotK ray.d ray.d) :
    letI := fieldNum K sq
    (minkowskiRayCast ops supp big dim ray maxToi).clean = true →
    (minkowskiRayCast ops supp big dim ray maxToi).exit = .miss →
    ∀ s, 0 ≤ s → ¬ S (rayPt sq ray s) := by
  intro hc he s hs0
  have hlen := rayLen_pos sq hs ray.d hd
  have := (minkowskiRayCast_good sq hs S ops supp big dim ray maxToi hsupp hd hc).2.1 he
    (s * sq (dotK ray.d ray.d)) (mul_nonneg hs0 hlen.le)
  rwa [lin_ray sq ray hlen] at this

/-- **GJK ray cast: the `max_time_of_impact` exit is sound** (`ltoi / ray_length > max_toi` after a lower-bound update):
no point of the segment `[0, max_toi]` belongs to `S`. -/
theorem gjk_cast_maxToi_sound {Sx : Type} (hs : LawfulSqrt sq) (S : V3 K → Prop) (ops : SimplexOps K Sx)
    (supp : V3 K → V3 K) (big : K) (dim : Nat) (ray : Ray3 K) (maxToi : K) (hsupp : Supports S supp)
    (hd : 0 < dotK ray.d ray.d) :
    letI := fieldNum K sq
    (minkowskiRayCast ops supp big dim ray maxToi).clean = true →
    (minkowskiRayCast ops supp big dim ray maxToi).exit = .maxToi →
    ∀ s, 0 ≤ s → s ≤ maxToi → ¬ S (rayPt sq ray s) := by
  intro hc he s hs0 hsm
  have hlen := rayLen_pos sq hs ray.d hd
  have := (minkowskiRayCast_good sq hs S ops supp big dim ray maxToi hsupp hd hc).2.2.1 he
    (s * sq (dotK ray.d ray.d)) (mul_nonneg hs0 hlen.le) (mul_le_mul_of_nonneg_right hsm hlen.le)
  rwa [lin_ray sq ray hlen] at this

/-- **GJK ray cast: `None` comes only from the `return None` sites** (never from `projZero`, `lastChanceHit`,
`fullInside`, which return `Some`). -/
theorem gjk_cast_none_exits {Sx : Type} (hs : LawfulSqrt sq) (ops : SimplexOps K Sx)
    (supp : V3 K → V3 K) (big : K) (dim : Nat) (ray : Ray3 K) (maxToi : K) (hd : 0 < dotK ray.d ray.d) :
    letI := fieldNum K sq
    (minkowskiRayCast ops supp big dim ray maxToi).clean = true →
    (minkowskiRayCast ops supp big dim ray maxToi).res = none →
    (minkowskiRayCast ops supp big dim ray maxToi).exit ≠ .projZero ∧
    (minkowskiRayCast ops supp big dim ray maxToi).exit ≠ .lastChanceHit ∧
    (minkowskiRayCast ops supp big dim ray maxToi).exit ≠ .fullInside := by
  intro hc hr
  exact (minkowskiRayCast_good sq hs (fun _ => False) ops supp big dim ray maxToi (fun _ _ h => h.elim) hd hc).2.2.2 hr

/-- **GJK ray cast: the reported hit point is (within `eps_tol` of) a point of the shape**, under an explicit specification
of the simplex (`SimplexSpec`: the projection is a convex combination of the current vertices; a reduced simplex that still
has `DIM + 1` vertices contains the origin), for a convex `S` whose support points belong to `S`:
* exit `projZero` (`|proj| ≤ eps_tol = 10 ε`): some point `q` of `S` has `|q − (origin + dir·toi)|² ≤ eps_tol²`;
* exit `fullInside`: the point `origin + dir·toi` belongs to `S`.
With `gjk_cast_lower_bound` (nothing of `S` before `toi`) this is the clause "a reported hit lies on the shape's boundary
… no point of the ray before toi is inside" up to `10 ε`, for these two exits; the exit `lastChanceHit` is not covered. -/
theorem gjk_cast_hit_near {Sx : Type} (hs : LawfulSqrt sq) (S : V3 K → Prop) (hconv : ConvexSet S)
    (ops : SimplexOps K Sx) (supp : V3 K → V3 K) (hin : ∀ d, S (supp d)) (big : K) (dim : Nat)
    (Pts : Sx → (V3 K → Prop) → Prop) (spec : SimplexSpec ops dim Pts) (ray : Ray3 K) (maxToi : K)
    (hd : 0 < dotK ray.d ray.d) (toi : K) (n : V3 K) :
    letI := fieldNum K sq
    (minkowskiRayCast ops supp big dim ray maxToi).res = some (toi, n) →
    ((minkowskiRayCast ops supp big dim ray maxToi).exit = .projZero →
      ∃ q, S q ∧ dotK (vsub q (rayPt sq ray toi)) (vsub q (rayPt sq ray toi)) ≤ gjkEpsTol * gjkEpsTol) ∧
    ((minkowskiRayCast ops supp big dim ray maxToi).exit = .fullInside → S (rayPt sq ray toi)) := by
  intro hr
  have hlen := rayLen_pos sq hs ray.d hd
  have h := minkowskiRayCast_near sq hs S hconv ops supp hin big dim Pts spec ray maxToi hd toi n hr
  rw [lin_ray sq ray hlen] at h
  exact h

/-- non-vacuity of `SimplexSpec`: the one-point "simplex" that keeps only the newest vertex satisfies it (over `ℚ`) -/
example : SimplexSpec (K := ℚ) (Sx := V3 ℚ)
    ⟨fun p => p, fun _ p => p, fun s => (s, s), fun s v => vadd s v, fun _ => 0⟩ 3 (fun s T => T s) where
  mono := fun _ _ _ h hp => h _ hp
  reset := fun _ _ h => h
  add := fun _ _ _ _ h => h
  project := fun _ _ _ h => ⟨h, h⟩
  translate := fun s v T h => by
    have : vsub (vadd s v) v = s := by
      obtain ⟨a, b, c⟩ := s; obtain ⟨d, e, f⟩ := v
      simp only [vadd, vsub, V3.mk.injEq]; refine ⟨by ring, by ring, by ring⟩
    show T (vsub (vadd s v) v)
    rw [this]; exact h
  full := fun _ _ _ _ h => by simp at h

/-- **Support-map wrapper (`local_ray_intersection_with_support_map_with_params`), direct path** (solid cast, or
non-solid with a non-zero first time): the reported time is the time of the first GJK cast, hence a lower bound of the
first hit; the feature is `Unknown`. -/
theorem gjk_wrapper_lower_bound {Sx : Type} (hs : LawfulSqrt sq) (S : V3 K → Prop) (ops : SimplexOps K Sx)
    (supp : V3 K → V3 K) (big : K) (dim : Nat) (ray : Ray3 K) (maxToi : K) (solid : Bool) (hsupp : Supports S supp)
    (hd : 0 < dotK ray.d ray.d) (h : Hit3 K) :
    letI := fieldNum K sq
    (localRayIntersectionWithSupportMap ops supp big dim ray maxToi solid).res = some h →
    (localRayIntersectionWithSupportMap ops supp big dim ray maxToi solid).recast = false →
    (localRayIntersectionWithSupportMap ops supp big dim ray maxToi solid).clean1 = true →
    0 ≤ h.toi ∧ (∀ s, 0 ≤ s → s < h.toi → ¬ S (rayPt sq ray s)) ∧ h.fkind = 2 := by
  simp only [localRayIntersectionWithSupportMap]
  rcases hr : (@minkowskiRayCast K (fieldNum K sq) Sx ops supp big dim ray maxToi).res with _ | ⟨toi, n⟩
  · simp
  · simp only
    split_ifs
    · rcases (@minkowskiRayCast K (fieldNum K sq) Sx ops supp big dim _ _).res with _ | ⟨toi2, n2⟩
      · simp
      · simp only; split_ifs <;> simp
    · intro h1 _ hc
      simp only [Option.some.injEq] at h1
      subst h1
      obtain ⟨a, b⟩ := gjk_cast_lower_bound sq hs S ops supp big dim ray maxToi hsupp hd toi n hc hr
      exact ⟨a, b, rfl⟩

/-- **Support-map wrapper, non-solid cast from inside (the re-cast)**: the first cast returned time 0, the shape is
re-cast backwards along the unit direction from beyond its support plane, and the reported time
`(shift − toi₂)/|dir|` is an UPPER bound of the last parameter at which the ray is in the shape — after the reported exit
the ray never meets the shape again — and it is `≤ max_toi`; for every direction length (this is the clause that the pinned
tree violated for `|dir| ≠ 1`). -/
theorem gjk_wrapper_nonsolid_exit {Sx : Type} (hs : LawfulSqrt sq) (S : V3 K → Prop) (ops : SimplexOps K Sx)
    (supp : V3 K → V3 K) (big : K) (dim : Nat) (ray : Ray3 K) (maxToi : K) (solid : Bool) (hsupp : Supports S supp)
    (hd : 0 < dotK ray.d ray.d) (h : Hit3 K) :
    letI := fieldNum K sq
    (localRayIntersectionWithSupportMap ops supp big dim ray maxToi solid).res = some h →
    (localRayIntersectionWithSupportMap ops supp big dim ray maxToi solid).recast = true →
    (localRayIntersectionWithSupportMap ops supp big dim ray maxToi solid).clean2 = true →
    h.toi ≤ maxToi ∧ ∀ s, h.toi < s → ¬ S (rayPt sq ray s) := by
  have hlen := rayLen_pos sq hs ray.d hd
  have hn : (@V3.norm K (fieldNum K sq) ray.d) = sq (dotK ray.d ray.d) := rfl
  simp only [localRayIntersectionWithSupportMap, hn]
  generalize hL : sq (dotK ray.d ray.d) = len at hlen
  rcases (@minkowskiRayCast K (fieldNum K sq) Sx ops supp big dim ray maxToi).res with _ | ⟨toi, n⟩
  · simp
  · simp only
    split_ifs
    · -- the re-cast
      set u := @V3.sdiv K (fieldNum K sq) ray.d len with hu
      set shift := (@V3.dot K (fieldNum K sq) (@V3.sub K (fieldNum K sq) (supp u) ray.o) u) + @lit K (fieldNum K sq) 1 1000
        with hshift
      set newRay : Ray3 K := ⟨@V3.add K (fieldNum K sq) ray.o (@V3.smul K (fieldNum K sq) u shift), @V3.neg K (fieldNum K sq) u⟩
        with hnr
      have huu : dotK u u = 1 := by
        have h2 := hs.sq_mul _ hd.le
        rw [hL] at h2
        simp only [hu, dotK, V3.sdiv]
        have hne := ne_of_gt hlen
        field_simp
        simp only [dotK] at h2
        linarith
      have hd2 : 0 < dotK newRay.d newRay.d := by
        have : dotK newRay.d newRay.d = dotK u u := by simp only [hnr, dotK, V3.neg]; ring
        rw [this, huu]; exact one_pos
      rcases hr2 : (@minkowskiRayCast K (fieldNum K sq) Sx ops supp big dim newRay
          (shift + @lit K (fieldNum K sq) 1 1000)).res with _ | ⟨toi2, n2⟩
      · simp
      · simp only
        split_ifs with hle
        · intro h1 _ hc
          simp only [Option.some.injEq] at h1
          subst h1
          refine ⟨hle, fun s hlt hS => ?_⟩
          simp only at hlt
          obtain ⟨_, hb⟩ := gjk_cast_lower_bound sq hs S ops supp big dim newRay _ hsupp hd2 toi2 n2 hc hr2
          have hσ : shift - toi2 < s * len := by
            have := (div_lt_iff₀ hlen).1 hlt; linarith
          have hpt : ∀ σ : K, rayPt sq newRay (shift - σ) = lin ray.o u σ := by
            intro σ
            simp only [rayPt, Ray3.pointAt, hnr, V3.add, V3.smul, V3.neg, lin, V3.mk.injEq]
            refine ⟨by ring, by ring, by ring⟩
          have hray : rayPt sq ray s = lin ray.o u (s * len) := by
            have hne := ne_of_gt hlen
            simp only [rayPt, Ray3.pointAt, V3.add, V3.smul, lin, hu, V3.sdiv, V3.mk.injEq]
            refine ⟨?_, ?_, ?_⟩ <;> · congr 1; field_simp
          rw [hray] at hS
          rcases le_or_gt (s * len) shift with hin | hout
          · have := hb (shift - s * len) (by linarith) (by linarith)
            rw [hpt] at this
            exact this hS
          · have h1 := hsupp u _ hS
            rw [dotK_lin, huu] at h1
            have heps : (0 : K) < @lit K (fieldNum K sq) 1 1000 := by
              simp only [fieldNum_lit]; norm_num
            have hsh : shift = dotK (supp u) u - dotK ray.o u + @lit K (fieldNum K sq) 1 1000 := by
              simp only [hshift, V3.dot, V3.sub, dotK]; ring
            have hc1 : dotK u (supp u) = dotK (supp u) u := by simp only [dotK]; ring
            have hc2 : dotK u ray.o = dotK ray.o u := by simp only [dotK]; ring
            linarith
        · simp
    · simp

/-! ## B. The 2-D crate: ball, Aabb / cuboid, triangle

`ray_ball.rs`, `ray_aabb.rs`, `ray_cuboid.rs` are dimension-generic: the 2-D functions are proved EQUAL to the 3-D model
on the embedded problem (`z = 0`; the third slab iteration is the pass-through branch `dir[2] == 0`), so every 3-D theorem
transfers; the transferred statements are given for the clauses "first hit" (solid / origin outside) and "exit" (non-solid
from inside).  The 2-D triangle cast (a body of its own in `ray_triangle.rs`) is reduced to the three edge casts. -/

/-- embedding of the plane `z = 0` -/
def emb3 (v : V2 K) : V3 K := ⟨v.x, v.y, 0⟩
def embRay (r : Ray2 K) : Ray3 K := ⟨emb3 r.o, emb3 r.d⟩
def embAabb (b : RcAabb2 K) : Aabb K := ⟨emb3 b.mins, emb3 b.maxs⟩
/-- the rectangle -/
def Aabb2Mem (b : RcAabb2 K) (p : V2 K) : Prop :=
  (b.mins.x ≤ p.x ∧ p.x ≤ b.maxs.x) ∧ (b.mins.y ≤ p.y ∧ p.y ≤ b.maxs.y)

/-- transfer of `FirstHit` along a pointwise equivalence of the membership along the curve -/
theorem firstHit_congr {α β : Type} (S : α → Prop) (S' : β → Prop) (pt : K → α) (pt' : K → β) (max : K)
    (h : ∀ s, S (pt s) ↔ S' (pt' s)) (r : Option K) : FirstHit S pt max r → FirstHit S' pt' max r := by
  cases r with
  | none => exact fun hn s a b hs => hn s a b ((h s).2 hs)
  | some t => exact fun ⟨a, b, c, d⟩ => ⟨a, b, (h t).1 c, fun s x y hs => d s x y ((h s).2 hs)⟩

private theorem slabStep_zero (st : K × K) :
    letI := fieldNum K sq
    slabStep (0 : K) 0 0 0 st = some st := by
  simp [slabStep, neq]

/-- **2-D `Aabb::cast_local_ray` = the 3-D function on the embedded problem** -/
theorem aabb2_cast_eq_embed (big : K) (b : RcAabb2 K) (ray : Ray2 K) (max : K) (solid : Bool) :
    letI := fieldNum K sq
    b.castLocalRay big ray max solid = (embAabb b).castLocalRay big (embRay ray) max solid := by
  simp only [RcAabb2.castLocalRay, Aabb.castLocalRay, embAabb, embRay, emb3]
  rcases @slabStep K (fieldNum K sq) b.mins.x b.maxs.x ray.o.x ray.d.x (0, big) with _ | s0
  · rfl
  · simp only
    rcases @slabStep K (fieldNum K sq) b.mins.y b.maxs.y ray.o.y ray.d.y s0 with _ | s1
    · rfl
    · simp only [slabStep_zero sq s1]

private theorem aabbMem_emb (b : RcAabb2 K) (ray : Ray2 K) (s : K) :
    AabbMem (embAabb b) (rayPt sq (embRay ray) s) ↔ Aabb2Mem b (rayPt2 sq ray s) := by
  simp only [AabbMem, Aabb2Mem, embAabb, embRay, emb3, rayPt, rayPt2, Ray3.pointAt, Ray2.pointAt, V3.add, V3.smul,
    V2.add, V2.smul, zero_mul, add_zero, le_refl, and_true]

/-- **`Aabb::cast_local_ray` (2-D), `solid = true`**: first parameter of `[0, max_toi]` in the rectangle, `None` iff the
segment misses it; any direction (zero components allowed), `0 ≤ max_toi ≤ Real::MAX`. -/
theorem aabb2_cast_solid_firstHit (big : K) (b : RcAabb2 K) (ray : Ray2 K) (max : K)
    (hv : b.mins.x ≤ b.maxs.x ∧ b.mins.y ≤ b.maxs.y) (hmax0 : 0 ≤ max) (hmaxb : max ≤ big) :
    letI := fieldNum K sq
    FirstHit (Aabb2Mem b) (rayPt2 sq ray) max (b.castLocalRay big ray max true) := by
  rw [aabb2_cast_eq_embed]
  exact firstHit_congr _ _ _ _ max (aabbMem_emb sq b ray) _
    (aabb_cast_solid_firstHit sq big (embAabb b) (embRay ray) max ⟨hv.1, hv.2, le_refl _⟩ hmax0 hmaxb)

/-- **`Aabb::cast_local_ray` (2-D), origin outside (both `solid` flags)**: first hit, and a reported time is `> 0`. -/
theorem aabb2_cast_outside_firstHit (big : K) (b : RcAabb2 K) (ray : Ray2 K) (max : K) (solid : Bool)
    (hv : b.mins.x ≤ b.maxs.x ∧ b.mins.y ≤ b.maxs.y) (hmax0 : 0 ≤ max) (hmaxb : max ≤ big) :
    letI := fieldNum K sq
    ¬ Aabb2Mem b ray.o →
    FirstHit (Aabb2Mem b) (rayPt2 sq ray) max (b.castLocalRay big ray max solid) ∧
    ∀ t, b.castLocalRay big ray max solid = some t → 0 < t := by
  intro hout
  rw [aabb2_cast_eq_embed]
  have hout' : ¬ AabbMem (embAabb b) (embRay ray).o := by
    intro h; apply hout
    simpa only [AabbMem, Aabb2Mem, embAabb, embRay, emb3, le_refl, and_true] using h
  obtain ⟨h1, h2⟩ := aabb_cast_outside_firstHit sq big (embAabb b) (embRay ray) max solid ⟨hv.1, hv.2, le_refl _⟩
    hmax0 hmaxb hout'
  exact ⟨firstHit_congr _ _ _ _ max (aabbMem_emb sq b ray) _ h1, fun t ht => (h2 t ht).1⟩

/-- **`Aabb::cast_local_ray` (2-D), `solid = false`, origin in the rectangle**: a reported time is the exit parameter
(`≤ max_toi`, `[0,t]` inside, nothing of `(t, Real::MAX]` inside); `None` ⇒ the whole segment stays inside. -/
theorem aabb2_cast_nonsolid_inside (big : K) (b : RcAabb2 K) (ray : Ray2 K) (max : K)
    (hv : b.mins.x ≤ b.maxs.x ∧ b.mins.y ≤ b.maxs.y) (hmax0 : 0 ≤ max) (hmaxb : max ≤ big) :
    letI := fieldNum K sq
    Aabb2Mem b ray.o →
    match b.castLocalRay big ray max false with
    | some t => t ≤ max ∧ (∀ s, 0 ≤ s → s ≤ t → Aabb2Mem b (rayPt2 sq ray s)) ∧
        (∀ s, t < s → s ≤ big → ¬ Aabb2Mem b (rayPt2 sq ray s))
    | none => ∀ s, 0 ≤ s → s ≤ max → Aabb2Mem b (rayPt2 sq ray s) := by
  intro hin
  rw [aabb2_cast_eq_embed]
  have hin' : AabbMem (embAabb b) (embRay ray).o := by
    simpa only [AabbMem, Aabb2Mem, embAabb, embRay, emb3, le_refl, and_true] using hin
  have h := aabb_cast_nonsolid_inside sq big (embAabb b) (embRay ray) max ⟨hv.1, hv.2, le_refl _⟩ hmax0 hmaxb hin'
  revert h
  rcases @Aabb.castLocalRay K (fieldNum K sq) big (embAabb b) (embRay ray) max false with _ | t
  · exact fun h s a c => (aabbMem_emb sq b ray s).1 (h s a c)
  · exact fun ⟨h1, _, _, h4, h5⟩ => ⟨h1, fun s a c => (aabbMem_emb sq b ray s).1 (h4 s a c),
      fun s a c hm => h5 s a c ((aabbMem_emb sq b ray s).2 hm)⟩

/-- **`Cuboid::cast_local_ray` (2-D), solid**: first hit of `{p | |p_i| ≤ he_i}` (`Cuboid2.Mem`). -/
theorem cuboid2_cast_solid_firstHit (big : K) (s : Cuboid2 K) (ray : Ray2 K) (max : K)
    (hhe : 0 ≤ s.he.x ∧ 0 ≤ s.he.y) (hmax0 : 0 ≤ max) (hmaxb : max ≤ big) :
    letI := fieldNum K sq
    FirstHit s.Mem (rayPt2 sq ray) max (s.castLocalRay big ray max true) := by
  have hv : (-s.he.x ≤ s.he.x) ∧ (-s.he.y ≤ s.he.y) := ⟨by linarith [hhe.1], by linarith [hhe.2]⟩
  exact aabb2_cast_solid_firstHit sq big ⟨@V2.neg K (fieldNum K sq) s.he, s.he⟩ ray max hv hmax0 hmaxb

/-- **2-D `ray_toi_with_ball` = the 3-D function on the embedded problem** -/
theorem ball2_toi_eq_embed (c : V2 K) (r : K) (ray : Ray2 K) (solid : Bool) :
    letI := fieldNum K sq
    rayToiWithBall2 c r ray solid = rayToiWithBall (emb3 c) r (embRay ray) solid := by
  simp only [rayToiWithBall2, rayToiWithBall, embRay, emb3, V2.sub, V3.sub, V2.normSq, V3.normSq, V2.dot, V3.dot,
    sub_self, mul_zero, add_zero]
  rfl

private theorem ballMem_emb (b : Ball K) (ray : Ray2 K) (s : K) :
    letI := fieldNum K sq
    b.Mem3 (rayPt sq (embRay ray) s) ↔ b.Mem2 (rayPt2 sq ray s) := by
  simp only [Ball.Mem3, Ball.Mem2, embRay, emb3, rayPt, rayPt2, Ray3.pointAt, Ray2.pointAt, V3.add, V3.smul,
    V2.add, V2.smul, V3.normSq, V2.normSq, V3.dot, V2.dot, zero_mul, add_zero, mul_zero]

private theorem ball2_cast_eq_embed (b : Ball K) (ray : Ray2 K) (max : K) (solid : Bool) :
    letI := fieldNum K sq
    b.castLocalRay2 ray max solid = b.castLocalRay (embRay ray) max solid := by
  simp only [Ball.castLocalRay2, Ball.castLocalRay]
  rw [ball2_toi_eq_embed]
  rfl

private theorem normSq_emb (ray : Ray2 K) :
    letI := fieldNum K sq
    (embRay ray).d.normSq = ray.d.normSq := by
  simp only [embRay, emb3, V3.normSq, V2.normSq, V3.dot, V2.dot, mul_zero, add_zero]

/-- **`Ball::cast_local_ray` (2-D), solid**: for every non-zero direction of any length the result is the first hit of the
disc on `[0, max_toi]`; `None` ⇒ the segment misses the disc. -/
theorem ball2_cast_solid_firstHit (hs : LawfulSqrt sq) (b : Ball K) (ray : Ray2 K) (max : K) :
    letI := fieldNum K sq
    0 < ray.d.normSq →
    FirstHit b.Mem2 (rayPt2 sq ray) max (b.castLocalRay2 ray max true) := by
  intro ha
  rw [ball2_cast_eq_embed]
  exact firstHit_congr _ _ _ _ max (ballMem_emb sq b ray) _
    (ball_cast_solid_firstHit sq hs b (embRay ray) max (by rw [normSq_emb]; exact ha))

/-- **`Ball::cast_local_ray` (2-D), origin outside the disc (both `solid` flags)**: first hit; a reported time is `> 0`. -/
theorem ball2_cast_outside_firstHit (hs : LawfulSqrt sq) (b : Ball K) (ray : Ray2 K) (max : K) (solid : Bool) :
    letI := fieldNum K sq
    0 < ray.d.normSq → ¬ b.Mem2 ray.o →
    FirstHit b.Mem2 (rayPt2 sq ray) max (b.castLocalRay2 ray max solid) ∧
    ∀ t, b.castLocalRay2 ray max solid = some t → 0 < t := by
  intro ha hout
  rw [ball2_cast_eq_embed]
  have hout' : ¬ @Ball.Mem3 K (fieldNum K sq) b (embRay ray).o := by
    intro h; apply hout
    simpa only [Ball.Mem3, Ball.Mem2, embRay, emb3, V3.normSq, V2.normSq, V3.dot, V2.dot, mul_zero, add_zero] using h
  obtain ⟨h1, h2⟩ := ball_cast_outside_firstHit sq hs b (embRay ray) max solid (by rw [normSq_emb]; exact ha) hout'
  exact ⟨firstHit_congr _ _ _ _ max (ballMem_emb sq b ray) _ h1, fun t ht => (h2 t ht).1⟩

/-- **`Ball::cast_local_ray` (2-D), `solid = false`, origin in the disc**: a reported time is `≤ max_toi` and is the exit
parameter (`ExitHit`: `[0,t]` in the disc, everything later outside); `None` ⇒ the whole segment stays in the disc. -/
theorem ball2_cast_nonsolid_inside (hs : LawfulSqrt sq) (b : Ball K) (ray : Ray2 K) (max : K) :
    letI := fieldNum K sq
    0 < ray.d.normSq → b.Mem2 ray.o →
    match b.castLocalRay2 ray max false with
    | some t => t ≤ max ∧ ExitHit b.Mem2 (rayPt2 sq ray) t
    | none => ∀ u, 0 ≤ u → u ≤ max → b.Mem2 (rayPt2 sq ray u) := by
  intro ha hin
  rw [ball2_cast_eq_embed]
  have hin' : @Ball.Mem3 K (fieldNum K sq) b (embRay ray).o := by
    simpa only [Ball.Mem3, Ball.Mem2, embRay, emb3, V3.normSq, V2.normSq, V3.dot, V2.dot, mul_zero, add_zero] using hin
  have h := ball_cast_nonsolid_inside sq hs b (embRay ray) max (by rw [normSq_emb]; exact ha) hin'
  revert h
  rcases @Ball.castLocalRay K (fieldNum K sq) b (embRay ray) max false with _ | t
  · exact fun h u a c => (ballMem_emb sq b ray u).1 (h.1 u a c)
  · intro ⟨h1, _, h3⟩
    refine ⟨h1, ?_⟩
    revert h3
    simp only [ExitHit]
    intro ⟨a, c, d⟩
    exact ⟨a, fun u x y => (ballMem_emb sq b ray u).1 (c u x y), fun u x hm => d u x ((ballMem_emb sq b ray u).2 hm)⟩

/-! ### Triangle (2-D) -/

/-- twice the signed area of the triangle -/
def tri2Area (s : Triangle2 K) : K := (s.b.x - s.a.x) * (s.c.y - s.a.y) - (s.b.y - s.a.y) * (s.c.x - s.a.x)

/-- **Triangle (2-D) cast, `solid = true` with the origin passing the orientation test**: `Some(toi = 0)`
(normal `Vector::y()`, `Face(0)`). -/
theorem tri2_cast_solid_inside (big : K) (s : Triangle2 K) (ray : Ray2 K) (max : K) :
    letI := fieldNum K sq
    letI := fieldUlps K
    s.originInsideTest ray.o = true →
    s.castLocalRayAndGetNormal big ray max true = some { toi := 0, n := ⟨0, 1⟩, fkind := 0, fidx := 0 } := by
  intro h
  simp only [Triangle2.castLocalRayAndGetNormal, h, Bool.and_self, if_true]

/-- **The `solid` orientation test is sound**: for a non-degenerate triangle of either orientation, if the three `perp`
signs agree then the origin belongs to the (closed) triangle — `Triangle2.Mem`, barycentric form. -/
theorem tri2_insideTest_sound (s : Triangle2 K) (o : V2 K) (hA : tri2Area s ≠ 0) :
    letI := fieldNum K sq
    s.originInsideTest o = true → s.Mem o := by
  obtain ⟨⟨ax, ay⟩, ⟨bx, b_y⟩, ⟨cx, cy⟩⟩ := s
  obtain ⟨ox, oy⟩ := o
  simp only [tri2Area] at hA
  simp only [Triangle2.originInsideTest, Triangle2.Mem, V2.perp, V2.sub, V2.add, V2.smul, Bool.and_eq_true, beq_iff_eq,
    decide_eq_decide, V2.mk.injEq]
  intro ⟨h12, h13⟩
  replace h12 := decide_eq_decide.1 h12
  replace h13 := decide_eq_decide.1 h13
  set A := (bx - ax) * (cy - ay) - (b_y - ay) * (cx - ax) with hAdef
  set p1 := (bx - ax) * (oy - ay) - (b_y - ay) * (ox - ax) with hp1
  set p2 := (cx - bx) * (oy - b_y) - (cy - b_y) * (ox - bx) with hp2
  set p3 := (ax - cx) * (oy - cy) - (ay - cy) * (ox - cx) with hp3
  have hsum : p1 + p2 + p3 = A := by simp only [hp1, hp2, hp3, hAdef]; ring
  refine ⟨p3 / A, p1 / A, ?_, ?_, ?_, ?_, ?_⟩
  · by_cases h : 0 < p1
    · have h2 := h12.1 h; have h3 := h13.1 h
      exact div_nonneg h3.le (by linarith)
    · have h2 : ¬ 0 < p2 := fun x => h (h12.2 x); have h3 : ¬ 0 < p3 := fun x => h (h13.2 x)
      push Not at h h2 h3
      exact div_nonneg_of_nonpos h3 (by linarith)
  · by_cases h : 0 < p1
    · have h2 := h12.1 h; have h3 := h13.1 h
      exact div_nonneg h.le (by linarith)
    · have h2 : ¬ 0 < p2 := fun x => h (h12.2 x); have h3 : ¬ 0 < p3 := fun x => h (h13.2 x)
      push Not at h h2 h3
      exact div_nonneg_of_nonpos h (by linarith)
  · have : p3 / A + p1 / A = 1 - p2 / A := by field_simp; linarith
    rw [this]
    have : 0 ≤ p2 / A := by
      by_cases h : 0 < p1
      · have h2 := h12.1 h; have h3 := h13.1 h
        exact div_nonneg h2.le (by linarith)
      · have h2 : ¬ 0 < p2 := fun x => h (h12.2 x); have h3 : ¬ 0 < p3 := fun x => h (h13.2 x)
        push Not at h h2 h3
        exact div_nonneg_of_nonpos h2 (by linarith)
    linarith
  · field_simp
    simp only [hp1, hp3, hAdef]; ring
  · field_simp
    simp only [hp1, hp3, hAdef]; ring

/-- **The orientation test is complete on the interior**: a point with strictly positive barycentric coordinates passes
the test (either orientation), so a `solid` cast from strictly inside reports `toi = 0`. -/
theorem tri2_insideTest_complete (s : Triangle2 K) (u v : K) (hA : tri2Area s ≠ 0) (hu : 0 < u) (hv : 0 < v)
    (huv : u + v < 1) :
    letI := fieldNum K sq
    s.originInsideTest ((s.a.add ((s.b.sub s.a).smul u)).add ((s.c.sub s.a).smul v)) = true := by
  obtain ⟨⟨ax, ay⟩, ⟨bx, b_y⟩, ⟨cx, cy⟩⟩ := s
  simp only [tri2Area] at hA
  simp only [Triangle2.originInsideTest, V2.perp, V2.sub, V2.add, V2.smul, Bool.and_eq_true, beq_iff_eq, decide_eq_decide]
  set A := (bx - ax) * (cy - ay) - (b_y - ay) * (cx - ax) with hAdef
  have e1 : (bx - ax) * (ay + (b_y - ay) * u + (cy - ay) * v - ay) - (b_y - ay) * (ax + (bx - ax) * u + (cx - ax) * v - ax)
      = v * A := by simp only [hAdef]; ring
  have e2 : (cx - bx) * (ay + (b_y - ay) * u + (cy - ay) * v - b_y) - (cy - b_y) * (ax + (bx - ax) * u + (cx - ax) * v - bx)
      = (1 - u - v) * A := by simp only [hAdef]; ring
  have e3 : (ax - cx) * (ay + (b_y - ay) * u + (cy - ay) * v - cy) - (ay - cy) * (ax + (bx - ax) * u + (cx - ax) * v - cx)
      = u * A := by simp only [hAdef]; ring
  simp only [e1, e2, e3]
  have hw : 0 < 1 - u - v := by linarith
  rcases lt_or_gt_of_ne hA with hneg | hpos
  · have n1 : ¬ 0 < v * A := not_lt.2 (mul_nonpos_of_nonneg_of_nonpos hv.le hneg.le)
    have n2 : ¬ 0 < (1 - u - v) * A := not_lt.2 (mul_nonpos_of_nonneg_of_nonpos hw.le hneg.le)
    have n3 : ¬ 0 < u * A := not_lt.2 (mul_nonpos_of_nonneg_of_nonpos hu.le hneg.le)
    exact ⟨decide_eq_decide.2 ⟨fun h => absurd h n1, fun h => absurd h n2⟩,
      decide_eq_decide.2 ⟨fun h => absurd h n1, fun h => absurd h n3⟩⟩
  · have n1 : 0 < v * A := mul_pos hv hpos
    have n2 : 0 < (1 - u - v) * A := mul_pos hw hpos
    have n3 : 0 < u * A := mul_pos hu hpos
    exact ⟨decide_eq_decide.2 ⟨fun _ => n2, fun _ => n1⟩, decide_eq_decide.2 ⟨fun _ => n3, fun _ => n1⟩⟩

/-- invariant of the `for edge in &edges` loop over the edge results seen so far -/
private def FoldOK (big : K) (L : List (Hit2 K)) (acc : Option (Hit2 K) × K) : Prop :=
  match acc.1 with
  | none => acc.2 = big ∧ ∀ h ∈ L, big ≤ h.toi
  | some h => acc.2 = h.toi ∧ h ∈ L ∧ h.toi < big ∧ ∀ h' ∈ L, h.toi ≤ h'.toi

private theorem foldOK_step (big : K) (L : List (Hit2 K)) (acc : Option (Hit2 K) × K) (inter : Option (Hit2 K))
    (h : FoldOK big L acc) :
    letI := fieldNum K sq
    FoldOK big (L ++ inter.toList) (tri2Fold acc inter) := by
  obtain ⟨a, m⟩ := acc
  cases inter with
  | none => simpa [tri2Fold] using h
  | some x =>
    simp only [tri2Fold, Option.toList_some]
    cases a with
    | none =>
      simp only [FoldOK] at h
      obtain ⟨hm, hall⟩ := h
      subst hm
      split_ifs with hlt
      · refine ⟨rfl, by simp, hlt, ?_⟩
        intro h' hm
        rcases List.mem_append.1 hm with hm | hm
        · exact le_trans hlt.le (hall _ hm)
        · simp only [List.mem_singleton] at hm; rw [hm]
      · refine ⟨rfl, ?_⟩
        intro h' hm
        rcases List.mem_append.1 hm with hm | hm
        · exact hall _ hm
        · simp only [List.mem_singleton] at hm; rw [hm]; exact not_lt.1 hlt
    | some y =>
      simp only [FoldOK] at h
      obtain ⟨hm, hin, hyb, hall⟩ := h
      subst hm
      split_ifs with hlt
      · refine ⟨rfl, by simp, lt_trans hlt hyb, ?_⟩
        intro h' hm
        rcases List.mem_append.1 hm with hm | hm
        · exact le_trans hlt.le (hall _ hm)
        · simp only [List.mem_singleton] at hm; rw [hm]
      · refine ⟨rfl, List.mem_append_left _ hin, hyb, ?_⟩
        intro h' hm
        rcases List.mem_append.1 hm with hm | hm
        · exact hall _ hm
        · simp only [List.mem_singleton] at hm; rw [hm]; exact not_lt.1 hlt

/-- **Triangle (2-D) cast = the nearest of the three edge casts** (every case that does not take the `solid` shortcut):
a reported hit is the result of one of the edge casts `ab`, `bc`, `ca` (`Segment::cast_local_ray_and_get_normal`, to which
the segment theorems of `Theorems1.lean` apply: point on the edge, unit perpendicular normal facing the ray), its time is
below `Real::MAX` and no edge cast reports a smaller time; `None` ⇒ no edge cast reports a time below `Real::MAX`. -/
theorem tri2_cast_best_of_edges (big : K) (s : Triangle2 K) (ray : Ray2 K) (max : K) (solid : Bool) :
    letI := fieldNum K sq
    letI := fieldUlps K
    (solid && s.originInsideTest ray.o) = false →
    let e0 := (Segment2.mk s.a s.b).castLocalRayAndGetNormal ray max solid
    let e1 := (Segment2.mk s.b s.c).castLocalRayAndGetNormal ray max solid
    let e2 := (Segment2.mk s.c s.a).castLocalRayAndGetNormal ray max solid
    match s.castLocalRayAndGetNormal big ray max solid with
    | some h => (e0 = some h ∨ e1 = some h ∨ e2 = some h) ∧ h.toi < big ∧
        ∀ h', (e0 = some h' ∨ e1 = some h' ∨ e2 = some h') → h.toi ≤ h'.toi
    | none => ∀ h', (e0 = some h' ∨ e1 = some h' ∨ e2 = some h') → big ≤ h'.toi := by
  intro hns
  simp only [Triangle2.castLocalRayAndGetNormal, hns, Bool.false_eq_true, if_false]
  generalize @Segment2.castLocalRayAndGetNormal K (fieldNum K sq) (fieldUlps K) ⟨s.a, s.b⟩ ray max solid = e0
  generalize @Segment2.castLocalRayAndGetNormal K (fieldNum K sq) (fieldUlps K) ⟨s.b, s.c⟩ ray max solid = e1
  generalize @Segment2.castLocalRayAndGetNormal K (fieldNum K sq) (fieldUlps K) ⟨s.c, s.a⟩ ray max solid = e2
  have h0 : FoldOK big [] ((none : Option (Hit2 K)), big) := ⟨rfl, fun _ hm => by simp at hm⟩
  have h3 := foldOK_step sq big _ _ e2 (foldOK_step sq big _ _ e1 (foldOK_step sq big _ _ e0 h0))
  have hmem : ∀ h' : Hit2 K, h' ∈ ([] ++ e0.toList ++ e1.toList ++ e2.toList) ↔
      (e0 = some h' ∨ e1 = some h' ∨ e2 = some h') := by
    intro h'
    simp only [List.nil_append, List.mem_append, Option.mem_toList, or_assoc, Option.mem_def]
  revert h3
  simp only [FoldOK]
  rcases (@tri2Fold K (fieldNum K sq) (@tri2Fold K (fieldNum K sq) (@tri2Fold K (fieldNum K sq) (none, big) e0) e1) e2)
    with ⟨_ | h, m⟩
  · exact fun ⟨_, hall⟩ h' hm => hall h' ((hmem h').2 hm)
  · exact fun ⟨_, hin, hlt, hall⟩ => ⟨(hmem h).1 hin, hlt, fun h' hm => hall h' ((hmem h').2 hm)⟩

/-- non-vacuity of the 2-D triangle theorems: the triangle `(0,0),(2,0),(0,2)` is non-degenerate, the point `(1/2,1/2)` has
strictly positive barycentric coordinates `u = v = 1/4` and passes the orientation test (over `ℚ`) -/
example : tri2Area (K := ℚ) ⟨⟨0, 0⟩, ⟨2, 0⟩, ⟨0, 2⟩⟩ ≠ 0 := by norm_num [tri2Area]
example : letI := fieldNum ℚ (fun x => x)
    (Triangle2.mk ⟨0, 0⟩ ⟨2, 0⟩ ⟨0, 2⟩ : Triangle2 ℚ).originInsideTest ⟨1 / 2, 1 / 2⟩ = true := by
  simp only [Triangle2.originInsideTest, V2.perp, V2.sub]; norm_num
/-- non-vacuity of the 2-D box theorems: a valid rectangle and `0 ≤ max ≤ big` -/
example : ((-1 : ℚ) ≤ 1 ∧ (-2 : ℚ) ≤ 2) ∧ (0 : ℚ) ≤ 5 ∧ (5 : ℚ) ≤ 1000 := by norm_num

/-! ## C. HeightField (3-D) grid walk: one step never skips a column -/

/-- **`nextCell` (the "find the next cell" tail of one iteration of the 3-D heightfield walk) is sound and complete for one
step.**  Let the ray be in the column of the valid cell `(ci, cj)` at parameter `t ≥ 0` (`ColMem`: `x ∈ [x_at(cj), x_at(cj+1)]`,
`z ∈ [z_at(ci), z_at(ci+1)]`), grid lines non-decreasing, `max_t < Real::MAX`.  Then
* `Some (ni, nj)`: there is a parameter `te ∈ [t, max_t]` such that the ray stays in the column of `(ci, cj)` on `[t, te]`
  and is in the column of `(ni, nj)` at `te`, and `(ni, nj)` is the 4-neighbour across the boundary reached — no column the
  ray crosses is skipped, and cells are visited in the order of their entry times;
* `None`: either the ray stays in the column of `(ci, cj)` for the whole rest `[t, max_t]` of the clipped range, or it stays
  there until a parameter `te ≤ max_t` at which it reaches the outer edge of the grid moving outwards.
By induction over the walk this is the completeness of the cell walk (`hf_cast_firstHit_full`); the induction itself (with
the start cell `closest_cell_at_point`) is not carried out — it stays covered by the brute-force oracle. -/
theorem hf_nextCell_step (big : K) (h : HeightField3 K) (ray : Ray3 K) (maxT t : K) (ci cj : Nat)
    (ht : 0 ≤ t) (hbig : maxT < big) (hvalid : ci < h.nr - 1 ∧ cj < h.nc - 1)
    (hmx : letI := fieldNum K sq; ∀ j, h.xAt j ≤ h.xAt (j + 1))
    (hmz : letI := fieldNum K sq; ∀ i, h.zAt i ≤ h.zAt (i + 1))
    (hin : ColMem sq h ci cj (rayPt sq ray t)) :
    letI := fieldNum K sq
    match h.nextCell big ray maxT ci cj with
    | some (ni, nj) => ∃ te, t ≤ te ∧ te ≤ maxT ∧ (∀ s, t ≤ s → s ≤ te → ColMem sq h ci cj (rayPt sq ray s)) ∧
        ColMem sq h ni nj (rayPt sq ray te) ∧
        ((ni = ci ∧ (nj = cj + 1 ∨ nj + 1 = cj)) ∨ (nj = cj ∧ (ni = ci + 1 ∨ ni + 1 = ci)))
    | none => (∀ s, t ≤ s → s ≤ maxT → ColMem sq h ci cj (rayPt sq ray s)) ∨
        ∃ te, t ≤ te ∧ te ≤ maxT ∧ (∀ s, t ≤ s → s ≤ te → ColMem sq h ci cj (rayPt sq ray s)) ∧
          ((ray.d.x < 0 ∧ (rayPt sq ray te).x = h.xAt 0) ∨ (0 < ray.d.x ∧ (rayPt sq ray te).x = h.xAt (h.nc - 1)) ∨
           (ray.d.z < 0 ∧ (rayPt sq ray te).z = h.zAt 0) ∨ (0 < ray.d.z ∧ (rayPt sq ray te).z = h.zAt (h.nr - 1))) := by
  rw [nextCell_eq]
  have hpx : ∀ s, (rayPt sq ray s).x = ray.o.x + ray.d.x * s := fun s => rfl
  have hpz : ∀ s, (rayPt sq ray s).z = ray.o.z + ray.d.z * s := fun s => rfl
  obtain ⟨hinx, hinz⟩ := hin
  rw [hpx] at hinx; rw [hpz] at hinz
  obtain ⟨X1, X2, X3, X4, X5⟩ := axisToi_spec big (@HeightField3.xAt K (fieldNum K sq) h cj)
    (@HeightField3.xAt K (fieldNum K sq) h (cj + 1)) ray.o.x ray.d.x t ht hinx
  obtain ⟨Z1, Z2, Z3, Z4, Z5⟩ := axisToi_spec big (@HeightField3.zAt K (fieldNum K sq) h ci)
    (@HeightField3.zAt K (fieldNum K sq) h (ci + 1)) ray.o.z ray.d.z t ht hinz
  simp only [nextCellA]
  generalize hTx : max (axisToi big (@HeightField3.xAt K (fieldNum K sq) h cj)
    (@HeightField3.xAt K (fieldNum K sq) h (cj + 1)) ray.o.x ray.d.x).1 0 = Tx at *
  generalize hTz : max (axisToi big (@HeightField3.zAt K (fieldNum K sq) h ci)
    (@HeightField3.zAt K (fieldNum K sq) h (ci + 1)) ray.o.z ray.d.z).1 0 = Tz at *
  generalize (axisToi big (@HeightField3.xAt K (fieldNum K sq) h cj)
    (@HeightField3.xAt K (fieldNum K sq) h (cj + 1)) ray.o.x ray.d.x).2 = fx at *
  generalize (axisToi big (@HeightField3.zAt K (fieldNum K sq) h ci)
    (@HeightField3.zAt K (fieldNum K sq) h (ci + 1)) ray.o.z ray.d.z).2 = fz at *
  have hTz0 : 0 ≤ Tz := by rw [← hTz]; exact le_max_right _ _
  have hTx0 : 0 ≤ Tx := by rw [← hTx]; exact le_max_right _ _
  have col : ∀ te, te ≤ Tx → te ≤ Tz → ∀ s, t ≤ s → s ≤ te → ColMem sq h ci cj (rayPt sq ray s) := by
    intro te h1 h2 s a b
    exact ⟨by rw [hpx]; exact X1 s a (le_trans b h1), by rw [hpz]; exact Z1 s a (le_trans b h2)⟩
  by_cases hstop : maxT < Tx ∧ maxT < Tz
  · rw [if_pos hstop]
    exact Or.inl (col maxT hstop.1.le hstop.2.le)
  · rw [if_neg hstop]
    by_cases hxs : 0 ≤ Tx ∧ Tx < Tz
    · -- step along x
      have hle : Tx ≤ maxT := by
        by_contra hc; push Not at hc; exact hstop ⟨hc, lt_trans hc hxs.2⟩
      have hdx : ray.d.x ≠ 0 := by
        intro h0
        have := (X5 h0).2
        linarith
      have htx := X2 hdx
      rw [if_pos hxs]
      rcases lt_or_gt_of_ne hdx with hneg | hpos
      · obtain ⟨hf, hval⟩ := X4 hneg
        rw [hf]
        simp only [Bool.false_eq_true, if_false]
        by_cases hcj : 0 < cj
        · rw [if_pos hcj]
          have hidx : ¬ (h.nr - 1 ≤ ci ∨ h.nc - 1 ≤ cj - 1) := by omega
          simp only [hidx, if_false]
          refine ⟨Tx, htx, hle, col Tx (le_refl _) hxs.2.le, ⟨?_, ?_⟩, (by first | omega | (simp; done) | (simp; omega))⟩
          · rw [hpx, hval]
            have e : cj - 1 + 1 = cj := by omega
            have hm1 := hmx (cj - 1)
            rw [e] at hm1 ⊢
            exact ⟨hm1, le_refl _⟩
          · rw [hpz]; exact Z1 Tx htx hxs.2.le
        · rw [if_neg hcj]
          have e0 : cj = 0 := by omega
          refine Or.inr ⟨Tx, htx, hle, col Tx (le_refl _) hxs.2.le, Or.inl ⟨hneg, ?_⟩⟩
          rw [hpx, hval, e0]
      · obtain ⟨hf, hval⟩ := X3 hpos
        rw [hf]
        simp only [if_true]
        by_cases hidx : h.nr - 1 ≤ ci ∨ h.nc - 1 ≤ cj + 1
        · simp only [hidx, if_true]
          have e : cj + 1 = h.nc - 1 := by omega
          refine Or.inr ⟨Tx, htx, hle, col Tx (le_refl _) hxs.2.le, Or.inr (Or.inl ⟨hpos, ?_⟩)⟩
          rw [hpx, hval, e]
        · simp only [hidx, if_false]
          refine ⟨Tx, htx, hle, col Tx (le_refl _) hxs.2.le, ⟨?_, ?_⟩, (by first | omega | (simp; done) | (simp; omega))⟩
          · rw [hpx, hval]; exact ⟨le_refl _, hmx (cj + 1)⟩
          · rw [hpz]; exact Z1 Tx htx hxs.2.le
    · -- step along z
      rw [if_neg hxs, if_pos hTz0]
      have hzx : Tz ≤ Tx := by
        by_contra hc; push Not at hc; exact hxs ⟨hTx0, hc⟩
      have hle : Tz ≤ maxT := by
        by_contra hc; push Not at hc; exact hstop ⟨lt_of_lt_of_le hc hzx, hc⟩
      have hdz : ray.d.z ≠ 0 := by
        intro h0
        have := (Z5 h0).2
        linarith
      have htz := Z2 hdz
      rcases lt_or_gt_of_ne hdz with hneg | hpos
      · obtain ⟨hf, hval⟩ := Z4 hneg
        rw [hf]
        simp only [Bool.false_eq_true, if_false]
        by_cases hci : 0 < ci
        · rw [if_pos hci]
          have hidx : ¬ (h.nr - 1 ≤ ci - 1 ∨ h.nc - 1 ≤ cj) := by omega
          simp only [hidx, if_false]
          refine ⟨Tz, htz, hle, col Tz hzx (le_refl _), ⟨?_, ?_⟩, (by first | omega | (simp; done) | (simp; omega))⟩
          · rw [hpx]; exact X1 Tz htz hzx
          · rw [hpz, hval]
            have e : ci - 1 + 1 = ci := by omega
            have hm1 := hmz (ci - 1)
            rw [e] at hm1 ⊢
            exact ⟨hm1, le_refl _⟩
        · rw [if_neg hci]
          have e0 : ci = 0 := by omega
          refine Or.inr ⟨Tz, htz, hle, col Tz hzx (le_refl _), Or.inr (Or.inr (Or.inl ⟨hneg, ?_⟩))⟩
          rw [hpz, hval, e0]
      · obtain ⟨hf, hval⟩ := Z3 hpos
        rw [hf]
        simp only [if_true]
        by_cases hidx : h.nr - 1 ≤ ci + 1 ∨ h.nc - 1 ≤ cj
        · simp only [hidx, if_true]
          have e : ci + 1 = h.nr - 1 := by omega
          refine Or.inr ⟨Tz, htz, hle, col Tz hzx (le_refl _), Or.inr (Or.inr (Or.inr ⟨hpos, ?_⟩))⟩
          rw [hpz, hval, e]
        · simp only [hidx, if_false]
          refine ⟨Tz, htz, hle, col Tz hzx (le_refl _), ⟨?_, ?_⟩, (by first | omega | (simp; done) | (simp; omega))⟩
          · rw [hpx]; exact X1 Tz htz hzx
          · rw [hpz, hval]; exact ⟨le_refl _, hmz (ci + 1)⟩

private theorem lit_nat (n : Nat) : @lit K (fieldNum K sq) ((n : Nat) : Int) 1 = (n : K) := by
  rw [fieldNum_lit]; simp [Rat.mkRat_one]

/-- the grid-line hypotheses of `hf_nextCell_step` hold for every heightfield with at least two columns / rows and
non-negative horizontal scales (so they are satisfiable: non-vacuity) -/
theorem hf_grid_mono (h : HeightField3 K) (hnc : 2 ≤ h.nc) (hnr : 2 ≤ h.nr) (hsx : 0 ≤ h.sc.x) (hsz : 0 ≤ h.sc.z) :
    letI := fieldNum K sq
    (∀ j, h.xAt j ≤ h.xAt (j + 1)) ∧ (∀ i, h.zAt i ≤ h.zAt (i + 1)) := by
  have hc : (0 : K) < (h.nc : K) - 1 := by
    have : (2 : K) ≤ (h.nc : K) := by exact_mod_cast hnc
    linarith
  have hr : (0 : K) < (h.nr : K) - 1 := by
    have : (2 : K) ≤ (h.nr : K) := by exact_mod_cast hnr
    linarith
  constructor
  · intro j
    simp only [HeightField3.xAt, HeightField3.ucw, lit_nat]
    have : ((j + 1 : Nat) : K) = (j : K) + 1 := by push_cast; ring
    rw [this]
    have hu : 0 ≤ 1 / ((h.nc : K) - 1) := by positivity
    nlinarith [mul_nonneg hu hsx]
  · intro i
    simp only [HeightField3.zAt, HeightField3.uch, lit_nat]
    have : ((i + 1 : Nat) : K) = (i : K) + 1 := by push_cast; ring
    rw [this]
    have hu : 0 ≤ 1 / ((h.nr : K) - 1) := by positivity
    nlinarith [mul_nonneg hu hsz]

/-- non-vacuity: the support function of the cube `[-1,1]³` (`sign`-vertex) dominates the cube, over `ℚ` -/
example : Supports (K := ℚ) (fun p => |p.x| ≤ 1 ∧ |p.y| ≤ 1 ∧ |p.z| ≤ 1)
    (fun d => ⟨if d.x < 0 then -1 else 1, if d.y < 0 then -1 else 1, if d.z < 0 then -1 else 1⟩) := by
  intro d p ⟨hx, hy, hz⟩
  simp only [dotK]
  rw [abs_le] at hx hy hz
  split_ifs <;> nlinarith [hx.1, hx.2, hy.1, hy.2, hz.1, hz.2]

end C04
