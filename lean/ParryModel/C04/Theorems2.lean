import ParryModel.C04.Lemmas2
import ParryModel.C04.Theorems1
/-!
# C04 property theorems, part 2: composite shapes.

* the pruning test / node weight of the best-first BVH ray visitors (`SimdAabb::cast_local_ray`, one lane): a node is
  pruned only if the ray segment `[0, max_toi]` misses its box, and the weight is the exact entry time — a lower bound of
  every hit inside the box (clause "`None` means the ray segment does not meet the shape", and "first hit");
* the per-cell step of the 3-D heightfield cast: of the two triangles of a cell the FIRST one hit is reported;
* the 3-D heightfield cast: every reported hit is the first hit of the two triangles of an existing cell.

Every statement holds for any linearly ordered field and **every direction (no unit-length assumption)**.
Vocabulary: `FirstHit`, `AabbMem`, `rayPt`, `triD`, `triT` from `C04/Lemmas.lean`; `OMem`, `CellMem` below.
-/
namespace C04
open Model

variable {K : Type} [Field K] [LinearOrder K] [IsStrictOrderedRing K] (sq : K → K)

/-! ## `SimdAabb::cast_local_ray` (one lane) -/

/-- **SimdAabb::cast_local_ray, full specification of one lane**, for a valid box, `0 ≤ max_toi ≤ Real::MAX`, any
direction (zero components allowed, also the zero vector): the returned pair `(hit, tmin)` satisfies
`hit = true` ⇒ `tmin` is the first parameter of `[0, max_toi]` at which the ray is in the CLOSED box
(`0 ≤ tmin ≤ max_toi`, the point is in the box, no earlier point is), and
`hit = false` ⇒ no parameter of `[0, max_toi]` is in the box.
In particular a ray running exactly in the plane of a face (`dir[i] = 0`, `origin[i] = mins[i]` or `maxs[i]`) is NOT
pruned. -/
theorem simdAabb_cast_spec (big : K) (b : Aabb K) (ray : Ray3 K) (max : K) (hv : AabbValid b)
    (h0 : 0 ≤ max) (hmax : max ≤ big) :
    letI := fieldNum K sq
    FirstHit (AabbMem b) (rayPt sq ray) max
      (if (simdAabbCastLocalRay big b ray max).1 then some (simdAabbCastLocalRay big b ray max).2 else none) := by
  obtain ⟨st, he, inv⟩ := simdAabb_fold sq big b ray max hv (le_trans h0 hmax) h0 hmax
  rw [he]
  cases hh : st.hit with
  | false => exact fun s a c => inv.dead hh s a c
  | true =>
    obtain ⟨hle, hiff⟩ := inv.alive hh
    simp only [if_true]
    refine ⟨inv.lo, le_trans hle inv.hi, (hiff _ inv.lo (le_trans hle inv.hi)).2 ⟨le_refl _, hle⟩, fun s hs hlt hm => ?_⟩
    have := (hiff s hs (le_trans hlt.le (le_trans hle inv.hi))).1 hm
    linarith [this.1]

/-- **Pruning is sound**: if the lane of a node reports `hit = false`, then no shape contained in the node's box is met
by the ray on `[0, max_toi]` — skipping the node cannot lose a hit. -/
theorem simdAabb_prune_sound (big : K) (b : Aabb K) (ray : Ray3 K) (max : K) (S : V3 K → Prop)
    (hv : AabbValid b) (h0 : 0 ≤ max) (hmax : max ≤ big) (hS : ∀ p, S p → AabbMem b p) :
    letI := fieldNum K sq
    (simdAabbCastLocalRay big b ray max).1 = false →
    ∀ s, 0 ≤ s → s ≤ max → ¬ S (rayPt sq ray s) := by
  intro hh s a c hs
  have := simdAabb_cast_spec sq big b ray max hv h0 hmax
  rw [hh] at this
  exact this s a c (hS _ hs)

/-- **The node weight is admissible**: every parameter of `[0, max_toi]` at which the ray is in a shape contained in the
node's box is `≥ tmin` (and the lane then reports `hit = true`): the best-first traversal, which visits nodes by increasing
`tmin` and stops when `tmin` exceeds the best time found, cannot skip an earlier hit. -/
theorem simdAabb_weight_lower_bound (big : K) (b : Aabb K) (ray : Ray3 K) (max : K) (S : V3 K → Prop)
    (hv : AabbValid b) (h0 : 0 ≤ max) (hmax : max ≤ big) (hS : ∀ p, S p → AabbMem b p) (s : K) :
    letI := fieldNum K sq
    0 ≤ s → s ≤ max → S (rayPt sq ray s) →
    (simdAabbCastLocalRay big b ray max).1 = true ∧ (simdAabbCastLocalRay big b ray max).2 ≤ s := by
  intro a c hs
  have spec := simdAabb_cast_spec sq big b ray max hv h0 hmax
  cases hh : (@simdAabbCastLocalRay K (fieldNum K sq) big b ray max).1 with
  | false => rw [hh] at spec; exact absurd (hS _ hs) (spec s a c)
  | true =>
    rw [hh] at spec
    simp only [if_true] at spec
    refine ⟨rfl, ?_⟩
    by_contra hlt
    push Not at hlt
    exact spec.2.2.2 s a hlt (hS _ hs)

/-- non-vacuity and the tie itself (over `ℚ`): the unit cube, a vertical ray of direction length 2 running exactly in the
plane `x = 1` of a face: the lane reports `hit = true` with `tmin = 1` (the ray enters the closed box at `y = 1`);
the same ray shifted outside (`x = 3/2`) is pruned. -/
example : letI := fieldNum ℚ id
    simdAabbCastLocalRay (1000 : ℚ) ⟨⟨-1,-1,-1⟩, ⟨1,1,1⟩⟩ ⟨⟨1,3,1/2⟩, ⟨0,-2,0⟩⟩ 10 = (true, 1) ∧
    (simdAabbCastLocalRay (1000 : ℚ) ⟨⟨-1,-1,-1⟩, ⟨1,1,1⟩⟩ ⟨⟨3/2,3,1/2⟩, ⟨0,-2,0⟩⟩ 10).1 = false ∧
    AabbValid (⟨⟨-1,-1,-1⟩, ⟨1,1,1⟩⟩ : Aabb ℚ) ∧ (0:ℚ) ≤ 10 ∧ (10:ℚ) ≤ 1000 := by
  refine ⟨?_, ?_, ?_, by norm_num, by norm_num⟩
  · simp only [simdAabbCastLocalRay, simdSlabStep, neq]; norm_num
  · simp only [simdAabbCastLocalRay, simdSlabStep, neq]; norm_num
  · simp only [AabbValid]; norm_num

/-! ## 3-D heightfield: the per-cell step -/

/-- membership in an optional triangle (a removed triangle is the empty set) -/
def OMem (t : Option (Triangle3 K)) (p : V3 K) : Prop := letI := fieldNum K sq; ∃ s, t = some s ∧ s.Mem p
/-- the part of the heightfield surface above one cell: its (at most) two triangles -/
def CellMem (t1 t2 : Option (Triangle3 K)) (p : V3 K) : Prop := OMem sq t1 p ∨ OMem sq t2 p
/-- the ray does not lie in the plane of the (optional) triangle — the coplanar case the triangle cast gives up on
(KNOWN_FINDINGS) -/
def ONotCoplanar (t : Option (Triangle3 K)) (ray : Ray3 K) : Prop :=
  ∀ s, t = some s → ¬ (triD sq s.a s.b s.c ray = 0 ∧ triT sq s.a s.b s.c ray = 0)

private theorem otri_firstHit (t : Option (Triangle3 K)) (ray : Ray3 K) (max : K) (solid : Bool)
    (hnc : ONotCoplanar sq t ray) :
    letI := fieldNum K sq
    FirstHit (OMem sq t) (rayPt sq ray) max ((t.bind fun s => s.castLocalRayAndGetNormal ray max solid).map (·.toi)) := by
  cases t with
  | none => exact fun s _ _ ⟨_, h, _⟩ => by cases h
  | some tr =>
    have h := triangle_cast_firstHit_partial sq tr ray max solid (hnc tr rfl)
    simp only [Option.bind_some]
    cases hr : (@Triangle3.castLocalRayAndGetNormal K (fieldNum K sq) tr ray max solid) with
    | none =>
      rw [hr] at h
      exact fun s a c ⟨s', e, m⟩ => by cases e; exact h s a c m
    | some r =>
      rw [hr] at h
      obtain ⟨a0, am, aS, aF⟩ := h
      exact ⟨a0, am, ⟨tr, rfl, aS⟩, fun s a c ⟨s', e, m⟩ => by cases e; exact aF s a c m⟩

/-- **Heightfield cell step = first hit of the two triangles of the cell.**  For a ray that does not lie in the plane of
either triangle (any direction length, both `solid` flags, every `max_toi`, removed triangles allowed): the time reported by
the per-cell step is the FIRST parameter of `[0, max_toi]` at which the ray is in one of the two triangles — in particular
when the ray pierces both triangles of a folded cell the nearer crossing is returned — and `None` means the segment misses
both. -/
theorem hfCellCast_firstHit (t1 t2 : Option (Triangle3 K)) (ray : Ray3 K) (max : K) (solid : Bool)
    (h1 : ONotCoplanar sq t1 ray) (h2 : ONotCoplanar sq t2 ray) :
    letI := fieldNum K sq
    FirstHit (CellMem sq t1 t2) (rayPt sq ray) max ((hfCellCast t1 t2 ray max solid).map (fun r => r.2.toi)) := by
  simp only [hfCellCast]
  rw [hfCellPick_toi]
  exact firstHit_union _ _ _ _ _ _ (otri_firstHit sq t1 ray max solid h1) (otri_firstHit sq t2 ray max solid h2)

/-- **The cell step returns a hit of the triangle it names** (`left = true`: the first triangle of the cell): toi, normal
and face come unchanged from that triangle's cast, so `triangle_normal_spec` (unit normal, collinear with the triangle's
normal, facing the ray) applies to the reported normal. -/
theorem hfCellCast_from_triangle (t1 t2 : Option (Triangle3 K)) (ray : Ray3 K) (max : K) (solid : Bool)
    (left : Bool) (hit : Hit3 K) :
    letI := fieldNum K sq
    hfCellCast t1 t2 ray max solid = some (left, hit) →
    ∃ tr, (bif left then t1 else t2) = some tr ∧ tr.castLocalRayAndGetNormal ray max solid = some hit := by
  simp only [hfCellCast]
  cases t1 with
  | none =>
    cases t2 with
    | none => simp [hfCellPick]
    | some b =>
      simp only [Option.bind_none, Option.bind_some]
      cases hb : (@Triangle3.castLocalRayAndGetNormal K (fieldNum K sq) b ray max solid) with
      | none => simp [hfCellPick]
      | some rb =>
        simp only [hfCellPick, Option.some.injEq, Prod.mk.injEq]
        rintro ⟨rfl, rfl⟩
        exact ⟨b, by simp, hb⟩
  | some a =>
    simp only [Option.bind_some]
    cases ha : (@Triangle3.castLocalRayAndGetNormal K (fieldNum K sq) a ray max solid) with
    | none =>
      cases t2 with
      | none => simp [hfCellPick]
      | some b =>
        simp only [Option.bind_some]
        cases hb : (@Triangle3.castLocalRayAndGetNormal K (fieldNum K sq) b ray max solid) with
        | none => simp [hfCellPick]
        | some rb =>
          simp only [hfCellPick, Option.some.injEq, Prod.mk.injEq]
          rintro ⟨rfl, rfl⟩
          exact ⟨b, by simp, hb⟩
    | some ra =>
      cases t2 with
      | none =>
        simp only [Option.bind_none, hfCellPick, Option.some.injEq, Prod.mk.injEq]
        rintro ⟨rfl, rfl⟩
        exact ⟨a, by simp, ha⟩
      | some b =>
        simp only [Option.bind_some]
        cases hb : (@Triangle3.castLocalRayAndGetNormal K (fieldNum K sq) b ray max solid) with
        | none =>
          simp only [hfCellPick, Option.some.injEq, Prod.mk.injEq]
          rintro ⟨rfl, rfl⟩
          exact ⟨a, by simp, ha⟩
        | some rb =>
          simp only [hfCellPick]
          split_ifs with hlt
          · simp only [Option.some.injEq, Prod.mk.injEq]
            rintro ⟨rfl, rfl⟩
            exact ⟨a, by simp, ha⟩
          · simp only [Option.some.injEq, Prod.mk.injEq]
            rintro ⟨rfl, rfl⟩
            exact ⟨b, by simp, hb⟩

/-- non-vacuity and the fold itself (over `ℚ`): the valley cell with corner heights `1, 0, 0, 1` (unit square centred at
the origin), horizontal ray at height `1/2` across the fold, direction `(1, 0, 1)` (length `√2`): the ray pierces the first
triangle at `7/20` and the second at `17/20`; the cell step returns the first triangle's hit at `7/20`. -/
example : letI := fieldNum ℚ id
    ((hfCellCast (some (⟨⟨-1/2,1,-1/2⟩, ⟨-1/2,0,1/2⟩, ⟨1/2,0,-1/2⟩⟩ : Triangle3 ℚ))
                 (some (⟨⟨-1/2,0,1/2⟩, ⟨1/2,1,1/2⟩, ⟨1/2,0,-1/2⟩⟩ : Triangle3 ℚ))
                 ⟨⟨-3/5,1/2,-3/5⟩, ⟨1,0,1⟩⟩ 1000 true).map fun r => (r.1, r.2.toi)) = some (true, 7/20) ∧
    ((Triangle3.castLocalRayAndGetNormal (⟨⟨-1/2,0,1/2⟩, ⟨1/2,1,1/2⟩, ⟨1/2,0,-1/2⟩⟩ : Triangle3 ℚ)
                 ⟨⟨-3/5,1/2,-3/5⟩, ⟨1,0,1⟩⟩ 1000 true).map (·.toi)) = some (17/20) := by
  constructor
  · simp only [hfCellCast, hfCellPick, Triangle3.castLocalRayAndGetNormal, localRayIntersectionWithTriangle, neq, nabs,
      V3.sub, V3.cross, V3.dot, V3.neg, Option.bind_some]
    norm_num
  · simp only [Triangle3.castLocalRayAndGetNormal, localRayIntersectionWithTriangle, neq, nabs,
      V3.sub, V3.cross, V3.dot, V3.neg]
    norm_num

/-! ## 3-D heightfield: the whole cast -/

private theorem hfCellCast_none_none (ray : Ray3 K) (max : K) (solid : Bool) :
    letI := fieldNum K sq
    hfCellCast (none : Option (Triangle3 K)) none ray max solid = none := rfl

private theorem trianglesAt_out_of_range (h : HeightField3 K) (i j : Nat) (hr : ¬ (i < h.nr - 1 ∧ j < h.nc - 1)) :
    letI := fieldNum K sq
    h.trianglesAt i j = (none, none) := by
  have : h.nr - 1 ≤ i ∨ h.nc - 1 ≤ j := by omega
  simp only [HeightField3.trianglesAt, this, if_true]

private theorem hf_walk_sound (big : K) (h : HeightField3 K) (ray : Ray3 K) (max : K) (solid : Bool) (maxT : K)
    (fuel : Nat) (cell : Nat × Nat) (r : Hit3 K) :
    letI := fieldNum K sq
    HeightField3.walk big h ray max solid maxT fuel cell = some r →
    ∃ i j left hit, i < h.nr - 1 ∧ j < h.nc - 1 ∧
      hfCellCast (h.trianglesAt i j).1 (h.trianglesAt i j).2 ray max solid = some (left, hit) ∧
      r.toi = hit.toi ∧ r.n = hit.n ∧ r.fidx = h.faceId i j left hit.fidx := by
  induction fuel generalizing cell with
  | zero => intro hw; simp [HeightField3.walk] at hw
  | succ n ih =>
    obtain ⟨ci, cj⟩ := cell
    intro hw
    simp only [HeightField3.walk] at hw
    cases hc : (@hfCellCast K (fieldNum K sq) (@HeightField3.trianglesAt K (fieldNum K sq) h ci cj).1
        (@HeightField3.trianglesAt K (fieldNum K sq) h ci cj).2 ray max solid) with
    | some p =>
      obtain ⟨left, hit⟩ := p
      rw [hc] at hw
      simp only [Option.some.injEq] at hw
      have hin : ci < h.nr - 1 ∧ cj < h.nc - 1 := by
        by_contra hn
        rw [trianglesAt_out_of_range sq h ci cj hn] at hc
        simp only [hfCellCast_none_none] at hc
        cases hc
      refine ⟨ci, cj, left, hit, hin.1, hin.2, hc, ?_, ?_, ?_⟩ <;> rw [← hw]
    | none =>
      rw [hc] at hw
      simp only at hw
      cases hn : (@HeightField3.nextCell K (fieldNum K sq) big h ray maxT ci cj) with
      | none => rw [hn] at hw; cases hw
      | some c => rw [hn] at hw; exact ih c hw

/-- **3-D HeightField cast (corrected start cell and boundary times): a reported hit is the first hit of an existing
cell.**  If `cast_local_ray_and_get_normal` returns `Some`, there is a cell `(i, j)` of the grid (`i < nrows`, `j < ncols`
in cells) such that the result is exactly what the per-cell step reports for the two triangles `triangles_at(i, j)`: same
time, same normal, face id of the named triangle.  Combined with `hfCellCast_firstHit`: for a ray not lying in the plane of
those two triangles, `0 ≤ toi ≤ max_toi`, the hit point is on the surface (in one of the two triangles) and no earlier
point of the ray is in either of them. -/
theorem hf_cast_sound (big : K) (h : HeightField3 K) (ray : Ray3 K) (max : K) (solid : Bool) (r : Hit3 K) :
    letI := fieldNum K sq
    h.castLocalRayAndGetNormal big ray max solid = some r →
    ∃ i j left hit, i < h.nr - 1 ∧ j < h.nc - 1 ∧
      hfCellCast (h.trianglesAt i j).1 (h.trianglesAt i j).2 ray max solid = some (left, hit) ∧
      r.toi = hit.toi ∧ r.n = hit.n ∧ r.fidx = h.faceId i j left hit.fidx ∧
      (ONotCoplanar sq (h.trianglesAt i j).1 ray → ONotCoplanar sq (h.trianglesAt i j).2 ray →
        FirstHit (CellMem sq (h.trianglesAt i j).1 (h.trianglesAt i j).2) (rayPt sq ray) max (some r.toi)) := by
  intro hc
  simp only [HeightField3.castLocalRayAndGetNormal] at hc
  split at hc
  · cases hc
  · split_ifs at hc with hf
    obtain ⟨i, j, left, hit, hi, hj, hcell, e1, e2, e3⟩ := hf_walk_sound sq big h ray max solid _ _ _ r hc
    refine ⟨i, j, left, hit, hi, hj, hcell, e1, e2, e3, fun n1 n2 => ?_⟩
    have := hfCellCast_firstHit sq _ _ ray max solid n1 n2
    rw [hcell] at this
    simp only [Option.map_some] at this
    rw [e1]; exact this

/-- non-vacuity (over `ℚ`): the single valley cell with corner heights `1, 0, 0, 1` and unit scale, the horizontal ray of the
cell-step example (direction length `√2`, starting under the first slope): the whole cast — bounding-box clip, start cell,
cell step — returns the first crossing `7/20`, on the back face (`+ num_triangles`) of the first triangle. -/
example : letI := fieldNum ℚ id
    ((HeightField3.castLocalRayAndGetNormal (1000 : ℚ) ⟨2, 2, #[1, 0, 0, 1], ⟨1, 1, 1⟩, []⟩
        ⟨⟨-3/5, 1/2, -3/5⟩, ⟨1, 0, 1⟩⟩ 1000 true).map fun r => (r.toi, r.fidx)) = some (7/20, 2) := by
  have hl : ((mkRat 1 2 : ℚ) : ℚ) = 1/2 := by norm_num
  have h2 : ((mkRat 2 1 : ℚ) : ℚ) = 2 := by norm_num
  have h0 : ((mkRat 0 1 : ℚ) : ℚ) = 0 := by norm_num
  have h1 : ((mkRat 1 1 : ℚ) : ℚ) = 1 := by norm_num
  simp only [HeightField3.castLocalRayAndGetNormal, HeightField3.aabb, HeightField3.minH, HeightField3.maxH,
    HeightField3.closestCell, HeightField3.quantizeFloor, HeightField3.ucw, HeightField3.uch, fieldNum_lit,
    clipAabbLine, clipStep, neq, fieldNum_nmax, fieldNum_nmin, Ray3.pointAt, V3.add, V3.smul, List.foldl]
  norm_num [hl, h2, h0, h1, List.range, List.range.loop, HeightField3.walk, HeightField3.trianglesAt, HeightField3.status,
    HeightField3.height, HeightField3.ucw, HeightField3.uch, fieldNum_lit, hfCellCast, hfCellPick,
    Triangle3.castLocalRayAndGetNormal, localRayIntersectionWithTriangle,
    neq, nabs, V3.sub, V3.cross, V3.dot, V3.neg, HeightField3.faceId]

/-- **3-D HeightField cast, the normal.**  With a lawful square root: the reported normal is a unit vector, collinear with
the normal `(b−a)×(c−a)` of a triangle `(a, b, c)` of an existing cell whose cast is the reported hit, and oriented against
the ray (`normal·dir < 0`) — whichever side of the terrain the ray comes from. -/
theorem hf_cast_normal_spec (hs : LawfulSqrt sq) (big : K) (h : HeightField3 K) (ray : Ray3 K) (max : K) (solid : Bool)
    (r : Hit3 K) :
    letI := fieldNum K sq
    h.castLocalRayAndGetNormal big ray max solid = some r →
    r.n.normSq = 1 ∧ r.n.dot ray.d < 0 ∧
    ∃ i j tr, i < h.nr - 1 ∧ j < h.nc - 1 ∧ ((h.trianglesAt i j).1 = some tr ∨ (h.trianglesAt i j).2 = some tr) ∧
      (r.n.smul (triN sq tr.a tr.b tr.c).norm = triN sq tr.a tr.b tr.c ∨
       r.n.smul (triN sq tr.a tr.b tr.c).norm = (triN sq tr.a tr.b tr.c).neg) := by
  intro hc
  obtain ⟨i, j, left, hit, hi, hj, hcell, _, e2, _, _⟩ := hf_cast_sound sq big h ray max solid r hc
  obtain ⟨tr, htr, hcast⟩ := hfCellCast_from_triangle sq _ _ ray max solid left hit hcell
  simp only [Triangle3.castLocalRayAndGetNormal] at hcast
  cases hres : (@localRayIntersectionWithTriangle K (fieldNum K sq) tr.a tr.b tr.c ray) with
  | none => rw [hres] at hcast; cases hcast
  | some p =>
    obtain ⟨h', bary⟩ := p
    rw [hres] at hcast
    simp only at hcast
    split_ifs at hcast
    simp only [Option.some.injEq] at hcast
    subst hcast
    obtain ⟨n1, n2, n3⟩ := triangle_normal_spec sq hs tr.a tr.b tr.c ray h' bary hres
    rw [e2]
    refine ⟨n1, n2, i, j, tr, hi, hj, ?_, n3⟩
    cases left with
    | true => exact Or.inl (by simpa using htr)
    | false => exact Or.inr (by simpa using htr)

/-- the full-strength statement for the 3-D heightfield: the reported time is the first parameter of `[0, max_toi]` at which
the ray is on the surface (the union over ALL cells), and `None` means the segment misses the whole surface.  NOT proved:
it needs the completeness of the grid walk (every cell whose footprint the ray's projection crosses before the hit is
visited, in order) and it is false for rays lying in the plane of a triangle (KNOWN_FINDINGS).  The gap is covered by the
brute-force oracle `soupOracle` on every generated case. -/
def hf_cast_firstHit_full : Prop :=
  ∀ (big : K) (h : HeightField3 K) (ray : Ray3 K) (max : K) (solid : Bool),
    letI := fieldNum K sq
    FirstHit (fun p => ∃ i j, i < h.nr - 1 ∧ j < h.nc - 1 ∧ CellMem sq (h.trianglesAt i j).1 (h.trianglesAt i j).2 p)
      (rayPt sq ray) max ((h.castLocalRayAndGetNormal big ray max solid).map (·.toi))

/-- **Posed heightfield cast = local cast of the inverse-transformed ray**, same time of impact (default
`RayCast::cast_ray_and_get_normal`; the normal is rotated back, see `posed_normal_dot`). -/
theorem hf_posed_toi (big : K) (h : HeightField3 K) (m : Iso3 K) (ray : Ray3 K) (max : K) (solid : Bool) :
    letI := fieldNum K sq
    (h.castRayAndGetNormal big m ray max solid).map (·.toi) =
      (h.castLocalRayAndGetNormal big (ray.invTransform m) max solid).map (·.toi) := by
  simp only [HeightField3.castRayAndGetNormal, Option.map_map]
  rfl

end C04
