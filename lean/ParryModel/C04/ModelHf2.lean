import ParryModel.C04.Model2D
import ParryModel.C04.ModelComposite
/-!
# C04 model, part 5: the 2-D `HeightField` ray cast (`src/query/ray/ray_heightfield.rs`, `#[cfg(feature = "dim2")]`,
`src/shape/heightfield2.rs`): clip against the bounding box, start cell, per-cell segment cast with feature conversion,
linear walk over the cells in the direction of `dir.x` with the code's own exits.  Fuel = `num_cells + 1` (each iteration of
the `while` moves one cell).
-/
namespace Model
variable {K : Type} [Num K]

/-- `HeightField` (2-D): heights, scale, indices of the removed segments -/
structure HeightField2 (K : Type) where
  hs : Array K
  sc : V2 K
  removed : List Nat

namespace HeightField2

def numCells (h : HeightField2 K) : Nat := h.hs.size - 1
/-- nalgebra `max()` / `min()` folds (as in the 3-D model) -/
def maxH (h : HeightField2 K) : K :=
  match h.hs.toList with
  | [] => 0
  | x :: xs => xs.foldl (fun a b => if b ≤ a then a else b) x
def minH (h : HeightField2 K) : K :=
  match h.hs.toList with
  | [] => 0
  | x :: xs => xs.foldl (fun a b => if a ≤ b then a else b) x

/-- the bounding box computed by `HeightField::new` -/
def aabb (h : HeightField2 K) : RcAabb2 K :=
  let hx := h.sc.x * lit 1 2
  let a : V2 K := ⟨-hx, h.minH * h.sc.y⟩
  let b : V2 K := ⟨hx, h.maxH * h.sc.y⟩
  ⟨a.inf b, a.sup b⟩

/-- `unit_cell_width = 1.0 / (heights.len() as Real - 1.0)` -/
def ucw (h : HeightField2 K) : K := 1 / (lit (h.hs.size : Int) - 1)

/-- `cell_at_point(pt)` with the fallback of the ray cast (`unwrap_or_else`) -/
def startCell (h : HeightField2 K) (pt : V2 K) (ox : K) : Nat :=
  let sx := pt.x / h.sc.x
  if sx < -(lit 1 2) ∨ lit 1 2 < sx then (if 0 < ox then h.numCells - 1 else 0)
  else HeightField3.quantizeFloor sx h.ucw h.numCells

/-- `segment_at(i)` -/
def segmentAt (h : HeightField2 K) (i : Nat) : Option (Segment2 K) :=
  if h.numCells ≤ i ∨ h.removed.contains i then none else
  let segLength := h.ucw
  let x0 := -(lit 1 2) + segLength * lit (i : Int)
  let x1 := x0 + segLength
  let y0 := h.hs.getD i 0
  let y1 := h.hs.getD (i + 1) 0
  some ⟨⟨x0 * h.sc.x, y0 * h.sc.y⟩, ⟨x1 * h.sc.x, y1 * h.sc.y⟩⟩

/-- the closure `cast_on_cell` -/
def castOnCell [UlpsEq K] (h : HeightField2 K) (ray : Ray2 K) (maxToi : K) (solid : Bool) (cell : Nat) : Option (Hit2 K) :=
  match h.segmentAt cell with
  | none => none
  | some seg =>
    match seg.castLocalRayAndGetNormal ray maxToi solid with
    | none => none
    | some inter =>
      some (if inter.fkind = 0 then
              (if inter.fidx = 0 then { inter with fidx := cell } else { inter with fidx := cell + h.numCells })
            else if inter.fkind = 1 then { inter with fidx := cell + inter.fidx }
            else inter)

/-- the `while` loop of the 2-D cast; `right = dir.x > 0` -/
def walk [UlpsEq K] (h : HeightField2 K) (ray : Ray2 K) (maxToi : K) (solid : Bool) (maxT : K) (right : Bool) :
    Nat → Nat → Option (Hit2 K)
  | 0, _ => none
  | fuel + 1, curr =>
    if (right && decide (curr < h.numCells)) || (!right && decide (0 < curr)) then
      let cw := h.ucw * h.sc.x
      let startX := h.sc.x * lit (-1) 2
      let next := if right then curr + 1 else curr - 1
      let param :=
        if right then (cw * lit ((curr + 1 : Nat) : Int) + startX - ray.o.x) / ray.d.x
        else (ray.o.x - cw * lit (curr : Int) - startX) / ray.d.x
      if maxT ≤ param then none
      else
        match h.castOnCell ray maxToi solid next with
        | some inter => some inter
        | none => walk h ray maxToi solid maxT right fuel next
    else none

/-- `HeightField::cast_local_ray_and_get_normal` (2-D) -/
def castLocalRayAndGetNormal [UlpsEq K] (big : K) (h : HeightField2 K) (ray : Ray2 K) (maxToi : K) (solid : Bool) :
    Option (Hit2 K) :=
  match clipAabbLine2 big h.aabb ray.o ray.d with
  | .none => none
  | .some near far =>
    if far.t < 0 then none else
    let minT := nmax near.t 0
    if maxToi < minT then none else
    let maxT := nmin far.t maxToi
    let curr := h.startCell (ray.pointAt minT) ray.o.x
    match h.castOnCell ray maxToi solid curr with
    | some inter => some inter
    | none =>
      if neq ray.d.x 0 then none
      else walk h ray maxToi solid maxT (decide (0 < ray.d.x)) (h.numCells + 1) curr

end HeightField2
end Model
