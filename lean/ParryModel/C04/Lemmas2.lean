import ParryModel.C04.Lemmas
import ParryModel.C04.ModelComposite
/-!
# C04 helper lemmas, part 2 (not obligations): the BVH pruning test `SimdAabb::cast_local_ray` and the per-cell step of the
3-D heightfield cast.  Vocabulary (`FirstHit`, `AabbMem`, `SlabMem`, `rayPt`, …) is that of `C04/Lemmas.lean`.
-/
namespace C04
open Model

variable {K : Type} [Field K] [LinearOrder K] [IsStrictOrderedRing K] (sq : K → K)

/-! ## `SimdAabb::cast_local_ray` -/

/-- loop invariant of one lane of `SimdAabb::cast_local_ray` after some axes have been processed (`P` = the conjunction of
their slab conditions): while the lane is alive, `[tmin, tmax] ⊆ [0, max]` is exactly the set of parameters of `[0, max]`
satisfying `P`; once it is dead no parameter of `[0, max]` satisfies `P`. -/
structure SimdInv (max : K) (P : K → Prop) (st : SimdSt K) : Prop where
  lo : 0 ≤ st.tmin
  hi : st.tmax ≤ max
  alive : st.hit = true → st.tmin ≤ st.tmax ∧ ∀ s, 0 ≤ s → s ≤ max → (P s ↔ st.tmin ≤ s ∧ s ≤ st.tmax)
  dead : st.hit = false → ∀ s, 0 ≤ s → s ≤ max → ¬ P s

/-- on an axis with `dir[i] == 0` the sentinels `∓Real::MAX` leave `tmin`/`tmax` unchanged and the lane survives iff the
origin coordinate is in the CLOSED slab -/
theorem simdSlabStep_zero (big mn mx o : K) (st : SimdSt K) (hb : 0 ≤ big) (h1 : 0 ≤ st.tmin) (h2 : st.tmax ≤ big) :
    letI := fieldNum K sq
    simdSlabStep big mn mx o 0 st = ⟨st.hit && (decide (mn ≤ o) && decide (o ≤ mx)), st.tmin, st.tmax⟩ := by
  have hz : @neq K (fieldNum K sq) 0 0 = true := (neq_zero_iff sq 0).2 rfl
  simp only [simdSlabStep, hz, Bool.not_true, Bool.false_eq_true, if_false]
  have e1 : ¬ (big < -big) := by push Not; linarith
  have e2 : -big ≤ st.tmin := by linarith
  simp only [e1, decide_false, Bool.false_eq_true, if_false, e2, if_true, h2]

/-- on an axis with `dir[i] != 0`: `tmin ← max(tmin, near)`, `tmax ← min(tmax, far)`, alive iff `tmin ≤ tmax` -/
theorem simdSlabStep_nonzero (big mn mx o d : K) (st : SimdSt K) (hd : d ≠ 0) :
    letI := fieldNum K sq
    simdSlabStep big mn mx o d st =
      ⟨st.hit && decide (max st.tmin (if (mx - o) * (1 / d) < (mn - o) * (1 / d) then (mx - o) * (1 / d) else (mn - o) * (1 / d)) ≤
                        min st.tmax (if (mx - o) * (1 / d) < (mn - o) * (1 / d) then (mn - o) * (1 / d) else (mx - o) * (1 / d))),
       max st.tmin (if (mx - o) * (1 / d) < (mn - o) * (1 / d) then (mx - o) * (1 / d) else (mn - o) * (1 / d)),
       min st.tmax (if (mx - o) * (1 / d) < (mn - o) * (1 / d) then (mn - o) * (1 / d) else (mx - o) * (1 / d))⟩ := by
  have hz : @neq K (fieldNum K sq) d 0 = false := by
    rw [Bool.eq_false_iff]; exact fun h => hd ((neq_zero_iff sq d).1 h)
  simp only [simdSlabStep, hz, Bool.not_false, if_true]
  generalize (mx - o) * (1 / d) = f0
  generalize (mn - o) * (1 / d) = n0
  have em : ∀ a b : K, (if b ≤ a then a else b) = max a b := by
    intro a b; rcases le_total b a with h | h
    · rw [if_pos h, max_eq_left h]
    · rcases eq_or_lt_of_le h with h' | h'
      · subst h'; simp
      · rw [if_neg (not_le.2 h'), max_eq_right h]
  have en : ∀ a b : K, (if a ≤ b then a else b) = min a b := by
    intro a b; rcases le_total a b with h | h
    · rw [if_pos h, min_eq_left h]
    · rcases eq_or_lt_of_le h with h' | h'
      · subst h'; simp
      · rw [if_neg (not_le.2 h'), min_eq_right h]
  by_cases hg : f0 < n0
  · simp only [hg, decide_true, if_true, em, en]
  · simp only [hg, decide_false, Bool.false_eq_true, if_false, em, en]

theorem simdSlabStep_inv (big mn mx o d M : K) (hbox : mn ≤ mx) (hb : 0 ≤ big) (hmax : M ≤ big) (P : K → Prop)
    (st : SimdSt K) (hinv : SimdInv M P st) :
    letI := fieldNum K sq
    SimdInv M (fun s => P s ∧ SlabMem mn mx o d s) (simdSlabStep big mn mx o d st) := by
  by_cases hd : d = 0
  · subst hd
    rw [simdSlabStep_zero sq big mn mx o st hb hinv.lo (le_trans hinv.hi hmax)]
    have hsl : ∀ s, SlabMem mn mx o 0 s ↔ (mn ≤ o ∧ o ≤ mx) := by
      intro s; unfold SlabMem; simp only [zero_mul, add_zero]
    refine ⟨hinv.lo, hinv.hi, ?_, ?_⟩
    · intro hh
      simp only [Bool.and_eq_true, decide_eq_true_eq] at hh
      obtain ⟨ha, hin⟩ := hh
      obtain ⟨hle, hiff⟩ := hinv.alive ha
      refine ⟨hle, fun s hs0 hsm => ?_⟩
      rw [hsl, ← hiff s hs0 hsm]
      exact ⟨fun h => h.1, fun h => ⟨h, hin⟩⟩
    · intro hh s hs0 hsm ⟨hp, hs⟩
      rw [hsl] at hs
      cases ha : st.hit with
      | false => exact hinv.dead ha s hs0 hsm hp
      | true =>
        rw [ha] at hh
        simp only [Bool.true_and, Bool.and_eq_false_iff, decide_eq_false_iff_not] at hh
        rcases hh with hh | hh
        · exact hh hs.1
        · exact hh hs.2
  · rw [simdSlabStep_nonzero sq big mn mx o d st hd]
    have hs := slab_iff mn mx o d
    generalize (if (mx - o) * (1 / d) < (mn - o) * (1 / d) then (mx - o) * (1 / d) else (mn - o) * (1 / d)) = near at *
    generalize (if (mx - o) * (1 / d) < (mn - o) * (1 / d) then (mn - o) * (1 / d) else (mx - o) * (1 / d)) = far at *
    refine ⟨le_trans hinv.lo (le_max_left _ _), le_trans (min_le_left _ _) hinv.hi, ?_, ?_⟩
    · intro hh
      simp only [Bool.and_eq_true, decide_eq_true_eq] at hh
      obtain ⟨ha, hle⟩ := hh
      obtain ⟨_, hiff⟩ := hinv.alive ha
      refine ⟨hle, fun s hs0 hsm => ?_⟩
      rw [hiff s hs0 hsm, hs s hbox hd]
      simp only [max_le_iff, le_min_iff]; tauto
    · intro hh s hs0 hsm ⟨hp, hsl⟩
      rw [hs s hbox hd] at hsl
      cases ha : st.hit with
      | false => exact hinv.dead ha s hs0 hsm hp
      | true =>
        rw [ha] at hh
        simp only [Bool.true_and, decide_eq_false_iff_not, not_le] at hh
        obtain ⟨_, hiff⟩ := hinv.alive ha
        have hp' := (hiff s hs0 hsm).1 hp
        have h1 : max st.tmin near ≤ s := max_le hp'.1 hsl.1
        have h2 : s ≤ min st.tmax far := le_min hp'.2 hsl.2
        linarith

/-- the three iterations: the final lane state satisfies the invariant for the whole box -/
theorem simdAabb_fold (big : K) (b : Aabb K) (ray : Ray3 K) (max : K) (hv : AabbValid b) (hb : 0 ≤ big) (h0 : 0 ≤ max)
    (hmax : max ≤ big) :
    letI := fieldNum K sq
    ∃ st : SimdSt K, simdAabbCastLocalRay big b ray max = (st.hit, st.tmin) ∧
      SimdInv max (fun s => AabbMem b (rayPt sq ray s)) st := by
  obtain ⟨vx, vy, vz⟩ := hv
  have i0 : SimdInv max (fun _ => True) (⟨true, 0, max⟩ : SimdSt K) :=
    ⟨le_refl _, le_refl _, fun _ => ⟨h0, fun s a b => ⟨fun _ => ⟨a, b⟩, fun _ => trivial⟩⟩, fun h => by cases h⟩
  have i1 := simdSlabStep_inv sq big b.mins.x b.maxs.x ray.o.x ray.d.x max vx hb hmax _ _ i0
  have i2 := simdSlabStep_inv sq big b.mins.y b.maxs.y ray.o.y ray.d.y max vy hb hmax _ _ i1
  have i3 := simdSlabStep_inv sq big b.mins.z b.maxs.z ray.o.z ray.d.z max vz hb hmax _ _ i2
  refine ⟨_, rfl, ⟨i3.lo, i3.hi, fun h => ?_, fun h s a c hm => ?_⟩⟩
  · obtain ⟨hle, hiff⟩ := i3.alive h
    refine ⟨hle, fun s a c => ?_⟩
    rw [← hiff s a c, aabbMem_rayPt]; tauto
  · have hm' := (aabbMem_rayPt sq b ray s).1 hm
    exact i3.dead h s a c ⟨⟨⟨trivial, hm'.1⟩, hm'.2.1⟩, hm'.2.2⟩

/-! ## heightfield cell step -/

/-- the nearer of two optional times (ties: the second), the `match (inter1, inter2)` of the heightfield cast on times -/
def omin : Option K → Option K → Option K
  | some a, some b => if a < b then some a else some b
  | some a, none => some a
  | none, some b => some b
  | none, none => none

/-- the first hit of a union is the nearer of the two first hits -/
theorem firstHit_union {α : Type} (S1 S2 : α → Prop) (pt : K → α) (max : K) (r1 r2 : Option K)
    (h1 : FirstHit S1 pt max r1) (h2 : FirstHit S2 pt max r2) :
    FirstHit (fun p => S1 p ∨ S2 p) pt max (omin r1 r2) := by
  cases r1 with
  | none =>
    cases r2 with
    | none =>
      intro s hs hm h
      rcases h with h | h
      · exact h1 s hs hm h
      · exact h2 s hs hm h
    | some b =>
      obtain ⟨b0, bm, bS, bF⟩ := h2
      refine ⟨b0, bm, Or.inr bS, fun s hs hlt h => ?_⟩
      rcases h with h | h
      · exact h1 s hs (le_trans hlt.le bm) h
      · exact bF s hs hlt h
  | some a =>
    obtain ⟨a0, am, aS, aF⟩ := h1
    cases r2 with
    | none =>
      refine ⟨a0, am, Or.inl aS, fun s hs hlt h => ?_⟩
      rcases h with h | h
      · exact aF s hs hlt h
      · exact h2 s hs (le_trans hlt.le am) h
    | some b =>
      obtain ⟨b0, bm, bS, bF⟩ := h2
      simp only [omin]
      split_ifs with hab
      · refine ⟨a0, am, Or.inl aS, fun s hs hlt h => ?_⟩
        rcases h with h | h
        · exact aF s hs hlt h
        · exact bF s hs (lt_trans hlt hab) h
      · push Not at hab
        refine ⟨b0, bm, Or.inr bS, fun s hs hlt h => ?_⟩
        rcases h with h | h
        · exact aF s hs (lt_of_lt_of_le hlt hab) h
        · exact bF s hs hlt h

/-- the pick of the cell step, on times -/
theorem hfCellPick_toi (i1 i2 : Option (Hit3 K)) :
    letI := fieldNum K sq
    (hfCellPick i1 i2).map (fun r => r.2.toi) = omin (i1.map (·.toi)) (i2.map (·.toi)) := by
  cases i1 <;> cases i2 <;> simp only [hfCellPick, omin, Option.map_some, Option.map_none]
  split_ifs <;> rfl

end C04
