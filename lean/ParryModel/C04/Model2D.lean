import ParryModel.C04.Model
/-!
# C04 model, part 4: the 2-D crate (`parry2d`) instances of the closed-form casts.

`ray_ball.rs`, `ray_aabb.rs`, `clip_aabb_line.rs`, `ray_cuboid.rs` are dimension-generic source files: the 2-D functions
below are the same text as their 3-D models in `Model.lean` with `DIM = 2` (two slab iterations, 2-D dot products).
`Triangle::cast_local_ray_and_get_normal` has a 2-D body of its own (`ray_triangle.rs`, `#[cfg(feature = "dim2")]`):
an orientation test of the origin against the three edges for `solid`, then the nearest of the three edge casts.
-/
namespace Model
variable {K : Type} [Num K]

/-! ## Ball (2-D) -/

/-- `ray_toi_with_ball` (2-D) -/
def rayToiWithBall2 (center : V2 K) (radius : K) (ray : Ray2 K) (solid : Bool) : Bool × Option K :=
  let dcenter := ray.o.sub center
  let a := ray.d.normSq
  let b := dcenter.dot ray.d
  let c := dcenter.normSq - radius * radius
  if neq a 0 then
    if 0 < c then (false, none) else (true, some 0)
  else if 0 < c ∧ 0 < b then (false, none)
  else
    let delta := b * b - a * c
    if delta < 0 then (false, none)
    else
      let t := (-b - Num.sqrt delta) / a
      if t ≤ 0 then
        if solid then (true, some 0) else (true, some ((-b + Num.sqrt delta) / a))
      else (false, some t)

/-- `ray_toi_and_normal_with_ball` (2-D) -/
def rayToiAndNormalWithBall2 (center : V2 K) (radius : K) (ray : Ray2 K) (solid : Bool) : Bool × Option (Hit2 K) :=
  let (inside, inter) := rayToiWithBall2 center radius ray solid
  (inside, inter.map fun n =>
    let pos := (ray.o.add (ray.d.smul n)).sub center
    let normal := pos.normalize
    { toi := n, n := if inside then normal.neg else normal, fkind := 0, fidx := 0 })

/-- `Ball::cast_local_ray` (2-D) -/
def Ball.castLocalRay2 (s : Ball K) (ray : Ray2 K) (maxToi : K) (solid : Bool) : Option K :=
  (rayToiWithBall2 V2.zero s.r ray solid).2.filter fun t => decide (t ≤ maxToi)
/-- `Ball::cast_local_ray_and_get_normal` (2-D) -/
def Ball.castLocalRayAndGetNormal2 (s : Ball K) (ray : Ray2 K) (maxToi : K) (solid : Bool) : Option (Hit2 K) :=
  (rayToiAndNormalWithBall2 V2.zero s.r ray solid).2.filter fun h => decide (h.toi ≤ maxToi)
/-- default `RayCast::cast_ray_and_get_normal`, 2-D ball -/
def Ball.castRayAndGetNormal2 (s : Ball K) (m : Iso2 K) (ray : Ray2 K) (maxToi : K) (solid : Bool) : Option (Hit2 K) :=
  (s.castLocalRayAndGetNormal2 (ray.invTransform m) maxToi solid).map (·.transformBy m)

/-! ## Aabb / Cuboid (2-D) -/

structure RcAabb2 (K : Type) where
  mins : V2 K
  maxs : V2 K

/-- `Aabb::cast_local_ray` (2-D: two iterations of the slab loop) -/
def RcAabb2.castLocalRay (big : K) (b : RcAabb2 K) (ray : Ray2 K) (maxToi : K) (solid : Bool) : Option K :=
  match slabStep b.mins.x b.maxs.x ray.o.x ray.d.x (0, big) with
  | none => none
  | some s0 =>
  match slabStep b.mins.y b.maxs.y ray.o.y ray.d.y s0 with
  | none => none
  | some (tmin, tmax) =>
    let toi := if neq tmin 0 && !solid then tmax else tmin
    if toi ≤ maxToi then some toi else none

structure ClipEnd2 (K : Type) where
  t : K
  n : V2 K
  side : Int

inductive ClipRes2 (K : Type) where
  | none
  | some (near far : ClipEnd2 K)

/-- `±e_k` written into `Vector::zeros()` (2-D) -/
def axisVec2 (k : Int) (v : K) : V2 K := if k = 0 then ⟨v, 0⟩ else ⟨0, v⟩

/-- `clip_aabb_line` (2-D) -/
def clipAabbLine2 (big : K) (b : RcAabb2 K) (o d : V2 K) : ClipRes2 K :=
  let st : ClipSt K := ⟨-big, big, 0, 0, false, false⟩
  match clipStep 0 b.mins.x b.maxs.x o.x d.x st with
  | none => .none
  | some s0 =>
  match clipStep 1 b.mins.y b.maxs.y o.y d.y s0 with
  | none => .none
  | some s =>
    let near : ClipEnd2 K :=
      if s.nearDiag then ⟨s.tmin, d.normalize.neg, s.nearSide⟩
      else if s.nearSide < 0 then ⟨s.tmin, axisVec2 (-s.nearSide - 1) 1, s.nearSide⟩
      else if 0 < s.nearSide then ⟨s.tmin, axisVec2 (s.nearSide - 1) (-1), s.nearSide⟩
      else ⟨s.tmin, V2.zero, s.nearSide⟩
    let far : ClipEnd2 K :=
      if s.farDiag then ⟨s.tmax, d.normalize.neg, s.farSide⟩
      else if s.farSide < 0 then ⟨s.tmax, axisVec2 (-s.farSide - 1) (-1), s.farSide⟩
      else if 0 < s.farSide then ⟨s.tmax, axisVec2 (s.farSide - 1) 1, s.farSide⟩
      else ⟨s.tmax, V2.zero, s.farSide⟩
    .some near far

/-- `ray_aabb` + feature of `Aabb::cast_local_ray_and_get_normal` (2-D).  The feature formula is the 3-D one
(`Face(-i - 1 + 3)` for `i < 0`) also in the 2-D crate. -/
def RcAabb2.castLocalRayAndGetNormal (big : K) (b : RcAabb2 K) (ray : Ray2 K) (maxToi : K) (solid : Bool) : Option (Hit2 K) :=
  let mk := fun (t : K) (n : V2 K) (i : Int) =>
    ({ toi := t, n := n, fkind := 0,
       fidx := if i < 0 then (-i - 1 + 3).toNat else if i = 0 then 4294967295 else (i - 1).toNat } : Hit2 K)
  match clipAabbLine2 big b ray.o ray.d with
  | .none => none
  | .some near far =>
    if far.t < 0 then none
    else if near.t < 0 then
      if solid then some (mk 0 V2.zero far.side)
      else if far.t ≤ maxToi then some (mk far.t far.n far.side)
      else none
    else if near.t ≤ maxToi then some (mk near.t near.n near.side)
    else none

/-- `Cuboid::cast_local_ray` (2-D) -/
def Cuboid2.castLocalRay (big : K) (s : Cuboid2 K) (ray : Ray2 K) (maxToi : K) (solid : Bool) : Option K :=
  (RcAabb2.mk s.he.neg s.he).castLocalRay big ray maxToi solid
/-- `Cuboid::cast_local_ray_and_get_normal` (2-D) -/
def Cuboid2.castLocalRayAndGetNormal (big : K) (s : Cuboid2 K) (ray : Ray2 K) (maxToi : K) (solid : Bool) :
    Option (Hit2 K) :=
  (RcAabb2.mk s.he.neg s.he).castLocalRayAndGetNormal big ray maxToi solid
/-- posed form (default `cast_ray_and_get_normal`) -/
def Cuboid2.castRayAndGetNormal (big : K) (s : Cuboid2 K) (m : Iso2 K) (ray : Ray2 K) (maxToi : K) (solid : Bool) :
    Option (Hit2 K) :=
  (s.castLocalRayAndGetNormal big (ray.invTransform m) maxToi solid).map (·.transformBy m)

/-! ## Triangle (2-D) -/

/-- the `solid` inside test of the 2-D triangle cast: the three `perp` signs agree -/
def Triangle2.originInsideTest (s : Triangle2 K) (o : V2 K) : Bool :=
  let s1 : Bool := decide (0 < (s.b.sub s.a).perp (o.sub s.a))
  let s2 : Bool := decide (0 < (s.c.sub s.b).perp (o.sub s.b))
  let s3 : Bool := decide (0 < (s.a.sub s.c).perp (o.sub s.c))
  (s1 == s2) && (s1 == s3)

/-- one iteration of `for edge in &edges { … if inter.time_of_impact < smallest_toi { … } }` -/
def tri2Fold (acc : Option (Hit2 K) × K) (inter : Option (Hit2 K)) : Option (Hit2 K) × K :=
  match inter with
  | none => acc
  | some h => if h.toi < acc.2 then (some h, h.toi) else acc

/-- `Triangle::cast_local_ray_and_get_normal` (2-D); `big` is `Real::MAX` -/
def Triangle2.castLocalRayAndGetNormal [UlpsEq K] (big : K) (s : Triangle2 K) (ray : Ray2 K) (maxToi : K) (solid : Bool) :
    Option (Hit2 K) :=
  if solid && s.originInsideTest ray.o then some { toi := 0, n := ⟨0, 1⟩, fkind := 0, fidx := 0 }
  else
    let e0 := (Segment2.mk s.a s.b).castLocalRayAndGetNormal ray maxToi solid
    let e1 := (Segment2.mk s.b s.c).castLocalRayAndGetNormal ray maxToi solid
    let e2 := (Segment2.mk s.c s.a).castLocalRayAndGetNormal ray maxToi solid
    (tri2Fold (tri2Fold (tri2Fold (none, big) e0) e1) e2).1

/-- posed form -/
def Triangle2.castRayAndGetNormal [UlpsEq K] (big : K) (s : Triangle2 K) (m : Iso2 K) (ray : Ray2 K) (maxToi : K)
    (solid : Bool) : Option (Hit2 K) :=
  (s.castLocalRayAndGetNormal big (ray.invTransform m) maxToi solid).map (·.transformBy m)

end Model
